//! Scratch probe (design-time only): invalidation (C03/C09): observers and subscribers on nodes created
//! inside a bind, and on outside nodes that use them as inputs, when the bind re-runs.
use incremental::*;
use std::cell::RefCell;
use std::collections::HashMap;
use std::panic::{catch_unwind, AssertUnwindSafe};
use std::rc::Rc;
struct Rng(u64);
impl Rng { fn next(&mut self) -> u64 { self.0 ^= self.0 << 13; self.0 ^= self.0 >> 7; self.0 ^= self.0 << 17; self.0 }
           fn below(&mut self, n: usize) -> usize { (self.next() % (n as u64)) as usize } }
struct Leak { gen: u64, inner: Incr<i64>, outside: Incr<i64>, outside2: Incr<i64>, obs_inner: Observer<i64>, obs_out: Observer<i64>, obs_out2: Option<Observer<i64>>, log: Rc<RefCell<Vec<String>>>, log_out: Rc<RefCell<Vec<String>>>, dead: bool }
fn run(seed: u64) -> Result<u64, String> {
    let mut rng = Rng(seed.wrapping_mul(0x9E3779B97F4A7C15) | 1);
    let st = IncrState::new();
    let sel = st.var(0i64); let x = st.var(1i64); let y = st.var(10i64);
    let (mut selv, mut xv, mut yv) = (0i64, 1i64, 10i64);
    let slot: Rc<RefCell<Vec<(u64, Incr<i64>)>>> = Default::default();
    let gen = Rc::new(std::cell::Cell::new(0u64));
    let (s2, g2, xw, yw) = (slot.clone(), gen.clone(), x.watch(), y.watch());
    let nested = rng.below(2) == 0;
    let b = sel.bind(move |&s| { g2.set(g2.get() + 1); let g = g2.get();
        let inner = xw.map(move |v| v + s);                 // created in scope
        s2.borrow_mut().push((g, inner.clone()));
        if nested { let yw2 = yw.clone(); let inner2 = inner.clone(); inner.bind(move |&iv| if iv % 2 == 0 { yw2.clone() } else { inner2.map(|q| q * 2) }) } else { inner.map2(&yw, |a, b| a + b) } });
    let ob = b.observe();
    let mut leaks: Vec<Leak> = vec![]; let mut checks = 0u64; let mut cur_gen = 0u64;
    st.stabilise();
    for step in 0..(8 + rng.below(25)) {
        // pick up newly leaked nodes: observe + subscribe them, and build outside dependants on them
        for (g, inner) in slot.borrow_mut().drain(..) { cur_gen = cur_gen.max(g);
            let log: Rc<RefCell<Vec<String>>> = Default::default(); let log_out: Rc<RefCell<Vec<String>>> = Default::default();
            let outside = inner.map(|v| v * 100); let outside2 = outside.map2(&y, |a, b| a + b);
            let obs_inner = inner.observe(); let l = log.clone(); obs_inner.subscribe(move |u| l.borrow_mut().push(format!("{:?}", u.cloned())));
            let obs_out = outside.observe(); let l = log_out.clone(); obs_out.subscribe(move |u| l.borrow_mut().push(format!("{:?}", u.cloned())));
            let obs_out2 = if rng.below(2) == 0 { Some(outside2.observe()) } else { None };
            leaks.push(Leak { gen: g, inner, outside, outside2, obs_inner, obs_out, obs_out2, log, log_out, dead: false }); }
        match rng.below(6) { 0 | 1 => { selv = rng.below(3) as i64; sel.set(selv); } 2 => { xv = rng.below(4) as i64; x.set(xv); } 3 => { yv = 10 + rng.below(3) as i64; y.set(yv); } _ => {} }
        for l in &leaks { l.log.borrow_mut().clear(); l.log_out.borrow_mut().clear(); }
        let gen_before = gen.get();
        st.stabilise();
        let reran = gen.get() != gen_before;
        let inner_val = xv + selv;
        let want_b = if nested { if inner_val % 2 == 0 { yv } else { inner_val * 2 } } else { inner_val + yv };
        checks += 1; if ob.try_get_value() != Ok(want_b) { return Err(format!("C01 seed {seed} step {step}: bind {:?} want {want_b}", ob.try_get_value())); }
        let newest = gen.get();
        for l in leaks.iter_mut() {
            let current = l.gen == newest;
            checks += 3;
            if current {
                if l.obs_inner.try_get_value() != Ok(inner_val) { return Err(format!("C03 seed {seed} step {step}: current inner {:?} want {inner_val}", l.obs_inner.try_get_value())); }
                if l.obs_out.try_get_value() != Ok(inner_val * 100) { return Err(format!("C03 seed {seed} step {step}: current outside {:?}", l.obs_out.try_get_value())); }
                if let Some(o) = &l.obs_out2 { if o.try_get_value() != Ok(inner_val * 100 + yv) { return Err(format!("C03 seed {seed} step {step}: current outside2 {:?}", o.try_get_value())); } }
                for e in l.log.borrow().iter().chain(l.log_out.borrow().iter()) { if e == "Invalidated" { return Err(format!("C09 seed {seed} step {step}: Invalidated delivered for the current generation")); } }
            } else {
                if l.obs_inner.try_get_value() != Err(ObserverError::ObservingInvalid) { return Err(format!("C03 seed {seed} step {step}: old inner (gen {} of {newest}) reads {:?}", l.gen, l.obs_inner.try_get_value())); }
                if l.obs_out.try_get_value() != Err(ObserverError::ObservingInvalid) { return Err(format!("C03 seed {seed} step {step}: outside dependant of old inner reads {:?}", l.obs_out.try_get_value())); }
                if let Some(o) = &l.obs_out2 { if o.try_get_value() != Err(ObserverError::ObservingInvalid) { return Err(format!("C03 seed {seed} step {step}: second-level outside dependant reads {:?}", o.try_get_value())); } }
                let (a, b2) = (l.log.borrow().clone(), l.log_out.borrow().clone());
                if !l.dead { // this is the round in which it died: exactly one Invalidated each, as the last event
                    if a.last().map(|s| s.as_str()) != Some("Invalidated") || a.iter().filter(|s| *s == "Invalidated").count() != 1 { return Err(format!("C09 seed {seed} step {step}: inner subscriber in dying round got {a:?} (reran {reran})")); }
                    if b2.last().map(|s| s.as_str()) != Some("Invalidated") || b2.iter().filter(|s| *s == "Invalidated").count() != 1 { return Err(format!("C09 seed {seed} step {step}: outside subscriber in dying round got {b2:?}")); }
                    l.dead = true;
                } else if !a.is_empty() || !b2.is_empty() { return Err(format!("C09 seed {seed} step {step}: events after Invalidated: {a:?} {b2:?}")); }
            }
        }
        let _ = (&leaks.last().map(|l| (&l.inner, &l.outside, &l.outside2)), cur_gen);
    }
    Ok(checks)
}
fn main() {
    let args: Vec<String> = std::env::args().collect(); std::panic::set_hook(Box::new(|_| {}));
    let from: u64 = args[1].parse().unwrap(); let to: u64 = args[2].parse().unwrap();
    let (mut fails, mut checks) = (0, 0u64); let mut kinds: HashMap<String, u64> = HashMap::new();
    for seed in from..to { let r = catch_unwind(AssertUnwindSafe(|| run(seed)));
        let msg = match r { Ok(Ok(c)) => { checks += c; continue } Ok(Err(e)) => e, Err(e) => format!("PANIC seed {seed}: {}", e.downcast_ref::<String>().cloned().or_else(|| e.downcast_ref::<&str>().map(|s| s.to_string())).unwrap_or_default().lines().next().unwrap_or("").chars().take(110).collect::<String>()) };
        fails += 1; let key: String = msg.split(": ").nth(1).unwrap_or("").chars().filter(|c| !c.is_ascii_digit()).take(44).collect();
        let e = kinds.entry(key).or_insert(0); *e += 1; if *e <= 2 { println!("{msg}"); } }
    println!("runs {} fails {} checks {}", to - from, fails, checks);
    let mut k: Vec<_> = kinds.into_iter().collect(); k.sort(); for (k, v) in k { println!("  {v:6}  {k}"); }
}
