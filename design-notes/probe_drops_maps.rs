//! Scratch probe (design-time only): C12 for incremental-map operators and subscriptions:
//! after dropping every handle (random order, state first/last/never) and one stabilise, everything is released.
use im_rc::OrdMap;
use incremental::*;
use incremental_map::prelude::*;
use std::collections::{BTreeMap, HashMap};
use std::panic::{catch_unwind, AssertUnwindSafe};
use std::rc::{Rc, Weak};
struct Rng(u64);
impl Rng { fn next(&mut self) -> u64 { self.0 ^= self.0 << 13; self.0 ^= self.0 >> 7; self.0 ^= self.0 << 17; self.0 }
           fn below(&mut self, n: usize) -> usize { (self.next() % (n as u64)) as usize } }
type M = BTreeMap<i32, i32>;
enum H { St(IncrState), VB(Var<M>), VO(Var<OrdMap<i32, i32>>), VI(Var<i32>), NB(Incr<M>), NO(Incr<OrdMap<i32, i32>>), NI(Incr<i32>), OB(Observer<M>), OO(Observer<OrdMap<i32, i32>>), OI(Observer<i32>), Stab }
fn run(seed: u64) -> Result<u64, String> {
    let mut rng = Rng(seed.wrapping_mul(0x9E3779B97F4A7C15) | 1);
    let st = IncrState::new();
    let mut flags: Vec<(String, Weak<()>)> = vec![]; let mut hs: Vec<H> = vec![];
    let mut flag = |name: &str| { let f = Rc::new(()); flags.push((name.to_string(), Rc::downgrade(&f))); f };
    let m0: M = (0..(rng.below(4) as i32)).map(|k| (k, k * 2)).collect();
    let vb = st.var(m0.clone()); let vo: Var<OrdMap<i32, i32>> = st.var(m0.iter().map(|(k, v)| (*k, *v)).collect()); let outer = st.var(1i32);
    let mut wb: Vec<(String, WeakIncr<M>)> = vec![]; let mut wo: Vec<(String, WeakIncr<OrdMap<i32, i32>>)> = vec![]; let mut wi: Vec<(String, WeakIncr<i32>)> = vec![];
    let f = flag("filter_mapi fn"); let n1 = vb.incr_filter_mapi(move |k, v| { let _f = &f; if (k + v) % 3 == 0 { None } else { Some(k + v) } });
    let f = flag("fold add"); let f2 = flag("fold remove"); let n2 = vb.incr_unordered_fold(0i32, move |a, _k, v| { let _f = &f; a + v }, move |a, _k, v| { let _f = &f2; a - v }, rng.below(2) == 0);
    let f = flag("merge fn"); let n3 = vb.incr_merge(&n1, move |_k, e| { let _f = &f; match e { MergeElement::Both(a, b) => Some(a + b), MergeElement::Left(a) => Some(*a), MergeElement::Right(_) => None } });
    let f = flag("mapi_ fn"); let ow = outer.watch(); let n4 = vb.incr_mapi_(move |_k, v| { let _f = &f; v.map2(&ow, |x, o| x + o) });
    let f = flag("mapi_ ignore fn"); let ow2 = outer.watch(); let n5 = vo.incr_mapi_(move |_k, _v| { let _f = &f; ow2.map(|o| *o) });
    let f = flag("filter_mapi_ bind fn"); let ow3 = outer.watch(); let n6 = vo.incr_filter_mapi_(move |_k, v| { let _f = &f; let ow4 = ow3.clone(); v.bind(move |&x| if x % 2 == 0 { ow4.map(|o| Some(*o)) } else { ow4.map(|_| None) }) });
    let f = flag("partition fn"); let n7 = vo.incr_partition(move |_k, v| { let _f = &f; v % 2 == 0 });
    let n7a = n7.map(|(a, _)| a.clone());
    wb.push(("filter_mapi".into(), n1.weak())); wi.push(("fold".into(), n2.weak())); wb.push(("merge".into(), n3.weak())); wb.push(("mapi_".into(), n4.weak()));
    wo.push(("mapi_ ignore".into(), n5.weak())); wo.push(("filter_mapi_ bind".into(), n6.weak())); wo.push(("partition.0".into(), n7a.weak()));
    let subflag = flag("subscription closure");
    for (i, n) in [&n1, &n3, &n4].iter().enumerate() { if rng.below(3) != 0 { let o = n.observe(); if i == 0 { let sf = subflag.clone(); o.subscribe(move |_| { let _s = &sf; }); } hs.push(H::OB(o)); } }
    drop(subflag);
    for n in [&n5, &n6, &n7a] { if rng.below(3) != 0 { hs.push(H::OO(n.observe())); } }
    if rng.below(2) == 0 { hs.push(H::OI(n2.observe())); }
    st.stabilise();
    for step in 0..rng.below(5) { let mut m = vb.get(); match rng.below(3) { 0 => { m.insert(rng.below(5) as i32, rng.below(5) as i32); } 1 => { let k = rng.below(5) as i32; m.remove(&k); } _ => m.clear() }
        vo.set(m.iter().map(|(k, v)| (*k, *v)).collect()); vb.set(m); if step % 2 == 0 { outer.set(step as i32); } st.stabilise(); }
    drop(n7);
    hs.extend([H::VB(vb), H::VO(vo), H::VI(outer), H::NB(n1), H::NI(n2), H::NB(n3), H::NB(n4), H::NO(n5), H::NO(n6), H::NO(n7a), H::Stab, H::Stab]);
    let keep = st.clone(); hs.push(H::St(st)); let mut keep = Some(keep); let drop_state = rng.below(2) == 0;
    while !hs.is_empty() { let i = rng.below(hs.len()); match hs.swap_remove(i) { H::Stab => { if let Some(s) = &keep { s.stabilise(); } } H::St(s) => { drop(s); if drop_state { keep = None; } } other => drop(other) } }
    if let Some(s) = &keep { s.stabilise(); }
    let mut checks = 0;
    for (n, w) in &wb { checks += 1; if w.strong_count() != 0 { return Err(format!("C12 seed {seed}: {n} output not released (state alive {})", keep.is_some())); } }
    for (n, w) in &wo { checks += 1; if w.strong_count() != 0 { return Err(format!("C12 seed {seed}: {n} output not released (state alive {})", keep.is_some())); } }
    for (n, w) in &wi { checks += 1; if w.strong_count() != 0 { return Err(format!("C12 seed {seed}: {n} output not released (state alive {})", keep.is_some())); } }
    for (n, f) in &flags { checks += 1; if f.strong_count() != 0 { return Err(format!("C12 seed {seed}: capture of {n} not released (state alive {})", keep.is_some())); } }
    Ok(checks)
}
fn main() {
    let args: Vec<String> = std::env::args().collect(); std::panic::set_hook(Box::new(|_| {}));
    let from: u64 = args[1].parse().unwrap(); let to: u64 = args[2].parse().unwrap();
    let (mut fails, mut checks) = (0, 0u64); let mut kinds: HashMap<String, u64> = HashMap::new();
    for seed in from..to { let r = catch_unwind(AssertUnwindSafe(|| run(seed)));
        let msg = match r { Ok(Ok(c)) => { checks += c; continue } Ok(Err(e)) => e, Err(e) => format!("PANIC seed {seed}: {}", e.downcast_ref::<String>().cloned().or_else(|| e.downcast_ref::<&str>().map(|s| s.to_string())).unwrap_or_default().lines().next().unwrap_or("").chars().take(100).collect::<String>()) };
        fails += 1; let key: String = msg.split(": ").nth(1).unwrap_or("").chars().take(60).collect();
        let e = kinds.entry(key).or_insert(0); *e += 1; if *e <= 2 { println!("{msg}"); } }
    println!("runs {} fails {} checks {}", to - from, fails, checks);
    let mut k: Vec<_> = kinds.into_iter().collect(); k.sort(); for (k, v) in k { println!("  {v:6}  {k}"); }
}
