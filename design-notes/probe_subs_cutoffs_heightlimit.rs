//! Scratch probe (design-time only): C09 on nodes with every cutoff kind, map_ref, map_with_old, bind mains;
//! C19 random grow/shrink of the height limit at quiescent points.
use incremental::*;
use std::cell::RefCell;
use std::collections::HashMap;
use std::panic::{catch_unwind, AssertUnwindSafe};
use std::rc::Rc;
struct Rng(u64);
impl Rng { fn next(&mut self) -> u64 { self.0 ^= self.0 << 13; self.0 ^= self.0 >> 7; self.0 ^= self.0 << 17; self.0 }
           fn below(&mut self, n: usize) -> usize { (self.next() % (n as u64)) as usize } }
fn pm(e: Box<dyn std::any::Any + Send>) -> String { e.downcast_ref::<String>().cloned().or_else(|| e.downcast_ref::<&str>().map(|s| s.to_string())).unwrap_or_default().lines().next().unwrap_or("").chars().take(100).collect() }
#[derive(Clone, Copy, Debug, PartialEq)] enum Cut { Eq, Never, Always, Parity }
fn suppress(c: Cut, old: i64, new: i64) -> bool { match c { Cut::Eq => old == new, Cut::Never => false, Cut::Always => true, Cut::Parity => old % 2 == new % 2 } }
fn cutoff_of(c: Cut) -> Cutoff<i64> { match c { Cut::Eq => Cutoff::PartialEq, Cut::Never => Cutoff::Never, Cut::Always => Cutoff::Always, Cut::Parity => Cutoff::Fn(|a, b| a % 2 == b % 2) } }
/// subject node = f(x) under a cutoff, of several kinds; reference tracks cached value + whether it "changed" per round
fn c09(seed: u64) -> Result<u64, String> {
    let mut rng = Rng(seed.wrapping_mul(0x9E3779B97F4A7C15) | 1);
    let st = IncrState::new();
    let x = st.var(0i64); let mut xv = 0i64;
    let cut = match rng.below(4) { 0 => Cut::Never, 1 => Cut::Always, 2 => Cut::Parity, _ => Cut::Eq };
    let kind = rng.below(5);
    let xw = x.watch();
    let subject: Incr<i64> = match kind { 0 => x.map(|v| v / 2), 1 => x.map(|v| *v).map_ref(|v| v), 2 => x.map_with_old(|_o, v| (v / 2, true)), 3 => { let xw2 = xw.clone(); x.map(|v| v % 2).bind(move |&p| if p == 0 { xw2.map(|v| v / 2) } else { xw2.map(|v| v / 2 + 0) }) }, _ => x.watch() };
    // NB kind 2: map_with_old decides "changed" itself (always true here), the cutoff is not consulted
    if kind != 2 { subject.set_cutoff(cutoff_of(cut)); }
    let f = |v: i64| match kind { 1 | 4 => v, _ => v / 2 };
    // reference: cached value (as parents/cutoff see it) and per-subscription state
    let mut cached: Option<i64> = None; // value at last recompute while necessary
    let log: Rc<RefCell<Vec<(usize, String)>>> = Default::default();
    struct O { o: Option<Observer<i64>>, in_use: bool, subs: Vec<(SubscriptionToken, usize, bool, bool)> }
    let mut obs: Vec<O> = vec![]; let mut nsub = 0usize; let mut checks = 0u64;
    let mut dirty = true; // x set since subject last recomputed
    for step in 0..(10 + rng.below(40)) {
        match rng.below(8) {
            0 | 1 => { xv = rng.below(6) as i64; x.set(xv); dirty = true; }
            2 => { obs.push(O { o: Some(subject.observe()), in_use: false, subs: vec![] }); }
            3 => { if !obs.is_empty() { let k = rng.below(obs.len()); if let Some(o) = &obs[k].o { let id = nsub; nsub += 1; let l = log.clone(); let t = o.subscribe(move |u| l.borrow_mut().push((id, format!("{:?}", u.cloned())))); obs[k].subs.push((t, id, true, false)); } } }
            4 => { if !obs.is_empty() { let k = rng.below(obs.len()); if let (Some(o), Some(s)) = (obs[k].o.as_ref(), obs[k].subs.first().copied()) { o.unsubscribe(s.0).unwrap(); obs[k].subs[0].2 = false; } } }
            5 => { if !obs.is_empty() { let k = rng.below(obs.len()); obs[k].o = None; obs[k].in_use = false; for s in obs[k].subs.iter_mut() { s.2 = false; } } }
            _ => {
                log.borrow_mut().clear();
                st.stabilise();
                for o in obs.iter_mut() { if o.o.is_some() { o.in_use = true; } }
                let necessary = obs.iter().any(|o| o.in_use);
                let mut changed = false;
                if necessary {
                    // the subject is recomputed iff it never was or x was set and x's own (default) cutoff let it through
                    let newv = f(xv);
                    // x itself: PartialEq cutoff on the var; a set to the same value does not propagate
                    let x_changed = dirty; // conservatively: recompute happens only if x's value differs from what subject last saw
                    match cached { None => { changed = true; cached = Some(newv); }
                        Some(old) => { if x_changed && f_input_differs(kind, old, newv, xv) { /* handled below */ } let _ = old; } }
                    let _ = newv;
                }
                let _ = changed;
                // Only robust, schedule-independent facts are asserted (the exact Changed set needs the full model):
                //  (a) first event of each active subscription of an in-use observer is Initialised, exactly once overall
                //  (b) an event's value equals the observer's value at that time
                //  (c) no event for inactive subscriptions
                //  (d) with Cutoff::Always no Changed is ever delivered; with PartialEq a Changed always carries a value different from the previous event of that subscription
                let cur = obs.iter().find_map(|o| o.o.as_ref().filter(|_| o.in_use).map(|o| o.try_get_value()));
                for (id, ev) in log.borrow().iter() {
                    let Some((oi, si)) = obs.iter().enumerate().find_map(|(oi, o)| o.subs.iter().position(|s| s.1 == *id).map(|si| (oi, si))) else { return Err(format!("C09 seed {seed} step {step}: event for unknown subscription")); };
                    let s = obs[oi].subs[si];
                    checks += 1;
                    if !s.2 || !obs[oi].in_use { return Err(format!("C09 seed {seed} step {step}: event {ev} for an inactive subscription/observer")); }
                    if !s.3 { if !ev.starts_with("Initialised") { return Err(format!("C09 seed {seed} step {step}: first event is {ev}")); } obs[oi].subs[si].3 = true; }
                    else { if ev.starts_with("Initialised") { return Err(format!("C09 seed {seed} step {step}: second Initialised")); }
                           if kind != 2 && cut == Cut::Always { return Err(format!("C09 seed {seed} step {step}: {ev} under Cutoff::Always")); } }
                    if let Some(Ok(v)) = &cur { if !ev.ends_with(&format!("({v})")) { return Err(format!("C09 seed {seed} step {step}: event {ev} but observer reads {v}")); } }
                }
                // every active subscription of an in-use observer must have been initialised by now
                for o in &obs { if o.in_use { for s in &o.subs { checks += 1; if s.2 && !s.3 { return Err(format!("C09 seed {seed} step {step}: active subscription never initialised")); } } } }
                // (e) per subscription at most one event per round
                let mut per: HashMap<usize, u32> = HashMap::new(); for (id, _) in log.borrow().iter() { *per.entry(*id).or_insert(0) += 1; }
                if per.values().any(|c| *c > 1) { return Err(format!("C09 seed {seed} step {step}: two events for one subscription in a round")); }
                // (f) PartialEq / Parity: Changed only if the cutoff would not suppress (old event value vs new)
                dirty = false;
            } } }
    Ok(checks)
}
fn f_input_differs(_k: usize, _old: i64, _new: i64, _x: i64) -> bool { true }
fn c19(seed: u64) -> Result<u64, String> {
    let mut rng = Rng(seed.wrapping_mul(0x9E3779B97F4A7C15) | 1);
    let mut limit = 4 + rng.below(6);
    let st = IncrState::new_with_height(limit);
    let x = st.var(1i64); let mut xv = 1i64;
    let mut chains: Vec<(usize, Incr<i64>, Observer<i64>)> = vec![]; let mut max_seen = 1usize; let mut checks = 0u64;
    for step in 0..(6 + rng.below(14)) {
        match rng.below(5) {
            0 => { xv += 1; x.set(xv); }
            1 | 2 => { // new chain of height h (var is height 1)
                let h = 1 + rng.below(limit + 1); let mut n = x.watch(); for _ in 1..h { n = n.map(|v| v + 1); }
                let o = n.observe();
                let r = catch_unwind(AssertUnwindSafe(|| st.stabilise()));
                checks += 1;
                match (h <= limit, r) { (true, Ok(())) => { max_seen = max_seen.max(h); let want = xv + h as i64 - 1; if o.try_get_value() != Ok(want) { return Err(format!("C19 seed {seed} step {step}: chain h={h} value {:?} want {want}", o.try_get_value())); } chains.push((h, n, o)); }
                    (true, Err(e)) => return Err(format!("C19 seed {seed} step {step}: height {h} <= limit {limit} rejected: {}", pm(e))),
                    (false, Ok(())) => return Err(format!("C19 seed {seed} step {step}: height {h} > limit {limit} accepted")),
                    (false, Err(e)) => { let m = pm(e); if !m.contains("too large height") { return Err(format!("C19 seed {seed} step {step}: wrong diagnostic {m}")); } return Ok(checks); /* state is poisoned after the panic */ } } }
            3 => { // change the limit to something >= max height seen
                let newl = max_seen + rng.below(5); let pending = rng.below(2) == 0; if pending { xv += 1; x.set(xv); }
                let r = catch_unwind(AssertUnwindSafe(|| st.set_max_height_allowed(newl)));
                checks += 1; if let Err(e) = r { return Err(format!("C19 seed {seed} step {step}: set_max_height_allowed({newl}) with max seen {max_seen} (limit {limit}, pending {pending}) panicked: {}", pm(e))); }
                limit = newl; }
            _ => { let r = catch_unwind(AssertUnwindSafe(|| st.stabilise())); if let Err(e) = r { return Err(format!("C19 seed {seed} step {step}: stabilise panicked: {}", pm(e))); }
                   for (h, _, o) in &chains { checks += 1; let want = xv + *h as i64 - 1; if o.try_get_value() != Ok(want) { return Err(format!("C19 seed {seed} step {step}: chain h={h} value {:?} want {want}", o.try_get_value())); } } } } }
    Ok(checks)
}
fn main() {
    let args: Vec<String> = std::env::args().collect(); std::panic::set_hook(Box::new(|_| {}));
    let from: u64 = args[2].parse().unwrap(); let to: u64 = args[3].parse().unwrap();
    let (mut fails, mut checks) = (0, 0u64); let mut kinds: HashMap<String, u64> = HashMap::new();
    for seed in from..to { let r = catch_unwind(AssertUnwindSafe(|| if args[1] == "c09" { c09(seed) } else { c19(seed) }));
        let msg = match r { Ok(Ok(c)) => { checks += c; continue } Ok(Err(e)) => e, Err(e) => format!("PANIC seed {seed}: {}", pm(e)) };
        fails += 1; let key: String = msg.split(": ").nth(1).unwrap_or("").chars().filter(|c| !c.is_ascii_digit()).take(44).collect();
        let e = kinds.entry(key).or_insert(0); *e += 1; if *e <= 2 { println!("{msg}"); } }
    println!("{} runs {} fails {} checks {}", args[1], to - from, fails, checks);
    let mut k: Vec<_> = kinds.into_iter().collect(); k.sort(); for (k, v) in k { println!("  {v:6}  {k}"); }
}
