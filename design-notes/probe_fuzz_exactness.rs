//! Scratch probe (design-time only): exactness of recomputation (C02, C05, C06) against a reference
//! *incremental* semantics: a necessary node runs in a round iff it never ran or one of its inputs
//! produced a non-suppressed result since it last ran; nothing else runs.
use incremental::*;
use std::cell::{Cell, RefCell};
use std::collections::{BTreeMap, HashMap, HashSet};
use std::panic::{catch_unwind, AssertUnwindSafe};
use std::rc::Rc;
struct Rng(u64);
impl Rng { fn next(&mut self) -> u64 { self.0 ^= self.0 << 13; self.0 ^= self.0 >> 7; self.0 ^= self.0 << 17; self.0 }
           fn below(&mut self, n: usize) -> usize { (self.next() % (n as u64)) as usize } }
#[derive(Clone, Copy, Debug, PartialEq)] enum Cut { Eq, Never, Always, Parity }
#[derive(Clone, Debug)] enum Alt { Existing(usize), Fresh(u8, usize) }
#[derive(Clone, Debug)] enum Spec { Var(usize), Const(i64), Map(u8, usize), Map2(u8, usize, usize), Bind(usize, Vec<Alt>), Ref(usize), Old(u8, usize), Fold(Vec<usize>) }
fn f1(f: u8, a: i64) -> i64 { match f % 4 { 0 => (a + 1) % 100, 1 => (a * 2) % 100, 2 => a % 2, _ => a / 2 } }
fn f2(f: u8, a: i64, b: i64) -> i64 { match f % 3 { 0 => (a + b) % 100, 1 => (a * 3 + b) % 100, _ => a.max(b) } }
fn suppress(c: Cut, old: i64, new: i64) -> bool { match c { Cut::Eq => old == new, Cut::Never => false, Cut::Always => true, Cut::Parity => old % 2 == new % 2 } }
fn cutoff_of(c: Cut) -> Cutoff<i64> { match c { Cut::Eq => Cutoff::PartialEq, Cut::Never => Cutoff::Never, Cut::Always => Cutoff::Always, Cut::Parity => Cutoff::Fn(|a, b| a % 2 == b % 2) } }

#[derive(Clone, Default)] struct R { val: Option<i64>, rec: i64, chg: i64 }
struct Ref { specs: Vec<Spec>, cuts: Vec<Cut>, vars: Vec<i64>, dirty: Vec<bool>, st: HashMap<String, R>, gen: HashMap<usize, (u64, usize)>,
             t: i64, done: HashSet<String>, expected: BTreeMap<String, u32> }
impl Ref {
    fn get(&self, k: &str) -> R { self.st.get(k).cloned().unwrap_or(R { val: None, rec: -1, chg: -1 }) }
    fn finish(&mut self, k: String, need: bool, newv: i64, cut: Cut, logit: bool) -> (i64, i64) {
        let mut r = self.get(&k);
        if need { if logit { *self.expected.entry(k.clone()).or_insert(0) += 1; }
            let changed = match r.val { None => true, Some(o) => !suppress(cut, o, newv) };
            r.val = Some(newv); r.rec = self.t; if changed { r.chg = self.t; } }
        let out = (r.val.unwrap(), r.chg);
        self.st.insert(k.clone(), r); self.done.insert(k); out }
    fn demand(&mut self, i: usize) -> (i64, i64) {
        let k = format!("n{i}");
        if self.done.contains(&k) { let r = self.get(&k); return (r.val.unwrap(), r.chg); }
        let prev = self.get(&k);
        match self.specs[i].clone() {
            Spec::Var(v) => { let need = prev.val.is_none() || self.dirty[v]; if need { self.dirty[v] = false; } let nv = self.vars[v]; self.finish(k, need, nv, self.cuts[i], false) }
            Spec::Const(c) => self.finish(k, prev.val.is_none(), c, self.cuts[i], false),
            Spec::Map(f, a) => { let (av, ac) = self.demand(a); self.finish(k, prev.val.is_none() || ac > prev.rec, f1(f, av), self.cuts[i], true) }
            Spec::Map2(f, a, b) => { let (av, ac) = self.demand(a); let (bv, bc) = self.demand(b);
                self.finish(k, prev.val.is_none() || ac > prev.rec || bc > prev.rec, f2(f, av, bv), self.cuts[i], true) }
            Spec::Ref(a) => { let (av, ac) = self.demand(a); // identity projection: runs (unlogged) when its input changed; cutoff on the projection
                // map_ref directly over a map_with_old node gets no old value to compare: behaves as Cutoff::Never (upstream's ignored test map_with_old_map_ref)
                let mut root = a; while let Spec::Ref(b) = self.specs[root] { root = b; }
                let cut = if matches!(self.specs[root], Spec::Old(..)) { Cut::Never } else { self.cuts[i] };
                let (_, chg) = self.finish(k.clone(), prev.val.is_none() || ac > prev.rec, av, cut, false);
                self.st.get_mut(&k).unwrap().val = Some(av); // a map_ref node reads through: its value is always its input's current value
                (av, chg) }
            Spec::Old(f, a) => { let (av, ac) = self.demand(a); self.finish(k, prev.val.is_none() || ac > prev.rec, f1(f, av), Cut::Eq, true) }
            Spec::Fold(xs) => { let mut need = prev.val.is_none(); let mut acc = 0i64; for j in xs.iter() { let (v, c) = self.demand(*j); if c > prev.rec { need = true; } acc = (acc + v) % 100; }
                let n = xs.len() as u32; let r = self.finish(k.clone(), need, acc, self.cuts[i], false); if need { *self.expected.entry(k).or_insert(0) += n; } r }
            Spec::Bind(l, alts) => {
                let (lv, lc) = self.demand(l);
                let lk = format!("n{i}.body");
                let lprev = self.get(&lk);
                if lprev.val.is_none() || lc > lprev.rec {
                    let ai = (lv.rem_euclid(alts.len() as i64)) as usize;
                    let g = self.gen.get(&i).map_or(0, |x| x.0) + 1; self.gen.insert(i, (g, ai));
                    self.finish(lk.clone(), true, 0, Cut::Never, true);
                }
                let lchg = self.get(&lk).chg;
                let (g, ai) = self.gen[&i];
                let (rv, rc) = match alts[ai].clone() {
                    Alt::Existing(j) => self.demand(j),
                    Alt::Fresh(f, j) => { let (jv, jc) = self.demand(j); let fk = format!("n{i}#g{g}");
                        if self.done.contains(&fk) { let r = self.get(&fk); (r.val.unwrap(), r.chg) }
                        else { let fp = self.get(&fk); self.finish(fk, fp.val.is_none() || jc > fp.rec, f1(f, jv), Cut::Eq, true) } } };
                self.finish(k, prev.val.is_none() || lchg > prev.rec || rc > prev.rec, rv, self.cuts[i], false) } } }
}

fn eval(specs: &[Spec], vars: &[i64], i: usize) -> i64 { match &specs[i] { Spec::Var(v) => vars[*v], Spec::Const(c) => *c,
    Spec::Map(f, a) => f1(*f, eval(specs, vars, *a)), Spec::Map2(f, a, b) => f2(*f, eval(specs, vars, *a), eval(specs, vars, *b)),
    Spec::Ref(a) => eval(specs, vars, *a), Spec::Old(f, a) => f1(*f, eval(specs, vars, *a)), Spec::Fold(xs) => xs.iter().fold(0, |acc, j| (acc + eval(specs, vars, *j)) % 100),
    Spec::Bind(l, alts) => { let lv = eval(specs, vars, *l); match &alts[(lv.rem_euclid(alts.len() as i64)) as usize] { Alt::Existing(j) => eval(specs, vars, *j), Alt::Fresh(f, j) => f1(*f, eval(specs, vars, *j)) } } } }
/// transitive inputs of the roots, given which alternative each bind currently has installed
fn cone(specs: &[Spec], alt_of: &HashMap<usize, usize>, roots: &[usize]) -> HashSet<usize> {
    let mut seen = HashSet::new(); let mut stack: Vec<usize> = roots.to_vec();
    while let Some(i) = stack.pop() { if !seen.insert(i) { continue; }
        match &specs[i] { Spec::Map(_, a) | Spec::Ref(a) | Spec::Old(_, a) => stack.push(*a), Spec::Fold(xs) => stack.extend(xs.iter()), Spec::Map2(_, a, b) => { stack.push(*a); stack.push(*b); }
            Spec::Bind(l, alts) => { stack.push(*l); if let Some(ai) = alt_of.get(&i) { match &alts[*ai] { Alt::Existing(j) | Alt::Fresh(_, j) => stack.push(*j) } } } _ => {} } }
    seen }
fn run(seed: u64) -> Result<u64, String> {
    let exact_mode = std::env::var("EXACT").is_ok();
    let mut rng = Rng(seed.wrapping_mul(0x9E3779B97F4A7C15) | 1);
    let st = IncrState::new();
    let nvars = 1 + rng.below(3);
    let mut specs: Vec<Spec> = vec![]; let mut cuts: Vec<Cut> = vec![]; let mut vars = vec![]; let mut varvals = vec![];
    let mut nodes: Vec<Incr<i64>> = vec![];
    let log: Rc<RefCell<Vec<String>>> = Rc::new(RefCell::new(vec![]));
    let honest = std::env::var("HONEST").is_ok();
    let pick_cut = |rng: &mut Rng| match rng.below(8) { 0 => Cut::Never, 1 if !honest => Cut::Always, 2 if !honest => Cut::Parity, _ => Cut::Eq };
    for v in 0..nvars { let init = rng.below(4) as i64; let var = st.var(init); nodes.push(var.watch()); vars.push(var); varvals.push(init); specs.push(Spec::Var(v)); cuts.push(Cut::Eq); }
    let shared_nodes: Rc<RefCell<Vec<Incr<i64>>>> = Rc::new(RefCell::new(nodes));
    let gens: Rc<RefCell<HashMap<usize, u64>>> = Default::default();
    for _ in 0..(3 + rng.below(9)) {
        let idx = specs.len(); let n = idx;
        let spec = match rng.below(13) { 0 => Spec::Const(rng.below(4) as i64), 1 | 2 | 3 | 4 => Spec::Map(rng.below(4) as u8, rng.below(n)), 5 | 6 => Spec::Map2(rng.below(3) as u8, rng.below(n), rng.below(n)),
            10 => Spec::Ref(rng.below(n)), 11 => Spec::Old(rng.below(4) as u8, rng.below(n)), 12 => Spec::Fold((0..(1 + rng.below(3))).map(|_| rng.below(n)).collect()),
            _ => { let k = 2 + rng.below(2); Spec::Bind(rng.below(n), (0..k).map(|_| if rng.below(2) == 0 { Alt::Existing(rng.below(n)) } else { Alt::Fresh(rng.below(4) as u8, rng.below(n)) }).collect()) } };
        let node = { let ns = shared_nodes.borrow(); match &spec {
            Spec::Const(c) => st.constant(*c),
            Spec::Map(f, a) => { let (l, f) = (log.clone(), *f); ns[*a].map(move |x| { l.borrow_mut().push(format!("n{idx}")); f1(f, *x) }) }
            Spec::Map2(f, a, b) => { let (l, f) = (log.clone(), *f); ns[*a].map2(&ns[*b], move |x, y| { l.borrow_mut().push(format!("n{idx}")); f2(f, *x, *y) }) }
            Spec::Ref(a) => ns[*a].map_ref(|x| x),
            Spec::Old(f, a) => { let (l, f) = (log.clone(), *f); ns[*a].map_with_old(move |old: Option<i64>, x| { l.borrow_mut().push(format!("n{idx}")); let nv = f1(f, *x); (nv, old != Some(nv)) }) }
            Spec::Fold(xs) => { let l = log.clone(); st.fold(xs.iter().map(|j| ns[*j].clone()).collect(), 0i64, move |acc, v| { l.borrow_mut().push(format!("n{idx}")); (acc + v) % 100 }) }
            Spec::Bind(lhs, alts) => { let (l, alts, sn, gens) = (log.clone(), alts.clone(), shared_nodes.clone(), gens.clone());
                ns[*lhs].bind(move |&lv| { l.borrow_mut().push(format!("n{idx}.body"));
                    let g = { let mut gm = gens.borrow_mut(); let e = gm.entry(idx).or_insert(0); *e += 1; *e };
                    match alts[(lv.rem_euclid(alts.len() as i64)) as usize].clone() {
                        Alt::Existing(j) => sn.borrow()[j].clone(),
                        Alt::Fresh(f, j) => { let l2 = l.clone(); sn.borrow()[j].map(move |x| { l2.borrow_mut().push(format!("n{idx}#g{g}")); f1(f, *x) }) } } }) }
            Spec::Var(_) => unreachable!() } };
        let c = if matches!(spec, Spec::Old(..)) { Cut::Eq } else { let c = pick_cut(&mut rng); node.set_cutoff(cutoff_of(c)); c };
        shared_nodes.borrow_mut().push(node); specs.push(spec); cuts.push(c);
    }
    // cutoffs on vars too
    for v in 0..nvars { let c = pick_cut(&mut rng); vars[v].set_cutoff(cutoff_of(c)); cuts[v] = c; }
    let total = specs.len();
    let verbose = std::env::var("V").is_ok();
    if verbose { for (i, (s, c)) in specs.iter().zip(cuts.iter()).enumerate() { println!("n{i}: {s:?} cut={c:?}"); } }
    let mut rf = Ref { specs, cuts, vars: varvals, dirty: vec![false; nvars], st: HashMap::new(), gen: HashMap::new(), t: 0, done: HashSet::new(), expected: BTreeMap::new() };
    let mut observers: Vec<(usize, Observer<i64>)> = vec![];
    if exact_mode { for i in 0..total { observers.push((i, shared_nodes.borrow()[i].observe())); } }
    let mut alt_of: HashMap<usize, usize> = HashMap::new();
    let mut checks = 0u64;
    let before = Cell::new(st.stats().recomputed);
    for step in 0..(10 + rng.below(40)) {
        match rng.below(10) {
            0 | 1 | 2 => { let v = rng.below(nvars); let x = rng.below(4) as i64; vars[v].set(x); rf.vars[v] = x; rf.dirty[v] = true; if verbose { println!("step {step}: set v{v} = {x}"); } }
            3 | 4 | 5 if exact_mode => {}
            3 | 4 => { let i = rng.below(total); observers.push((i, shared_nodes.borrow()[i].observe())); if verbose { println!("step {step}: observe n{i}"); } }
            5 => { if !observers.is_empty() { let k = rng.below(observers.len()); if verbose { println!("step {step}: drop observer of n{}", observers[k].0); } if rng.below(2) == 0 { observers.swap_remove(k); } else { observers[k].1.disallow_future_use(); let o = observers.swap_remove(k); drop(o); } } }
            _ => {
                log.borrow_mut().clear();
                before.set(st.stats().recomputed);
                let roots0: Vec<usize> = observers.iter().map(|(i, _)| *i).collect();
                let cone_call = cone(&rf.specs, &alt_of, &roots0);
                st.stabilise();
                // structure after: every body that ran installed the alternative selected by the current lhs value
                for k in log.borrow().iter() { if let Some(b) = k.strip_suffix(".body") { let i: usize = b[1..].parse().unwrap();
                    if let Spec::Bind(l, alts) = &rf.specs[i] { let lv = eval(&rf.specs, &rf.vars, *l); alt_of.insert(i, (lv.rem_euclid(alts.len() as i64)) as usize); } } }
                let cone_ret = cone(&rf.specs, &alt_of, &roots0);
                { let mut seen: HashMap<String, u32> = HashMap::new();
                  for k in log.borrow().iter() { let c = seen.entry(k.clone()).or_insert(0); *c += 1; let maxc = { let i: usize = k[1..].split(|ch: char| !ch.is_ascii_digit()).next().unwrap().parse().unwrap(); if let Spec::Fold(xs) = &rf.specs[i] { xs.len() as u32 } else { 1 } }; if *c > maxc { return Err(format!("C02 seed {seed} step {step}: {k} ran {} times", *c)); }
                    let i: usize = k[1..].split(|ch: char| !ch.is_ascii_digit()).next().unwrap().parse().unwrap();
                    checks += 1;
                    if !cone_call.contains(&i) && !cone_ret.contains(&i) { return Err(format!("C05 seed {seed} step {step}: {k} ran outside both cones")); } } }
                if !exact_mode { for ((i, o)) in observers.iter() { checks += 1; let w = eval(&rf.specs, &rf.vars, *i); let g = o.try_get_value(); if g != Ok(w) { return Err(format!("C01 seed {seed} step {step}: n{i} got {g:?} want {w}")); } }
                    if observers.is_empty() && st.stats().recomputed != before.get() { return Err(format!("C05 seed {seed} step {step}: recomputed moved with no observers")); }
                    continue; }
                rf.t += 1; rf.done.clear(); rf.expected.clear();
                let roots: Vec<usize> = observers.iter().map(|(i, _)| *i).collect();
                let mut want_vals = vec![]; for i in &roots { want_vals.push(rf.demand(*i).0); }
                if verbose { println!("step {step}: ran {:?} expected {:?}", log.borrow(), rf.expected.keys().collect::<Vec<_>>()); let mut ks: Vec<_> = rf.st.iter().collect(); ks.sort_by(|a, b| a.0.cmp(b.0)); for (k, r) in ks { println!("   ref {k}: val {:?} rec {} chg {}", r.val, r.rec, r.chg); } }
                for ((i, o), w) in observers.iter().zip(want_vals) { checks += 1; let g = o.try_get_value(); if g != Ok(w) { return Err(format!("C01 seed {seed} step {step}: n{i} got {g:?} want {w}")); } }
                let mut got: BTreeMap<String, u32> = BTreeMap::new(); for k in log.borrow().iter() { *got.entry(k.clone()).or_insert(0) += 1; }
                if verbose { println!("step {step}: stabilise: ran {:?} expected {:?}", log.borrow(), rf.expected.keys().collect::<Vec<_>>()); }
                checks += 1;
                if got != rf.expected {
                    let extra: Vec<_> = got.iter().filter(|(k, c)| rf.expected.get(*k) != Some(c)).collect();
                    let missing: Vec<_> = rf.expected.iter().filter(|(k, _)| !got.contains_key(*k)).collect();
                    return Err(format!("C05/C06 seed {seed} step {step}: extra/miscounted {extra:?} missing {missing:?}")); }
                if observers.is_empty() && st.stats().recomputed != before.get() { return Err(format!("C05 seed {seed} step {step}: recomputed moved with no observers")); }
            }
        }
    }
    Ok(checks)
}
fn main() {
    let args: Vec<String> = std::env::args().collect();
    let from: u64 = args[1].parse().unwrap(); let to: u64 = args[2].parse().unwrap();
    std::panic::set_hook(Box::new(|_| {}));
    let (mut fails, mut checks) = (0, 0u64); let mut kinds: HashMap<String, u64> = HashMap::new();
    for seed in from..to {
        let r = catch_unwind(AssertUnwindSafe(|| run(seed)));
        let msg = match r { Ok(Ok(c)) => { checks += c; continue } Ok(Err(e)) => e,
            Err(e) => format!("PANIC seed {seed}: {}", e.downcast_ref::<String>().cloned().or_else(|| e.downcast_ref::<&str>().map(|s| s.to_string())).unwrap_or_default().lines().next().unwrap_or("").chars().take(100).collect::<String>()) };
        fails += 1; let key: String = msg.split(" seed ").next().unwrap_or("").to_string();
        let e = kinds.entry(key).or_insert(0); *e += 1; if *e <= 3 { println!("{msg}"); }
    }
    println!("runs {} fails {} checks {}", to - from, fails, checks);
    let mut k: Vec<_> = kinds.into_iter().collect(); k.sort(); for (k, v) in k { println!("  {v:6}  {k}"); }
}
