//! Scratch differential probe (design-time only): random static+bind programs vs a from-scratch evaluator.
use incremental::*;
use std::cell::{Cell, RefCell};
use std::collections::HashMap;
use std::panic::{catch_unwind, AssertUnwindSafe};
use std::rc::Rc;

struct Rng(u64);
impl Rng { fn next(&mut self) -> u64 { self.0 ^= self.0 << 13; self.0 ^= self.0 >> 7; self.0 ^= self.0 << 17; self.0 }
           fn below(&mut self, n: usize) -> usize { (self.next() % (n as u64)) as usize } }

#[derive(Clone, Debug)]
enum Tpl { Existing(usize), MapOf(u8, usize), Map2Of(u8, usize, usize), MapMapOf(u8, usize), BindOf(usize, usize), ConstOf(i64) }
#[derive(Clone, Debug)]
enum Spec { Var(usize), Const(i64), Map(u8, usize), Map2(u8, usize, usize), Bind(usize, usize) }

fn f1(f: u8, a: i64) -> i64 { match f % 4 { 0 => (a + 1) % 1000, 1 => (a * 2) % 1000, 2 => a % 2, _ => a / 2 } }
fn f2(f: u8, a: i64, b: i64) -> i64 { match f % 3 { 0 => (a + b) % 1000, 1 => (a * 3 + b) % 1000, _ => a.max(b) } }

struct World {
    specs: Vec<Spec>,
    bodies: Vec<Vec<Tpl>>,       // body id -> alternatives
    vars: Vec<i64>,
}
impl World {
    fn eval(&self, i: usize) -> i64 { match &self.specs[i] {
        Spec::Var(v) => self.vars[*v], Spec::Const(c) => *c,
        Spec::Map(f, a) => f1(*f, self.eval(*a)), Spec::Map2(f, a, b) => f2(*f, self.eval(*a), self.eval(*b)),
        Spec::Bind(l, b) => { let lv = self.eval(*l); self.eval_tpl(*b, lv) } } }
    fn eval_tpl(&self, b: usize, lv: i64) -> i64 {
        let alts = &self.bodies[b];
        match &alts[(lv.rem_euclid(alts.len() as i64)) as usize] {
            Tpl::Existing(i) => self.eval(*i), Tpl::MapOf(f, i) => f1(*f, (self.eval(*i) + lv) % 1000),
            Tpl::Map2Of(f, i, j) => f2(*f, self.eval(*i), self.eval(*j)),
            Tpl::MapMapOf(f, i) => f1(f.wrapping_add(1), f1(*f, self.eval(*i))),
            Tpl::BindOf(i, b2) => { let v = self.eval(*i); self.eval_tpl(*b2, v) }
            Tpl::ConstOf(c) => *c } }
}

#[derive(Default)]
struct Mon { round: Cell<u64>, seen: RefCell<HashMap<String, u64>>, errs: RefCell<Vec<String>>, invocations: Cell<u64> }
impl Mon { fn hit(&self, tag: String) { self.invocations.set(self.invocations.get() + 1);
    let r = self.round.get(); let mut s = self.seen.borrow_mut();
    if s.get(&tag) == Some(&r) { self.errs.borrow_mut().push(format!("C02 twice in round {r}: {tag}")); } s.insert(tag, r); } }

type Ctx = Rc<CtxI>;
struct CtxI { nodes: RefCell<Vec<Incr<i64>>>, bodies: Vec<Vec<Tpl>>, mon: Rc<Mon>, gens: RefCell<HashMap<String, u64>>,
              lhs_truth: RefCell<HashMap<String, i64>> }

fn build_tpl(ctx: &Ctx, st: &WeakState, b: usize, lv: i64, path: String) -> Incr<i64> {
    let alts = &ctx.bodies[b];
    let gen = { let mut g = ctx.gens.borrow_mut(); let e = g.entry(path.clone()).or_insert(0); *e += 1; *e };
    let tag = format!("{path}#g{gen}");
    let nodes = ctx.nodes.borrow();
    let alt = alts[(lv.rem_euclid(alts.len() as i64)) as usize].clone();
    let mk_check = |ctx: &Ctx, path: &String, gen: u64, lv: i64, t: &str| {
        // C03: closure of an old generation, or with a stale captured lhs value
        let cur = *ctx.gens.borrow().get(path).unwrap();
        if cur != gen { ctx.mon.errs.borrow_mut().push(format!("C03 old generation ran: {t} gen {gen} cur {cur}")); }
        if let Some(truth) = ctx.lhs_truth.borrow().get(path) { if *truth != lv { ctx.mon.errs.borrow_mut().push(format!("C03 stale captured lhs: {t} captured {lv} truth {truth}")); } }
    };
    match alt {
        Tpl::Existing(i) => nodes[i].clone(),
        Tpl::ConstOf(c) => st.constant(c),
        Tpl::MapOf(f, i) => { let (c2, p2, t2) = (ctx.clone(), path.clone(), tag.clone());
            nodes[i].map(move |a| { c2.mon.hit(format!("{t2}.m")); mk_check(&c2, &p2, gen, lv, &t2); f1(f, (a + lv) % 1000) }) }
        Tpl::Map2Of(f, i, j) => { let (c2, p2, t2) = (ctx.clone(), path.clone(), tag.clone());
            nodes[i].map2(&nodes[j], move |a, b| { c2.mon.hit(format!("{t2}.m2")); mk_check(&c2, &p2, gen, lv, &t2); f2(f, *a, *b) }) }
        Tpl::MapMapOf(f, i) => { let (c2, p2, t2) = (ctx.clone(), path.clone(), tag.clone()); let (c3, p3, t3) = (ctx.clone(), path.clone(), tag.clone());
            let tmp = nodes[i].map(|a| *a); drop(tmp); // created-and-dropped node in scope
            nodes[i].map(move |a| { c2.mon.hit(format!("{t2}.mm1")); mk_check(&c2, &p2, gen, lv, &t2); f1(f, *a) })
                    .map(move |a| { c3.mon.hit(format!("{t3}.mm2")); mk_check(&c3, &p3, gen, lv, &t3); f1(f.wrapping_add(1), *a) }) }
        Tpl::BindOf(i, b2) => { let (c2, st2, p2) = (ctx.clone(), st.clone(), format!("{tag}/b{b2}")); let inner = nodes[i].clone(); drop(nodes);
            inner.bind(move |&v| build_tpl(&c2, &st2, b2, v, p2.clone())) }
    }
}

fn run(seed: u64, verbose: bool) -> Result<(u64, u64), String> {
    let mut rng = Rng(seed.wrapping_mul(0x9E3779B97F4A7C15) | 1);
    let st = IncrState::new();
    let nvars = 1 + rng.below(3);
    let mut world = World { specs: vec![], bodies: vec![], vars: vec![] };
    let mut vars = vec![];
    let mon = Rc::new(Mon::default());
    let mut handles: Vec<Incr<i64>> = vec![];
    for v in 0..nvars { let init = rng.below(5) as i64; let var = st.var(init); handles.push(var.watch()); vars.push(var); world.vars.push(init); world.specs.push(Spec::Var(v)); }
    let nnodes = 3 + rng.below(9);
    // first decide bodies lazily as we go (bodies may only reference earlier nodes)
    let mut plan: Vec<Spec> = vec![];
    for _ in 0..nnodes {
        let n = world.specs.len() + plan.len();
        let pick = |rng: &mut Rng| rng.below(n);
        let s = match rng.below(10) {
            0 => Spec::Const(rng.below(5) as i64),
            1 | 2 | 3 => Spec::Map(rng.below(4) as u8, pick(&mut rng)),
            4 | 5 => Spec::Map2(rng.below(3) as u8, pick(&mut rng), pick(&mut rng)),
            _ => { let l = pick(&mut rng); let k = 2 + rng.below(2);
                   let mut alts = vec![];
                   for _ in 0..k { alts.push(match rng.below(7) { 0 => Tpl::Existing(pick(&mut rng)), 1 => Tpl::ConstOf(rng.below(5) as i64),
                        2 | 3 => Tpl::MapOf(rng.below(4) as u8, pick(&mut rng)), 4 => Tpl::Map2Of(rng.below(3) as u8, pick(&mut rng), pick(&mut rng)),
                        5 => Tpl::MapMapOf(rng.below(4) as u8, pick(&mut rng)),
                        _ => { // nested bind with simple alternatives
                              let k2 = 2; let mut a2 = vec![]; for _ in 0..k2 { a2.push(match rng.below(3) { 0 => Tpl::Existing(pick(&mut rng)), 1 => Tpl::MapOf(rng.below(4) as u8, pick(&mut rng)), _ => Tpl::MapMapOf(rng.below(4) as u8, pick(&mut rng)) }); }
                              world.bodies.push(a2); Tpl::BindOf(pick(&mut rng), world.bodies.len() - 1) } }); }
                   world.bodies.push(alts); Spec::Bind(l, world.bodies.len() - 1) } };
        plan.push(s);
    }
    let ctx: Ctx = Rc::new(CtxI { nodes: RefCell::new(handles), bodies: world.bodies.clone(), mon: mon.clone(), gens: Default::default(), lhs_truth: Default::default() });
    for s in plan { let idx = world.specs.len();
        let node = { let nodes = ctx.nodes.borrow(); match &s {
            Spec::Const(c) => st.constant(*c),
            Spec::Map(f, a) => { let (m, f) = (mon.clone(), *f); nodes[*a].map(move |x| { m.hit(format!("n{idx}")); f1(f, *x) }) }
            Spec::Map2(f, a, b) => { let (m, f) = (mon.clone(), *f); nodes[*a].map2(&nodes[*b], move |x, y| { m.hit(format!("n{idx}")); f2(f, *x, *y) }) }
            Spec::Bind(l, b) => { let (c2, w, b) = (ctx.clone(), st.weak(), *b); let m = mon.clone();
                nodes[*l].bind(move |&v| { m.hit(format!("n{idx}.body")); build_tpl(&c2, &w, b, v, format!("n{idx}")) }) }
            Spec::Var(_) => unreachable!() } };
        ctx.nodes.borrow_mut().push(node); world.specs.push(s); }
    let total = world.specs.len();
    let mut observers: Vec<(usize, Observer<i64>)> = vec![];
    let nsteps = 10 + rng.below(40);
    let mut checks = 0u64;
    for step in 0..nsteps {
        match rng.below(10) {
            0 | 1 | 2 => { let v = rng.below(nvars); let x = rng.below(5) as i64; vars[v].set(x); world.vars[v] = x; if verbose { println!("set v{v}={x}"); } }
            3 | 4 => { let i = rng.below(total); observers.push((i, ctx.nodes.borrow()[i].observe())); if verbose { println!("observe n{i}"); } }
            5 => { if !observers.is_empty() { let k = rng.below(observers.len()); let (i, o) = observers.swap_remove(k); if verbose { println!("drop obs n{i}"); } drop(o); } }
            _ => {
                // record truth of every bind lhs for the stale-capture check (top-level binds only)
                { let mut lt = ctx.lhs_truth.borrow_mut(); lt.clear(); for (i, s) in world.specs.iter().enumerate() { if let Spec::Bind(l, _) = s { lt.insert(format!("n{i}"), world.eval(*l)); } } }
                mon.round.set(mon.round.get() + 1);
                if verbose { println!("stabilise"); }
                st.stabilise();
                for (i, o) in &observers { let got = o.try_get_value(); let want = world.eval(*i); checks += 1;
                    if got != Ok(want) { return Err(format!("C01 seed {seed} step {step}: n{i} got {got:?} want {want}")); } }
                if let Some(e) = mon.errs.borrow().first() { return Err(format!("seed {seed} step {step}: {e}")); }
            }
        }
    }
    Ok((checks, mon.invocations.get()))
}

fn main() {
    let args: Vec<String> = std::env::args().collect();
    let from: u64 = args[1].parse().unwrap(); let to: u64 = args[2].parse().unwrap();
    let verbose = args.len() > 3;
    std::panic::set_hook(Box::new(|_| {}));
    let (mut fails, mut checks, mut invs) = (0, 0u64, 0u64);
    let mut kinds: HashMap<String, u64> = HashMap::new();
    for seed in from..to {
        let r = catch_unwind(AssertUnwindSafe(|| run(seed, verbose)));
        let msg = match r { Ok(Ok((c, i))) => { checks += c; invs += i; continue } Ok(Err(e)) => e,
            Err(e) => format!("PANIC seed {seed}: {}", e.downcast_ref::<String>().cloned().or_else(|| e.downcast_ref::<&str>().map(|s| s.to_string())).unwrap_or_default().lines().next().unwrap_or("").chars().take(90).collect::<String>()) };
        fails += 1;
        let key: String = msg.split(':').filter(|p| !p.contains("seed")).collect::<Vec<_>>().join(":").chars().filter(|c| !c.is_ascii_digit()).take(60).collect();
        let e = kinds.entry(key).or_insert(0); *e += 1; if *e <= 2 { println!("{msg}"); }
    }
    println!("runs {} fails {} value-checks {} invocations {}", to - from, fails, checks, invs);
    let mut k: Vec<_> = kinds.into_iter().collect(); k.sort(); for (k, v) in k { println!("  {v:6}  {k}"); }
}
