/-! Prototype 3: proof-oriented static engine slice, invariants J1'' J2 K -/

inductive Kind where
  | var (cell : Nat)
  | map (f : Nat) (args : List Nat)
deriving Repr, DecidableEq

structure Node where
  kind : Kind
  value : Option Int := none
  rAt : Int := -1
  cAt : Int := -1
  height : Nat := 0
deriving Repr

structure St where
  nodes : Array Node
  cells : Array Int
  setAt : Array Int
  heap : List Nat
  now : Int
deriving Repr

structure Env where
  fn : Nat → List (Option Int) → Int

namespace St

def kindOf (s : St) (n : Nat) : Option Kind := (s.nodes[n]?).map (·.kind)
def children (s : St) (n : Nat) : List Nat :=
  match s.kindOf n with
  | some (.map _ as) => as
  | _ => []
def valOf (s : St) (n : Nat) : Option Int := (s.nodes[n]?).bind (·.value)
def rAtOf (s : St) (n : Nat) : Int := ((s.nodes[n]?).map (·.rAt)).getD (-1)
def cAtOf (s : St) (n : Nat) : Int := ((s.nodes[n]?).map (·.cAt)).getD (-1)
def heightOf (s : St) (n : Nat) : Nat := ((s.nodes[n]?).map (·.height)).getD 0

def compute (env : Env) (s : St) (n : Nat) : Option Int :=
  match s.kindOf n with
  | none => none
  | some (.var c) => s.cells[c]?
  | some (.map f as) => some (env.fn f (as.map (valOf s)))

def directStale (s : St) (n : Nat) : Prop :=
  match s.kindOf n with
  | none => False
  | some (.var c) => (s.setAt[c]?.getD (-1)) > s.rAtOf n
  | some (.map _ as) => s.rAtOf n = -1 ∨ ∃ c ∈ as, s.cAtOf c > s.rAtOf n

def parentsOf (s : St) (n : Nat) : List Nat :=
  (List.range s.nodes.size).filter (fun p => (s.children p).contains n)

def recompute (env : Env) (s : St) (n : Nat) : St :=
  match s.nodes[n]? with
  | none => s
  | some nd =>
    let nv := compute env s n
    let changed := nd.value != nv
    let nd' := { nd with value := nv, rAt := s.now, cAt := if changed then s.now else nd.cAt }
    let heap' := s.heap.filter (· != n)
    let heap'' := if changed then heap' ++ (parentsOf s n).filter (fun p => !heap'.contains p) else heap'
    { s with nodes := s.nodes.setIfInBounds n nd', heap := heap'' }

/-! ### frame lemmas -/

theorem recompute_nodes_ne (env : Env) (s : St) (n m : Nat) (h : m ≠ n) :
    (recompute env s n).nodes[m]? = s.nodes[m]? := by
  unfold recompute
  split
  · rfl
  · simp [h.symm]

theorem recompute_nodes_self (env : Env) (s : St) (n : Nat) (nd : Node) (h : s.nodes[n]? = some nd) :
    (recompute env s n).nodes[n]? =
      some { nd with value := compute env s n, rAt := s.now,
                     cAt := if (nd.value != compute env s n) then s.now else nd.cAt } := by
  have hlt : n < s.nodes.size := by
    rcases Nat.lt_or_ge n s.nodes.size with h' | h'
    · exact h'
    · simp [Array.getElem?_eq_none h'] at h
  unfold recompute
  rw [h]
  simp [hlt]

theorem recompute_kindOf (env : Env) (s : St) (n m : Nat) :
    (recompute env s n).kindOf m = s.kindOf m := by
  by_cases h : m = n
  · subst h
    cases hnd : s.nodes[m]? with
    | none => unfold recompute; simp [hnd]
    | some nd => unfold kindOf; rw [recompute_nodes_self env s m nd hnd, hnd]; rfl
  · unfold kindOf; rw [recompute_nodes_ne env s n m h]

theorem recompute_children (env : Env) (s : St) (n m : Nat) :
    (recompute env s n).children m = s.children m := by
  unfold children; rw [recompute_kindOf]

theorem recompute_valOf_ne (env : Env) (s : St) (n m : Nat) (h : m ≠ n) :
    (recompute env s n).valOf m = s.valOf m := by
  unfold valOf; rw [recompute_nodes_ne env s n m h]

theorem recompute_cells (env : Env) (s : St) (n : Nat) : (recompute env s n).cells = s.cells := by
  unfold recompute; split <;> rfl
theorem recompute_setAt (env : Env) (s : St) (n : Nat) : (recompute env s n).setAt = s.setAt := by
  unfold recompute; split <;> rfl
theorem recompute_now (env : Env) (s : St) (n : Nat) : (recompute env s n).now = s.now := by
  unfold recompute; split <;> rfl

/-- compute only depends on kinds, cells, and the values of the children -/
theorem compute_congr (env : Env) (s t : St) (n : Nat)
    (hk : t.kindOf n = s.kindOf n) (hc : t.cells = s.cells)
    (hv : ∀ c ∈ s.children n, t.valOf c = s.valOf c) :
    compute env t n = compute env s n := by
  unfold compute
  rw [hk, hc]
  cases hkn : s.kindOf n with
  | none => rfl
  | some k =>
    cases k with
    | var c => rfl
    | map f as =>
      simp only
      have hch : s.children n = as := by unfold children; rw [hkn]
      have : as.map (valOf t) = as.map (valOf s) := by
        apply List.map_congr_left
        intro c hc; exact hv c (hch ▸ hc)
      rw [this]

/-! ### invariants -/

def Consistent (env : Env) (s : St) (n : Nat) : Prop := s.valOf n = compute env s n

/-- reflexive-transitive descendants (inputs) -/
inductive Desc (s : St) : Nat → Nat → Prop
  | refl (n) : Desc s n n
  | step {n c d} : c ∈ s.children n → Desc s c d → Desc s n d

structure Inv (env : Env) (s : St) : Prop where
  wf : ∀ n c, c ∈ s.children n → c < s.nodes.size ∧ s.heightOf c < s.heightOf n
  j1 : ∀ n, n < s.nodes.size → directStale s n ∨ Consistent env s n
  j2 : ∀ n, n < s.nodes.size → directStale s n → n ∈ s.heap
  k  : ∀ d c, s.rAtOf d = s.now → Desc s d c → c ∉ s.heap
  t1 : ∀ n, s.rAtOf n ≤ s.now ∧ s.cAtOf n ≤ s.now
  t2 : ∀ (c : Nat) (v : Int), s.setAt[c]? = some v → v ≤ s.now
  hp : ∀ n ∈ s.heap, n < s.nodes.size
  nn : 0 ≤ s.now

theorem desc_height (s : St) (wf : ∀ n c, c ∈ s.children n → c < s.nodes.size ∧ s.heightOf c < s.heightOf n)
    {d c : Nat} (h : Desc s d c) : c = d ∨ s.heightOf c < s.heightOf d := by
  induction h with
  | refl => left; rfl
  | step hc _ ih =>
    right
    have := (wf _ _ hc).2
    rcases ih with rfl | ih <;> omega

theorem desc_recompute (env : Env) (s : St) (n d c : Nat) :
    Desc (recompute env s n) d c ↔ Desc s d c := by
  constructor
  · intro h; induction h with
    | refl => exact .refl _
    | step hc _ ih => rw [recompute_children] at hc; exact .step hc ih
  · intro h; induction h with
    | refl => exact .refl _
    | step hc _ ih => exact .step (by rw [recompute_children]; exact hc) ih

theorem mem_parentsOf (s : St) (n p : Nat) : p ∈ s.parentsOf n ↔ p < s.nodes.size ∧ n ∈ s.children p := by
  unfold parentsOf; simp



theorem rAtOf_recompute_self (env : Env) (s : St) (n : Nat) (h : n < s.nodes.size) :
    (recompute env s n).rAtOf n = s.now := by
  have : s.nodes[n]? = some s.nodes[n] := by simp [h]
  unfold rAtOf; rw [recompute_nodes_self env s n _ this]; rfl

theorem rAtOf_recompute_ne (env : Env) (s : St) (n m : Nat) (h : m ≠ n) :
    (recompute env s n).rAtOf m = s.rAtOf m := by
  unfold rAtOf; rw [recompute_nodes_ne env s n m h]

theorem cAtOf_recompute_ne (env : Env) (s : St) (n m : Nat) (h : m ≠ n) :
    (recompute env s n).cAtOf m = s.cAtOf m := by
  unfold cAtOf; rw [recompute_nodes_ne env s n m h]

theorem cAtOf_recompute_self (env : Env) (s : St) (n : Nat) (h : n < s.nodes.size) :
    (recompute env s n).cAtOf n = if (s.valOf n != compute env s n) then s.now else s.cAtOf n := by
  have : s.nodes[n]? = some s.nodes[n] := by simp [h]
  unfold cAtOf valOf; rw [recompute_nodes_self env s n _ this, this]; simp

theorem valOf_recompute_self (env : Env) (s : St) (n : Nat) (h : n < s.nodes.size) :
    (recompute env s n).valOf n = compute env s n := by
  have : s.nodes[n]? = some s.nodes[n] := by simp [h]
  unfold valOf; rw [recompute_nodes_self env s n _ this]; rfl

theorem heap_recompute (env : Env) (s : St) (n m : Nat) (h : n < s.nodes.size) :
    m ∈ (recompute env s n).heap ↔
      (m ∈ s.heap ∧ m ≠ n) ∨ ((s.valOf n != compute env s n) = true ∧ m ∈ s.parentsOf n) := by
  have hn : s.nodes[n]? = some s.nodes[n] := by simp [h]
  unfold recompute valOf
  rw [hn]
  simp only [Option.bind_some]
  split <;> simp_all <;> grind [mem_parentsOf]

theorem heightOf_recompute (env : Env) (s : St) (n m : Nat) :
    (recompute env s n).heightOf m = s.heightOf m := by
  by_cases h : m = n
  · subst h
    cases hnd : s.nodes[m]? with
    | none => unfold recompute; simp [hnd]
    | some nd => unfold heightOf; rw [recompute_nodes_self env s m nd hnd, hnd]; rfl
  · unfold heightOf; rw [recompute_nodes_ne env s n m h]

theorem size_recompute (env : Env) (s : St) (n : Nat) : (recompute env s n).nodes.size = s.nodes.size := by
  unfold recompute; split <;> simp



theorem directStale_recompute_self (env : Env) (s : St) (n : Nat) (inv : Inv env s) (h : n < s.nodes.size) :
    ¬ directStale (recompute env s n) n := by
  unfold directStale
  rw [recompute_kindOf, rAtOf_recompute_self env s n h, recompute_setAt]
  have wf := inv.wf n
  cases hk : s.kindOf n with
  | none => simp
  | some k =>
    cases k with
    | var c =>
      simp only
      cases hs : s.setAt[c]? with
      | none => have := inv.nn; simp; omega
      | some v => have := inv.t2 c v hs; simp; omega
    | map f as =>
      simp only
      have hch : s.children n = as := by unfold children; rw [hk]
      intro hh
      rcases hh with hh | ⟨c, hc, hgt⟩
      · have := inv.nn; omega
      · have hcn : c ≠ n := by
          have := (wf c (hch ▸ hc)).2; intro e; subst e; omega
        rw [cAtOf_recompute_ne env s n c hcn] at hgt
        have := (inv.t1 c).2; omega

theorem directStale_recompute_ne (env : Env) (s : St) (n m : Nat) (inv : Inv env s)
    (h : n < s.nodes.size) (hmn : m ≠ n) :
    directStale (recompute env s n) m →
      directStale s m ∨ ((s.valOf n != compute env s n) = true ∧ n ∈ s.children m) := by
  unfold directStale
  rw [recompute_kindOf, rAtOf_recompute_ne env s n m hmn, recompute_setAt]
  cases hk : s.kindOf m with
  | none => simp
  | some k =>
    cases k with
    | var c => simp only; intro h; left; exact h
    | map f as =>
      simp only
      have hch : s.children m = as := by unfold children; rw [hk]
      intro hh
      rcases hh with hh | ⟨c, hc, hgt⟩
      · left; left; exact hh
      · by_cases hcn : c = n
        · subst hcn
          rw [cAtOf_recompute_self env s c h] at hgt
          by_cases hch2 : (s.valOf c != compute env s c) = true
          · right; exact ⟨hch2, hch ▸ hc⟩
          · simp [hch2] at hgt; left; right; exact ⟨c, hc, by simpa using hgt⟩
        · rw [cAtOf_recompute_ne env s n c hcn] at hgt
          left; right; exact ⟨c, hc, hgt⟩

theorem directStale_mono (env : Env) (s : St) (n m : Nat) (inv : Inv env s)
    (h : n < s.nodes.size) (hmn : m ≠ n) :
    directStale s m → directStale (recompute env s n) m := by
  unfold directStale
  rw [recompute_kindOf, rAtOf_recompute_ne env s n m hmn, recompute_setAt]
  cases hk : s.kindOf m with
  | none => simp
  | some k =>
    cases k with
    | var c => simp only; exact id
    | map f as =>
      simp only
      intro hh
      rcases hh with hh | ⟨c, hc, hgt⟩
      · left; exact hh
      · right; refine ⟨c, hc, ?_⟩
        by_cases hcn : c = n
        · subst hcn
          rw [cAtOf_recompute_self env s c h]
          split
          · have := (inv.t1 m).1; have := (inv.t1 c).2; omega
          · exact hgt
        · rw [cAtOf_recompute_ne env s n c hcn]; exact hgt

theorem inv_recompute (env : Env) (s : St) (n : Nat) (inv : Inv env s)
    (hn : n ∈ s.heap) (hmin : ∀ m ∈ s.heap, s.heightOf n ≤ s.heightOf m) :
    Inv env (recompute env s n) := by
  have hlt : n < s.nodes.size := inv.hp n hn
  have hself : n ∉ s.children n := by
    intro h; have := (inv.wf n n h).2; omega
  refine ⟨?wf, ?j1, ?j2, ?k, ?t1, ?t2, ?hp, ?nn⟩
  case wf =>
    intro a c hc
    rw [recompute_children] at hc
    rw [size_recompute, heightOf_recompute, heightOf_recompute]
    exact inv.wf a c hc
  case nn => rw [recompute_now]; exact inv.nn
  case t2 => rw [recompute_now, recompute_setAt]; exact inv.t2
  case hp =>
    intro m hm
    rw [size_recompute]
    rw [heap_recompute env s n m hlt] at hm
    rcases hm with ⟨hm, _⟩ | ⟨_, hm⟩
    · exact inv.hp m hm
    · exact ((mem_parentsOf s n m).1 hm).1
  case t1 =>
    intro m
    rw [recompute_now]
    by_cases hmn : m = n
    · subst hmn
      rw [rAtOf_recompute_self env s m hlt, cAtOf_recompute_self env s m hlt]
      have := (inv.t1 m).2
      split <;> omega
    · rw [rAtOf_recompute_ne env s n m hmn, cAtOf_recompute_ne env s n m hmn]; exact inv.t1 m
  case j2 =>
    intro m hm hst
    rw [size_recompute] at hm
    rw [heap_recompute env s n m hlt]
    by_cases hmn : m = n
    · subst hmn; exact absurd hst (directStale_recompute_self env s m inv hlt)
    · rcases directStale_recompute_ne env s n m inv hlt hmn hst with h | ⟨hc, hch⟩
      · left; exact ⟨inv.j2 m hm h, hmn⟩
      · right; exact ⟨hc, (mem_parentsOf s n m).2 ⟨hm, hch⟩⟩
  case k =>
    intro d c hd hdesc
    rw [recompute_now] at hd
    rw [desc_recompute] at hdesc
    rw [heap_recompute env s n c hlt]
    intro hc
    by_cases hdn : d = n
    · subst hdn
      -- c is n or strictly lower than n
      rcases desc_height s inv.wf hdesc with rfl | hlow
      · rcases hc with ⟨_, hne⟩ | ⟨_, hp⟩
        · exact hne rfl
        · exact hself ((mem_parentsOf s c c).1 hp).2
      · rcases hc with ⟨hch, _⟩ | ⟨_, hp⟩
        · have := hmin c hch; omega
        · have := (inv.wf c d ((mem_parentsOf s d c).1 hp).2).2; omega
    · rw [rAtOf_recompute_ne env s n d hdn] at hd
      rcases hc with ⟨hch, _⟩ | ⟨_, hp⟩
      · exact inv.k d c hd hdesc hch
      · -- c is a parent of n, and a descendant of d, so n is a descendant of d: contradiction with n ∈ heap
        have hn' : Desc s d n := by
          have hcn : n ∈ s.children c := ((mem_parentsOf s n c).1 hp).2
          clear hd hdn
          induction hdesc with
          | refl => exact .step hcn (.refl _)
          | step hc' _ ih => exact .step hc' (ih hp hcn)
        exact inv.k d n hd hn' hn
  case j1 =>
    intro m hm
    rw [size_recompute] at hm
    by_cases hmn : m = n
    · subst hmn
      right
      unfold Consistent
      rw [valOf_recompute_self env s m hlt]
      symm
      apply compute_congr env s _ m (recompute_kindOf env s m m) (recompute_cells env s m)
      intro c hc
      apply recompute_valOf_ne
      intro e; subst e; exact hself hc
    · by_cases hst : directStale s m
      · left; exact directStale_mono env s n m inv hlt hmn hst
      · have hcons : Consistent env s m := (inv.j1 m hm).resolve_left hst
        by_cases hch : n ∈ s.children m
        · by_cases hchg : (s.valOf n != compute env s n) = true
          · -- changed: m becomes directly stale
            left
            have hr : s.rAtOf m < s.now := by
              by_cases h : s.rAtOf m < s.now
              · exact h
              · have heq : s.rAtOf m = s.now := by have := (inv.t1 m).1; omega
                exact absurd hn (inv.k m n heq (.step hch (.refl _)))
            unfold directStale
            rw [recompute_kindOf, rAtOf_recompute_ne env s n m hmn]
            unfold children at hch
            cases hk : s.kindOf m with
            | none => rw [hk] at hch; simp at hch
            | some k =>
              cases k with
              | var c => rw [hk] at hch; simp at hch
              | map f as =>
                rw [hk] at hch
                simp only
                right
                refine ⟨n, hch, ?_⟩
                rw [cAtOf_recompute_self env s n hlt, if_pos hchg]; exact hr
          · -- unchanged: consistency preserved since n's value is the same
            right
            unfold Consistent at *
            rw [recompute_valOf_ne env s n m hmn, hcons]
            symm
            apply compute_congr env s _ m (recompute_kindOf env s n m) (recompute_cells env s n)
            intro c _
            by_cases hcn : c = n
            · subst hcn
              rw [valOf_recompute_self env s c hlt]
              have : s.valOf c = compute env s c := by simpa using hchg
              exact this.symm
            · exact recompute_valOf_ne env s n c hcn
        · right
          unfold Consistent at *
          rw [recompute_valOf_ne env s n m hmn, hcons]
          symm
          apply compute_congr env s _ m (recompute_kindOf env s n m) (recompute_cells env s n)
          intro c hc
          apply recompute_valOf_ne
          intro e; subst e; exact hch hc

end St
