//! Scratch probe (design-time only): C12 release of nodes/closures under random drop orders,
//! C11-lite (stats().necessary == size of the cone of in-use observers), C20 weak_memoize_fn.
use incremental::*;
use std::cell::{Cell, RefCell};
use std::collections::{HashMap, HashSet};
use std::panic::{catch_unwind, AssertUnwindSafe};
use std::rc::{Rc, Weak};
struct Rng(u64);
impl Rng { fn next(&mut self) -> u64 { self.0 ^= self.0 << 13; self.0 ^= self.0 >> 7; self.0 ^= self.0 << 17; self.0 }
           fn below(&mut self, n: usize) -> usize { (self.next() % (n as u64)) as usize } }
fn pm(e: Box<dyn std::any::Any + Send>) -> String { e.downcast_ref::<String>().cloned().or_else(|| e.downcast_ref::<&str>().map(|s| s.to_string())).unwrap_or_default().lines().next().unwrap_or("").chars().take(90).collect() }
enum H { St(IncrState), Var(Var<i64>), VarVar(Var<Var<i64>>), Node(Incr<i64>), Obs(Observer<i64>), Stab }
fn c12(seed: u64) -> Result<u64, String> {
    let mut rng = Rng(seed.wrapping_mul(0x9E3779B97F4A7C15) | 1);
    let st = IncrState::new();
    let mut handles: Vec<H> = vec![]; let mut weaks: Vec<(String, WeakIncr<i64>)> = vec![]; let mut flags: Vec<(String, Weak<()>)> = vec![];
    let mut nodes: Vec<Incr<i64>> = vec![]; let mut vars: Vec<Var<i64>> = vec![];
    for i in 0..(1 + rng.below(3)) { let v = st.var(i as i64); weaks.push((format!("var{i}"), v.watch().weak())); nodes.push(v.watch()); vars.push(v); }
    for i in 0..(3 + rng.below(8)) {
        let a = nodes[rng.below(nodes.len())].clone(); let b = nodes[rng.below(nodes.len())].clone();
        let flag = Rc::new(()); flags.push((format!("closure{i}"), Rc::downgrade(&flag)));
        let n: Incr<i64> = match rng.below(8) {
            0 => a.map(move |v| { let _f = &flag; v + 1 }),
            1 => a.map2(&a, move |p, q| { let _f = &flag; p + q }),                       // self-map2
            2 => a.map2(&b, move |p, q| { let _f = &flag; p * 2 + q }),
            3 => { let a2 = a.clone(); a.bind(move |_| { let _f = &flag; a2.clone() }) }   // bind returning its own input
            4 => { let b2 = b.clone(); a.bind(move |&v| { let _f = &flag; if v % 2 == 0 { b2.clone() } else { b2.map(|q| q + 1) } }) }
            5 => st.fold(vec![a.clone(), b.clone(), a.clone()], 0i64, move |acc, v| { let _f = &flag; acc + v }),
            6 => { // var of var, joined through a bind
                let inner = st.var(7i64); weaks.push((format!("inner{i}"), inner.watch().weak())); let outer = st.var(inner.clone());
                let n = outer.bind(move |iv| { let _f = &flag; iv.watch() }); handles.push(H::Var(inner)); handles.push(H::VarVar(outer)); n }
            _ => { // expert join of a var holding an incr
                use incremental::expert::*;
                let prev: Rc<RefCell<Option<Dependency<i64>>>> = Rc::new(None.into());
                let join = Node::<i64>::new(&st.weak(), { let p = prev.clone(); move || p.borrow().clone().unwrap().value_cloned() });
                let jw = join.weak(); let a2 = a.clone(); let b2 = b.clone();
                let lc = a.map(move |&v| { let _f = &flag; let rhs = if v % 2 == 0 { a2.clone() } else { b2.clone() }; let dep = jw.add_dependency(&rhs); let mut p = prev.borrow_mut(); if let Some(old) = p.take() { jw.remove_dependency(old); } p.replace(dep); });
                join.add_dependency(&lc); join.watch() } };
        weaks.push((format!("node{i}"), n.weak())); nodes.push(n);
    }
    for n in &nodes { if rng.below(2) == 0 { handles.push(H::Obs(n.observe())); } }
    st.stabilise();
    for v in &vars { if rng.below(2) == 0 { v.set(rng.below(5) as i64); } }
    if rng.below(2) == 0 { st.stabilise(); }
    for v in vars { handles.push(H::Var(v)); } for n in nodes { handles.push(H::Node(n)); }
    let st2 = st.clone();
    handles.push(H::St(st)); for _ in 0..rng.below(3) { handles.push(H::Stab); }
    // random drop order; H::Stab = stabilise now (if the state handle is still around)
    let mut state_alive = true; let mut checks = 0u64;
    let mut keep_state = Some(st2); // a second IncrState handle so we can stabilise at the end when the H::St one was dropped... drop it with H::St
    while !handles.is_empty() { let i = rng.below(handles.len()); match handles.swap_remove(i) {
        H::Stab => { if let Some(s) = &keep_state { s.stabilise(); } }
        H::St(s) => { drop(s); keep_state = None; state_alive = false; }
        other => drop(other) } }
    if let Some(s) = &keep_state { s.stabilise(); }
    let _ = state_alive;
    let after_stab_or_state_dropped = true;
    if after_stab_or_state_dropped {
        for (name, w) in &weaks { checks += 1; if w.strong_count() != 0 { return Err(format!("C12 seed {seed}: {name} not released (strong={}) state_alive={}", w.strong_count(), keep_state.is_some())); } }
        for (name, f) in &flags { checks += 1; if f.strong_count() != 0 { return Err(format!("C12 seed {seed}: {name} capture not released state_alive={}", keep_state.is_some())); } } }
    Ok(checks)
}
fn c11lite(seed: u64) -> Result<u64, String> {
    // static graph; stats().necessary must equal the size of the cone of in-use observers after each stabilise,
    // and it must not move between stabilises except through... (observers are linked/unlinked only in stabilise)
    let mut rng = Rng(seed.wrapping_mul(0x9E3779B97F4A7C15) | 1);
    let st = IncrState::new();
    let x = st.var(0i64); let y = st.var(0i64);
    let mut nodes: Vec<Incr<i64>> = vec![x.watch(), y.watch()]; let mut ins: Vec<Vec<usize>> = vec![vec![], vec![]];
    for _ in 0..(3 + rng.below(8)) { let a = rng.below(nodes.len()); let b = rng.below(nodes.len());
        match rng.below(3) { 0 => { nodes.push(nodes[a].map(|v| v + 1)); ins.push(vec![a]); } 1 => { nodes.push(nodes[a].map2(&nodes[b], |p, q| p + q)); ins.push(vec![a, b]); }
            _ => { nodes.push(st.fold(vec![nodes[a].clone(), nodes[b].clone(), nodes[a].clone()], 0, |acc, v| acc + v)); ins.push(vec![a, b]); } } }
    let mut obs: Vec<(usize, Observer<i64>)> = vec![]; let mut checks = 0;
    for step in 0..(10 + rng.below(30)) { match rng.below(6) {
        0 => { x.set(rng.below(4) as i64); } 1 => { let i = rng.below(nodes.len()); obs.push((i, nodes[i].observe())); }
        2 => { if !obs.is_empty() { let k = rng.below(obs.len()); obs.swap_remove(k); } }
        _ => { st.stabilise(); let mut cone = HashSet::new(); let mut stack: Vec<usize> = obs.iter().map(|(i, _)| *i).collect(); while let Some(i) = stack.pop() { if cone.insert(i) { stack.extend(ins[i].iter()); } }
            checks += 1; let n = st.stats().necessary; if n != cone.len() { return Err(format!("C11 seed {seed} step {step}: stats().necessary={n} cone={}", cone.len())); } } } }
    Ok(checks)
}
fn c20(seed: u64) -> Result<u64, String> {
    let mut rng = Rng(seed.wrapping_mul(0x9E3779B97F4A7C15) | 1);
    let st = IncrState::new();
    let calls: Rc<RefCell<HashMap<i64, u32>>> = Default::default(); let c2 = calls.clone(); let w = st.weak();
    let base = st.var(100i64); let bw = base.watch();
    let memo = st.weak_memoize_fn(move |k: i64| { *c2.borrow_mut().entry(k).or_insert(0) += 1; let _ = &w; bw.map(move |b| b + k) });
    let sel = st.var(0i64); let sel2 = st.var(0i64);
    let m1 = RefCell::new(memo.clone()); let m2 = RefCell::new(memo.clone()); let mut m0 = memo.clone();
    let b1 = sel.bind(move |&s| (m1.borrow_mut())(s % 3));
    let s2w = sel2.watch(); let b2 = sel.bind(move |&s| { let m2b = m2.clone(); let _ = s; let mm = RefCell::new(m2b.into_inner()); s2w.bind(move |&t| (mm.borrow_mut())(t % 3)) });
    let o1 = b1.observe(); let o2 = b2.observe();
    let mut held: HashMap<i64, (Incr<i64>, Observer<i64>)> = HashMap::new(); let mut checks = 0; let (mut sv, mut tv, mut bv) = (0i64, 0i64, 100i64);
    st.stabilise();
    for step in 0..(10 + rng.below(20)) { match rng.below(7) {
        0 => { sv = rng.below(6) as i64; sel.set(sv); } 1 => { tv = rng.below(6) as i64; sel2.set(tv); } 2 => { bv = 100 + rng.below(3) as i64; base.set(bv); }
        3 => { let k = rng.below(3) as i64; let before = calls.borrow().get(&k).copied().unwrap_or(0); let n = m0(k); let after = calls.borrow().get(&k).copied().unwrap_or(0);
               if let Some((h, _)) = held.get(&k) { checks += 1; if *h != n { return Err(format!("C20 seed {seed} step {step}: key {k} returned a different node while one is held")); } if after != before { return Err(format!("C20 seed {seed} step {step}: f invoked for live key {k}")); } }
               let o = n.observe(); held.insert(k, (n, o)); }
        4 => { let k = rng.below(3) as i64; held.remove(&k); }
        _ => { st.stabilise(); checks += 3;
               if o1.try_get_value() != Ok(bv + sv % 3) { return Err(format!("C20 seed {seed} step {step}: b1 {:?} want {}", o1.try_get_value(), bv + sv % 3)); }
               if o2.try_get_value() != Ok(bv + tv % 3) { return Err(format!("C20 seed {seed} step {step}: b2 {:?} want {}", o2.try_get_value(), bv + tv % 3)); }
               for (k, (_, o)) in &held { if o.try_get_value() != Ok(bv + k) { return Err(format!("C20 seed {seed} step {step}: held key {k}: {:?} want {}", o.try_get_value(), bv + k)); } } } } }
    Ok(checks)
}
fn main() {
    let args: Vec<String> = std::env::args().collect();
    std::panic::set_hook(Box::new(|_| {}));
    let from: u64 = args[2].parse().unwrap(); let to: u64 = args[3].parse().unwrap();
    let (mut fails, mut checks) = (0, 0u64); let mut kinds: HashMap<String, u64> = HashMap::new();
    for seed in from..to {
        let r = catch_unwind(AssertUnwindSafe(|| match args[1].as_str() { "c12" => c12(seed), "c11" => c11lite(seed), _ => c20(seed) }));
        let msg = match r { Ok(Ok(c)) => { checks += c; continue } Ok(Err(e)) => e, Err(e) => format!("PANIC seed {seed}: {}", pm(e)) };
        fails += 1; let key: String = msg.split(':').last().unwrap_or("").chars().filter(|c| !c.is_ascii_digit()).take(50).collect();
        let e = kinds.entry(key).or_insert(0); *e += 1; if *e <= 2 { println!("{msg}"); }
    }
    println!("{} runs {} fails {} checks {}", args[1], to - from, fails, checks);
    let mut k: Vec<_> = kinds.into_iter().collect(); k.sort(); for (k, v) in k { println!("  {v:6}  {k}"); }
}
