//! Scratch probe (design-time only): incremental-map operators vs plain definitions.
use im_rc::OrdMap;
use incremental::*;
use incremental_map::im_rc::Either;
use incremental_map::prelude::*;
use std::cell::RefCell;
use std::collections::{BTreeMap, HashMap};
use std::panic::{catch_unwind, AssertUnwindSafe};
use std::rc::Rc;

struct Rng(u64);
impl Rng { fn next(&mut self) -> u64 { self.0 ^= self.0 << 13; self.0 ^= self.0 >> 7; self.0 ^= self.0 << 17; self.0 }
           fn below(&mut self, n: usize) -> usize { (self.next() % (n as u64)) as usize } }
type M = BTreeMap<i32, i32>;
fn om(m: &M) -> OrdMap<i32, i32> { m.iter().map(|(k, v)| (*k, *v)).collect() }
fn bm<V: Clone>(m: &OrdMap<i32, V>) -> BTreeMap<i32, V> { m.iter().map(|(k, v)| (*k, v.clone())).collect() }
fn edit(rng: &mut Rng, m: &mut M) { match rng.below(8) {
    0 => m.clear(),
    1 | 2 => { let n = 1 + rng.below(3); for _ in 0..n { m.insert(rng.below(6) as i32, rng.below(4) as i32); } }
    3 | 4 => { let k = rng.below(6) as i32; m.remove(&k); }
    5 => { let k = rng.below(6) as i32; if let Some(v) = m.get_mut(&k) { *v = (*v + 1) % 4; } }
    6 => {} // no-op edit (equal map written)
    _ => { for k in 0..6 { if rng.below(2) == 0 { m.insert(k, rng.below(4) as i32); } else { m.remove(&k); } } } } }
fn fm(k: &i32, v: &i32) -> Option<i32> { if (k + v) % 3 == 0 { None } else { Some(k * 10 + v) } }
fn mergef(_k: &i32, e: MergeElement<&i32, &i32>) -> Option<i32> { match e { MergeElement::Left(a) => Some(*a), MergeElement::Right(b) => if *b == 0 { None } else { Some(100 + b) }, MergeElement::Both(a, b) => Some(a * 10 + b) } }
fn plain_merge(a: &M, b: &M) -> M { let mut out = M::new(); for k in 0..6 { let r = match (a.get(&k), b.get(&k)) { (None, None) => None, (Some(x), None) => mergef(&k, MergeElement::Left(x)), (None, Some(y)) => mergef(&k, MergeElement::Right(y)), (Some(x), Some(y)) => mergef(&k, MergeElement::Both(x, y)) }; if let Some(r) = r { out.insert(k, r); } } out }

fn run(seed: u64, log: &Rc<RefCell<Vec<(u64, i32)>>>) -> Result<u64, String> {
    let mut rng = Rng(seed.wrapping_mul(0x9E3779B97F4A7C15) | 1);
    let st = IncrState::new();
    let mut a = M::new(); let mut b = M::new();
    edit(&mut rng, &mut a); edit(&mut rng, &mut b);
    let va = st.var(a.clone()); let vb = st.var(b.clone());
    let voa = st.var(om(&a)); let vob = st.var(om(&b));
    let vra = st.var(Rc::new(a.clone()));
    let outer = st.var(1i32); let mut outer_v = 1i32;
    let l1 = log.clone();
    let n_fm_b = va.incr_filter_mapi(move |k, v| { l1.borrow_mut().push((1, *k)); fm(k, v) });
    let n_fm_o = voa.incr_filter_mapi(|k, v| fm(k, v));
    let n_fm_r = vra.incr_filter_mapi(|k, v| fm(k, v));
    let n_fold_b = va.incr_unordered_fold(0i32, |acc, k, v| acc + k * v, |acc, k, v| acc - k * v, false);
    let n_fold_r = vra.incr_unordered_fold(7i32, |acc, _k, v| acc + v, |acc, _k, v| acc - v, true);
    let n_fold_o = voa.incr_unordered_fold_update(0i32, |acc, _k, v| acc + v, |acc, _k, v| acc - v, |acc, _k, o, n| acc - o + n, true);
    let n_merge_b = va.incr_merge(&vb, mergef);
    let n_merge_o = voa.incr_merge(&vob, mergef);
    let n_part = voa.incr_partition_mapi(|k, v| if (k + v) % 2 == 0 { Either::Left(*v) } else { Either::Right(v * 2) });
    let ow = outer.watch();
    let n_pk_b = va.incr_mapi_({ let ow = ow.clone(); move |_k, v| v.map2(&ow, |x, o| x * 10 + o) });
    let n_pk_o = voa.incr_filter_mapi_(|k, v| { let k = *k; v.map(move |x| fm(&k, x)) });
    let n_pk_bind = va.incr_mapi_({ let ow = ow.clone(); move |_k, v| { let ow = ow.clone(); v.bind(move |&x| if x % 2 == 0 { ow.clone() } else { ow.map(move |o| o + x) }) } });
    let n_pk_ign = va.incr_mapi_({ let ow = ow.clone(); move |_k, _v| ow.map(|o| *o) });
    let shared = outer.map(|o| o + 1000);
    let n_pk_shared = voa.incr_mapi_(move |_k, _v| shared.clone());
    macro_rules! obs { ($($n:ident),*) => { ($(Some($n.observe())),*) } }
    let (mut o1, mut o2, mut o3, mut o4, mut o5, mut o6, mut o7, mut o8, mut o9, mut o10, mut o11, mut o12, mut o13, mut o14) =
        obs!(n_fm_b, n_fm_o, n_fm_r, n_fold_b, n_fold_r, n_fold_o, n_merge_b, n_merge_o, n_part, n_pk_b, n_pk_o, n_pk_bind, n_pk_ign, n_pk_shared);
    let mut checks = 0;
    let mut prev_a = M::new(); let mut first = true;
    for step in 0..(6 + rng.below(14)) {
        match rng.below(10) {
            0 | 1 | 2 | 3 => { edit(&mut rng, &mut a); va.set(a.clone()); voa.set(om(&a)); vra.set(Rc::new(a.clone())); }
            4 | 5 => { edit(&mut rng, &mut b); vb.set(b.clone()); vob.set(om(&b)); }
            6 => { outer_v = rng.below(5) as i32; outer.set(outer_v); }
            7 => { // toggle one observer
                macro_rules! tog { ($o:ident, $n:ident) => { if $o.is_some() { $o = None; } else { $o = Some($n.observe()); } } }
                match rng.below(14) { 0 => tog!(o1, n_fm_b), 1 => tog!(o2, n_fm_o), 2 => tog!(o3, n_fm_r), 3 => tog!(o4, n_fold_b), 4 => tog!(o5, n_fold_r), 5 => tog!(o6, n_fold_o), 6 => tog!(o7, n_merge_b), 7 => tog!(o8, n_merge_o), 8 => tog!(o9, n_part), 9 => tog!(o10, n_pk_b), 10 => tog!(o11, n_pk_o), 11 => tog!(o12, n_pk_bind), 12 => tog!(o13, n_pk_ign), _ => tog!(o14, n_pk_shared) } }
            _ => {}
        }
        log.borrow_mut().clear();
        let o1_was = o1.is_some();
        st.stabilise();
        let want_fm: M = a.iter().filter_map(|(k, v)| fm(k, v).map(|r| (*k, r))).collect();
        macro_rules! chk { ($o:ident, $name:expr, $want:expr, $conv:expr) => { if let Some(o) = &$o { checks += 1; match o.try_get_value() { Ok(v) => { let got = $conv(&v); if got != $want { return Err(format!("{} seed {seed} step {step}: got {:?} want {:?}", $name, got, $want)); } } Err(e) => return Err(format!("{} seed {seed} step {step}: {e:?}", $name)) } } } }
        chk!(o1, "C15 filter_mapi/BTreeMap", want_fm, |v: &M| v.clone());
        chk!(o2, "C15 filter_mapi/OrdMap", want_fm, |v: &OrdMap<i32, i32>| bm(v));
        chk!(o3, "C15 filter_mapi/RcBTreeMap", want_fm, |v: &Rc<M>| (**v).clone());
        chk!(o4, "C15 fold/BTreeMap", a.iter().map(|(k, v)| k * v).sum::<i32>(), |v: &i32| *v);
        chk!(o5, "C15 fold-revert/RcBTreeMap", 7 + a.values().sum::<i32>(), |v: &i32| *v);
        chk!(o6, "C15 fold-update/OrdMap", a.values().sum::<i32>(), |v: &i32| *v);
        chk!(o7, "C15 merge/BTreeMap", plain_merge(&a, &b), |v: &M| v.clone());
        chk!(o8, "C15 merge/OrdMap", plain_merge(&a, &b), |v: &OrdMap<i32, i32>| bm(v));
        let wl: M = a.iter().filter(|(k, v)| (*k + *v) % 2 == 0).map(|(k, v)| (*k, *v)).collect();
        let wr: M = a.iter().filter(|(k, v)| (*k + *v) % 2 != 0).map(|(k, v)| (*k, v * 2)).collect();
        chk!(o9, "C15 partition/OrdMap", (wl.clone(), wr.clone()), |v: &(OrdMap<i32, i32>, OrdMap<i32, i32>)| (bm(&v.0), bm(&v.1)));
        chk!(o10, "C16 mapi_ map2-outer/BTreeMap", a.iter().map(|(k, v)| (*k, v * 10 + outer_v)).collect::<M>(), |v: &M| v.clone());
        chk!(o11, "C16 filter_mapi_/OrdMap", want_fm, |v: &OrdMap<i32, i32>| bm(v));
        chk!(o12, "C16 mapi_ bind/BTreeMap", a.iter().map(|(k, v)| (*k, if v % 2 == 0 { outer_v } else { outer_v + v })).collect::<M>(), |v: &M| v.clone());
        chk!(o13, "C16 mapi_ ignore-input/BTreeMap", a.iter().map(|(k, _)| (*k, outer_v)).collect::<M>(), |v: &M| v.clone());
        chk!(o14, "C16 mapi_ shared/OrdMap", a.iter().map(|(k, _)| (*k, outer_v + 1000)).collect::<M>(), |v: &OrdMap<i32, i32>| bm(v));
        // C17 for filter_mapi on BTreeMap: calls only on differing keys, unless (re)initialising / emptied
        if o1_was && o1.is_some() && !first && !a.is_empty() && !prev_a.is_empty() {
            let mut calls: HashMap<i32, u32> = HashMap::new(); for (_, k) in log.borrow().iter() { *calls.entry(*k).or_insert(0) += 1; }
            for (k, c) in &calls { let differs = prev_a.get(k) != a.get(k); if !differs || *c > 1 { return Err(format!("C17 filter_mapi seed {seed} step {step}: key {k} called {c} times, differs={differs}")); } }
        }
        if o1.is_some() { prev_a = a.clone(); first = false; }
    }
    Ok(checks)
}
fn main() {
    let args: Vec<String> = std::env::args().collect();
    let from: u64 = args[1].parse().unwrap(); let to: u64 = args[2].parse().unwrap();
    std::panic::set_hook(Box::new(|_| {}));
    let (mut fails, mut checks) = (0, 0u64);
    let mut kinds: HashMap<String, u64> = HashMap::new();
    for seed in from..to {
        let log = Rc::new(RefCell::new(vec![]));
        let r = catch_unwind(AssertUnwindSafe(|| run(seed, &log)));
        let msg = match r { Ok(Ok(c)) => { checks += c; continue } Ok(Err(e)) => e,
            Err(e) => format!("PANIC seed {seed}: {}", e.downcast_ref::<String>().cloned().or_else(|| e.downcast_ref::<&str>().map(|s| s.to_string())).unwrap_or_default().lines().next().unwrap_or("").chars().take(100).collect::<String>()) };
        fails += 1;
        let key: String = msg.split(" seed ").next().unwrap_or("").to_string() + if msg.starts_with("PANIC") { msg.split(':').nth(1).unwrap_or("") } else { "" };
        let e = kinds.entry(key.chars().take(70).collect()).or_insert(0); *e += 1; if *e <= 2 { println!("{msg}"); }
    }
    println!("runs {} fails {} checks {}", to - from, fails, checks);
    let mut k: Vec<_> = kinds.into_iter().collect(); k.sort(); for (k, v) in k { println!("  {v:6}  {k}"); }
}
