//! Scratch probe (design-time only): C01 over the remaining combinators
//! (map3, fold, map_ref, map_with_old, zip, depend_on, constants) with observer churn.
use incremental::*;
use std::collections::HashMap;
use std::panic::{catch_unwind, AssertUnwindSafe};
struct Rng(u64);
impl Rng { fn next(&mut self) -> u64 { self.0 ^= self.0 << 13; self.0 ^= self.0 >> 7; self.0 ^= self.0 << 17; self.0 }
           fn below(&mut self, n: usize) -> usize { (self.next() % (n as u64)) as usize } }
type P = (i64, i64);
#[derive(Clone, Debug)] enum Spec { Var(usize), Const(P), Map(u8, usize), Map3(usize, usize, usize), Fold(Vec<usize>), RefProj(u8, usize), Old(u8, usize), Zip(usize, usize), Dep(usize, usize), Bind(usize, usize, usize) }
fn f1(f: u8, a: P) -> P { match f % 4 { 0 => ((a.0 + 1) % 7, a.1), 1 => (a.0, (a.1 * 2) % 5), 2 => (a.0 % 2, 0), _ => (a.1, a.0) } }
fn eval(specs: &[Spec], vars: &[P], i: usize) -> P { match &specs[i] {
    Spec::Var(v) => vars[*v], Spec::Const(c) => *c, Spec::Map(f, a) => f1(*f, eval(specs, vars, *a)),
    Spec::Map3(a, b, c) => { let (x, y, z) = (eval(specs, vars, *a), eval(specs, vars, *b), eval(specs, vars, *c)); ((x.0 + y.0 + z.0) % 7, (x.1 + y.1 * z.1) % 5) }
    Spec::Fold(xs) => xs.iter().fold((0, 1), |acc, j| { let v = eval(specs, vars, *j); ((acc.0 + v.0) % 7, (acc.1 * (v.1 + 1)) % 5) }),
    Spec::RefProj(w, a) => { let v = eval(specs, vars, *a); if *w % 2 == 0 { (v.0, 0) } else { (v.1, 0) } }
    Spec::Old(f, a) => f1(*f, eval(specs, vars, *a)), Spec::Zip(a, b) => { let (x, y) = (eval(specs, vars, *a), eval(specs, vars, *b)); (x.0, y.1) }
    Spec::Dep(a, _) => eval(specs, vars, *a),
    Spec::Bind(l, a, b) => { let lv = eval(specs, vars, *l); if lv.0 % 2 == 0 { eval(specs, vars, *a) } else { eval(specs, vars, *b) } } } }
fn run(seed: u64) -> Result<u64, String> {
    let mut rng = Rng(seed.wrapping_mul(0x9E3779B97F4A7C15) | 1);
    let st = IncrState::new();
    let nvars = 1 + rng.below(3);
    let mut specs = vec![]; let mut vars = vec![]; let mut vals: Vec<P> = vec![]; let mut nodes: Vec<Incr<P>> = vec![];
    let mut inner_refs: Vec<(usize, u8, Incr<i64>)> = vec![]; // direct observers on map_ref nodes
    for v in 0..nvars { let init = (rng.below(3) as i64, rng.below(3) as i64); let var = st.var(init); nodes.push(var.watch()); vars.push(var); vals.push(init); specs.push(Spec::Var(v)); }
    for _ in 0..(3 + rng.below(10)) { let n = nodes.len(); let mut pick = || rng.below(n);
        let spec = match pick() % 10 { 0 => Spec::Const((pick() as i64 % 3, 1)), 1 | 2 => Spec::Map((pick() % 4) as u8, pick()), 3 => Spec::Map3(pick(), pick(), pick()), 4 => Spec::Fold((0..(1 + pick() % 4)).map(|_| pick()).collect()),
            5 | 6 => Spec::RefProj((pick() % 2) as u8, pick()), 7 => Spec::Old((pick() % 4) as u8, pick()), 8 => if pick() % 2 == 0 { Spec::Zip(pick(), pick()) } else { Spec::Dep(pick(), pick()) }, _ => Spec::Bind(pick(), pick(), pick()) };
        let node: Incr<P> = match &spec {
            Spec::Const(c) => st.constant(*c), Spec::Map(f, a) => { let f = *f; nodes[*a].map(move |x| f1(f, *x)) }
            Spec::Map3(a, b, c) => nodes[*a].map3(&nodes[*b], &nodes[*c], |x, y, z| ((x.0 + y.0 + z.0) % 7, (x.1 + y.1 * z.1) % 5)),
            Spec::Fold(xs) => st.fold(xs.iter().map(|j| nodes[*j].clone()).collect(), (0i64, 1i64), |acc, v| ((acc.0 + v.0) % 7, (acc.1 * (v.1 + 1)) % 5)),
            Spec::RefProj(w, a) => { let r: Incr<i64> = if *w % 2 == 0 { nodes[*a].map_ref(|p| &p.0) } else { nodes[*a].map_ref(|p| &p.1) }; inner_refs.push((*a, *w, r.clone())); r.map(|x| (*x, 0)) }
            Spec::Old(f, a) => { let f = *f; nodes[*a].map_with_old(move |old: Option<P>, x| { let nv = f1(f, *x); (nv, old != Some(nv)) }) }
            Spec::Zip(a, b) => nodes[*a].zip(&nodes[*b]).map(|(x, y)| (x.0, y.1)), Spec::Dep(a, b) => nodes[*a].depend_on(&nodes[*b]),
            Spec::Bind(l, a, b) => { let (na, nb) = (nodes[*a].clone(), nodes[*b].clone()); nodes[*l].bind(move |lv| if lv.0 % 2 == 0 { na.clone() } else { nb.clone() }) }
            Spec::Var(_) => unreachable!() };
        nodes.push(node); specs.push(spec); }
    let verbose = std::env::var("V").is_ok();
    if verbose { for (i, sp) in specs.iter().enumerate() { println!("n{i}: {sp:?}"); } }
    let mut obs: Vec<(usize, Observer<P>)> = vec![]; let mut robs: Vec<(usize, Observer<i64>)> = vec![]; let mut checks = 0u64;
    for step in 0..(10 + rng.below(50)) { match rng.below(11) {
        0 | 1 | 2 => { let v = rng.below(nvars); vals[v] = (rng.below(3) as i64, rng.below(3) as i64); vars[v].set(vals[v]); if verbose { println!("{step}: set v{v} {:?}", vals[v]); } }
        3 | 4 => { let i = rng.below(nodes.len()); obs.push((i, nodes[i].observe())); if verbose { println!("{step}: observe n{i}"); } }
        5 => { if !inner_refs.is_empty() { let k = rng.below(inner_refs.len()); robs.push((k, inner_refs[k].2.observe())); if verbose { println!("{step}: observe inner ref #{k} of n{}", inner_refs[k].0); } } }
        6 => { if !obs.is_empty() { let k = rng.below(obs.len()); if verbose { println!("{step}: drop obs n{}", obs[k].0); } obs.swap_remove(k); } }
        7 => { if !robs.is_empty() { let k = rng.below(robs.len()); if verbose { println!("{step}: drop inner obs #{}", robs[k].0); } robs.swap_remove(k); } }
        _ => { if verbose { println!("{step}: stabilise"); } st.stabilise();
            for (i, o) in &obs { checks += 1; let w = eval(&specs, &vals, *i); let g = o.try_get_value(); if g != Ok(w) { return Err(format!("C01 seed {seed} step {step}: n{i} ({:?}) got {g:?} want {w:?}", specs[*i])); } }
            for (k, o) in &robs { checks += 1; let (a, w, _) = &inner_refs[*k]; let v = eval(&specs, &vals, *a); let want = if *w % 2 == 0 { v.0 } else { v.1 }; let g = o.try_get_value(); if g != Ok(want) { return Err(format!("C01 seed {seed} step {step}: map_ref of n{a} got {g:?} want {want}")); } } } } }
    Ok(checks)
}
fn main() {
    let args: Vec<String> = std::env::args().collect(); std::panic::set_hook(Box::new(|_| {}));
    let from: u64 = args[1].parse().unwrap(); let to: u64 = args[2].parse().unwrap();
    let (mut fails, mut checks) = (0, 0u64); let mut kinds: HashMap<String, u64> = HashMap::new();
    for seed in from..to { let r = catch_unwind(AssertUnwindSafe(|| run(seed)));
        let msg = match r { Ok(Ok(c)) => { checks += c; continue } Ok(Err(e)) => e, Err(e) => format!("PANIC seed {seed}: {}", e.downcast_ref::<String>().cloned().or_else(|| e.downcast_ref::<&str>().map(|s| s.to_string())).unwrap_or_default().lines().next().unwrap_or("").chars().take(90).collect::<String>()) };
        fails += 1; let key: String = if msg.starts_with("PANIC") { msg.split(": ").nth(1).unwrap_or("").chars().take(40).collect() } else { msg.split('(').nth(1).unwrap_or("").split('(').next().unwrap_or("").chars().take(12).collect() };
        let e = kinds.entry(key).or_insert(0); *e += 1; if *e <= 2 { println!("{msg}"); } }
    println!("runs {} fails {} checks {}", to - from, fails, checks);
    let mut k: Vec<_> = kinds.into_iter().collect(); k.sort(); for (k, v) in k { println!("  {v:6}  {k}"); }
}
