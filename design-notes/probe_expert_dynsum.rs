//! Scratch probe (design-time only): C14 expert node as a dynamic multiset-sum with per-edge callbacks.
use incremental::expert::*;
use incremental::*;
use std::cell::{Cell, RefCell};
use std::collections::HashMap;
use std::panic::{catch_unwind, AssertUnwindSafe};
use std::rc::Rc;
struct Rng(u64);
impl Rng { fn next(&mut self) -> u64 { self.0 ^= self.0 << 13; self.0 ^= self.0 >> 7; self.0 ^= self.0 << 17; self.0 }
           fn below(&mut self, n: usize) -> usize { (self.next() % (n as u64)) as usize } }
fn pm(e: Box<dyn std::any::Any + Send>) -> String { e.downcast_ref::<String>().cloned().or_else(|| e.downcast_ref::<&str>().map(|s| s.to_string())).unwrap_or_default().lines().next().unwrap_or("").chars().take(90).collect() }
const N: usize = 5;
fn run(seed: u64) -> Result<u64, String> {
    let mut rng = Rng(seed.wrapping_mul(0x9E3779B97F4A7C15) | 1);
    let st = IncrState::new();
    let vars: Vec<Var<i64>> = (0..N).map(|i| st.var(i as i64 + 1)).collect();
    let mut vals: Vec<i64> = (0..N).map(|i| i as i64 + 1).collect();
    // item 4 is produced inside a bind scope, so it is *invalidated* whenever gate changes; the driver depends on gate too
    let gate = st.var(0i64); let mut gatev = 0i64;
    let slot: Rc<RefCell<Option<Incr<i64>>>> = Default::default();
    let (slot2, v4) = (slot.clone(), vars[4].watch());
    let scoped = gate.bind(move |&g| { let n = v4.map(move |v| v + g); *slot2.borrow_mut() = Some(n.clone()); n });
    let _keep_scoped = scoped.observe();
    let v2w = vars[2].watch();
    let items: Vec<Incr<i64>> = vec![vars[0].watch(), vars[1].map(|v| *v), vars[2].bind(move |_| v2w.clone()), vars[3].map(|v| v * 1).map(|v| *v)];
    let total = Rc::new(Cell::new(0i64)); let recomputes = Rc::new(Cell::new(0u32)); let cb_calls = Rc::new(Cell::new(0u32));
    let sum = Node::<i64>::new(&st.weak(), { let (t, r) = (total.clone(), recomputes.clone()); move || { r.set(r.get() + 1); t.get() } });
    let sumw = sum.weak();
    let sel = st.var(vec![0u8; N]); let mut selv = vec![0u8; N];
    let poke = st.var(0i64); // changing poke asks the driver to make_stale without changing dependencies
    struct Dep { dep: Dependency<i64>, last: Rc<Cell<i64>>, node: Incr<i64> }
    let deps: Rc<RefCell<Vec<Vec<Dep>>>> = Rc::new(RefCell::new((0..N).map(|_| vec![]).collect()));
    let driver = {
        let (deps, total, cbc, items, slot, pokew, gatew) = (deps.clone(), total.clone(), cb_calls.clone(), items.clone(), slot.clone(), poke.watch(), gate.watch());
        let last_poke = Cell::new(0i64);
        sel.map2(&gatew, move |want: &Vec<u8>, g| (want.clone(), *g)).map2(&pokew, move |(want, _), p| {
            let mut d = deps.borrow_mut();
            for i in 0..N {
                // item 4: if the scoped node was replaced (old one invalid), drop all deps on the old node first
                if i == 4 { let cur = slot.borrow().clone().unwrap(); let stale: Vec<usize> = d[4].iter().enumerate().filter(|(_, x)| x.node != cur).map(|(k, _)| k).collect();
                    for k in stale.into_iter().rev() { let x = d[4].remove(k); total.set(total.get() - x.last.get()); sumw.remove_dependency(x.dep); } }
                while d[i].len() > want[i] as usize { let k = if d[i].len() > 1 && want[i] % 2 == 1 { 0 } else { d[i].len() - 1 }; let x = d[i].remove(k); total.set(total.get() - x.last.get()); sumw.remove_dependency(x.dep); }
                while d[i].len() < want[i] as usize { let node = if i == 4 { slot.borrow().clone().unwrap() } else { items[i].clone() };
                    let last = Rc::new(Cell::new(0i64)); let (l2, t2, c2) = (last.clone(), total.clone(), cbc.clone());
                    let dep = sumw.add_dependency_with(&node, move |v| { c2.set(c2.get() + 1); t2.set(t2.get() + v - l2.get()); l2.set(*v); });
                    d[i].push(Dep { dep, last, node }); } }
            if *p != last_poke.get() { last_poke.set(*p); sumw.make_stale(); }
            0i64 }) };
    sum.add_dependency(&driver);
    let sum_incr = sum.watch();
    let downstream = sum_incr.map(|v| v + 1);
    let mut obs = Some(downstream.observe());
    let mut checks = 0u64;
    for step in 0..(10 + rng.below(40)) {
        let verbose = std::env::var("V").is_ok();
        let op = rng.below(9);
        if verbose { println!("step {step}: op {op} sel {selv:?} vals {vals:?} gate {gatev} observed {}", obs.is_some()); }
        match op {
            0 | 1 => { let i = rng.below(N); vals[i] = rng.below(6) as i64; vars[i].set(vals[i]); }
            2 | 3 => { let i = rng.below(N); selv[i] = rng.below(3) as u8; sel.set(selv.clone()); }
            4 => { gatev = step as i64 + 1; gate.set(gatev); } // never repeats: every re-run of the scope is visible to the driver
            5 => { if obs.is_some() { obs = None; } else { obs = Some(downstream.observe()); } }
            6 => { poke.set(step as i64 + 1); }
            _ => {
                let r0 = recomputes.get();
                st.stabilise();
                let item_val = |i: usize| if i == 4 { vals[4] + gatev } else { vals[i] };
                if let Some(o) = &obs { let want: i64 = (0..N).map(|i| selv[i] as i64 * item_val(i)).sum::<i64>() + 1; checks += 1;
                    let got = o.try_get_value(); if got != Ok(want) { return Err(format!("C14 seed {seed} step {step}: sum got {got:?} want {want} (sel {selv:?} vals {vals:?} gate {gatev})")); } }
                checks += 1; if recomputes.get() > r0 + 1 { return Err(format!("C14 seed {seed} step {step}: expert recomputed {} times in one stabilise", recomputes.get() - r0)); }
            } } }
    Ok(checks)
}
fn main() {
    let args: Vec<String> = std::env::args().collect();
    std::panic::set_hook(Box::new(|_| {}));
    let from: u64 = args[1].parse().unwrap(); let to: u64 = args[2].parse().unwrap();
    let (mut fails, mut checks) = (0, 0u64); let mut kinds: HashMap<String, u64> = HashMap::new();
    for seed in from..to {
        let r = catch_unwind(AssertUnwindSafe(|| run(seed)));
        let msg = match r { Ok(Ok(c)) => { checks += c; continue } Ok(Err(e)) => e, Err(e) => format!("PANIC seed {seed}: {}", pm(e)) };
        fails += 1; let key: String = msg.splitn(3, ": ").last().unwrap_or("").chars().filter(|c| !c.is_ascii_digit()).take(40).collect();
        let e = kinds.entry(key).or_insert(0); *e += 1; if *e <= 2 { println!("{msg}"); }
    }
    println!("c14 runs {} fails {} checks {}", to - from, fails, checks);
    let mut k: Vec<_> = kinds.into_iter().collect(); k.sort(); for (k, v) in k { println!("  {v:6}  {k}"); }
}
