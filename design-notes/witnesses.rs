//! Witness programs for the defects D1..D10 listed in /verif/DESIGN.md §7.
//! Each prints one line `Dk: <observed> | expect <expected>`; run against /repo (pinned) and
//! against a repaired copy.  Design artefact only -- not part of the framework.
use incremental::*;
use incremental_map::prelude::*;
use std::cell::{Cell, RefCell};
use std::collections::BTreeMap;
use std::panic::{catch_unwind, AssertUnwindSafe};
use std::rc::Rc;

fn log() -> Rc<RefCell<Vec<String>>> { Rc::new(RefCell::new(vec![])) }
fn pm(e: Box<dyn std::any::Any + Send>) -> String {
    e.downcast_ref::<String>().cloned()
        .or_else(|| e.downcast_ref::<&str>().map(|s| s.to_string()))
        .unwrap_or("<?>".into()).lines().next().unwrap_or("").to_string()
}
fn guard<T: std::fmt::Debug>(f: impl FnOnce() -> T) -> String {
    match catch_unwind(AssertUnwindSafe(f)) { Ok(v) => format!("{v:?}"), Err(e) => format!("PANIC({})", pm(e)) }
}

fn d1() -> String { guard(|| {
    let st = IncrState::new();
    let x = st.var((1i32, 10i32));
    let _ox = x.observe();
    let r = x.map_ref(|t| &t.0);
    let p = r.map(|v| v * 2);
    let o = p.observe();
    st.stabilise();
    x.set((1, 20)); st.stabilise();
    drop(o); st.stabilise();
    x.set((5, 20)); st.stabilise();
    let o = p.observe(); st.stabilise();
    o.try_get_value()
})}

/// D1, second form: the node is re-linked while stale *and* its input changes again in the same
/// stabilise with an unchanged projection (a repair that only resets the flag on re-link is not enough)
fn d1b() -> String { guard(|| {
    let st = IncrState::new();
    let x = st.var((1i32, 10i32));
    let _ox = x.observe();
    let r = x.map_ref(|t| &t.0);
    let p = r.map(|v| v * 2);
    let o = p.observe();
    st.stabilise();
    drop(o); st.stabilise();
    x.set((5, 10)); st.stabilise();
    x.set((5, 20));
    let o = p.observe(); st.stabilise();
    o.try_get_value()
})}

fn d2() -> String { guard(|| {
    let st = IncrState::new();
    let x = st.var(1i32);
    let lg = log();
    let a = x.map(|v| v + 100);
    let d = a.map(|v| v + 1000);
    let _od = d.observe();
    st.stabilise();
    let (lg2, d2) = (lg.clone(), d.clone());
    let b = x.bind(move |&xv| { let lg3 = lg2.clone(); d2.map(move |dv| { lg3.borrow_mut().push(format!("rhs[x={xv}]({dv})")); dv + xv }) });
    let lg4 = lg.clone();
    let m = b.map(move |v| { lg4.borrow_mut().push(format!("m({v})")); *v });
    let ob = m.observe();
    st.stabilise();
    lg.borrow_mut().clear();
    x.set(2); st.stabilise();
    let l = lg.borrow().clone();
    (ob.try_get_value(), l)
})}

fn d3() -> String { guard(|| {
    let st = IncrState::new();
    let x = st.var(1i32);
    let deep = { let mut i = x.watch(); for _ in 0..5 { i = i.map(|v| v + 1); } i };
    let sel = st.var(false);
    let c = st.constant(0i32);
    let inner_lhs = sel.bind(move |&s| if s { deep.clone() } else { c.clone() });
    let b = inner_lhs.bind(move |&v| { let tmp = x.map(|q| q + 1); drop(tmp); x.map(move |q| q + v) });
    let o = b.observe();
    st.stabilise();
    sel.set(true); st.stabilise();
    o.try_get_value()
})}

fn d4() -> String { guard(|| {
    let st = IncrState::new();
    let x = st.var(1i32);
    let o1 = x.observe();
    let lg = log(); let l = lg.clone();
    o1.subscribe(move |u| l.borrow_mut().push(format!("{:?}", u.cloned())));
    st.stabilise();
    let _o2 = x.observe();
    st.stabilise();
    x.set(2); st.stabilise();
    let r = lg.borrow().clone(); r
})}

fn d5() -> String { guard(|| {
    // visible only through the per-node handler count; here: spurious queuing keeps working, so we
    // just exercise the path (the audit hook will expose the count).
    let st = IncrState::new();
    let x = st.var(1i32);
    let o = x.observe();
    let t = o.subscribe(|_| {});
    st.stabilise();
    o.unsubscribe(t).unwrap(); o.unsubscribe(t).unwrap();
    x.set(2); st.stabilise();
    o.try_get_value()
})}

fn d6() -> String { guard(|| {
    use incremental::expert::*;
    let st = IncrState::new();
    let sel = st.var(0i32);
    let trig = st.var(0i32);
    let slot: Rc<RefCell<Option<Incr<i32>>>> = Rc::new(RefCell::new(None));
    let (slot2, wst) = (slot.clone(), st.weak());
    let bnd = sel.bind(move |&s| { let c = wst.constant(s).map(|v| v + 1); *slot2.borrow_mut() = Some(c.clone()); c });
    let _ob = bnd.observe();
    st.stabilise();
    let inner = slot.borrow().clone().unwrap();
    let node = Node::<i32>::new(&st.weak(), move || 7);
    let nodew = node.weak();
    let depc = RefCell::new(Some(node.add_dependency(&inner)));
    let driver = trig.map(move |&t| { if t == 1 { if let Some(d) = depc.borrow_mut().take() { nodew.remove_dependency(d); } } t });
    node.add_dependency(&driver);
    let o = node.watch().observe();
    st.stabilise();
    sel.set(5); trig.set(1); st.stabilise();
    o.try_get_value()
})}

fn d7() -> String { guard(|| {
    use incremental::expert::*;
    let st = IncrState::new();
    let a = st.var(1i32); let b = st.var(10i32); let trig = st.var(0i32);
    let (_oa, _ob) = (a.observe(), b.observe());
    let lg = log();
    let node = Node::<i32>::new(&st.weak(), move || 0);
    let (nodew, lg2, bw, added) = (node.weak(), lg.clone(), b.watch(), Rc::new(Cell::new(false)));
    let driver = trig.map(move |&t| {
        if t == 1 && !added.get() { added.set(true); let lg3 = lg2.clone();
            nodew.add_dependency_with(&bw, move |v| lg3.borrow_mut().push(format!("b={v}"))); }
        t });
    node.add_dependency(&driver);
    let lg4 = lg.clone();
    node.add_dependency_with(&a.watch(), move |v| lg4.borrow_mut().push(format!("a={v}")));
    let _o = node.watch().observe();
    st.stabilise();
    trig.set(1); st.stabilise();
    let r = lg.borrow().clone(); r
})}

fn d8() -> String { guard(|| {
    use incremental::expert::*;
    let st = IncrState::new();
    let a = st.var(1i32); let trig = st.var(0i32);
    let node = Node::<i32>::new(&st.weak(), move || 7);
    let (nodew, aw) = (node.weak(), a.watch());
    let deps: Rc<RefCell<Vec<Dependency<i32>>>> = Rc::new(RefCell::new(vec![]));
    let driver = trig.map(move |&t| {
        if t == 0 { let d1 = nodew.add_dependency(&aw); let d2 = nodew.add_dependency(&aw); deps.borrow_mut().extend([d1, d2]); }
        if t == 1 { let d = deps.borrow_mut().remove(0); nodew.remove_dependency(d); }
        t });
    node.add_dependency(&driver);
    let o = node.watch().observe();
    st.stabilise();
    trig.set(1); st.stabilise();
    a.set(2); st.stabilise();
    o.try_get_value()
})}

fn d9a() -> String { guard(|| {
    let st = IncrState::new();
    let m = st.var(BTreeMap::from([(1i32, 1i32), (2, 2)]));
    let other = st.var(100i32); let ow = other.watch();
    let out = m.incr_mapi_(move |_k, _v| ow.map(|o| *o));
    let o = out.observe();
    st.stabilise();
    m.modify(|mm| { mm.insert(1, 5); }); st.stabilise();
    m.modify(|mm| { mm.remove(&1); }); st.stabilise();
    o.try_get_value()
})}
fn d9b() -> String { guard(|| {
    let st = IncrState::new();
    let m = st.var(BTreeMap::from([(1i32, 1i32)]));
    let other = st.var(100i32);
    let shared = other.map(|o| *o);
    let out = m.incr_mapi_(move |_k, _v| shared.clone());
    let o = out.observe();
    st.stabilise();
    m.modify(|mm| { mm.insert(2, 5); }); st.stabilise();
    o.try_get_value()
})}

fn d10() -> String {
    let grow = guard(|| {
        let st = IncrState::new_with_height(10);
        st.set_max_height_allowed(12);
        let x = st.var(1i32);
        let mut i: Incr<i32> = x.watch();
        for _ in 0..11 { i = i.map(|v| v + 1); } // height 12
        let o = i.observe(); st.stabilise(); o.value()
    });
    let shrink = guard(|| {
        let st = IncrState::new_with_height(10);
        st.set_max_height_allowed(4);
        let x = st.var(1i32);
        let mut i: Incr<i32> = x.watch();
        for _ in 0..3 { i = i.map(|v| v + 1); } // height 4
        let o = i.observe(); st.stabilise(); o.value()
    });
    let over = guard(|| {
        let st = IncrState::new_with_height(10);
        st.set_max_height_allowed(4);
        let x = st.var(1i32);
        let mut i: Incr<i32> = x.watch();
        for _ in 0..4 { i = i.map(|v| v + 1); } // height 5
        let o = i.observe(); st.stabilise(); o.value()
    });
    format!("grow12@12={grow} shrink4@4={shrink} shrink4@5={over}")
}

fn main() {
    std::panic::set_hook(Box::new(|_| {}));
    println!("D1:  {} | expect Ok(10)", d1());
    println!("D1b: {} | expect Ok(10)", d1b());
    println!("D2:  {} | expect (Ok(1104), [rhs[x=2](1102), m(1104)])", d2());
    println!("D3:  {} | expect Ok(7)", d3());
    println!("D4:  {} | expect [Initialised(1), Changed(2)]", d4());
    println!("D5:  {} | expect Ok(2)", d5());
    println!("D6:  {} | expect Ok(7)", d6());
    println!("D7:  {} | expect [a=1, b=10]", d7());
    println!("D8:  {} | expect Ok(7)", d8());
    println!("D9a: {} | expect Ok({{2: 100}})", d9a());
    println!("D9b: {} | expect Ok({{1: 100, 2: 100}})", d9b());
    println!("D10: {} | expect grow12@12=12 shrink4@4=4 shrink4@5=PANIC(node with too large height: 5 > max allowed 4)", d10());
}
