/-! Calibration for C18: MergeOnce iterator state machine and its spec -/

structure MOState where
  a : List Int
  b : List Int
  fused : Option Bool := none

/-- literal transcription of `MergeOnce::next` (symmetric_fold.rs:40-77) -/
def MOState.next (s : MOState) : Option (Int × MOState) :=
  let decide? : Option (Bool × Bool) :=
    match s.fused with
    | some lt => some (lt, false)
    | none =>
      match s.a, s.b with
      | x :: _, y :: _ => some (decide (x ≤ y), decide (x = y))
      | _ :: _, [] => some (true, false)
      | [], _ :: _ => some (false, false)
      | [], [] => none
  match decide? with
  | none => none
  | some (lessThan, both) =>
    let fused' := match s.fused with
      | some f => some f
      | none => match s.a, s.b with
        | _ :: _, [] => some true
        | [], _ :: _ => some false
        | _, _ => none
    if lessThan then
      let b' := if both then s.b.tail else s.b
      match s.a with
      | x :: a' => some (x, { a := a', b := b', fused := fused' })
      | [] => none
    else
      let a' := if both then s.a.tail else s.a
      match s.b with
      | y :: b' => some (y, { a := a', b := b', fused := fused' })
      | [] => none

def MOState.collect : Nat → MOState → List Int
  | 0, _ => []
  | fuel+1, s => match s.next with
    | none => []
    | some (x, s') => x :: collect fuel s'

/-- reference: merge of two strictly ascending lists without duplicates -/
def mergeSpec : List Int → List Int → List Int
  | [], b => b
  | a, [] => a
  | x :: a, y :: b =>
    if x < y then x :: mergeSpec a (y :: b)
    else if x = y then x :: mergeSpec a b
    else y :: mergeSpec (x :: a) b
termination_by a b => a.length + b.length

#eval (MOState.collect 100 { a := [1,2,3], b := [2,4] })
#eval mergeSpec [1,2,3] [2,4]

theorem collect_fused_true (a b : List Int) (fuel : Nat) (h : a.length ≤ fuel) :
    MOState.collect fuel { a := a, b := b, fused := some true } = a := by
  induction a generalizing fuel b with
  | nil => cases fuel <;> simp [MOState.collect, MOState.next]
  | cons x a ih =>
    cases fuel with
    | zero => simp at h
    | succ fuel =>
      simp [MOState.collect, MOState.next]
      exact ih _ _ (by simpa using h)

theorem collect_fused_false (a b : List Int) (fuel : Nat) (h : b.length ≤ fuel) :
    MOState.collect fuel { a := a, b := b, fused := some false } = b := by
  induction b generalizing fuel a with
  | nil => cases fuel <;> simp [MOState.collect, MOState.next]
  | cons y b ih =>
    cases fuel with
    | zero => simp at h
    | succ fuel =>
      simp [MOState.collect, MOState.next]
      exact ih _ _ (by simpa using h)

theorem collect_eq_spec (a b : List Int) (fuel : Nat) (h : a.length + b.length ≤ fuel) :
    MOState.collect fuel { a := a, b := b, fused := none } = mergeSpec a b := by
  induction fuel generalizing a b with
  | zero =>
    have ha : a = [] := by cases a <;> simp_all
    have hb : b = [] := by cases b <;> simp_all
    subst ha hb; simp [MOState.collect, mergeSpec]
  | succ fuel ih =>
    cases a with
    | nil =>
      cases b with
      | nil => simp [MOState.collect, MOState.next, mergeSpec]
      | cons y b =>
        simp [MOState.collect, MOState.next, mergeSpec]
        exact collect_fused_false [] b fuel (by simp at h; omega)
    | cons x a =>
      cases b with
      | nil =>
        simp [MOState.collect, MOState.next, mergeSpec]
        exact collect_fused_true a [] fuel (by simp at h; omega)
      | cons y b =>
        simp only [List.length_cons] at h
        unfold mergeSpec
        by_cases hlt : x < y
        · have hle : x ≤ y := by omega
          have hne : x ≠ y := by omega
          simp [MOState.collect, MOState.next, hlt, hle, hne]
          exact ih a (y :: b) (by simp; omega)
        · by_cases heq : x = y
          · subst heq
            simp [MOState.collect, MOState.next]
            exact ih a b (by omega)
          · have hle : ¬ x ≤ y := by omega
            simp [MOState.collect, MOState.next, hlt, hle, heq]
            exact ih (x :: a) b (by simp; omega)
