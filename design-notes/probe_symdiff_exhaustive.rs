//! Scratch probe (design-time only): C18 exhaustively on a small domain, through the public API.
use im_rc::OrdMap;
use incremental::*;
use incremental_map::prelude::*;
use std::collections::BTreeMap;
use std::rc::Rc;
type M = BTreeMap<u8, u8>;
fn all_maps(keys: u8, vals: u8) -> Vec<M> { let mut out = vec![M::new()]; for k in 0..keys { let mut next = vec![]; for m in &out { next.push(m.clone()); for v in 0..vals { let mut m2 = m.clone(); m2.insert(k, v); next.push(m2); } } out = next; } out }
#[derive(Debug, PartialEq, Clone)] enum D { L(u8, u8), R(u8, u8), U(u8, u8, u8) }
fn spec(a: &M, b: &M, keys: u8) -> Vec<D> { let mut out = vec![]; for k in 0..keys { match (a.get(&k), b.get(&k)) { (Some(x), None) => out.push(D::L(k, *x)), (None, Some(y)) => out.push(D::R(k, *y)), (Some(x), Some(y)) if x != y => out.push(D::U(k, *x, *y)), _ => {} } } out }
fn collect<MM: SymmetricFoldMap<u8, u8>>(a: &MM, b: &MM) -> Vec<D> { a.symmetric_fold(b, vec![], |mut acc, (k, d)| { acc.push(match d { DiffElement::Left(x) => D::L(*k, *x), DiffElement::Right(y) => D::R(*k, *y), DiffElement::Unequal(x, y) => D::U(*k, *x, *y) }); acc }) }
fn main() {
    let keys: u8 = std::env::args().nth(1).unwrap().parse().unwrap(); let vals = 2u8;
    let maps = all_maps(keys, vals); let oms: Vec<OrdMap<u8, u8>> = maps.iter().map(|m| m.iter().map(|(k, v)| (*k, *v)).collect()).collect(); let rcs: Vec<Rc<M>> = maps.iter().map(|m| Rc::new(m.clone())).collect();
    let mut n = 0u64; let mut bad = 0u64;
    for (i, a) in maps.iter().enumerate() { for (j, b) in maps.iter().enumerate() { let want = spec(a, b, keys);
        for (name, got) in [("BTreeMap", collect(a, b)), ("OrdMap", collect(&oms[i], &oms[j])), ("Rc<BTreeMap>", collect(&rcs[i], &rcs[j]))] { n += 1; if got != want { bad += 1; if bad < 5 { println!("C18 {name}: {a:?} vs {b:?}: got {got:?} want {want:?}"); } } } } }
    println!("symmetric_fold: {} maps, {} comparisons, {} wrong", maps.len(), n, bad);
    // merge order through incr_merge: the user function must see every differing key exactly once, ascending
    let st = IncrState::new(); let small = all_maps(3.min(keys), vals);
    let (mut nm, mut badm) = (0u64, 0u64);
    for a0 in &small { for b0 in &small { for a1 in &small { for b1 in small.iter().step_by(5) {
        let va = st.var(a0.clone()); let vb = st.var(b0.clone());
        let log = Rc::new(std::cell::RefCell::new(vec![])); let l2 = log.clone();
        let m = va.incr_merge(&vb, move |k, e| { l2.borrow_mut().push(*k); Some(match e { MergeElement::Left(x) => *x as u16, MergeElement::Right(y) => 100 + *y as u16, MergeElement::Both(x, y) => 200 + (*x as u16) * 10 + *y as u16 }) });
        let o = m.observe(); st.stabilise(); log.borrow_mut().clear();
        va.set(a1.clone()); vb.set(b1.clone()); st.stabilise();
        let mut want_keys: Vec<u8> = (0..keys).filter(|k| (a0.get(k) != a1.get(k) || b0.get(k) != b1.get(k)) && (a1.contains_key(k) || b1.contains_key(k))).collect(); want_keys.sort();
        let got_keys = log.borrow().clone(); nm += 1;
        let mut want_out = BTreeMap::new(); for k in 0..keys { match (a1.get(&k), b1.get(&k)) { (Some(x), None) => { want_out.insert(k, *x as u16); } (None, Some(y)) => { want_out.insert(k, 100 + *y as u16); } (Some(x), Some(y)) => { want_out.insert(k, 200 + (*x as u16) * 10 + *y as u16); } _ => {} } }
        if got_keys != want_keys || o.try_get_value() != Ok(want_out.clone()) { badm += 1; if badm < 5 { println!("C18/C17 merge: {a0:?},{b0:?} -> {a1:?},{b1:?}: calls {got_keys:?} want {want_keys:?}; out {:?} want {want_out:?}", o.try_get_value()); } }
    } } } }
    println!("incr_merge: {} transitions, {} wrong", nm, badm);
}
