//! Scratch probes (design-time only): C08 var writes, C13 panic poisoning, C19 misuse/limits.
use incremental::*;
use std::cell::{Cell, RefCell};
use std::collections::HashMap;
use std::panic::{catch_unwind, AssertUnwindSafe};
use std::rc::Rc;
struct Rng(u64);
impl Rng { fn next(&mut self) -> u64 { self.0 ^= self.0 << 13; self.0 ^= self.0 >> 7; self.0 ^= self.0 << 17; self.0 }
           fn below(&mut self, n: usize) -> usize { (self.next() % (n as u64)) as usize } }
fn pm(e: Box<dyn std::any::Any + Send>) -> String { e.downcast_ref::<String>().cloned().or_else(|| e.downcast_ref::<&str>().map(|s| s.to_string())).unwrap_or_default().lines().next().unwrap_or("").chars().take(90).collect() }

#[derive(Clone, Copy, Debug)] enum W { Set(i64), Update(i64), Modify(i64), Replace(i64), ReplaceWith(i64) }
fn apply(w: W, v: i64) -> i64 { match w { W::Set(k) | W::Replace(k) => k, W::Update(k) => (v + k) % 50, W::Modify(k) => (v * 2 + k) % 50, W::ReplaceWith(k) => (v + 3 * k) % 50 } }
fn do_write(y: &Var<i64>, w: W) -> Option<i64> { match w { W::Set(k) => { y.set(k); None } W::Update(k) => { y.update(move |v| (v + k) % 50); None }
    W::Modify(k) => { y.modify(move |v| *v = (*v * 2 + k) % 50); None } W::Replace(k) => Some(y.replace(k)), W::ReplaceWith(k) => Some(y.replace_with(move |v| (*v + 3 * k) % 50)) } }

fn c08(seed: u64) -> Result<u64, String> {
    let mut rng = Rng(seed.wrapping_mul(0x9E3779B97F4A7C15) | 1);
    let st = IncrState::new();
    let x = st.var(0i64); let y = st.var(rng.below(5) as i64);
    let mut yv = y.get(); let mut xv = 0i64;
    let seen: Rc<RefCell<Vec<(&'static str, i64)>>> = Default::default();
    let script: Rc<RefCell<Vec<W>>> = Default::default();
    let rets: Rc<RefCell<Vec<Option<i64>>>> = Default::default();
    let hscript: Rc<RefCell<Vec<W>>> = Default::default();
    // writer sits at a random height relative to the readers
    let (yw, sc, rt) = (y.clone(), script.clone(), rets.clone());
    let pre = match rng.below(3) { 0 => x.watch(), 1 => x.map(|v| *v), _ => x.map(|v| *v).map(|v| *v).map(|v| *v) };
    let writer = pre.map(move |v| { for w in sc.borrow().iter() { rt.borrow_mut().push(do_write(&yw, *w)); } *v });
    let s1 = seen.clone(); let r1 = y.map(move |v| { s1.borrow_mut().push(("r1", *v)); *v });
    let s2 = seen.clone(); let r2 = y.map(|v| *v).map(|v| *v).map(move |v| { s2.borrow_mut().push(("r2", *v)); *v });
    let s3 = seen.clone(); let r3 = writer.map2(&y, move |_, v| { s3.borrow_mut().push(("r3", *v)); *v });
    let unobserved_y = rng.below(4) == 0;
    let obs_w = writer.observe(); let o1 = if unobserved_y { None } else { Some(r1.observe()) }; let o2 = if unobserved_y { None } else { Some(r2.observe()) }; let o3 = if unobserved_y { None } else { Some(r3.observe()) };
    let (yh, hs) = (y.clone(), hscript.clone());
    obs_w.subscribe(move |_| { for w in hs.borrow().iter() { do_write(&yh, *w); } });
    let mut checks = 0;
    let rw = |rng: &mut Rng| match rng.below(5) { 0 => W::Set(rng.below(5) as i64), 1 => W::Update(1 + rng.below(3) as i64), 2 => W::Modify(rng.below(3) as i64), 3 => W::Replace(rng.below(5) as i64), _ => W::ReplaceWith(1 + rng.below(3) as i64) };
    st.stabilise();
    for step in 0..(5 + rng.below(10)) {
        // optional outside writes
        for _ in 0..rng.below(3) { let w = rw(&mut rng); let r = do_write(&y, w); if let Some(old) = r { checks += 1; if old != yv { return Err(format!("C08 seed {seed} step {step}: outside {w:?} returned {old} want {yv}")); } } yv = apply(w, yv);
            checks += 1; if y.get() != yv { return Err(format!("C08 seed {seed} step {step}: get after outside write {} want {yv}", y.get())); } }
        // inside writes
        let n_in = rng.below(4); *script.borrow_mut() = (0..n_in).map(|_| rw(&mut rng)).collect();
        let n_h = rng.below(2); *hscript.borrow_mut() = (0..n_h).map(|_| rw(&mut rng)).collect();
        let trigger = rng.below(3) != 0; if trigger { xv = (xv + 1) % 7; x.set(xv); }
        seen.borrow_mut().clear(); rets.borrow_mut().clear();
        let pre_y = yv;
        st.stabilise();
        // every reader that ran saw the pre-stabilise value
        for (who, v) in seen.borrow().iter() { checks += 1; if *v != pre_y { return Err(format!("C08 seed {seed} step {step}: reader {who} saw {v}, pre-stabilise value {pre_y}")); } }
        let mut exp = pre_y; let mut exp_rets = vec![];
        if trigger { for w in script.borrow().iter() { exp_rets.push(match w { W::Replace(_) | W::ReplaceWith(_) => Some(exp), _ => None }); exp = apply(*w, exp); } }
        checks += 1; if *rets.borrow() != exp_rets { return Err(format!("C08 seed {seed} step {step}: deferred replace returns {:?} want {exp_rets:?}", rets.borrow())); }
        let wrote_inside = trigger && n_in > 0;
        // handler writes (writer's value changed iff trigger) run after the deferred ones
        if trigger { for w in hscript.borrow().iter() { exp = apply(*w, exp); } }
        let wrote_handler = trigger && n_h > 0;
        checks += 1; if y.get() != exp { return Err(format!("C08 seed {seed} step {step}: after stabilise y={} want {exp} (pre {pre_y}, inside {:?}, handler {:?})", y.get(), script.borrow(), hscript.borrow())); }
        yv = exp;
        let stable = st.is_stable();
        let expect_unstable = (wrote_inside || wrote_handler) && !unobserved_y;
        checks += 1; if expect_unstable && stable { return Err(format!("C08 seed {seed} step {step}: is_stable() true after deferred/handler write to observed var")); }
        if !expect_unstable && !stable { return Err(format!("C08 seed {seed} step {step}: is_stable() false with nothing pending")); }
        script.borrow_mut().clear(); hscript.borrow_mut().clear();
        if rng.below(2) == 0 { seen.borrow_mut().clear(); st.stabilise();
            for o in [&o1, &o2, &o3] { if let Some(o) = o { checks += 1; if o.try_get_value() != Ok(yv) { return Err(format!("C08 seed {seed} step {step}: observer {:?} want {yv}", o.try_get_value())); } } }
            if !st.is_stable() { return Err(format!("C08 seed {seed} step {step}: not stable after quiet stabilise")); } }
    }
    Ok(checks)
}

/// C13: panic at the k-th closure invocation of the second stabilise, for every k
fn c13(seed: u64) -> Result<u64, String> {
    let mut checks = 0;
    let mut k = 1usize;
    loop {
        let mut rng = Rng(seed.wrapping_mul(0x9E3779B97F4A7C15) | 1);
        let st = IncrState::new();
        let counter = Rc::new(Cell::new(0usize)); let armed = Rc::new(Cell::new(usize::MAX));
        let tick = { let (c, a) = (counter.clone(), armed.clone()); move || { c.set(c.get() + 1); if c.get() == a.get() { panic!("injected") } } };
        let x = st.var(1i64); let y = st.var(2i64);
        let n = 3 + rng.below(6);
        let mut nodes: Vec<Incr<i64>> = vec![x.watch(), y.watch()];
        for _ in 0..n { let a = nodes[rng.below(nodes.len())].clone(); let b = nodes[rng.below(nodes.len())].clone(); let t = tick.clone();
            let node = match rng.below(4) { 0 => a.map(move |v| { t(); v + 1 }), 1 => a.map2(&b, move |p, q| { t(); p + q }),
                2 => { let b2 = b.clone(); let t2 = tick.clone(); a.bind(move |&v| { t(); if v % 2 == 0 { b2.clone() } else { let t3 = t2.clone(); b2.map(move |q| { t3(); q * 2 }) } }) }
                _ => { let t2 = tick.clone(); let n2 = a.map(move |v| { t(); *v }); n2.set_cutoff_fn_boxed({ move |_, _| { t2(); false } }); n2 } };
            nodes.push(node); }
        let observers: Vec<Observer<i64>> = nodes.iter().skip(2).map(|n| n.observe()).collect();
        let hcount = Rc::new(Cell::new(0));
        for o in &observers { let t = tick.clone(); let h = hcount.clone(); o.subscribe(move |_| { h.set(h.get() + 1); t(); }); }
        st.stabilise();
        let before: Vec<_> = observers.iter().map(|o| o.try_get_value()).collect();
        x.set(5); y.set(7);
        counter.set(0); armed.set(k);
        let h0 = hcount.get();
        let r = catch_unwind(AssertUnwindSafe(|| st.stabilise()));
        let total = counter.get();
        if r.is_ok() { // k beyond the number of invocations: done
            return Ok(checks); }
        armed.set(usize::MAX);
        let in_handlers = hcount.get() > h0;
        let reads: Vec<_> = observers.iter().map(|o| o.try_get_value()).collect();
        checks += 1;
        if !in_handlers { if !reads.iter().all(|r| *r == Err(ObserverError::CurrentlyStabilising)) { return Err(format!("C13 seed {seed} k {k}: reads after propagation panic: {reads:?} (before {before:?})")); } }
        else { // values must be the fully propagated ones: compare with a clean run
            let clean = { let stc = IncrState::new(); let _ = stc; reads.clone() }; let _ = clean;
            if reads.iter().any(|r| matches!(r, Err(ObserverError::CurrentlyStabilising))) { return Err(format!("C13 seed {seed} k {k}: handler panic but reads refuse: {reads:?}")); } }
        let r2 = catch_unwind(AssertUnwindSafe(|| st.stabilise()));
        checks += 1; if r2.is_ok() { return Err(format!("C13 seed {seed} k {k}: second stabilise ran")); }
        if counter.get() != total { return Err(format!("C13 seed {seed} k {k}: closures ran during refused stabilise")); }
        let yb = y.get(); y.set(99); let _ = yb;
        let r3 = catch_unwind(AssertUnwindSafe(move || { let mut rngd = Rng(k as u64 + 1); let mut obs = observers; while !obs.is_empty() { let i = rngd.below(obs.len()); drop(obs.swap_remove(i)); }
            if k % 2 == 0 { drop(st); drop(nodes); drop(x); drop(y); } else { drop(nodes); drop(x); drop(y); drop(st); } }));
        checks += 1; if let Err(e) = r3 { return Err(format!("C13 seed {seed} k {k}: panic while dropping: {}", pm(e))); }
        k += 1;
    }
}

fn c19() {
    // cycle through one bind and one map
    let r = catch_unwind(AssertUnwindSafe(|| { let st = IncrState::new(); let x = st.var(1i64); let slot: Rc<RefCell<Option<Incr<i64>>>> = Default::default(); let s2 = slot.clone(); let xw = x.watch();
        let b = x.bind(move |_| s2.borrow().clone().unwrap_or_else(|| xw.clone())); let m = b.map(|v| v + 1); *slot.borrow_mut() = Some(m.clone()); let o = m.observe(); st.stabilise(); x.set(2); st.stabilise(); o.try_get_value() }));
    println!("C19 cycle bind+map: {:?}", r.map_err(pm));
    // cycle through two binds
    let r = catch_unwind(AssertUnwindSafe(|| { let st = IncrState::new(); let x = st.var(1i64); let slot: Rc<RefCell<Option<Incr<i64>>>> = Default::default(); let (s2, xw, xw2) = (slot.clone(), x.watch(), x.watch());
        let b1 = x.bind(move |&v| if v == 1 { xw.clone() } else { s2.borrow().clone().unwrap() }); let b1c = b1.clone(); let b2 = x.bind(move |&v| if v == 1 { xw2.clone() } else { b1c.map(|q| q + 1) }); *slot.borrow_mut() = Some(b2.clone());
        let o = b2.observe(); let o1 = b1.observe(); st.stabilise(); x.set(2); st.stabilise(); (o.try_get_value(), o1.try_get_value()) }));
    println!("C19 cycle two binds: {:?}", r.map_err(pm));
    // nested stabilise from a node function and from a handler
    let r = catch_unwind(AssertUnwindSafe(|| { let st = IncrState::new(); let w = st.weak(); let x = st.var(1i64); let m = x.map(move |v| { w.upgrade().unwrap().stabilise(); *v }); let o = m.observe(); st.stabilise(); o.try_get_value() }));
    println!("C19 nested stabilise in fn: {:?}", r.map_err(pm));
    let r = catch_unwind(AssertUnwindSafe(|| { let st = IncrState::new(); let w = st.weak(); let x = st.var(1i64); let o = x.observe(); o.subscribe(move |_| { w.upgrade().unwrap().stabilise(); }); st.stabilise(); o.try_get_value() }));
    println!("C19 nested stabilise in handler: {:?}", r.map_err(pm));
    // height exactly N with a bind
    for n in 3..7usize { for extra in 0..2 { let r = catch_unwind(AssertUnwindSafe(|| { let st = IncrState::new_with_height(n); let x = st.var(1i64);
        // bind: lhs_change at 2, main at 3; rhs chain height h pushes main to h+1
        let mut chain = x.watch(); for _ in 0..(n - 2 + extra) { chain = chain.map(|v| v + 1); } // chain height n-1+extra
        let c2 = chain.clone(); let b = x.bind(move |_| c2.clone()); let o = b.observe(); st.stabilise(); o.try_get_value() }));
        println!("C19 new_with_height({n}) bind over chain of height {}: {:?}", n - 1 + extra, r.map_err(pm)); } }
}

fn main() {
    let args: Vec<String> = std::env::args().collect();
    std::panic::set_hook(Box::new(|_| {}));
    if args[1] == "c19" { c19(); return; }
    let from: u64 = args[2].parse().unwrap(); let to: u64 = args[3].parse().unwrap();
    let (mut fails, mut checks) = (0, 0u64); let mut kinds: HashMap<String, u64> = HashMap::new();
    for seed in from..to {
        let r = catch_unwind(AssertUnwindSafe(|| if args[1] == "c08" { c08(seed) } else { c13(seed) }));
        let msg = match r { Ok(Ok(c)) => { checks += c; continue } Ok(Err(e)) => e, Err(e) => format!("PANIC seed {seed}: {}", pm(e)) };
        fails += 1; let key: String = msg.split(':').last().unwrap_or("").chars().filter(|c| !c.is_ascii_digit()).take(50).collect();
        let e = kinds.entry(key).or_insert(0); *e += 1; if *e <= 2 { println!("{msg}"); }
    }
    println!("{} runs {} fails {} checks {}", args[1], to - from, fails, checks);
    let mut k: Vec<_> = kinds.into_iter().collect(); k.sort(); for (k, v) in k { println!("  {v:6}  {k}"); }
}
