/-! Calibration sketch 3 (design-time only): the necessity cascade, linking half.
    `becameNecessary` (node.rs:529-558) links a node into its children and recurses into children that
    were unnecessary.  Fuel-recursive, out-of-fuel is an explicit `none`.  Invariant: edge symmetry *modulo a
    stack of nodes whose children are only linked up to some index* (the call stack of the real recursion).
-/

structure Node where
  children : List Nat
  parents : List (Nat × Nat) := []     -- (parent, my index among the parent's children)
  observers : Nat := 0
deriving Repr

structure St where
  nodes : Array Node
deriving Repr

namespace St

def childrenOf (s : St) (n : Nat) : List Nat := ((s.nodes[n]?).map (·.children)).getD []
def parentsOf (s : St) (n : Nat) : List (Nat × Nat) := ((s.nodes[n]?).map (·.parents)).getD []
def observersOf (s : St) (n : Nat) : Nat := ((s.nodes[n]?).map (·.observers)).getD 0
def necessary (s : St) (n : Nat) : Prop := s.parentsOf n ≠ [] ∨ s.observersOf n > 0
instance (s : St) (n : Nat) : Decidable (s.necessary n) := by unfold necessary; exact inferInstance

def modify (s : St) (n : Nat) (f : Node → Node) : St :=
  if h : n < s.nodes.size then { s with nodes := s.nodes.set n (f s.nodes[n]) } else s

theorem get_modify (s : St) (n m : Nat) (f : Node → Node) :
    (s.modify n f).nodes[m]? = if m = n then (s.nodes[n]?).map f else s.nodes[m]? := by
  unfold modify
  by_cases h : n < s.nodes.size
  · simp only [h, dite_true]
    by_cases hm : m = n
    · subst hm; simp [h]
    · simp [hm, Array.getElem?_set, Ne.symm hm]
  · simp only [h, dite_false]
    by_cases hm : m = n
    · subst hm; simp [Array.getElem?_eq_none (Nat.le_of_not_lt h)]
    · simp [hm]

theorem size_modify (s : St) (n : Nat) (f : Node → Node) : (s.modify n f).nodes.size = s.nodes.size := by
  unfold modify; split <;> simp

def addParent (s : St) (c p j : Nat) : St := s.modify c (fun nd => { nd with parents := nd.parents ++ [(p, j)] })

theorem childrenOf_addParent (s : St) (c p j n : Nat) : (s.addParent c p j).childrenOf n = s.childrenOf n := by
  unfold addParent childrenOf; rw [get_modify]; split
  · rename_i h; subst h; cases s.nodes[n]? <;> rfl
  · rfl

theorem observersOf_addParent (s : St) (c p j n : Nat) : (s.addParent c p j).observersOf n = s.observersOf n := by
  unfold addParent observersOf; rw [get_modify]; split
  · rename_i h; subst h; cases s.nodes[n]? <;> rfl
  · rfl

theorem parentsOf_addParent_ne (s : St) (c p j n : Nat) (hn : n ≠ c) : (s.addParent c p j).parentsOf n = s.parentsOf n := by
  unfold addParent parentsOf; rw [get_modify]; simp [hn]

theorem parentsOf_addParent_self (s : St) (c p j : Nat) (hc : c < s.nodes.size) :
    (s.addParent c p j).parentsOf c = s.parentsOf c ++ [(p, j)] := by
  unfold addParent parentsOf; rw [get_modify]; simp [hc]

theorem size_addParent (s : St) (c p j : Nat) : (s.addParent c p j).nodes.size = s.nodes.size := size_modify _ _ _

/-- the linking cascade; `none` = out of fuel -/
def becameNecessary : Nat → St → Nat → Option St
  | 0, _, _ => none
  | fuel+1, s, p => go fuel p s 0 (s.childrenOf p)
where
  go (fuel : Nat) (p : Nat) (s : St) (j : Nat) : List Nat → Option St
    | [] => some s
    | c :: cs =>
      let was := decide (s.necessary c)
      let s1 := s.addParent c p j
      match (if was then some s1 else becameNecessary fuel s1 c) with
      | none => none
      | some s2 => go fuel p s2 (j+1) cs

/-- `p`'s children below index `k` are linked, those from `k` on are not yet -/
def pendingAt (stk : List (Nat × Nat)) (p j : Nat) : Prop := ∃ k, (p, k) ∈ stk ∧ k ≤ j

structure SymP (s : St) (stk : List (Nat × Nat)) : Prop where
  wf : ∀ p c, c ∈ s.childrenOf p → c < s.nodes.size
  link : ∀ p j c, (s.childrenOf p)[j]? = some c → ((p, j) ∈ s.parentsOf c ↔ (s.necessary p ∧ ¬ pendingAt stk p j))
  nojunk : ∀ c p j, (p, j) ∈ s.parentsOf c → (s.childrenOf p)[j]? = some c
  stk_nec : ∀ p k, (p, k) ∈ stk → s.necessary p

theorem necessary_addParent_of (s : St) (c p j n : Nat) (h : s.necessary n) : (s.addParent c p j).necessary n := by
  unfold necessary at *
  rw [observersOf_addParent]
  by_cases hn : n = c
  · subst hn
    rcases h with h | h
    · left
      by_cases hc : n < s.nodes.size
      · rw [parentsOf_addParent_self s n p j hc]; simp
      · exfalso; apply h; unfold parentsOf; simp [Array.getElem?_eq_none (Nat.le_of_not_lt hc)]
    · right; exact h
  · rw [parentsOf_addParent_ne s c p j n hn]; exact h

theorem necessary_addParent_self (s : St) (c p j : Nat) (hc : c < s.nodes.size) : (s.addParent c p j).necessary c := by
  unfold necessary; left; rw [parentsOf_addParent_self s c p j hc]; simp

theorem necessary_addParent_ne (s : St) (c p j n : Nat) (hn : n ≠ c) : (s.addParent c p j).necessary n ↔ s.necessary n := by
  unfold necessary; rw [observersOf_addParent, parentsOf_addParent_ne s c p j n hn]



/-- what the cascade never touches / only grows -/
structure Frame (s s' : St) : Prop where
  size : s'.nodes.size = s.nodes.size
  children : ∀ n, s'.childrenOf n = s.childrenOf n
  nec_mono : ∀ n, s.necessary n → s'.necessary n

theorem Frame.refl (s : St) : Frame s s := ⟨rfl, fun _ => rfl, fun _ h => h⟩
theorem Frame.trans {a b c : St} (h1 : Frame a b) (h2 : Frame b c) : Frame a c :=
  ⟨h2.size.trans h1.size, fun n => (h2.children n).trans (h1.children n), fun n h => h2.nec_mono n (h1.nec_mono n h)⟩
theorem frame_addParent (s : St) (c p j : Nat) : Frame s (s.addParent c p j) :=
  ⟨size_addParent s c p j, childrenOf_addParent s c p j, fun n h => necessary_addParent_of s c p j n h⟩

def onStack (stk : List (Nat × Nat)) (p : Nat) : Prop := ∃ k, (p, k) ∈ stk

theorem pendingAt_cons_self (stk : List (Nat × Nat)) (p k j : Nat) (h : ¬ onStack stk p) :
    pendingAt ((p, k) :: stk) p j ↔ k ≤ j := by
  unfold pendingAt
  constructor
  · rintro ⟨k', hmem, hle⟩
    simp only [List.mem_cons, Prod.mk.injEq, true_and] at hmem
    rcases hmem with rfl | hmem
    · exact hle
    · exact absurd ⟨k', hmem⟩ h
  · intro hle; exact ⟨k, by simp, hle⟩

theorem pendingAt_cons_ne (stk : List (Nat × Nat)) (p q k j : Nat) (h : q ≠ p) :
    pendingAt ((p, k) :: stk) q j ↔ pendingAt stk q j := by
  unfold pendingAt
  constructor
  · rintro ⟨k', hmem, hle⟩
    simp only [List.mem_cons, Prod.mk.injEq] at hmem
    rcases hmem with ⟨rfl, _⟩ | hmem
    · exact absurd rfl h
    · exact ⟨k', hmem, hle⟩
  · rintro ⟨k', hmem, hle⟩; exact ⟨k', by simp [hmem], hle⟩

/-- the stack after linking child `c` at index `j` of `p` -/
def nextStack (s : St) (stk : List (Nat × Nat)) (p j c : Nat) : List (Nat × Nat) :=
  if s.necessary c then (p, j+1) :: stk else (c, 0) :: (p, j+1) :: stk

/-- one linking step -/
theorem symP_link_step (s : St) (stk : List (Nat × Nat)) (p j c : Nat)
    (hchild : (s.childrenOf p)[j]? = some c)
    (inv : SymP s ((p, j) :: stk)) (hp : ¬ onStack stk p) :
    SymP (s.addParent c p j) (nextStack s stk p j c) := by
  have hc : c < s.nodes.size := inv.wf p c (List.mem_of_getElem? hchild)
  have hpnec : s.necessary p := inv.stk_nec p j (by simp)
  have hcstk : ¬ s.necessary c → ¬ onStack stk c ∧ c ≠ p := by
    intro hcn
    refine ⟨?_, ?_⟩
    · rintro ⟨k, hk⟩; exact hcn (inv.stk_nec c k (by simp [hk]))
    · intro e; subst e; exact hcn hpnec
  refine ⟨?wf, ?link, ?nojunk, ?stknec⟩
  case wf => intro p' c' h; rw [childrenOf_addParent] at h; rw [size_addParent]; exact inv.wf p' c' h
  case stknec =>
    intro q k hq
    unfold nextStack at hq
    split at hq
    · simp only [List.mem_cons, Prod.mk.injEq] at hq
      rcases hq with ⟨rfl, _⟩ | hq
      · exact necessary_addParent_of s c q j q hpnec
      · exact necessary_addParent_of s c p j q (inv.stk_nec q k (by simp [hq]))
    · simp only [List.mem_cons, Prod.mk.injEq] at hq
      rcases hq with ⟨rfl, _⟩ | ⟨rfl, _⟩ | hq
      · exact necessary_addParent_self s q p j hc
      · exact necessary_addParent_of s c q j q hpnec
      · exact necessary_addParent_of s c p j q (inv.stk_nec q k (by simp [hq]))
  case nojunk =>
    intro c' p' j' hmem
    rw [childrenOf_addParent]
    by_cases hcc : c' = c
    · subst hcc
      rw [parentsOf_addParent_self s c' p j hc] at hmem
      simp only [List.mem_append, List.mem_singleton, Prod.mk.injEq] at hmem
      rcases hmem with hmem | ⟨rfl, rfl⟩
      · exact inv.nojunk c' p' j' hmem
      · exact hchild
    · rw [parentsOf_addParent_ne s c p j c' hcc] at hmem; exact inv.nojunk c' p' j' hmem
  case link =>
    intro p' j' c' hch
    rw [childrenOf_addParent] at hch
    have hold := inv.link p' j' c' hch
    have hnec' : (s.addParent c p j).necessary p' ↔ (s.necessary p' ∨ p' = c) := by
      by_cases hpc' : p' = c
      · subst hpc'; simp [necessary_addParent_self s p' p j hc]
      · rw [necessary_addParent_ne s c p j p' hpc']; simp [hpc']
    -- the right-hand side before and after, for every (p', j') other than the new edge
    have hrhs : ¬ (p' = p ∧ j' = j) →
        ((s.necessary p' ∧ ¬ pendingAt ((p, j) :: stk) p' j') ↔
         ((s.necessary p' ∨ p' = c) ∧ ¬ pendingAt (nextStack s stk p j c) p' j')) := by
      intro hne
      unfold nextStack
      by_cases hpp : p' = p
      · subst hpp
        have hj : j' ≠ j := fun e => hne ⟨rfl, e⟩
        rw [pendingAt_cons_self stk p' j j' hp]
        split
        · rw [pendingAt_cons_self stk p' (j+1) j' hp]
          constructor
          · rintro ⟨h1, h2⟩; exact ⟨Or.inl h1, by omega⟩
          · rintro ⟨_, h2⟩; exact ⟨hpnec, by omega⟩
        · rename_i hcn
          have hne' : p' ≠ c := fun e => (hcstk hcn).2 e.symm
          rw [pendingAt_cons_ne _ c p' 0 j' hne', pendingAt_cons_self stk p' (j+1) j' hp]
          constructor
          · rintro ⟨h1, h2⟩; exact ⟨Or.inl h1, by omega⟩
          · rintro ⟨_, h2⟩; exact ⟨hpnec, by omega⟩
      · rw [pendingAt_cons_ne stk p p' j j' hpp]
        split
        · rename_i hcnec
          rw [pendingAt_cons_ne stk p p' (j+1) j' hpp]
          constructor
          · rintro ⟨h1, h2⟩; exact ⟨Or.inl h1, h2⟩
          · rintro ⟨h1 | h1, h2⟩
            · exact ⟨h1, h2⟩
            · subst h1; exact ⟨hcnec, h2⟩
        · rename_i hcn
          by_cases hpc' : p' = c
          · subst hpc'
            rw [pendingAt_cons_self _ p' 0 j']
            · constructor
              · rintro ⟨h1, _⟩; exact absurd h1 hcn
              · rintro ⟨_, h2⟩; exact absurd (Nat.zero_le j') h2
            · rintro ⟨k, hk⟩
              simp only [List.mem_cons, Prod.mk.injEq] at hk
              rcases hk with ⟨e, _⟩ | hk
              · exact hpp e
              · exact (hcstk hcn).1 ⟨k, hk⟩
          · rw [pendingAt_cons_ne _ c p' 0 j' hpc', pendingAt_cons_ne stk p p' (j+1) j' hpp]
            constructor
            · rintro ⟨h1, h2⟩; exact ⟨Or.inl h1, h2⟩
            · rintro ⟨h1 | h1, h2⟩
              · exact ⟨h1, h2⟩
              · exact absurd h1 hpc'
    by_cases hcc : c' = c
    · subst hcc
      rw [parentsOf_addParent_self s c' p j hc]
      simp only [List.mem_append, List.mem_singleton, Prod.mk.injEq]
      by_cases hpj : p' = p ∧ j' = j
      · obtain ⟨rfl, rfl⟩ := hpj
        simp only [and_self, or_true, true_iff]
        refine ⟨necessary_addParent_of s c' p' j' p' hpnec, ?_⟩
        unfold nextStack
        split
        · rw [pendingAt_cons_self stk p' (j'+1) j' hp]; omega
        · rename_i hcn
          have hne : p' ≠ c' := fun e => (hcstk hcn).2 e.symm
          rw [pendingAt_cons_ne _ c' p' 0 j' hne, pendingAt_cons_self stk p' (j'+1) j' hp]; omega
      · simp only [hpj, or_false]
        rw [hold, hnec']; exact hrhs hpj
    · rw [parentsOf_addParent_ne s c p j c' hcc, hold, hnec']
      apply hrhs
      rintro ⟨rfl, rfl⟩
      rw [hchild] at hch; exact hcc (Option.some.inj hch).symm



theorem symP_pop (s : St) (stk : List (Nat × Nat)) (p : Nat) (hp : ¬ onStack stk p)
    (inv : SymP s ((p, (s.childrenOf p).length) :: stk)) : SymP s stk := by
  refine ⟨inv.wf, ?_, inv.nojunk, fun q k hq => inv.stk_nec q k (by simp [hq])⟩
  intro p' j' c' hch
  rw [inv.link p' j' c' hch]
  by_cases hpp : p' = p
  · subst hpp
    rw [pendingAt_cons_self stk p' _ j' hp]
    have hlt : j' < (s.childrenOf p').length := by
      rcases Nat.lt_or_ge j' (s.childrenOf p').length with h | h
      · exact h
      · simp [List.getElem?_eq_none h] at hch
    have hnp : ¬ pendingAt stk p' j' := fun ⟨k, hk, _⟩ => hp ⟨k, hk⟩
    constructor
    · rintro ⟨h1, _⟩; exact ⟨h1, hnp⟩
    · rintro ⟨h1, _⟩; exact ⟨h1, by omega⟩
  · rw [pendingAt_cons_ne stk p p' _ j' hpp]

theorem becameNecessary_symP : ∀ (fuel : Nat) (s : St) (p : Nat) (stk : List (Nat × Nat)) (s' : St),
    becameNecessary fuel s p = some s' → SymP s ((p, 0) :: stk) → ¬ onStack stk p →
    SymP s' stk ∧ Frame s s' := by
  intro fuel
  induction fuel with
  | zero => intro s p stk s' h; simp [becameNecessary] at h
  | succ fuel ih =>
    intro s p stk s' h inv hp
    unfold becameNecessary at h
    -- generalised statement for the inner loop
    have hgo : ∀ (cs : List Nat) (pre : List Nat) (t : St) (t' : St),
        becameNecessary.go fuel p t pre.length cs = some t' →
        t.childrenOf p = pre ++ cs → SymP t ((p, pre.length) :: stk) →
        SymP t' stk ∧ Frame t t' := by
      intro cs
      induction cs with
      | nil =>
        intro pre t t' hgo hch invt
        simp only [becameNecessary.go, Option.some.injEq] at hgo
        subst hgo
        have : pre.length = (t.childrenOf p).length := by rw [hch]; simp
        exact ⟨symP_pop t stk p hp (this ▸ invt), Frame.refl t⟩
      | cons c cs ihcs =>
        intro pre t t' hgo hch invt
        have hchild : (t.childrenOf p)[pre.length]? = some c := by rw [hch]; simp
        have hstep := symP_link_step t stk p pre.length c hchild invt hp
        simp only [becameNecessary.go] at hgo
        by_cases hnec : t.necessary c
        · simp only [hnec, decide_true, if_true] at hgo
          unfold nextStack at hstep; rw [if_pos hnec] at hstep
          have hch' : (t.addParent c p pre.length).childrenOf p = (pre ++ [c]) ++ cs := by
            rw [childrenOf_addParent, hch]; simp
          have hlen : (pre ++ [c]).length = pre.length + 1 := by simp
          have := ihcs (pre ++ [c]) (t.addParent c p pre.length) t' (by rw [hlen]; exact hgo) hch' (by rw [hlen]; exact hstep)
          exact ⟨this.1, (frame_addParent t c p pre.length).trans this.2⟩
        · simp only [hnec, decide_false] at hgo
          unfold nextStack at hstep; rw [if_neg hnec] at hstep
          -- recursive call on c
          cases hrec : becameNecessary fuel (t.addParent c p pre.length) c with
          | none => simp [hrec] at hgo
          | some t2 =>
            simp only [hrec] at hgo
            have hcstk : ¬ onStack ((p, pre.length + 1) :: stk) c := by
              rintro ⟨k, hk⟩
              simp only [List.mem_cons, Prod.mk.injEq] at hk
              rcases hk with ⟨rfl, _⟩ | hk
              · exact hnec (invt.stk_nec c pre.length (by simp))
              · exact hnec (invt.stk_nec c k (by simp [hk]))
            obtain ⟨inv2, fr2⟩ := ih (t.addParent c p pre.length) c ((p, pre.length + 1) :: stk) t2 hrec hstep hcstk
            have hch' : t2.childrenOf p = (pre ++ [c]) ++ cs := by
              rw [fr2.children, childrenOf_addParent, hch]; simp
            have hlen : (pre ++ [c]).length = pre.length + 1 := by simp
            have := ihcs (pre ++ [c]) t2 t' (by rw [hlen]; exact hgo) hch' (by rw [hlen]; exact inv2)
            exact ⟨this.1, ((frame_addParent t c p pre.length).trans fr2).trans this.2⟩
    exact hgo (s.childrenOf p) [] s s' h (by simp) inv

/-- top-level corollary: observing an unnecessary node in a symmetric state yields a symmetric state -/
theorem becameNecessary_sym (fuel : Nat) (s s' : St) (p : Nat)
    (h : becameNecessary fuel s p = some s') (inv : SymP s [(p, 0)]) : SymP s' [] :=
  (becameNecessary_symP fuel s p [] s' h inv (by rintro ⟨k, hk⟩; simp at hk)).1

end St
