//! Scratch probe (design-time only): subscription sequences (C09), lifecycle errors (C10), snapshot isolation (C07).
use incremental::*;
use std::cell::RefCell;
use std::collections::HashMap;
use std::panic::{catch_unwind, AssertUnwindSafe};
use std::rc::Rc;
struct Rng(u64);
impl Rng { fn next(&mut self) -> u64 { self.0 ^= self.0 << 13; self.0 ^= self.0 >> 7; self.0 ^= self.0 << 17; self.0 }
           fn below(&mut self, n: usize) -> usize { (self.next() % (n as u64)) as usize } }
#[derive(Clone, Copy, PartialEq, Debug)] enum LS { Created, InUse, Dead }
struct Obs { node: usize, o: Option<Observer<i32>>, clones: Vec<Observer<i32>>, ls: LS, last_read: Option<Result<i32, ObserverError>>,
             subs: Vec<(SubscriptionToken, usize, bool /*active*/, bool /*initialised*/)> }
fn run(seed: u64) -> Result<u64, String> {
    let mut rng = Rng(seed.wrapping_mul(0x9E3779B97F4A7C15) | 1);
    let st = IncrState::new();
    let x = st.var(0i32); let y = st.var(0i32);
    let (mut xv, mut yv) = (0i32, 0i32);
    let nodes: Vec<Incr<i32>> = vec![x.watch(), x.map(|v| v / 2), x.map2(&y, |a, b| (a + b) % 3), y.map(|v| v % 2).map(|v| v + 10)];
    let eval = |i: usize, xv: i32, yv: i32| match i { 0 => xv, 1 => xv / 2, 2 => (xv + yv) % 3, _ => yv % 2 + 10 };
    let log: Rc<RefCell<Vec<(usize, String)>>> = Rc::new(RefCell::new(vec![]));
    let mut obs: Vec<Obs> = vec![]; let mut nsubs = 0usize;
    let mut committed: HashMap<usize, i32> = HashMap::new(); // node -> value at last stabilise (for nodes necessary then)
    let mut checks = 0u64;
    for step in 0..(10 + rng.below(40)) {
        let e = |m: String| Err(format!("seed {seed} step {step}: {m}"));
        match rng.below(12) {
            0 | 1 => { xv = rng.below(4) as i32; x.set(xv); }
            2 => { yv = rng.below(4) as i32; y.set(yv); }
            3 | 4 => { let n = rng.below(nodes.len()); obs.push(Obs { node: n, o: Some(nodes[n].observe()), clones: vec![], ls: LS::Created, last_read: None, subs: vec![] }); }
            5 => { if !obs.is_empty() { let k = rng.below(obs.len()); let ob = &mut obs[k];
                    if let Some(o) = &ob.o { let id = nsubs; nsubs += 1; let l = log.clone();
                        let r = o.try_subscribe(move |u| l.borrow_mut().push((id, format!("{:?}", u.cloned()))));
                        match (ob.ls, r) { (LS::Dead, Err(ObserverError::Disallowed)) => {}, (LS::Dead, r) => return e(format!("C10 subscribe on dead: {r:?}")),
                            (_, Ok(t)) => ob.subs.push((t, id, true, false)), (_, Err(er)) => return e(format!("C10 subscribe failed: {er:?}")) } } } }
            6 => { if !obs.is_empty() { let k = rng.below(obs.len()); let k2 = rng.below(obs.len());
                    // unsubscribe a token of obs k2 through observer k
                    if let (Some(o), Some(&(t, _, _, _))) = (obs[k].o.as_ref(), obs[k2].subs.first()) {
                        let r = o.unsubscribe(t);
                        if k != k2 && !std::ptr::eq(&obs[k], &obs[k2]) { if r != Err(ObserverError::Mismatch) { return e(format!("C10 foreign token: {r:?}")); } }
                        else { if r != Ok(()) { return e(format!("C10 own token: {r:?}")); } obs[k].subs[0].2 = false; } } } }
            7 => { if !obs.is_empty() { let k = rng.below(obs.len()); let ob = &mut obs[k]; if let Some(o) = &ob.o { o.disallow_future_use(); ob.ls = LS::Dead; for s in ob.subs.iter_mut() { s.2 = false; } } } }
            8 => { if !obs.is_empty() { let k = rng.below(obs.len()); let ob = &mut obs[k]; if let Some(o) = &ob.o { ob.clones.push(o.clone()); } } }
            9 => { if !obs.is_empty() { let k = rng.below(obs.len()); let ob = &mut obs[k];
                    if !ob.clones.is_empty() { ob.clones.pop(); } else if ob.o.is_some() { ob.o = None; ob.ls = LS::Dead; for s in ob.subs.iter_mut() { s.2 = false; } } } }
            _ => {
                log.borrow_mut().clear();
                st.stabilise();
                for ob in obs.iter_mut() { if ob.ls == LS::Created { ob.ls = LS::InUse; } }
                // expected notifications
                let mut want: Vec<(usize, String)> = vec![];
                let necessary: Vec<usize> = (0..nodes.len()).filter(|n| obs.iter().any(|o| o.node == *n && o.ls == LS::InUse)).collect();
                for ob in obs.iter_mut() { if ob.ls != LS::InUse { continue; }
                    let v = eval(ob.node, xv, yv);
                    for s in ob.subs.iter_mut() { if !s.2 { continue; }
                        if !s.3 { want.push((s.1, format!("Initialised({v})"))); s.3 = true; }
                        else if committed.get(&ob.node).map_or(true, |old| *old != v) { want.push((s.1, format!("Changed({v})"))); } } }
                // committed values: a node keeps its cached value while unnecessary; cutoff compares with the cached value
                for n in &necessary { committed.insert(*n, eval(*n, xv, yv)); }
                // intermediate node of chain 3 and shared deps are not observed directly; fine
                let mut got = log.borrow().clone(); got.sort(); want.sort(); checks += 1;
                if got != want { return e(format!("C09 notifications got {got:?} want {want:?}")); }
            }
        }
        // C07/C10: reads after every action
        let stabilised = false; let _ = stabilised;
        for ob in obs.iter_mut() { let Some(o) = ob.o.as_ref().or(ob.clones.first()) else { continue };
            let r = o.try_get_value(); checks += 1;
            let want = match ob.ls { LS::Created => Err(ObserverError::NeverStabilised), LS::Dead => Err(ObserverError::Disallowed), LS::InUse => Ok(*committed.get(&ob.node).unwrap_or(&-999)) };
            if r != want { return e(format!("C07/C10 read got {r:?} want {want:?} (node {} state {:?})", ob.node, ob.ls)); } ob.last_read = Some(r); }
    }
    Ok(checks)
}
fn main() {
    let args: Vec<String> = std::env::args().collect();
    let from: u64 = args[1].parse().unwrap(); let to: u64 = args[2].parse().unwrap();
    std::panic::set_hook(Box::new(|_| {}));
    let (mut fails, mut checks) = (0, 0u64); let mut kinds: HashMap<String, u64> = HashMap::new();
    for seed in from..to {
        let r = catch_unwind(AssertUnwindSafe(|| run(seed)));
        let msg = match r { Ok(Ok(c)) => { checks += c; continue } Ok(Err(e)) => e,
            Err(e) => format!("seed {seed} step ?: PANIC {}", e.downcast_ref::<String>().cloned().or_else(|| e.downcast_ref::<&str>().map(|s| s.to_string())).unwrap_or_default().lines().next().unwrap_or("").chars().take(100).collect::<String>()) };
        fails += 1; let key: String = msg.splitn(3, ": ").nth(1).unwrap_or("").chars().take(28).collect();
        let e = kinds.entry(key).or_insert(0); *e += 1; if *e <= 2 { println!("{msg}"); }
    }
    println!("runs {} fails {} checks {}", to - from, fails, checks);
    let mut k: Vec<_> = kinds.into_iter().collect(); k.sort(); for (k, v) in k { println!("  {v:6}  {k}"); }
}
