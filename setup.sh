#!/bin/sh
# Offline build of the framework from files on disk: Lean driver + every property module, Rust harness (both profiles).
# A property module that fails to build is reported by that property's check, not here.
cd "$(dirname "$0")"
export CARGO_NET_OFFLINE=true
[ -f harness/Cargo.lock ] || cp /repo/Cargo.lock harness/Cargo.lock
(cd lean && lake build driver) || exit 1
# One invocation for all property modules first: lake then schedules the whole dependency graph over all cores
# (the proof chains of different properties are independent).  Failures are reported per module by the loop below,
# which is a no-op for everything this invocation built.
mods=$(for f in lean/IncrVerif/Props/*.lean; do printf 'IncrVerif.Props.%s ' "$(basename "$f" .lean)"; done)
(cd lean && lake build $mods) >/dev/null 2>&1
for f in lean/IncrVerif/Props/*.lean; do
  m=IncrVerif.Props.$(basename "$f" .lean)
  (cd lean && lake build "$m") || echo "WARNING: $m does not build"
done
(cd harness && cargo build --offline && cargo build --offline --release) || exit 1
mkdir -p evidence replays
echo setup-ok
