#!/bin/sh
# Offline build of the framework from files on disk: Lean library + driver, Rust harness (both profiles).
set -e
cd "$(dirname "$0")"
export CARGO_NET_OFFLINE=true
[ -f harness/Cargo.lock ] || cp /repo/Cargo.lock harness/Cargo.lock
(cd lean && lake build IncrVerif driver)
(cd harness && cargo build --offline && cargo build --offline --release)
mkdir -p evidence replays
echo setup-ok
