import IncrVerif.Basic.AssocMap
import IncrVerif.MapOps.SymDiff
