import IncrVerif.Basic.AssocMap
import IncrVerif.MapOps.SymDiff
import IncrVerif.MapOps.SymDiffRef
import IncrVerif.Proofs.SymDiff
import IncrVerif.Props.C18
import IncrVerif.Props.C09
