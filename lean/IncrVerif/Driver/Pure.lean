import IncrVerif.MapOps.SymDiff
import IncrVerif.Spec.C18
import IncrVerif.Driver.Parse
/-!
# `pure` mode of the driver: C18 line protocol (one case per line, one result line per case)
-/
namespace IncrVerif.Driver
open IncrVerif IncrVerif.MapOps

def fmtDiff : Int × DiffElement Int → String
  | (k, .left v) => s!"L {k} {v}"
  | (k, .right v) => s!"R {k} {v}"
  | (k, .unequal a b) => s!"U {k} {a} {b}"

def fmtDiffOwned : DiffElement (Int × Int) → String
  | .left (k, v) => s!"L {k} {v}"
  | .right (k, v) => s!"R {k} {v}"
  | .unequal (k, a) (k2, b) => if k = k2 then s!"U {k} {a} {b}" else s!"U! {k} {a} {k2} {b}"

def fmtMerge : MergeElement (Int × Int) (Int × Int) → String
  | .left (k, t) => s!"L {k} {t}"
  | .right (k, t) => s!"R {k} {t}"
  | .both (k, t) (k2, t2) => s!"B {k} {t} {k2} {t2}"

/-- The model of `OrdMap::diff(..).map(from_diff_item)`: the library diff is *assumed* to list
the differing keys in ascending order as Add/Remove/Update (trusted base); the adapter is
`fromDiffItem`. -/
def ordDiffItems (a b : AMap Int) : List (DiffItem Int) :=
  (symmetricDiff a b).map fun
    | (k, .left v) => .remove k v
    | (k, .right v) => .add k v
    | (k, .unequal o n) => .update k o k n

def pureOne (line : String) : String :=
  let line := trim line
  let (cmd, rest) := match line.splitOn " " with
    | [] => ("", "")
    | c :: r => (c, joinWith " " r)
  let parts := rest.splitOn "|"
  match cmd, parts with
  | "sd", [a, b] =>
    let a := trim a
    let (ty, a) := match a.splitOn " " with
      | [] => ("", "")
      | t :: r => (t, joinWith " " r)
    match parsePairs a, parsePairs b with
    | some a, some b =>
      if ty == "bt" || ty == "rc" then joinWith ";" ((symmetricDiff a b).map fmtDiff)
      else if ty == "ord" then joinWith ";" ((ordDiffItems a b).map (fmtDiff ∘ fromDiffItem))
      else "bad-op"
    | _, _ => "bad-op"
  | "sdo", [a, b] =>
    match parsePairs a, parsePairs b with
    | some a, some b => joinWith ";" ((symmetricDiffOwned a b).map fmtDiffOwned)
    | _, _ => "bad-op"
  | "mo", [a, b] =>
    match parseInts a, parseInts b with
    | some a, some b =>
      joinWith "," ((MergeOnce.collect (a.length + b.length + 1) { a := a, b := b }).map toString)
    | _, _ => "bad-op"
  | "mow", [a, b] =>
    match parsePairs a, parsePairs b with
    | some a, some b => joinWith ";" ((mergeDiffs a b).map fmtMerge)
    | _, _ => "bad-op"
  | _, _ => "bad-op"


/-! ## `pure-check`: evaluate the property predicate on the implementation's output.
Input line: `<case> => <implementation output>`; output `ok` or `fail <clause>`. -/

def parseDiffOut (s : String) : Option (List (Int × DiffElement Int)) :=
  let s := trim s
  if s.isEmpty then some []
  else (s.splitOn ";").mapM fun item =>
    match (trim item).splitOn " " with
    | ["L", k, v] => do pure ((← parseInt? k), .left (← parseInt? v))
    | ["R", k, v] => do pure ((← parseInt? k), .right (← parseInt? v))
    | ["U", k, a, b] => do pure ((← parseInt? k), .unequal (← parseInt? a) (← parseInt? b))
    | _ => none

def parseMergeOut (s : String) : Option (List (MergeElement (Int × Int) (Int × Int))) :=
  let s := trim s
  if s.isEmpty then some []
  else (s.splitOn ";").mapM fun item =>
    match (trim item).splitOn " " with
    | ["L", k, v] => do pure (.left ((← parseInt? k), (← parseInt? v)))
    | ["R", k, v] => do pure (.right ((← parseInt? k), (← parseInt? v)))
    | ["B", k, a, k2, b] => do
      pure (.both ((← parseInt? k), (← parseInt? a)) ((← parseInt? k2), (← parseInt? b)))
    | _ => none

def pureCheckOne (line : String) : String :=
  match line.splitOn "=>" with
  | [cse, out] =>
    let cse := trim cse
    let (cmd, rest) := match cse.splitOn " " with
      | [] => ("", "")
      | c :: r => (c, joinWith " " r)
    let parts := rest.splitOn "|"
    match cmd, parts with
    | "sd", [a, b] =>
      let a := trim a
      let a := match a.splitOn " " with
        | [] => ""
        | _ :: r => joinWith " " r
      match parsePairs a, parsePairs b, parseDiffOut out with
      | some a, some b, some o =>
        if Spec.holdsDiff a b o then "ok" else "fail " ++ Spec.whyDiff a b o
      | _, _, _ => "fail unparsable-output"
    | "sdo", [a, b] =>
      match parsePairs a, parsePairs b, parseDiffOut out with
      | some a, some b, some o =>
        if Spec.holdsDiff a b o then "ok" else "fail " ++ Spec.whyDiff a b o
      | _, _, _ => "fail unparsable-output"
    | "mo", [a, b] =>
      match parseInts a, parseInts b, parseInts out with
      | some a, some b, some o => if Spec.holdsKeyMerge a b o then "ok" else "fail key-merge"
      | _, _, _ => "fail unparsable-output"
    | "mow", [a, b] =>
      match parsePairs a, parsePairs b, parseMergeOut out with
      | some a, some b, some o => if Spec.holdsMerge a b o then "ok" else "fail ordered-merge"
      | _, _, _ => "fail unparsable-output"
    | _, _ => "bad-op"
  | _ => "bad-op"

end IncrVerif.Driver
