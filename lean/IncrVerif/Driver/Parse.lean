/-!
# Parsing helpers shared by all driver modes (core Lean only)
-/
namespace IncrVerif.Driver

def trim (s : String) : String := s.trimAscii.toString

def splitOn (s : String) (sep : String) : List String := s.splitOn sep

def parseInt? (s : String) : Option Int := (trim s).toInt?

/-- `k:v,k:v` (or `-`/empty for the empty list) -/
def parsePairs (s : String) : Option (List (Int × Int)) :=
  let s := trim s
  if s.isEmpty || s == "-" then some []
  else (s.splitOn ",").mapM fun kv =>
    match kv.splitOn ":" with
    | [k, v] => do
      let k ← parseInt? k
      let v ← parseInt? v
      pure (k, v)
    | _ => none

/-- `k,k,k` -/
def parseInts (s : String) : Option (List Int) :=
  let s := trim s
  if s.isEmpty || s == "-" then some []
  else (s.splitOn ",").mapM parseInt?

def joinWith (sep : String) (l : List String) : String := String.intercalate sep l

end IncrVerif.Driver
