def hello := "world"
