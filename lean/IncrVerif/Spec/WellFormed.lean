import IncrVerif.Engine.History
/-!
# `WellFormed`: the decidable transcription of the library's documented rules, on histories

A history is well-formed when (DESIGN.md §6): operands name nodes/observers/vars/tokens that exist;
no closure calls stabilise or panics; bind closures only use nodes that exist when the bind is created
and never the bind's own result (no cycles); expert nodes are mutated only from the function of a node
that is attached as one of their dependencies before the next stabilise (rule 6); handlers do not
(un)subscribe on the observer they are running for; nodes created inside closures are not named from
outside (`#i` operands) — that is the misuse stream's business.
-/
namespace IncrVerif.Spec
open IncrVerif.Engine

def opndOk (nTop : Nat) (nLoc : Nat) : Opnd → Bool
  | .outer k => k < nTop
  | .loc j => j < nLoc
  | .abs _ => false
  | .slot _ => true

def effectOk (nTop nObs nVars : Nat) (inHandler : Bool) : Effect → Bool
  | .setVar v _ | .modifyVar v _ | .updateVar v _ | .replaceVar v _ | .replaceWithVar v _ | .dropVar v => v < nVars
  | .readObs o | .disallow o => o < nObs
  | .stabilise | .panic => false
  | .unsubscribe _ _ | .subscribe _ _ => !inHandler
  | .xAdd e c _ => !inHandler && opndOk nTop 0 e && opndOk nTop 0 c
  | .xRm e _ | .xStale e | .xInval e => !inHandler && opndOk nTop 0 e
  | .xSel e _ _ ts => !inHandler && opndOk nTop 0 e && ts.all (opndOk nTop 0)

def instrOperands : Instr → List Opnd
  | .map _ args => args
  | .fold _ _ cs => cs
  | .mapRef _ i | .mapWithOld _ i | .bind _ i => [i]
  | .zip a b | .dependOn a b => [a, b]
  | .cutoff n _ => [n]
  | .publish _ o => [o]
  | .perKey _ _ x => [x]
  | .mapOp (.fm _ x) | .mapOp (.fold _ _ _ x) | .mapOp (.part _ x) => [x]
  | .mapOp (.merge _ x y) => [x, y]
  | _ => []

/-- how many nodes one template instruction creates (`none`: not statically known) -/
def instrNodeCount : Instr → Option Nat
  | .cutoff _ _ | .publish _ _ => some 0
  | .bind _ _ => some 2
  | .memoCall _ _ => none
  | .mapOp (.merge ..) => some 5
  | .mapOp _ => some 3
  | .perKey .. => some 4
  | _ => some 1

def templateOk (nTop : Nat) (t : Template) : Bool :=
  let (ok, nLoc) := t.instrs.foldl (fun (acc : Bool × Nat) i =>
    let ok := acc.1 && (instrOperands i).all (opndOk nTop acc.2)
      && (match i with | .var _ | .expert _ => false | _ => true)
    let creates := match i with | .cutoff _ _ | .publish _ _ => false | _ => true
    (ok, if creates then acc.2 + 1 else acc.2)) (true, 0)
  ok && opndOk nTop nLoc t.ret

/-- expert targets of the effects of function `f` -/
def expertTargets (d : Defs) (f : Nat) : List Opnd :=
  ((d.fns.lookup f).map (·.effects)).getD [] |>.filterMap fun e => match e with
    | .xAdd e _ _ | .xRm e _ | .xStale e | .xInval e | .xSel e _ _ _ => some e
    | _ => none

/-- `none` = well-formed, `some reason` otherwise -/
def wellFormed (h : History) : Option String := Id.run do
  let d := h.defs
  let hasScoped := d.bodies.any fun (_, _, alts) => alts.any fun t => t.instrs.any fun i =>
    match i with | .scopedVar _ => true | _ => false
  let mut nStatic := 0
  let mut staticKnown := true
  let mut nTop := 0
  let mut nObs := 0
  let mut nVars := 0
  let mut nTok := 0
  -- drivers waiting for their `adddep`: (expert operand, driver ordinal)
  let mut pending : List (Opnd × Nat) := []
  let mut idx := 0
  -- bodies defined before use and closed over existing nodes: checked when a bind is created
  for a in h.actions do
    match a with
    | .bad l => return some s!"action {idx}: unparsable `{l}`"
    | .create i =>
      if !((instrOperands i).all (opndOk nTop 0)) then return some s!"action {idx}: operand does not exist"
      match i with
      | .map f _ =>
        for e in ((d.fns.lookup f).map (·.effects)).getD [] do
          if !(effectOk nTop nObs (if hasScoped then 1000000 else nVars) false e) then return some s!"action {idx}: effect of f{f} refers to something that does not exist, or is not allowed"
        for e in expertTargets d f do pending := (e, nTop) :: pending
      | .bind b _ =>
        match d.bodies.lookup b with
        | none => return some s!"action {idx}: body b{b} not defined"
        | some (_, alts) =>
          for t in alts do
            if !(templateOk nTop t) then return some s!"action {idx}: body b{b} uses a node that does not exist yet"
            for i in t.instrs do
              match i with
              | .map f _ =>
                if !(((d.fns.lookup f).map (·.effects)).getD []).isEmpty then
                  return some s!"action {idx}: effectful function inside a bind body"
              | .bind b2 _ => if !(b2 < b) then return some s!"action {idx}: body b{b} nests a later body"
              | _ => pure ()
      | _ => pure ()
      if staticKnown then
        match instrNodeCount i with
        | some c => nStatic := nStatic + c
        | none => staticKnown := false
      match i with
      | .cutoff _ _ => pure ()
      | .var _ => nTop := nTop + 1; nVars := nVars + 1
      | _ => nTop := nTop + 1
    | .observe n =>
      -- `#k` names the k-th node ever created: allowed for the nodes the top-level instructions created before
      -- the first stabilise (e.g. the input node of a map operator, which a user program holds a handle of)
      let okAbs := match n with | .abs k => k < nStatic | _ => false
      if !(opndOk nTop 0 n || okAbs) then return some s!"action {idx}: observe of a missing node" else nObs := nObs + 1
    | .cloneObs o | .dropObs o | .disallow o => if !(o < nObs) then return some s!"action {idx}: no such observer"
    | .subscribe o hid =>
      if !(o < nObs) then return some s!"action {idx}: no such observer"
      for e in (d.hdls.lookup hid).getD [] do
        if !(effectOk nTop nObs (if hasScoped then 1000000 else nVars) true e) then return some s!"action {idx}: handler h{hid} has an effect that is not allowed"
      nTok := nTok + 1
    | .unsubscribe o _ => if !(o < nObs) then return some s!"action {idx}: no such observer"
    | .stateUnsub _ => pure ()
    | .set v _ | .modify v _ | .update v _ | .replace v _ | .replaceWith v _ | .get v | .dropVar v =>
      -- variables made by `scopedvar` inside bind closures get their ordinals at run time: `wellFormedDyn`
      if !(v < nVars) && !hasScoped then return some s!"action {idx}: no such var"
    | .addDep e c _ =>
      if !(opndOk nTop 0 e && opndOk nTop 0 c) then return some s!"action {idx}: adddep operand missing"
      pending := pending.filter fun (pe, drv) => !(pe == e && c == .outer drv)
    | .stabilise =>
      staticKnown := false
      match pending with
      | (_, drv) :: _ => return some s!"action {idx}: driver n{drv} mutates an expert node it is not a dependency of"
      | [] => pure ()
    | .arm _ => return some s!"action {idx}: fault injection"
    | .dropAll => pure ()
    | .dropHandle n => if !(opndOk nTop 0 n) then return some s!"action {idx}: no such handle"
    | .expectPanic _ => return some s!"action {idx}: misuse stream"
    | .setMaxHeight _ | .isStable | .stats => pure ()
    idx := idx + 1
  return none

end IncrVerif.Spec
