import IncrVerif.Engine.Run
/-!
# Parsing the implementation's trace (the lines the Rust harness prints) for the property predicates
-/
namespace IncrVerif.Spec
open IncrVerif.Driver IncrVerif.Engine

structure NodeSnap where
  id : Nat
  kind : String
  h : Int := -1
  rch : Int := -1
  r : Int := -1
  c : Int := -1
  valid : Bool := true
  nec : Bool := false
  val : String := "-"
  par : List (Nat × Nat) := []
  nh : Int := 0
  obs : Nat := 0
  ch : List Nat := []
  refs : List Nat := []
deriving Repr, Inhabited

structure ActionRec where
  api : String := ""
  evs : List String := []
  reads : List (Nat × String) := []
  snaps : List NodeSnap := []
  heap : String := ""
  stats : String := ""
  audits : List String := []
deriving Repr, Inhabited

abbrev ImplTrace := Array ActionRec

def kvOf (tok : String) : Option (String × String) :=
  match tok.splitOn "=" with
  | [k, v] => some (k, v)
  | k :: rest => some (k, joinWith "=" rest)
  | _ => none

def parsePar (s : String) : List (Nat × Nat) :=
  -- `[5:0,6:1]`
  let inner := ((s.drop 1).dropEnd 1).toString
  if inner.isEmpty then []
  else (inner.splitOn ",").filterMap fun e =>
    match e.splitOn ":" with
    | [p, c] => do pure ((← p.toNat?), (← c.toNat?))
    | _ => none

def parseSnap (payload : String) : Option NodeSnap := do
  let toks := words payload
  let idTok ← toks[0]?
  let kind ← toks[1]?
  let id ← (idTok.drop 1).toString.toNat?
  let kvs := (toks.drop 2).filterMap kvOf
  let geti (k : String) : Int := ((kvs.lookup k).bind String.toInt?).getD (-1)
  pure { id := id, kind := kind, h := geti "h", rch := geti "rch", r := geti "r", c := geti "c",
         valid := (kvs.lookup "valid") == some "1", nec := (kvs.lookup "nec") == some "1",
         val := (kvs.lookup "val").getD "-", par := parsePar ((kvs.lookup "par").getD "[]"),
         nh := geti "nh", obs := (((kvs.lookup "obs").bind String.toNat?).getD 0),
         ch := (let t := (kvs.lookup "ch").getD "[]"
                let inner := ((t.drop 1).dropEnd 1).toString
                if inner.isEmpty then [] else (inner.splitOn ",").filterMap String.toNat?),
         refs := (let t := (kvs.lookup "refs").getD "[]"
                  let inner := ((t.drop 1).dropEnd 1).toString
                  if inner.isEmpty then [] else (inner.splitOn ",").filterMap String.toNat?) }

def parseReads (payload : String) : List (Nat × String) :=
  -- `o0=ok 4 o1=err NeverStabilised o2=gone`
  let toks := words payload
  let rec go : List String → List (Nat × String) → List (Nat × String)
    | [], acc => acc.reverse
    | t :: rest, acc =>
      if t.startsWith "o" && (t.splitOn "=").length ≥ 2 then
        match (t.splitOn "=") with
        | o :: v => match (o.drop 1).toString.toNat? with
          | some oi => go rest ((oi, joinWith "=" v) :: acc)
          | none => go rest acc
        | _ => go rest acc
      else match acc with
        | (oi, v) :: acc' => go rest ((oi, v ++ " " ++ t) :: acc')
        | [] => go rest acc
  go toks []

def parseTrace (text : String) : ImplTrace := Id.run do
  let mut tr : ImplTrace := #[]
  for line in text.splitOn "\n" do
    let line := trim line
    if line.isEmpty then continue
    match line.splitOn " " with
    | idx :: ch :: rest =>
      match idx.toNat? with
      | none => pure ()
      | some i =>
        while tr.size ≤ i do tr := tr.push {}
        let payload := joinWith " " rest
        tr := tr.modify i fun a =>
          match ch with
          | "api" => { a with api := payload }
          | "ev" => { a with evs := a.evs ++ [payload] }
          | "read" => { a with reads := parseReads payload }
          | "snap" => match parseSnap payload with
            | some sn => { a with snaps := a.snaps ++ [sn] }
            | none => a
          | "heap" => { a with heap := payload }
          | "stats" => { a with stats := payload }
          | "audit" => { a with audits := a.audits ++ [payload] }
          | _ => a
    | _ => pure ()
  return tr

def ActionRec.statInt (a : ActionRec) (k : String) : Int :=
  ((((words a.stats).filterMap kvOf).lookup k).bind String.toInt?).getD (-1)

def ActionRec.snapOf (a : ActionRec) (n : Nat) : Option NodeSnap := a.snaps.find? (·.id == n)

end IncrVerif.Spec
