import IncrVerif.Engine.History
/-!
# Reference semantics: from-scratch evaluation of a node's defining expression

Independent of the engine model: it looks only at the *program* (the creation instructions of the
history, the definition tables) and at the current variable values.  This is the oracle of C01/C07.
-/
namespace IncrVerif.Spec
open IncrVerif.Engine

structure RefProg where
  env : Env
  /-- top-level creation instructions, by top-level ordinal -/
  nodes : Array Instr := #[]
  /-- top-level ordinal ↦ variable index, for `var` nodes -/
  varOf : List (Nat × Nat) := []
  /-- current variable values -/
  vars : Array Val := #[]
  /-- `map_with_old` machines that are pure functions of their input (echo) -/
  pureOld : Nat → Bool

mutual
/-- value of an operand -/
def denoteOpnd (p : RefProg) : Nat → List (Option Val) → Opnd → Option Val
  | 0, _, _ => none
  | fuel+1, loc, o =>
    match o with
    | .outer k => denoteTop p fuel k
    | .loc j => (loc[j]?).join
    | .abs _ => none
    | .slot _ => none

/-- value of the k-th top-level node -/
def denoteTop (p : RefProg) : Nat → Nat → Option Val
  | 0, _ => none
  | fuel+1, k =>
    match p.nodes[k]? with
    | none => none
    | some (.var _) => (p.varOf.lookup k).bind fun v => p.vars[v]?
    | some i => denoteInstr p fuel [] .unit i

/-- value of the node an instruction creates, given the values of the closure's earlier locals -/
def denoteInstr (p : RefProg) : Nat → List (Option Val) → Val → Instr → Option Val
  | 0, _, _, _ => none
  | fuel+1, loc, lhsVal, i =>
    match i with
    | .const v => some v
    | .lhsConst => some lhsVal
    | .var v => some v
    | .map f args => do
      let vs ← args.mapM (denoteOpnd p fuel loc)
      pure (p.env.fn f vs)
    | .fold f init cs => do
      let vs ← cs.mapM (denoteOpnd p fuel loc)
      pure (vs.foldl (p.env.foldStep f) init)
    | .mapRef pr i => (denoteOpnd p fuel loc i).map (p.env.proj pr)
    | .mapWithOld g i => if p.pureOld g then denoteOpnd p fuel loc i else none
    | .zip a b => do
      let va ← denoteOpnd p fuel loc a
      let vb ← denoteOpnd p fuel loc b
      pure (.pair va vb)
    | .dependOn a b => do
      let va ← denoteOpnd p fuel loc a
      let _ ← denoteOpnd p fuel loc b
      pure va
    | .bind body lhs => do
      let lv ← denoteOpnd p fuel loc lhs
      denoteTemplate p fuel (p.env.body body lv) lv
    | .cutoff _ _ => none
    | .expert _ => none
    | .publish _ _ => none
    -- a scoped variable may have been written since its closure ran: not determined by the program text
    | .scopedVar _ => none
    | .memoCall _ _ => none
    | .mapOp _ => none
    | .perKey _ _ _ => none

/-- value of the node a template returns, elaborated on `lhsVal` -/
def denoteTemplate (p : RefProg) : Nat → Template → Val → Option Val
  | 0, _, _ => none
  | fuel+1, t, lhsVal => denoteTemplateWith p fuel t lhsVal []

/-- the same with the closure's first locals given (a per-key function receives its input as `%0`) -/
def denoteTemplateWith (p : RefProg) : Nat → Template → Val → List (Option Val) → Option Val
  | 0, _, _, _ => none
  | fuel+1, t, lhsVal, init =>
    let loc := t.instrs.foldl (fun (acc : List (Option Val)) i =>
      match i with
      | .cutoff _ _ | .publish _ _ => acc
      | _ => acc ++ [denoteInstr p fuel acc lhsVal i]) init
    denoteOpnd p fuel loc t.ret
end

end IncrVerif.Spec
