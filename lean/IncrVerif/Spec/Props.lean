import IncrVerif.Spec.Trace
import IncrVerif.Spec.Denote
import IncrVerif.Spec.WellFormed
/-!
# Property predicates `holds_Cxx : History → ImplTrace → verdict`

Each predicate is a decidable statement about a history and a trace.  The driver evaluates it on the
*implementation's* trace (direct check); the theorems in `Props/` are about the same predicate on the
model's trace.  A verdict is `none` (holds) or `some reason`.
-/
namespace IncrVerif.Spec
open IncrVerif.Driver IncrVerif.Engine

/-- what the program text alone determines about handles: observers, tokens, variable values -/
structure Shadow where
  prog : RefProg
  /-- observer ↦ (node operand, clones, disallowed, created at action) -/
  obs : Array (Opnd × Nat × Bool × Nat) := #[]
  /-- token ↦ observer -/
  tokens : Array Nat := #[]
  /-- top-level ordinal ↦ creation index (read off the implementation's `ok #i` answers) -/
  topAbs : Array Nat := #[]

def Shadow.init (h : History) : Shadow :=
  { prog := { env := h.defs.toEnv,
              pureOld := fun g => match h.defs.olds.lookup g with | some .echo => true | _ => false } }

def addInt7 (x : Val) (d : Int) : Val := .int ((x.toInt + d) % 7)

/-- advance the shadow over one action, given what the implementation answered (`api`) -/
def Shadow.step (sh : Shadow) (a : Action) (idx : Nat) (api : String) : Shadow :=
  let ok := api.startsWith "ok"
  let sh := match a, api.splitOn "#" with
    | .create _, [_, n] => match n.toNat? with
      | some n => { sh with topAbs := sh.topAbs.push n }
      | none => sh
    | _, _ => sh
  match a with
  | .create i =>
    match i with
    | .cutoff _ _ => sh
    | .var v =>
      { sh with prog := { sh.prog with nodes := sh.prog.nodes.push i,
                                       varOf := (sh.prog.nodes.size, sh.prog.vars.size) :: sh.prog.varOf,
                                       vars := sh.prog.vars.push v } }
    | _ => if ok then { sh with prog := { sh.prog with nodes := sh.prog.nodes.push i } } else sh
  | .observe n => { sh with obs := sh.obs.push (n, 1, false, idx) }
  | .cloneObs o => { sh with obs := sh.obs.modify o fun (n, c, d, k) => (n, c + 1, d, k) }
  | .dropObs o => { sh with obs := sh.obs.modify o fun (n, c, d, k) => (n, c - 1, d, k) }
  | .disallow o => { sh with obs := sh.obs.modify o fun (n, c, _, k) => (n, c, true, k) }
  | .subscribe o _ => if api.startsWith "ok t" then { sh with tokens := sh.tokens.push o } else sh
  | .set v x => { sh with prog := { sh.prog with vars := sh.prog.vars.modify v fun _ => x } }
  | .modify v d | .update v d | .replaceWith v d =>
    { sh with prog := { sh.prog with vars := sh.prog.vars.modify v fun x => addInt7 x d } }
  | .replace v x => { sh with prog := { sh.prog with vars := sh.prog.vars.modify v fun _ => x } }
  | _ => sh

/-- invocation events of one action: (closure, node, args text, result text) -/
def invs (a : ActionRec) : List (String × Nat × String × String) :=
  a.evs.filterMap fun e =>
    match words e with
    | "inv" :: fn_at :: rest =>
      match fn_at.splitOn "@n" with
      | [f, n] => do
        let n ← n.toNat?
        let tail := joinWith " " rest
        match tail.splitOn "->" with
        | [args, res] => pure (f, n, args, res)
        | args :: res => pure (f, n, args, joinWith "->" res)
        | _ => none
      | _ => none
    | _ => none

/-- integer view of the first argument in an `inv` event's argument text `(a0,a1,…)` -/
def firstArgInt (args : String) : Int :=
  let inner := ((args.drop 1).dropEnd 1).toString
  let first :=
    if inner.startsWith "(" then (inner.splitOn ")").headD "" ++ ")"
    else if inner.startsWith "{" then (inner.splitOn "}").headD "" ++ "}"
    else (inner.splitOn ",").headD "0"
  ((parseVal first).map Val.toInt).getD 0

/-- variables made by `scopedvar` in the bind closures that ran in this action: they take the next variable
ordinals, in the order of the runs.  Their values are not followed (they may be written later): the slot is
there so that the ordinals of variables created afterwards stay right. -/
def Shadow.scoped (sh : Shadow) (h : History) (rec_ : ActionRec) : Shadow :=
  (invs rec_).foldl (fun sh (f, _, args, _) =>
    if f.startsWith "b" then
      match (f.drop 1).toString.toNat? with
      | some bi =>
        (h.defs.toEnv.body bi (.int (firstArgInt args))).instrs.foldl (fun sh i =>
          match i with
          | .scopedVar v => { sh with prog := { sh.prog with vars := sh.prog.vars.push v } }
          | _ => sh) sh
      | none => sh
    else sh) sh

def Shadow.inUse (sh : Shadow) (o : Nat) : Bool :=
  match sh.obs[o]? with
  | some (_, c, d, _) => c > 0 && !d
  | none => false

/-- features the reference semantics does not cover (effects of node functions on variables,
cutoffs that suppress unequal values, impure `map_with_old` machines, expert nodes): C01's proviso -/
def _root_.IncrVerif.Engine.History.c01Applicable (h : History) : Bool :=
  -- only what the program actually uses counts
  let fnPure (f : Nat) : Bool := ((h.defs.fns.lookup f).map (·.effects.isEmpty)).getD true
  let instrPure : Instr → Bool
    | .map f _ => fnPure f
    | _ => true
  h.defs.bodies.all (fun b => b.2.2.all fun t => t.instrs.all instrPure)
  && h.actions.all fun a => match a with
    | .create (.cutoff _ c) => c == .eq || c == .never
    | .create (.expert _) => false
    | .create i => instrPure i
    | .subscribe _ hid => ((h.defs.hdls.lookup hid).getD []).isEmpty
    | .addDep .. => false
    | .arm _ => false
    | _ => true

/-- the same, for histories with an armed fault -/
def _root_.IncrVerif.Engine.History.c01Applicable' (h : History) : Bool :=
  ({ h with actions := h.actions.filter fun a => match a with | .arm _ => false | _ => true } : History).c01Applicable

def bodiesApplicable (h : History) : Bool :=
  h.defs.bodies.all fun b => b.2.2.all fun t => t.instrs.all fun i => match i with
    | .cutoff _ c => c == .eq || c == .never
    | .var _ => false
    | _ => true

abbrev Verdict := Option String

def denoteFuel : Nat := 400

/-- C01: after every completed stabilise each in-use observer reads the from-scratch value -/
def holdsC01 (h : History) (tr : ImplTrace) : Verdict := Id.run do
  if !(h.c01Applicable && bodiesApplicable h) then return none
  let mut sh := Shadow.init h
  let mut idx := 0
  for a in h.actions do
    let rec_ := tr[idx]?.getD {}
    sh := (sh.step a idx rec_.api).scoped h rec_
    match a with
    | .stabilise =>
      if rec_.api == "ok" then
        for o in List.range sh.obs.size do
          if sh.inUse o then
            match sh.obs[o]? with
            | some (n, _, _, _) =>
              match denoteOpnd sh.prog denoteFuel [] n with
              | some v =>
                let got := (rec_.reads.lookup o).getD "missing"
                if got != "ok " ++ v.render then
                  return some s!"action {idx}: observer o{o} reads `{got}` but from-scratch evaluation gives {v.render}"
              | none => pure ()
            | none => pure ()
    | _ => pure ()
    idx := idx + 1
  return none

/-- C04: no public call panics (the history is well-formed by construction of the generator) -/
def holdsC04 (_h : History) (tr : ImplTrace) : Verdict := Id.run do
  let mut idx := 0
  for a in tr do
    if a.api.startsWith "panic" then return some s!"action {idx}: {a.api}"
    idx := idx + 1
  return none

/-- C11: the representation audit is silent after every action -/
def holdsC11 (_h : History) (tr : ImplTrace) : Verdict := Id.run do
  let mut idx := 0
  for a in tr do
    match a.audits with
    | m :: _ => return some s!"action {idx}: audit: {m}"
    | [] => pure ()
    idx := idx + 1
  return none

/-- events of the `notif` channel of one action: (token, kind, value) -/
def notifs (a : ActionRec) : List (Nat × String × String) :=
  a.evs.filterMap fun e =>
    match words e with
    | ["notif", t, k] => do pure ((← (t.drop 1).toString.toNat?), k, "")
    | ["notif", t, k, v] => do pure ((← (t.drop 1).toString.toNat?), k, v)
    | _ => none

/-- C09 (sequence part): per subscription, `Initialised` first and once, `Changed` only after it,
never a `Changed` carrying the value delivered just before when the node uses the default cutoff,
one `Invalidated` and nothing after; the delivered value is what the observer reads at that moment. -/
def holdsC09 (h : History) (tr : ImplTrace) : Verdict := Id.run do
  -- per token: (initialised, invalidated, last delivered value)
  let mut st : List (Nat × (Bool × Bool × String)) := []
  let mut sh := Shadow.init h
  let mut idx := 0
  -- nodes (by top-level operand) that carry a non-default cutoff
  let custom : List Opnd := h.actions.filterMap fun a => match a with
    | .create (.cutoff n c) => if c == .eq then none else some n
    | _ => none
  for a in h.actions do
    let rec_ := tr[idx]?.getD {}
    sh := (sh.step a idx rec_.api).scoped h rec_
    for (t, k, v) in notifs rec_ do
      let (ini, inv, last) := (st.lookup t).getD (false, false, "")
      if inv then return some s!"action {idx}: t{t} got {k} after Invalidated"
      let o := sh.tokens[t]?.getD 0
      let node := (sh.obs[o]?.map (·.1)).getD (.abs 0)
      if k == "Initialised" then
        if ini then return some s!"action {idx}: t{t} got a second Initialised"
      else if k == "Changed" then
        if !ini then return some s!"action {idx}: t{t} got Changed before Initialised"
        -- `depend_on` nodes carry their own cutoff (`preserve_cutoff`: compares the two nodes' changed_at),
        -- and what a shared cell names is not known from the text
        let ownCutoff := match node with
          | .outer k => (match sh.prog.nodes[k]? with
            | some (.dependOn _ _) => true
            | some (.mapWithOld _ _) => true     -- the closure itself says whether the result changed
            | _ => false)
          | .slot _ => true
          | _ => false
        -- F13: a `map_ref` (chain) over a `map_with_old` node cannot consult its cutoff (the machine consumes
        -- the old value, so `child_changed` gets none and must assume a change)
        let rec viaOld (fuel : Nat) (k : Nat) : Bool := match fuel with
          | 0 => false
          | fuel+1 => match sh.prog.nodes[k]? with
            | some (.mapRef _ (.outer j)) => (match sh.prog.nodes[j]? with
              | some (.mapWithOld _ _) => true
              | some (.mapRef _ _) => viaOld fuel j
              | _ => false)
            | _ => false
        let f13 := match node with | .outer k => viaOld 50 k | _ => false
        if v == last && !(custom.contains node) && !ownCutoff then
          if f13 then
            return some s!"F13 action {idx}: t{t} on a map_ref over map_with_old got Changed({v}) although the projection did not change"
          return some s!"action {idx}: t{t} got Changed({v}) but the value did not change"
      if k != "Invalidated" then
        let got := (rec_.reads.lookup o).getD "missing"
        if sh.inUse o && got != "ok " ++ v then
          return some s!"action {idx}: t{t} was given {v} but the observer reads `{got}`"
      st := (t, (ini || k == "Initialised", k == "Invalidated", if k == "Invalidated" then last else v))
              :: st.filter (·.1 != t)
    idx := idx + 1
  return none

def Shadow.absOf (sh : Shadow) (o : Opnd) : Option Nat :=
  match o with
  | .outer k => sh.topAbs[k]?
  | .abs n => some n
  | .loc _ => none
  | .slot _ => none

/-- transitive children of `roots` in a snapshot -/
def cone (snaps : List NodeSnap) (roots : List Nat) : List Nat :=
  let rec go : Nat → List Nat → List Nat → List Nat
    | 0, _, seen => seen
    | fuel+1, frontier, seen =>
      match frontier with
      | [] => seen
      | n :: rest =>
        if seen.contains n then go fuel rest seen
        else
          let ch := ((snaps.find? (·.id == n)).map (·.ch)).getD []
          go fuel (ch ++ rest) (n :: seen)
  go (snaps.length * snaps.length + snaps.length + 10) roots []

def isUserFn (f : String) : Bool := f != "cb"

/-- C02: within one stabilise every node function runs at most once, and the arguments it received are
the values its inputs have when the stabilise returns (checked for nodes still linked at return). -/
def holdsC02 (h : History) (tr : ImplTrace) : Verdict := Id.run do
  let mut idx := 0
  for a in h.actions do
    let rec_ := tr[idx]?.getD {}
    match a with
    | .stabilise =>
      let is := (invs rec_).filter (isUserFn ·.1)
      -- once
      let keys := is.map fun (f, n, _, _) => s!"{f}@n{n}"
      for k in keys do
        if (keys.filter (· == k)).length > 1 then
          return some s!"action {idx}: {k} was invoked more than once in one stabilise"
      -- final inputs
      if rec_.api == "ok" then
        for (f, n, args, _) in is do
          match rec_.snapOf n with
          | some sn =>
            if sn.valid && sn.nec && !f.startsWith "x" then
              let vals := sn.ch.map fun c => ((rec_.snapOf c).map (·.val)).getD "?"
              let expected :=
                if f.startsWith "g" then none        -- map_with_old also receives its own old value
                else some ("(" ++ joinWith "," vals ++ ")")
              match expected with
              | some e =>
                if e != args && !(vals.contains "?") then
                  return some s!"action {idx}: {f}@n{n} ran on {args} but its inputs end the stabilise as {e}"
              | none =>
                let x := vals.headD "?"
                if !(args.endsWith (x ++ ")")) && x != "?" then
                  return some s!"action {idx}: {f}@n{n} ran on {args} but its input ends the stabilise as {x}"
          | none => pure ()
    | _ => pure ()
    idx := idx + 1
  return none

/-- C05: a node function runs only if the node lies in the dependency cone of an observer that is
alive for the call, the cone taken at call or at return.  Returns the literal two-cone verdict;
`transient` says whether the only failures are nodes that ran in a stabilise in which at least two
bind closures ran (the structure existed only between call and return: finding F12). -/
def holdsC05 (h : History) (tr : ImplTrace) : Verdict := Id.run do
  let mut sh := Shadow.init h
  let mut idx := 0
  -- observer ↦ the node it watches, as reported when it was created (needed for nodes named through shared cells)
  let mut obsAbs : Array (Option Nat) := #[]
  for a in h.actions do
    let rec_ := tr[idx]?.getD {}
    let pre := if idx == 0 then ({} : ActionRec) else tr[idx - 1]?.getD {}
    match a with
    | .observe _ =>
      let noted := rec_.evs.findSome? fun e => match words e with
        | ["note", "observe", _, n] => (n.drop 1).toString.toNat?
        | _ => none
      obsAbs := obsAbs.push noted
    | .stabilise =>
      let roots := (List.range sh.obs.size).filterMap fun o =>
        if sh.inUse o then
          match obsAbs[o]?.join with
          | some n => some n
          | none => (sh.obs[o]?.bind fun x => sh.absOf x.1)
        else none
      let cPre := cone pre.snaps roots
      let cPost := cone rec_.snaps roots
      let is := (invs rec_).filter (isUserFn ·.1)
      -- structure changes made in this stabilise: bind closures that ran, observability changes of expert nodes,
      -- and every dependency-rewiring effect (`xadd`/`xrm`/`xsel`/`xinval`) of the functions that ran
      let nRewire := (is.map fun (f, _, _, _) =>
        if f.startsWith "f" then
          match (f.drop 1).toString.toNat? with
          | some fi => (((h.defs.fns.lookup fi).map (·.effects)).getD []).countP fun e => match e with
              | .xAdd .. | .xRm .. | .xSel .. | .xInval .. => true
              | _ => false
          | none => 0
        else 0).foldl (· + ·) 0
      let nBind := (is.filter fun x => x.1.startsWith "b").length
        + (rec_.evs.filter fun e => e.startsWith "note obschange").length + nRewire
      if roots.isEmpty && !is.isEmpty then
        return some s!"action {idx}: node functions ran with no live observer"
      for (f, n, _, _) in is do
        if !(cPre.contains n) && !(cPost.contains n) then
          if nBind ≥ 2 then
            return some s!"F12 action {idx}: {f}@n{n} ran although it is in no live observer's cone at call or at return (transient structure: {nBind} bind closures / expert rewirings ran in this stabilise)"
          else
            return some s!"action {idx}: {f}@n{n} ran although it is in no live observer's cone at call or at return"
    | _ => pure ()
    sh := (sh.step a idx rec_.api).scoped h rec_
    idx := idx + 1
  return none

/-- C07: between stabilises every observer keeps returning the same thing; a new observer reads
NeverStabilised; reads issued from inside node functions fail with CurrentlyStabilising. -/
def holdsC07 (h : History) (tr : ImplTrace) : Verdict := Id.run do
  let mut idx := 0
  let mut sh := Shadow.init h
  for a in h.actions do
    let rec_ := tr[idx]?.getD {}
    let pre := if idx == 0 then ({} : ActionRec) else tr[idx - 1]?.getD {}
    let target : Option Nat := match a with
      | .dropObs o | .disallow o | .cloneObs o => some o
      | _ => none
    match a with
    | .stabilise =>
      -- reads from inside node functions (propagation phase = before the first notification)
      let prop := rec_.evs.takeWhile fun e => !(e.startsWith "notif ")
      for e in prop do
        if e.startsWith "note read " && !(e.endsWith "err CurrentlyStabilising") && !(e.endsWith "gone") then
          return some s!"action {idx}: a read from inside a node function returned `{e}`"
    | _ =>
      if !(rec_.api.startsWith "panic") then
        for (o, r) in pre.reads do
          if some o != target then
            let now := (rec_.reads.lookup o).getD "missing"
            if now != r then
              return some s!"action {idx}: o{o} read `{r}` before and `{now}` after an action that is not a stabilise"
      match a with
      | .observe _ =>
        let o := sh.obs.size
        let now := (rec_.reads.lookup o).getD "missing"
        if now != "err NeverStabilised" && rec_.api.startsWith "ok" then
          return some s!"action {idx}: the new observer o{o} reads `{now}`"
      | _ => pure ()
    sh := (sh.step a idx rec_.api).scoped h rec_
    idx := idx + 1
  return none

/-- C10: answers of the observer API follow the four-state lifecycle -/
def holdsC10 (h : History) (tr : ImplTrace) : Verdict := Id.run do
  -- per observer: 0 created, 1 in use, 2 ended (disallowed or last clone dropped); clones
  let mut st : Array (Nat × Nat) := #[]
  let mut tokens : Array Nat := #[]
  let mut idx := 0
  for a in h.actions do
    let rec_ := tr[idx]?.getD {}
    match a with
    | .observe _ => st := st.push (0, 1)
    | .cloneObs o => st := st.modify o fun (l, c) => (l, c + 1)
    | .dropObs o =>
      st := st.modify o fun (l, c) => (if c == 1 then 2 else l, c - 1)
    | .disallow o => st := st.modify o fun (_, c) => (2, c)
    | .stabilise =>
      if rec_.api == "ok" then st := st.map fun (l, c) => (if l == 0 then 1 else l, c)
    | .subscribe o _ =>
      let (l, _) := st[o]?.getD (2, 0)
      if l == 2 then
        if rec_.api != "err Disallowed" then
          return some s!"action {idx}: subscribe on ended observer o{o} answered `{rec_.api}`"
      else
        if !(rec_.api.startsWith "ok t") then
          return some s!"action {idx}: subscribe on live observer o{o} answered `{rec_.api}`"
        tokens := tokens.push o
    | .unsubscribe o t =>
      match tokens[t]? with
      | some owner =>
        let want := if owner != o then "err Mismatch" else "ok"
        if rec_.api != want then
          return some s!"action {idx}: unsubscribe o{o} t{t} (token of o{owner}) answered `{rec_.api}`, expected `{want}`"
      | none => pure ()
    | .stateUnsub _ =>
      if rec_.api != "ok" && rec_.api != "noop" then
        return some s!"action {idx}: state.unsubscribe answered `{rec_.api}`"
    | _ => pure ()
    -- reads agree with the lifecycle (outside a poisoned state)
    let poisoned := (words rec_.stats).contains "status=Stabilising"
    if !poisoned then
      for (o, r) in rec_.reads do
        match st[o]? with
        | some (l, c) =>
          if c == 0 then pure ()
          else if l == 0 && r != "err NeverStabilised" then
            return some s!"action {idx}: o{o} has not been through a stabilise but reads `{r}`"
          else if l == 2 && r != "err Disallowed" then
            return some s!"action {idx}: o{o} was disallowed/dropped but reads `{r}`"
          else if l == 1 && !(r.startsWith "ok ") && r != "err ObservingInvalid" then
            return some s!"action {idx}: o{o} is in use but reads `{r}`"
        | none => pure ()
    idx := idx + 1
  return none

/-- C08: write operations act on the variable's logical value in program order; node functions of the
running stabilise see the value current when it was called; deferred writes surface afterwards. -/
def holdsC08 (h : History) (tr : ImplTrace) : Verdict := Id.run do
  -- logical values, with writes issued by effects inside stabilise applied when the stabilise returns
  let mut vals : Array Val := #[]
  let mut varNode : Array Nat := #[]     -- var ↦ creation index of its watch node
  let mut tokHdl : Array Nat := #[]      -- token ↦ handler definition
  -- vars written since their watch node last ran (the next stabilise in which the node is needed must run it)
  let mut written : List Nat := []
  -- vars whose (only) handle a closure or the program has dropped: closures can no longer write them
  let mut dropped : List Nat := []
  let mut idx := 0
  -- effects of one closure run: (values, written, dropped)
  let effs (es : List Effect) (st : Array Val × List Nat × List Nat) : Array Val × List Nat × List Nat :=
    es.foldl (fun (vs, wr, dr) e => match e with
      | .setVar v x | .replaceVar v x =>
        if dr.contains v then (vs, wr, dr) else (vs.modify v fun _ => x, v :: wr, dr)
      | .modifyVar v d | .updateVar v d | .replaceWithVar v d =>
        if dr.contains v then (vs, wr, dr) else (vs.modify v fun x => addInt7 x d, v :: wr, dr)
      | .dropVar v => (vs, wr, if dr.contains v then dr else v :: dr)
      | _ => (vs, wr, dr)) st
  for a in h.actions do
    let rec_ := tr[idx]?.getD {}
    match a with
    | .create (.var v) =>
      vals := vals.push v
      match rec_.api.splitOn "#" with
      | [_, n] => varNode := varNode.push (n.toNat?.getD 0)
      | _ => varNode := varNode.push 0
    | .set v x => vals := vals.modify v fun _ => x; written := v :: written
    | .modify v d | .update v d => vals := vals.modify v fun x => addInt7 x d; written := v :: written
    | .replace v x =>
      let old := vals[v]?.getD .unit
      if rec_.api != "ok " ++ old.render then
        return some s!"action {idx}: replace returned `{rec_.api}`, the value was {old.render}"
      vals := vals.modify v fun _ => x
      written := v :: written
    | .replaceWith v d =>
      let old := vals[v]?.getD .unit
      if rec_.api != "ok " ++ old.render then
        return some s!"action {idx}: replace_with returned `{rec_.api}`, the value was {old.render}"
      vals := vals.modify v fun x => addInt7 x d
      written := v :: written
    | .dropVar v => if rec_.api == "ok" && !(dropped.contains v) then dropped := v :: dropped
    | .subscribe _ hid => if rec_.api.startsWith "ok t" then tokHdl := tokHdl.push hid
    | .get v =>
      let cur := vals[v]?.getD .unit
      if rec_.api != "ok " ++ cur.render then
        return some s!"action {idx}: get returned `{rec_.api}`, the logical value is {cur.render}"
    | .stabilise =>
      -- every var watch node that has a value after the stabilise shows the value current at the call
      if rec_.api == "ok" then
        for v in List.range vals.size do
          match rec_.snapOf (varNode[v]?.getD 0) with
          | some sn =>
            if sn.nec && sn.valid && sn.r + 1 == rec_.statInt "num" then
              let want := (vals[v]?.getD .unit).render
              if sn.val != want then
                return some s!"action {idx}: var v{v} was recomputed to {sn.val} but its value when stabilise was called was {want}"
            -- a written variable that is needed is seen by the graph at THIS stabilise (also when the value
            -- written equals the old one: the watch node runs, its cutoff decides what happens next)
            if written.contains v then
              if sn.r + 1 == rec_.statInt "num" then written := written.filter (· != v)
              else if sn.nec && sn.valid then
                return some s!"action {idx}: var v{v} was written before this stabilise and is needed, but its watch node did not run"
          | none => pure ()
      -- deferred writes: effects of the closures that ran, in order; bind closures that ran made their
      -- `scopedvar` variables (numbered in the order of the runs; their watch nodes are not followed)
      for (f, _, args, _) in invs rec_ do
        if f.startsWith "f" then
          match (f.drop 1).toString.toNat? with
          | some fi =>
            let (vs, wr, dr) := effs ((h.defs.fns.lookup fi).map (·.effects) |>.getD []) (vals, written, dropped)
            vals := vs; written := wr; dropped := dr
          | none => pure ()
        if f.startsWith "b" then
          match (f.drop 1).toString.toNat? with
          | some bi =>
            let lhs : Val := .int (firstArgInt args)
            for i in (h.defs.toEnv.body bi lhs).instrs do
              match i with
              | .scopedVar v => vals := vals.push v; varNode := varNode.push 1000000000
              | _ => pure ()
          | none => pure ()
      for (t, _, _) in notifs rec_ do
        let (vs, wr, dr) := effs ((h.defs.hdls.lookup (tokHdl[t]?.getD 0)).getD []) (vals, written, dropped)
        vals := vs; written := wr; dropped := dr
    | _ => pure ()
    idx := idx + 1
  return none

/-- C03: once the left-hand side of a bind has changed, no function of a node created by the previous
run of its closure (nor of closures nested in that run) is invoked again — in the rest of that stabilise
or ever after — and those nodes are invalid.  Generations are reconstructed from the trace: closure runs
are logged in order and create consecutive node indices. -/
def holdsC03 (h : History) (tr : ImplTrace) : Verdict := Id.run do
  let countable := h.defs.bodies.all fun b => b.2.2.all fun t => t.instrs.all fun i => (instrNodeCount i).isSome
  if !countable then return none
  -- lhs-change node ↦ nodes of its current generation
  let mut gen : List (Nat × List Nat) := []
  let mut dead : List Nat := []
  let mut idx := 0
  let mut known := 0            -- number of nodes created so far
  let mut obsNode : List (Nat × Nat) := []      -- observer ↦ node, from the `note observe` lines
  for a in h.actions do
    let rec_ : ActionRec := tr[idx]?.getD default
    for e in rec_.evs do
      match words e with
      | ["note", "observe", o, n] =>
        obsNode := ((o.drop 1).toString.toNat?.getD 0, (n.drop 1).toString.toNat?.getD 0) :: obsNode
      | _ => pure ()
    match a with
    | .stabilise =>
      let mut next := known
      for e in rec_.evs do
        match words e with
        | "inv" :: fn_at :: rest =>
          match fn_at.splitOn "@n" with
          | [f, ns] =>
            let n := ns.toNat?.getD 0
            if f.startsWith "b" then
              -- a bind closure runs: the previous generation (and everything nested in it) dies
              let bi := (f.drop 1).toString.toNat?.getD 0
              let arg := firstArgInt ((joinWith " " rest).splitOn "->" |>.headD "()")
              let old := (gen.lookup n).getD []
              -- transitive: generations of binds whose change detector is among the dead nodes
              let mut frontier := old
              let mut newlyDead : List Nat := []
              let mut fuel := 1000
              while !frontier.isEmpty && fuel > 0 do
                fuel := fuel - 1
                match frontier with
                | [] => pure ()
                | x :: more =>
                  frontier := more
                  if !(newlyDead.contains x) then
                    newlyDead := x :: newlyDead
                    frontier := frontier ++ ((gen.lookup x).getD [])
              dead := dead ++ newlyDead
              match h.defs.bodies.lookup bi with
              | some (k, alts) =>
                let t := alts[(emod arg (k : Int)).toNat]?.getD { instrs := [], ret := .abs 0 }
                let cnt := t.instrs.foldl (fun acc i => acc + (instrNodeCount i).getD 0) 0
                gen := (n, (List.range cnt).map (· + next)) :: gen.filter (·.1 != n)
                next := next + cnt
              | none => pure ()
          | _ => pure ()
        | _ => pure ()
      -- the left-hand side is lower than everything its closure builds, so a node of a generation that dies in
      -- this stabilise must not have run anywhere in it (before or after the closure re-ran), nor ever later
      for e in rec_.evs do
        match words e with
        | "inv" :: fn_at :: _ =>
          match fn_at.splitOn "@n" with
          | [f, ns] =>
            let n := ns.toNat?.getD 0
            if dead.contains n && f != "cb" then
              return some s!"action {idx}: {f}@n{n} ran although the left-hand side of the bind that created n{n} had changed"
          | _ => pure ()
        | _ => pure ()
      -- dead nodes that are still allocated must be invalid, and their observers must say so
      if rec_.api == "ok" then
        for d in dead do
          match rec_.snapOf d with
          | some sn => if sn.valid then return some s!"action {idx}: n{d} belongs to a generation whose bind has re-run but is still valid"
          | none => pure ()
        for (o, n) in obsNode do
          if dead.contains n then
            let r := (rec_.reads.lookup o).getD "gone"
            if r.startsWith "ok " then
              return some s!"action {idx}: o{o} observes n{n}, built by a bind run that is over, and reads `{r}`"
    | _ => pure ()
    -- nodes created so far: top-level creations answer `ok #i`; closures create the rest
    known := match rec_.stats.splitOn "created=" with
      | [_, r] => ((r.splitOn " ").headD "0").toNat?.getD known
      | _ => known
    idx := idx + 1
  return none

/-- cutoff events of one action: (cutoff id, node, old text, new text, result) -/
def cuts (a : ActionRec) : List (Nat × Nat × String × String × String) :=
  a.evs.filterMap fun e =>
    match words e with
    | ["cut", c_at, rest] =>
      match c_at.splitOn "@n", rest.splitOn "->" with
      | [c, n], [args, res] => do
        let inner := ((args.drop 1).dropEnd 1).toString
        -- split `(old,new)` at the top-level comma
        let rec splitTop (cs : List Char) (depth : Nat) (acc : List Char) : Option (String × String) :=
          match cs with
          | [] => none
          | ch :: rest =>
            if ch == ',' && depth == 0 then some (String.ofList acc.reverse, String.ofList rest)
            else if ch == '(' || ch == '{' then splitTop rest (depth + 1) (ch :: acc)
            else if ch == ')' || ch == '}' then splitTop rest (depth - 1) (ch :: acc)
            else splitTop rest depth (ch :: acc)
        let (o, nw) ← splitTop inner.toList 0 []
        pure ((← (c.drop 1).toString.toNat?), (← n.toNat?), o, nw, res)
      | _, _ => none
    | _ => none

/-- C06: cutoffs gate propagation exactly.  Per stabilise, from the snapshots before and after:
(order) a function cutoff is consulted with (old, new) = (the node's value before, after);
(⇐) if an input's `changed_at` is newer than a needed valid dependant's last run, the dependant ran;
(⇒) a dependant that ran had never run, or has such an input;
(kinds) a node that re-ran with `Never` changed; with `Always` (after its first result) did not;
with the default cutoff it changed iff its value differs.
`F13 …` verdicts are the documented exception (map_ref fed by map_with_old cannot consult its cutoff). -/
def holdsC06 (h : History) (tr : ImplTrace) : Verdict := Id.run do
  let mut sh := Shadow.init h
  let mut idx := 0
  -- cutoff kind per creation index, as far as the history sets it at top level
  let mut cutKind : List (Nat × CutoffK) := []
  for a in h.actions do
    let rec_ := tr[idx]?.getD {}
    let pre := if idx == 0 then ({} : ActionRec) else tr[idx - 1]?.getD {}
    sh := (sh.step a idx rec_.api).scoped h rec_
    match a with
    | .create (.cutoff n c) =>
      match sh.absOf n with
      | some k => cutKind := (k, c) :: cutKind.filter (·.1 != k)
      | none => pure ()
    | .create (.dependOn _ _) =>
      -- `depend_on` installs its own cutoff closure
      match sh.topAbs.back? with
      | some k => cutKind := (k, .dependOn 0) :: cutKind
      | none => pure ()
    | .stabilise =>
      if rec_.api == "ok" then
        let now := rec_.statInt "num" - 1
        -- (order)
        for (c, n, o, _nw, _) in cuts rec_ do
          match pre.snapOf n with
          | some sn =>
            if sn.val != "-" && sn.val != o && sn.kind != "MapRef" then
              return some s!"action {idx}: cutoff c{c} of n{n} was given `{o}` as the old value, the node's value before was {sn.val}"
            if sn.kind == "MapRef" && sn.val != "-" && sn.val != o && sn.nec then
              return some s!"action {idx}: cutoff c{c} of map_ref n{n} was given `{o}` as the old value, its projection before was {sn.val}"
          | none => pure ()
        for sn in rec_.snaps do
          let preSn := pre.snapOf sn.id
          let rPre := (preSn.map (·.r)).getD (-1)
          let ran := sn.r == now && rPre != now
          let isDependant := sn.kind.startsWith "Map" || sn.kind == "Fold" || sn.kind == "BindMain" || sn.kind == "BindLhsChange"
          if sn.valid && sn.nec && isDependant then
            let newer := sn.ch.filter fun c => match rec_.snapOf c with
              | some cs => cs.c > rPre
              | none => false
            -- (⇐)
            if !newer.isEmpty && !ran && rPre != -1 && sn.r != now then
              return some s!"action {idx}: n{sn.id} ({sn.kind}) did not run although its input n{newer.headD 0} changed after its last run"
            if rPre == -1 && sn.r != now then
              return some s!"action {idx}: n{sn.id} ({sn.kind}) is needed, has never run, and did not run"
            -- (⇒)
            if ran && rPre != -1 && newer.isEmpty then
              return some s!"action {idx}: n{sn.id} ({sn.kind}) ran although none of its inputs changed since its last run"
          -- (kinds)
          if sn.valid && ran && rPre != -1 && sn.kind != "BindLhsChange" then
            let k := (cutKind.lookup sn.id).getD .eq
            let changed := sn.c == now
            let preVal := (preSn.map (·.val)).getD "-"
            let viaOld := sn.kind == "MapRef" && (
              -- ultimate non-map_ref input is a map_with_old node
              let rec up (fuel : Nat) (n : Nat) : Bool := match fuel with
                | 0 => false
                | f+1 => match rec_.snapOf n with
                  | some x => if x.kind == "MapRef" then up f (x.ch.headD 0) else x.kind == "MapWithOld"
                  | none => false
              up 20 sn.id)
            match k with
            | .never =>
              if !changed && sn.kind != "MapWithOld" && sn.kind != "MapRef" then
                return some s!"action {idx}: n{sn.id} has Cutoff::Never, re-ran, but did not propagate"
            | .always =>
              if changed && preVal != "-" && sn.kind != "MapWithOld" then
                if viaOld then return some s!"F13 action {idx}: map_ref n{sn.id} over map_with_old propagated despite Cutoff::Always"
                else if sn.kind != "MapRef" then
                  return some s!"action {idx}: n{sn.id} has Cutoff::Always and a previous result, but propagated"
            | .eq =>
              if sn.kind != "MapWithOld" && sn.kind != "MapRef" && preVal != "-" then
                if changed && preVal == sn.val then
                  return some s!"action {idx}: n{sn.id} re-ran to an equal value ({sn.val}) but propagated"
                if !changed && preVal != sn.val then
                  return some s!"action {idx}: n{sn.id} changed from {preVal} to {sn.val} but did not propagate"
            | _ => pure ()
    | _ => pure ()
    idx := idx + 1
  return none

/-- static height of the k-th top-level node when it is needed: leaves 1, others 1 + max of the inputs
(`none` when the program has binds or expert nodes below it: heights are then dynamic) -/
def staticHeight (nodes : Array Instr) : Nat → Nat → Option Nat
  | 0, _ => none
  | fuel+1, k =>
    let ofOp (o : Opnd) : Option Nat := match o with
      | .outer j => staticHeight nodes fuel j
      | _ => none
    let above (os : List Opnd) : Option Nat := do
      let hs ← os.mapM ofOp
      pure (1 + hs.foldl max 0)
    match nodes[k]? with
    | some (.const _) | some (.var _) | some .lhsConst => some 1
    | some (.map _ args) => above args
    | some (.fold _ _ cs) => if cs.isEmpty then some 1 else above cs
    | some (.mapRef _ i) | some (.mapWithOld _ i) => above [i]
    | some (.dependOn a b) => above [a, b]
    | some (.zip a b) => match nodes[(match a with | .outer j => j | _ => 0)]?,
                              nodes[(match b with | .outer j => j | _ => 0)]? with
      | some (.const _), some (.const _) => some 1
      | _, _ => above [a, b]
    | _ => none

/-- C19: the height limit is exact on static graphs (accepted iff the needed height is within the
current limit, rejected with the height diagnostic at the stabilise that needs it; reconfiguration
legal iff not below the greatest height used); announced misuse panics with one of the announced
diagnostics instead of returning; dropping everything afterwards does not panic. -/
def holdsC19 (h : History) (tr : ImplTrace) : Verdict := Id.run do
  let mut sh := Shadow.init h
  let mut limit : Nat := h.maxHeight
  let mut maxUsed : Nat := 0
  let mut poisoned := false
  let mut expect : Option (List String) := none
  let mut idx := 0
  let dynamic := h.actions.any fun a => match a with
    | .create (.bind ..) | .create (.expert _) => true
    | _ => false
  for a in h.actions do
    let rec_ := tr[idx]?.getD {}
    let pre := if idx == 0 then ({} : ActionRec) else tr[idx - 1]?.getD {}
    let announced := expect.isSome
    match expect, a with
    | some cls, .expectPanic _ => expect := some cls
    | some cls, _ =>
      let got := if rec_.api.startsWith "panic " then (rec_.api.drop 6).toString else rec_.api
      if !(cls.contains got) then
        return some s!"action {idx}: expected a panic naming one of {cls}, got `{rec_.api}`"
      expect := none
    | none, _ => pure ()
    match a with
    | .expectPanic cls => expect := some cls
    | .dropAll =>
      if !(rec_.api.startsWith "ok") then return some s!"action {idx}: dropping the handles and the state answered `{rec_.api}`"
    | .stabilise =>
      if !poisoned && !dynamic && !announced then
        let roots := (List.range sh.obs.size).filterMap fun o =>
          if sh.inUse o then (sh.obs[o]?.map (·.1)) else none
        let needs := roots.filterMap fun r => match r with
          | .outer k => staticHeight sh.prog.nodes 200 k
          | _ => none
        let need := needs.foldl max 0
        if need > limit then
          if rec_.api != "panic height-limit" then
            return some s!"action {idx}: the graph needs height {need} > limit {limit} but stabilise answered `{rec_.api}`"
        else
          if rec_.api != "ok" then
            return some s!"action {idx}: the graph needs height {need} ≤ limit {limit} but stabilise answered `{rec_.api}`"
          maxUsed := max maxUsed need
    | .setMaxHeight m =>
      if !poisoned && !dynamic then
        if m ≥ maxUsed then
          if rec_.api != "ok" then
            return some s!"action {idx}: set_max_height_allowed({m}) with greatest height in use {maxUsed} answered `{rec_.api}`"
          limit := m
        else
          -- below the greatest height EVER seen; the property speaks of the greatest height IN USE now
          let inUse : Nat := (pre.snaps.filter (·.nec)).foldl (fun acc sn => max acc sn.h.toNat) 0
          if m ≥ inUse then
            if rec_.api == "ok" then limit := m
            else if rec_.api == "panic below-max-seen" then
              return some s!"F14 action {idx}: set_max_height_allowed({m}) refused although the greatest height in use is {inUse} (the greatest height ever seen is {maxUsed})"
            else
              return some s!"action {idx}: set_max_height_allowed({m}) answered `{rec_.api}`"
          else if rec_.api != "panic below-max-seen" then
            return some s!"action {idx}: set_max_height_allowed({m}) below the greatest height in use {inUse} answered `{rec_.api}`"
      else if rec_.api == "ok" then limit := m
    | _ => pure ()
    if !((words rec_.stats).contains "status=NotStabilising") && !rec_.stats.isEmpty then poisoned := true
    sh := (sh.step a idx rec_.api).scoped h rec_
    idx := idx + 1
  return none

/-- C13: after a panic escaped from stabilise nothing half-updated is ever shown: if it came from
propagation every read fails with CurrentlyStabilising; if it came from an update handler the reads are
the fully propagated values; a further stabilise refuses to run (and runs no node function); dropping
everything completes. -/
def holdsC13 (h : History) (tr : ImplTrace) : Verdict := Id.run do
  let mut sh := Shadow.init h
  let mut armed := false
  let mut poisoned : Option String := none       -- the status the state was left in
  let mut idx := 0
  let applicable := h.c01Applicable' && bodiesApplicable h
  for a in h.actions do
    let rec_ := tr[idx]?.getD {}
    sh := (sh.step a idx rec_.api).scoped h rec_
    match a with
    | .arm _ => armed := true
    | .stabilise =>
      match poisoned with
      | some _ =>
        if rec_.api != "panic status" then
          return some s!"action {idx}: stabilise on a poisoned state answered `{rec_.api}`"
        if !(invs rec_).isEmpty || !(notifs rec_).isEmpty then
          return some s!"action {idx}: user code ran in a stabilise on a poisoned state"
      | none =>
        if armed && rec_.api == "panic user" then
          let st := if (words rec_.stats).contains "status=Stabilising" then "Stabilising"
            else if (words rec_.stats).contains "status=RunningOnUpdateHandlers" then "RunningOnUpdateHandlers"
            else "NotStabilising"
          if st == "NotStabilising" then
            return some s!"action {idx}: a panic escaped from stabilise but the state is not poisoned"
          poisoned := some st
          armed := false
        else if rec_.api.startsWith "panic" then
          poisoned := some "Stabilising"
    | .dropAll =>
      if !(rec_.api.startsWith "ok") then return some s!"action {idx}: dropping everything answered `{rec_.api}`"
      -- between the drop of the engine state and the drop of the observer handles every read must fail:
      -- nothing of a (possibly half-updated) graph may be handed out
      for (o, r) in rec_.reads do
        if r.startsWith "ok" then
          return some s!"action {idx}: observer o{o} answered `{r}` after the engine state had been dropped"
    | _ => pure ()
    -- reads after the poisoning
    match poisoned, a with
    | _, .dropAll => pure ()
    | some "Stabilising", _ =>
      for (o, r) in rec_.reads do
        if r != "err CurrentlyStabilising" && r != "gone" then
          return some s!"action {idx}: o{o} reads `{r}` although a panic interrupted propagation"
    | some "RunningOnUpdateHandlers", .stabilise =>
      -- only at the action of the panic itself the variables are those the propagation used
      if rec_.api == "panic user" && applicable then
        for o in List.range sh.obs.size do
          if sh.inUse o then
            match sh.obs[o]? with
            | some (n, _, _, _) =>
              match denoteOpnd sh.prog denoteFuel [] n with
              | some v =>
                let got := (rec_.reads.lookup o).getD "missing"
                if got != "ok " ++ v.render then
                  return some s!"action {idx}: a handler panicked after propagation; o{o} reads `{got}`, the fully propagated value is {v.render}"
              | none => pure ()
            | none => pure ()
    | _, _ => pure ()
    idx := idx + 1
  return none

/-- what the program text and the invocation log determine about one expert node -/
structure XShadow where
  node : Nat                       -- creation index
  f : Nat                          -- 10*m + kind
  deps : List (Nat × Nat × Bool) := []   -- (dependency name, child creation index, has callback)
  script : List Nat := []
  sel : Option (Nat × Nat) := none
deriving Inhabited

/-- C14: after every stabilise each valid, needed expert node shows the value of the combinator it
expresses — the sum over its CURRENT dependencies of the child's CURRENT value (for `cbsum` nodes: over
the dependencies with a change callback, so a missed or stale callback shows up as a wrong sum) —, it is
recomputed at most once per stabilise, and it never becomes invalid while all its dependencies are valid. -/
def holdsC14 (h : History) (tr : ImplTrace) : Verdict := Id.run do
  let mut sh := Shadow.init h
  let mut xs : List XShadow := []
  let mut nextDep := 0
  let mut idx := 0
  let mut wasInvalidated : List Nat := []      -- experts invalidated on purpose (xinval)
  let mut pendingStale : List Nat := []        -- experts that were told `make_stale` and have not recomputed since
  let mut viaCell : List Nat := []       -- expert nodes with a dependency named through a shared cell
  -- the value check needs cutoffs that only suppress equal values (otherwise stale sums are legitimate)
  -- a `map_with_old` machine that reports "unchanged" whatever happens (`flag 0`) suppresses unequal values like
  -- `Cutoff::Always`: stale sums downstream of it are legitimate
  let lying (g : Nat) : Bool := match h.defs.olds.lookup g with | some (.flag false) => true | _ => false
  let exactCutoffs := (h.actions.all fun a => match a with
    | .create (.cutoff _ c) => c == .eq || c == .never
    | .create (.mapWithOld g _) => !lying g
    | _ => true)
    && h.defs.bodies.all fun b => b.2.2.all fun t => t.instrs.all fun i => match i with
      | .mapWithOld g _ => !lying g
      | .cutoff _ c => c == .eq || c == .never
      | _ => true
  for a in h.actions do
    let rec_ := tr[idx]?.getD {}
    sh := (sh.step a idx rec_.api).scoped h rec_
    match a with
    | .create (.expert f) =>
      match sh.topAbs.back? with
      | some n => xs := xs ++ [{ node := n, f := f }]
      | none => pure ()
    | .addDep e c cb =>
      match sh.absOf e, sh.absOf c with
      | some en, some cn =>
        xs := xs.map fun x => if x.node == en then { x with deps := x.deps ++ [(nextDep, cn, cb)] } else x
        nextDep := nextDep + 1
      | _, _ => pure ()
    | .stabilise =>
      -- replay the drivers' scripts in invocation order
      for (f, _, args, _) in invs rec_ do
        if f.startsWith "f" then
          match (f.drop 1).toString.toNat? with
          | none => pure ()
          | some fi =>
            let arg : Int := firstArgInt args
            for e in ((h.defs.fns.lookup fi).map (·.effects)).getD [] do
              match e with
              | .xAdd eo co cb =>
                match sh.absOf eo, sh.absOf co with
                | some en, some cn =>
                  let d := nextDep
                  nextDep := nextDep + 1
                  xs := xs.map fun x => if x.node == en then
                    { x with deps := x.deps ++ [(d, cn, cb)], script := x.script ++ [d] } else x
                | _, _ => pure ()
              | .xRm eo i =>
                match sh.absOf eo with
                | some en =>
                  xs := xs.map fun x => if x.node == en && x.script.length > 0 then
                    let d := x.script[i % x.script.length]?.getD 0
                    { x with deps := x.deps.filter (·.1 != d), script := x.script.filter (· != d) } else x
                | none => pure ()
              | .xSel eo cb always ts =>
                match sh.absOf eo with
                | some en =>
                  if ts.length > 0 then
                    match sh.absOf (ts[(arg % (ts.length : Int)).toNat]?.getD (.abs 0)) with
                    | some t =>
                      let cur := xs.find? (·.node == en)
                      let same := match cur.bind (·.sel) with | some (_, c) => c == t | none => false
                      if always || !same then
                        let d := nextDep
                        nextDep := nextDep + 1
                        xs := xs.map fun x => if x.node == en then
                          let deps := match x.sel with
                            | some (pd, _) => x.deps.filter (·.1 != pd)
                            | none => x.deps
                          { x with deps := deps ++ [(d, t, cb)], sel := some (d, t) } else x
                    -- the target is named through a shared cell: which node that is cannot be read off the text;
                    -- the dependencies of this expert node are not followed any further
                    | none => viaCell := en :: viaCell
                | none => pure ()
              | .xInval eo => match sh.absOf eo with
                | some en => wasInvalidated := en :: wasInvalidated
                | none => pure ()
              | .xStale eo => match sh.absOf eo with
                | some en => if !(pendingStale.contains en) then pendingStale := en :: pendingStale
                | none => pure ()
              | _ => pure ()
      if rec_.api == "ok" then
        for x in xs do
          -- at most one recompute per stabilise
          let runs := (invs rec_).filter fun (f, n, _, _) => f.startsWith "x" && n == x.node
          if runs.length > 1 then
            return some s!"action {idx}: expert node n{x.node} was recomputed {runs.length} times in one stabilise"
          -- make_stale forces a recompute: at the latest in the first stabilise in which the node is needed
          if pendingStale.contains x.node then
            match rec_.snapOf x.node with
            | some sn =>
              if sn.valid && sn.nec then
                -- was the request made before the node's run in this very stabilise? the events are in order
                let evIdx (p : String → Bool) : Option Nat := rec_.evs.findIdx? p
                let runAt := evIdx fun e => e.startsWith s!"inv x{x.f}@n{x.node} "
                if runAt.isNone then
                  return some s!"action {idx}: expert node n{x.node} was made stale and is needed, but was not recomputed"
                pendingStale := pendingStale.filter (· != x.node)
            | none => pure ()
          match rec_.snapOf x.node with
          | none => pure ()
          | some sn =>
            let childSnaps := x.deps.map fun (_, c, _) => rec_.snapOf c
            let allValid := childSnaps.all fun o => match o with | some c => c.valid | none => false
            if !sn.valid && allValid && !(wasInvalidated.contains x.node) && !(viaCell.contains x.node) then
              return some s!"action {idx}: expert node n{x.node} became invalid although all its dependencies are valid"
            if sn.valid && sn.nec && allValid && exactCutoffs && !(viaCell.contains x.node) then
              let m : Int := x.f / 10
              let vals : List (Option Int) := (x.deps.zip childSnaps).map fun ((_, _, cb), o) =>
                if x.f % 10 == 1 && !cb then some 0
                else match o with
                  | some c => c.val.toInt?
                  | none => none
              if vals.all Option.isSome then
                let want := emod ((vals.filterMap id).foldl (· + ·) 0) m
                if sn.val != toString want then
                  return some s!"action {idx}: expert node n{x.node} shows {sn.val}, its current dependencies give {want}"
    | _ => pure ()
    idx := idx + 1
  return none

/-- inverse of `Val.render` for the values that occur in snapshots and reads: ints, maps, pairs of maps -/
def parseRendered (s : String) : Option Val :=
  let s := trim s
  if s.startsWith "({" then
    -- `({…},{…})`
    match (((s.drop 1).dropEnd 1).toString).splitOn "},{" with
    | [a, b] => do
      let ma ← parsePairs ((a.drop 1).toString)
      let mb ← parsePairs ((b.dropEnd 1).toString)
      pure (.pair (.map ma) (.map mb))
    | _ => none
  else parseVal s

/-- the map operators of a history, by the top-level ordinal of their output node -/
def mapOps (h : History) : List (Nat × MapOpK) := Id.run do
  let mut k := 0
  let mut out : List (Nat × MapOpK) := []
  for a in h.actions do
    match a with
    | .create (.cutoff _ _) | .create (.publish _ _) => pure ()
    | .create (.mapOp op) => out := out ++ [(k, op)]; k := k + 1
    | .create _ => k := k + 1
    | _ => pure ()
  return out

def varValue (sh : Shadow) (o : Opnd) : Option Val :=
  match o with
  | .outer k => (sh.prog.varOf.lookup k).bind fun v => sh.prog.vars[v]?
  | _ => none

/-- C15: after every stabilise each in-use observer on an operator output shows the plain function of
the CURRENT input map(s) — `filterMapSpec`, `ufoldSpecSum`, `mergeSpec'`, `partitionSpec`, the very
definitions the C15 theorems are about. -/
def holdsC15 (h : History) (tr : ImplTrace) : Verdict := Id.run do
  let ops := mapOps h
  let mut sh := Shadow.init h
  let mut idx := 0
  for a in h.actions do
    let rec_ := tr[idx]?.getD {}
    sh := (sh.step a idx rec_.api).scoped h rec_
    match a with
    | .stabilise =>
      if rec_.api == "ok" then
        for o in List.range sh.obs.size do
          if sh.inUse o then
            match (sh.obs[o]?.map (·.1) : Option Opnd) with
            | some (Opnd.outer k) =>
              match ops.lookup k with
              | none => pure ()
              | some op =>
                let want : Option Val := match op with
                  | .fm m x => (varValue sh x).map fun v =>
                      .map (IncrVerif.MapOps.filterMapSpec (opFmFn (h.defs.opParams m)) (asMap v))
                  | .fold m _ _ x => (varValue sh x).map fun v =>
                      let p := h.defs.opParams m
                      .int (IncrVerif.MapOps.ufoldSpecSum (opG p) p.c (asMap v))
                  | .merge m x y => do
                      let l ← varValue sh x
                      let r ← varValue sh y
                      pure (.map (IncrVerif.MapOps.mergeSpec' (opMergeFn (h.defs.opParams m)) (asMap l) (asMap r)))
                  | .part m x => (varValue sh x).map fun v =>
                      let r := IncrVerif.MapOps.partitionSpec (opPartFn (h.defs.opParams m)) (asMap v)
                      .pair (.map r.1) (.map r.2)
                match want with
                | some w =>
                  let got := (rec_.reads.lookup o).getD "missing"
                  if got != "ok " ++ w.render then
                    return some s!"action {idx}: operator output o{o} reads `{got}`, its definition on the current input gives {w.render}"
                | none => pure ()
            | _ => pure ()
    | _ => pure ()
    idx := idx + 1
  return none

/-- the input map of an operator, as an association list -/
def opInput (sh : Shadow) (op : MapOpK) : Option (List (Int × Int) × List (Int × Int)) :=
  match op with
  | .fm _ x | .fold _ _ _ x | .part _ x => (varValue sh x).map fun v => (asMap v, [])
  | .merge _ x y => do pure (asMap (← varValue sh x), asMap (← varValue sh y))

/-- the per-key operators of a history, by the top-level ordinal of their output node -/
def perKeyOps (h : History) : List (Nat × (Option CutoffK × Nat × Opnd)) := Id.run do
  let mut k := 0
  let mut out : List (Nat × (Option CutoffK × Nat × Opnd)) := []
  for a in h.actions do
    match a with
    | .create (.cutoff _ _) | .create (.publish _ _) => pure ()
    | .create (.perKey c f x) => out := out ++ [(k, (c, f, x))]; k := k + 1
    | .create _ => k := k + 1
    | _ => pure ()
  return out

/-- C17: in a stabilise, an operator's user functions are called only for keys whose presence or value
differs between the input the operator last saw and the current one (for merge: in either input), at
most once per key and role — except when it (re)initialises or its input is emptied. -/
def holdsC17 (h : History) (tr : ImplTrace) : Verdict := Id.run do
  let ops := mapOps h
  let mut sh := Shadow.init h
  -- per operator (by output ordinal): the input it last ran on
  let mut seen : List (Nat × (List (Int × Int) × List (Int × Int))) := []
  let pkOps := perKeyOps h
  let mut seenPk : List (Nat × List (Int × Int)) := []
  let mut credit : Nat := 0
  let mut idx := 0
  for a in h.actions do
    let rec_ := tr[idx]?.getD {}
    sh := (sh.step a idx rec_.api).scoped h rec_
    match a with
    | .stabilise =>
      if rec_.api == "ok" then
        for (k, op) in ops do
          match sh.topAbs[k]?, opInput sh op with
          | some outAbs, some cur =>
            -- the operator node is the conversion node's input
            let opNode := ((rec_.snapOf outAbs).map (·.ch.headD 0)).getD 0
            let m := match op with | .fm m _ | .fold m _ _ _ | .merge m _ _ | .part m _ => m
            let calls := (invs rec_).filterMap fun (f, n, args, _) =>
              if n == opNode && f.startsWith s!"M{m}." then
                some ((f.splitOn ".").getD 1 "", firstArgInt args)
              else none
            let ran := match rec_.snapOf opNode with
              | some sn => sn.r + 1 == rec_.statInt "num"
              | none => false
            -- once per key and role
            for c in calls do
              if (calls.filter (· == c)).length > 1 then
                return some s!"action {idx}: operator n{opNode} called {c.1} twice for key {c.2}"
            match seen.lookup k with
            | some prev =>
              let full := match op with
                | .fm .. => cur.1.isEmpty
                | .fold _ rev _ _ => false && rev
                | _ => false
              if !full then
                let differs (key : Int) : Bool :=
                  IncrVerif.AMap.lookup prev.1 key != IncrVerif.AMap.lookup cur.1 key
                  || IncrVerif.AMap.lookup prev.2 key != IncrVerif.AMap.lookup cur.2 key
                for (role, key) in calls do
                  if !(differs key) then
                    return some s!"action {idx}: operator n{opNode} called {role} for key {key}, which did not change"
            | none => pure ()
            if ran then seen := (k, cur) :: seen.filter (·.1 != k)
          | _, _ => pure ()
        -- per-key operators (`incr_mapi_` …): a per-key input node (an expert node without dependencies) is
        -- recomputed only for a key whose presence or value changed since its operator last ran; every run of an
        -- operator's change detector grants one recompute per differing key
        for (k, (_, _, x)) in pkOps do
          match sh.topAbs[k]?, varValue sh x with
          | some outAbs, some cur =>
            let resNode := ((rec_.snapOf outAbs).map (·.ch.headD 0)).getD 0
            let lcNode := ((rec_.snapOf resNode).map (·.ch.headD 0)).getD 0
            let ran := match rec_.snapOf lcNode with
              | some sn => sn.r + 1 == rec_.statInt "num"
              | none => false
            if ran then
              let prev := (seenPk.lookup k).getD []
              let keys := ((asMap cur).map (·.1) ++ prev.map (·.1)).eraseDups
              let diff := (keys.filter fun key =>
                IncrVerif.AMap.lookup prev key != IncrVerif.AMap.lookup (asMap cur) key).length
              credit := credit + diff
              seenPk := (k, asMap cur) :: seenPk.filter (·.1 != k)
          | _, _ => pure ()
        if !pkOps.isEmpty then
          -- (result node, change detector) of every per-key operator; a per-key input node is an expert node
          -- whose only dependency is a change detector and which is not that operator's result
          let rl := pkOps.filterMap fun (k, _) => (sh.topAbs[k]?).map fun outAbs =>
            let resNode := ((rec_.snapOf outAbs).map (·.ch.headD 0)).getD 0
            (resNode, ((rec_.snapOf resNode).map (·.ch.headD 0)).getD 0)
          let recomputed := (rec_.snaps.filter fun sn =>
            sn.kind == "Expert" && sn.ch.length == 1 && rl.any (fun (r, l) => sn.ch == [l] && sn.id != r)
              && sn.r + 1 == rec_.statInt "num").length
          if recomputed > credit then
            return some s!"action {idx}: {recomputed} per-key nodes were recomputed but only {credit} keys changed since their operators last ran"
          credit := credit - recomputed
    | _ => pure ()
    idx := idx + 1
  return none

/-- C16: after every stabilise the output of a per-key operator is the map obtained by applying the
user's per-key computation (evaluated from scratch by the reference semantics, with the key's value as
the per-key input) to the current entries. -/
def holdsC16 (h : History) (tr : ImplTrace) : Verdict := Id.run do
  let ops := perKeyOps h
  let mut sh := Shadow.init h
  let mut idx := 0
  for a in h.actions do
    let rec_ := tr[idx]?.getD {}
    sh := (sh.step a idx rec_.api).scoped h rec_
    match a with
    | .stabilise =>
      if rec_.api == "ok" then
        for o in List.range sh.obs.size do
          if sh.inUse o then
            match (sh.obs[o]?.map (·.1) : Option Opnd) with
            | some (Opnd.outer k) =>
              match ops.lookup k with
              | some (cut, fam, x) =>
                if cut != some .always then
                  match varValue sh x with
                  | some v =>
                    let tmpl := (h.defs.pks.lookup fam).getD { instrs := [], ret := .loc 0 }
                    let entries := (asMap v).map fun (key, val) =>
                      (key, denoteTemplateWith sh.prog denoteFuel tmpl (.int key) [some (.int val)])
                    if entries.all (·.2.isSome) then
                      let want := Val.map (entries.filterMap fun (key, r) => r.map fun w => (key, w.toInt))
                      let got := (rec_.reads.lookup o).getD "missing"
                      if got != "ok " ++ want.render then
                        return some s!"action {idx}: per-key operator output o{o} reads `{got}`, the per-key computation on the current entries gives {want.render}"
                  | none => pure ()
              | none => pure ()
            | _ => pure ()
    | _ => pure ()
    idx := idx + 1
  return none

/-- C12: nothing leaks.  After every action every node the implementation still holds is reachable, through
the strong references it reports (`refs=`), from something the program or the engine legitimately holds:
a handle not yet dropped, an observer that is in use or not yet unlinked, a variable, a queued node.
When everything is dropped, nothing stays allocated (`live=0`).  (Histories with shared cells are skipped:
what a cell holds is not visible in the trace.) -/
def holdsC12 (h : History) (tr : ImplTrace) : Verdict := Id.run do
  let usesSlots := h.defs.bodies.any (fun b => b.2.2.any fun t => t.instrs.any fun i =>
      match i with | .publish _ _ => true | _ => false)
  let mut sh := Shadow.init h
  -- reference counts of top-level handles by creation index
  let mut handles : List Nat := []
  let mut varNodes : List (Nat × Nat) := []       -- var ↦ node
  let mut varDropped : List Nat := []              -- vars whose handle is gone …
  let mut varBroken : List Nat := []               -- … and whose cycle was broken by a stabilise
  let mut obsEnded : List Nat := []                -- observers ended, still to be unlinked by a stabilise
  let mut obsGone : List Nat := []
  let mut idx := 0
  for a in h.actions do
    let rec_ := tr[idx]?.getD {}
    sh := (sh.step a idx rec_.api).scoped h rec_
    match a with
    | .create i =>
      match rec_.api.splitOn "#" with
      | [_, n] =>
        let n := n.toNat?.getD 0
        handles := n :: handles
        match i with
        | .var _ => varNodes := (varNodes.length, n) :: varNodes
        | _ => pure ()
      | _ => pure ()
    | .dropHandle n => match sh.absOf n with
      | some k => if rec_.api == "ok" then handles := handles.erase k
      | none => pure ()
    | .dropVar v => if rec_.api == "ok" then varDropped := v :: varDropped
    | .dropObs o | .disallow o =>
      if !(sh.inUse o) && !(obsGone.contains o) then obsEnded := o :: obsEnded
    | .stabilise =>
      -- closures that ran may have dropped the `Var` handle they own (`dropvar` effect)
      for (f, _, _, _) in invs rec_ do
        if f.startsWith "f" then
          match (f.drop 1).toString.toNat? with
          | some fi =>
            for e in ((h.defs.fns.lookup fi).map (·.effects)).getD [] do
              match e with
              | .dropVar v => if !(varDropped.contains v) then varDropped := v :: varDropped
              | _ => pure ()
          | none => pure ()
      if rec_.api == "ok" then
        varBroken := varDropped
        obsGone := obsGone ++ obsEnded
        obsEnded := []
    | .dropAll =>
      if rec_.api != "ok live=0" && rec_.api != "ok live=cycle" then
        return some s!"action {idx}: after dropping every handle and the state: `{rec_.api}`"
    | _ => pure ()
    if !usesSlots && !rec_.snaps.isEmpty && (words rec_.stats).contains "status=NotStabilising" then
      let obsRoots := (List.range sh.obs.size).filterMap fun o =>
        if obsGone.contains o then none
        else match sh.obs[o]? with
          | some (n, c, _, created) =>
            -- a created observer whose last handle is dropped before its first stabilise is released at once
            if c == 0 && !(obsEnded.contains o) then none
            else if c == 0 && created ≥ idx then none
            else sh.absOf n
          | none => none
      let varRoots := varNodes.filterMap fun (v, n) => if varBroken.contains v then none else some n
      let queued := (rec_.heap.splitOn "n").filterMap fun t =>
        (t.takeWhile Char.isDigit).toString.toNat?
      let roots := handles ++ obsRoots ++ varRoots ++ queued
      let reach := cone (rec_.snaps.map fun sn => { sn with ch := sn.refs }) roots
      for sn in rec_.snaps do
        if !(reach.contains sn.id) then
          return some s!"action {idx}: n{sn.id} ({sn.kind}) is still allocated although nothing holds it"
    idx := idx + 1
  return none

/-- C20: a memoised call at top level returns the stored node without running the function iff that node
is still allocated; otherwise the function runs (once) and the result is a fresh node.  Nodes it returns
stay valid whatever binds re-run. -/
def holdsC20 (h : History) (tr : ImplTrace) : Verdict := Id.run do
  let mut stored : List ((Nat × Int) × Nat) := []      -- (memo, key) ↦ node of the last top-level call
  let mut made : List Nat := []
  let mut idx := 0
  for a in h.actions do
    let rec_ : ActionRec := tr[idx]?.getD default
    let pre : ActionRec := if idx == 0 then default else tr[idx - 1]?.getD default
    match a with
    | .create (.memoCall m key) =>
      match rec_.api.splitOn "#" with
      | [_, n] =>
        let n := n.toNat?.getD 0
        let invoked := rec_.evs.any fun e => e == s!"note memo m{m} invoked {key}"
        match stored.lookup (m, key) with
        | some old =>
          let alive := (pre.snapOf old).isSome
          if alive && (invoked || n != old) then
            return some s!"action {idx}: memo m{m}({key}): n{old} is still allocated but the call returned n{n} (function invoked: {invoked})"
          if !alive && !invoked then
            return some s!"action {idx}: memo m{m}({key}): the stored node n{old} is gone but the function was not invoked"
        | none => pure ()
        stored := ((m, key), n) :: stored.filter (·.1 != (m, key))
        made := n :: made
      | _ => pure ()
    | _ =>
      -- a call from inside a closure that ran the function replaced the stored node by one we cannot name
      for e in rec_.evs do
        match words e with
        | ["note", "memo", m, "invoked", key] =>
          let mi := (m.drop 1).toString.toNat?.getD 0
          let ki := key.toInt?.getD 0
          stored := stored.filter (·.1 != (mi, ki))
        | _ => pure ()
    for n in made do
      match rec_.snapOf n with
      | some sn => if !sn.valid then return some s!"action {idx}: memoised node n{n} became invalid"
      | none => pure ()
    idx := idx + 1
  return none

/-- the part of well-formedness that depends on what exists at run time: a variable action must name a
variable that exists (variables made by `scopedvar` inside bind closures are numbered as the closures run)
and whose handle has not been dropped.  Decided on the MODEL's run of the history. -/
def wellFormedDyn (h : History) : Verdict :=
  let env := h.defs.toEnv
  let init : RunState := { s := State.init h.maxHeight h.debug }
  let (_, bad) := h.actions.zipIdx.foldl (fun (acc : RunState × Option String) (a, i) =>
    match acc.2 with
    | some _ => acc
    | none =>
      let rs := acc.1
      let missing : Option String := match a with
        | .set v _ | .modify v _ | .update v _ | .replace v _ | .replaceWith v _ | .get v =>
          match rs.s.vars[v]? with
          | none => some s!"action {i}: no such var (yet)"
          | some vc => if vc.handles == 0 then some s!"action {i}: var handle dropped" else none
        | .dropVar v => if rs.s.vars[v]?.isNone then some s!"action {i}: no such var (yet)" else none
        | .create (.map f _) =>
          if (((h.defs.fns.lookup f).map (·.effects)).getD []).any (fun e => match e with
            | .setVar v _ | .modifyVar v _ | .updateVar v _ | .replaceVar v _ | .replaceWithVar v _ =>
              rs.s.vars[v]?.isNone
            | _ => false) then some s!"action {i}: effect of f{f} writes a variable that does not exist (yet)" else none
        | .subscribe _ hid =>
          if ((h.defs.hdls.lookup hid).getD []).any (fun e => match e with
            | .setVar v _ | .modifyVar v _ | .updateVar v _ | .replaceVar v _ | .replaceWithVar v _ =>
              rs.s.vars[v]?.isNone
            | _ => false) then some s!"action {i}: handler h{hid} writes a variable that does not exist (yet)" else none
        | _ => none
      match missing with
      | some m => (rs, some m)
      | none =>
        let (rs', lines) := traceAction env i a rs
        -- a node built inside a bind closure and handed out through a shared cell may only be made necessary while
        -- that bind is needed: the crate refuses otherwise with its own diagnostic (misuse, like a cycle)
        if lines.any (fun l => l.endsWith "api panic bind-not-necessary") then
          (rs', some s!"action {i}: a node of a bind that is not needed is made necessary (bind-not-necessary)")
        else (rs', none)) (init, none)
  bad

def hasScopedVar (h : History) : Bool :=
  h.defs.bodies.any fun (_, _, alts) => alts.any fun t => t.instrs.any fun i =>
    match i with | .scopedVar _ => true | _ => false

def evalProp (prop : String) (h : History) (tr : ImplTrace) : Verdict :=
  match prop with
  | "WF" => match wellFormed h with
    | some r => some r
    | none =>
      let hasDrop := h.defs.fns.any fun (_, d) => d.effects.any fun e => match e with | .dropVar _ => true | _ => false
      let usesCells := h.actions.any fun a => match a with
        | .observe (.slot _) => true
        | _ => false
      let cellEffects := h.defs.fns.any fun (_, d) => d.effects.any fun e => match e with
        | .xSel _ _ _ ts => ts.any fun t => match t with | .slot _ => true | _ => false
        | .xAdd _ (.slot _) _ => true
        | _ => false
      if hasScopedVar h || hasDrop || usesCells || cellEffects then wellFormedDyn h else none
  | "C01" => holdsC01 h tr
  | "C02" => holdsC02 h tr
  | "C03" => holdsC03 h tr
  | "C04" => holdsC04 h tr
  | "C05" => holdsC05 h tr
  | "C06" => holdsC06 h tr
  | "C07" => holdsC07 h tr
  | "C08" => holdsC08 h tr
  | "C10" => holdsC10 h tr
  | "C09" => holdsC09 h tr
  | "C11" => holdsC11 h tr
  | "C12" => holdsC12 h tr
  | "C13" => holdsC13 h tr
  | "C15" => holdsC15 h tr
  | "C16" => holdsC16 h tr
  | "C17" => holdsC17 h tr
  | "C20" => holdsC20 h tr
  | "C14" => holdsC14 h tr
  | "C19" => holdsC19 h tr
  | _ => some "unknown-property"

end IncrVerif.Spec
