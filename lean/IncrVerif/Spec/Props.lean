import IncrVerif.Spec.Trace
import IncrVerif.Spec.Denote
/-!
# Property predicates `holds_Cxx : History → ImplTrace → verdict`

Each predicate is a decidable statement about a history and a trace.  The driver evaluates it on the
*implementation's* trace (direct check); the theorems in `Props/` are about the same predicate on the
model's trace.  A verdict is `none` (holds) or `some reason`.
-/
namespace IncrVerif.Spec
open IncrVerif.Driver IncrVerif.Engine

/-- what the program text alone determines about handles: observers, tokens, variable values -/
structure Shadow where
  prog : RefProg
  /-- observer ↦ (node operand, clones, disallowed, created at action) -/
  obs : Array (Opnd × Nat × Bool × Nat) := #[]
  /-- token ↦ observer -/
  tokens : Array Nat := #[]
  nTop : Nat := 0

def Shadow.init (h : History) : Shadow :=
  { prog := { env := h.defs.toEnv,
              pureOld := fun g => match h.defs.olds.lookup g with | some .echo => true | _ => false } }

def addInt7 (x : Val) (d : Int) : Val := .int ((x.toInt + d) % 7)

/-- advance the shadow over one action, given what the implementation answered (`api`) -/
def Shadow.step (sh : Shadow) (a : Action) (idx : Nat) (api : String) : Shadow :=
  let ok := api.startsWith "ok"
  match a with
  | .create i =>
    match i with
    | .cutoff _ _ => sh
    | .var v =>
      { sh with prog := { sh.prog with nodes := sh.prog.nodes.push i,
                                       varOf := (sh.prog.nodes.size, sh.prog.vars.size) :: sh.prog.varOf,
                                       vars := sh.prog.vars.push v } }
    | _ => if ok then { sh with prog := { sh.prog with nodes := sh.prog.nodes.push i } } else sh
  | .observe n => { sh with obs := sh.obs.push (n, 1, false, idx) }
  | .cloneObs o => { sh with obs := sh.obs.modify o fun (n, c, d, k) => (n, c + 1, d, k) }
  | .dropObs o => { sh with obs := sh.obs.modify o fun (n, c, d, k) => (n, c - 1, d, k) }
  | .disallow o => { sh with obs := sh.obs.modify o fun (n, c, _, k) => (n, c, true, k) }
  | .subscribe o _ => if api.startsWith "ok t" then { sh with tokens := sh.tokens.push o } else sh
  | .set v x => { sh with prog := { sh.prog with vars := sh.prog.vars.modify v fun _ => x } }
  | .modify v d | .update v d | .replaceWith v d =>
    { sh with prog := { sh.prog with vars := sh.prog.vars.modify v fun x => addInt7 x d } }
  | .replace v x => { sh with prog := { sh.prog with vars := sh.prog.vars.modify v fun _ => x } }
  | _ => sh

def Shadow.inUse (sh : Shadow) (o : Nat) : Bool :=
  match sh.obs[o]? with
  | some (_, c, d, _) => c > 0 && !d
  | none => false

/-- features the reference semantics does not cover (effects of node functions on variables,
cutoffs that suppress unequal values, impure `map_with_old` machines, expert nodes): C01's proviso -/
def _root_.IncrVerif.Engine.History.c01Applicable (h : History) : Bool :=
  h.defs.fns.all (fun fd => fd.2.effects.isEmpty)
  && h.defs.hdls.all (fun hd => hd.2.isEmpty)
  && h.actions.all fun a => match a with
    | .create (.cutoff _ c) => c == .eq || c == .never
    | .create (.expert _) => false
    | .addDep .. => false
    | _ => true

def bodiesApplicable (h : History) : Bool :=
  h.defs.bodies.all fun b => b.2.2.all fun t => t.instrs.all fun i => match i with
    | .cutoff _ c => c == .eq || c == .never
    | .var _ => false
    | _ => true

abbrev Verdict := Option String

def denoteFuel : Nat := 400

/-- C01: after every completed stabilise each in-use observer reads the from-scratch value -/
def holdsC01 (h : History) (tr : ImplTrace) : Verdict := Id.run do
  if !(h.c01Applicable && bodiesApplicable h) then return none
  let mut sh := Shadow.init h
  let mut idx := 0
  for a in h.actions do
    let rec_ := tr[idx]?.getD {}
    sh := sh.step a idx rec_.api
    match a with
    | .stabilise =>
      if rec_.api == "ok" then
        for o in List.range sh.obs.size do
          if sh.inUse o then
            match sh.obs[o]? with
            | some (n, _, _, _) =>
              match denoteOpnd sh.prog denoteFuel [] n with
              | some v =>
                let got := (rec_.reads.lookup o).getD "missing"
                if got != "ok " ++ v.render then
                  return some s!"action {idx}: observer o{o} reads `{got}` but from-scratch evaluation gives {v.render}"
              | none => pure ()
            | none => pure ()
    | _ => pure ()
    idx := idx + 1
  return none

/-- C04: no public call panics (the history is well-formed by construction of the generator) -/
def holdsC04 (_h : History) (tr : ImplTrace) : Verdict := Id.run do
  let mut idx := 0
  for a in tr do
    if a.api.startsWith "panic" then return some s!"action {idx}: {a.api}"
    idx := idx + 1
  return none

/-- C11: the representation audit is silent after every action -/
def holdsC11 (_h : History) (tr : ImplTrace) : Verdict := Id.run do
  let mut idx := 0
  for a in tr do
    match a.audits with
    | m :: _ => return some s!"action {idx}: audit: {m}"
    | [] => pure ()
    idx := idx + 1
  return none

/-- events of the `notif` channel of one action: (token, kind, value) -/
def notifs (a : ActionRec) : List (Nat × String × String) :=
  a.evs.filterMap fun e =>
    match words e with
    | ["notif", t, k] => do pure ((← (t.drop 1).toString.toNat?), k, "")
    | ["notif", t, k, v] => do pure ((← (t.drop 1).toString.toNat?), k, v)
    | _ => none

/-- C09 (sequence part): per subscription, `Initialised` first and once, `Changed` only after it,
never a `Changed` carrying the value delivered just before when the node uses the default cutoff,
one `Invalidated` and nothing after; the delivered value is what the observer reads at that moment. -/
def holdsC09 (h : History) (tr : ImplTrace) : Verdict := Id.run do
  -- per token: (initialised, invalidated, last delivered value)
  let mut st : List (Nat × (Bool × Bool × String)) := []
  let mut sh := Shadow.init h
  let mut idx := 0
  -- nodes (by top-level operand) that carry a non-default cutoff
  let custom : List Opnd := h.actions.filterMap fun a => match a with
    | .create (.cutoff n c) => if c == .eq then none else some n
    | _ => none
  for a in h.actions do
    let rec_ := tr[idx]?.getD {}
    sh := sh.step a idx rec_.api
    for (t, k, v) in notifs rec_ do
      let (ini, inv, last) := (st.lookup t).getD (false, false, "")
      if inv then return some s!"action {idx}: t{t} got {k} after Invalidated"
      let o := sh.tokens[t]?.getD 0
      let node := (sh.obs[o]?.map (·.1)).getD (.abs 0)
      if k == "Initialised" then
        if ini then return some s!"action {idx}: t{t} got a second Initialised"
      else if k == "Changed" then
        if !ini then return some s!"action {idx}: t{t} got Changed before Initialised"
        if v == last && !(custom.contains node) then
          return some s!"action {idx}: t{t} got Changed({v}) but the value did not change"
      if k != "Invalidated" then
        let got := (rec_.reads.lookup o).getD "missing"
        if sh.inUse o && got != "ok " ++ v then
          return some s!"action {idx}: t{t} was given {v} but the observer reads `{got}`"
      st := (t, (ini || k == "Initialised", k == "Invalidated", if k == "Invalidated" then last else v))
              :: st.filter (·.1 != t)
    idx := idx + 1
  return none

def evalProp (prop : String) (h : History) (tr : ImplTrace) : Verdict :=
  match prop with
  | "C01" => holdsC01 h tr
  | "C04" => holdsC04 h tr
  | "C09" => holdsC09 h tr
  | "C11" => holdsC11 h tr
  | _ => some "unknown-property"

end IncrVerif.Spec
