import IncrVerif.MapOps.SymDiffRef
/-!
# C18: the decidable property predicate, evaluated both on the model's output (theorem
`Props.C18.holdsDiff_model`) and on the implementation's output (driver mode `pure-check`).
-/
namespace IncrVerif.Spec
open IncrVerif IncrVerif.MapOps

variable {α : Type} [DecidableEq α]

def ascending : List Int → Bool
  | [] => true
  | [_] => true
  | x :: y :: r => decide (x < y) && ascending (y :: r)

/-- `out` is a correct symmetric-diff visit of `a` and `b`:
every visited entry is what `classify` prescribes for its key, keys ascend strictly
(so none is visited twice), and no differing key is missing. -/
def holdsDiff (a b : AMap α) (out : List (Int × DiffElement α)) : Bool :=
  out.all (fun ke => classify a b ke.1 == some ke)
  && ascending (out.map (·.1))
  && (a.keys ++ b.keys).all (fun k => (classify a b k).isNone || (out.map (·.1)).contains k)

/-- first failing clause, for the replay file -/
def whyDiff (a b : AMap α) (out : List (Int × DiffElement α)) : String :=
  if !(out.all (fun ke => classify a b ke.1 == some ke)) then "visited-entry-wrong"
  else if !(ascending (out.map (·.1))) then "not-strictly-ascending"
  else if !((a.keys ++ b.keys).all (fun k => (classify a b k).isNone || (out.map (·.1)).contains k))
    then "differing-key-missed"
  else "ok"

/-- `out` is a correct ordered merge of the two key-ascending streams -/
def holdsMerge {β γ : Type} [DecidableEq β] [DecidableEq γ]
    (l : List (Int × β)) (r : List (Int × γ))
    (out : List (MergeElement (Int × β) (Int × γ))) : Bool :=
  ascending (out.map MergeElement.key)
  && out.all (fun e => match e with
      | .left x => l.contains x && !(r.map (·.1)).contains x.1
      | .right y => r.contains y && !(l.map (·.1)).contains y.1
      | .both x y => l.contains x && r.contains y && x.1 == y.1)
  && l.all (fun x => out.any (fun e => match e with
      | .left x' => x' == x | .both x' _ => x' == x | _ => false))
  && r.all (fun y => out.any (fun e => match e with
      | .right y' => y' == y | .both _ y' => y' == y | _ => false))

/-- merged keys, each once, ascending: what `MergeOnce` over key iterators must yield -/
def holdsKeyMerge (a b out : List Int) : Bool :=
  ascending out && out.all (fun k => a.contains k || b.contains k)
  && (a ++ b).all (fun k => out.contains k)

end IncrVerif.Spec
