import IncrVerif.Proofs.EffH16
/-!
# Effects, part 17 (V3): whole histories with subscriptions and write effects in functions and handlers
-/
namespace IncrVerif.Proofs.EffH
open IncrVerif.Engine IncrVerif.Driver IncrVerif.Proofs IncrVerif.Proofs.Step IncrVerif.Proofs.Sched
open IncrVerif.Proofs.Quiet

/-- the API actions of the fragment: the static actions and `subscribe`/`unsubscribe`/`stateUnsub`; user functions of
`map` nodes and update handlers may have effects (restricted by `WOnly env` and `WHandlers env`) -/
def WAction (env : Env) (a : Action) : Prop := SubsH.SubAction (noEff env) a

namespace P17
open P9

theorem pres_modNode (n f) : Step.Pres KeepC (modNode n f) := by
  unfold modNode; exact pres_mod fun _ => rfl

theorem pres_has (n) : Step.Pres KeepC (handleAfterStabilisation n) := by
  unfold handleAfterStabilisation
  qpres
  all_goals first | exact pres_modNode _ _ | exact pres_mod fun _ => rfl

theorem pres_subscribe (o h) : Step.Pres KeepC (subscribe o h) := by
  unfold subscribe
  qpres
  all_goals first
    | exact pres_getObs _
    | exact pres_modObs _ _
    | exact pres_modNode _ _
    | exact pres_has _
    | exact pres_mod fun _ => rfl

theorem pres_unsubscribe (o t w) : Step.Pres KeepC (unsubscribe o t w) := by
  unfold unsubscribe
  qpres
  all_goals first
    | exact pres_getObs _
    | exact pres_modObs _ _
    | exact pres_modNode _ _
    | exact pres_mod fun _ => rfl

end P17
open P9 P17

/-- the subscription actions do not touch the variables -/
theorem step_cells_sub {env : Env} {s s' : State} {a : Action} {tk : Array Nat} {r : String × Array Nat}
    (ha : match a with | .subscribe _ _ | .unsubscribe _ _ | .stateUnsub _ => True | _ => False)
    (hc : CellsOK s) (h : (stepAction env a tk).run.run s = (.ok r, s')) : CellsOK s' := by
  cases a <;> try exact ha.elim
  case subscribe o hid =>
    refine (Step.Pres.h (R := KeepC) ?_ _ _ _ h : KeepC s s') hc
    unfold stepAction
    dsimp only
    qpres
    all_goals exact pres_subscribe _ _
  case unsubscribe o t =>
    refine (Step.Pres.h (R := KeepC) ?_ _ _ _ h : KeepC s s') hc
    unfold stepAction
    dsimp only
    qpres
    all_goals exact pres_unsubscribe _ _ _
  case stateUnsub t =>
    refine (Step.Pres.h (R := KeepC) ?_ _ _ _ h : KeepC s s') hc
    unfold stepAction
    dsimp only
    qpres
    all_goals first | exact pres_unsubscribe _ _ _ | (apply Step.Pres.map; exact pres_unsubscribe _ _ _)

theorem uinve_init (env : Env) (N : Nat) (d : Bool) : UInvE env (State.init N d) :=
  ⟨SubsH.uinv_init (noEff env) N d, fun v c hc => by simp [State.init] at hc⟩

/-- **every action keeps the invariant** -/
theorem step_w {env : Env} (hw : WOnly env) (hH : WHandlers env) {s s' : State} {a : Action} {tk : Array Nat}
    {r : String × Array Nat} (U : UInvE env s) (ha : WAction env a)
    (h : (stepAction env a tk).run.run s = (.ok r, s')) : UInvE env s' := by
  by_cases hs : a = .stabilise
  · subst hs
    obtain ⟨t2, t3, X⟩ := stabilise_w hw hH U (step_stabilise h)
    exact X.inv
  · have hnd : ∀ e c cb, a ≠ .addDep e c cb := by
      intro e c cb heq; rw [heq] at ha; exact ha.elim
    have h0 := h
    rw [← stepAction_noEff env a tk hs hnd] at h0
    refine ⟨(SubsH.step_u U.u (pureHandlers_noEff env) ha h0).1, ?_⟩
    by_cases hsub : (match a with | .subscribe _ _ | .unsubscribe _ _ | .stateUnsub _ => True | _ => False)
    · exact step_cells_sub hsub U.cells h
    · have hst : StaticAction (noEff env) a := by
        cases a <;> first | exact ha | exact absurd trivial hsub
      exact step_cells hst hs U.u.core.status U.cells h0

theorem runActions_w {env : Env} (hw : WOnly env) (hH : WHandlers env) {acts : List Action} {s s' : State}
    {tk tk' : Array Nat} (U : UInvE env s) (ha : ∀ a, a ∈ acts → WAction env a)
    (h : runActions env acts s tk = .ok (s', tk')) : UInvE env s' := by
  induction acts generalizing s tk with
  | nil => simp only [runActions] at h; cases h; exact U
  | cons a as ih =>
    simp only [runActions] at h
    rcases hx : (stepAction env a tk).run.run s with ⟨_ | r, s1⟩
    · rw [hx] at h; cases h
    · rw [hx] at h
      exact ih (step_w hw hH U (ha a (List.mem_cons_self ..)) hx) (fun b hb => ha b (List.mem_cons_of_mem _ hb)) h

theorem history_w {env : Env} (hw : WOnly env) (hH : WHandlers env) {N : Nat} {d : Bool} {acts : List Action}
    {s : State} {tk : Array Nat} (ha : ∀ a, a ∈ acts → WAction env a)
    (h : runActions env acts (State.init N d) #[] = .ok (s, tk)) : UInvE env s :=
  runActions_w hw hH (uinve_init env N d) ha h

/-- at every `stabilise` of a history of the fragment, V3 holds -/
theorem history_stabilise_w {env : Env} (hw : WOnly env) (hH : WHandlers env) {N : Nat} {d : Bool}
    {as bs : List Action} {s : State} {tk : Array Nat}
    (ha : ∀ a, a ∈ as ++ Action.stabilise :: bs → WAction env a)
    (h : runActions env (as ++ Action.stabilise :: bs) (State.init N d) #[] = .ok (s, tk)) :
    ∃ s1 tk1 s2 t2 t3, runActions env as (State.init N d) #[] = .ok (s1, tk1) ∧ UInvE env s1 ∧
      (stabilise env fuelDefault).run.run s1 = (.ok (), s2) ∧ WStab env fuelDefault s1 t2 t3 s2 ∧
      runActions env bs s2 tk1 = .ok (s, tk) := by
  obtain ⟨s1, tk1, h1, h2⟩ := runActions_prefix h
  have U1 := history_w hw hH (fun a hm => ha a (List.mem_append_left _ hm)) h1
  simp only [runActions] at h2
  rcases hx : (stepAction env .stabilise tk1).run.run s1 with ⟨_ | r, s2⟩
  · rw [hx] at h2; cases h2
  · rw [hx] at h2
    have hst := step_stabilise hx
    obtain ⟨t2, t3, X⟩ := stabilise_w hw hH U1 hst
    have hr : r.2 = tk1 := by
      unfold stepAction at hx
      dsimp only at hx
      obtain ⟨u, sx, _, hp⟩ := bind_ok_inv hx
      obtain ⟨e, -⟩ := pure_ok_inv hp
      have := congrArg Prod.snd e
      first | exact this | exact this.symm
    dsimp only at h2
    rw [hr] at h2
    exact ⟨s1, tk1, s2, t2, t3, h1, U1, hst, X, h2⟩

/-! ## staleness, `isStable`, the fixed point -/

/-- `isStable` in a state satisfying the subscription invariant -/
theorem isStable_iffU {env : Env} {s : State} (Q : SubsH.QInv env s) :
    s.isStable = true ↔ (s.newObservers = [] ∧ ∀ m, s.isNecessary m = true → s.isStale m = false) := by
  have hq := Q.quiet
  unfold State.isStable
  rw [Q.deadVars]
  simp only [List.isEmpty_nil, Bool.and_true, Bool.and_eq_true, beq_iff_eq, List.isEmpty_iff]
  rw [heap_empty_iff hq.heap]
  constructor
  · rintro ⟨h1, h2⟩
    refine ⟨h2, fun m hm => ?_⟩
    cases hst : s.isStale m with
    | false => rfl
    | true => have := (hq.queued m).2 ⟨hm, hst⟩; rw [h1 m] at this; cases this
  · rintro ⟨h1, h2⟩
    refine ⟨fun m => ?_, h1⟩
    cases hq' : (s.nodeD m).inRch with
    | false => rfl
    | true =>
      obtain ⟨a, b⟩ := (hq.queued m).1 hq'
      rw [h2 m a] at b; cases b

/-- **a stable state reads the current variables** (with subscriptions) -/
theorem stable_readsU {env : Env} {s : State} (U : UInvE env s) (hs : s.isStable = true) :
    ∀ (o : Nat) (ob : ObsRec), s.observers[o]? = some ob → ob.state = .inUse →
      ∀ k, (s.nodeD ob.node).height.toNat < k →
        ∃ v, s.tryGetValue env o = .ok v ∧ eval env s k ob.node = some v := by
  have Q := U.u.core
  obtain ⟨hno, hall⟩ := (isStable_iffU Q).1 hs
  have hq := Q.quiet
  intro o ob ho hst k hk
  have hmem : o ∈ (s.nodeD ob.node).observers := (Q.obs.mem ob.node o).2 ⟨ob, ho, rfl, Or.inl hst⟩
  have hn : s.isNecessary ob.node = true := by
    rw [isNecessary_iff]; right; left; exact List.ne_nil_of_mem hmem
  have D := hq.toDrain
  have he : ({ s with status := .stabilising } : State).rch.length = 0 := by
    show s.rch.length = 0
    rw [heap_empty_iff hq.heap]
    intro m
    cases hq' : (s.nodeD m).inRch with
    | false => rfl
    | true =>
      obtain ⟨a, b⟩ := (hq.queued m).1 hq'
      rw [hall m a] at b; cases b
  obtain ⟨-, -, -, hv, hsome⟩ := drained_values D he ob.node hn k hk
  have e1 : eval (noEff env) ({ s with status := .stabilising } : State) k ob.node = eval env s k ob.node := by
    rw [eval_noEff]
    exact eval_congr (s := s) (s' := { s with status := .stabilising }) (fun _ => rfl) rfl k ob.node
  have hv' : s.value env ob.node = eval env s k ob.node := by
    rw [← e1, ← hv, value_noEff]
    exact (value_congr env s { s with status := .stabilising } rfl (fun _ => rfl) ob.node).symm
  have hsome' : (eval env s k ob.node).isSome = true := by rw [← e1]; exact hsome
  obtain ⟨v, hev⟩ := Option.isSome_iff_exists.1 hsome'
  refine ⟨v, ?_, hev⟩
  unfold State.tryGetValue
  rw [Q.alive, Q.status, ho]
  simp only [Bool.not_true, Bool.false_eq_true, if_false, hst]
  rw [hv', hev]
  rfl

/-- **the fixed-point corollary with handlers (partial correctness)** -/
theorem loop_fixpoint_w {env : Env} (hw : WOnly env) (hH : WHandlers env) {N : Nat} {d : Bool}
    {acts : List Action} {k : Nat} {s : State} {tk : Array Nat} (ha : ∀ a, a ∈ acts → WAction env a)
    (h : runActions env (acts ++ List.replicate k Action.stabilise) (State.init N d) #[] = .ok (s, tk))
    (hs : s.isStable = true) :
    ∀ (o : Nat) (ob : ObsRec), s.observers[o]? = some ob → ob.state = .inUse →
      ∀ j, (s.nodeD ob.node).height.toNat < j →
        ∃ v, s.tryGetValue env o = .ok v ∧ eval env s j ob.node = some v := by
  have U : UInvE env s := by
    refine history_w hw hH ?_ h
    intro a hm
    rcases List.mem_append.1 hm with hm | hm
    · exact ha a hm
    · rw [(List.mem_replicate.1 hm).2]; trivial
  exact stable_readsU U hs

/-- **staleness after a `stabilise` with function and handler writes**: a necessary node is stale afterwards iff it is
the watch node of a variable written by a function or a handler -/
theorem WStab.stale_iff {env : Env} {fuel : Nat} {s t2 t3 s' : State} (X : WStab env fuel s t2 t3 s') (m : Nat)
    (hm : s'.isNecessary m = true) :
    s'.isStale m = true ↔ ∃ v, (s'.nodeD m).kind = .var v ∧
      writesTo v (stepsWrites env (drainSteps env fuel t2) ++ writesOf (endEffs env t3)) ≠ [] := by
  have Q' := X.inv.u.core
  have g' := Q'.quiet.graph
  have D3 := X.drain.di.inv
  have hnode : ∀ c, (s'.nodeD c).kind = (t3.nodeD c).kind ∧ (s'.nodeD c).recomputedAt = (t3.nodeD c).recomputedAt ∧
      (s'.nodeD c).changedAt = (t3.nodeD c).changedAt ∧ s'.isNecessary c = t3.isNecessary c := by
    intro c
    obtain ⟨hh, e⟩ := X.mid.ended.node c
    refine ⟨by rw [e], by rw [e], by rw [e], ?_⟩
    simp only [State.isNecessary, Node.isNecessary, e]
  obtain ⟨e1, e5, -, e7⟩ := hnode m
  have hm3 : t3.isNecessary m = true := by rw [← e7]; exact hm
  have he3 := X.drained
  have gS := D3.graph
  have hsS : staleOf t3 m = false := by
    rw [← gS.isStale hm3]; exact (DrainInv.all_consistent D3 he3 m hm3).1
  have F := X.drain.dr.frame
  rw [g'.isStale hm]
  unfold staleOf at hsS ⊢
  rw [e1, e5]
  cases hk : (t3.nodeD m).kind with
  | var c =>
    rw [hk] at hsS
    simp only at hsS ⊢
    obtain ⟨vc3, hvc3⟩ := gS.var m c hm3 hk
    simp only [hvc3] at hsS
    obtain ⟨c0, hc0, hcp⟩ := e3_cell' F.vsize F.cell c vc3 hvc3
    have hvs : s.vars[c]? = some c0 := by rw [← X.startVars]; exact hc0
    rw [X.vars c c0 hvs]
    cases hw : writesTo c (stepsWrites env (drainSteps env fuel t2) ++ writesOf (endEffs env t3)) with
    | nil =>
      simp only [cellAfter]
      constructor
      · intro h
        rw [hcp.setAt] at hsS
        exact absurd (of_decide_eq_true h) (of_decide_eq_false hsS)
      · rintro ⟨v, hv, hne⟩
        cases hv
        exact absurd hw hne
    | cons f fs =>
      simp only [cellAfter]
      constructor
      · intro _; exact ⟨c, rfl, by rw [hw]; exact List.cons_ne_nil _ _⟩
      · intro _
        have h1 := (D3.stamps.node m).1
        have h2 : t3.stabNum = s.stabNum := by rw [F.stabNum, X.startStab]
        simp only [gt_iff_lt, decide_eq_true_eq]
        omega
  | const w =>
    rw [hk] at hsS
    simp only at hsS ⊢
    rw [hsS]
    constructor
    · intro h; cases h
    · rintro ⟨v, hv, -⟩; cases hv
  | map f args =>
    rw [hk] at hsS
    simp only at hsS ⊢
    have : ∀ c, (s'.nodeD c).changedAt = (t3.nodeD c).changedAt := fun c => (hnode c).2.2.1
    simp only [this]
    rw [hsS]
    constructor
    · intro h; cases h
    · rintro ⟨v, hv, -⟩; cases hv
  | fold f init cs =>
    rw [hk] at hsS
    simp only at hsS ⊢
    have : ∀ c, (s'.nodeD c).changedAt = (t3.nodeD c).changedAt := fun c => (hnode c).2.2.1
    simp only [this]
    rw [hsS]
    constructor
    · intro h; cases h
    · rintro ⟨v, hv, -⟩; cases hv
  | mapRef _ _ => exact absurd hk ((gS.nec m hm3).2.2.1.not_mapRef _ _)
  | mapWithOld _ _ => have := (gS.nec m hm3).2.2.1; rw [hk] at this; exact this.elim
  | bindLhsChange _ => have := (gS.nec m hm3).2.2.1; rw [hk] at this; exact this.elim
  | bindMain _ _ => have := (gS.nec m hm3).2.2.1; rw [hk] at this; exact this.elim
  | expert _ => have := (gS.nec m hm3).2.2.1; rw [hk] at this; exact this.elim

/-- **`isStable` after a `stabilise` with function and handler writes** -/
theorem WStab.isStable_iff {env : Env} {fuel : Nat} {s t2 t3 s' : State} (X : WStab env fuel s t2 t3 s') :
    s'.isStable = true ↔
      ∀ v, writesTo v (stepsWrites env (drainSteps env fuel t2) ++ writesOf (endEffs env t3)) ≠ [] →
        ∀ m, (s'.nodeD m).kind = .var v → s'.isNecessary m = false := by
  rw [isStable_iffU X.inv.u.core]
  constructor
  · rintro ⟨-, h⟩ v hv m hk
    cases hn : s'.isNecessary m with
    | false => rfl
    | true =>
      have := (X.stale_iff m hn).2 ⟨v, hk, hv⟩
      rw [h m hn] at this; cases this
  · intro h
    refine ⟨X.newObservers, fun m hm => ?_⟩
    cases hst : s'.isStale m with
    | false => rfl
    | true =>
      obtain ⟨v, hk, hv⟩ := (X.stale_iff m hm).1 hst
      rw [h v hv m hk] at hm; cases hm

end IncrVerif.Proofs.EffH
