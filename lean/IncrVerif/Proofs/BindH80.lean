import IncrVerif.Proofs.BindH61
import IncrVerif.Proofs.Quiet19
/-!
# Binds, part 4a (B4): the invariant BETWEEN API actions for programs with binds (fragment F1), and the fragment of actions

`QInv1 env s` is `Quiet.QInv` for graphs with binds: `Struct1` (the structural invariant at rest: heap = exactly the necessary stale nodes) + `F1Inv` + `VarsOK` + `ObsOK` +
stamps from earlier rounds + EVERY valid non-stale node satisfies its defining equation (`ConsistentB`) + nothing deferred.
-/
namespace IncrVerif.Proofs.BindH
open IncrVerif.Engine IncrVerif.Proofs IncrVerif.Proofs.Step IncrVerif.Proofs.Sched IncrVerif.Proofs.Quiet

structure QInv1 (env : Env) (s : State) : Prop where
  struct : Struct1 env s
  f1 : F1Inv env s
  vars : VarsOK s
  obs : ObsOK s
  /-- observers watch top-level nodes that are not change detectors -/
  obsTop : ∀ (o : Nat) (ob : ObsRec), s.observers[o]? = some ob →
    (s.nodeD ob.node).createdIn = .top ∧ ∀ b, (s.nodeD ob.node).kind ≠ .bindLhsChange b
  now : 0 ≤ s.stabNum
  stamps : ∀ m, (s.nodeD m).recomputedAt < s.stabNum ∧ (s.nodeD m).changedAt < s.stabNum
  varStamp : ∀ (c : Nat) (vc : VarCell), s.vars[c]? = some vc → vc.setAt ≤ s.stabNum
  cons : ∀ m, m < s.nodes.size → (s.nodeD m).valid = true → s.isStale m = false → ConsistentB env s m
  status : s.status = .notStabilising
  alive : s.alive = true
  setDuringStab : s.setDuringStab = []
  deadVars : s.deadVars = []
  handleAfterStab : s.handleAfterStab = []

/-! ## the fragment of programs -/

/-- operands of a closure of a bind created when the naming table had `T` entries, with `nloc` locals so far -/
def OpndF1 (T nloc : Nat) : Opnd → Prop
  | .outer k => k < T
  | .loc j => j < nloc
  | _ => False

def InstrF1 (env : Env) (T nloc : Nat) : Instr → Prop
  | .const _ => True
  | .lhsConst => True
  | .map f args => f < fnPerKey ∧ (f < fnZip → ∀ vals, env.fnEff f vals = []) ∧ ∀ a, a ∈ args → OpndF1 T nloc a
  | .fold _ _ cs => ∀ a, a ∈ cs → OpndF1 T nloc a
  | _ => False

/-- the closure `body` may be used by a bind created when the naming table had `T` entries: for every input value its template consists of `const`/`lhsConst`/
pure `map`/`fold` instructions over top-level nodes `n0 … n(T-1)` and earlier locals, and returns one of these -/
def BodyF1 (env : Env) (T body : Nat) : Prop :=
  ∀ v : Val, (∀ j i, (env.body body v).instrs[j]? = some i → InstrF1 env T j i) ∧
    OpndF1 T (env.body body v).instrs.length (env.body body v).ret

/-- top-level creation instructions of the fragment, when the naming table has `T` entries -/
def InstrTop (env : Env) (T : Nat) : Instr → Prop
  | .bind body lhs => (∃ k, lhs = .outer k) ∧ BodyF1 env T body
  | i => StaticInstr env i

/-- the API actions of the fragment, when the naming table has `T` entries -/
def ActionF1 (env : Env) (T : Nat) : Action → Prop
  | .create i => InstrTop env T i
  | .observe n => Quiet.OpndOK n
  | .cloneObs _ | .dropObs _ | .disallow _ => True
  | .set _ _ | .modify _ _ | .update _ _ | .replace _ _ | .replaceWith _ _ | .get _ => True
  | .stabilise | .isStable | .stats => True
  | _ => False

/-- a closure body that is fine for a table with `T` entries is fine for the state: the template condition of `F1Inv.closures` -/
theorem templOK_of_body {env : Env} {s : State} {T body lc : Nat} (hB : BodyF1 env T body) (hT : T ≤ s.top.size)
    (htop : ∀ (k r : Nat), k < T → s.top[k]? = some r → r < lc) (v : Val) :
    TemplOK env s lc (env.body body v) := by
  obtain ⟨h1, h2⟩ := hB v
  have hop : ∀ nloc o, OpndF1 T nloc o → BindH.OpndOK s lc nloc o := by
    intro nloc o ho
    cases o with
    | outer k =>
      have hk : k < s.top.size := Nat.lt_of_lt_of_le ho hT
      exact ⟨s.top[k], by rw [Array.getElem?_eq_getElem hk], htop k _ ho (by rw [Array.getElem?_eq_getElem hk])⟩
    | loc j => exact ho
    | abs _ => exact ho.elim
    | slot _ => exact ho.elim
  refine ⟨?_, hop _ _ h2⟩
  intro j i hj
  have := h1 j i hj
  cases i <;> first | exact this | exact this.elim | skip
  · exact ⟨this.1, this.2.1, fun a ha => hop _ _ (this.2.2 a ha)⟩
  · exact fun a ha => hop _ _ (this a ha)

end IncrVerif.Proofs.BindH
