import IncrVerif.Proofs.PerKeyH68
import IncrVerif.Proofs.PerKeyH8
import IncrVerif.Proofs.PerKeyH22
import IncrVerif.Proofs.PerKeyH43
/-!
# Per-key operators, a run of an expert node, part 2: from the run to `StepRelB` on the value-faithful virtual states

* `readyP`: field lemmas, `Fr`.
* `upd_of_ready`: the virtual state of a state in which the record of the current expert node has been reset is an
  `Upd` of the virtual state (generalisation of `ExpertH.ranState_upd`).
* `vKind_congr`: the kinds of `V` read `perkeys`, and `pk`/`children` of the records only.
* `xstep_rel`: one `recomputeOne` of an expert node of a per-key operator is the closure (`expertValue`, state unchanged)
  followed by `maybeChangeValue` from `readyP`, and is a `BindH.StepRelB` from `V s` to `V s'`.
-/
namespace IncrVerif.Proofs.PerKeyH
open IncrVerif.Engine IncrVerif.Driver IncrVerif.Proofs IncrVerif.Proofs.Step IncrVerif.Proofs.Sched
open IncrVerif.Proofs.ExpertH IncrVerif.Proofs.EffH IncrVerif.Proofs.DriverH IncrVerif.Proofs.Xp

/-! ## A. `readyP` -/

section
variable (env : Env) (n e : Nat) (s : State) (er : ExpertRec)

theorem readyP_nodes : (readyP env n e s er).nodes = (started n s).nodes := rfl
theorem readyP_nodeD (m : Nat) : (readyP env n e s er).nodeD m = (started n s).nodeD m := rfl
theorem readyP_experts : (readyP env n e s er).experts = s.experts.setIfInBounds e (readyRec env s er) := rfl
theorem readyP_perkeys : (readyP env n e s er).perkeys = s.perkeys := rfl
theorem readyP_size : (readyP env n e s er).nodes.size = s.nodes.size := by
  rw [readyP_nodes]; simp [started]
theorem readyP_kind (m : Nat) : ((readyP env n e s er).nodeD m).kind = (s.nodeD m).kind := by
  rw [readyP_nodeD, started_nodeD]; split <;> rfl
theorem readyP_value (m : Nat) : ((readyP env n e s er).nodeD m).value = (s.nodeD m).value := by
  rw [readyP_nodeD, started_nodeD]; split <;> rfl
theorem readyP_valid (m : Nat) : ((readyP env n e s er).nodeD m).valid = (s.nodeD m).valid := by
  rw [readyP_nodeD, started_nodeD]; split <;> rfl

theorem readyP_get_ne {e' : Nat} (h : e' ≠ e) : (readyP env n e s er).experts[e']? = s.experts[e']? := by
  rw [readyP_experts]; simp [Ne.symm h]

end

theorem readyP_get (env : Env) (n : Nat) {e : Nat} {s : State} {er : ExpertRec} (h : s.experts[e]? = some er) :
    (readyP env n e s er).experts[e]? = some (readyRec env s er) := by
  rw [readyP_experts]; exact Xp.getElem?_set_self _ _ _ _ h

theorem readyP_fr {env : Env} {n e : Nat} {s : State} {er : ExpertRec} (hF : Fr s)
    (he : s.experts[e]? = some er) : Fr (readyP env n e s er) := by
  obtain ⟨_, _, _, _, _, _, _, f8, _⟩ := Xp.readyRec_fields env s er
  refine ⟨hF.pc, fun m => ?_, hF.pinv, fun m => ?_, fun e' er' h' => ?_⟩
  · rw [readyP_valid]; exact hF.valid m
  · rw [readyP_kind]; exact hF.kind m
  · by_cases h : e' = e
    · subst h
      rw [readyP_get env n he] at h'; cases h'
      rw [f8]; exact hF.ni _ _ he
    · rw [readyP_get_ne env n e s er h] at h'; exact hF.ni _ _ h'

/-- the twin of a state of the frame fragment is in the frame fragment -/
theorem fr_twL (l : List Event) {s : State} (h : Fr s) : Fr (twL l s) where
  pc := h.pc
  valid m := by rw [twL_nodeD, twNode_valid]; exact h.valid m
  pinv := h.pinv
  kind m := by rw [twL_nodeD, twNode_kind, XK_twKind]; exact h.kind m
  ni e er' he := by
    rw [twL_experts_getElem?] at he
    cases hx : s.experts[e]? with
    | none => rw [hx] at he; cases he
    | some er => rw [hx] at he; cases he; exact h.ni e er hx

/-! ## B. expert nodes and records name each other -/

theorem PFrag.xinj {env : Env} {s : State} (F : PFrag env s) {m n e : Nat} (hm : (s.nodeD m).kind = .expert e)
    (hn : (s.nodeD n).kind = .expert e) : m = n := by
  have lt : ∀ k, (s.nodeD k).kind = .expert e → k < s.nodes.size := by
    intro k hk
    apply Classical.byContradiction
    intro hge
    rw [nodeD_default_of_ge s k (by omega)] at hk
    cases hk
  obtain ⟨er1, h1, h2⟩ := F.xrec m e (lt m hm) hm
  obtain ⟨er2, h3, h4⟩ := F.xrec n e (lt n hn) hn
  rw [h1] at h3; cases h3
  rw [← h2, h4]

/-! ## C. `Upd` of the virtual states -/

/-- the virtual state of `W'` = `W` with the current expert node stamped and its record reset (same closure id and
dependency list, `forceStale` down) is an `Upd` of the virtual state of `W` -/
theorem upd_of_ready {E : Env} {n e : Nat} {W W' : State} {er r : ExpertRec} (F : XFrag E W) (hlt : n < W.nodes.size)
    (hk : (W.nodeD n).kind = .expert e) (he : W.experts[e]? = some er)
    (hnode : ∀ m, W'.nodeD m = (started n W).nodeD m) (hsize : W'.nodes.size = W.nodes.size)
    (hself : W'.experts[e]? = some r) (hother : ∀ e', e' ≠ e → W'.experts[e']? = W.experts[e']?)
    (hf : r.f = er.f) (hc : r.children = er.children) (hfs : r.forceStale = false)
    (hvars : W'.vars = W.vars) (hstab : W'.stabNum = W.stabNum) (hpc : W'.panicCountdown = none)
    (hrch : W'.rch = W.rch) :
    Upd n (virt W) (virt W') ∧
      (virt W').nodeD n = { virtNode W.experts (W.nodeD n) with recomputedAt := W.stabNum } := by
  have hselfN : (virt W').nodeD n = { virtNode W.experts (W.nodeD n) with recomputedAt := W.stabNum } := by
    rw [virt_nodeD, hnode, started_nodeD, if_pos ⟨rfl, hlt⟩]
    have hr := xRec_some hself
    have hr0 := xRec_some he
    generalize W.nodeD n = nd at hk ⊢
    rcases nd with ⟨k⟩
    simp only at hk
    subst hk
    simp only [virtNode, virtKind, ExpertH.forced, hr, hr0, hf, hc, hfs]
    rfl
  have hotherN : ∀ m, m ≠ n → (virt W').nodeD m = (virt W).nodeD m := by
    intro m hm
    rw [virt_nodeD, virt_nodeD, hnode, started_nodeD, if_neg (fun h => hm h.1.symm)]
    apply virtNode_congr
    intro e' hk'
    have hne : e' ≠ e := by
      intro h; subst h; exact hm (F.xinj hk' hk)
    unfold xRec
    rw [hother e' hne]
  refine ⟨⟨?_, hvars, hstab, hpc, hrch, hotherN, ?_, ?_⟩, hselfN⟩
  · rw [virt_size, virt_size, hsize]
  · rw [hselfN, virt_nodeD]; exact ⟨rfl, rfl, rfl, rfl, rfl, rfl, rfl, rfl⟩
  · rw [hselfN, virt_nodeD]

/-! ## D. the kinds of `V` -/

theorem vKind_congr {s s' : State} (hp : s'.perkeys = s.perkeys)
    (hx : ∀ e, (xRec s'.experts e).pk = (xRec s.experts e).pk ∧
      (xRec s'.experts e).children = (xRec s.experts e).children ∧ (xRec s'.experts e).f = (xRec s.experts e).f)
    (k : Kind) : vKind s' k = vKind s k := by
  cases k <;> try rfl
  rename_i e
  simp only [vKind, pkRec, hp, (hx e).1, (hx e).2.1, (hx e).2.2]

/-- along `XF` the records keep what the kinds of `V` read -/
theorem xs_xRec_of_xf {s s' : State} (h : XF s s') (e : Nat) :
    (xRec s'.experts e).pk = (xRec s.experts e).pk ∧
      (xRec s'.experts e).children = (xRec s.experts e).children ∧ (xRec s'.experts e).f = (xRec s.experts e).f ∧
      (xRec s'.experts e).forceStale = (xRec s.experts e).forceStale ∧
      (xRec s'.experts e).node = (xRec s.experts e).node := by
  cases he : s.experts[e]? with
  | none => rw [xRec_none he, xRec_none (h.xnone he)]; exact ⟨rfl, rfl, rfl, rfl, rfl⟩
  | some er =>
    obtain ⟨er', he', h1, h2, h3, h4, h5⟩ := h.xrec he
    rw [xRec_some he, xRec_some he']
    exact ⟨h4, h3, h1, h5, h2⟩

/-- the records of `readyP` keep what the kinds of `V` read -/
theorem xRec_readyP (env : Env) (n : Nat) {e : Nat} {s : State} {er : ExpertRec} (he : s.experts[e]? = some er)
    (e' : Nat) :
    (xRec (readyP env n e s er).experts e').pk = (xRec s.experts e').pk ∧
      (xRec (readyP env n e s er).experts e').children = (xRec s.experts e').children ∧
      (xRec (readyP env n e s er).experts e').f = (xRec s.experts e').f ∧
      (xRec (readyP env n e s er).experts e').node = (xRec s.experts e').node := by
  by_cases h : e' = e
  · subst h
    obtain ⟨f1, f2, f3, _, _, f6, _, _, _⟩ := Xp.readyRec_fields env s er
    rw [xRec_some (readyP_get env n he), xRec_some he]
    exact ⟨f6, f3, f1, f2⟩
  · unfold xRec
    rw [readyP_get_ne env n e s er h]
    exact ⟨rfl, rfl, rfl, rfl⟩

/-! ## E. the closure does not change the state -/

theorem expertValue_state {env : Env} {e : Nat} {d sl : List (Option Val)} {S S1 : State} {v : Val}
    (h : (expertValue env e d sl).run.run S = (.ok v, S1)) : S1 = S := by
  cases he : S.experts[e]? with
  | none =>
    unfold expertValue at h
    rw [run_bind, Xp.run_getExpert, he] at h
    cases h
  | some er =>
    cases hpk : er.pk with
    | none =>
      rw [Xp.expertValue_run env d sl he hpk] at h
      cases h; rfl
    | some p =>
      obtain ⟨op, ko⟩ := p
      cases ko with
      | none =>
        rw [PerKey.expertValue_result env e d sl S er op he hpk] at h
        cases h; rfl
      | some key =>
        rw [PerKey.expertValue_input env e d sl S er op key he hpk] at h
        split at h
        · cases h; rfl
        · cases h

/-! ## F. the step -/

/-- **one `recomputeOne` of an expert node of a per-key operator**: the closure runs in `readyP` (state unchanged),
then `maybeChangeValue`; on the value-faithful virtual states this is a `StepRelB` -/
theorem xstep_rel {env : Env} {fuel n e : Nat} {s s' : State} {r : Option Nat} (D : PD env s (some n))
    (hk : (s.nodeD n).kind = .expert e)
    (h : (recomputeOne env fuel n).run.run s = (.ok r, s')) :
    ∃ (er : ExpertRec) (v : Val) (ch : Bool),
      s.experts[e]? = some er ∧ er.node = n ∧
      (expertValue env e (depValsOf env s (readyRec env s er)) (slotValsOf (readyRec env s er))).run.run
        (readyP env n e s er) = (.ok v, readyP env n e s er) ∧
      (maybeChangeValue env fuel n v).run.run (readyP env n e s er) = (.ok r, s') ∧ Fr s' ∧
      BindH.StepRelB n v ch r (V s) (V s') := by
  have I := D.inv
  have A := D.aux
  have F := A.frag
  obtain ⟨hnecV, hltV, -, -, -⟩ := I.cur_facts
  have hlt : n < s.nodes.size := by rw [← V_size]; exact hltV
  have frs : Fr s := fr_of_pfrag F A.pinv
  obtain ⟨er, he, hnode⟩ := F.xrec n e hlt hk
  obtain ⟨hpk, hni, hf0⟩ := F.xok e er he
  have hx : Xp.IsExpert s n (s.nodeD n) e er := ⟨some_of_lt hlt, F.valid n hlt, hk, he⟩
  have hpk' : er.pk.isNone = false := by
    cases hp : er.pk with
    | none => rw [hp] at hpk; cases hpk
    | some _ => rfl
  rw [xs_recomputeOne_pk_run env fuel n hx hpk' (by omega)] at h
  obtain ⟨v, T1, hv, hrun⟩ := bind_ok_inv h
  have hT1 := expertValue_state hv
  subst hT1
  -- the twin
  have frT : Fr (readyP env n e s er) := readyP_fr frs he
  obtain ⟨⟨l', htw⟩, fr'⟩ := TSim.maybeChangeValue env fuel n v (readyP env n e s er) frT [] r s' hrun
  obtain ⟨hvirt, -⟩ := Sim.maybeChangeValue (twEnv env) fuel n v _ (fr_twL [] frT) r _ htw
  -- the structure of the virtual twin
  have K := kin_twin_V [] s
  have skV := sk_V F
  have skW := sk_virt_twin [] F
  have gW : BindH.BGraph (virtEnv (twEnv env)) (virt (twL [] s)) := K.symm.bgraph I.graph skV skW
  have hiW : HeapInv (virt (twL [] s)) := K.symm.heapInv I.heap
  have hnecW : (virt (twL [] s)).isNecessary n = true := by rw [K.symm.isNecessary]; exact hnecV
  obtain ⟨f1, f2, f3, _, _, f6, f7, f8, f9⟩ := Xp.readyRec_fields env s er
  have XW := xfrag_twin [] F
  obtain ⟨hU, hself⟩ := upd_of_ready (E := twEnv env) (n := n) (e := e) (W := twL [] s)
    (W' := twL [] (readyP env n e s er)) (er := twRec er) (r := twRec (readyRec env s er)) XW
    (by rw [twL_size]; exact hlt) (by rw [twL_nodeD, twNode_kind, hk]; rfl)
    (by rw [twL_experts_getElem?, he]; rfl)
    (fun m => by
      rw [twL_nodeD, readyP_nodeD, started_nodeD, started_nodeD, twL_size, twL_nodeD]
      split <;> rfl)
    (by rw [twL_size, twL_size, readyP_size])
    (by rw [twL_experts_getElem?, readyP_get env n he]; rfl)
    (fun e' he' => by rw [twL_experts_getElem?, twL_experts_getElem?, readyP_get_ne env n e s er he'])
    f1 f3 f7 rfl rfl F.pc rfl
  obtain ⟨ch, R⟩ := BindH.BS.mcv_stepB gW hiW hnecW hU rfl (by rw [hself, virt_nodeD])
    (by rw [hself]; rfl) (by rw [hself, virt_nodeD]) hvirt
  -- back to `V`
  have hxf : XF (readyP env n e s er) s' := (PresX.maybeChangeValue env fuel n v).h _ _ _ hrun
  have hpkeys : s'.perkeys = s.perkeys :=
    (KQ.maybeChangeValue env fuel n v).h (readyP env n e s er) _ _ hrun
  have hkinds : ∀ m, ((V s').nodeD m).kind = ((V s).nodeD m).kind := by
    intro m
    rw [V_kind, V_kind, hxf.kind, readyP_kind]
    apply vKind_congr hpkeys
    intro e'
    obtain ⟨a1, a2, a3, -, -⟩ := xs_xRec_of_xf hxf e'
    obtain ⟨b1, b2, b3, -⟩ := xRec_readyP env n he e'
    exact ⟨a1.trans b1, a2.trans b2, a3.trans b3⟩
  have R' := K.stepRelB (kin_twin_V l' s') (KK.of_all hkinds) skW skV R
  exact ⟨er, v, ch, he, hnode, hv, hrun, fr', R'⟩

end IncrVerif.Proofs.PerKeyH
