import IncrVerif.Proofs.BindH4
/-!
# Binds, part 3b: basic lemmas about `Below`, heights, staleness in a `BGraph`
-/
namespace IncrVerif.Proofs.BindH
open IncrVerif.Engine IncrVerif.Proofs IncrVerif.Proofs.Step IncrVerif.Proofs.Sched

/-! ## `Below` -/

theorem Below.trans {s : State} {a b c : Nat} (h1 : Below s a b) (h2 : Below s b c) : Below s a c := by
  induction h1 with
  | refl => exact h2
  | step he _ ih => exact Below.step he (ih h2)

theorem Below.of_edge {s : State} {a c : Nat} (h : Edge s a c) : Below s a c := Below.step h (Below.refl c)

theorem Below.snoc {s : State} {a b c : Nat} (h1 : Below s a b) (h2 : Edge s b c) : Below s a c :=
  h1.trans (Below.of_edge h2)

theorem Below.cases_ne {s : State} {a d : Nat} (h : Below s a d) (hne : a ≠ d) :
    ∃ c, Edge s a c ∧ Below s c d := by
  cases h with
  | refl => exact absurd rfl hne
  | step he h2 => exact ⟨_, he, h2⟩

/-- edges only leave existing nodes -/
theorem Edge.lt_size {s : State} {a c : Nat} (h : Edge s a c) : a < s.nodes.size := by
  false_or_by_contra
  rename_i hn
  have hd : s.nodeD a = default := nodeD_default_of_ge s a (by omega)
  cases h with
  | child hc =>
    unfold State.children at hc
    rw [hd] at hc
    cases hc
  | scope hv hsc hb => rw [hd] at hsc; cases hsc

/-- edges only leave valid nodes -/
theorem Edge.valid {s : State} {a c : Nat} (h : Edge s a c) : (s.nodeD a).valid = true := by
  cases h with
  | child hc =>
    cases hv : (s.nodeD a).valid with
    | true => rfl
    | false =>
      unfold State.children Node.kind? at hc
      rw [hv] at hc
      cases hc
  | scope hv _ _ => exact hv

namespace BGraph
variable {env : Env} {s : State}

theorem rank_le (g : BGraph env s) : ∃ rk : Nat → Nat, (∀ a c, Edge s a c → rk c < rk a) ∧
    ∀ a d, Below s a d → rk d ≤ rk a := by
  obtain ⟨rk, hrk⟩ := g.acyc
  refine ⟨rk, hrk, ?_⟩
  intro a d h
  induction h with
  | refl => exact Nat.le_refl _
  | step he _ ih => have := hrk _ _ he; omega

/-- no cycles -/
theorem no_cycle (g : BGraph env s) {a d : Nat} (h : Below s a d) (he : Edge s d a) : False := by
  obtain ⟨rk, h1, h2⟩ := g.rank_le
  have := h1 _ _ he
  have := h2 _ _ h
  omega

theorem edge_ne (g : BGraph env s) {a c : Nat} (he : Edge s a c) : a ≠ c := by
  intro e
  subst e
  exact g.no_cycle (Below.refl a) he

/-- along an edge from a necessary node: the target is necessary and strictly lower -/
theorem edge_nec (g : BGraph env s) {a c : Nat} (hn : s.isNecessary a = true) (he : Edge s a c) :
    s.isNecessary c = true ∧ (s.nodeD c).height < (s.nodeD a).height := by
  cases he with
  | child hc =>
    obtain ⟨i, hi, e⟩ := List.mem_iff_getElem.1 hc
    have h := g.child a hn i c (by rw [List.getElem?_eq_getElem hi, e])
    exact ⟨h.1, h.2.2⟩
  | scope hv hsc hb =>
    rename_i b br
    have hlt : a < s.nodes.size := by
      false_or_by_contra
      rename_i hn'
      rw [State.isNecessary, nodeD_default_of_ge s a (by omega)] at hn; cases hn
    obtain ⟨br', hb', -, -, h⟩ := g.scope a b hlt hv hsc
    rw [hb] at hb'; cases hb'
    exact h hn

theorem below_nec (g : BGraph env s) {a d : Nat} (h : Below s a d) (hn : s.isNecessary a = true) :
    s.isNecessary d = true ∧ (s.nodeD d).height ≤ (s.nodeD a).height := by
  induction h with
  | refl => exact ⟨hn, Int.le_refl _⟩
  | step he _ ih =>
    obtain ⟨h1, h2⟩ := g.edge_nec hn he
    obtain ⟨h3, h4⟩ := ih h1
    exact ⟨h3, by omega⟩

theorem below_lt (g : BGraph env s) {a d : Nat} (h : Below s a d) (hn : s.isNecessary a = true) (hne : a ≠ d) :
    (s.nodeD d).height < (s.nodeD a).height := by
  obtain ⟨c, he, h2⟩ := h.cases_ne hne
  obtain ⟨h1, hlt⟩ := g.edge_nec hn he
  have := (g.below_nec h2 h1).2
  omega

theorem nec_lt (_g : BGraph env s) {n : Nat} (hn : s.isNecessary n = true) : n < s.nodes.size := by
  false_or_by_contra
  rename_i h
  rw [State.isNecessary, nodeD_default_of_ge s n (by omega)] at hn; cases hn

/-- the target of an edge is a valid node of the state -/
theorem edge_target (g : BGraph env s) {a c : Nat} (he : Edge s a c) :
    c < s.nodes.size ∧ (s.nodeD c).valid = true := by
  have ha := he.lt_size
  have hv := he.valid
  cases he with
  | child hc => exact (g.node a ha hv).2.2 c hc
  | scope hv2 hsc hb =>
    rename_i b br
    obtain ⟨br', hb', h1, h2, -⟩ := g.scope a b ha hv2 hsc
    rw [hb] at hb'; cases hb'
    exact ⟨h1, h2⟩

/-- stored value = observed value, for valid nodes -/
theorem value_plain (g : BGraph env s) {n : Nat} (hlt : n < s.nodes.size) (hv : (s.nodeD n).valid = true) :
    s.value env n = (s.nodeD n).value := by
  apply Step.value_plain env s n
  intro p i e
  have := (g.node n hlt hv).1
  rw [e] at this
  exact this

end BGraph

/-! ## staleness -/

/-- a valid node with a child stamped after its own last recomputation is stale -/
theorem isStale_of_child {env : Env} {s : State} {m c : Nat} (hv : (s.nodeD m).valid = true)
    (hk : BKind env (s.nodeD m).kind) (hc : c ∈ s.children m)
    (h : (s.nodeD c).changedAt > (s.nodeD m).recomputedAt) : s.isStale m = true := by
  have hany : ((s.children m).any fun c => decide ((s.nodeD c).changedAt > (s.nodeD m).recomputedAt)) = true := by
    rw [List.any_eq_true]
    exact ⟨c, hc, by simpa using h⟩
  have hch : s.children m ≠ [] := List.ne_nil_of_mem hc
  unfold State.isStale
  simp only [hany, Node.kind?, hv, if_true, Bool.or_true]
  cases hkd : (s.nodeD m).kind <;> rw [hkd] at hk <;> try rfl
  all_goals first
    | exact hk.elim
    | (exfalso; apply hch; unfold State.children Node.kind?; rw [hv, hkd]; rfl)

/-- a node recomputed in this round, none of whose inputs has a later stamp, is not stale -/
theorem isStale_fresh {env : Env} {s : State} {m : Nat} (hk : BKind env (s.nodeD m).kind)
    (h0 : 0 ≤ s.stabNum) (hr : (s.nodeD m).recomputedAt = s.stabNum)
    (hv : ∀ (c : Nat) (vc : VarCell), s.vars[c]? = some vc → vc.setAt ≤ s.stabNum)
    (hc : ∀ c, (s.nodeD c).changedAt ≤ s.stabNum) : s.isStale m = false := by
  have hne : (s.stabNum == -1) = false := by
    simp only [beq_eq_false_iff_ne, ne_eq]; omega
  have hany : ∀ l : List Nat, (l.any fun c => decide ((s.nodeD c).changedAt > s.stabNum)) = false := by
    intro l
    rw [List.any_eq_false]
    intro c _
    have := hc c
    simp only [gt_iff_lt, decide_eq_true_eq]; omega
  unfold State.isStale
  simp only [hr, hany, hne, Bool.or_false]
  cases hvv : (s.nodeD m).valid
  · simp [Node.kind?, hvv]
  · simp only [Node.kind?, hvv, if_true]
    cases hkd : (s.nodeD m).kind <;> rw [hkd] at hk <;> try rfl
    · rename_i c
      simp only
      cases hvc : s.vars[c]? with
      | none => rfl
      | some vc =>
        have := hv c vc hvc
        simp only [gt_iff_lt, decide_eq_false_iff_not]; omega
    all_goals exact hk.elim

/-- what staleness reads -/
theorem isStale_congr {env : Env} {s s' : State} {m : Nat} (hB : BKind env (s.nodeD m).kind)
    (hk : (s'.nodeD m).kind = (s.nodeD m).kind) (hv : (s'.nodeD m).valid = (s.nodeD m).valid)
    (hr : (s'.nodeD m).recomputedAt = (s.nodeD m).recomputedAt)
    (hvars : ∀ c : Nat, s'.vars[c]? = s.vars[c]?)
    (hch : s'.children m = s.children m)
    (hc : ∀ c, c ∈ s.children m → (s'.nodeD c).changedAt = (s.nodeD c).changedAt) :
    s'.isStale m = s.isStale m := by
  unfold State.isStale
  simp only [hch, Node.kind?, hk, hv, hr]
  have hany : ((s.children m).any fun c => decide ((s'.nodeD c).changedAt > (s.nodeD m).recomputedAt)) =
      ((s.children m).any fun c => decide ((s.nodeD c).changedAt > (s.nodeD m).recomputedAt)) := by
    apply any_congr'
    intro a ha
    rw [hc a ha]
  rw [hany]
  cases hvv : (s.nodeD m).valid
  · rfl
  · simp only [if_true]
    cases h : (s.nodeD m).kind <;> rw [h] at hB <;> first | rfl | exact False.elim hB | skip
    rename_i c
    simp only [hvars c]

/-- an invalid node is not stale -/
theorem isStale_invalid {s : State} {m : Nat} (hv : (s.nodeD m).valid = false) : s.isStale m = false := by
  unfold State.isStale
  simp [Node.kind?, hv]

/-- stale nodes are valid nodes of the state -/
theorem valid_of_isStale {s : State} {m : Nat} (h : s.isStale m = true) : (s.nodeD m).valid = true := by
  cases hv : (s.nodeD m).valid with
  | true => rfl
  | false => rw [isStale_invalid hv] at h; cases h

/-- staleness is monotone: same own stamp, same children, children's stamps only grew -/
theorem isStale_mono {env : Env} {s s' : State} {m : Nat} (hB : BKind env (s.nodeD m).kind)
    (hk : (s'.nodeD m).kind = (s.nodeD m).kind) (hv : (s'.nodeD m).valid = (s.nodeD m).valid)
    (hr : (s'.nodeD m).recomputedAt = (s.nodeD m).recomputedAt)
    (hvars : ∀ c : Nat, s'.vars[c]? = s.vars[c]?)
    (hch : s'.children m = s.children m)
    (hc : ∀ c, c ∈ s.children m → (s.nodeD c).changedAt ≤ (s'.nodeD c).changedAt)
    (h : s.isStale m = true) : s'.isStale m = true := by
  have hvv := valid_of_isStale h
  unfold State.isStale at h ⊢
  simp only [hch, Node.kind?, hk, hv, hr, hvv, if_true] at h ⊢
  have hany : ((s.children m).any fun c => decide ((s.nodeD c).changedAt > (s.nodeD m).recomputedAt)) = true →
      ((s.children m).any fun c => decide ((s'.nodeD c).changedAt > (s.nodeD m).recomputedAt)) = true := by
    intro h1
    rw [List.any_eq_true] at h1 ⊢
    obtain ⟨c, hc1, hc2⟩ := h1
    refine ⟨c, hc1, ?_⟩
    have := hc c hc1
    simp only [gt_iff_lt, decide_eq_true_eq] at hc2 ⊢
    omega
  cases hkd : (s.nodeD m).kind <;> rw [hkd] at hB h <;> simp only at h ⊢ <;>
    first
    | exact False.elim hB
    | exact h
    | (rw [hvars]; exact h)
    | (rw [Bool.or_eq_true] at h ⊢; rcases h with h | h
       · exact Or.inl h
       · exact Or.inr (hany h))

end IncrVerif.Proofs.BindH
