import IncrVerif.Proofs.DriverH39
/-!
# Drivers, D3: a raised `forceStale` flag on a node that is needed at the end FORCES a recompute of that node

`expertMakeStale x` and every `xAdd`/`xRm`/`xSel` edit raise the flag `forceStale` of the record of the expert node `x`;
only `recomputeOne` on `x` itself resets it.

* `FS n s s'`: the frame of one step (`n`: the node the step runs, if any): a raised flag survives unless the step is
  the recompute of the flag's own node.  `FSL l s s'`: the same along a list `l` of run nodes.
* `fs_step`, `fs_pop`, `fs_chain`, `fs_drain`: the frame along `recomputeOne`, `rchRemoveMin`, `recompute`, `drainHeap`.
* `make_stale_forces`: from any state of a drain with no current node in which the flag of `x` is up: if `x` is needed at
  the end of the drain, `x` runs in (the rest of) the drain.
* `make_stale_next_stabilise` (`_phases`: with the four phases of the `stabilise` spelled out): the flag up when a
  `stabilise` starts, `x` needed when it ends: `x` runs in the drain of this `stabilise` (exactly once: the trace has no
  duplicates).
-/
namespace IncrVerif.Proofs.DriverH
open IncrVerif.Engine IncrVerif.Driver IncrVerif.Proofs IncrVerif.Proofs.Step IncrVerif.Proofs.Sched
open IncrVerif.Proofs.ExpertH IncrVerif.Proofs.ExpertH.QR IncrVerif.Proofs.EffH

/-! ## the frame of the flags -/

/-- a raised flag survives a step unless the step is the recompute of the flag's own node -/
def FS (n : Option Nat) (s s' : State) : Prop :=
  ∀ (e : Nat) (er : ExpertRec), s.experts[e]? = some er → er.forceStale = true → n ≠ some er.node →
    ∃ er', s'.experts[e]? = some er' ∧ er'.forceStale = true ∧ er'.node = er.node

/-- a raised flag survives the runs of the nodes of `l` unless its own node is in `l` -/
def FSL (l : List Nat) (s s' : State) : Prop :=
  ∀ (e : Nat) (er : ExpertRec), s.experts[e]? = some er → er.forceStale = true → er.node ∉ l →
    ∃ er', s'.experts[e]? = some er' ∧ er'.forceStale = true ∧ er'.node = er.node

theorem FS.refl (n : Option Nat) (s : State) : FS n s s := fun _ er he hf _ => ⟨er, he, hf, rfl⟩

theorem FS.weaken {s s' : State} (h : FS none s s') (n : Option Nat) : FS n s s' :=
  fun e er he hf _ => h e er he hf (fun h => by cases h)

theorem FS.of_xf {s s' : State} (h : XF s s') (n : Option Nat) : FS n s s' := by
  intro e er he hf _
  obtain ⟨er', he', -, hn, -, -, hfs⟩ := h.xrec he
  exact ⟨er', he', hfs.trans hf, hn⟩

theorem FSL.refl (s : State) : FSL [] s s := fun _ er he hf _ => ⟨er, he, hf, rfl⟩

theorem FSL.of_none {s s' : State} (h : FS none s s') : FSL [] s s' :=
  fun e er he hf _ => h e er he hf (fun h => by cases h)

theorem FSL.single {n : Nat} {s s' : State} (h : FS (some n) s s') : FSL [n] s s' := by
  intro e er he hf hn
  refine h e er he hf ?_
  intro hh
  cases hh
  exact hn (List.mem_singleton.2 rfl)

/-- composition along a list of run nodes -/
theorem FSL.trans {l1 l2 : List Nat} {a b c : State} (h1 : FSL l1 a b) (h2 : FSL l2 b c) : FSL (l1 ++ l2) a c := by
  intro e er he hf hn
  obtain ⟨er1, he1, hf1, hn1⟩ := h1 e er he hf (fun h => hn (List.mem_append.2 (Or.inl h)))
  obtain ⟨er2, he2, hf2, hn2⟩ := h2 e er1 he1 hf1 (by rw [hn1]; exact fun h => hn (List.mem_append.2 (Or.inr h)))
  exact ⟨er2, he2, hf2, hn2.trans hn1⟩

theorem FSL.cons {n : Nat} {l : List Nat} {a b c : State} (h1 : FS (some n) a b) (h2 : FSL l b c) :
    FSL (n :: l) a c := (FSL.single h1).trans h2

theorem FSL.nil_left {l : List Nat} {a b c : State} (h1 : FS none a b) (h2 : FSL l b c) : FSL l a c :=
  (FSL.of_none h1).trans h2

/-! ## one `recomputeOne` -/

/-- a user `map` node (possibly a driver): the effects keep or raise flags, the rest is `XF` -/
theorem fs_map {env : Env} {fuel n f : Nat} {args : List Nat} {s s' : State} {r : Option Nat}
    (D : DD env s (some n)) (hk : (s.nodeD n).kind = .map f args) (hf : f < fnZip)
    (h : (recomputeOne env fuel n).run.run s = (.ok r, s')) : FS none s s' := by
  have I := D.inv
  have A := D.aux
  obtain ⟨-, hltV, -, -, -⟩ := I.cur_facts
  have hlt : n < s.nodes.size := by rw [← virt_size]; exact hltV
  have hne := map_not_expert hk
  obtain ⟨vals, s2, -, hX, hrun⟩ := run_split A.frag hlt hk hf h
  have M1 : Mid (noEff env) (started n s) := midOfDInv _ n s I A hne
  have hOK : ∀ eff, eff ∈ env.fnEff f vals → EffOK (started n s) n eff := fun eff he =>
    (D.drv n f args hlt hk hf vals eff he).to_started
  obtain ⟨-, ef, -, -⟩ := effects_spec env fuel n _ _ (started n s) s2 M1 hOK hX
  have hxf : XF s2 s' :=
    (XF.of_nodes rfl rfl rfl : XF s2 (logged [mapEv env n f vals] s2)).trans
      ((PresX.maybeChangeValue env fuel n _).h _ _ _ hrun)
  intro e er he hfl _
  have he0 : (started n s).experts[e]? = some er := he
  obtain ⟨er1, he1, -, hn1, -⟩ := ef.xcore e er he0
  have hf1 : er1.forceStale = true := by
    rcases ef.xforce e er er1 he0 he1 with ⟨-, k⟩ | k
    · exact k.trans hfl
    · exact k
  obtain ⟨er2, he2, -, hn2, -, -, hf2⟩ := hxf.xrec he1
  exact ⟨er2, he2, hf2.trans hf1, hn2.trans hn1⟩

/-- a node that is neither an expert node nor a user `map` node: `XF` -/
theorem fs_static {env : Env} {fuel n : Nat} {s s' : State} {r : Option Nat} (D : DD env s (some n))
    (hne : ∀ e, (s.nodeD n).kind ≠ .expert e)
    (hm : ∀ f args, (s.nodeD n).kind = .map f args → fnZip ≤ f)
    (h : (recomputeOne env fuel n).run.run s = (.ok r, s')) : FS none s s' := by
  have hnec : (virt s).isNecessary n = true := (D.inv.cur n rfl).1
  have hlt : n < s.nodes.size := by rw [← virt_size]; exact D.inv.graph.nec_lt hnec
  have F := D.aux.frag
  have fr := F.fr D.aux.pinv
  have hE := recomputeOne_noEff_other fr hlt (F.kind n hlt) hne hm h
  obtain ⟨w, es, hrun⟩ := recomputeOne_as_mcv_x fr hlt (F.kind n hlt) hne hE
  rw [hrun] at hE
  have hxf : XF s s' :=
    (xf_started_logged es n s).trans ((PresX.maybeChangeValue (noEff env) fuel n w).h _ _ _ hE)
  exact FS.of_xf hxf none

/-- an expert node: only its own record changes -/
theorem fs_expert {env : Env} {fuel n e0 : Nat} {s s' : State} {r : Option Nat} (D : DD env s (some n))
    (hk : (s.nodeD n).kind = .expert e0)
    (h : (recomputeOne env fuel n).run.run s = (.ok r, s')) : FS (some n) s s' := by
  have hnec : (virt s).isNecessary n = true := (D.inv.cur n rfl).1
  have hlt : n < s.nodes.size := by rw [← virt_size]; exact D.inv.graph.nec_lt hnec
  have F := D.aux.frag
  obtain ⟨er0, he0, hnode0⟩ := F.xrec n e0 hlt hk
  obtain ⟨hpk, hni, -, -⟩ := F.xok e0 er0 he0
  have hx : Xp.IsExpert s n (s.nodeD n) e0 er0 := ⟨some_of_lt hlt, F.valid n hlt, hk, he0⟩
  rw [recomputeOne_noEff_expert hx hpk F.pc (by omega)] at h
  obtain ⟨v, -, er, -, -, -, he, hrun, -⟩ := step_expert_ranB F D.inv D.aux.pinv hk h
  have hxf := (PresX.maybeChangeValue (noEff env) fuel n v).h _ _ _ hrun
  intro e er1 he1 hfl hn
  by_cases hee : e = e0
  · subst hee
    rw [he0] at he1
    cases he1
    exact absurd (by rw [hnode0]) hn
  · have he1' : (ranState (noEff env) n e0 s er).experts[e]? = some er1 := by
      rw [ranState_get_ne (noEff env) n e0 s er hee]; exact he1
    obtain ⟨er2, he2, -, hn2, -, -, hf2⟩ := hxf.xrec he1'
    exact ⟨er2, he2, hf2.trans hfl, hn2⟩

/-- **one `recomputeOne` of the drain keeps every raised flag but that of the node it runs** -/
theorem fs_step (env : Env) : ∀ (fuel n : Nat) (s s' : State) (r : Option Nat), DD env s (some n) →
    (recomputeOne env fuel n).run.run s = (.ok r, s') → FS (some n) s s' := by
  intro fuel n s s' r D h
  by_cases hk : ∃ f args, (s.nodeD n).kind = .map f args ∧ f < fnZip
  · obtain ⟨f, args, hk, hf⟩ := hk
    exact (fs_map D hk hf h).weaken _
  · have hm : ∀ f args, (s.nodeD n).kind = .map f args → fnZip ≤ f := by
      intro f args hk'
      rcases Nat.lt_or_ge f fnZip with hf | hf
      · exact absurd ⟨f, args, hk', hf⟩ hk
      · exact hf
    by_cases hx : ∀ e, (s.nodeD n).kind ≠ .expert e
    · exact (fs_static D hx hm h).weaken _
    · have : ∃ e, (s.nodeD n).kind = .expert e := by
        cases hkd : (s.nodeD n).kind <;>
          first | exact ⟨_, rfl⟩ | (exfalso; apply hx; intro e; rw [hkd]; intro h; cases h)
      obtain ⟨e, hkk⟩ := this
      exact fs_expert D hkk h

/-- a pop leaves the expert records unchanged -/
theorem fs_pop {s s1 : State} {r : Option Nat} (h : rchRemoveMin.run.run s = (.ok r, s1)) : FS none s s1 :=
  FS.of_xf (PresX.rchRemoveMin.h _ _ _ h) none

/-! ## the chain and the drain -/

theorem fs_chain (env : Env) : ∀ (fuel n : Nat) (s s' : State), DD env s (some n) →
    (recompute env fuel n).run.run s = (.ok (), s') → FSL (chainTrace env fuel n s) s s' := by
  intro fuel
  induction fuel with
  | zero => intro n s s' _ h; unfold recompute at h; cases h
  | succ fuel ih =>
    intro n s s' D h
    unfold recompute at h
    obtain ⟨r, s1, h1, h2⟩ := bind_ok_inv h
    obtain ⟨D1, -, -⟩ := step_spec env fuel n s s1 r D h1
    have f1 := fs_step env fuel n s s1 r D h1
    unfold chainTrace
    rw [h1]
    cases r with
    | none =>
      obtain ⟨-, rfl⟩ := pure_ok_inv h2
      exact FSL.single f1
    | some p => exact FSL.cons f1 (ih p s1 s' D1 h2)

theorem fs_drain (env : Env) : ∀ (fuel : Nat) (s s' : State), DD env s none →
    (drainHeap env fuel).run.run s = (.ok (), s') → FSL (drainTrace env fuel s) s s' := by
  intro fuel
  induction fuel with
  | zero => intro s s' _ h; unfold drainHeap at h; cases h
  | succ fuel ih =>
    intro s s' D h
    unfold drainHeap at h
    obtain ⟨r, s1, h1, h2⟩ := bind_ok_inv h
    unfold drainTrace
    rw [h1]
    cases r with
    | none =>
      obtain ⟨-, rfl⟩ := pure_ok_inv h2
      exact FSL.of_none (fs_pop h1)
    | some n =>
      obtain ⟨u, s2, h3, h4⟩ := bind_ok_inv h2
      dsimp only
      rw [h3]
      dsimp only
      obtain ⟨D1, -⟩ := pop_spec env s s1 n D h1
      obtain ⟨D2, -⟩ := recompute_invD (step_spec env) fuel n s1 s2 D1 h3
      exact FSL.nil_left (fs_pop h1) ((fs_chain env fuel n s1 s2 D1 h3).trans (ih s2 s' D2 h4))

/-! ## the theorems -/

/-- **A raised flag forces a recompute.**  From ANY state `s` of a drain with no current node (in particular: between
two pops) in which the flag of the expert node `x` is up: if `x` is needed when the drain ends, `x` runs in the
remaining drain. -/
theorem make_stale_forces (env : Env) : ∀ (fuel : Nat) (s s' : State), DD env s none →
    (drainHeap env fuel).run.run s = (.ok (), s') →
    ∀ (x e : Nat) (er : ExpertRec), (s.nodeD x).kind = .expert e → s.experts[e]? = some er → er.forceStale = true →
      s'.isNecessary x = true → x ∈ drainTrace env fuel s := by
  intro fuel s s' D h x e er hk he hf hn
  have hlt : x < s.nodes.size := D.aux.frag.lt_of_expert hk
  obtain ⟨er0, he0, hnode⟩ := D.aux.frag.xrec x e hlt hk
  rw [he] at he0
  cases he0
  by_cases hx : x ∈ drainTrace env fuel s
  · exact hx
  · exfalso
    obtain ⟨er', he', hf', -⟩ := fs_drain env fuel s s' D h e er he hf (by rw [hnode]; exact hx)
    obtain ⟨D', hemp, f, -⟩ := drain_spec env fuel s s' D h
    have hk' : (s'.nodeD x).kind = .expert e := by
      rw [(dnKey_inv (f.node x)).1]; exact hk
    have hlt' : x < s'.nodes.size := by rw [f.size]; exact hlt
    have hX : Xp.IsExpert s' x (s'.nodeD x) e er' := ⟨some_of_lt hlt', D'.aux.frag.valid x hlt', hk', he'⟩
    have hst : s'.isStale x = true := hX.isStale_of_forceStale hf'
    have hnv : (virt s').isNecessary x = true := by rw [virt_isNecessary]; exact hn
    have hemp' : (virt s').rch.length = 0 := hemp
    obtain ⟨-, h2, -⟩ := BindH.drained_valuesB D'.inv hemp' x hnv _ (Nat.lt_succ_self _)
    rw [virt_isStale, hst] at h2
    cases h2

/-- the same, with the drain tied to the phases of THIS `stabilise`: `t2`, `t3` are the states in which its drain
starts and ends -/
theorem make_stale_next_stabilise_phases {env : Env} {rk : Nat → Nat} {fuel : Nat} {s s' : State}
    (Q : QInvX (noEff env) rk s) (K : DrvOK env s) (h : (stabilise env fuel).run.run s = (.ok (), s'))
    {x e : Nat} {er : ExpertRec} (hk : (s.nodeD x).kind = .expert e) (hx : s.experts[e]? = some er)
    (hf : er.forceStale = true) (hn : s'.isNecessary x = true) :
    ∃ t1 t2 t3, (addNewObservers env fuel).run.run { s with status := .stabilising } = (.ok (), t1) ∧
      (unlinkDisallowedObservers fuel).run.run t1 = (.ok (), t2) ∧
      (drainHeap env fuel).run.run t2 = (.ok (), t3) ∧ (stabiliseEnd env fuel).run.run t3 = (.ok (), s') ∧
      x ∈ drainTrace env fuel t2 ∧ (drainTrace env fuel t2).Nodup := by
  have R := stab_spec env rk fuel s s' Q K h
  obtain ⟨t1, t2, t3, h1, h2, D2, h3, D3, he3, hnd, h4⟩ := R.drain
  have Qv := Q.q
  -- the prefix keeps kinds and records
  have hxf : XF { s with status := .stabilising } t2 :=
    ((PresX.addNewObservers env fuel).h _ _ _ h1).trans ((PresX.unlinkDisallowedObservers fuel).h _ _ _ h2)
  have hk2 : (t2.nodeD x).kind = .expert e := by rw [hxf.kind]; exact hk
  have hx0 : ({ s with status := .stabilising } : State).experts[e]? = some er := hx
  obtain ⟨er2, hx2, -, -, -, -, hf2⟩ := hxf.xrec hx0
  -- the end keeps necessity
  obtain ⟨-, O2, -, -, P⟩ := stab_startD Q K rfl h1 h2
  obtain ⟨-, -, f3, -⟩ := drain_spec env fuel t2 t3 D2 h3
  obtain ⟨-, -, k_obs, -, -, k_sds, k_dead, -, -, -⟩ := eKey_inv f3.key
  have hs0v : virt { s with status := .stabilising } = { virt s with status := .stabilising } := rfl
  have E := stabiliseEnd_fin (env := env) (fuel := fuel) (s := t3) (s' := s')
    (by
      rw [k_sds]
      have := P.setDuringStab; rw [hs0v] at this
      exact this.trans Qv.setDuringStab)
    (by
      rw [k_dead]
      have := P.deadVars; rw [hs0v] at this
      exact this.trans Qv.deadVars)
    (by
      intro o ob ho
      rw [k_obs] at ho
      exact (O2.inRange o ob ho).2) h4
  have hn3 : t3.isNecessary x = true := by
    obtain ⟨b, hb⟩ := E.node x
    have : s'.isNecessary x = t3.isNecessary x := by
      unfold State.isNecessary
      rw [hb]
      rfl
    rw [← this]; exact hn
  exact ⟨t1, t2, t3, h1, h2, h3, h4, make_stale_forces env fuel t2 t3 D2 h3 x e er2 hk2 hx2 (hf2.trans hf) hn3, hnd⟩

/-- **`make_stale` (or an edit) before a `stabilise` forces exactly one recompute in it.**  If the flag of the expert
node `x` is up when a `stabilise` starts and `x` is needed when it ends, then `x` runs in the drain of this
`stabilise` (`t2`, `t3`: the states in which that drain starts and ends) — once: the trace has no duplicates. -/
theorem make_stale_next_stabilise {env : Env} {rk : Nat → Nat} {fuel : Nat} {s s' : State}
    (Q : QInvX (noEff env) rk s) (K : DrvOK env s) (h : (stabilise env fuel).run.run s = (.ok (), s'))
    {x e : Nat} {er : ExpertRec} (hk : (s.nodeD x).kind = .expert e) (hx : s.experts[e]? = some er)
    (hf : er.forceStale = true) (hn : s'.isNecessary x = true) :
    ∃ t2 t3, (drainHeap env fuel).run.run t2 = (.ok (), t3) ∧ x ∈ drainTrace env fuel t2 ∧
      (drainTrace env fuel t2).Nodup := by
  obtain ⟨-, t2, t3, -, -, h3, -, hm, hnd⟩ := make_stale_next_stabilise_phases Q K h hk hx hf hn
  exact ⟨t2, t3, h3, hm, hnd⟩

end IncrVerif.Proofs.DriverH
