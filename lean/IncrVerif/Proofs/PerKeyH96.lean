import IncrVerif.Proofs.PerKeyH95
/-!
# `VSim`, part 9: the API actions (all but `stabilise`, `addDep`, creation of expert / per-key nodes)
(port of `Proofs/ExpertH31.lean`)

The action is the same on both sides: a newly created node is not an expert node, and a created `map f args` has
`f < fnPerKey` (`VInstr`), so it is its own virtual node.  (`VSimAt.createNodeK` is the general form: the virtual
side creates `vKind s k`.)
-/
namespace IncrVerif.Proofs.PerKeyH
open IncrVerif.Engine IncrVerif.Driver IncrVerif.Proofs IncrVerif.Proofs.Step IncrVerif.Proofs.Sched
open IncrVerif.Proofs.ExpertH IncrVerif.Proofs.EffH

/-- creation instructions of the static fragment whose `map` closure ids are below the per-key range (so a created
node is its own virtual node) -/
def VInstr : Instr → Prop
  | .const _ => True
  | .var _ => True
  | .map f _ => f < fnPerKey
  | .fold _ _ _ => True
  | .zip _ _ => True
  | _ => False

theorem VInstr.x {i : Instr} (h : VInstr i) : XInstr i := by
  cases i <;> first | trivial | exact h

/-- API actions simulated here: `ExpertH.XAction` with `VInstr` creation instructions -/
def VAction : Action → Prop
  | .create i => VInstr i
  | .observe _ => True
  | .cloneObs _ => True
  | .dropObs _ => True
  | .disallow _ => True
  | .set _ _ => True
  | .modify _ _ => True
  | .update _ _ => True
  | .replace _ _ => True
  | .replaceWith _ _ => True
  | .get _ => True
  | .isStable => True
  | .stats => True
  | _ => False

theorem VAction.x {a : Action} (h : VAction a) : XAction a := by
  cases a <;> first | trivial | exact h | exact VInstr.x h

section
variable {s : State} {α β : Type}

/-- a read-only program followed by a continuation: the continuation starts in the same state -/
theorem VSimAt.ro_seq {x x' : M α} {f f' : α → M β} (hro : Step.Pres SameS x) (hx : VSimAt s x x')
    (hf : ∀ a, VSimAt s (f a) (f' a)) : VSimAt s (x >>= f) (x' >>= f') := by
  refine VSimAt.seq hx fun a s1 h1 => ?_
  have e : s1 = s := hro.h s _ s1 h1
  rw [e]; exact hf a

end

theorem VSim.resolveOpnd (loc : List Nat) (o : Opnd) : VSim (Engine.resolveOpnd loc o) (Engine.resolveOpnd loc o) := by
  intro s; unfold Engine.resolveOpnd
  cases o <;> dsimp only <;> vsim <;> split <;> vsim
macro_rules | `(tactic| vsim_leaf) => `(tactic| with_reducible exact IncrVerif.Proofs.PerKeyH.VSim.resolveOpnd _ _)

theorem VSim.isConstant (n : Nat) : VSim (Engine.isConstant n) (Engine.isConstant n) := by
  intro s; unfold Engine.isConstant; vsim
  vsim_kind
macro_rules | `(tactic| vsim_leaf) => `(tactic| with_reducible exact IncrVerif.Proofs.PerKeyH.VSim.isConstant _)

/-! ## node creation -/

theorem crState_perkeys (k : Kind) (sc : Scope) (c : CutoffK) (s : State) :
    (crState k sc c s).perkeys = s.perkeys := by
  unfold crState; cases sc <;> rfl

theorem crState_log (k : Kind) (sc : Scope) (c : CutoffK) (s : State) :
    (crState k sc c s).log = s.log := by
  unfold crState; cases sc <;> rfl

/-- the virtual node of a fresh node that is not an expert node -/
theorem vNode_fresh (s : State) (k : Kind) (sc : Scope) (c : CutoffK) (hne : ∀ e, k ≠ .expert e) :
    vNode s { kind := k, createdIn := sc, cutoff := c } = { kind := vKind s k, createdIn := sc, cutoff := c } := by
  cases k <;> first | rfl | exact absurd rfl (hne _)

/-- creation of a node that is not an expert node: the virtual state creates the virtual kind -/
theorem V_crState (k : Kind) (sc : Scope) (c : CutoffK) (s : State) (hne : ∀ e, k ≠ .expert e) :
    V (crState k sc c s) = crState (vKind s k) sc c (V s) := by
  have e : vNode (crState k sc c s) = vNode s := vNode_congr (crState_experts k sc c s) (crState_perkeys k sc c s)
  have h : (s.nodes.push { kind := k, createdIn := sc, cutoff := c }).map (vNode s)
      = (V s).nodes.push { kind := vKind s k, createdIn := sc, cutoff := c } := by
    rw [Array.map_push, vNode_fresh s k sc c hne]; rfl
  unfold V
  rw [e, crState_nodes, crState_log, h]
  unfold crState V
  cases sc <;> simp

/-- node creation, general form: the virtual side creates the virtual kind -/
theorem VSimAt.createNodeK {s : State} {k : Kind} (sc : Scope) (c : CutoffK) (hne : ∀ e, k ≠ .expert e) (hk : XK k) :
    VSimAt s (Engine.createNode k sc c) (Engine.createNode (vKind s k) sc c) := by
  intro hn r s' hr
  rw [run_createNode] at hr ⊢
  cases hr
  rw [V_size, V_crState k sc c s hne]
  exact ⟨rfl, fr_crState sc hn hk⟩

/-- node creation of a kind that is its own virtual kind (not an expert node, `map` id below the per-key range) -/
theorem VSimAt.createNode {s : State} {k : Kind} (sc : Scope) (c : CutoffK) (hne : ∀ e, k ≠ .expert e) (hk : XK k)
    (hm : ∀ f args, k = .map f args → f < fnPerKey) :
    VSimAt s (Engine.createNode k sc c) (Engine.createNode k sc c) := by
  have e : vKind s k = k := by
    cases k <;> first | rfl | exact vKind_map_lt s _ (hm _ _ rfl) | exact absurd rfl (hne _)
  have := VSimAt.createNodeK (s := s) sc c hne hk
  rwa [e] at this

theorem VSimAt.createVar {s : State} (v : Val) (sc : Scope) :
    VSimAt s (Engine.createVar v sc) (Engine.createVar v sc) := by
  unfold Engine.createVar
  refine VSimAt.get_seq ?_
  vnorm
  refine VSimAt.seq (VSimAt.createNode sc .eq (fun e h => by cases h) trivial (fun _ _ h => by cases h)) fun _ _ _ => ?_
  vsim

/-! ## `elabInstr`, `stepAction` -/

/-- `some <$> createNode k sc` for a static kind -/
macro "vcr_node" : tactic => `(tactic|
  exact IncrVerif.Proofs.PerKeyH.VSimAt.map _
    (IncrVerif.Proofs.PerKeyH.VSimAt.createNode _ _ (fun e h => by cases h) trivial
      (fun _ _ h => by first | (cases h; done) | (cases h; first | assumption | decide))))

theorem VSimAt.elabInstr {s : State} {i : Instr} (hR : VInstr i) :
    VSimAt s (Engine.elabInstr [] .unit i) (Engine.elabInstr [] .unit i) := by
  unfold Engine.elabInstr
  cases i <;> simp only [VInstr] at hR <;> refine VSimAt.get_seq ?_ <;> try vnorm
  case const v => vcr_node
  case var v => exact VSimAt.map _ (VSimAt.createVar v .top)
  case map f args =>
    refine VSimAt.ro_seq (Step.Pres.mapM (fun a => RO.resolveOpnd [] a) args)
      (VSim.mapM (fun a => VSim.resolveOpnd [] a) args s) fun as => ?_
    vcr_node
  case fold f init cs =>
    refine VSimAt.ro_seq (Step.Pres.mapM (fun a => RO.resolveOpnd [] a) cs)
      (VSim.mapM (fun a => VSim.resolveOpnd [] a) cs s) fun as => ?_
    refine VSimAt.cond Iff.rfl (fun _ => ?_) (fun _ => ?_) <;> vcr_node
  case zip a b =>
    refine VSimAt.ro_seq (RO.resolveOpnd [] a) (VSim.resolveOpnd [] a s) fun x => ?_
    refine VSimAt.ro_seq (RO.resolveOpnd [] b) (VSim.resolveOpnd [] b s) fun y => ?_
    refine VSimAt.ro_seq (RO.isConstant x) (VSim.isConstant x s) fun cx => ?_
    refine VSimAt.ro_seq (RO.isConstant y) (VSim.isConstant y s) fun cy => ?_
    split <;> vcr_node

theorem VSimAt.elabInstrM {s : State} {i : Instr} (env : Env) (hR : VInstr i) :
    VSimAt s (Engine.elabInstrM env [] .unit i) (Engine.elabInstrM (penv env) [] .unit i) := by
  rw [elabInstrM_eq _ _ _ hR.x, elabInstrM_eq _ _ _ hR.x]
  exact VSimAt.elabInstr hR

/-- every API action of the fragment (identical on both sides) -/
theorem VSimAt.stepAction {s : State} {a : Action} (env : Env) (tk : Array Nat) (hR : VAction a) :
    VSimAt s (Engine.stepAction env a tk) (Engine.stepAction (penv env) a tk) := by
  unfold Engine.stepAction
  cases a <;> simp only [VAction] at hR
  case create i =>
    refine VSimAt.seq (VSimAt.elabInstrM env hR) fun r _ _ => ?_
    cases r <;> vsim
  all_goals first
    | (refine VSimAt.seq (VSimAt.discard (VSim.writeVar _ _ _ _)) fun _ _ _ => ?_; vsim; done)
    | (vsim; done)
    | (vsim; exact VSimAt.ret _)

theorem VInstr.of_x {i : Instr} (h : XInstr i) (hf : ∀ f args, i = .map f args → f < fnPerKey) : VInstr i := by
  cases i <;> first | exact hf _ _ rfl | exact h

theorem VAction.of_x {a : Action} (h : XAction a) (hf : ∀ f args, a = .create (.map f args) → f < fnPerKey) :
    VAction a := by
  cases a <;> first | exact VInstr.of_x h (fun f args e => hf f args (by rw [e])) | exact h

/-- `VSimAt.stepAction` for an `ExpertH.XAction` whose created `map` has a closure id below the per-key range -/
theorem VSimAt.stepAction' {s : State} {a : Action} (env : Env) (tk : Array Nat) (hR : ExpertH.XAction a)
    (hf : ∀ f args, a = .create (.map f args) → f < fnPerKey) :
    VSimAt s (Engine.stepAction env a tk) (Engine.stepAction (penv env) a tk) :=
  VSimAt.stepAction env tk (VAction.of_x hR hf)

end IncrVerif.Proofs.PerKeyH
