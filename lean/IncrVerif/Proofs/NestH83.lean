import IncrVerif.Proofs.NestH82
/-!
# Total correctness of `adjustHeights` (F2), part 2: one `ensureHeightRequirement` inside the loop, the two inner loops, the loop

FUEL: every node is popped at most once; `mu s0 dn` = the number of nodes not yet popped; the loop needs `mu s0 dn < fuel`, i.e. `s.nodes.size + 1 ≤ fuel` initially.
-/
namespace IncrVerif.Proofs.NestH
open IncrVerif.Engine IncrVerif.Proofs IncrVerif.Proofs.Step IncrVerif.Proofs.Sched IncrVerif.Proofs.Quiet
open IncrVerif.Proofs.BindH

namespace TA
open BA CA NA

variable {rk : Nat → Nat} {N : Nat}

/-- the static facts about `s0` totality needs (besides `LoopHyp2`); `oc`: the original child, `B`: the node raised first -/
structure LoopHypT (rk : Nat → Nat) (oc B : Nat) (s0 : State) : Prop where
  pnec : ∀ c p, HP s0 c p → s0.isNecessary p = true
  pin : ∀ c p, HP s0 c p → p < s0.nodes.size
  pos0 : ∀ m, s0.isNecessary m = true → 0 ≤ (s0.nodeD m).height
  /-- every height pair whose lower node is not the original child is fine in `s0` -/
  fine0 : ∀ c p, HP s0 c p → c ≠ oc → (s0.nodeD c).height < (s0.nodeD p).height
  lcEx : ∀ n b, n < s0.nodes.size → (s0.nodeD n).valid = true → (s0.nodeD n).kind = .bindLhsChange b →
    ∃ br, s0.binds[b]? = some br
  rkoc : rk oc < rk B

/-- the number of nodes not yet popped -/
def mu (s0 : State) (dn : List Nat) : Nat := (List.range s0.nodes.size).countP fun m => decide (m ∉ dn)

theorem mu_nil (s0 : State) : mu s0 [] = s0.nodes.size := by
  unfold mu
  simp

theorem mu_cons_lt {s0 : State} {dn : List Nat} {n : Nat} (hn : n < s0.nodes.size) (hd : n ∉ dn) :
    mu s0 (n :: dn) < mu s0 dn := by
  unfold mu
  apply countP_lt_of_imp _ _ _ _ n (List.mem_range.2 hn)
  · exact decide_eq_true hd
  · exact decide_eq_false (fun h => h (List.mem_cons_self ..))
  · intro m _ hm
    have := of_decide_eq_true hm
    exact decide_eq_true (fun h => this (List.mem_cons_of_mem _ h))

theorem run_getBind_some {b : Nat} {s : State} {br : BindRec} (h : s.binds[b]? = some br) :
    (getBind b).run.run s = (.ok br, s) := by
  unfold getBind
  rw [run_bind_get, h]
  rfl

/-- `ensureHeightRequirement c p` for a height pair `(c, p)` of the popped node `c`: returns, keeps both invariants -/
theorem ehr_loop_step {B : Nat} {s0 u : State} {dn : List Nat} {X : Nat → Nat → Prop} {oc op c p : Nat}
    (H : LoopHyp2 rk s0) (HT : LoopHypT rk oc B s0)
    (A : AInvR rk (HP s0) B s0 u X noY) (hX : ∀ x q, X x q → x = c) (T : TI rk N s0 u dn noZ)
    (hm0 : HP s0 c p) (hcn : s0.isNecessary c = true) (hB : rk B ≤ rk c)
    (hlbp : u.ahh.lowerBound ≤ (u.nodeD p).height) (hlc : u.ahh.lowerBound ≤ (s0.nodeD c).height) :
    ∃ u', (ensureHeightRequirement oc op c p).run.run u = (.ok (), u') ∧
      AInvR rk (HP s0) B s0 u' (fun x q => X x q ∧ q ≠ p) noY ∧ HRel u u' ∧
      u'.ahh.lowerBound = u.ahh.lowerBound ∧ TI rk N s0 u' dn noZ := by
  have hrk := H.up c p hm0
  have hroc := HT.rkoc
  have hpo : p ≠ oc := fun e => by rw [e] at hrk; omega
  have hco : c ≠ oc := fun e => by rw [e] at hB; omega
  have hcp : c ≠ p := fun e => by rw [← e] at hrk; omega
  have hc0 : c < s0.nodes.size := nec_lt_size hcn
  have hp0 : p < s0.nodes.size := HT.pin c p hm0
  have hnp0 := HT.pnec c p hm0
  have hcb := T.bound c hcn (fun h => h)
  have hmax : (u.nodeD c).height + 1 ≤ u.ahh.maxAllowed := by
    have h1 := cnt_lt_cnt (rk := rk) hc0 hrk
    have h2 := cnt_lt_size (rk := rk) hp0
    have h3 := T.room.size
    have h4 := T.room.ahh
    have h5 := A.rel.size
    omega
  have h0 : 0 ≤ (u.nodeD p).height := by
    have := HT.pos0 p hnp0
    have := A.rel.height p
    omega
  obtain ⟨u', hrun⟩ := ehr_tot (oc := oc) (op := op) (c := c) (p := p) (s := u) (by rw [A.rel.size]; exact hc0)
    (by rw [A.rel.size]; exact hp0) (by rw [A.rel.nec]; exact hcn) (by rw [A.rel.nec]; exact hnp0) hpo hlbp h0 hmax
  obtain ⟨A', hr, hlb'⟩ := ehr_step hrun A hX hcp hlbp (by omega)
  have hpd : p ∉ dn := by
    intro hd
    have h1 := (T.dnLow p hd).2
    have h2 := HT.fine0 c p hm0 hco
    omega
  obtain ⟨T', -⟩ := TI.ehr hrun A T hcb hrk hpd hnp0 (fun h => h.elim)
  exact ⟨u', hrun, A', hr, hlb', T'.mono (fun m h => h.1)⟩

/-- the loop over the parents of the popped node `c` returns -/
theorem parents_loop_tot {B : Nat} {s0 s : State} {dn : List Nat} {oc op c : Nat} {nd : Node}
    (H : LoopHyp2 rk s0) (HT : LoopHypT rk oc B s0) (hndD : s.nodeD c = nd)
    {f : Nat × Nat → PUnit → M (ForInStep PUnit)}
    (hf : ∀ a u u', (ensureHeightRequirement oc op c a.1).run.run u = (.ok (), u') →
      (f a PUnit.unit).run.run u = (.ok (.yield PUnit.unit), u'))
    (A : AInvR rk (HP s0) B s0 s (fun x _ => x = c) noY) (T : TI rk N s0 s dn noZ)
    (hlb : ∀ q, HP s0 c q → s.ahh.lowerBound ≤ (s.nodeD q).height) (hB : rk B ≤ rk c)
    (hcn : s0.isNecessary c = true) (hlc : s.ahh.lowerBound ≤ (s0.nodeD c).height) :
    Tot (forIn nd.parents PUnit.unit f) s (fun _ t =>
      AInvR rk (HP s0) B s0 t (fun x q => x = c ∧ SP s0 c q) noY ∧ t.ahh.lowerBound = s.ahh.lowerBound ∧
      (∀ m, (s.nodeD m).height ≤ (t.nodeD m).height) ∧ TI rk N s0 t dn noZ) := by
  have hloop := forIn_tot f nd.parents
    (fun j (_ : PUnit) (t : State) =>
      AInvR rk (HP s0) B s0 t
        (fun x q => x = c ∧ ((∃ i k, j ≤ k ∧ nd.parents[k]? = some (q, i)) ∨ SP s0 c q)) noY ∧
        t.ahh.lowerBound = s.ahh.lowerBound ∧ (∀ m, (s.nodeD m).height ≤ (t.nodeD m).height) ∧
        TI rk N s0 t dn noZ)
    (by
      intro j a b t hj ⟨At, hlbt, hgrow, Tt⟩
      have hmem : (a.1, a.2) ∈ (s.nodeD c).parents := by
        rw [hndD]; exact List.mem_of_getElem? hj
      have hmem0 : HP s0 c a.1 := Or.inl ⟨a.2, by rw [← A.rel.parents]; exact hmem⟩
      obtain ⟨t', hrun, At1, hr1, hlb1, Tt1⟩ := ehr_loop_step (op := op) H HT At (fun x q hx => hx.1) Tt hmem0 hcn hB
        (by
          rw [hlbt]
          have := hlb a.1 hmem0
          have := hgrow a.1
          omega)
        (by rw [hlbt]; exact hlc)
      refine ⟨PUnit.unit, t', hf a t t' hrun, At1.mono ?_ (fun _ hy => hy), by rw [hlb1, hlbt],
        fun m => Int.le_trans (hgrow m) (hr1.height m), Tt1⟩
      rintro x q - ⟨⟨hx, hq⟩, hqa⟩
      refine ⟨hx, ?_⟩
      rcases hq with ⟨i, k, hk, hkq⟩ | hq
      · left
        refine ⟨i, k, ?_, hkq⟩
        rcases Nat.lt_or_ge j k with hlt | hge
        · exact hlt
        · have : k = j := by omega
          rw [this, hj] at hkq
          cases hkq
          exact absurd rfl hqa
      · exact Or.inr hq)
    nd.parents 0 PUnit.unit s (by simp) (Nat.zero_le _)
    ⟨A.mono (by
        intro x q hm hx
        refine ⟨hx, ?_⟩
        rw [hx] at hm
        rcases hm with ⟨i, hm⟩ | hm
        · left
          rw [← A.rel.parents, hndD] at hm
          obtain ⟨k, hk⟩ := List.mem_iff_getElem?.1 hm
          exact ⟨i, k, Nat.zero_le _, hk⟩
        · exact Or.inr hm) (fun _ hy => hy), rfl, fun _ => Int.le_refl _, T⟩
  obtain ⟨u, t, hfor, At, h2, h3, Tt⟩ := hloop
  refine ⟨u, t, hfor, At.mono ?_ (fun _ hy => hy), h2, h3, Tt⟩
  rintro x q - ⟨hx, hq⟩
  refine ⟨hx, ?_⟩
  rcases hq with ⟨i, k, hk, hkq⟩ | hq
  · rw [List.getElem?_eq_none hk] at hkq
    cases hkq
  · exact hq

/-- the loop over the registered nodes of the scope of the popped change detector `c` returns -/
theorem scope_loop_tot {B : Nat} {s0 s t : State} {dn : List Nat} {oc op c b : Nat} {br : BindRec}
    (H : LoopHyp2 rk s0) (HT : LoopHypT rk oc B s0)
    (hb : s0.binds[b]? = some br) (hc : br.lhsChange = c)
    {f : Nat → PUnit → M (ForInStep PUnit)}
    (hf1 : ∀ r u u', u.isNecessary r = true → (ensureHeightRequirement oc op c r).run.run u = (.ok (), u') →
      (f r PUnit.unit).run.run u = (.ok (.yield PUnit.unit), u'))
    (hf2 : ∀ r u, u.isNecessary r = false → (f r PUnit.unit).run.run u = (.ok (.yield PUnit.unit), u))
    (A : AInvR rk (HP s0) B s0 t (fun x q => x = c ∧ SP s0 c q) noY) (T : TI rk N s0 t dn noZ)
    (hlbt : t.ahh.lowerBound = s.ahh.lowerBound) (hgrow : ∀ m, (s.nodeD m).height ≤ (t.nodeD m).height)
    (hlb : ∀ q, HP s0 c q → s.ahh.lowerBound ≤ (s.nodeD q).height) (hB : rk B ≤ rk c)
    (hcn : s0.isNecessary c = true) (hlc : s.ahh.lowerBound ≤ (s0.nodeD c).height) :
    Tot (forIn br.allNodesCreatedOnRhs PUnit.unit f) t (fun _ t' =>
      AInvR rk (HP s0) B s0 t' noXR noY ∧ TI rk N s0 t' dn noZ) := by
  have hloop := forIn_tot f br.allNodesCreatedOnRhs
    (fun j (_ : PUnit) (u : State) =>
      AInvR rk (HP s0) B s0 u
        (fun x q => x = c ∧ s0.isNecessary q = true ∧ ∃ k, j ≤ k ∧ br.allNodesCreatedOnRhs[k]? = some q) noY ∧
        u.ahh.lowerBound = s.ahh.lowerBound ∧ (∀ m, (s.nodeD m).height ≤ (u.nodeD m).height) ∧
        TI rk N s0 u dn noZ)
    (by
      intro j a _ u hj ⟨Au, hlbu, hgrowu, Tu⟩
      cases hn : u.isNecessary a with
      | true =>
        have hn0 : s0.isNecessary a = true := by rw [← Au.rel.nec]; exact hn
        have hmem0 : HP s0 c a := Or.inr ⟨b, br, hb, hc, List.mem_of_getElem? hj, hn0⟩
        obtain ⟨u', hrun, Au1, hr1, hlb1, Tu1⟩ := ehr_loop_step (op := op) H HT Au (fun x q hx => hx.1) Tu hmem0 hcn hB
          (by
            rw [hlbu]
            have := hlb a hmem0
            have := hgrowu a
            omega)
          (by rw [hlbu]; exact hlc)
        refine ⟨PUnit.unit, u', hf1 a u u' hn hrun, Au1.mono ?_ (fun _ hy => hy), by rw [hlb1, hlbu],
          fun m => Int.le_trans (hgrowu m) (hr1.height m), Tu1⟩
        rintro x q - ⟨⟨hx, hq, k, hk, hkq⟩, hqa⟩
        refine ⟨hx, hq, k, ?_, hkq⟩
        rcases Nat.lt_or_ge j k with hlt | hge
        · exact hlt
        · have : k = j := by omega
          rw [this, hj] at hkq
          cases hkq
          exact absurd rfl hqa
      | false =>
        refine ⟨PUnit.unit, u, hf2 a u hn, Au.mono ?_ (fun _ hy => hy), hlbu, hgrowu, Tu⟩
        rintro x q - ⟨hx, hq, k, hk, hkq⟩
        refine ⟨hx, hq, k, ?_, hkq⟩
        rcases Nat.lt_or_ge j k with hlt | hge
        · exact hlt
        · have : k = j := by omega
          rw [this, hj] at hkq
          cases hkq
          rw [← Au.rel.nec, hn] at hq
          cases hq)
    br.allNodesCreatedOnRhs 0 PUnit.unit t (by simp) (Nat.zero_le _)
    ⟨A.mono (by
        rintro x q - ⟨hx, b', br', hb', hc', hmem, hn⟩
        refine ⟨hx, hn, ?_⟩
        have e1 := H.lcKind b br hb
        have e2 := H.lcKind b' br' hb'
        rw [hc] at e1
        rw [hc', e1] at e2
        injection e2 with e2
        subst e2
        rw [hb] at hb'
        cases hb'
        obtain ⟨k, hk⟩ := List.mem_iff_getElem?.1 hmem
        exact ⟨k, Nat.zero_le _, hk⟩) (fun _ hy => hy), hlbt, hgrow, T⟩
  obtain ⟨u, t', hfor, At, -, -, Tt⟩ := hloop
  refine ⟨u, t', hfor, At.mono ?_ (fun _ hy => hy), Tt⟩
  rintro x q - ⟨-, -, k, hk, hkq⟩
  rw [List.getElem?_eq_none hk] at hkq
  cases hkq

/-- what the loop guarantees (total form) -/
def LoopTot (rk : Nat → Nat) (N B : Nat) (s0 : State) (oc op fuel : Nat) : Prop :=
  ∀ s dn, AInvR rk (HP s0) B s0 s noXR noY → TI rk N s0 s dn noZ → mu s0 dn < fuel →
    Tot (adjustHeightsLoop oc op fuel) s (fun _ s' => ∃ dn', TI rk N s0 s' dn' noZ)

/-- the tail of one iteration returns -/
theorem tail_tot {B : Nat} {s0 s : State} {dn : List Nat} {oc op c fuel : Nat}
    (H : LoopHyp2 rk s0) (HT : LoopHypT rk oc B s0)
    (ih : LoopTot rk N B s0 oc op fuel)
    (A : AInvR rk (HP s0) B s0 s (fun x _ => x = c) noY) (T : TI rk N s0 s dn noZ)
    (hlb : ∀ q, HP s0 c q → s.ahh.lowerBound ≤ (s.nodeD q).height) (hB : rk B ≤ rk c)
    (hcn : s0.isNecessary c = true) (hlc : s.ahh.lowerBound ≤ (s0.nodeD c).height)
    (hfuel : mu s0 dn < fuel) :
    Tot (loopTail oc op c fuel) s (fun _ s' => ∃ dn', TI rk N s0 s' dn' noZ) := by
  have hc0 : c < s0.nodes.size := nec_lt_size hcn
  have hc : c < s.nodes.size := by rw [A.rel.size]; exact hc0
  unfold loopTail
  refine Tot.bind_getNode hc ?_
  refine Tot.bind (parents_loop_tot (op := op) H HT rfl ?_ A T hlb hB hcn hlc) ?_
  · intro a u u' h
    rw [run_bind_ok h]
    rfl
  rintro _ t - ⟨At, hlbt, hgrow, Tt⟩
  have hct : c < t.nodes.size := by rw [At.rel.size]; exact hc0
  refine Tot.bind_getNode hct ?_
  dsimp only
  split
  · rename_i b hkb
    have hvk : (t.nodeD c).valid = true ∧ (t.nodeD c).kind = .bindLhsChange b := by
      unfold Node.kind? at hkb
      split at hkb
      · rename_i hv
        injection hkb with hkb
        exact ⟨hv, hkb⟩
      · cases hkb
    obtain ⟨br, hbr⟩ := HT.lcEx c b hc0 (by rw [← At.rel.valid]; exact hvk.1) (by rw [← At.rel.kind]; exact hvk.2)
    have hbt : t.binds[b]? = some br := by rw [At.rel.binds]; exact hbr
    have hcc : br.lhsChange = c := H.lcRec c b br hc0 (by rw [← At.rel.kind]; exact hvk.2) hbr
    refine Tot.bind_ok (run_getBind_some hbt) ?_
    refine Tot.bind (scope_loop_tot (op := op) H HT hbr hcc ?_ ?_ At Tt hlbt hgrow hlb hB hcn hlc) ?_
    · intro r u u' hn h
      rw [run_bind_get, hn]
      simp only [if_true]
      rw [run_bind_ok h]
      rfl
    · intro r u hn
      rw [run_bind_get, hn]
      simp only [Bool.false_eq_true, if_false]
      rfl
    rintro _ t2 - ⟨At2, Tt2⟩
    exact ih t2 dn At2 Tt2 hfuel
  · rename_i hnk
    refine ih t dn (At.mono ?_ (fun _ hy => hy)) Tt hfuel
    rintro x q - ⟨-, b', br', hb', hc', hmem, -⟩
    have := H.kind? At.rel hb' hmem
    rw [hc'] at this
    exact hnk b' this

theorem loop_tot {B : Nat} {s0 : State} {oc op : Nat} (H : LoopHyp2 rk s0) (HT : LoopHypT rk oc B s0) (fuel : Nat) :
    LoopTot rk N B s0 oc op fuel := by
  induction fuel with
  | zero => intro s dn _ _ h; omega
  | succ fuel ih =>
    intro s dn A T hfuel
    unfold adjustHeightsLoop
    obtain ⟨r, s1, h1⟩ := ahhRemoveMin_tot s
    refine Tot.bind_ok h1 ?_
    rcases ahhRemoveMin_ok_inv h1 with ⟨er, e1, hnone⟩ | ⟨c, rest, er, hq, e1⟩
    · rw [er]
      exact Tot.pure ⟨dn, by rw [e1]; exact T⟩
    · rw [er]
      dsimp only
      obtain ⟨A1, hBc, hlb1, key⟩ := A.pop hq
      obtain ⟨T1, hcd, hcs, hcn, hlbc, hstr⟩ := TI.pop A T hq
      rw [← e1] at A1 hlb1 key T1 hlbc
      have hc0 : c < s0.nodes.size := by rw [← A.rel.size]; exact hcs
      have hc1 : c < s1.nodes.size := by rw [A1.rel.size]; exact hc0
      have hfuel1 : mu s0 (c :: dn) < fuel := by
        have := mu_cons_lt (s0 := s0) (dn := dn) (n := c) hc0 hcd
        omega
      have hmk1 : ahhMk s1 c = -1 := by
        simp only [ahhMk]
        rw [key, if_pos rfl]
      refine Tot.bind_getNode hc1 ?_
      by_cases hin : (s1.nodeD c).inRch = true
      · rw [if_pos hin]
        have hstr1 : (s1.nodeD c).heightInRch < (s1.nodeD c).height := by
          have hin' := hin
          rw [key, if_pos rfl] at hin' ⊢
          exact hstr hin'
        have hmax : (s1.nodeD c).height ≤ s1.rch.maxAllowed := by
          have h1 := T1.bound c hcn (fun h => h)
          have h2 := cnt_lt_size (rk := rk) hc0
          have h3 := T1.room.size
          have h4 := T1.room.rch
          have h5 := A1.rel.size
          omega
        obtain ⟨s2, h2⟩ := rchIncreaseHeight_tot A1.heap.wf hc1 hin hstr1 hmax
        refine Tot.bind_ok h2 ?_
        obtain ⟨Q, -, h0, hmx, hQ, e2⟩ := rchIncreaseHeight_ok_inv h2
        have hwf : HeapWF s2 := by
          have := (triple_iff _ _ _ _).1 (rchIncreaseHeight_spec .release c) s1
            ⟨(HWF_release_iff s1).2 A1.heap.wf, Or.inr ⟨s1.nodeD c, some_of_lt hc1, h0, by
              simp only [Heap.maxAllowed] at hmx; omega⟩⟩
          rw [h2] at this
          exact (HWF_release_iff s2).1 this
        rw [e2] at hwf
        have A2 := A1.rebucket hc1 hin h0 hQ hwf (fun _ hy => hy) hBc
        have T2 := T1.rebucket hc1 hmk1 hQ
        rw [← e2] at A2 T2
        have key2 : ∀ m, (s2.nodeD m).height = (s1.nodeD m).height := by
          intro m
          rw [e2, nodeD_upd (s := s1) (f := fun y => { y with heightInRch := (s1.nodeD c).height }) rfl hc1]
          split
          · rename_i e; rw [e]
          · rfl
        have elb : s2.ahh.lowerBound = s1.ahh.lowerBound := by rw [e2]; rfl
        refine tail_tot H HT ih A2 T2 ?_ hBc hcn (by rw [elb, hlbc]; exact Int.le_refl _) hfuel1
        intro q hm
        have := hlb1 q hm
        rw [key2 q, elb]; omega
      · rw [if_neg hin]
        have A2 : AInvR rk (HP s0) B s0 s1 (fun x _ => x = c) noY := by
          refine ⟨A1.rel, A1.wf, A1.heap, A1.edge, A1.old, ?_, A1.hle, A1.low, A1.memB⟩
          intro m hq' hm _
          by_cases e : m = c
          · rw [e] at hq'; exact absurd hq' hin
          · exact A1.hgt m hq' hm e
        refine tail_tot H HT ih A2 T1 ?_ hBc hcn (by rw [hlbc]; exact Int.le_refl _) hfuel1
        intro q hm
        have := hlb1 q hm
        omega

end TA
end IncrVerif.Proofs.NestH
