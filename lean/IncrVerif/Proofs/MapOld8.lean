import IncrVerif.Proofs.MapOld7
/-!
# map_with_old fragment: simulation of the notification walk, part 2
(`maybeChangeValueManual`, `maybeChangeValue`)
-/
namespace IncrVerif.Proofs.MapOldH
open IncrVerif.Engine IncrVerif.Proofs IncrVerif.Proofs.Step IncrVerif.Proofs.Sched IncrVerif.Proofs.Quiet

variable {sp : Nat → Val → Val}

section

theorem Sim.maybeChangeValueManual (env : Env) (fuel n : Nat) (o : Option Val) (did b : Bool) :
    Sim (Engine.maybeChangeValueManual env fuel n o did b)
      (Engine.maybeChangeValueManual (virtEnv env sp) fuel n o did b) := by
  intro s
  unfold Engine.maybeChangeValueManual
  refine SimAt.cond Iff.rfl (fun _ => SimAt.ret _) (fun _ => ?_)
  wsim
  split
  · wsim
  · wsim
macro_rules | `(tactic| wsim_leaf) => `(tactic| with_reducible exact Sim.maybeChangeValueManual _ _ _ _ _ _)

theorem Sim.maybeChangeValue (env : Env) (fuel n : Nat) (v : Val) :
    Sim (Engine.maybeChangeValue env fuel n v) (Engine.maybeChangeValue (virtEnv env sp) fuel n v) := by
  intro s
  unfold Engine.maybeChangeValue
  wsim
  all_goals (split <;> wsim)
macro_rules | `(tactic| wsim_leaf) => `(tactic| with_reducible exact Sim.maybeChangeValue _ _ _ _)

end
end IncrVerif.Proofs.MapOldH
