import IncrVerif.Proofs.DriverH7
import IncrVerif.Proofs.ExpertH61
/-!
# Drivers, `expert_add_dependency` between two effects, part 2: the NECESSARY expert node, and `addSpec`

The struct-level version of `ExpertH.addDep_nec`: the child is linked at once (`becameNecessary` cascade), heights are
adjusted, the node is queued; the real-state frames `NF`, `XF` are threaded along.
-/
namespace IncrVerif.Proofs.DriverH
open IncrVerif.Engine IncrVerif.Driver IncrVerif.Proofs IncrVerif.Proofs.Step IncrVerif.Proofs.Sched
open IncrVerif.Proofs.ExpertH IncrVerif.Proofs.ExpertH.QR IncrVerif.Proofs.Xp

set_option maxHeartbeats 1000000 in
theorem addSpec_nec {E : Env} {s s' : State} {fuel n c e dep : Nat} {cb : Bool} {nd : Node} {er : ExpertRec}
    (Md : Mid E s) (hx : IsExpert s n nd e er) (hnec : nd.isNecessary = true)
    (hc : c < s.nodes.size) (hacyc : ¬ ExpertH.Below s c n)
    (h : (expertAddDependency E fuel n c cb).run.run s = (.ok dep, s')) :
    Mid E s' ∧ EF (fun e' => e' = e) s s' ∧ dep = s.nextDep ∧ s'.nextDep = s.nextDep + 1 ∧
      (∃ er', s'.experts[e]? = some er' ∧ er'.children = er.children ++ [newEdge s c cb] ∧
        er'.script = er.script ∧ er'.sel = er.sel ∧ er'.forceStale = true) ∧
      (∀ m, s.isNecessary m = true → s'.isNecessary m = true) := by
  have F := Md.frag
  obtain ⟨rk, Q⟩ := Md.st
  have hD : s.nodeD n = nd := nodeD_of_some hx.node
  have hk : (s.nodeD n).kind = .expert e := by rw [hD]; exact hx.kind
  have hlt := F.lt_of_expert hk
  have xs : XS s s' := (PresS.expertAddDependency E fuel n c cb).h _ _ _ h
  rw [expertAddDependency_necessary_factor E fuel n c cb hx hnec] at h
  -- the bookkeeping step, in the virtual state
  obtain ⟨rk', A2⟩ := allStatic_added (cb := cb) F Q.static hk hx.xrec hc hacyc
  have R := rekind_added (c := c) (cb := cb) F hk hx.xrec
  have F2 : XFrag E (addedState e er c cb s) := F.added hx.xrec
  have hnn : (virt s).isNecessary n = true := by
    rw [virt_isNecessary]; simp only [State.isNecessary, hD]; exact hnec
  have hkids0 : kids ((virt s).nodeD n).kind = er.children.map (·.child) := virt_kids_expert hk hx.xrec
  have hst2 := staleOf_added R
  have I2 := GInv.open_extend Q R A2 hnn (c := c) (by rw [hkids0]; rfl) hst2
  have hklen : (kids ((virt s).nodeD n).kind).length = er.children.length := by rw [hkids0, List.length_map]
  rw [hklen] at I2
  -- it suffices to frame the tail of the call
  suffices key : ∃ rk'', Struct (virtEnv E) rk'' (virt s') ∧ Fr s' ∧ AhhEmpty s' ∧
      NF (addedState e er c cb s) s' ∧ XF (addedState e er c cb s) s' ∧ dep = s.nextDep by
    obtain ⟨rk'', S', fr', hA', nf, xf, hdep⟩ := key
    obtain ⟨ef, hnd, hrec, hnc⟩ := ef_added (c := c) (cb := cb) hx.xrec nf xf xs
    exact ⟨mid_added Md hx.xrec nf xf fr' hA' S', ef, hdep, hnd, hrec, hnc⟩
  have hp2 : (addedState e er c cb s).propagateInvalidity = [] := Md.pinv
  have hA2 : AhhEmpty (addedState e er c cb s) := ahhEmpty_of_ahf Md.ahh (AhF.of_nodes rfl rfl)
  have hnum2 : ∀ m, ((addedState e er c cb s).nodeD m).numOnUpdateHandlers ≤ 0 := Md.handlers
  clear xs
  generalize hs2 : addedState e er c cb s = s2 at h R F2 A2 I2 hst2 hp2 hA2 hnum2 ⊢
  have hkind2 : ((virt s2).nodeD n).kind = addedKind er c := R.kind_self
  have hkid2 : (kids ((virt s2).nodeD n).kind)[er.children.length]? = some c := by
    rw [hkind2, kids_addedKind]
    rw [List.getElem?_append_right (by rw [List.length_map]; exact Nat.le_refl _)]
    simp
  have hother2 : ∀ c' i, (n, i) ∈ ((virt s2).nodeD c').parents →
      ((virt s2).nodeD c').height < ((virt s2).nodeD n).height := by
    intro c' i hm
    rw [R.parents] at hm
    rw [R.height, R.height]; exact Q.hlt c' n i hm rfl
  have hg2 : ((virt s2).nodeD n).inRch = true → ((virt s2).nodeD n).heightInRch = ((virt s2).nodeD n).height := by
    intro hq
    rw [R.inRch] at hq
    rw [R.heightInRch, R.height]; exact Q.hgt n hq rfl
  have h02 : 0 ≤ ((virt s2).nodeD n).height := by rw [R.height]; exact Q.hpos n hnn rfl
  have fr2 : Fr s2 := F2.fr hp2
  -- peel the run
  obtain ⟨_, s5, hsap, h⟩ := bind_ok_inv h
  unfold stateAddParent at hsap
  rw [run_bind_get] at hsap
  replace hsap := bind_dassert_inv hsap
  obtain ⟨_, s3, hap, hsap⟩ := bind_ok_inv hsap
  -- the linking cascade
  obtain ⟨hv3, fr3⟩ := Sim.addParentWithoutAdjustingHeights E fuel c er.children.length n s2 fr2 _ s3 hap
  obtain ⟨I3, hn3, -, hp3, hedge3, hother3⟩ := link_phase I2 hkid2 hother2 hv3
  have hA3 : AhhEmpty s3 :=
    ahhEmpty_of_ahf hA2 ((PresAh.addParentWithoutAdjustingHeights E fuel c er.children.length n).h _ _ _ hap)
  have xf3 : XF s2 s3 := (PresX.addParentWithoutAdjustingHeights E fuel c er.children.length n).h _ _ _ hap
  have hf3 := (PresH.addParentWithoutAdjustingHeights E fuel c er.children.length n).h _ _ _ hap hnum2
  have cf3 : CFrame s2 s3 := ((PresF.link E fuel).2 c er.children.length n).h _ _ _ hap
  have fm3 : FM s2 s3 := (PresM.addParentWithoutAdjustingHeights E fuel c er.children.length n).h _ _ _ hap
  have nf3 : NF s2 s3 := NF.of_cframe cf3 hp3 hf3.1 (fr3.pc.trans fr2.pc.symm) fm3.nec
  have hkind3 : ((virt s3).nodeD n).kind = addedKind er c := by rw [hn3]; exact hkind2
  have hop3 : upd allClosed n (.linking (er.children.length + 1)) n = .linking (er.children.length + 1) :=
    upd_self ..
  -- heights
  obtain ⟨cn, hcn, hsap⟩ := bind_getNode_inv hsap
  obtain ⟨pn, hpn, hsap⟩ := bind_getNode_inv hsap
  have hcD : (virt s3).nodeD c = virtNode s3.experts cn := by rw [virt_nodeD, nodeD_of_some hcn]
  have hpD : (virt s3).nodeD n = virtNode s3.experts pn := by rw [virt_nodeD, nodeD_of_some hpn]
  dsimp only at hsap
  -- after the height phase: a state `s4` with all edges into `n` going upwards
  have key : ∃ s4, Fr s4 ∧ AhhEmpty s4 ∧ XF s3 s4 ∧ NF s3 s4 ∧
      GInv (virtEnv E) rk' (virt s4) (upd allClosed n (.linking (er.children.length + 1))) ∧
      (∀ c' i, (n, i) ∈ ((virt s4).nodeD c').parents →
        ((virt s4).nodeD c').height < ((virt s4).nodeD n).height) ∧
      (((virt s4).nodeD n).inRch = true → ((virt s4).nodeD n).heightInRch = ((virt s4).nodeD n).height) ∧
      0 ≤ ((virt s4).nodeD n).height ∧
      (∀ m, restKey ((virt s4).nodeD m) = restKey ((virt s3).nodeD m)) ∧
      (do propagateInvalidity fuel
          dassert ((← get).isNecessary n) "node:state_add_parent:parent-necessary"
          let p ← getNode n
          let c ← getNode c
          if !p.inRch && (p.recomputedAt == -1 || c.changedAt > p.recomputedAt) then
            rchInsert n : M Unit).run.run s4 = (.ok (), s5) := by
    have hg3 : ((virt s3).nodeD n).inRch = true →
        ((virt s3).nodeD n).heightInRch = ((virt s3).nodeD n).height := by rw [hn3]; exact hg2
    have h03 : 0 ≤ ((virt s3).nodeD n).height := by rw [hn3]; exact h02
    by_cases hge : cn.height ≥ pn.height
    · rw [if_pos hge] at hsap
      obtain ⟨_, s4, hadj, hsap⟩ := bind_ok_inv hsap
      obtain ⟨hv4, fr4⟩ := Sim.adjustHeights c n fuel s3 fr3 _ s4 hadj
      have hopen : upd allClosed n (.linking (er.children.length + 1)) n =
          .linking (kids ((virt s3).nodeD n).kind).length := by
        rw [hop3, hkind3, kids_addedKind]; simp
      obtain ⟨I4, hA4, hr, hh4, hg4⟩ := adjustHeights_specR hv4 I3 hopen
        (fun m hm => upd_other _ _ _ hm) ⟨_, hedge3⟩ hother3 hg3 h03 (ahhEmpty_virt.2 hA3)
      have sr : SR E s3 s4 := (PresR.adjustHeights (env := E) c n fuel).h _ _ _ hadj
      refine ⟨s4, fr4, ahhEmpty_virt.1 hA4, (PresX.adjustHeights c n fuel).h _ _ _ hadj,
        NF.of_hrel hr sr.kind sr.recomputedAt, I4, hh4, hg4,
        Int.le_trans h03 (hr.height n), fun m => restKey_of_nodeKey (hr.node m), hsap⟩
    · rw [if_neg hge] at hsap
      refine ⟨s3, fr3, hA3, XF.refl _, NF.refl _, I3, ?_, hg3, h03, fun _ => rfl, hsap⟩
      intro c' i hm
      by_cases hcc : c' = c
      · rw [hcc, hcD, hpD]
        show cn.height < pn.height
        omega
      · exact hother3 c' i hm hcc
  obtain ⟨s4, fr4, hA4, xf4, nf4, I4, hh4, hg4, h04, hrk4, hjp⟩ := key
  have hkind4 : ((virt s4).nodeD n).kind = addedKind er c := by
    have := hrk4 n; simp only [restKey, Prod.mk.injEq] at this; rw [this.1]; exact hkind3
  have hrec4 : ((virt s4).nodeD n).recomputedAt = -1 := by
    have := hrk4 n; simp only [restKey, Prod.mk.injEq] at this
    rw [this.2.2.1, hn3]; exact R.rec_self
  have hst4 : staleOf (virt s4) n = true := by
    unfold staleOf; rw [hkind4, hrec4]; simp [addedKind]
  have hlen4 : (kids ((virt s4).nodeD n).kind).length ≤ er.children.length + 1 := by
    rw [hkind4, kids_addedKind]; simp
  -- the end of the call
  obtain ⟨hdep, hcase⟩ := finish_phase hjp h fr4.pinv
  rcases hcase with ⟨hq, rfl⟩ | ⟨hnq, hins⟩
  · have S' := close_phase I4 hlen4 hh4 h04 hg4 hst4
      (Or.inl ⟨by rw [virt_nodeD]; exact hq, rfl⟩)
    exact ⟨rk', S', fr4, hA4, nf3.trans nf4, xf3.trans xf4, hdep⟩
  · obtain ⟨hv6, fr6⟩ := Sim.rchInsert n s4 fr4 _ s' hins
    have S' := close_phase I4 hlen4 hh4 h04 hg4 hst4
      (Or.inr ⟨by rw [virt_nodeD]; exact hnq, hv6⟩)
    obtain ⟨nd6, -, -, -, e6⟩ := rchInsert_ok_inv hins
    have nf6 : NF s4 s' := by rw [e6]; exact NF.inserted n _ s4
    exact ⟨rk', S', fr6, ahhEmpty_of_ahf hA4 ((PresAh.rchInsert n).h _ _ _ hins),
      (nf3.trans nf4).trans nf6, (xf3.trans xf4).trans ((PresX.rchInsert n).h _ _ _ hins), hdep⟩

/-- **`expert_add_dependency` between two effects of a running driver** -/
theorem addSpec (E : Env) : AddSpec E := by
  intro fuel x c e cb s s' dep er M hx hk hxe hc hacyc h
  have hisx : IsExpert s x (s.nodeD x) e er := ⟨some_of_lt hx, M.frag.valid x hx, hk, hxe⟩
  cases hnec : (s.nodeD x).isNecessary with
  | false => exact addSpec_unnec M hisx hnec hc hacyc h
  | true => exact addSpec_nec M hisx hnec hc hacyc h

end IncrVerif.Proofs.DriverH
