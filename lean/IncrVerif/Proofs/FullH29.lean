import IncrVerif.Proofs.FullH28
/-!
# C01 full fragment, the recompute step of a `map_ref` node, part 3: the step relation `StepRelB` of the virtual states
(port of `MRSetup`, `stepRel_quiet`, `stepRel_fire` of MapRef14 to the contract of graphs with binds)
-/
namespace IncrVerif.Proofs.FullH
open IncrVerif.Engine IncrVerif.Proofs IncrVerif.Proofs.Step IncrVerif.Proofs.Sched IncrVerif.Proofs.Quiet
open IncrVerif.Proofs.MapRefH (upd1 upd1_self upd1_other cleared cleared_nodeD cleared_started_nodeD After IsMapRef FM value_congr_mr)
open IncrVerif.Proofs.BindH (DInv BGraph StepRelB TargetB DKey NKey FrameB)
namespace MR

/-- the state-field frames of `VStep` -/
structure VFr (s s' : State) : Prop where
  key : KeyD s s'
  hah : BindH.BF.HAh s s'
  num : ∀ m, (s'.nodeD m).numOnUpdateHandlers = (s.nodeD m).numOnUpdateHandlers
  dk : BindH.C2k.DK 0 s s'

theorem VFr.trans {a b c : State} (h1 : VFr a b) (h2 : VFr b c) : VFr a c :=
  ⟨KeyD.trans h1.key h2.key, BindH.BF.HAh.trans h1.hah h2.hah, fun m => (h2.num m).trans (h1.num m), h1.dk.trans h2.dk⟩

/-- the frames of a `maybe_change_value_manual` -/
theorem VFr.mcvm {env : Env} {fuel n : Nat} {o : Option Val} {d b : Bool} {s s' : State} {r : Option Nat}
    (h : (maybeChangeValueManual env fuel n o d b).run.run s = (.ok r, s')) : VFr s s' :=
  ⟨(PresK.maybeChangeValueManual env fuel n o d b).h _ _ _ h, (BindH.BF.PresA.maybeChangeValueManual env fuel n o d b).h _ _ _ h,
    ((PresC.maybeChangeValueManual env fuel n o d b).h _ _ _ h).num,
    ((BindH.C2k.PresD.maybeChangeValueManual (b := 0) env fuel n o d b).h _ _ _ h).1⟩

section
variable {env : Env} {sp : Nat → Val → Val} {g : Nat → Option Val} {s : State}

/-- the facts of the map_ref step that do not depend on whether the node fires -/
structure MRS (env : Env) (sp : Nat → Val → Val) (g : Nat → Option Val) (s : State) (n p i : Nat) (vi : Val) : Prop where
  frag : FFrag env sp g s
  inv : DInv (VE env sp) (virt g s) (some n)
  lt : n < s.nodes.size
  kind : (s.nodeD n).kind = .mapRef p i
  nec : s.isNecessary n = true
  valid : (s.nodeD n).valid = true
  hvi : s.value env i = some vi
  htvi : tv g s i = some vi

variable {n p i : Nat} {vi : Val}

theorem MRS.value (S : MRS env sp g s n p i vi) : s.value env n = some (env.proj p vi) := by
  rw [value_mapRef S.frag S.valid S.kind, S.hvi]; rfl

theorem MRS.vkind (S : MRS env sp g s n p i vi) : ((virt g s).nodeD n).kind = .map (pBase + p) [i] := by
  rw [virt_nodeD, virtNode_kind, S.kind]; rfl

theorem MRS.target (S : MRS env sp g s n p i vi) : TargetB (VE env sp) (virt g s) n (env.proj p vi) := by
  unfold TargetB Target
  rw [S.vkind]
  refine ⟨[vi], ?_, by rw [virtEnv_fn_proj _ _ (S.frag.pid S.kind)]; rfl⟩
  rw [virt_plainVals]
  simp only [evalArgs, S.htvi]

/-- the virtual image of the state in which the notifications start -/
theorem MRS.upd (S : MRS env sp g s n p i vi) :
    Upd n (virt g s) (virt (upd1 g n (some (env.proj p vi))) (cleared n (started n s))) := by
  have hX := fun m => cleared_started_nodeD n m s S.lt
  refine ⟨by simp [virt_size, cleared, started], rfl, rfl, S.frag.pc, rfl, fun m hm => ?_, ?_, ?_⟩
  · rw [virt_nodeD, virt_nodeD, hX, if_neg hm, upd1_other _ _ _ hm]
  · rw [virt_nodeD, virt_nodeD, hX, if_pos rfl]
    refine ⟨?_, ?_, ?_, ?_, ?_, ?_, ?_, ?_⟩ <;>
      simp only [virtNode_kind, virtNode_createdIn, virtNode_valid, virtNode_cutoff, virtNode_height,
        virtNode_parents, virtNode_observers, virtNode_forceNecessary]
  · rw [virt_nodeD, virt_nodeD, hX, if_pos rfl]
    simp only [virtNode_heightInRch]

theorem MRS.xnode (S : MRS env sp g s n p i vi) :
    (virt (upd1 g n (some (env.proj p vi))) (cleared n (started n s))).nodeD n =
      virtNode (some (env.proj p vi))
        { s.nodeD n with recomputedAt := s.stabNum, value := none, didChange := false } := by
  rw [virt_nodeD, cleared_started_nodeD n n s S.lt, if_pos rfl, upd1_self]

/-- the frames of the base step -/
theorem MRS.vfr (S : MRS env sp g s n p i vi) :
    VFr (virt g s) (virt (upd1 g n (some (env.proj p vi))) (cleared n (started n s))) := by
  have hU := S.upd
  have hX := fun m => cleared_started_nodeD n m s S.lt
  have hnum : ∀ m, ((virt (upd1 g n (some (env.proj p vi))) (cleared n (started n s))).nodeD m).numOnUpdateHandlers =
      ((virt g s).nodeD m).numOnUpdateHandlers := by
    intro m
    rw [virt_nodeD, virt_nodeD, virtNode_num, virtNode_num, hX]
    split
    · rename_i e; rw [e]
    · rfl
  refine ⟨rfl, fun m => ?_, hnum, ?_⟩
  · rw [virt_nodeD, virt_nodeD, virtNode_heightInAhh, virtNode_heightInAhh, hX]
    split
    · rename_i e; rw [e]
    · rfl
  · refine ⟨rfl, rfl, rfl, rfl, rfl, rfl, rfl, rfl, fun hh => ⟨fun m => by rw [hnum]; exact hh m, rfl⟩,
      Nat.le_of_eq hU.size.symm, fun m _ => ?_, fun m h1 h2 => absurd h2 (by rw [hU.size]; omega)⟩
    have sh := hU.shapeAll m
    exact ⟨sh.kind, sh.createdIn, sh.observers⟩

/-- the flag is down: nothing happens; the virtual node keeps its value -/
theorem MRS.stepRel_quiet (S : MRS env sp g s n p i vi) (K : KInv env g s)
    (hd : (s.nodeD n).didChange = false) :
    StepRelB n (env.proj p vi) false none (virt g s)
      (virt (upd1 g n (some (env.proj p vi))) (cleared n (started n s))) := by
  have hU := S.upd
  have hk' : ({ s.nodeD n with recomputedAt := s.stabNum, value := none, didChange := false } : Node).kind
      = .mapRef p i := S.kind
  refine BindH.BS.stepRelB_of_quiet S.inv.graph hU rfl (Step.Quiet.refl _) ?_ ?_ ?_ (fun _ => ⟨?_, rfl⟩) (hU.heap S.inv.heap) rfl
    (fun m hm => Or.inl hm) (fun hc => by cases hc) (fun q hq => by cases hq)
  · rw [S.xnode, virtNode_value_mapRef _ _ hk']
  · rw [S.xnode, virtNode_recomputedAt]; rfl
  · rw [S.xnode, virtNode_changedAt, virt_nodeD, virtNode_changedAt]; simp
  · show tv g s n = _
    rw [tv_mapRef S.kind, K n p i S.valid S.nec S.kind hd, S.value]

/-- the fragment facts of the state in which the notifications start -/
theorem MRS.frX (S : MRS env sp g s n p i vi) (x : Option Val) :
    FFrag env sp (upd1 g n x) (cleared n (started n s)) :=
  (AfterF.cleared n s S.lt).frag S.frag S.lt x

/-- the recorded parents of `n` are valid -/
theorem MRS.parentsValid (S : MRS env sp g s n p i vi) :
    ∀ x ∈ ((cleared n (started n s)).nodeD n).parents, ((cleared n (started n s)).nodeD x.1).valid = true := by
  have A := (AfterF.cleared n s S.lt).a
  intro x hx
  rw [A.parents] at hx
  rw [A.valid]
  obtain ⟨p', ci⟩ := x
  have gr := S.inv.graph
  have hmem : (p', ci) ∈ ((virt g s).nodeD n).parents := by rw [virt_nodeD, virtNode_parents]; exact hx
  have hpn := (gr.parent n p' ci hmem).1
  have := (gr.nec p' hpn).1
  rwa [virt_nodeD, virtNode_valid] at this

/-- the flag is up: the node fires; the notification part is simulated by the virtual engine -/
theorem MRS.stepRel_fire (S : MRS env sp g s n p i vi) {fuel : Nat} {s' : State} {r : Option Nat}
    (h : (maybeChangeValueManual env fuel n none true false).run.run (cleared n (started n s)) = (.ok r, s')) :
    StepRelB n (env.proj p vi) true r (virt g s) (virt (upd1 g n (some (env.proj p vi))) s') ∧
      VFr (virt g s) (virt (upd1 g n (some (env.proj p vi))) s') := by
  have gr := S.inv.graph
  have hi := S.inv.heap
  have hvfr := S.vfr
  have frX := (S.frX (some (env.proj p vi))).fr
  have hxn := S.xnode
  generalize hg' : upd1 g n (some (env.proj p vi)) = g' at *
  have hUW := S.upd
  rw [hg'] at hUW
  obtain ⟨hsim, -, -⟩ := SimAt.mcvm (sp := sp) (g := g') env fuel (fuel + 1) n none none true false (Or.inl (Nat.succ_pos _))
    (Or.inr S.parentsValid) frX r s' h
  generalize hW : virt g' (cleared n (started n s)) = W at hUW hsim hvfr hxn
  -- now as in `BS.mcv_stepB`, on the virtual run
  have hlt : n < (virt g s).nodes.size := by rw [virt_size]; exact S.lt
  have hltW : n < W.nodes.size := by rw [hUW.size]; exact hlt
  have q : Step.Quiet (touched n W) (virt g' s') := mcvm_true_quiet _ _ _ _ _ _ _ _ hsim
  have hUT : Upd n (virt g s) (touched n W) := hUW.touched
  have hbW : W.binds = (virt g s).binds := by rw [← hW]; rfl
  have hbT : (touched n W).binds = (virt g s).binds := hbW
  have eT : (touched n W).nodeD n = { W.nodeD n with changedAt := W.stabNum } := by
    rw [touched_nodeD, if_pos ⟨rfl, hltW⟩]
  have hk' : ({ s.nodeD n with recomputedAt := s.stabNum, value := none, didChange := false } : Node).kind
      = .mapRef p i := S.kind
  have hparT : ((touched n W).nodeD n).parents = ((virt g s).nodeD n).parents := hUT.shape.parents
  have hpar : ∀ q, q ∈ ((touched n W).nodeD n).parents.map (·.1) → BindH.BS.ParentOK (VE env sp) (touched n W) q := by
    intro q hq
    rw [hparT] at hq
    obtain ⟨⟨p', ci⟩, hmem, rfl⟩ := List.mem_map.1 hq
    have hpn := (gr.parent n p' ci hmem).1
    have h1 := BindH.BS.nec_lt hpn
    have h2 := (gr.nec p' hpn).1
    have h3 := (gr.node p' h1 h2).1
    have sh := hUT.shapeAll p'
    exact ⟨by rw [hUT.size]; exact h1, by rw [sh.valid]; exact h2, by rw [sh.kind]; exact h3,
      by rw [hUT.nec]; exact hpn⟩
  obtain ⟨k, hret⟩ := BindH.BS.mcvm_heapB (hUT.heap hi) hpar hsim
  have hpin := mcvm_parents (VE env sp) (fuel + 1) n _ W (virt g' s') r _ (some_of_lt hltW) hsim
  have hparW : (W.nodeD n).parents = ((virt g s).nodeD n).parents := hUW.shape.parents
  refine ⟨BindH.BS.stepRelB_of_quiet gr hUT hbT q ?_ ?_ ?_ (fun hc => by cases hc) k.heap k.qsize ?_ ?_ ?_,
    hvfr.trans (VFr.mcvm hsim)⟩
  · rw [eT, hxn]; exact virtNode_value_mapRef _ _ hk'
  · rw [eT, hxn]; show (virtNode _ _).recomputedAt = _; rw [virtNode_recomputedAt]; rfl
  · rw [eT, if_pos rfl]; exact hUW.stabNum
  · intro m hm
    rcases k.only m hm with h1 | h1
    · exact Or.inl h1
    · rw [hparT] at h1; exact Or.inr ⟨rfl, h1⟩
  · intro _ q' hq'
    rw [← hparW] at hq'
    rcases hpin q' hq' with h1 | h1
    · exact Or.inl h1.2
    · exact Or.inr h1.2.1
  · intro q' hq'
    obtain ⟨h1, h2, h3⟩ := hret q' hq'
    rw [hparT] at h1
    exact ⟨rfl, h1, h2, h3⟩

end
end MR
end IncrVerif.Proofs.FullH
