import IncrVerif.Proofs.MapRef2
/-!
# map_ref fragment, part 3: what `child_changed` does to the `didChange` flags

* `FM s s'`: flags only go up — kept by everything `maybe_change_value` does.
* `UpM W m c`: `m` is a map_ref node above `c` along recorded parent entries that lead through map_ref nodes only.
* `childChanged_flags`: a successful `child_changed p c ci old` (with `old` the value `c` read in the pre-state `s0`)
  raises the flag of every map_ref node at or above `p` whose read value differs between `s0` and now.
-/
namespace IncrVerif.Proofs.MapRefH
open IncrVerif.Engine IncrVerif.Proofs IncrVerif.Proofs.Step IncrVerif.Proofs.Sched IncrVerif.Proofs.Quiet

def IsMapRef : Kind → Prop
  | .mapRef _ _ => True
  | _ => False

theorem isMapRef_iff {k : Kind} : IsMapRef k ↔ ∃ p i, k = .mapRef p i := by
  cases k <;> simp [IsMapRef]

theorem not_isMapRef_iff {k : Kind} : ¬ IsMapRef k ↔ ∀ p i, k ≠ .mapRef p i := by
  rw [isMapRef_iff]; constructor
  · intro h p i e; exact h ⟨p, i, e⟩
  · rintro h ⟨p, i, e⟩; exact h p i e

/-! ## flags only go up -/

def FM (s s' : State) : Prop := ∀ m, (s.nodeD m).didChange = true → (s'.nodeD m).didChange = true

instance : Step.PreOrd FM := ⟨fun _ _ h => h, fun h1 h2 m h => h2 m (h1 m h)⟩

theorem FM.of_nodes {s s' : State} (h : s'.nodes = s.nodes) : FM s s' := by
  intro m hm; have : s'.nodeD m = s.nodeD m := by simp [State.nodeD, h]
  rw [this]; exact hm

theorem FM.modNode (s : State) (n : Nat) (f : Node → Node) (hf : ∀ x, x.didChange = true → (f x).didChange = true) :
    FM s { s with nodes := s.nodes.modify n f } := by
  intro m hm; rw [nodeD_modify]; split
  · exact hf _ hm
  · exact hm

theorem PresFM.modNode (n : Nat) (f : Node → Node) (hf : ∀ x, x.didChange = true → (f x).didChange = true) :
    Step.Pres FM (Engine.modNode n f) := by
  unfold Engine.modNode; exact Step.Pres.modify fun s => FM.modNode s n f hf

macro_rules
  | `(tactic| qleaf) =>
    `(tactic| ((with_reducible apply Step.Pres.modify); intro _; exact FM.of_nodes rfl))
macro_rules
  | `(tactic| qleaf) =>
    `(tactic| ((with_reducible apply PresFM.modNode); intro x hx; first | exact hx | (simp only [hx, Bool.true_or])))

macro "fm_leaf " n:ident : command =>
  `(macro_rules | `(tactic| qleaf) => `(tactic| with_reducible apply $n))

theorem PresFM.tick : Step.Pres FM Engine.tick := by unfold Engine.tick; qpres
fm_leaf PresFM.tick
theorem PresFM.logEv (e) : Step.Pres FM (Engine.logEv e) := by unfold Engine.logEv; qpres
fm_leaf PresFM.logEv
theorem PresFM.bumpCounter (f) : Step.Pres FM (Engine.bumpCounter f) := by unfold Engine.bumpCounter; qpres
fm_leaf PresFM.bumpCounter
theorem PresFM.modExpert (e f) : Step.Pres FM (Engine.modExpert e f) := by unfold Engine.modExpert; qpres
fm_leaf PresFM.modExpert
theorem PresFM.shouldCutoff (env n o v) : Step.Pres FM (Engine.shouldCutoff env n o v) := by
  unfold Engine.shouldCutoff; qpres
fm_leaf PresFM.shouldCutoff
theorem PresFM.edgeOnChange (env e edge) : Step.Pres FM (Engine.edgeOnChange env e edge) := by
  unfold Engine.edgeOnChange; qpres
fm_leaf PresFM.edgeOnChange
theorem PresFM.runEdgeCallback (env e i) : Step.Pres FM (Engine.runEdgeCallback env e i) := by
  unfold Engine.runEdgeCallback; qpres
fm_leaf PresFM.runEdgeCallback
theorem PresFM.rchLink (n) : Step.Pres FM (Engine.rchLink n) := by unfold Engine.rchLink; qpres
fm_leaf PresFM.rchLink
theorem PresFM.rchInsert (n) : Step.Pres FM (Engine.rchInsert n) := by unfold Engine.rchInsert; qpres
fm_leaf PresFM.rchInsert
theorem PresFM.rchMinHeight : Step.Pres FM Engine.rchMinHeight := by unfold Engine.rchMinHeight; qpres
fm_leaf PresFM.rchMinHeight
theorem PresFM.handleAfterStabilisation (n) : Step.Pres FM (Engine.handleAfterStabilisation n) := by
  unfold Engine.handleAfterStabilisation; qpres
fm_leaf PresFM.handleAfterStabilisation
theorem PresFM.maybeHandleAfterStabilisation (n) : Step.Pres FM (Engine.maybeHandleAfterStabilisation n) := by
  unfold Engine.maybeHandleAfterStabilisation; qpres
fm_leaf PresFM.maybeHandleAfterStabilisation

theorem PresFM.childChanged (env : Env) (fuel p c ci : Nat) (o : Option Val) :
    Step.Pres FM (Engine.childChanged env fuel p c ci o) := by
  induction fuel generalizing p c ci o with
  | zero => unfold Engine.childChanged; qpres
  | succ fuel ih =>
    unfold Engine.childChanged
    qpres
    all_goals (apply Step.Pres.forIn; intro a b; qpres; exact ih _ _ _ _)
fm_leaf PresFM.childChanged

theorem PresFM.parentIterCanRecomputeNow (p c : Nat) :
    Step.Pres FM (Engine.parentIterCanRecomputeNow p c) := by
  unfold Engine.parentIterCanRecomputeNow; qpres
fm_leaf PresFM.parentIterCanRecomputeNow

theorem PresFM.maybeChangeValueManual (env fuel n o d b) :
    Step.Pres FM (Engine.maybeChangeValueManual env fuel n o d b) := by
  unfold Engine.maybeChangeValueManual
  qpres
  all_goals (apply Step.Pres.forIn; intro a b; qpres)
fm_leaf PresFM.maybeChangeValueManual

theorem PresFM.maybeChangeValue (env fuel n v) : Step.Pres FM (Engine.maybeChangeValue env fuel n v) := by
  unfold Engine.maybeChangeValue; qpres


/-! ## `child_changed` raises the flags of the map_ref nodes whose projection changed -/

/-- `m` is a map_ref node above `c`, through recorded parent entries leading through map_ref nodes only -/
inductive UpM (W : State) : Nat → Nat → Prop
  | base {c p ci : Nat} : (p, ci) ∈ (W.nodeD c).parents → IsMapRef (W.nodeD p).kind → UpM W p c
  | step {c p ci m : Nat} : (p, ci) ∈ (W.nodeD c).parents → IsMapRef (W.nodeD p).kind → UpM W m p → UpM W m c

/-- recorded parent entries of map_ref parents are real child edges -/
def EdgeOK (W : State) : Prop :=
  ∀ c p ci pr i, (p, ci) ∈ (W.nodeD c).parents → (W.nodeD p).kind = .mapRef pr i → i = c

/-- what `m` reads in `W` is not what it read in `s0` -/
def Changed (env : Env) (s0 W : State) (m : Nat) : Prop :=
  s0.value env m = none ∨ s0.value env m ≠ W.value env m

/-- the setting: `s0` the state before the step (old values), `W` the state in which the notifications start -/
structure CCtx (env : Env) (s0 W : State) : Prop where
  frag : RFrag env W
  frag0 : RFrag env s0
  kind0 : ∀ m, (s0.nodeD m).kind = (W.nodeD m).kind
  edge : EdgeOK W

theorem _root_.IncrVerif.Proofs.Step.Quiet.value_eqM {s s' : State} (q : Step.Quiet s s') (env : Env) (m : Nat) : s'.value env m = s.value env m :=
  value_congr env s s' q.size (fun k => by
    simp only [valueCore, (q.node k).kind, (q.node k).valid, (q.node k).value]) m

theorem UpM.cases_head {W : State} {m c : Nat} (h : UpM W m c) :
    ∃ p ci, (p, ci) ∈ (W.nodeD c).parents ∧ IsMapRef (W.nodeD p).kind ∧ (m = p ∨ UpM W m p) := by
  cases h with
  | base h1 h2 => exact ⟨_, _, h1, h2, Or.inl rfl⟩
  | step h1 h2 h3 => exact ⟨_, _, h1, h2, Or.inr h3⟩

theorem PresFM.forward (env : Env) (fuel p : Nat) (o : Option Val) (l : List (Nat × Nat)) :
    Step.Pres FM (forwardChildChanged env fuel p o l) := by
  unfold forwardChildChanged
  qpres
  all_goals (apply Step.Pres.forIn; intro a b; qpres)

theorem PresQ.forward (env : Env) (fuel p : Nat) (o : Option Val) (l : List (Nat × Nat)) :
    Step.Pres Step.Quiet (forwardChildChanged env fuel p o l) := by
  unfold forwardChildChanged
  qpres
  all_goals (apply Step.Pres.forIn; intro a b; qpres)

theorem forward_cons (env : Env) (fuel p : Nat) (o : Option Val) (a : Nat × Nat) (l : List (Nat × Nat)) :
    forwardChildChanged env fuel p o (a :: l) =
      (Engine.childChanged env fuel a.1 p a.2 o >>= fun _ => forwardChildChanged env fuel p o l) := by
  obtain ⟨pp, ci⟩ := a
  unfold forwardChildChanged
  rw [List.forIn_cons]
  simp only [bind_assoc, pure_bind]

/-- the flag statement for one `child_changed` call -/
def CCPost (env : Env) (s0 W : State) (fuel : Nat) : Prop :=
  ∀ p c ci oldOpt t t' u, (Engine.childChanged env fuel p c ci oldOpt).run.run t = (.ok u, t') →
    Step.Quiet W t → (p, ci) ∈ (W.nodeD c).parents → (∀ o, oldOpt = some o → s0.value env c = some o) →
    IsMapRef (W.nodeD p).kind → ∀ m, (m = p ∨ UpM W m p) → Changed env s0 W m → (t'.nodeD m).didChange = true

/-- the forwarding loop, given the statement for the recursive calls -/
theorem forward_flags {env : Env} {s0 W : State} {fuel : Nat} (ih : CCPost env s0 W fuel) (p : Nat)
    (selfOld : Option Val) (hold : ∀ o, selfOld = some o → s0.value env p = some o) :
    ∀ (l : List (Nat × Nat)) t t' u, (forwardChildChanged env fuel p selfOld l).run.run t = (.ok u, t') →
      Step.Quiet W t → (∀ a, a ∈ l → a ∈ (W.nodeD p).parents) →
      ∀ a, a ∈ l → IsMapRef (W.nodeD a.1).kind → ∀ m, (m = a.1 ∨ UpM W m a.1) → Changed env s0 W m →
        (t'.nodeD m).didChange = true := by
  intro l
  induction l with
  | nil => intro t t' u _ _ _ a ha; cases ha
  | cons a0 l ihl =>
    intro t t' u h q hmem a ha hmr m hm hch
    rw [forward_cons] at h
    obtain ⟨u1, t1, h1, h2⟩ := bind_ok_inv h
    have q1 : Step.Quiet t t1 := (Step.Pres.childChanged ..).h _ _ _ h1
    rcases List.mem_cons.1 ha with rfl | ha'
    · have := ih a.1 p a.2 selfOld t t1 u1 h1 q (hmem a (List.mem_cons_self ..)) hold hmr m hm hch
      exact (PresFM.forward env fuel p selfOld l).h _ _ _ h2 m this
    · exact ihl t1 t' u h2 (q.trans q1) (fun b hb => hmem b (List.mem_cons_of_mem _ hb)) a ha' hmr m hm hch


theorem logged_nil (s : State) : logged [] s = s := rfl

/-- **the flags.** A successful `child_changed p c ci old` on a recorded map_ref parent `p` of `c`, where `old` is
what `c` read in `s0`, raises the `didChange` flag of every map_ref node at or above `p` whose read value is not
the one of `s0`. -/
theorem childChanged_flags {env : Env} {s0 W : State} (C : CCtx env s0 W) : ∀ fuel, CCPost env s0 W fuel := by
  intro fuel
  induction fuel with
  | zero => intro p c ci oldOpt t t' u h; unfold Engine.childChanged at h; cases h
  | succ fuel ih =>
    intro p c ci oldOpt t t' u h q hmem hold hmr m hm hch
    obtain ⟨pr, i, hk⟩ := isMapRef_iff.1 hmr
    have hic : i = c := C.edge c p ci pr i hmem hk
    subst hic
    have hpW : p < W.nodes.size := C.frag.lt_of_mapRef hk
    have hpt : p < t.nodes.size := by rw [q.size]; exact hpW
    have hnd := some_of_lt hpt
    have hkt : (t.nodeD p).kind = .mapRef pr i := by rw [(q.node p).kind]; exact hk
    have hvt : (t.nodeD p).valid = true := by rw [(q.node p).valid]; exact C.frag.valid p hpW
    have hk? : (t.nodeD p).kind? = some (.mapRef pr i) := by simp [Node.kind?, hvt, hkt]
    -- the child has a value
    have hcv : ∃ cn, t.value env i = some cn := by
      have h' := h
      unfold Engine.childChanged at h'
      rw [run_bind_ok (run_getNode_some hnd), hk?] at h'
      dsimp only at h'
      obtain ⟨cn, t1, h1, -⟩ := bind_ok_inv h'
      rw [run_valueUnwrap] at h1
      cases hv : t.value env i with
      | none => rw [hv] at h1; cases h1
      | some x => exact ⟨x, rfl⟩
    obtain ⟨cn, hcn⟩ := hcv
    have hcnW : W.value env i = some cn := by rw [← q.value_eqM env i]; exact hcn
    have hparents : (t.nodeD p).parents = (W.nodeD p).parents := (q.node p).parents
    -- what `p` read before and reads now
    have hk0 : (s0.nodeD p).kind = .mapRef pr i := by rw [C.kind0]; exact hk
    have hp0 : s0.value env p = (s0.value env i).map (env.proj pr) := value_mapRef C.frag0 hk0
    have hpW' : W.value env p = some (env.proj pr cn) := by rw [value_mapRef C.frag hk, hcnW]; rfl
    rw [childChanged_mapRef_run env fuel p i ci oldOpt t (t.nodeD p) pr i cn hnd hk? hcn] at h
    -- the recursive calls
    have fwd : ∀ (selfOld : Option Val) (t2 : State),
        (forwardChildChanged env fuel p selfOld (W.nodeD p).parents).run.run t2 = (.ok u, t') →
        Step.Quiet W t2 → (∀ o, selfOld = some o → s0.value env p = some o) →
        ((t2.nodeD p).didChange = true ∨ ¬ Changed env s0 W p) → (t'.nodeD m).didChange = true := by
      intro selfOld t2 h2 q2 hso hflag
      rcases hm with rfl | hup
      · rcases hflag with hf | hf
        · exact (PresFM.forward env fuel m selfOld _).h _ _ _ h2 m hf
        · exact absurd hch hf
      · obtain ⟨pp, ci', hpm, hpk, hmm⟩ := hup.cases_head
        exact forward_flags ih p selfOld hso _ t2 t' u h2 q2 (fun _ h => h) (pp, ci') hpm hpk m hmm hch
    have qor : ∀ (d : Bool) (x : State), Step.Quiet x (orDidChange p d x) :=
      fun d x => Step.Quiet.modNode x p _ (by nodesame)
    have hor : ∀ (d : Bool) (x : State), p < x.nodes.size →
        ((orDidChange p d x).nodeD p).didChange = ((x.nodeD p).didChange || d) := by
      intro d x hx
      show (({ x with nodes := x.nodes.modify p _ } : State).nodeD p).didChange = _
      rw [nodeD_modify, if_pos ⟨rfl, hx⟩]
    cases oldOpt with
    | none =>
      dsimp only at h
      rw [hparents] at h
      refine fwd none _ h (q.trans (qor true t)) (fun o ho => by cases ho) (Or.inl ?_)
      rw [hor true t hpt]; simp
    | some o =>
      dsimp only at h
      have hpc : t.panicCountdown = none := q.pc C.frag.pc
      have hcut : (t.nodeD p).cutoff = .eq := by rw [(q.node p).cutoff]; exact C.frag.cut p pr i hk
      rw [shouldCutoff_run env p _ _ t _ hnd hpc] at h
      have hverd : cutoffVerdict env t p (env.proj pr o) (env.proj pr cn) = some (env.proj pr o == env.proj pr cn) := by
        unfold cutoffVerdict; rw [hcut]
      have hlog : cutoffLog env t p (env.proj pr o) (env.proj pr cn) = [] := by
        unfold cutoffLog; rw [hcut]
      rw [hverd, hlog, logged_nil] at h
      dsimp only at h
      rw [hparents] at h
      have hs0i : s0.value env i = some o := hold o rfl
      refine fwd (some (env.proj pr o)) _ h (q.trans (qor _ t)) ?_ ?_
      · intro o' ho'; cases ho'; rw [hp0, hs0i]; rfl
      · rw [hor _ t hpt]
        by_cases hne : env.proj pr o = env.proj pr cn
        · right
          rintro (hc | hc)
          · rw [hp0, hs0i] at hc; cases hc
          · apply hc; rw [hp0, hs0i, hpW', Option.map_some, hne]
        · left
          have : (env.proj pr o == env.proj pr cn) = false := by simpa using hne
          rw [this]; simp

end IncrVerif.Proofs.MapRefH
