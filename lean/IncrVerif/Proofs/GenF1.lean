import IncrVerif.Proofs.OnceF4
import IncrVerif.Proofs.NestH107
/-!
# C03, combined fragment, part 1: dead generations

`GenF.Dead s n`: node `n` exists, was created by the closure of bind `b` (`createdIn = .bind b`: the scope field written once by `createNode`), the record of `b`
exists, and `n` is NOT in the record's current generation list `allNodesCreatedOnRhs`.
`dead_invalid_q` / `dead_invalid_d`: with the invariant between API actions `QInvFE` / the drain invariant `DInvF` of the combined fragment a dead node is invalid
(`NestH.All2.gen` of the virtual state: the registered nodes of a bind are exactly the valid nodes of its scope).
`stabilise_noDead`: no step of the drain of a `stabilise` is on a dead node.  `mono_runActions`: `Inval.Mono` along every history, whatever the actions.
-/
namespace IncrVerif.Proofs.GenF
open IncrVerif.Engine IncrVerif.Driver IncrVerif.Proofs IncrVerif.Proofs.Step IncrVerif.Proofs.Sched IncrVerif.Proofs.Quiet
open IncrVerif.Proofs.FullH IncrVerif.Proofs.TidyH IncrVerif.Proofs.OnceF
open IncrVerif.Proofs.NestH (All2 AuxS2 Aux2 F2Inv QG2 QI2 QInv2)

/-- **node `n` belongs to a dead generation in state `s`**: it was created by the closure of some bind `b` whose record no longer lists it -/
def Dead (s : State) (n : Nat) : Prop :=
  n < s.nodes.size ∧ ∃ b br, (s.nodeD n).createdIn = .bind b ∧ s.binds[b]? = some br ∧ n ∉ br.allNodesCreatedOnRhs

/-- the registered nodes of bind `b` in state `s` (the model's `allNodesCreatedOnRhs`) -/
def Reg (s : State) (b n : Nat) : Prop := ∃ br, s.binds[b]? = some br ∧ n ∈ br.allNodesCreatedOnRhs

theorem dead_invalid_all2 {env : Env} {rk : Nat → Nat} {g : Nat → Option Val} {s : State} {n : Nat}
    (A : All2 env rk (virt g s) []) (h : Dead s n) : (s.nodeD n).valid = false := by
  obtain ⟨hn, b, br, hc, hb, hnot⟩ := h
  cases hv : (s.nodeD n).valid with
  | false => rfl
  | true =>
    exfalso
    have := (A.gen b br hb n).2 ⟨by rw [virt_size]; exact hn, by rw [virt_nodeD, virtNode_valid]; exact hv,
      by rw [virt_nodeD, virtNode_createdIn]; exact hc⟩
    rcases this with h1 | ⟨h1, -⟩
    · exact hnot h1
    · cases h1

/-- a registered node is a valid node of the bind's scope -/
theorem reg_facts_all2 {env : Env} {rk : Nat → Nat} {g : Nat → Option Val} {s : State} {b n : Nat}
    (A : All2 env rk (virt g s) []) (h : Reg s b n) :
    n < s.nodes.size ∧ (s.nodeD n).valid = true ∧ (s.nodeD n).createdIn = .bind b := by
  obtain ⟨br, hb, hm⟩ := h
  have := (A.gen b br hb n).1 (Or.inl hm)
  rw [virt_size, virt_nodeD, virtNode_valid, virtNode_createdIn] at this
  exact this

section
variable {env : Env} {sp : Nat → Val → Val}

theorem all2_of_q {s : State} (Q : QInvFE env sp s) : ∃ g rk, All2 (VE env sp) rk (virt g s) [] := by
  obtain ⟨g, Q⟩ := Q
  obtain ⟨⟨rk, Qv⟩, -⟩ := Q.q
  exact ⟨g, rk, Qv.f2.frag⟩

theorem all2_of_d {t s : State} {g : Nat → Option Val} {x : Option Nat} (D : DInvF env sp t s g x) :
    ∃ rk, All2 (VE env sp) rk (virt g s) [] := by
  obtain ⟨⟨rk, A⟩, -, -⟩ := D.aux
  exact ⟨rk, A.frag⟩

/-- **DEAD ⇒ INVALID, between API actions** -/
theorem dead_invalid_q {s : State} {n : Nat} (Q : QInvFE env sp s) (h : Dead s n) : (s.nodeD n).valid = false := by
  obtain ⟨g, rk, A⟩ := all2_of_q Q
  exact dead_invalid_all2 A h

/-- **DEAD ⇒ INVALID, at every state of a drain** -/
theorem dead_invalid_d {t s : State} {g : Nat → Option Val} {x : Option Nat} {n : Nat} (D : DInvF env sp t s g x) (h : Dead s n) :
    (s.nodeD n).valid = false := by
  obtain ⟨rk, A⟩ := all2_of_d D
  exact dead_invalid_all2 A h

theorem reg_facts_q {s : State} {b n : Nat} (Q : QInvFE env sp s) (h : Reg s b n) :
    n < s.nodes.size ∧ (s.nodeD n).valid = true ∧ (s.nodeD n).createdIn = .bind b := by
  obtain ⟨g, rk, A⟩ := all2_of_q Q
  exact reg_facts_all2 A h

/-- conversely: between API actions, an existing invalid node of a scope whose bind record exists is dead -/
theorem invalid_scope_dead_q {s : State} {b n : Nat} {br : BindRec} (Q : QInvFE env sp s) (hn : n < s.nodes.size)
    (hc : (s.nodeD n).createdIn = .bind b) (hb : s.binds[b]? = some br) (hv : (s.nodeD n).valid = false) : Dead s n := by
  refine ⟨hn, b, br, hc, hb, fun hm => ?_⟩
  have := (reg_facts_q Q ⟨br, hb, hm⟩).2.1
  rw [hv] at this; cases this

/-- NO DEAD-GENERATION NODE RUNS, for the run `s → s'` of `stabilise env fuel`: `t2` = the state in which the drain starts; no step of the drain is on a node that is dead
in the state in which the step starts; no node of the trace is dead in the final state; every node that is dead in the state in which some step starts is invalid there;
and a node that is invalid (e.g. dead) when `stabilise` is called is not in the trace -/
def NoDeadStab (env : Env) (fuel : Nat) (s s' : State) : Prop :=
  ∃ t1 t2 t3,
    (addNewObservers env fuel).run.run { s with status := .stabilising } = (.ok (), t1) ∧
    (unlinkDisallowedObservers fuel).run.run t1 = (.ok (), t2) ∧
    (drainHeap env fuel).run.run t2 = (.ok (), t3) ∧ (stabiliseEnd env fuel).run.run t3 = (.ok (), s') ∧
    (drainSteps env fuel t2).map (·.1) = drainTrace env fuel t2 ∧
    (∀ p, p ∈ drainSteps env fuel t2 → ¬ Dead p.2 p.1) ∧
    (∀ p, p ∈ drainSteps env fuel t2 → ∀ m, Dead p.2 m → (p.2.nodeD m).valid = false) ∧
    (∀ m, m ∈ drainTrace env fuel t2 → ¬ Dead s' m) ∧
    (∀ m, m < s.nodes.size → (s.nodeD m).valid = false → m ∉ drainTrace env fuel t2)

theorem stabilise_noDead (E : EnvS env sp) (hF : FirstFn env) {fuel : Nat} {s s' : State} (Q : QInvFE env sp s)
    (h : (stabilise env fuel).run.run s = (.ok (), s')) : NoDeadStab env fuel s s' := by
  obtain ⟨O, -, Q'⟩ := stabilise_c02 E hF Q h
  obtain ⟨g, Q⟩ := Q
  obtain ⟨t1, t2, t3, g2, g3, h1, h2, h3, h4, -, -, R, -, -, -⟩ := stabilise_onceF (kit E hF) Q h
  obtain ⟨u1, u2, u3, k1, k2, k3, k4, -, hend, -, hstep, -⟩ := O
  have e1 : u1 = t1 := by have := k1.symm.trans h1; cases this; rfl
  subst e1
  have e2 : u2 = t2 := by have := k2.symm.trans h2; cases this; rfl
  subst e2
  refine ⟨u1, u2, t3, h1, h2, h3, h4, drainSteps_fst env fuel u2, fun p hp hd => ?_, fun p hp m hd => ?_, fun m hm hd => ?_,
    fun m hm hv hmem => ?_⟩
  · obtain ⟨gp, Dp, -⟩ := R.steps p hp
    have := dead_invalid_d Dp hd
    rw [(hstep p hp).2.1] at this; cases this
  · obtain ⟨gp, Dp, -⟩ := R.steps p hp
    exact dead_invalid_d Dp hd
  · have := dead_invalid_q Q' hd
    rw [(hend m hm).2.2] at this; cases this
  · have q := (Inval.Call.mono (.stabilise env fuel)).h s (.ok ()) s' h
    have := q.keep m hm hv
    rw [(hend m hmem).2.2] at this; cases this

end

/-! ## `Inval.Mono` along histories -/

theorem Mono.refl' (s : State) : Inval.Mono s s := ⟨Nat.le_refl _, fun _ _ h => h, fun _ _ _ h => h⟩

theorem Mono.trans' {a b c : State} (h1 : Inval.Mono a b) (h2 : Inval.Mono b c) : Inval.Mono a c where
  size := Nat.le_trans h1.size h2.size
  keep m hm h := h2.keep m (Nat.lt_of_lt_of_le hm h1.size) (h1.keep m hm h)
  dead m hm h hv := h2.dead m (Nat.lt_of_lt_of_le hm h1.size) (h1.keep m hm h) (h1.dead m hm h hv)

/-- every history, whatever its actions: no node is removed, an invalid node stays invalid (and without value if it had none) -/
theorem mono_runActions (env : Env) : ∀ (acts : List Action) (s s' : State) (tk tk' : Array Nat),
    Quiet.runActions env acts s tk = .ok (s', tk') → Inval.Mono s s' := by
  intro acts
  induction acts with
  | nil => intro s s' tk tk' h; simp only [Quiet.runActions] at h; cases h; exact Mono.refl' s
  | cons a as ih =>
    intro s s' tk tk' h
    simp only [Quiet.runActions] at h
    rcases hx : (stepAction env a tk).run.run s with ⟨_ | r, s1⟩
    · rw [hx] at h; cases h
    · rw [hx] at h
      exact Mono.trans' ((NestH.T2i.PresMono.stepAction env a tk).h s _ s1 hx) (ih s1 s' r.2 tk' h)

end IncrVerif.Proofs.GenF
