import IncrVerif.Proofs.DriverH4
/-!
# Drivers, part 3: the contracts of the two halves of `StepSpec`
-/
namespace IncrVerif.Proofs.DriverH
open IncrVerif.Engine IncrVerif.Driver IncrVerif.Proofs IncrVerif.Proofs.Step IncrVerif.Proofs.Sched
open IncrVerif.Proofs.ExpertH IncrVerif.Proofs.ExpertH.QR IncrVerif.Proofs.EffH

/-- one `recomputeOne` of a `map` node with a user function (possibly a DRIVER: its effects rewire expert nodes) -/
def StepMapSpec (env : Env) : Prop :=
  ∀ (fuel n f : Nat) (args : List Nat) (s s' : State) (r : Option Nat), DD env s (some n) →
    (s.nodeD n).kind = .map f args → f < fnZip →
    (recomputeOne env fuel n).run.run s = (.ok r, s') →
    DD env s' r ∧ DStep s s' ∧ ((virt s').nodeD n).recomputedAt = s.stabNum

/-- one `recomputeOne` of any other node of the fragment (`const`, `var`, built-in `map`, `fold`, `expert`) -/
def StepOtherSpec (env : Env) : Prop :=
  ∀ (fuel n : Nat) (s s' : State) (r : Option Nat), DD env s (some n) →
    (∀ f args, (s.nodeD n).kind = .map f args → fnZip ≤ f) →
    (recomputeOne env fuel n).run.run s = (.ok r, s') →
    DD env s' r ∧ DStep s s' ∧ ((virt s').nodeD n).recomputedAt = s.stabNum

theorem stepSpec_of {env : Env} (h1 : StepMapSpec env) (h2 : StepOtherSpec env) : StepSpec env := by
  intro fuel n s s' r D h
  by_cases hk : ∃ f args, (s.nodeD n).kind = .map f args ∧ f < fnZip
  · obtain ⟨f, args, hk, hf⟩ := hk
    exact h1 fuel n f args s s' r D hk hf h
  · refine h2 fuel n s s' r D ?_ h
    intro f args hk'
    rcases Nat.lt_or_ge f fnZip with hf | hf
    · exact absurd ⟨f, args, hk', hf⟩ hk
    · exact hf

end IncrVerif.Proofs.DriverH
