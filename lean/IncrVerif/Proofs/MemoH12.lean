import IncrVerif.Proofs.MemoH11
/-!
# K3, invalidation part (2): `invalidateNode` in run form, `propagateInvalidity`

`inval_run`: invalidating a node that is not hereditarily static keeps `J` (`RegScoped` ∧ `TopValid`);
`sbi_not_stop`: a valid node that `should_be_invalidated` is not `STop` (its invalid child would be);
`prop_pres`: `propagateInvalidity` is a `GJ PT` step.
-/
namespace IncrVerif.Proofs.MemoH
open IncrVerif.Engine IncrVerif.Proofs.Obs IncrVerif.Proofs.Memo
namespace KA

theorem inval_run (fuel n : Nat) (s : State) (r : Except Panic Unit) (s' : State)
    (h : (invalidateNode fuel n).run.run s = (r, s')) (hj : J s) (hn : ¬ STop s n) : Fut s s' ∧ J s' := by
  by_cases hlt : n < s.nodes.size
  · exact (inval_pres fuel n).h s r s' h hj ⟨hlt, hn⟩
  · have hnone : s.nodes[n]? = none := Array.getElem?_eq_none (Nat.le_of_not_lt hlt)
    cases fuel with
    | zero =>
      unfold Engine.invalidateNode at h
      rw [run_throw] at h
      cases h; exact ⟨Fut.refl _, hj⟩
    | succ fuel =>
      unfold Engine.invalidateNode at h
      have hg : (getNode n).run.run s = (.error (.site "model:no-such-node"), s) := by
        unfold Engine.getNode
        rw [run_bind, run_get]
        dsimp only
        rw [hnone]
        rfl
      rw [run_bind, hg] at h
      cases h; exact ⟨Fut.refl _, hj⟩

/-- a valid hereditarily static node whose inputs are all valid is not invalidated by `propagate_invalidity` -/
theorem sbi_not_stop {s : State} (hj : J s) {n : Nat} (hv : (s.nodeD n).valid = true)
    (hs : s.shouldBeInvalidated n = true) : ¬ STop s n := by
  intro hst
  have hk : (s.nodeD n).kind? = some (s.nodeD n).kind := by simp [Node.kind?, hv]
  have hkids := hst.kids
  have hstat := hst.static
  unfold State.shouldBeInvalidated State.children at hs
  rw [hk] at hs
  cases hkind : (s.nodeD n).kind <;> rw [hkind] at hs hstat hkids <;> simp only [StaticK] at hstat
  all_goals simp only [kindRefs] at hkids
  all_goals simp only [Bool.false_eq_true, List.any_eq_true, Bool.not_eq_true'] at hs
  all_goals
    obtain ⟨c, hc, hcv⟩ := hs
    have := hj.tv c (hkids c hc).2
    rw [hcv] at this
    cases this

/-- a run from one given state -/
def PresAt (R : State → State → Prop) {α} (m : M α) (s : State) : Prop :=
  ∀ r s', m.run.run s = (r, s') → R s s'

theorem Pres.at {R : State → State → Prop} {α} {m : M α} (h : Pres R m) (s : State) : PresAt R m s :=
  fun r s' e => h.h s r s' e

theorem PresAt.bind {R : State → State → Prop} [PreOrd R] {α β} {x : M α} {f : α → M β} {s : State}
    (hx : PresAt R x s) (hf : ∀ a, Pres R (f a)) : PresAt R (x >>= f) s := by
  intro r s' h
  rw [run_bind] at h
  rcases hx' : x.run.run s with ⟨r1, s1⟩
  rw [hx'] at h
  have h1 := hx r1 s1 hx'
  cases r1 with
  | ok a => exact PreOrd.trans h1 ((hf a).h s1 r s' h)
  | error e => cases h; exact h1

theorem bind_get_at {R : State → State → Prop} {β} (f : State → M β) (h : ∀ s0, PresAt R (f s0) s0) :
    Pres R (get >>= f) := by
  constructor
  intro s r s' e
  rw [run_bind, run_get] at e
  exact h s r s' e

theorem prop_pres (fuel : Nat) : Pres (GJ PT) (propagateInvalidity fuel) := by
  induction fuel with
  | zero => unfold Engine.propagateInvalidity; mpres
  | succ fuel ih =>
    unfold Engine.propagateInvalidity
    refine Pres.bind Pres.get fun l => ?_
    split
    · exact Pres.pure _
    · refine Pres.bind (by mleaf) fun _ => ?_
      refine bind_get_at _ fun s0 => ?_
      dsimp only
      split
      · split
        · refine PresAt.bind ?_ fun _ => ih
          intro r s' h hj _
          exact inval_run _ _ _ _ _ h hj (sbi_not_stop hj (by assumption) (by assumption))
        · refine Pres.at ?_ _
          mpres
          all_goals exact ih
      · exact Pres.at ih _

end KA
end IncrVerif.Proofs.MemoH
