import IncrVerif.Proofs.PerKeyH7
/-!
# Per-key operators, kind-twins part 3: transfer for PAIRS of states, `QInv`/`DInv` shells, and the kind-agnostic pieces
of `DInv (penv env) (V s)` from the structural invariant of the virtual twin

`KK t u t' u'`: wherever the kinds of `t` and `u` agree, those of `t'` and `u'` agree.
-/
namespace IncrVerif.Proofs.PerKeyH
open IncrVerif.Engine IncrVerif.Driver IncrVerif.Proofs IncrVerif.Proofs.Step IncrVerif.Proofs.Sched
open IncrVerif.Proofs.ExpertH IncrVerif.Proofs.EffH IncrVerif.Proofs.ExpertH.QR

/-- wherever the kinds of `t` and `u` agree, those of `t'` and `u'` agree -/
def KK (t u t' u' : State) : Prop :=
  ∀ m, (u.nodeD m).kind = (t.nodeD m).kind → (u'.nodeD m).kind = (t'.nodeD m).kind

theorem KK.of_all {t u t' u' : State} (h : ∀ m, (u'.nodeD m).kind = (t'.nodeD m).kind) : KK t u t' u' :=
  fun m _ => h m

namespace Kin
variable {t t' u u' : State}

/-! ## node relations -/

theorem nodeSame (K : Kin t t') (L : Kin u u') (hk : KK t u t' u') {m : Nat}
    (h : NodeSame (t.nodeD m) (u.nodeD m)) : NodeSame (t'.nodeD m) (u'.nodeD m) where
  kind := hk m h.kind
  createdIn := by rw [L.createdIn, K.createdIn]; exact h.createdIn
  cutoff := by rw [L.cutoff, K.cutoff]; exact h.cutoff
  value := by rw [L.value, K.value]; exact h.value
  valid := by rw [L.valid, K.valid]; exact h.valid
  recomputedAt := by rw [L.recomputedAt, K.recomputedAt]; exact h.recomputedAt
  changedAt := by rw [L.changedAt, K.changedAt]; exact h.changedAt
  height := by rw [L.height, K.height]; exact h.height
  parents := by rw [L.parents, K.parents]; exact h.parents
  observers := by rw [L.observers, K.observers]; exact h.observers
  forceNecessary := by rw [L.forceNecessary, K.forceNecessary]; exact h.forceNecessary
  oldState := by rw [L.oldState, K.oldState]; exact h.oldState
  inRch := by rw [L.inRch, K.inRch]; exact h.inRch

theorem sameShape (K : Kin t t') (L : Kin u u') (hk : KK t u t' u') {m : Nat}
    (h : SameShape (t.nodeD m) (u.nodeD m)) : SameShape (t'.nodeD m) (u'.nodeD m) where
  kind := hk m h.kind
  createdIn := by rw [L.createdIn, K.createdIn]; exact h.createdIn
  valid := by rw [L.valid, K.valid]; exact h.valid
  cutoff := by rw [L.cutoff, K.cutoff]; exact h.cutoff
  height := by rw [L.height, K.height]; exact h.height
  parents := by rw [L.parents, K.parents]; exact h.parents
  observers := by rw [L.observers, K.observers]; exact h.observers
  forceNecessary := by rw [L.forceNecessary, K.forceNecessary]; exact h.forceNecessary

theorem nodeKey (K : Kin t t') (L : Kin u u') (hk : KK t u t' u') {m : Nat}
    (h : nodeKey (u.nodeD m) = nodeKey (t.nodeD m)) : ExpertH.QR.nodeKey (u'.nodeD m) = ExpertH.QR.nodeKey (t'.nodeD m) := by
  simp only [ExpertH.QR.nodeKey, Prod.mk.injEq] at h ⊢
  simp only [L.createdIn, K.createdIn, L.cutoff, K.cutoff, L.value, K.value, L.valid, K.valid, L.recomputedAt,
    K.recomputedAt, L.changedAt, K.changedAt, L.observers, K.observers, L.forceNecessary, K.forceNecessary,
    L.numOnUpdateHandlers, K.numOnUpdateHandlers]
  exact ⟨hk m h.1, h.2⟩

theorem nodeKeyP (K : Kin t t') (L : Kin u u') (hk : KK t u t' u') {m : Nat}
    (h : nodeKeyP (u.nodeD m) = nodeKeyP (t.nodeD m)) :
    ExpertH.QR.nodeKeyP (u'.nodeD m) = ExpertH.QR.nodeKeyP (t'.nodeD m) := by
  simp only [ExpertH.QR.nodeKeyP, Prod.mk.injEq] at h ⊢
  simp only [L.createdIn, K.createdIn, L.cutoff, K.cutoff, L.value, K.value, L.valid, K.valid, L.recomputedAt,
    K.recomputedAt, L.changedAt, K.changedAt, L.forceNecessary, K.forceNecessary,
    L.numOnUpdateHandlers, K.numOnUpdateHandlers]
  exact ⟨hk m h.1, h.2⟩

theorem stateKey (K : Kin t t') : stateKey t' = stateKey t := by
  simp only [ExpertH.QR.stateKey, K.vars, K.stObservers, K.stabNum, K.status, K.cfg, K.scope, K.setDuringStab,
    K.deadVars, K.newObservers, K.disallowedObservers, K.allObservers, K.top, K.handles, K.alive, K.rch, K.ahh,
    K.binds, K.memos, K.slots]

theorem stateKeyP (K : Kin t t') : stateKeyP t' = stateKeyP t := by
  simp only [ExpertH.QR.stateKeyP, K.vars, K.stabNum, K.status, K.cfg, K.scope, K.setDuringStab,
    K.deadVars, K.top, K.handles, K.alive, K.rch, K.ahh, K.binds, K.memos, K.slots]

/-! ## frames -/

theorem frameB (K : Kin t t') (L : Kin u u') (h : BindH.FrameB t u) : BindH.FrameB t' u' where
  stabNum := by rw [L.stabNum, K.stabNum]; exact h.stabNum
  vars := by rw [L.vars, K.vars]; exact h.vars
  grow := by rw [L.size, K.size]; exact h.grow
  ran m hm := by
    rw [K.recomputedAt, K.stabNum] at hm
    rw [L.recomputedAt, L.valid, K.stabNum, K.valid]; exact h.ran m hm

theorem cFrame (K : Kin t t') (L : Kin u u') (hk : KK t u t' u') (h : CFrame t u) : CFrame t' u' where
  size := by rw [L.size, K.size]; exact h.size
  node m := Kin.nodeKey K L hk (h.node m)
  key := by rw [L.stateKey, K.stateKey]; exact h.key
  pc := by rw [L.pc, K.pc]; exact h.pc

theorem pFrame (K : Kin t t') (L : Kin u u') (hk : KK t u t' u') (h : PFrame t u) : PFrame t' u' where
  size := by rw [L.size, K.size]; exact h.size
  node m := Kin.nodeKeyP K L hk (h.node m)
  key := by rw [L.stateKeyP, K.stateKeyP]; exact h.key
  pc := by rw [L.pc, K.pc]; exact h.pc

theorem lRel {X : Nat → Prop} (K : Kin t t') (L : Kin u u') (hk : KK t u t' u') (h : LRel X t u) :
    LRel X t' u' where
  fr := K.cFrame L hk h.fr
  pinv := by rw [L.pinv, K.pinv]; exact h.pinv
  par m x hx := by rw [K.parents] at hx; rw [L.parents]; exact h.par m x hx
  hgt m hX hn := by rw [K.isNecessary] at hn; rw [L.height, K.height]; exact h.hgt m hX hn

theorem uRel (K : Kin t t') (L : Kin u u') (hk : KK t u t' u') (h : URel t u) : URel t' u' where
  fr := K.cFrame L hk h.fr
  pinv := by rw [L.pinv, K.pinv]; exact h.pinv
  par m x hx := by rw [L.parents] at hx; rw [K.parents]; exact h.par m x hx

theorem ahF (K : Kin t t') (L : Kin u u') (h : AhF t u) : AhF t' u' where
  size := by rw [L.size, K.size]; exact h.size
  ahh := by rw [L.ahh, K.ahh]; exact h.ahh
  mark m := by rw [L.heightInAhh, K.heightInAhh]; exact h.mark m

theorem sameG (K : Kin t t') (L : Kin u u') (hk : KK t u t' u') (h : SameG t u) : SameG t' u' where
  pc := by rw [L.pc, K.pc]; exact h.pc
  scope := by rw [L.scope, K.scope]; exact h.scope
  size := by rw [L.size, K.size]; exact h.size
  rch := by rw [L.rch, K.rch]; exact h.rch
  vars := by rw [L.vars, K.vars]; exact h.vars
  node m := by
    have g := h.node m
    exact ⟨by rw [L.valid, K.valid]; exact g.valid, hk m g.kind, by rw [L.cutoff, K.cutoff]; exact g.cutoff,
      by rw [L.createdIn, K.createdIn]; exact g.createdIn,
      by rw [L.forceNecessary, K.forceNecessary]; exact g.forceNecessary,
      by rw [L.parents, K.parents]; exact g.parents, by rw [L.observers, K.observers]; exact g.observers,
      by rw [L.height, K.height]; exact g.height, by rw [L.heightInRch, K.heightInRch]; exact g.heightInRch,
      by rw [L.recomputedAt, K.recomputedAt]; exact g.recomputedAt,
      by rw [L.changedAt, K.changedAt]; exact g.changedAt⟩

/-! ## a run of a static node -/

theorem scopeClear (K : Kin t t') (L : Kin u u') {p : Nat} (h : BindH.ScopeClear t u p) :
    BindH.ScopeClear t' u' p := by
  intro b br hsc hb m hq
  rw [K.createdIn] at hsc; rw [K.binds] at hb; rw [L.inRch] at hq
  rw [K.height, K.height]; exact h b br hsc hb m hq

theorem handOK {env env' : Env} (K : Kin t t') (L : Kin u u') (hs : SK env t) (hs' : SK env' t') {n p : Nat}
    (h : BindH.HandOK t u n p) : BindH.HandOK t' u' n p := by
  rcases h with ⟨h1, h2⟩ | h | ⟨b, lc, h1, _⟩
  · exact Or.inl ⟨by rw [K.children (hs p) (hs' p)]; exact h1, K.scopeClear L h2⟩
  · refine Or.inr (Or.inl fun m hq => ?_)
    rw [L.inRch] at hq
    rw [K.height, K.height]; exact h m hq
  · have := hs p; rw [h1] at this; exact this.elim

theorem stepRelB {env env' : Env} (K : Kin t t') (L : Kin u u') (hk : KK t u t' u') (hs : SK env t)
    (hs' : SK env' t') {n : Nat} {v : Val} {ch : Bool} {r : Option Nat} (R : BindH.StepRelB n v ch r t u) :
    BindH.StepRelB n v ch r t' u' where
  size := by rw [L.size, K.size]; exact R.size
  vars := by rw [L.vars, K.vars]; exact R.vars
  binds := by rw [L.binds, K.binds]; exact R.binds
  stabNum := by rw [L.stabNum, K.stabNum]; exact R.stabNum
  pc := by rw [L.pc]; exact R.pc
  qsize := by rw [L.rch, K.rch]; exact R.qsize
  other m hm := K.nodeSame L hk (R.other m hm)
  shape := K.sameShape L hk R.shape
  value := by rw [L.value]; exact R.value
  recomputedAt := by rw [L.recomputedAt, K.stabNum]; exact R.recomputedAt
  changedAt := by rw [L.changedAt, K.stabNum, K.changedAt]; exact R.changedAt
  unch h := by rw [K.value]; exact R.unch h
  heap := L.heapInv R.heap
  newIn m hq := by
    rw [L.inRch] at hq
    rw [K.inRch, K.parents]; exact R.newIn m hq
  parentsIn h p hp := by
    rw [K.parents] at hp
    rw [L.inRch]; exact R.parentsIn h p hp
  ret p hp := by
    obtain ⟨h1, h2, h3, h4⟩ := R.ret p hp
    exact ⟨h1, by rw [K.parents]; exact h2, by rw [L.inRch]; exact h3, K.handOK L hs hs' h4⟩

/-- `Sched.StepRel` (the static-fragment version) -/
theorem stepRel (K : Kin t t') (L : Kin u u') (hk : KK t u t' u') {n : Nat} {v : Val} {ch : Bool} {r : Option Nat}
    (hmap : ∀ p f args, (t.nodeD p).kind = .map f args → ∃ f', (t'.nodeD p).kind = .map f' args)
    (R : StepRel n v ch r t u) : StepRel n v ch r t' u' where
  size := by rw [L.size, K.size]; exact R.size
  vars := by rw [L.vars, K.vars]; exact R.vars
  stabNum := by rw [L.stabNum, K.stabNum]; exact R.stabNum
  pc := by rw [L.pc]; exact R.pc
  qsize := by rw [L.rch, K.rch]; exact R.qsize
  other m hm := K.nodeSame L hk (R.other m hm)
  shape := K.sameShape L hk R.shape
  value := by rw [L.value]; exact R.value
  recomputedAt := by rw [L.recomputedAt, K.stabNum]; exact R.recomputedAt
  changedAt := by rw [L.changedAt, K.stabNum, K.changedAt]; exact R.changedAt
  unch h := by rw [K.value]; exact R.unch h
  heap := L.heapInv R.heap
  newIn m hq := by
    rw [L.inRch] at hq
    rw [K.inRch, K.parents]; exact R.newIn m hq
  parentsIn h p hp := by
    rw [K.parents] at hp
    rw [L.inRch]; exact R.parentsIn h p hp
  ret p hp := by
    obtain ⟨h1, h2, h3, h4⟩ := R.ret p hp
    refine ⟨h1, by rw [K.parents]; exact h2, by rw [L.inRch]; exact h3, ?_⟩
    rcases h4 with ⟨f, args, h5, h6⟩ | h4
    · obtain ⟨f', h7⟩ := hmap p f args h5
      exact Or.inl ⟨f', args, h7, h6⟩
    · refine Or.inr fun m hq => ?_
      rw [L.inRch] at hq
      rw [K.height, K.height]; exact h4 m hq

/-! ## a run of a change detector / driver: `StepP`, `DriverH.StepW` -/

theorem stepP {env env' : Env} {X : Nat → Prop} {n : Nat} (K : Kin t t') (L : Kin u u')
    (hs : SK env t) (hs' : SK env' t') (hu : SK env u) (hu' : SK env' u')
    (hk : ∀ m, m < t.nodes.size → ¬ X m → (u.nodeD m).kind = (t.nodeD m).kind →
      (u'.nodeD m).kind = (t'.nodeD m).kind)
    (R : StepP env X n t u) : StepP env' X n t' u' where
  grow := by rw [L.size, K.size]; exact R.grow
  vars := by rw [L.vars, K.vars]; exact R.vars
  binds := by rw [L.binds, K.binds]; exact R.binds
  stabNum := by rw [L.stabNum, K.stabNum]; exact R.stabNum
  graph' := L.bgraph R.graph' hu hu'
  heap' := L.heapInv R.heap'
  stamps' := L.stamps R.stamps'
  qstale' m hq := by
    rw [L.inRch] at hq
    rw [L.isStale (hu m) (hu' m)]; exact R.qstale' m hq
  pending' m hn hst := by
    rw [L.isNecessary] at hn; rw [L.isStale (hu m) (hu' m)] at hst
    rw [L.inRch]; exact R.pending' m hn hst
  notX := R.notX
  selfNec := by rw [L.isNecessary]; exact R.selfNec
  selfQ := by rw [L.inRch]; exact R.selfQ
  xOld x hx := by rw [K.size]; exact R.xOld x hx
  old m hm := by
    rw [K.size] at hm
    obtain ⟨h1, h2, h3, h4, h5⟩ := R.old m hm
    refine ⟨by rw [L.valid, K.valid]; exact h1, by rw [L.createdIn, K.createdIn]; exact h2,
      by rw [L.value, K.value]; exact h3, by rw [L.changedAt, K.changedAt]; exact h4, fun hX => ?_⟩
    obtain ⟨k1, k2, k3⟩ := h5 hX
    exact ⟨hk m hm hX k1, by rw [L.recomputedAt, K.recomputedAt]; exact k2,
      by rw [L.children (hu m) (hu' m), K.children (hs m) (hs' m)]; exact k3⟩
  rewired x hx := by
    obtain ⟨h1, h2, h3⟩ := R.rewired x hx
    exact ⟨by rw [K.children (hs x) (hs' x)]; exact h1, by rw [L.isStale (hu x) (hu' x)]; exact h2,
      by rw [L.recomputedAt, K.stabNum]; exact h3⟩
  new m h1 h2 := by
    rw [K.size] at h1; rw [L.size] at h2
    rw [L.recomputedAt]; exact R.new m h1 h2

theorem stepW {env env' : Env} {X : Nat → Prop} {n : Nat} (K : Kin t t') (L : Kin u u')
    (hs : SK env t) (hs' : SK env' t') (hu : SK env u) (hu' : SK env' u')
    (hk : ∀ m, m < t.nodes.size → ¬ X m → (u.nodeD m).kind = (t.nodeD m).kind →
      (u'.nodeD m).kind = (t'.nodeD m).kind)
    (R : DriverH.StepW env X n t u) : DriverH.StepW env' X n t' u' where
  size := by rw [L.size, K.size]; exact R.size
  vars := by rw [L.vars, K.vars]; exact R.vars
  binds := by rw [L.binds, K.binds]; exact R.binds
  stabNum := by rw [L.stabNum, K.stabNum]; exact R.stabNum
  graph' := L.bgraph R.graph' hu hu'
  heap' := L.heapInv R.heap'
  stamps' := L.stamps R.stamps'
  qstale' m hq := by
    rw [L.inRch] at hq
    rw [L.isStale (hu m) (hu' m)]; exact R.qstale' m hq
  pending' m hn hst := by
    rw [L.isNecessary] at hn; rw [L.isStale (hu m) (hu' m)] at hst
    rw [L.inRch]; exact R.pending' m hn hst
  notX := R.notX
  selfNec := by rw [L.isNecessary]; exact R.selfNec
  selfQ := by rw [L.inRch]; exact R.selfQ
  old m hm := by
    rw [K.size] at hm
    obtain ⟨h1, h2, h3, h4, h5⟩ := R.old m hm
    refine ⟨by rw [L.valid, K.valid]; exact h1, by rw [L.createdIn, K.createdIn]; exact h2,
      by rw [L.value, K.value]; exact h3, by rw [L.changedAt, K.changedAt]; exact h4, fun hX => ?_⟩
    obtain ⟨k1, k2, k3⟩ := h5 hX
    exact ⟨hk m hm hX k1, by rw [L.recomputedAt, K.recomputedAt]; exact k2,
      by rw [L.children (hu m) (hu' m), K.children (hs m) (hs' m)]; exact k3⟩
  rewired x hx := by
    obtain ⟨h1, h2, h3⟩ := R.rewired x hx
    exact ⟨by rw [K.children (hs x) (hs' x)]; exact h1, by rw [L.isStale (hu x) (hu' x)]; exact h2,
      by rw [L.recomputedAt, K.stabNum]; exact h3⟩

/-! ## shells: everything of `QInv` / `DInv` but the value clause -/

theorem obsOK (K : Kin t t') (h : ObsOK t) : ObsOK t' := by
  unfold ObsOK at h ⊢
  rw [K.newObservers, K.disallowedObservers]
  exact {
    inRange := fun o ob ho => by rw [K.stObservers] at ho; rw [K.size]; exact h.inRange o ob ho
    mem := fun n o => by rw [K.observers, K.stObservers]; exact h.mem n o
    created := fun o ob ho => by rw [K.stObservers] at ho; exact h.created o ob ho
    newIn := fun o ho => by rw [K.stObservers]; exact h.newIn o ho
    dis := fun o ob ho => by rw [K.stObservers] at ho; exact h.dis o ob ho
    disIn := fun o ho => by rw [K.stObservers]; exact h.disIn o ho
    disNodup := h.disNodup }

/-- `QInv` transfers, given the value clause on the target side -/
theorem qInv {env env' : Env} {rk : Nat → Nat} (K : Kin t t') (Q : QInv env rk t) (hs' : SK env' t')
    (cons' : ∀ m, m < t'.nodes.size → Sched.staleOf t' m = false → Consistent env' t' m) : QInv env' rk t' where
  struct := K.struct Q.struct hs'
  vars := K.varsOK Q.vars
  obs := K.obsOK Q.obs
  now := by rw [K.stabNum]; exact Q.now
  stamps m := by rw [K.recomputedAt, K.changedAt, K.stabNum]; exact Q.stamps m
  varStamp c vc hc := by rw [K.vars] at hc; rw [K.stabNum]; exact Q.varStamp c vc hc
  cons := cons'
  status := by rw [K.status]; exact Q.status
  alive := by rw [K.alive]; exact Q.alive
  setDuringStab := by rw [K.setDuringStab]; exact Q.setDuringStab
  deadVars := by rw [K.deadVars]; exact Q.deadVars
  handleAfterStab := by rw [K.handleAfterStab]; exact Q.handleAfterStab
  handlers m := by rw [K.numOnUpdateHandlers]; exact Q.handlers m
  pinv := by rw [K.pinv]; exact Q.pinv
  top k n hk := by rw [K.top] at hk; rw [K.size]; exact Q.top k n hk

/-- `DInv` transfers, given the value clause on the target side -/
theorem dInv {env env' : Env} {x : Option Nat} (K : Kin t t') (I : BindH.DInv env t x) (hs : SK env t)
    (hs' : SK env' t')
    (cons' : ∀ m, m < t'.nodes.size → (t'.nodeD m).valid = true → t'.isStale m = false →
      BindH.ConsistentB env' t' m) : BindH.DInv env' t' x where
  graph := K.bgraph I.graph hs hs'
  heap := K.heapInv I.heap
  stamps := K.stamps I.stamps
  qstale m hq := by
    rw [K.inRch] at hq
    rw [K.isStale (hs m) (hs' m)]; exact I.qstale m hq
  pending m hn hst := by
    rw [K.isNecessary] at hn; rw [K.isStale (hs m) (hs' m)] at hst
    rw [K.inRch]; exact I.pending m hn hst
  cons := cons'
  fresh a d hb hd := by
    rw [K.isStale (hs d) (hs' d)] at hd
    rw [K.recomputedAt, K.stabNum]; exact I.fresh a d (K.below hs hs' hb) hd
  cur n hn := by
    obtain ⟨h1, h2⟩ := I.cur n hn
    refine ⟨by rw [K.isNecessary]; exact h1, fun d hd => ?_⟩
    rw [K.inRch]; exact h2 d (K.below hs hs' hd)

end Kin

/-! ## E. from the structural invariant of the virtual twin to `V s` -/

section
variable {env : Env} {rk : Nat → Nat} {l : List Event} {s : State}

/-- the structural invariant at rest moves from the virtual twin to the value-faithful virtual state -/
theorem struct_V (F : PFrag env s) (I : Struct (virtEnv (twEnv env)) rk (virt (twL l s))) :
    Struct (penv env) rk (V s) :=
  (kin_twin_V l s).struct I (sk_V F)

theorem gInv_V {op : Nat → Op} (F : PFrag env s) (I : GInv (virtEnv (twEnv env)) rk (virt (twL l s)) op) :
    GInv (penv env) rk (V s) op :=
  (kin_twin_V l s).gInv I (sk_V F)

theorem gInv_W {op : Nat → Op} (F : PFrag env s) (I : GInv (penv env) rk (V s) op) :
    GInv (virtEnv (twEnv env)) rk (virt (twL l s)) op :=
  (kin_twin_V l s).symm.gInv I (sk_virt_twin l F)

theorem allStatic_V (F : PFrag env s) (A : AllStatic (virtEnv (twEnv env)) rk (virt (twL l s))) :
    AllStatic (penv env) rk (V s) :=
  (kin_twin_V l s).allStatic A (sk_V F)

theorem varsOK_V (h : VarsOK (virt (twL l s))) : VarsOK (V s) := (kin_twin_V l s).varsOK h

theorem varsOK_W (h : VarsOK (V s)) : VarsOK (virt (twL l s)) := (kin_twin_V l s).symm.varsOK h

theorem heapInv_V (F : PFrag env s) (I : Struct (virtEnv (twEnv env)) rk (virt (twL l s))) : HeapInv (V s) :=
  (struct_V F I).heapInv

theorem bgraph_V (F : PFrag env s) (I : Struct (virtEnv (twEnv env)) rk (virt (twL l s)))
    (hv : VarsOK (V s)) : BindH.BGraph (penv env) (V s) :=
  DriverH.bgraph_of_struct (struct_V F I) hv

theorem graph_V (F : PFrag env s) (I : Struct (virtEnv (twEnv env)) rk (virt (twL l s)))
    (hv : VarsOK (V s)) : Graph (penv env) (V s) :=
  (struct_V F I).graph hv

/-- at rest exactly the necessary stale nodes are queued (`qstale`, and `pending` with no current node) -/
theorem queued_iff_V (F : PFrag env s) (I : Struct (virtEnv (twEnv env)) rk (virt (twL l s))) (m : Nat) :
    ((V s).nodeD m).inRch = true ↔ ((V s).isNecessary m = true ∧ (V s).isStale m = true) :=
  (struct_V F I).queued_iff m

theorem stamps_V (h : Stamps (virt (twL l s))) : Stamps (V s) := (kin_twin_V l s).stamps h

theorem ahhEmpty_V (h : AhhEmpty s) : AhhEmpty (V s) where
  length := h.length
  buckets := h.buckets
  marks m := by rw [V_nodeD, vNode_heightInAhh]; exact h.marks m

/-- staleness, necessity, children of the three views coincide -/
theorem W_isStale (m : Nat) : (virt (twL l s)).isStale m = s.isStale m := by
  rw [virt_isStale, KtwL_isStale]
theorem W_isNecessary (m : Nat) : (virt (twL l s)).isNecessary m = s.isNecessary m := by
  rw [virt_isNecessary, KtwL_isNecessary]
theorem W_children (m : Nat) : (virt (twL l s)).children m = s.children m := by
  rw [virt_children, KtwL_children]

end

end IncrVerif.Proofs.PerKeyH
