import IncrVerif.Proofs.DriverH6
import IncrVerif.Proofs.DriverH23
import IncrVerif.Proofs.DriverH3
/-!
# Drivers, `stabilise`, part 1: the two ends of the drain, frames of `DrvOK`

* `targetB_static`, `consB_of_cons`, `cons_of_consB`: the defining equations of the bind fragment and of the static
  fragment coincide on static kinds.
* `dinv_of_struct`: the state in which the drain starts (`QR.Struct`, stamps of earlier rounds, every non-stale node
  consistent) satisfies the drain invariant with a changing graph `BindH.DInv … none`.
* `struct_of_dinv`: conversely, `BindH.DInv … none` in the static fragment gives `QR.Struct`.
* `evalX_noEff`: `evalX` does not read the effects.
* `drvOK_frame`: `DrvOK` only reads sizes, kinds, `top`, and `children`/`script`/`sel` of the records, and `nextDep`
  from below.
-/
namespace IncrVerif.Proofs.DriverH
open IncrVerif.Engine IncrVerif.Driver IncrVerif.Proofs IncrVerif.Proofs.Step IncrVerif.Proofs.Sched
open IncrVerif.Proofs.ExpertH IncrVerif.Proofs.ExpertH.QR IncrVerif.Proofs.EffH

/-! ## defining equations -/

theorem targetB_static {env : Env} {s : State} {n : Nat} {v : Val} (hk : StaticKind env (s.nodeD n).kind) :
    BindH.TargetB env s n v ↔ Target env s n v := by
  unfold BindH.TargetB
  cases hkd : (s.nodeD n).kind <;> first | exact Iff.rfl | (rw [hkd] at hk; exact hk.elim)

theorem consB_of_cons {env : Env} {s : State} {n : Nat} (hk : StaticKind env (s.nodeD n).kind)
    (h : Consistent env s n) : BindH.ConsistentB env s n := by
  obtain ⟨v, ht, hv⟩ := h
  exact ⟨v, (targetB_static hk).2 ht, hv⟩

theorem cons_of_consB {env : Env} {s : State} {n : Nat} (hk : StaticKind env (s.nodeD n).kind)
    (h : BindH.ConsistentB env s n) : Consistent env s n := by
  obtain ⟨v, ht, hv⟩ := h
  exact ⟨v, (targetB_static hk).1 ht, hv⟩

/-! ## the two ends of the drain -/

/-- the state in which `drainHeap` starts satisfies the drain invariant with a changing graph -/
theorem dinv_of_struct {env : Env} {rk : Nat → Nat} {t : State} (S : Struct env rk t) (V : VarsOK t)
    (now : 0 ≤ t.stabNum)
    (st : ∀ m, (t.nodeD m).recomputedAt < t.stabNum ∧ (t.nodeD m).changedAt < t.stabNum)
    (vs : ∀ (c : Nat) (vc : VarCell), t.vars[c]? = some vc → vc.setAt ≤ t.stabNum)
    (cons : ∀ m, m < t.nodes.size → staleOf t m = false → Consistent env t m) : BindH.DInv env t none where
  graph := bgraph_of_struct S V
  heap := S.heapInv
  stamps := ⟨now, fun m => ⟨Int.le_of_lt (st m).1, Int.le_of_lt (st m).2⟩, vs⟩
  qstale m hm := by rw [GInv.isStale S (lt_size_of_inRch hm)]; exact S.qstale m hm
  pending m hm hs := Or.inl ((S.queued_iff m).2 ⟨hm, hs⟩)
  cons m hm _ hs := consB_of_cons (S.node hm).kind (cons m hm (by rw [← GInv.isStale S hm]; exact hs))
  fresh a _ _ _ := (st a).1
  cur _ h := by cases h

/-- the drain invariant with no current node, in the static fragment, gives the structural invariant at rest -/
theorem struct_of_dinv {env : Env} {rk : Nat → Nat} {t : State} (A : AllStatic env rk t)
    (I : BindH.DInv env t none) (nd : ∀ c, (t.nodeD c).parents.Nodup) : Struct env rk t := by
  have hst : ∀ m, m < t.nodes.size → t.isStale m = staleOf t m := fun m hm =>
    isStale_static t m (A.node m hm).valid (A.node m hm).kind
  refine struct_of_bgraph A I.graph I.heap nd (fun m hn hs => ?_) (fun m hq => ?_)
  · rw [← hst m (nec_lt_size hn)] at hs
    rcases I.pending m hn hs with h | h
    · exact h
    · cases h
  · rw [← hst m (lt_size_of_inRch hq)]; exact I.qstale m hq

/-! ## `evalX` and the effects -/

theorem evalX_noEff (env : Env) (s : State) (k n : Nat) : evalX (noEff env) s k n = evalX env s k n := by
  induction k generalizing n with
  | zero => rfl
  | succ k ih =>
    unfold evalX
    have : (fun a => evalX (noEff env) s k a) = (fun a => evalX env s k a) := funext ih
    rw [this]
    rfl

/-! ## frames of `DrvOK` -/

theorem kidsX_not_expert (xs xs' : Array ExpertRec) {k : Kind} (h : ∀ e, k ≠ .expert e) :
    kidsX xs' k = kidsX xs k := by
  cases k <;> first | rfl | exact absurd rfl (h _)

/-- below a node that has no expert node below it, the graph is the same in every state with the same kinds -/
theorem below_back' {s s' : State} (hk : ∀ m, (s'.nodeD m).kind = (s.nodeD m).kind) {a d : Nat}
    (h : ExpertH.Below s' a d) (hno : ∀ b, ExpertH.Below s a b → ∀ e, (s.nodeD b).kind ≠ .expert e) :
    ExpertH.Below s a d := by
  induction h with
  | refl a => exact .refl a
  | @step a b c hb _ ih =>
    have ha := hno a (.refl a)
    rw [hk a, kidsX_not_expert s.experts s'.experts ha] at hb
    exact .step hb (ih fun b' hb' => hno b' (.step hb hb'))

/-- what `DrvOK` reads of a state -/
structure DF (s s' : State) : Prop where
  size : s'.nodes.size = s.nodes.size
  kind : ∀ m, (s'.nodeD m).kind = (s.nodeD m).kind
  top : s'.top = s.top
  xrec : ∀ (e : Nat) (er : ExpertRec), s.experts[e]? = some er →
    ∃ er', s'.experts[e]? = some er' ∧ er'.children = er.children ∧ er'.script = er.script ∧ er'.sel = er.sel
  nextDep : s.nextDep ≤ s'.nextDep

theorem DF.refl (s : State) : DF s s := ⟨rfl, fun _ => rfl, rfl, fun _ er h => ⟨er, h, rfl, rfl, rfl⟩, Nat.le_refl _⟩

theorem DF.trans {a b c : State} (h1 : DF a b) (h2 : DF b c) : DF a c := by
  refine ⟨h2.size.trans h1.size, fun m => (h2.kind m).trans (h1.kind m), h2.top.trans h1.top, ?_,
    Nat.le_trans h1.nextDep h2.nextDep⟩
  intro e er he
  obtain ⟨er1, he1, c1, s1, l1⟩ := h1.xrec e er he
  obtain ⟨er2, he2, c2, s2, l2⟩ := h2.xrec e er1 he1
  exact ⟨er2, he2, c2.trans c1, s2.trans s1, l2.trans l1⟩

theorem DF.of_xf_xs {s s' : State} (h1 : XF s s') (h2 : XS s s') (ht : s'.top = s.top) : DF s s' := by
  refine ⟨h1.size, h1.kind, ht, ?_, Nat.le_of_eq h1.nextDep.symm⟩
  intro e er he
  obtain ⟨er', he', -, -, hc, -⟩ := h1.xrec he
  obtain ⟨er'', he'', hs, hl⟩ := h2.get he
  rw [he'] at he''; cases he''
  exact ⟨er', he', hc, hs, hl⟩

theorem DF.resOp {s s' : State} (h : DF s s') (o : Opnd) : resOp s' o = resOp s o := by
  cases o <;> simp only [DriverH.resOp, h.top]

theorem DF.drives {s s' : State} (h : DF s s') {n x : Nat} (d : Drives s n x) : Drives s' n x := by
  obtain ⟨hx, e, er, hk, hr, ed, hm, hc, hd, hs, hl⟩ := d
  obtain ⟨er', hr', c1, s1, l1⟩ := h.xrec e er hr
  refine ⟨by rw [h.size]; exact hx, e, er', by rw [h.kind]; exact hk, hr', ed, by rw [c1]; exact hm, hc,
    Nat.lt_of_lt_of_le hd h.nextDep, by rw [s1]; exact hs, fun d c hsel => hl d c (by rw [← l1]; exact hsel)⟩

theorem DF.ps {s s' : State} (h : DF s s') {c : Nat} (p : PS s c) : PS s' c := by
  refine ⟨by rw [h.size]; exact p.1, fun d hd e => ?_⟩
  rw [h.kind d]
  exact p.2 d (below_back' h.kind hd p.2) e

theorem DF.effOK {s s' : State} (h : DF s s') {n : Nat} {eff : Effect} (p : EffOK s n eff) : EffOK s' n eff := by
  cases eff with
  | xAdd eo co cb =>
    obtain ⟨x, c, h1, h2, h3, h4⟩ := p
    exact ⟨x, c, by rw [h.resOp]; exact h1, by rw [h.resOp]; exact h2, h.drives h3, h.ps h4⟩
  | xRm eo i =>
    obtain ⟨x, h1, h3⟩ := p
    exact ⟨x, by rw [h.resOp]; exact h1, h.drives h3⟩
  | xSel eo cb al targets =>
    obtain ⟨x, h1, h3, h4⟩ := p
    refine ⟨x, by rw [h.resOp]; exact h1, h.drives h3, fun t ht => ?_⟩
    obtain ⟨c, k1, k2⟩ := h4 t ht
    exact ⟨c, by rw [h.resOp]; exact k1, h.ps k2⟩
  | xStale eo =>
    obtain ⟨x, h1, h3⟩ := p
    exact ⟨x, by rw [h.resOp]; exact h1, h.drives h3⟩
  | _ => exact p.elim

/-- **`DrvOK` along a frame**: sizes, kinds, `top` equal; the records keep `children`, `script`, `sel`; `nextDep` does
not decrease -/
theorem drvOK_frame {env : Env} {s s' : State} (h : DF s s') (d : DrvOK env s) : DrvOK env s' := by
  intro n f args hn hk hf vals eff he
  exact h.effOK (d n f args (by rw [← h.size]; exact hn) (by rw [← h.kind]; exact hk) hf vals eff he)

end IncrVerif.Proofs.DriverH
