import IncrVerif.Proofs.FullH39
/-!
# C01 full fragment, stage S3: the `depend_on` invariant `DepInv` through the two phases of `stabilise` before the drain
-/
namespace IncrVerif.Proofs.FullH
open IncrVerif.Engine IncrVerif.Proofs IncrVerif.Proofs.Step IncrVerif.Proofs.Sched IncrVerif.Proofs.Quiet
open IncrVerif.Proofs.MapRefH

/-- kinds and stored values unchanged: every node virtually stores the same value (same ghost) -/
theorem tv_vframe {g : Nat → Option Val} {s s' : State} (v : VFrame s s') (m : Nat) : tv g s' m = tv g s m := by
  by_cases h : ∃ p i, (s.nodeD m).kind = .mapRef p i
  · obtain ⟨p, i, hk⟩ := h
    rw [tv_mapRef hk, tv_mapRef (s := s') (by rw [v.kind]; exact hk)]
  · have h1 : ∀ p i, (s.nodeD m).kind ≠ .mapRef p i := fun p i hk => h ⟨p, i, hk⟩
    rw [tv_not_mapRef h1, tv_not_mapRef (s := s') (fun p i => by rw [v.kind]; exact h1 p i), v.value]

/-- kinds, validity, cutoffs, stored values and stamps unchanged: the `depend_on` invariant is inherited (same ghost) -/
theorem DepInv.of_vframe {g : Nat → Option Val} {s s' : State} (v : VFrame s s') (D : DepInv g s) : DepInv g s' := by
  intro n a b x hv hk hc hch hval
  rw [v.valid] at hv; rw [v.kind] at hk; rw [v.cutoff] at hc; rw [v.chg, v.chg] at hch; rw [v.value] at hval
  rw [tv_vframe v]
  exact D n a b x hv hk hc hch hval

/-- recomputation stamps, stored values, kinds, validity unchanged and the same round: `CRl` is inherited -/
theorem CRl.of_vframe {s s' : State} (v : VFrame s s') (hn : s'.stabNum = s.stabNum) (C : CRl s) : CRl s' := by
  intro n hv hk hval hch
  rw [v.valid] at hv; rw [v.value] at hval; rw [v.chg, hn] at hch; rw [v.rcp, hn]
  exact C n hv (fun p i => by rw [← v.kind]; exact hk p i) hval hch

theorem UFr.depInv {g : Nat → Option Val} {s s' : State} (h : UFr s s') (D : DepInv g s) : DepInv g s' :=
  D.of_vframe h.sh.vf

/-- `add_new_observers` keeps the `depend_on` invariant (same ghost) -/
theorem addNewObservers_depInv {env : Env} {sp : Nat → Val → Val} {g : Nat → Option Val} {rk : Nat → Nat} {fuel : Nat}
    {s s' : State} (C : CFrag env sp g rk s) (T : Inherit env g s) (hp : s.propagateInvalidity = [])
    (K : KInv env g s) (D : DepInv g s) (h : (addNewObservers env fuel).run.run s = (.ok (), s')) : DepInv g s' := by
  obtain ⟨-, -, -, v⟩ := addNewObservers_keepsK C T hp K h
  exact D.of_vframe v

/-- `unlink_disallowed_observers` keeps the `depend_on` invariant (same ghost; no fragment hypothesis) -/
theorem unlinkDisallowedObservers_depInv {g : Nat → Option Val} {fuel : Nat} {s s' : State} (D : DepInv g s)
    (h : (unlinkDisallowedObservers fuel).run.run s = (.ok (), s')) : DepInv g s' :=
  (unlinkDisallowedObservers_ufr h).depInv D

end IncrVerif.Proofs.FullH
