import IncrVerif.Proofs.CutH25
-- Port of Proofs/Quiet20.lean to ARBITRARY cutoffs (scratch name T20); overview in Props/C06History.lean
/-!
# Part 20: total correctness — definitions and tools (port of `Proofs/Quiet20.lean` to arbitrary cutoffs)

`Tot x s Q`: the run of `x` from `s` RETURNS (no panic, fuel suffices) in a state satisfying `Q`.
`TInv N s`: what the "no panic" argument needs besides `QInv`: heights are bounded by the creation index,
both heaps have `N + 1` buckets, at most `N` nodes, every var is linked, `top` names every node.
-/
namespace IncrVerif.Proofs.CutH
open IncrVerif.Engine IncrVerif.Driver IncrVerif.Proofs IncrVerif.Proofs.Step IncrVerif.Proofs.Sched

/-- the run returns, in a state (and with a value) satisfying `Q` -/
def Tot {α} (x : M α) (s : State) (Q : α → State → Prop) : Prop :=
  ∃ a s', x.run.run s = (.ok a, s') ∧ Q a s'

section tot
variable {α β : Type} {x : M α} {s : State} {Q : α → State → Prop}

theorem Tot.of_ok {a : α} {s1 : State} (h : x.run.run s = (.ok a, s1)) (hq : Q a s1) : Tot x s Q :=
  ⟨a, s1, h, hq⟩

theorem Tot.mono {Q' : α → State → Prop} (T : Tot x s Q) (h : ∀ a t, Q a t → Q' a t) : Tot x s Q' := by
  obtain ⟨a, s1, h1, h2⟩ := T; exact ⟨a, s1, h1, h a s1 h2⟩

theorem Tot.bind {f : α → M β} {Q' : β → State → Prop} (hx : Tot x s Q)
    (hf : ∀ a s1, x.run.run s = (.ok a, s1) → Q a s1 → Tot (f a) s1 Q') : Tot (x >>= f) s Q' := by
  obtain ⟨a, s1, h1, h2⟩ := hx
  obtain ⟨b, s2, h3, h4⟩ := hf a s1 h1 h2
  exact ⟨b, s2, by rw [run_bind_ok h1]; exact h3, h4⟩

theorem Tot.bind_ok {f : α → M β} {Q' : β → State → Prop} {a : α} {s1 : State}
    (h : x.run.run s = (.ok a, s1)) (T : Tot (f a) s1 Q') : Tot (x >>= f) s Q' := by
  obtain ⟨b, s2, h3, h4⟩ := T
  exact ⟨b, s2, by rw [run_bind_ok h]; exact h3, h4⟩

theorem Tot.pure {a : α} (h : Q a s) : Tot (pure a : M α) s Q := ⟨a, s, run_pure a s, h⟩

theorem Tot.bind_get {f : State → M β} {Q' : β → State → Prop} (T : Tot (f s) s Q') :
    Tot ((MonadState.get : M State) >>= f) s Q' := Tot.bind_ok (run_get s) T

theorem Tot.bind_modify {g : State → State} {f : Unit → M β} {Q' : β → State → Prop}
    (T : Tot (f ()) (g s) Q') : Tot (modify g >>= f) s Q' := Tot.bind_ok (run_modify g s) T

theorem Tot.bind_modNode {n : Nat} {g : Node → Node} {f : Unit → M β} {Q' : β → State → Prop}
    (T : Tot (f ()) { s with nodes := s.nodes.modify n g } Q') : Tot (modNode n g >>= f) s Q' :=
  Tot.bind_ok (run_modNode n g s) T

theorem run_dassert_true {c : Bool} {site : String} (s : State) (hc : s.cfg.debug = true → c = true) :
    (dassert c site).run.run s = (.ok (), s) := by
  rw [run_dassert, if_neg]
  rintro ⟨hd, h⟩; rw [hc hd] at h; cases h

theorem Tot.bind_dassert {c : Bool} {site : String} {f : Unit → M β} {Q' : β → State → Prop}
    (hc : s.cfg.debug = true → c = true) (T : Tot (f ()) s Q') : Tot (Engine.dassert c site >>= f) s Q' :=
  Tot.bind_ok (run_dassert_true s hc) T

theorem Tot.bind_getNode {n : Nat} {f : Node → M β} {Q' : β → State → Prop} (hn : n < s.nodes.size)
    (T : Tot (f (s.nodeD n)) s Q') : Tot (Engine.getNode n >>= f) s Q' :=
  Tot.bind_ok (run_getNode_some (some_of_lt hn)) T

/-- the run of a `Tot` is that run -/
theorem Tot.elim (T : Tot x s Q) {r : Except Panic α} {s' : State} (h : x.run.run s = (r, s')) :
    ∃ a, r = .ok a ∧ Q a s' := by
  obtain ⟨a, s1, h1, h2⟩ := T
  rw [h1] at h; cases h; exact ⟨a, rfl, h2⟩

end tot

/-- forward loop rule: an invariant indexed by the number of iterations done; every iteration returns and yields -/
theorem forIn_tot {α β} (f : α → β → M (ForInStep β)) (l : List α) (I : Nat → β → State → Prop)
    (hstep : ∀ j a b t, l[j]? = some a → I j b t →
      ∃ b' t', (f a b).run.run t = (.ok (.yield b'), t') ∧ I (j + 1) b' t') :
    ∀ (rest : List α) (j : Nat) (b : β) (s : State), l.drop j = rest → j ≤ l.length → I j b s →
      ∃ b' s', (forIn rest b f).run.run s = (.ok b', s') ∧ I l.length b' s' := by
  intro rest
  induction rest with
  | nil =>
    intro j b s hd hle hI
    have : l.length ≤ j := List.drop_eq_nil_iff.1 hd
    have hj : j = l.length := by omega
    rw [hj] at hI
    exact ⟨b, s, by rw [List.forIn_nil, run_pure], hI⟩
  | cons a rest ih =>
    intro j b s hd hle hI
    have hj : l[j]? = some a := by
      have := congrArg List.head? hd
      simpa [List.head?_drop] using this
    have hlt : j < l.length := by
      rcases Nat.lt_or_ge j l.length with hlt | hge
      · exact hlt
      · rw [List.getElem?_eq_none hge] at hj; cases hj
    obtain ⟨b1, t1, h1, hI1⟩ := hstep j a b s hj hI
    have hd' : l.drop (j + 1) = rest := by
      have := congrArg List.tail hd
      simpa [List.tail_drop] using this
    obtain ⟨b2, s2, h2, hI2⟩ := ih (j + 1) b1 t1 hd' hlt hI1
    exact ⟨b2, s2, by rw [List.forIn_cons, run_bind_ok h1]; exact h2, hI2⟩

/-! ## the extra invariant -/

/-- closed necessary nodes are not higher than their creation index + 1 -/
def HBo (s : State) (op : Nat → Op) : Prop :=
  ∀ m, s.isNecessary m = true → op m = .closed → (s.nodeD m).height ≤ (m : Int) + 1

/-- both heaps have `N + 1` buckets and there are at most `N` nodes -/
structure Room (N : Nat) (s : State) : Prop where
  ahh : s.ahh.maxAllowed = (N : Int)
  rch : s.rch.maxAllowed = (N : Int)
  size : s.nodes.size ≤ N

structure TInv (N : Nat) (s : State) : Prop where
  hb : HBo s allClosed
  room : Room N s
  linked : ∀ (c : Nat) (vc : VarCell), s.vars[c]? = some vc → vc.linked = true
  topSize : s.top.size = s.nodes.size
  /-- the observers waiting to be added: no duplicates, each still `created` or already `unlinked` -/
  newNodup : s.newObservers.Nodup
  newState : ∀ (o : Nat) (ob : ObsRec), o ∈ s.newObservers → s.observers[o]? = some ob →
    ob.state = .created ∨ ob.state = .unlinked
  /-- the input of a `dependOn` cutoff exists (otherwise `should_cutoff` panics) -/
  dep : ∀ m i, (s.nodeD m).cutoff = .dependOn i → i < s.nodes.size

/-- the cutoffs the history language can install with `cutoff n c`: everything but `dependOn` -/
def PlainCut : CutoffK → Prop
  | .dependOn _ => False
  | _ => True

theorem Room.of_cframe {N : Nat} {s s' : State} (R : Room N s) (h : CFrame s s') : Room N s' := by
  have hk := h.key
  simp only [stateKey, Prod.mk.injEq] at hk
  have h1 : s'.rch.queues.size = s.rch.queues.size := hk.2.2.2.2.2.2.2.2.2.2.2.2.2.2.1
  have h2 : s'.ahh = s.ahh := hk.2.2.2.2.2.2.2.2.2.2.2.2.2.2.2.1
  exact ⟨by rw [h2]; exact R.ahh, by rw [← R.rch]; simp only [Heap.maxAllowed, h1], by rw [h.size]; exact R.size⟩

theorem Room.of_pframe {N : Nat} {s s' : State} (R : Room N s) (h : PFrame s s') : Room N s' := by
  have hk := h.key
  simp only [stateKeyP, Prod.mk.injEq] at hk
  have h1 : s'.rch.queues.size = s.rch.queues.size := hk.2.2.2.2.2.2.2.2.2.2.1
  have h2 : s'.ahh = s.ahh := hk.2.2.2.2.2.2.2.2.2.2.2.1
  exact ⟨by rw [h2]; exact R.ahh, by rw [← R.rch]; simp only [Heap.maxAllowed, h1], by rw [h.size]; exact R.size⟩

/-! ## actions whose indices exist -/

def OpndIn (s : State) : Opnd → Prop
  | .outer k => k < s.top.size
  | _ => False

def InstrIn (s : State) : Instr → Prop
  | .map _ args => ∀ a, a ∈ args → OpndIn s a
  | .fold _ _ cs => ∀ a, a ∈ cs → OpndIn s a
  | .zip a b => OpndIn s a ∧ OpndIn s b
  | .dependOn a b => OpndIn s a ∧ OpndIn s b
  | .cutoff n c => OpndIn s n ∧ PlainCut c
  | _ => True

/-- the action names existing things, there is room for a new node, and the fuel of `stabilise` suffices -/
def ActionOK (N : Nat) (s : State) : Action → Prop
  | .create (.cutoff n c) => InstrIn s (.cutoff n c)
  | .create i => InstrIn s i ∧ s.nodes.size + 1 ≤ N
  | .observe n => OpndIn s n
  | .dropObs o | .disallow o => o < s.observers.size
  | .set v _ | .modify v _ | .update v _ | .replace v _ | .replaceWith v _ | .get v => v < s.vars.size
  | .stabilise => 3 * s.nodes.size + 4 ≤ fuelDefault
  | _ => True

/-- how many nodes / var cells / observers an action adds -/
def grow : Action → Nat × Nat × Nat
  | .create (.var _) => (1, 1, 0)
  | .create (.cutoff _ _) => (0, 0, 0)
  | .create _ => (1, 0, 0)
  | .observe _ => (0, 0, 1)
  | _ => (0, 0, 0)

/-- the sizes after an action -/
def Grown (a : Action) (s s' : State) : Prop :=
  s'.nodes.size = s.nodes.size + (grow a).1 ∧ s'.vars.size = s.vars.size + (grow a).2.1 ∧
    s'.observers.size = s.observers.size + (grow a).2.2

end IncrVerif.Proofs.CutH
