import IncrVerif.Proofs.PerKeyH111
/-! # Per-key operators, non-vacuity examples (continued): family `P0` (see `EX1.lean`) -/
namespace IncrVerif.Proofs.PerKeyH
open IncrVerif.Engine IncrVerif.Driver IncrVerif.Proofs IncrVerif.Proofs.ExpertH
open IncrVerif.Props.C14History IncrVerif.Proofs.ExpertH.QR

/-! ## `P0`: `F(k, v) = (2 v + k) mod 7` (uses the key) -/

set_option maxRecDepth 100000 in
/-- after each `stabilise` with an in-use observer (`o0`; after the re-observation `o1`): (the read, the input map, the outer variable) -/
theorem exP0_io :
    ioAfter exEnvP ((exHistP 0).take 6) 0 = some (.map [(1, 0), (5, 5)], some (.map [(1, 3), (5, 0)]), some (.int 2)) ∧
    ioAfter exEnvP ((exHistP 0).take 8) 0 = some (.map [(1, 0), (5, 5), (6, 3)], some (.map [(1, 3), (5, 0), (6, 2)]), some (.int 2)) ∧
    ioAfter exEnvP ((exHistP 0).take 10) 0 = some (.map [(1, 2), (5, 5), (6, 3)], some (.map [(1, 4), (5, 0), (6, 2)]), some (.int 2)) ∧
    ioAfter exEnvP ((exHistP 0).take 12) 0 = some (.map [(1, 2), (6, 3)], some (.map [(1, 4), (6, 2)]), some (.int 2)) ∧
    ioAfter exEnvP ((exHistP 0).take 14) 0 = some (.map [(1, 2), (6, 3)], some (.map [(1, 4), (6, 2)]), some (.int 4)) ∧
    ioAfter exEnvP ((exHistP 0).take 23) 1 = some (.map [(1, 4), (8, 0), (9, 2)], some (.map [(1, 5), (8, 3), (9, 0)]), some (.int 4)) ∧
    ioAfter exEnvP (exHistP 0) 1 = some (.map [(1, 6), (9, 2)], some (.map [(1, 6), (9, 0)]), some (.int 5)) :=
  ⟨by decide +kernel, by decide +kernel, by decide +kernel, by decide +kernel, by decide +kernel, by decide +kernel,
    by decide +kernel⟩

/-- the reads alone -/
theorem exP0_reads :
    readAfter exEnvP ((exHistP 0).take 6) 0 = some (.map [(1, 0), (5, 5)]) ∧
    readAfter exEnvP ((exHistP 0).take 8) 0 = some (.map [(1, 0), (5, 5), (6, 3)]) ∧
    readAfter exEnvP ((exHistP 0).take 10) 0 = some (.map [(1, 2), (5, 5), (6, 3)]) ∧
    readAfter exEnvP ((exHistP 0).take 12) 0 = some (.map [(1, 2), (6, 3)]) ∧
    readAfter exEnvP ((exHistP 0).take 14) 0 = some (.map [(1, 2), (6, 3)]) ∧
    readAfter exEnvP ((exHistP 0).take 23) 1 = some (.map [(1, 4), (8, 0), (9, 2)]) ∧
    readAfter exEnvP (exHistP 0) 1 = some (.map [(1, 6), (9, 2)]) := by
  obtain ⟨h1, h2, h3, h4, h5, h6, h7⟩ := exP0_io
  exact ⟨readAfter_of_io h1, readAfter_of_io h2, readAfter_of_io h3, readAfter_of_io h4, readAfter_of_io h5,
    readAfter_of_io h6, readAfter_of_io h7⟩

/-- `f0 = lin 7 0 2 1` applied to (the per-key value, the key) -/
def F0 (k v : Int) : Int := (2 * v + k) % 7

/-- C16 on the example, with the function explicit: after each `stabilise` the in-use observer reads
`{k ↦ F(k, v) | (k, v) ∈ x}` for the current value of the input variable `x` (the input
values are those of `exP0_io`) -/
theorem exP0_spec :
    readAfter exEnvP ((exHistP 0).take 6) 0 = some (.map ([(1, 3), (5, 0)].map fun (k, v) => (k, F0 k v))) ∧
    readAfter exEnvP ((exHistP 0).take 8) 0 = some (.map ([(1, 3), (5, 0), (6, 2)].map fun (k, v) => (k, F0 k v))) ∧
    readAfter exEnvP ((exHistP 0).take 10) 0 = some (.map ([(1, 4), (5, 0), (6, 2)].map fun (k, v) => (k, F0 k v))) ∧
    readAfter exEnvP ((exHistP 0).take 12) 0 = some (.map ([(1, 4), (6, 2)].map fun (k, v) => (k, F0 k v))) ∧
    readAfter exEnvP ((exHistP 0).take 14) 0 = some (.map ([(1, 4), (6, 2)].map fun (k, v) => (k, F0 k v))) ∧
    readAfter exEnvP ((exHistP 0).take 23) 1 = some (.map ([(1, 5), (8, 3), (9, 0)].map fun (k, v) => (k, F0 k v))) ∧
    readAfter exEnvP (exHistP 0) 1 = some (.map ([(1, 6), (9, 0)].map fun (k, v) => (k, F0 k v))) := exP0_reads

end IncrVerif.Proofs.PerKeyH
