import IncrVerif.Proofs.TidyH53
import IncrVerif.Props.C14History
/-!
# T4, part 7: a decidable check of `ValidRun`, and the non-vacuity example
-/
namespace IncrVerif.Proofs.TidyH.XT
open IncrVerif.Engine IncrVerif.Driver IncrVerif.Proofs IncrVerif.Proofs.Step IncrVerif.Proofs.Sched
open IncrVerif.Proofs.ExpertH IncrVerif.Proofs.ExpertH.QR

def opndInB (s : State) : Opnd → Bool
  | .outer k => decide (k < s.top.size)
  | _ => false

theorem opndInB_sound {s : State} {o : Opnd} (h : opndInB s o = true) : OpndIn s o := by
  cases o
  case outer k =>
    have h' : decide (k < s.top.size) = true := h
    show k < s.top.size
    exact of_decide_eq_true h'
  all_goals simp [opndInB] at h

def instrInB (s : State) : Instr → Bool
  | .map _ args => args.all (opndInB s)
  | .fold _ _ cs => cs.all (opndInB s)
  | .zip a b => opndInB s a && opndInB s b
  | _ => true

theorem instrInB_sound {s : State} {i : Instr} (h : instrInB s i = true) : InstrIn s i := by
  cases i <;> first | trivial | skip
  case map f args => exact fun a ha => opndInB_sound (List.all_eq_true.1 h a ha)
  case fold f init cs => exact fun a ha => opndInB_sound (List.all_eq_true.1 h a ha)
  case zip a b =>
    simp only [instrInB, Bool.and_eq_true] at h
    exact ⟨opndInB_sound h.1, opndInB_sound h.2⟩

/-- the Boolean version of `ActionOKx` -/
def actionOKxB (N : Nat) (s : State) : Action → Bool
  | .create i => instrInB s i && decide (s.nodes.size + 1 ≤ N)
  | .observe n => opndInB s n
  | .dropObs o | .disallow o => decide (o < s.observers.size)
  | .set v _ | .modify v _ | .update v _ | .replace v _ | .replaceWith v _ | .get v => decide (v < s.vars.size)
  | .stabilise => decide (3 * s.nodes.size + 4 ≤ fuelDefault)
  | .addDep e c _ => opndInB s e && opndInB s c && decide (3 * s.nodes.size + 4 ≤ fuelDefault)
  | _ => true

theorem actionOKxB_sound {N : Nat} {s : State} {a : Action} (h : actionOKxB N s a = true) : ActionOKx N s a := by
  cases a <;> first | trivial | exact of_decide_eq_true (p := _ < _) h | exact of_decide_eq_true (p := _ ≤ _) h | skip
  case create i =>
    simp only [actionOKxB, Bool.and_eq_true, decide_eq_true_eq] at h
    exact ⟨instrInB_sound h.1, h.2⟩
  case observe n => exact opndInB_sound h
  case addDep e c cb =>
    simp only [actionOKxB, Bool.and_eq_true, decide_eq_true_eq] at h
    exact ⟨opndInB_sound h.1.1, opndInB_sound h.1.2, h.2⟩

/-- run the history on the model and check every action in the state in which it is executed -/
def validRunB (env : Env) (mapOK xOK : Nat → Bool) (N : Nat) : List Action → State → Array Nat → Bool
  | [], _, _ => true
  | a :: as, s, tk =>
    actionOKB mapOK xOK s a && actionOKxB N s a &&
      match (stepAction env a tk).run.run s with
      | (.ok r, s') => validRunB env mapOK xOK N as s' r.2
      | (.error _, _) => true

theorem validRunB_sound {env : Env} {mapOK xOK : Nat → Bool} {N : Nat}
    (hm : ∀ f, mapOK f = true → f < fnPerKey ∧ (f < fnZip → ∀ vals, env.fnEff f vals = []))
    (hx : ∀ f, xOK f = true → XEnvOK env f ∧ f < xBase) :
    ∀ (acts : List Action) (s : State) (tk : Array Nat), validRunB env mapOK xOK N acts s tk = true →
      ValidRun env N acts s tk := by
  intro acts
  induction acts with
  | nil => intro s tk _; trivial
  | cons a as ih =>
    intro s tk h
    simp only [validRunB, Bool.and_eq_true] at h
    refine ⟨actionOKB_sound hm hx h.1.1, actionOKxB_sound h.1.2, fun r s' hr => ?_⟩
    have h2 := h.2
    rw [hr] at h2
    exact ih s' r.2 h2

/-! ## non-vacuity: the example history of `Props/C14History.lean` -/

open IncrVerif.Props.C14History in
set_option maxRecDepth 100000 in
/-- `exHistX` (20 actions: an expert node created before its dependencies, `addDep` to the unobserved and to the
observed node, a dependency of height 4 added to the necessary expert of height 3 — `adjustHeights` raises it to 5 and
its parent to 6 —, a duplicate dependency) is a VALID history of fragment X1 for `N = 128` -/
theorem exHistX_valid : ValidRun exEnvX 128 exHistX (State.init 128 true) #[] :=
  validRunB_sound (mapOK := fun f => decide (f < 2)) (xOK := fun f => f == 70)
    (fun f hf => by
      have : f < 2 := by simpa using hf
      exact ⟨by unfold fnPerKey; omega, fun _ _ => rfl⟩)
    (fun f hf => by
      have : f = 70 := by simpa using hf
      subst this
      exact ⟨exEnvX_sumdeps 70 (by decide), by decide⟩)
    _ _ _ (by decide +kernel)

open IncrVerif.Props.C14History in
/-- … hence it never panics, BY THE THEOREM (not by running it) -/
example : ∃ s' tk', runActions exEnvX exHistX (State.init 128 true) #[] = .ok (s', tk') ∧
    (∃ rk, QInvX exEnvX rk s') ∧ TInvX 128 s' :=
  history_never_panicsX exHistX_valid

open IncrVerif.Props.C14History in
set_option maxRecDepth 100000 in
/-- the same history is valid with the TIGHT limit `N = 7` (seven nodes are created; the greatest height reached is 6) -/
example : ∃ s' tk', runActions exEnvX exHistX (State.init 7 true) #[] = .ok (s', tk') ∧
    (∃ rk, QInvX exEnvX rk s') ∧ TInvX 7 s' :=
  history_never_panicsX (validRunB_sound (mapOK := fun f => decide (f < 2)) (xOK := fun f => f == 70)
    (fun f hf => by
      have : f < 2 := by simpa using hf
      exact ⟨by unfold fnPerKey; omega, fun _ _ => rfl⟩)
    (fun f hf => by
      have : f = 70 := by simpa using hf
      subst this
      exact ⟨exEnvX_sumdeps 70 (by decide), by decide⟩)
    _ _ _ (by decide +kernel))

end IncrVerif.Proofs.TidyH.XT
