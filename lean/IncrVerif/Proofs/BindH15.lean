import IncrVerif.Proofs.BindH14
import IncrVerif.Proofs.BindH5
/-!
# Binds, part K1: a Boolean checker for `BGraph` with a GIVEN rank function, and its soundness proof
-/
namespace IncrVerif.Proofs.BindH
open IncrVerif.Engine IncrVerif.Proofs IncrVerif.Proofs.Step IncrVerif.Proofs.Sched

namespace BK

theorem bkindB_sound {env : Env} (hpure : ∀ f vals, env.fnEff f vals = []) {k : Kind} (h : bkindB k = true) :
    BKind env k := by
  cases k with
  | const v => exact True.intro
  | var c => exact True.intro
  | map f args =>
    simp only [bkindB, decide_eq_true_eq] at h
    exact ⟨h, fun _ vals => hpure f vals⟩
  | fold f i cs => exact True.intro
  | bindLhsChange b => exact True.intro
  | bindMain b lc => exact True.intro
  | mapRef p i => cases h
  | mapWithOld g i => cases h
  | expert e => cases h

theorem mem_edgesOf {s : State} {a c : Nat} (h : Edge s a c) : c ∈ edgesOf s a := by
  unfold edgesOf
  cases h with
  | child hc => exact List.mem_append_left _ hc
  | scope hv hsc hb =>
    apply List.mem_append_right
    simp only [hv, hsc, hb, if_true, List.mem_singleton]

theorem default_parents : (default : Node).parents = [] := rfl

/-! ## the pieces -/

def nodeChk (s : State) : Bool :=
  allN s fun n => !(s.nodeD n).valid ||
    (bkindB (s.nodeD n).kind && (decide ((s.nodeD n).cutoff = .eq) || decide ((s.nodeD n).cutoff = .never))
      && (s.children n).all fun c => decide (c < s.nodes.size) && (s.nodeD c).valid)

def necChk (s : State) : Bool :=
  allN s fun n => !s.isNecessary n || ((s.nodeD n).valid && decide (0 ≤ (s.nodeD n).height))

def varChk (s : State) : Bool :=
  allN s fun n => !(s.nodeD n).valid ||
    match (s.nodeD n).kind with
    | .var c => (s.vars[c]?).isSome
    | _ => true

def childChk (s : State) : Bool :=
  allN s fun n => !s.isNecessary n ||
    (List.range (s.children n).length).all fun i =>
      match (s.children n)[i]? with
      | none => true
      | some c => s.isNecessary c && ((s.nodeD c).parents.any fun q => decide (q.1 = n) && decide (q.2 = i)) &&
          decide ((s.nodeD c).height < (s.nodeD n).height)

def parentChk (s : State) : Bool :=
  allN s fun c => (s.nodeD c).parents.all fun pi =>
    s.isNecessary pi.1 && decide ((s.children pi.1)[pi.2]? = some c)

def scopeChk (s : State) : Bool :=
  allN s fun n => !(s.nodeD n).valid ||
    match (s.nodeD n).createdIn with
    | .top => true
    | .bind b => match s.binds[b]? with
      | none => false
      | some br => decide (br.lhsChange < s.nodes.size) && (s.nodeD br.lhsChange).valid &&
          (!s.isNecessary n || (s.isNecessary br.lhsChange &&
            decide ((s.nodeD br.lhsChange).height < (s.nodeD n).height)))

def recChk (s : State) : Bool :=
  allN s fun n => !(s.nodeD n).valid ||
    match (s.nodeD n).kind with
    | .bindLhsChange b => (match s.binds[b]? with | some br => decide (br.lhsChange = n) | none => false)
    | .bindMain b lc => (match s.binds[b]? with
        | some br => decide (br.main = n) && decide (br.lhsChange = lc) &&
            decide ((s.nodeD lc).createdIn = (s.nodeD n).createdIn)
        | none => false)
    | _ => true

def lcChildChk (s : State) : Bool :=
  allN s fun m => !(s.nodeD m).valid ||
    (s.children m).all fun c =>
      match (s.nodeD c).kind with
      | .bindLhsChange b => decide ((s.nodeD m).kind = .bindMain b c)
      | _ => true

end BK

/-- the given rank function decreases strictly along every edge -/
def acycRkB (s : State) (rk : Nat → Nat) : Bool :=
  allN s fun a => (edgesOf s a).all fun c => decide (rk c < rk a)

theorem acycRkB_sound {s : State} {rk : Nat → Nat} (h : acycRkB s rk = true) :
    ∀ a c, Edge s a c → rk c < rk a := by
  intro a c he
  have := allN_sound h a he.lt_size
  rw [List.all_eq_true] at this
  exact of_decide_eq_true (this c (BK.mem_edgesOf he))

open BK in
def bgraphRB (s : State) (rk : Nat → Nat) : Bool :=
  s.panicCountdown.isNone && nodeChk s && necChk s && varChk s && childChk s && parentChk s && scopeChk s &&
    recChk s && lcChildChk s && acycRkB s rk

open BK in
theorem bgraphRB_sound {env : Env} {s : State} {rk : Nat → Nat} (hpure : ∀ f vals, env.fnEff f vals = [])
    (h : bgraphRB s rk = true) : BGraph env s := by
  unfold bgraphRB at h
  simp only [Bool.and_eq_true] at h
  obtain ⟨⟨⟨⟨⟨⟨⟨⟨⟨h0, h1⟩, h2⟩, h3⟩, h4⟩, h5⟩, h6⟩, h7⟩, h8⟩, h9⟩ := h
  refine ⟨?_, ?_, ?_, ?_, ?_, ?_, ?_, ?_, ?_, ?_, ⟨rk, acycRkB_sound h9⟩⟩
  · -- pc
    cases hp : s.panicCountdown with
    | none => rfl
    | some k => rw [hp] at h0; cases h0
  · -- node
    intro n hn hv
    have := allN_sound h1 n hn
    simp only [hv, Bool.not_true, Bool.false_or, Bool.and_eq_true, Bool.or_eq_true, decide_eq_true_eq,
      List.all_eq_true] at this
    exact ⟨bkindB_sound hpure this.1.1, this.1.2, fun c hc => this.2 c hc⟩
  · -- nec
    intro n hn
    have := allN_sound h2 n (lt_of_nec hn)
    simp only [hn, Bool.not_true, Bool.false_or, Bool.and_eq_true, decide_eq_true_eq] at this
    exact this
  · -- var
    intro n c hn hv hk
    have := allN_sound h3 n hn
    simp only [hv, hk, Bool.not_true, Bool.false_or] at this
    cases hvc : s.vars[c]? with
    | none => rw [hvc] at this; cases this
    | some vc => exact ⟨vc, rfl⟩
  · -- child
    intro n hn i c hic
    have := allN_sound h4 n (lt_of_nec hn)
    simp only [hn, Bool.not_true, Bool.false_or, List.all_eq_true] at this
    have hi : i < (s.children n).length := (List.getElem?_eq_some_iff.1 hic).1
    have := this i (List.mem_range.2 hi)
    simp only [hic, Bool.and_eq_true, decide_eq_true_eq, List.any_eq_true] at this
    obtain ⟨⟨h1, q, hq, hq1, hq2⟩, h3⟩ := this
    refine ⟨h1, ?_, h3⟩
    have : q = (n, i) := Prod.ext hq1 hq2
    rw [← this]; exact hq
  · -- parent
    intro c p i hp
    by_cases hc : c < s.nodes.size
    · have := allN_sound h5 c hc
      rw [List.all_eq_true] at this
      have := this (p, i) hp
      simp only [Bool.and_eq_true, decide_eq_true_eq] at this
      exact this
    · rw [nodeD_default' s c hc, default_parents] at hp
      cases hp
  · -- scope
    intro n b hn hv hsc
    have := allN_sound h6 n hn
    simp only [hv, hsc, Bool.not_true, Bool.false_or] at this
    cases hb : s.binds[b]? with
    | none => rw [hb] at this; cases this
    | some br =>
      simp only [hb, Bool.and_eq_true, decide_eq_true_eq, Bool.or_eq_true, Bool.not_eq_true'] at this
      refine ⟨br, rfl, this.1.1, this.1.2, ?_⟩
      intro hnec
      rcases this.2 with h | h
      · rw [hnec] at h; cases h
      · exact h
  · -- lcRec
    intro n b hn hv hk
    have := allN_sound h7 n hn
    simp only [hv, hk, Bool.not_true, Bool.false_or] at this
    cases hb : s.binds[b]? with
    | none => rw [hb] at this; cases this
    | some br =>
      simp only [hb, decide_eq_true_eq] at this
      exact ⟨br, rfl, this⟩
  · -- mainRec
    intro n b lc hn hv hk
    have := allN_sound h7 n hn
    simp only [hv, hk, Bool.not_true, Bool.false_or] at this
    cases hb : s.binds[b]? with
    | none => rw [hb] at this; cases this
    | some br =>
      simp only [hb, Bool.and_eq_true, decide_eq_true_eq] at this
      exact ⟨br, rfl, this.1.1, this.1.2, this.2⟩
  · -- lcChild
    intro m c b hm hv hc hk
    have := allN_sound h8 m hm
    simp only [hv, Bool.not_true, Bool.false_or, List.all_eq_true] at this
    have := this c hc
    simp only [hk, decide_eq_true_eq] at this
    exact this

end IncrVerif.Proofs.BindH
