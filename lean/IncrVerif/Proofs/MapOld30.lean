import IncrVerif.Proofs.MapOld29
/-!
# map_with_old fragment: what the recompute step of a map_with_old node logs (towards C17 for whole histories)

At the recompute step of a map_with_old node `n` the log grows by: the events of the closure (`woEvents`: for an
operator closure one `inv` event per user-function call `env.withOldCalls g σ old x`, in call order) and then only
notification noise (`Step.Noise`: cutoff calls, expert callbacks).
-/
namespace IncrVerif.Proofs.MapOldH
open IncrVerif IncrVerif.Engine IncrVerif.Driver IncrVerif.Proofs IncrVerif.Proofs.Step IncrVerif.Proofs.Sched IncrVerif.Proofs.Quiet

/-- the events a `map_with_old` closure logs (most recent first, as in `State.log`) -/
def woEvents (env : Env) (g n : Nat) (σ : Val) (old : Option Val) (x new : Val) (did : Bool) : List Event :=
  if g < opBase then
    [.inv s!"g{g}" n ((match old with | some o => [o] | none => []) ++ [x]) s!"{new.render},{did}"]
  else ((env.withOldCalls g σ old x).map fun c => Event.inv c.1 n c.2.1 c.2.2).reverse

/-- a loop whose body logs exactly `ev a` logs the events of the list, in order -/
theorem forIn_log_exact {α} (ev : α → Event) (body : α → PUnit → M (ForInStep PUnit)) (l : List α)
    (hb : ∀ a (t : State), t.panicCountdown = none →
      (body a PUnit.unit).run.run t = (.ok (ForInStep.yield PUnit.unit), logged [ev a] t))
    (t : State) (hp : t.panicCountdown = none) :
    (forIn l PUnit.unit body : M PUnit).run.run t = (.ok PUnit.unit, logged (l.map ev).reverse t) := by
  induction l generalizing t with
  | nil => rfl
  | cons a l ih =>
    rw [List.forIn_cons, run_bind_ok (hb a t hp)]
    dsimp only
    rw [ih (logged [ev a] t) hp, logged_logged]
    simp

theorem withOldEvents_run' (env : Env) (g n : Nat) (σ : Val) (old : Option Val) (x new : Val) (did : Bool)
    (t : State) (hp : t.panicCountdown = none) :
    (withOldEvents env g n σ old x new did).run.run t = (.ok (), logged (woEvents env g n σ old x new did) t) := by
  unfold withOldEvents woEvents
  by_cases hg : g < opBase
  · rw [if_pos hg, if_pos hg, run_bind_tick_none _ _ hp, run_logEv]
    rfl
  · rw [if_neg hg, if_neg hg]
    have := forIn_log_exact (fun (c : String × List Val × String) => Event.inv c.1 n c.2.1 c.2.2)
      (fun (c : String × List Val × String) (_ : PUnit) => (do
        tick
        logEv (Event.inv c.1 n c.2.1 c.2.2)
        pure (ForInStep.yield PUnit.unit) : M (ForInStep PUnit))) (env.withOldCalls g σ old x)
      (fun a t ht => by rw [run_bind_tick_none _ _ ht, run_bind_logEv]; rfl) t hp
    rw [run_bind_ok this]
    rfl

/-- the master equation of `MapOld11` with the logged events explicit -/
theorem recomputeOne_mwo_run' (env : Env) (fuel n : Nat) (s : State) (nd : Node) (g i : Nat) (x : Val)
    (hn : s.nodes[n]? = some nd) (hv : nd.valid = true) (hk : nd.kind = .mapWithOld g i)
    (hx : s.value env i = some x) (hp : s.panicCountdown = none) :
    (recomputeOne env fuel n).run.run s =
      (maybeChangeValueManual env fuel n none (env.withOld g nd.oldState nd.value x).2.2 true).run.run
        (setWithOld n (env.withOld g nd.oldState nd.value x).2.1 (env.withOld g nd.oldState nd.value x).1
          (logged (woEvents env g n nd.oldState nd.value x (env.withOld g nd.oldState nd.value x).2.1
            (env.withOld g nd.oldState nd.value x).2.2) (started n s))) := by
  have hk? : ({ nd with recomputedAt := s.stabNum } : Node).kind? = some (.mapWithOld g i) := by
    simp [Node.kind?, hv, hk]
  have hx' : (started n s).value env i = some x := by rw [started_value]; exact hx
  have hn' := started_getElem? n s nd hn
  have hpc : (setValue n none (started n s)).panicCountdown = none := hp
  have hes := withOldEvents_run' env g n nd.oldState nd.value x
    (env.withOld g nd.oldState nd.value x).2.1 (env.withOld g nd.oldState nd.value x).2.2
    (setValue n none (started n s)) hpc
  unfold recomputeOne
  simp only [run_bind_get]
  cases hd : s.cfg.debug
  all_goals
    simp only [started, hd, Bool.false_eq_true, if_false, if_true, run_bind_modify,
      run_bind_bumpCounter, run_bind_get, run_bind_modNode] at hn' hx' hes ⊢
    rw [run_bind_ok (run_getNode_some hn'), hk?]
    dsimp only
    rw [run_bind_of (run_valueUnwrap env i _ _), hx']
    dsimp only
    rw [run_bind_modNode]
    simp only [setValue] at hes
    rw [run_bind_ok hes, run_bind_modNode]
    simp only [setWithOld, logged, array_modify_modify]
    rfl

/-- **the log of a map_with_old step**: the closure's events, then notification noise only -/
theorem mwo_step_log {env : Env} {fuel n g i : Nat} {s s' : State} {r : Option Nat} {x : Val}
    (hn : n < s.nodes.size) (hv : (s.nodeD n).valid = true) (hk : (s.nodeD n).kind = .mapWithOld g i)
    (hx : s.value env i = some x) (hp : s.panicCountdown = none)
    (h : (recomputeOne env fuel n).run.run s = (.ok r, s')) :
    ∃ tail, s'.log = tail ++ woEvents env g n (s.nodeD n).oldState (s.nodeD n).value x
        (env.withOld g (s.nodeD n).oldState (s.nodeD n).value x).2.1
        (env.withOld g (s.nodeD n).oldState (s.nodeD n).value x).2.2 ++ s.log ∧
      ∀ e, e ∈ tail → Noise e := by
  rw [recomputeOne_mwo_run' env fuel n s (s.nodeD n) g i x (some_of_lt hn) hv hk hx hp] at h
  generalize env.withOld g (s.nodeD n).oldState (s.nodeD n).value x = w at h ⊢
  obtain ⟨σ', new, did⟩ := w
  cases did with
  | false =>
    rw [run_mcvm_false] at h
    cases h
    exact ⟨[], rfl, fun e he => by cases he⟩
  | true =>
    have q := mcvm_true_quiet _ _ _ _ _ _ _ _ h
    obtain ⟨tail, ht, hnoise⟩ := q.log
    refine ⟨tail, ?_, hnoise⟩
    rw [ht]
    simp only [touched, setWithOld, logged, started, List.append_assoc]

end IncrVerif.Proofs.MapOldH
