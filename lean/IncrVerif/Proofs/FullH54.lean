import IncrVerif.Proofs.FullH18
import IncrVerif.Proofs.FullH22
import IncrVerif.Proofs.NestH40
import IncrVerif.Proofs.MapRef24
/-!
# C01 full fragment: the `didChange` invariant through a run of a change detector, part 1
(generic transfer tools: the value read along a chain of stable nodes, `KInv.transfer`; the closure run (phase 1) and the invalidation of the
old generation (phase 3) from the structural facts `P1` / `P3` of NestH about the VIRTUAL states)
-/
namespace IncrVerif.Proofs.FullH
open IncrVerif.Engine IncrVerif.Proofs IncrVerif.Proofs.Step IncrVerif.Proofs.Sched IncrVerif.Proofs.Quiet
open IncrVerif.Proofs.MapRefH (IsMapRef isMapRef_iff not_isMapRef_iff FM)
open IncrVerif.Proofs.BindH (DInv BGraph Below Edge)
open IncrVerif.Proofs.NestH (F2Inv GInv2 All2 Dying IRel2 CRel2)
open IncrVerif.Proofs.NestH.NC (Pre2 P1 P2 P3)

namespace KL

theorem lt_of_mapRef {s : State} {m p i : Nat} (hk : (s.nodeD m).kind = .mapRef p i) : m < s.nodes.size := by
  by_cases h : m < s.nodes.size
  · exact h
  · rw [nodeD_default_of_ge s m (by omega)] at hk; cases hk

theorem mapRefsBack_of_vm {s s' : State} (hb : MapRefsBack s) (v : VM s s') : MapRefsBack s' := by
  intro m nd p i hm hk
  have hk' : (s'.nodeD m).kind = .mapRef p i := by rw [nodeD_of_some hm]; exact hk
  have hlt' : m < s'.nodes.size := lt_of_some hm
  by_cases hlt : m < s.nodes.size
  · have := (v.kind m hlt).1
    rw [hk'] at this
    exact hb m (s.nodeD m) p i (some_of_lt hlt) this.symm
  · exact (v.newn m (by omega) hlt').2.2 p i hk'

/-- **the value read is stable along chains of stable valid nodes**: `P` a set of nodes that are valid in `s`, keep kind and validity, keep
their stored value unless they are map_ref nodes, and is closed under taking the input of a map_ref node -/
theorem value_eq_chain {env : Env} {s s' : State} (hb : MapRefsBack s) (hb' : MapRefsBack s') (P : Nat → Prop)
    (hPv : ∀ m, P m → (s.nodeD m).valid = true)
    (hk : ∀ m, P m → (s'.nodeD m).kind = (s.nodeD m).kind)
    (hv : ∀ m, P m → (s'.nodeD m).valid = (s.nodeD m).valid)
    (hval : ∀ m, P m → (∀ p i, (s.nodeD m).kind ≠ .mapRef p i) → (s'.nodeD m).value = (s.nodeD m).value)
    (hkid : ∀ m p i, P m → (s.nodeD m).kind = .mapRef p i → P i) :
    ∀ m, P m → s'.value env m = s.value env m := by
  intro m
  induction m using Nat.strongRecOn with
  | _ m ih =>
    intro hm
    by_cases hmr : ∀ p i, (s.nodeD m).kind ≠ .mapRef p i
    · rw [value_stored (Or.inr hmr), value_stored (Or.inr (by intro p i; rw [hk m hm]; exact hmr p i)), hval m hm hmr]
    · have : ∃ p i, (s.nodeD m).kind = .mapRef p i := by
        cases hkd : (s.nodeD m).kind <;>
          first | exact ⟨_, _, rfl⟩ | (exfalso; apply hmr; intro p i; rw [hkd]; intro h; cases h)
      obtain ⟨p, i, hkm⟩ := this
      have hvm := hPv m hm
      have hi : i < m := hb m (s.nodeD m) p i (some_of_lt (lt_of_mapRef hkm)) hkm
      rw [value_mapRef' hb hvm hkm, value_mapRef' hb' (by rw [hv m hm]; exact hvm) (by rw [hk m hm]; exact hkm),
        ih i hi (hkid m p i hm hkm)]

/-- **transfer of the `didChange` invariant** between two states (and two ghosts) that agree on a set `P` of stable valid nodes which contains
every node the invariant of `s'` speaks about -/
theorem KInv.transfer {env : Env} {g g' : Nat → Option Val} {s s' : State} (K : KInv env g s)
    (hb : MapRefsBack s) (hb' : MapRefsBack s') (P : Nat → Prop)
    (hPv : ∀ m, P m → (s.nodeD m).valid = true)
    (hk : ∀ m, P m → (s'.nodeD m).kind = (s.nodeD m).kind)
    (hv : ∀ m, P m → (s'.nodeD m).valid = (s.nodeD m).valid)
    (hval : ∀ m, P m → (∀ p i, (s.nodeD m).kind ≠ .mapRef p i) → (s'.nodeD m).value = (s.nodeD m).value)
    (hkid : ∀ m p i, P m → (s.nodeD m).kind = .mapRef p i → P i)
    (hg : ∀ m p i, P m → (s.nodeD m).kind = .mapRef p i → g' m = g m)
    (hn : ∀ m, P m → s'.isNecessary m = true → s.isNecessary m = true)
    (hf : ∀ m, P m → (s'.nodeD m).didChange = false → (s.nodeD m).didChange = false)
    (hall : ∀ m p i, (s'.nodeD m).valid = true → s'.isNecessary m = true → (s'.nodeD m).kind = .mapRef p i → P m) :
    KInv env g' s' := by
  intro m p i hvm hnm hkm hd
  have hm := hall m p i hvm hnm hkm
  have hkm0 : (s.nodeD m).kind = .mapRef p i := by rw [← hk m hm]; exact hkm
  rw [hg m p i hm hkm0, value_eq_chain hb hb' P hPv hk hv hval hkid m hm]
  exact K m p i (hPv m hm) (hn m hm hnm) hkm0 (hf m hm hd)

/-- the ghost may be replaced by one that agrees on the valid nodes -/
theorem KInv.of_gr {env : Env} {g g' : Nat → Option Val} {s0 s : State} (K : KInv env g s) (R : GR g g' s0 s) :
    KInv env g' s := by
  intro m p i hv hn hk hd
  rw [R.valid_eq hv]; exact K m p i hv hn hk hd

/-! ## what the equality of two VIRTUAL nodes says about the actual nodes -/

/-- the virtual nodes of `m` agree on validity, stored value and the fields of necessity; the actual kinds agree -/
structure VS (g g' : Nat → Option Val) (s s' : State) (m : Nat) : Prop where
  kind : (s'.nodeD m).kind = (s.nodeD m).kind
  valid : ((virt g' s').nodeD m).valid = ((virt g s).nodeD m).valid
  value : ((virt g' s').nodeD m).value = ((virt g s).nodeD m).value
  nec : ((virt g' s').nodeD m).isNecessary = ((virt g s).nodeD m).isNecessary

namespace VS
variable {g g' : Nat → Option Val} {s s' : State} {m : Nat}

theorem valid' (h : VS g g' s s' m) : (s'.nodeD m).valid = (s.nodeD m).valid := by
  have := h.valid; rw [virt_nodeD, virt_nodeD, virtNode_valid, virtNode_valid] at this; exact this

theorem nec' (h : VS g g' s s' m) : s'.isNecessary m = s.isNecessary m := by
  have := h.nec; rw [virt_nodeD, virt_nodeD, virtNode_isNecessary, virtNode_isNecessary] at this; exact this

theorem value' (h : VS g g' s s' m) (hk : ∀ p i, (s.nodeD m).kind ≠ .mapRef p i) :
    (s'.nodeD m).value = (s.nodeD m).value := by
  have := h.value
  rw [virt_nodeD, virt_nodeD, virtNode_value_of_not_mapRef _ _ hk,
    virtNode_value_of_not_mapRef _ _ (by intro p i; rw [h.kind]; exact hk p i)] at this
  exact this

theorem ghost (h : VS g g' s s' m) {p i : Nat} (hk : (s.nodeD m).kind = .mapRef p i) : g' m = g m := by
  have := h.value
  rw [virt_nodeD, virt_nodeD, virtNode_value_mapRef _ _ hk, virtNode_value_mapRef _ _ (by rw [h.kind]; exact hk)] at this
  exact this

/-- from the equality of the virtual nodes up to the stamp -/
theorem of_upto (hk : (s'.nodeD m).kind = (s.nodeD m).kind)
    (h : ∃ y, (virt g' s').nodeD m = { (virt g s).nodeD m with recomputedAt := y }) : VS g g' s s' m := by
  obtain ⟨y, e⟩ := h
  exact ⟨hk, by rw [e], by rw [e], by rw [e]; rfl⟩

theorem of_eq (hk : (s'.nodeD m).kind = (s.nodeD m).kind)
    (h : (virt g' s').nodeD m = (virt g s).nodeD m) : VS g g' s s' m :=
  ⟨hk, by rw [h], by rw [h], by rw [h]⟩

end VS

/-- `KInv.transfer` from the agreement of the virtual nodes -/
theorem KInv.transfer_vs {env : Env} {g g' : Nat → Option Val} {s s' : State} (K : KInv env g s)
    (hb : MapRefsBack s) (hb' : MapRefsBack s') (P : Nat → Prop)
    (hPv : ∀ m, P m → (s.nodeD m).valid = true)
    (hvs : ∀ m, P m → VS g g' s s' m)
    (hkid : ∀ m p i, P m → (s.nodeD m).kind = .mapRef p i → P i)
    (hf : ∀ m, P m → (s'.nodeD m).didChange = false → (s.nodeD m).didChange = false)
    (hall : ∀ m p i, (s'.nodeD m).valid = true → s'.isNecessary m = true → (s'.nodeD m).kind = .mapRef p i → P m) :
    KInv env g' s' :=
  KInv.transfer K hb hb' P hPv (fun m hm => (hvs m hm).kind) (fun m hm => (hvs m hm).valid')
    (fun m hm hk => (hvs m hm).value' hk) hkid (fun m p i hm hk => (hvs m hm).ghost hk)
    (fun m hm h => by rw [← (hvs m hm).nec']; exact h) hf hall

/-- values read by the nodes of `P` are the same -/
theorem value_eq_vs {env : Env} {g g' : Nat → Option Val} {s s' : State}
    (hb : MapRefsBack s) (hb' : MapRefsBack s') (P : Nat → Prop)
    (hPv : ∀ m, P m → (s.nodeD m).valid = true)
    (hvs : ∀ m, P m → VS g g' s s' m)
    (hkid : ∀ m p i, P m → (s.nodeD m).kind = .mapRef p i → P i) :
    ∀ m, P m → s'.value env m = s.value env m :=
  value_eq_chain hb hb' P hPv (fun m hm => (hvs m hm).kind) (fun m hm => (hvs m hm).valid')
    (fun m hm hk => (hvs m hm).value' hk) hkid

end KL
end IncrVerif.Proofs.FullH
