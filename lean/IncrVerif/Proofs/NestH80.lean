import IncrVerif.Proofs.NestH76
import IncrVerif.Proofs.NestH16
/-!
# Total correctness for nested binds (F2), unlinking side, part 1: the unlinking cascade returns

Port of `Quiet22` (`P22.BUTot/CUTot/RCTot`, `unlink_tot`) from `Quiet.GInv` (static graphs, index order) to `GInv2 env rk s op ex dy`
(nested binds, ghost rank `rk`).  The primitives of `Quiet.P22` that do not mention `GInv` (`mhas_ok`, `setHeight_neg_ok`,
`removeParent_run`, `rchRemove_tot`, `idxOf?_of_mem`, `NecH` and its lemmas) are REUSED.  The fuel bound is linear in the POSITION
`cnt rk s.nodes.size n` of the node in the rank order (the cascade descends along child edges, along which the rank — hence the
position — strictly decreases: `GInv2.kid_rk`, `cnt_lt_cnt`; the cascade creates no node, so the node count is constant).
-/
namespace IncrVerif.Proofs.NestH
open IncrVerif.Engine IncrVerif.Proofs IncrVerif.Proofs.Step IncrVerif.Proofs.Sched IncrVerif.Proofs.Quiet
open IncrVerif.Proofs.BindH
open IncrVerif.Proofs.Quiet.P22

namespace TU

/-- the height bound follows necessity: necessity shrinks, necessary nodes keep their height, the node count is unchanged -/
theorem hbo2_of_necH {rk : Nat → Nat} {s s' : State} {op op' : Nat → Op} (hb : HBo2 rk s op) (h : NecH s s')
    (hsz : s'.nodes.size = s.nodes.size)
    (hop : ∀ m, op' m = .closed → s.isNecessary m = true → op m = .closed) : HBo2 rk s' op' := by
  intro m hm ho
  obtain ⟨hm0, hh⟩ := h m hm
  rw [hh, hsz]
  exact hb m hm0 (hop m ho hm0)

/-! ## the three functions return -/

def BUTot2 (fuel : Nat) : Prop :=
  ∀ env (rk : Nat → Nat) n s op ex dy, GInv2 env rk s op ex dy → op n = .unlinking 0 →
    (∀ m, op m ≠ .closed → rk n ≤ rk m) → 3 * cnt rk s.nodes.size n + 2 ≤ fuel →
    Tot (becameUnnecessary fuel n) s (fun _ s' => NecH s s')

def CUTot2 (fuel : Nat) : Prop :=
  ∀ env (rk : Nat → Nat) c s op ex dy, GInv2 env rk s op ex dy → (∀ m, op m ≠ .closed → rk c ≤ rk m) →
    ((s.isNecessary c = true ∧ op c = .closed) ∨ (s.isNecessary c = false ∧ op c = .unlinking 0)) →
    3 * cnt rk s.nodes.size c + 3 ≤ fuel → Tot (checkIfUnnecessary fuel c) s (fun _ s' => NecH s s')

def RCTot2 (fuel : Nat) : Prop :=
  ∀ env (rk : Nat → Nat) n s op ex dy, GInv2 env rk s op ex dy → op n = .unlinking 0 →
    (∀ m, op m ≠ .closed → rk n ≤ rk m) → 3 * cnt rk s.nodes.size n + 1 ≤ fuel →
    Tot (removeChildren fuel n) s (fun _ s' => NecH s s')

theorem cu_tot_step2 (fuel : Nat) (ih : BUTot2 fuel) : CUTot2 (fuel + 1) := by
  intro env rk c s op ex dy I hlow hcase hf
  unfold checkIfUnnecessary
  refine Tot.bind_get ?_
  rcases hcase with ⟨hn, hcl⟩ | ⟨hn, hop⟩
  · rw [hn]
    simp only [Bool.not_true, Bool.false_eq_true, if_false]
    exact Tot.pure (NecH.refl s)
  · rw [hn]
    simp only [Bool.not_false, if_true]
    exact ih env rk c s op ex dy I hop hlow (by omega)

theorem bu_tot_step2 (fuel : Nat) (ih : RCTot2 fuel) : BUTot2 (fuel + 1) := by
  intro env rk n s op ex dy I hop hlow hf
  have hn : n < s.nodes.size := I.opLt n (by rw [hop]; exact fun e => by cases e)
  unfold becameUnnecessary
  refine tot_bind_modify' (fun s0 hs0 => ?_)
  have R0 : Irrel n s s0 := by rw [hs0]; exact Irrel.of_nodes rfl rfl rfl rfl rfl
  have hn0 : n < s0.nodes.size := by rw [R0.same.size]; exact hn
  obtain ⟨s1, h1⟩ := mhas_ok (some_of_lt hn0)
  refine Tot.bind_ok h1 ?_
  have R1 : Irrel n s s1 := R0.trans (Irrel.mhas h1)
  have I1 : GInv2 env rk s1 op ex dy := GInv2.congr I ⟨R1.same, BU.cframe_binds (R1.rel (fun _ => False)).fr⟩
  have hn1 : n < s1.nodes.size := by rw [R1.same.size]; exact hn
  have hun1 : s1.isNecessary n = false := I1.unec n 0 hop
  have hnopar : (s1.nodeD n).parents = [] := parents_nil_of_not_nec hun1
  obtain ⟨s2, h2⟩ := setHeight_neg_ok n s1
  refine Tot.bind_ok h2 ?_
  obtain ⟨U2, -, hl2, hh2, hoth2⟩ := setHeight_ok_upd hn1 h2
  have hopn : op n ≠ .closed := by rw [hop]; exact fun e => by cases e
  have I2 : GInv2 env rk s2 op ex dy :=
    NU.setHeight_open I1 U2 (BU.cframe_binds hl2.fr) (by decide) hopn
      (by intro p i hp; rw [hnopar] at hp; cases hp)
  have hn2 : n < s2.nodes.size := by rw [U2.size]; exact hn1
  have hsz2 : s2.nodes.size = s.nodes.size := by rw [U2.size, R1.same.size]
  have N2 : NecH s1 s2 := by
    intro m hm
    by_cases e : m = n
    · rw [e] at hm
      rw [I2.unec n 0 hop] at hm; cases hm
    · refine ⟨?_, by rw [hoth2 m e]⟩
      simp only [State.isNecessary, hoth2 m e] at hm ⊢
      exact hm
  obtain ⟨_, s3, h3, N3⟩ := ih env rk n s2 op ex dy I2 hop hlow (by rw [hsz2]; omega)
  refine Tot.bind_ok h3 ?_
  obtain ⟨I3, hsame3, hu3⟩ := (NU.unlink_spec fuel).2.2 env rk n s2 s3 op ex dy h3 I2 hop hlow
  have hn3 : n < s3.nodes.size := by rw [hu3.fr.size]; exact hn2
  refine Tot.bind_getNode hn3 ?_
  have hvalid3 : (s3.nodeD n).valid = true :=
    I3.valid_of_open (by rw [upd_self]; exact Op.unlinking_ne_closed _)
  have hq : (s3.nodeD n).kind? = some (s3.nodeD n).kind := by
    rw [Node.kind?, hvalid3]; rfl
  have N : NecH s s3 := ((NecH.of_same R1.same).trans N2).trans N3
  have hun3 : s3.isNecessary n = false := I3.unec n _ (upd_self _ _ _)
  have fin : Tot (do
        let s ← get
        dassert (!s.needsToBeComputed n) "node:became_unnecessary:not-needs-to-be-computed"
        if (s.nodeD n).inRch = true then rchRemove n else pure ()) s3 (fun _ s' => NecH s s') := by
    refine Tot.bind_get ?_
    have hnc : s3.needsToBeComputed n = false := by
      simp only [State.needsToBeComputed, hun3, Bool.false_and]
    refine Tot.bind_dassert (fun _ => by rw [hnc]; rfl) ?_
    cases hin : (s3.nodeD n).inRch with
    | false =>
      simp only [Bool.false_eq_true, if_false]
      exact Tot.pure N
    | true =>
      simp only [if_true]
      obtain ⟨s4, h4⟩ := rchRemove_tot I3.heap.wf hn3 hin (fun _ => hnc)
      obtain ⟨nd, q, idx, hnd, -, -, -, e4⟩ := rchRemove_ok_inv h4
      refine Tot.of_ok h4 (N.trans (NecH.of_fields fun m => ?_))
      rw [e4, removedAt_nodeD]
      split
      · exact ⟨rfl, rfl, rfl, rfl⟩
      · exact ⟨rfl, rfl, rfl, rfl⟩
  rw [hq]
  have hsk := (I3.node hn3).kind
  cases hkd : (s3.nodeD n).kind <;> rw [hkd] at hsk <;>
    first | exact fin | exact False.elim hsk

theorem rc_tot_step2 (fuel : Nat) (ih : CUTot2 fuel) : RCTot2 (fuel + 1) := by
  intro env rk n s op ex dy I hop hlow hf
  have hn : n < s.nodes.size := I.opLt n (by rw [hop]; exact fun e => by cases e)
  unfold removeChildren
  refine Tot.bind_get ?_
  refine Tot.bind (Q := fun (b : Nat) t => b = (s.children n).length ∧
      GInv2 env rk t (upd op n (.unlinking (s.children n).length)) ex dy ∧
      (∀ m, rk n ≤ rk m → t.nodeD m = s.nodeD m) ∧ URel s t ∧ NecH s t) ?_
    (fun b t _ hQ => Tot.pure hQ.2.2.2.2)
  refine forIn_tot _ (s.children n)
    (fun j (b : Nat) t => b = j ∧ GInv2 env rk t (upd op n (.unlinking j)) ex dy ∧
      (∀ m, rk n ≤ rk m → t.nodeD m = s.nodeD m) ∧ URel s t ∧ NecH s t)
    ?_ (s.children n) 0 0 s (by simp) (Nat.zero_le _)
    ⟨rfl, by rw [upd_eq_self _ _ _ hop]; exact I, fun _ _ => rfl, URel.refl _, NecH.refl _⟩
  intro j c b t hj ⟨hb, It, hsame, hrel, hN⟩
  have hkj : (t.children n)[j]? = some c := by
    rw [NU.children_eq_of2 I.frag hn (hsame n (Nat.le_refl _)) (BU.cframe_binds hrel.fr)]; exact hj
  have hcn : rk c < rk n := It.kid_rk hkj
  have hne : c ≠ n := It.kid_ne hkj
  have hct : c < t.nodes.size := It.kid_in hkj
  have hcs : c < s.nodes.size := by rw [← hrel.fr.size]; exact hct
  have hopc : op c = .closed := by
    cases e : op c with
    | closed => rfl
    | linking k => have := hlow c (by rw [e]; exact fun e => by cases e); omega
    | unlinking k => have := hlow c (by rw [e]; exact fun e => by cases e); omega
  have hclc : upd op n (.unlinking j) c = .closed := by
    rw [upd_other _ _ _ hne]; exact hopc
  have hmem : (n, j) ∈ (t.nodeD c).parents := It.removeEdge_mem (upd_self _ _ _) hkj
  obtain ⟨pi0, hidx0⟩ := idxOf?_of_mem hmem
  have ha := removeParent_run (s := t) (c := c) (idx := j) (p := n) (some_of_lt hct) hidx0
  obtain ⟨t1, e1⟩ : ∃ t1, t1 = ({ t with nodes := t.nodes.modify c fun x =>
      { x with parents := swapRemove x.parents pi0 } } : State) := ⟨_, rfl⟩
  rw [← e1] at ha
  obtain ⟨pi, hidx, U, hb1, hab1, hu1, hoth1⟩ := removeParent_frame2 ha It hct
  obtain ⟨Hnec, Hun⟩ := It.removeEdge hidx U hb1 (upd_self _ _ _) hkj hclc
  have N1 : NecH t t1 := NecH.of_urel hu1 (fun m => by
    by_cases e : m = c
    · rw [e]; exact U.self.height
    · exact (U.other m e).height)
  have hlow' : ∀ (o : Nat → Op), (∀ m, m ≠ c → m ≠ n → o m = op m) →
      ∀ m, o m ≠ .closed → rk c ≤ rk m := by
    intro o ho m hm
    by_cases e1 : m = c
    · rw [e1]; exact Nat.le_refl _
    · by_cases e2 : m = n
      · rw [e2]; omega
      · rw [ho m e1 e2] at hm; have := hlow m hm; omega
  rw [upd_upd] at Hnec Hun
  have hsz1 : t1.nodes.size = s.nodes.size := by rw [hu1.fr.size, hrel.fr.size]
  have hfuel : 3 * cnt rk t1.nodes.size c + 3 ≤ fuel := by
    rw [hsz1]
    have := cnt_lt_cnt (rk := rk) (N := s.nodes.size) hcs hcn
    omega
  have hrun : ∀ t2, (checkIfUnnecessary fuel c).run.run t1 = (.ok (), t2) →
      (do removeParent c b n
          checkIfUnnecessary fuel c
          pure (ForInStep.yield (b + 1)) : M (ForInStep Nat)).run.run t = (.ok (.yield (j + 1)), t2) := by
    intro t2 hc
    rw [hb, run_bind_ok ha, run_bind_ok hc]; rfl
  have fin : ∀ (o : Nat → Op) t2, (checkIfUnnecessary fuel c).run.run t1 = (.ok (), t2) → NecH t1 t2 →
      GInv2 env rk t2 (upd o c .closed) ex dy → AboveR2 rk t1 c t2 → URel t1 t2 →
      upd o c .closed = upd op n (.unlinking (j + 1)) →
      ∃ b' t', (do removeParent c b n
                   checkIfUnnecessary fuel c
                   pure (ForInStep.yield (b + 1)) : M (ForInStep Nat)).run.run t = (.ok (.yield b'), t') ∧
        (b' = j + 1 ∧ GInv2 env rk t' (upd op n (.unlinking (j + 1))) ex dy ∧
          (∀ m, rk n ≤ rk m → t'.nodeD m = s.nodeD m) ∧ URel s t' ∧ NecH s t') := by
    intro o t2 hc N2 I2 hab2 hu2 eo
    rw [eo] at I2
    refine ⟨j + 1, t2, hrun t2 hc, rfl, I2, fun m hm => ?_, (hrel.trans hu1).trans hu2, (hN.trans N1).trans N2⟩
    have hcm : rk c < rk m := by omega
    have hmc : m ≠ c := fun e => by rw [e] at hcm; exact Nat.lt_irrefl _ hcm
    exact ((hab2 m hcm).trans (hoth1 m hmc)).trans (hsame m hm)
  cases hnc : t1.isNecessary c with
  | true =>
    have I1 := Hnec hnc
    have hl1 := hlow' (upd op n (.unlinking (j + 1))) (fun m _ e2 => upd_other _ _ _ e2)
    have hc1 : (t1.isNecessary c = true ∧ upd op n (.unlinking (j + 1)) c = .closed) ∨
        (t1.isNecessary c = false ∧ upd op n (.unlinking (j + 1)) c = .unlinking 0) :=
      Or.inl ⟨hnc, by rw [upd_other _ _ _ hne]; exact hopc⟩
    obtain ⟨_, t2, hc, N2⟩ := ih env rk c t1 _ ex dy I1 hl1 hc1 hfuel
    obtain ⟨I2, hab2, hu2⟩ := (NU.unlink_spec fuel).2.1 env rk c t1 t2 _ ex dy hc I1 hl1 hc1
    exact fin _ t2 hc N2 I2 hab2 hu2
      (upd_eq_self _ c .closed (by rw [upd_other _ _ _ hne]; exact hopc))
  | false =>
    have I1 := Hun hnc
    have hl1 := hlow' (upd (upd op n (.unlinking (j + 1))) c (.unlinking 0))
      (fun m e1 e2 => by rw [upd_other _ _ _ e1, upd_other _ _ _ e2])
    have hc1 : (t1.isNecessary c = true ∧ upd (upd op n (.unlinking (j + 1))) c (.unlinking 0) c = .closed) ∨
        (t1.isNecessary c = false ∧ upd (upd op n (.unlinking (j + 1))) c (.unlinking 0) c = .unlinking 0) :=
      Or.inr ⟨hnc, upd_self _ _ _⟩
    obtain ⟨_, t2, hc, N2⟩ := ih env rk c t1 _ ex dy I1 hl1 hc1 hfuel
    obtain ⟨I2, hab2, hu2⟩ := (NU.unlink_spec fuel).2.1 env rk c t1 t2 _ ex dy hc I1 hl1 hc1
    exact fin _ t2 hc N2 I2 hab2 hu2
      (by rw [upd_upd, upd_eq_self _ c .closed (by rw [upd_other _ _ _ hne]; exact hopc)])

theorem unlink_tot2 (fuel : Nat) : BUTot2 fuel ∧ CUTot2 fuel ∧ RCTot2 fuel := by
  induction fuel with
  | zero =>
    refine ⟨?_, ?_, ?_⟩
    · intro env rk n s op ex dy _ _ _ hf; omega
    · intro env rk n s op ex dy _ _ _ hf; omega
    · intro env rk n s op ex dy _ _ _ hf; omega
  | succ fuel ih => exact ⟨bu_tot_step2 fuel ih.2.2, cu_tot_step2 fuel ih.1, rc_tot_step2 fuel ih.2.1⟩

end TU

end IncrVerif.Proofs.NestH
