import IncrVerif.Proofs.NestH3
import IncrVerif.Proofs.BindH18
/-!
# Closures referring to YOUNGER top-level nodes (N3): the pure theorems apply — a kernel-checked example

`yEnv`: closure 0 refers to handle `n2`, a variable created AFTER the bind (`n0` = v0, `n1` = the bind, `n2` = v2): on an even lhs value `map f0 [n2] ; ret %0`, on an odd one
`ret n2`.  History: `v0 := 0; b := bind v0 closure0; v2 := 5; observe b; stabilise; v0 := 1`, then the drain up to the point where the change detector is about to run again.
The drain invariant `DInv` holds there (with a rank in which the YOUNGER variable node 3 lies BELOW the change detector node 1 — creation order does not give such a rank, the ghost
rank of `Proofs/NestH4` does), the run of the change detector satisfies the contract `StepL` (hence `StepL2`), and `stepL2_inv` re-establishes `DInv`: the new right-hand side is the
younger variable itself, the old generation (node 4) is dead.
-/
namespace IncrVerif.Proofs.NestH
open IncrVerif.Engine IncrVerif.Driver IncrVerif.Proofs IncrVerif.Proofs.Step IncrVerif.Proofs.Sched IncrVerif.Proofs.BindH

def yEnv : Env :=
  { exEnv with
    body := fun _ lhs =>
      if lhs.toInt % 2 = 0 then { instrs := [.map 0 [.outer 2]], ret := .loc 0 }
      else { instrs := [], ret := .outer 2 } }

theorem yEnv_pure : ∀ f vals, yEnv.fnEff f vals = [] := fun _ _ => rfl

/-- v0 = 0 (node 0), `bind b0 v0` (change detector 1, main node 2), v2 = 5 (node 3, YOUNGER than the bind), observed, stabilised (the closure run on 0 creates node 4 =
`map f0 [3]` over the younger variable); then `v0 := 1` -/
def exY0 : State :=
  runActs yEnv [.create (.var (.int 0)), .create (.bind 0 (.outer 0)), .create (.var (.int 5)),
    .observe (.outer 1), .stabilise, .set 0 (.int 1)] (State.init 8 true)

/-- the var node 0 has been popped and has run; it handed over its only parent, the change detector 1 -/
def exY : State := after (recomputeOne yEnv 9 0) (after rchRemoveMin exY0)

example : retOf rchRemoveMin exY0 = some (some 0) ∧
    retOf (recomputeOne yEnv 9 0) (after rchRemoveMin exY0) = some (some 1) ∧
    (exY.nodeD 1).kind = .bindLhsChange 0 ∧ (exY.nodeD 4).kind = .map 0 [3] ∧ (exY.nodeD 4).createdIn = .bind 0 ∧
    (exY.nodeD 3).createdIn = .top ∧ (exY.nodeD 2).value = some (.int 5) := by decide +kernel

/-- the state in which the change detector is about to run: the drain invariant holds; in the rank the younger variable (node 3) is below the change detector (node 1) -/
theorem exY_dinv : DInv yEnv exY (some 1) :=
  dinvRB_sound (rk := rkTab [1, 3, 6, 2, 4]) (clean := labOf [0]) (low := labOf [1, 0]) yEnv_pure (by decide +kernel)

/-- … after its run: the closure ran on 1 and returned the younger variable itself; node 4 died -/
def exY' : State := after (recomputeOne yEnv 20 1) exY

theorem exY_run : (recomputeOne yEnv 20 1).run.run exY = (.ok (some 2), exY') :=
  run_eq_of_retOf (by decide +kernel)

theorem exY_stepL : ∃ br br', StepL yEnv 1 0 br br' (some 2) exY exY' :=
  stepLRB_sound (rk' := rkTab [1, 3, 6, 2, 4]) yEnv_pure (by decide +kernel)

example : exY'.nodes.size = 5 ∧ (exY'.nodeD 4).valid = false ∧ exY'.children 2 = [1, 3] ∧
    (exY'.binds[0]?.map (·.rhs)) = some (some 3) := by decide +kernel

/-- the pure theorem applies: the drain invariant holds again, with the main node handed over -/
theorem exY'_dinv : DInv yEnv exY' (some 2) := by
  obtain ⟨br, br', L⟩ := exY_stepL
  exact stepL2_inv exY_dinv (by decide +kernel) (StepL.toL2 L)

end IncrVerif.Proofs.NestH
