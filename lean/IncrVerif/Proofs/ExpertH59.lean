import IncrVerif.Proofs.ExpertH55
/-!
# Expert nodes, E2: threading `SlotInv` — the frames

* `SR env s s'` ("slot relation", a preorder): what ANY engine function outside a recompute may do to what
  `SlotInv.deps`/`SlotInv.good` read: node kinds/validity/values/stamps, `nextDep`, the dependency lists and
  `forceStale` of the records are unchanged; "fire all" flags are only raised; a slot only changes on a record whose
  flag is down, and then to the CURRENT value of the child of the dependency it is named after.
* `FM s s'` ("flags, necessity monotone"): kinds, validity, flags unchanged, necessity only grows, and the
  `propagateInvalidity` list is unchanged when every node is valid.  Kept by the linking cascade and the neutral steps.
* `SlotInvEx env s X`: `SlotInv` with the `Good` obligation lifted for the dependencies `X e d`.
* `SR.slotInvEx`: `SlotInvEx` is carried along `SR` once the `flag` clause is re-established.
-/
namespace IncrVerif.Proofs.ExpertH
open IncrVerif.Engine IncrVerif.Driver IncrVerif.Proofs IncrVerif.Proofs.Step IncrVerif.Proofs.Sched
open IncrVerif.Proofs.ExpertH.QR IncrVerif.Proofs.Xp

/-! ## lists -/

theorem eq_of_nodup_map {α β} (f : α → β) : ∀ {l : List α}, (l.map f).Nodup → ∀ {x y : α}, x ∈ l → y ∈ l →
    f x = f y → x = y
  | [], _, _, _, hx, _, _ => by cases hx
  | a :: l, hn, x, y, hx, hy, hxy => by
    rw [List.map_cons, List.nodup_cons] at hn
    rcases List.mem_cons.1 hx with rfl | hx'
    · rcases List.mem_cons.1 hy with rfl | hy'
      · rfl
      · exact absurd (by rw [hxy]; exact List.mem_map_of_mem hy') hn.1
    · rcases List.mem_cons.1 hy with rfl | hy'
      · exact absurd (by rw [← hxy]; exact List.mem_map_of_mem hx') hn.1
      · exact eq_of_nodup_map f hn.2 hx' hy' hxy

theorem lookup_filter_ne {β} (d k : Nat) : ∀ (l : List (Nat × β)), d ≠ k →
    List.lookup d (l.filter (·.1 != k)) = List.lookup d l
  | [], _ => rfl
  | (a, b) :: l, h => by
    have ih := lookup_filter_ne d k l h
    by_cases hak : a = k
    · subst hak
      have h2 : (d == a) = false := by simpa using h
      simp only [List.filter_cons, bne_self_eq_false, Bool.false_eq_true, if_false, List.lookup_cons, h2]
      exact ih
    · have h1 : (a != k) = true := by simpa using hak
      simp only [List.filter_cons, h1, if_true, List.lookup_cons]
      cases d == a
      · exact ih
      · rfl

theorem lookup_none_of_keys {β} (d : Nat) (l : List (Nat × β)) (h : ∀ p, p ∈ l → p.1 ≠ d) :
    List.lookup d l = none := by
  rw [List.lookup_eq_none_iff]
  intro p hp
  have := h p hp
  simpa using fun e => this e.symm

/-! ## the slot relation -/

/-- what `SlotInv` reads of a node -/
def slotKey (nd : Node) := (nd.kind, nd.valid, nd.value, nd.recomputedAt, nd.changedAt)

/-- record `er'` is record `er` after some engine work outside a recompute, started in state `s` -/
def RecR (env : Env) (s : State) (er er' : ExpertRec) : Prop :=
  er'.children = er.children ∧ er'.forceStale = er.forceStale ∧
  (er.willFireAllCallbacks = true → er'.willFireAllCallbacks = true) ∧
  (∀ d, List.lookup d er'.slots = List.lookup d er.slots ∨
    (er.willFireAllCallbacks = false ∧
      ∃ ed, ed ∈ er.children ∧ ed.dep = d ∧ List.lookup d er'.slots = s.value env ed.child)) ∧
  (∀ p, p ∈ er'.slots → p ∈ er.slots ∨ ∃ ed, ed ∈ er.children ∧ ed.dep = p.1)

def OptRel {α} (R : α → α → Prop) : Option α → Option α → Prop
  | none, none => True
  | some a, some b => R a b
  | _, _ => False

theorem RecR.refl (env : Env) (s : State) (er : ExpertRec) : RecR env s er er :=
  ⟨rfl, rfl, id, fun _ => Or.inl rfl, fun _ h => Or.inl h⟩

/-- same dependencies, `forceStale`, slots; the flag may have been raised -/
theorem RecR.of_same {env : Env} {s : State} {er er' : ExpertRec} (h1 : er'.children = er.children)
    (h2 : er'.forceStale = er.forceStale) (h3 : er.willFireAllCallbacks = true → er'.willFireAllCallbacks = true)
    (h4 : er'.slots = er.slots) : RecR env s er er' :=
  ⟨h1, h2, h3, fun _ => Or.inl (by rw [h4]), fun _ h => Or.inl (by rw [← h4]; exact h)⟩

theorem RecR.trans {env : Env} {a b : State} {x y z : ExpertRec} (hv : ∀ m, b.value env m = a.value env m)
    (h1 : RecR env a x y) (h2 : RecR env b y z) : RecR env a x z := by
  obtain ⟨c1, f1, w1, s1, k1⟩ := h1
  obtain ⟨c2, f2, w2, s2, k2⟩ := h2
  refine ⟨c2.trans c1, f2.trans f1, fun h => w2 (w1 h), fun d => ?_, fun p hp => ?_⟩
  · rcases s2 d with e2 | ⟨hw, ed, hed, hd, hl⟩
    · rw [e2]; exact s1 d
    · refine Or.inr ⟨?_, ed, by rw [← c1]; exact hed, hd, by rw [hl, hv]⟩
      cases hx : x.willFireAllCallbacks with
      | false => rfl
      | true => rw [w1 hx] at hw; cases hw
  · rcases k2 p hp with h | ⟨ed, hed, hd⟩
    · exact k1 p h
    · exact Or.inr ⟨ed, by rw [← c1]; exact hed, hd⟩

structure SR (env : Env) (s s' : State) : Prop where
  size : s'.nodes.size = s.nodes.size
  node : ∀ m, slotKey (s'.nodeD m) = slotKey (s.nodeD m)
  nextDep : s'.nextDep = s.nextDep
  recs : ∀ e : Nat, OptRel (RecR env s) (s.experts[e]?) (s'.experts[e]?)

section
variable {env : Env} {s s' : State}

theorem SR.kind (h : SR env s s') (m : Nat) : (s'.nodeD m).kind = (s.nodeD m).kind := by
  have := h.node m; simp only [slotKey, Prod.mk.injEq] at this; exact this.1
theorem SR.valid (h : SR env s s') (m : Nat) : (s'.nodeD m).valid = (s.nodeD m).valid := by
  have := h.node m; simp only [slotKey, Prod.mk.injEq] at this; exact this.2.1
theorem SR.recomputedAt (h : SR env s s') (m : Nat) : (s'.nodeD m).recomputedAt = (s.nodeD m).recomputedAt := by
  have := h.node m; simp only [slotKey, Prod.mk.injEq] at this; exact this.2.2.2.1
theorem SR.changedAt (h : SR env s s') (m : Nat) : (s'.nodeD m).changedAt = (s.nodeD m).changedAt := by
  have := h.node m; simp only [slotKey, Prod.mk.injEq] at this; exact this.2.2.2.2

theorem SR.value (h : SR env s s') (m : Nat) : s'.value env m = s.value env m := by
  refine value_congr env s s' h.size (fun k => ?_) m
  have := h.node k; simp only [slotKey, Prod.mk.injEq] at this
  simp only [valueCore, Prod.mk.injEq]
  exact ⟨this.1, this.2.1, this.2.2.1⟩

theorem SR.fwd (h : SR env s s') {e : Nat} {er : ExpertRec} (he : s.experts[e]? = some er) :
    ∃ er', s'.experts[e]? = some er' ∧ RecR env s er er' := by
  have := h.recs e
  rw [he] at this
  cases h' : s'.experts[e]? with
  | none => rw [h'] at this; exact this.elim
  | some er' => rw [h'] at this; exact ⟨er', rfl, this⟩

theorem SR.back (h : SR env s s') {e : Nat} {er' : ExpertRec} (he : s'.experts[e]? = some er') :
    ∃ er, s.experts[e]? = some er ∧ RecR env s er er' := by
  have := h.recs e
  rw [he] at this
  cases h' : s.experts[e]? with
  | none => rw [h'] at this; exact this.elim
  | some er => rw [h'] at this; exact ⟨er, rfl, this⟩

theorem SR.allValid (h : SR env s s') (hv : ∀ m, (s.nodeD m).valid = true) : ∀ m, (s'.nodeD m).valid = true :=
  fun m => by rw [h.valid]; exact hv m
end

theorem SR.refl (env : Env) (s : State) : SR env s s :=
  ⟨rfl, fun _ => rfl, rfl, fun e => by cases s.experts[e]? <;> simp [OptRel, RecR.refl]⟩

theorem SR.trans {env : Env} {a b c : State} (h1 : SR env a b) (h2 : SR env b c) : SR env a c := by
  refine ⟨h2.size.trans h1.size, fun m => (h2.node m).trans (h1.node m), h2.nextDep.trans h1.nextDep, fun e => ?_⟩
  have r1 := h1.recs e
  have r2 := h2.recs e
  cases ha : a.experts[e]? <;> cases hb : b.experts[e]? <;> cases hc : c.experts[e]? <;>
    rw [ha, hb] at r1 <;> rw [hb, hc] at r2 <;> simp only [OptRel] at r1 r2 ⊢ <;>
    first | trivial | exact r1.elim | exact r2.elim | exact RecR.trans h1.value r1 r2

instance (env : Env) : Step.PreOrd (SR env) := ⟨SR.refl env, SR.trans⟩

theorem SR.of_nodes {env : Env} {s s' : State} (h1 : s'.nodes = s.nodes) (h2 : s'.experts = s.experts)
    (h3 : s'.nextDep = s.nextDep) : SR env s s' := by
  refine ⟨by rw [h1], fun m => ?_, h3, fun e => ?_⟩
  · have : s'.nodeD m = s.nodeD m := by simp [State.nodeD, h1]
    rw [this]
  · rw [h2]; cases s.experts[e]? <;> simp [OptRel, RecR.refl]

theorem SR.modNode (env : Env) (s : State) (n : Nat) (f : Node → Node) (hf : ∀ x, slotKey (f x) = slotKey x) :
    SR env s { s with nodes := s.nodes.modify n f } := by
  refine ⟨by simp, fun m => ?_, rfl, fun e => by cases s.experts[e]? <;> simp [OptRel, RecR.refl]⟩
  rw [nodeD_modify]; split
  · exact hf _
  · rfl

theorem SR.modExpert (env : Env) (s : State) (e : Nat) (f : ExpertRec → ExpertRec)
    (hf : ∀ x, s.experts[e]? = some x → RecR env s x (f x)) : SR env s { s with experts := s.experts.modify e f } := by
  refine ⟨rfl, fun _ => rfl, rfl, fun j => ?_⟩
  simp only [Array.getElem?_modify]
  split
  · rename_i hj; subst hj
    cases hx : s.experts[e]? with
    | none => simp [OptRel]
    | some x => simp only [Option.map_some, OptRel]; exact hf x hx
  · cases s.experts[j]? <;> simp [OptRel, RecR.refl]

/-! ## flags and necessity -/

structure FM (s s' : State) : Prop where
  kind : ∀ m, (s'.nodeD m).kind = (s.nodeD m).kind
  valid : ∀ m, (s'.nodeD m).valid = (s.nodeD m).valid
  flags : ∀ e : Nat, (s'.experts[e]?).map (·.willFireAllCallbacks) = (s.experts[e]?).map (·.willFireAllCallbacks)
  nec : ∀ m, s.isNecessary m = true → s'.isNecessary m = true
  pinv : (∀ m, (s.nodeD m).valid = true) → s'.propagateInvalidity = s.propagateInvalidity

theorem FM.refl (s : State) : FM s s := ⟨fun _ => rfl, fun _ => rfl, fun _ => rfl, fun _ h => h, fun _ => rfl⟩
theorem FM.trans {a b c : State} (h1 : FM a b) (h2 : FM b c) : FM a c :=
  ⟨fun m => (h2.kind m).trans (h1.kind m), fun m => (h2.valid m).trans (h1.valid m),
    fun e => (h2.flags e).trans (h1.flags e), fun m h => h2.nec m (h1.nec m h),
    fun hv => (h2.pinv fun m => by rw [h1.valid]; exact hv m).trans (h1.pinv hv)⟩
instance : Step.PreOrd FM := ⟨FM.refl, FM.trans⟩

theorem FM.of_nodes {s s' : State} (h1 : s'.nodes = s.nodes) (h2 : s'.experts = s.experts)
    (h3 : s'.propagateInvalidity = s.propagateInvalidity) : FM s s' := by
  have hn : ∀ m, s'.nodeD m = s.nodeD m := fun m => by simp [State.nodeD, h1]
  exact ⟨fun m => by rw [hn], fun m => by rw [hn], fun e => by rw [h2],
    fun m h => by simp only [State.isNecessary, hn]; exact h, fun _ => h3⟩

theorem FM.modNode (s : State) (n : Nat) (f : Node → Node)
    (hf : ∀ x, (f x).kind = x.kind ∧ (f x).valid = x.valid ∧ (x.isNecessary = true → (f x).isNecessary = true)) :
    FM s { s with nodes := s.nodes.modify n f } := by
  refine ⟨fun m => ?_, fun m => ?_, fun _ => rfl, fun m h => ?_, fun _ => rfl⟩
  · rw [nodeD_modify]; split
    · exact (hf _).1
    · rfl
  · rw [nodeD_modify]; split
    · exact (hf _).2.1
    · rfl
  · simp only [State.isNecessary] at h ⊢
    rw [nodeD_modify]; split
    · exact (hf _).2.2 h
    · exact h

theorem FM.modExpert (s : State) (e : Nat) (f : ExpertRec → ExpertRec)
    (hf : ∀ x, (f x).willFireAllCallbacks = x.willFireAllCallbacks) :
    FM s { s with experts := s.experts.modify e f } := by
  refine ⟨fun _ => rfl, fun _ => rfl, fun j => ?_, fun _ h => h, fun _ => rfl⟩
  simp only [Array.getElem?_modify]
  split
  · cases s.experts[j]? <;> simp [hf]
  · rfl

theorem FM.flag_back {s s' : State} (h : FM s s') {e : Nat} {er' : ExpertRec} (he : s'.experts[e]? = some er') :
    ∃ er, s.experts[e]? = some er ∧ er.willFireAllCallbacks = er'.willFireAllCallbacks := by
  have := h.flags e
  rw [he] at this
  cases h' : s.experts[e]? with
  | none => rw [h'] at this; cases this
  | some er =>
    rw [h'] at this
    simp only [Option.map_some, Option.some.injEq] at this
    exact ⟨er, rfl, this.symm⟩

/-! ## staleness of an expert node -/

theorem isStale_expert_congr {s s' : State} {n e : Nat} {er er' : ExpertRec}
    (hnode : ∀ m, slotKey (s'.nodeD m) = slotKey (s.nodeD m))
    (hk : (s.nodeD n).kind = .expert e) (he : s.experts[e]? = some er) (he' : s'.experts[e]? = some er')
    (hc : er'.children = er.children) (hf : er'.forceStale = er.forceStale) : s'.isStale n = s.isStale n := by
  have key : ∀ m, (s'.nodeD m).kind = (s.nodeD m).kind ∧ (s'.nodeD m).valid = (s.nodeD m).valid ∧
      (s'.nodeD m).recomputedAt = (s.nodeD m).recomputedAt ∧ (s'.nodeD m).changedAt = (s.nodeD m).changedAt := by
    intro m
    have := hnode m; simp only [slotKey, Prod.mk.injEq] at this
    exact ⟨this.1, this.2.1, this.2.2.2.1, this.2.2.2.2⟩
  have hk? : (s'.nodeD n).kind? = (s.nodeD n).kind? := by simp only [Node.kind?, (key n).1, (key n).2.1]
  unfold State.isStale State.children
  simp only [hk?, (key n).2.2.1]
  cases hv : (s.nodeD n).valid with
  | false => simp [Node.kind?, hv]
  | true =>
    have : (s.nodeD n).kind? = some (.expert e) := by simp [Node.kind?, hv, hk]
    simp only [this, he, he', hc, hf]
    congr 2
    funext c
    rw [(key c).2.2.2]

/-! ## `SlotInv` with exempted dependencies -/

/-- `Good` but for the dependencies in `D` -/
def GoodEx (env : Env) (s : State) (er : ExpertRec) (D : Nat → Prop) : Prop :=
  ∀ ed, ed ∈ er.children → ed.cb.isSome = true → ¬ D ed.dep → List.lookup ed.dep er.slots = s.value env ed.child

structure SlotInvEx (env : Env) (s : State) (X : Nat → Nat → Prop) : Prop where
  deps : ∀ (e : Nat) (er : ExpertRec), s.experts[e]? = some er →
    (er.children.map (·.dep)).Nodup ∧ (∀ ed, ed ∈ er.children → ed.dep < s.nextDep) ∧
      (∀ p, p ∈ er.slots → p.1 < s.nextDep)
  flag : ∀ (n e : Nat) (er : ExpertRec), (s.nodeD n).kind = .expert e → s.experts[e]? = some er →
    er.willFireAllCallbacks = false → s.isNecessary n = true
  good : ∀ (n e : Nat) (er : ExpertRec), (s.nodeD n).kind = .expert e → s.experts[e]? = some er →
    (er.willFireAllCallbacks = false ∨ s.isStale n = false) → GoodEx env s er (X e)

theorem SlotInv.toEx {env : Env} {s : State} (L : SlotInv env s) (X : Nat → Nat → Prop) : SlotInvEx env s X :=
  ⟨L.deps, L.flag, fun n e er hk he h ed hed hcb _ => L.good n e er hk he h ed hed hcb⟩

theorem SlotInvEx.toInv {env : Env} {s : State} (L : SlotInvEx env s fun _ _ => False) : SlotInv env s :=
  ⟨L.deps, L.flag, fun n e er hk he h ed hed hcb => L.good n e er hk he h ed hed hcb (fun h => h)⟩

/-- **`deps` and `good` are carried along `SR`**; the `flag` clause must be re-established by the caller -/
theorem SR.slotInvEx {env : Env} {s s' : State} {X : Nat → Nat → Prop} (L : SlotInvEx env s X) (R : SR env s s')
    (hflag : ∀ (n e : Nat) (er : ExpertRec), (s'.nodeD n).kind = .expert e → s'.experts[e]? = some er →
      er.willFireAllCallbacks = false → s'.isNecessary n = true) : SlotInvEx env s' X := by
  refine ⟨fun e er' he' => ?_, hflag, fun n e er' hk' he' hpre => ?_⟩
  · obtain ⟨er, he, hc, -, -, -, hkeys⟩ := R.back he'
    obtain ⟨d1, d2, d3⟩ := L.deps e er he
    rw [hc, R.nextDep]
    refine ⟨d1, d2, fun p hp => ?_⟩
    rcases hkeys p hp with h | ⟨ed, hed, hd⟩
    · exact d3 p h
    · rw [← hd]; exact d2 ed hed
  · obtain ⟨er, he, hc, hf, hw, hsl, -⟩ := R.back he'
    have hk : (s.nodeD n).kind = .expert e := by rw [← R.kind]; exact hk'
    have hst : s'.isStale n = s.isStale n := isStale_expert_congr R.node hk he he' hc hf
    have hpre0 : er.willFireAllCallbacks = false ∨ s.isStale n = false := by
      rcases hpre with h | h
      · left
        cases hx : er.willFireAllCallbacks with
        | false => rfl
        | true => rw [hw hx] at h; cases h
      · right; rw [← hst]; exact h
    have G := L.good n e er hk he hpre0
    intro ed hed hcb hX
    rw [hc] at hed
    rw [R.value]
    rcases hsl ed.dep with h | ⟨-, ed2, hed2, hd, hl⟩
    · rw [h]; exact G ed hed hcb hX
    · have : ed2 = ed := eq_of_nodup_map (·.dep) (L.deps e er he).1 hed2 hed hd
      rw [hl, this]

/-- the `flag` clause is carried along `FM` -/
theorem FM.flagClause {s s' : State}
    (L : ∀ (n e : Nat) (er : ExpertRec), (s.nodeD n).kind = .expert e → s.experts[e]? = some er →
      er.willFireAllCallbacks = false → s.isNecessary n = true) (R : FM s s') :
    ∀ (n e : Nat) (er : ExpertRec), (s'.nodeD n).kind = .expert e → s'.experts[e]? = some er →
      er.willFireAllCallbacks = false → s'.isNecessary n = true := by
  intro n e er' hk' he' hw
  obtain ⟨er, he, hww⟩ := R.flag_back he'
  exact R.nec n (L n e er (by rw [← R.kind]; exact hk') he (by rw [hww]; exact hw))

theorem slotInvEx_of_sr_fm {env : Env} {s s' : State} {X : Nat → Nat → Prop} (L : SlotInvEx env s X)
    (R : SR env s s') (M : FM s s') : SlotInvEx env s' X :=
  R.slotInvEx L (M.flagClause L.flag)

theorem slotInv_of_sr_fm {env : Env} {s s' : State} (L : SlotInv env s) (R : SR env s s') (M : FM s s') :
    SlotInv env s' :=
  (slotInvEx_of_sr_fm (L.toEx _) R M).toInv

end IncrVerif.Proofs.ExpertH
