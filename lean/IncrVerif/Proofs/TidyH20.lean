import IncrVerif.Proofs.TidyH19
/-!
# T3a part 3: `stabilise` returns (static fragment with subscriptions, effect-free handlers)
-/
namespace IncrVerif.Proofs.TidyH.SubsT
open IncrVerif.Engine IncrVerif.Driver IncrVerif.Proofs IncrVerif.Proofs.Step IncrVerif.Proofs.Sched
open IncrVerif.Proofs.Quiet

/-- the queued nodes exist: a flagged node is not the default node -/
theorem hasRange_of_hasOK {s : State} (H : SubsH.HasOK s) : HasRange s := by
  intro n hn
  have hf := (H.flag n).1 hn
  rcases Nat.lt_or_ge n s.nodes.size with h | h
  · exact h
  · rw [nodeD_default s n h, SubsH.P8.default_flag] at hf; cases hf

set_option maxHeartbeats 1000000 in
/-- **`stabilise` returns** (static fragment with subscriptions, effect-free handlers, enough fuel), and the
extra invariant `TInv` is kept. -/
theorem stabilise_total_u {env : Env} {N fuel : Nat} {s : State} (U : SubsH.UInv env s) (T : TInv N s)
    (heff : SubsH.PureHandlers env) (hf : 3 * s.nodes.size + 4 ≤ fuel) :
    Tot (stabilise env fuel) s (fun _ s' => TInv N s') := by
  have Q := U.core
  obtain ⟨s0, hs0⟩ : ∃ s0 : State, s0 = { s with status := .stabilising } := ⟨_, rfl⟩
  have hnd0 : ∀ m, s0.nodeD m = s.nodeD m := fun m => by rw [hs0]; rfl
  have hsz0 : s0.nodes.size = s.nodes.size := by rw [hs0]
  have hvars0 : s0.vars = s.vars := by rw [hs0]
  have hstab0 : s0.stabNum = s.stabNum := by rw [hs0]
  have S0 : SubsH.SInv env s0 s0.newObservers s0.disallowedObservers := by
    rw [hs0]
    exact ⟨Q.struct.congr (SameG.of_nodes rfl rfl rfl rfl rfl),
      ⟨Q.obs.inRange, Q.obs.mem, Q.obs.created, Q.obs.newIn, Q.obs.dis, Q.obs.disIn, Q.obs.disNodup⟩,
      Q.pinv, U.hinv.of_nodes rfl rfl rfl rfl rfl⟩
  have hb0 : HBo s0 allClosed := by
    intro m hm ho
    rw [hnd0]; exact T.hb m (by rw [State.isNecessary, ← hnd0]; exact hm) ho
  have R0 : Room N s0 := by rw [hs0]; exact ⟨T.room.ahh, T.room.rch, T.room.size⟩
  -- the two loops
  have hf1 : 2 * s0.nodes.size + 2 ≤ fuel := by rw [hsz0]; omega
  obtain ⟨_, t1, h1, hb1⟩ := addNewObservers_total (fuel := fuel) (env := env) S0 hb0 R0
    (by rw [hs0]; exact T.newNodup) (by rw [hs0]; exact T.newState) hf1
  obtain ⟨S1, hn1, hd1, F1, O1, N1, K1, L1, T1⟩ := SubsH.addNewObservers_s S0 h1
  have hf2 : 3 * t1.nodes.size + 3 ≤ fuel := by rw [F1.size, hsz0]; omega
  obtain ⟨_, t2, h2, hb2⟩ := unlinkDisallowedObservers_total (fuel := fuel) S1 hn1 hb1 hf2
  obtain ⟨S2, hn2, hd2, F2, O2, K2, L2, T2⟩ := SubsH.unlinkDisallowedObservers_s S1 hn1 h2
  have F : SubsH.PFrame s0 t2 := F1.trans F2
  have R2 : Room N t2 := room_of_pframe R0 F
  -- the drain invariant
  have V2 : VarsOK t2 := F.varsOK (by
    refine ⟨?_, ?_⟩
    · intro n c hn hk; rw [hnd0] at hk; rw [hvars0]; exact Q.vars.node n c (by rw [← hsz0]; exact hn) hk
    · intro c vc hc; rw [hvars0] at hc; rw [hsz0, hnd0]; exact Q.vars.cell c vc hc)
  have st2 : ∀ m, (t2.nodeD m).recomputedAt < t2.stabNum ∧ (t2.nodeD m).changedAt < t2.stabNum := by
    intro m
    rw [F.recomputedAt, F.changedAt, F.stabNum, hstab0, hnd0]; exact Q.stamps m
  have cons2 : ∀ m, m < t2.nodes.size → staleOf t2 m = false → Consistent env t2 m := by
    intro m hm hs
    rw [F.staleOf] at hs
    have hs' : staleOf s m = false := by
      rw [← hs]; exact (staleOf_congr (by rw [hnd0]) (by rw [hnd0]) hvars0 (fun c _ => by rw [hnd0])).symm
    have hc := Q.cons m (by rw [← hsz0, ← F.size]; exact hm) hs'
    have hc0 : Consistent env s0 m := by
      obtain ⟨w, hw, hv⟩ := hc
      exact ⟨w, Target.congr (by rw [hnd0]) hvars0 (fun c _ => by rw [hnd0]) hw, by rw [hnd0]; exact hv⟩
    exact F.consistent hc0
  have D2 : DrainInv env t2 :=
    drainInv_of S2.struct V2 (by rw [F.stabNum, hstab0]; exact Q.now) st2
      (fun c vc hc => by rw [F.vars, hvars0] at hc; rw [F.stabNum, hstab0]; exact Q.varStamp c vc hc) cons2
  -- the drain
  have Sf : Safe t2 := by
    refine ⟨fun n hn => ?_, fun n hn => (GInv.node S2.struct (nec_lt_size hn)).top⟩
    have h1 := hb2 n hn rfl
    have h2 := nec_lt_size hn
    have h3 := R2.size
    rw [R2.rch]; omega
  have hf3 : t2.nodes.size + 2 ≤ fuel := by rw [F.size, hsz0]; omega
  obtain ⟨t3, h3, D3, he3, f3, -⟩ := drainHeap_total_values D2 Sf hf3
  have c3 := drainHeap_calm fuel t2 t3 D2 h3
  have k3 := drainHeap_keyD D2 h3
  have hu3 := SubsH.drainHeap_hush fuel t2 t3 D2 h3
  simp only [stateKeyD, Prod.mk.injEq] at k3
  obtain ⟨k_obs, -, -, k_top, -, -, -, -, -, -, k_ahh⟩ := k3
  have H3 : SubsH.HInv t3 :=
    SubsH.P12u.hinv_hush S2.hinv hu3 k_obs (fun m => (f3.shape m).observers) f3.stabNum
  have O3 : SubsH.ObsInv t3 [] [] :=
    SubsH.obsInv_congr' S2.obs k_obs f3.size (fun m => (f3.shape m).observers)
  have hval3 : ∀ n, t3.isNecessary n = true →
      (t3.nodeD n).valid = true ∧ (t3.value env n).isSome = true := by
    intro n hn
    obtain ⟨v1, -, v3, -, v5⟩ := drained_values D3 he3 n hn ((t3.nodeD n).height.toNat + 1) (Nat.lt_succ_self _)
    refine ⟨v1, ?_⟩
    rw [D3.graph.value_plain hn, v3]; exact v5
  -- the end
  have hsd3 : t3.setDuringStab = [] := by rw [c3.setDuringStab, F.setDuringStab, hs0]; exact Q.setDuringStab
  have hdv3 : t3.deadVars = [] := by rw [c3.deadVars, F.deadVars, hs0]; exact Q.deadVars
  obtain ⟨_, s', h4, -⟩ := stabiliseEnd_total (env := env) (fuel := fuel) (s := t3) heff D3.graph.pc hsd3 hdv3
    O3 (hasRange_of_hasOK H3.has) hval3
  have E := SubsH.stabiliseEnd_spec (env := env) (fuel := fuel) (s := t3) (s' := s') heff D3.graph.pc
    hsd3 hdv3 O3 H3 hval3 h4
  -- the run
  have hrun : (stabilise env fuel).run.run s = (.ok (), s') := by
    unfold stabilise
    have hst : (s.status == Status.notStabilising) = true := by rw [Q.status]; rfl
    rw [run_bind_get, run_bind_ok (show (assertM (s.status == Status.notStabilising)
      "state:stabilise:status").run.run s = (.ok (), s) by rw [run_assertM, hst]; rfl),
      run_bind_modify]
    rw [← hs0, run_bind_ok h1, run_bind_ok h2, run_bind_ok h3]
    exact h4
  refine Tot.of_ok hrun ?_
  -- the extra invariant at the end
  have hE : ∀ m, NodeG (t3.nodeD m) (s'.nodeD m) := by
    intro m
    rw [E.node m]
    exact ⟨rfl, rfl, rfl, rfl, rfl, rfl, rfl, rfl, rfl, rfl, rfl⟩
  have hnec' : ∀ m, s'.isNecessary m = t2.isNecessary m := fun m => by
    have G3 : SameG t3 s' := ⟨E.pc, E.scope, E.size, E.rch, E.vars, hE⟩
    rw [G3.nec, f3.nec]
  have hsize' : s'.nodes.size = s.nodes.size := by rw [E.size, f3.size, F.size, hsz0]
  refine ⟨?_, ⟨?_, ?_, by rw [hsize']; exact T.room.size⟩, ?_, ?_, ?_, ?_⟩
  · intro m hm ho
    rw [(hE m).height, (f3.shape m).height]
    exact hb2 m (by rw [← hnec']; exact hm) ho
  · rw [E.ahh, k_ahh]; exact R2.ahh
  · rw [E.rch, ← R2.rch]; exact maxAllowed_congr f3.qsize
  · intro c vc hc
    rw [E.vars, f3.vars, F.vars, hs0] at hc
    exact T.linked c vc hc
  · rw [E.top, k_top, F.top, hs0, hsize']; exact T.topSize
  · rw [E.newObservers, c3.newObservers, hn2]; exact List.nodup_nil
  · intro o ob ho
    rw [E.newObservers, c3.newObservers, hn2] at ho; cases ho

end IncrVerif.Proofs.TidyH.SubsT
