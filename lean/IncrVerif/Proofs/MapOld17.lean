import IncrVerif.Proofs.MapOld16
/-!
# map_with_old fragment: the two cascades at the start of `stabilise` do not touch what `MInv`/`WFrag` read

`WFr s s'`: node count, `kind`/`valid`/`value`/`oldState` of every node, the variables unchanged; `panicCountdown = none`
kept.  Unconditional (`Step.Pres WFr`, all runs) for `unlinkDisallowedObservers` and `rchRemoveMin`; for
`addNewObservers` (which ends in `propagateInvalidity`) from states without invalid nodes and without pending
invalidation (`Act.Cl s`, implied by `Fr s`).
-/
namespace IncrVerif.Proofs.MapOldH
open IncrVerif.Engine IncrVerif.Proofs IncrVerif.Proofs.Step IncrVerif.Proofs.Sched IncrVerif.Proofs.Quiet

structure WFr (s s' : State) : Prop where
  size : s'.nodes.size = s.nodes.size
  node : ∀ m, wKey (s'.nodeD m) = wKey (s.nodeD m)
  vars : s'.vars = s.vars
  pc : s.panicCountdown = none → s'.panicCountdown = none

theorem WFr.refl (s : State) : WFr s s := ⟨rfl, fun _ => rfl, rfl, id⟩
theorem WFr.trans {a b c : State} (h1 : WFr a b) (h2 : WFr b c) : WFr a c :=
  ⟨h2.size.trans h1.size, fun m => (h2.node m).trans (h1.node m), h2.vars.trans h1.vars, fun h => h2.pc (h1.pc h)⟩
instance : Step.PreOrd WFr := ⟨WFr.refl, WFr.trans⟩

/-- no invalid node, no pending invalidation -/
def Act.Cl (s : State) : Prop := s.propagateInvalidity = [] ∧ ∀ n, (s.nodeD n).valid = true

theorem Fr.cl {s : State} (h : Fr s) : Act.Cl s := ⟨h.pinv, h.valid⟩

theorem Act.Cl.next {s s' : State} (h : Act.Cl s) (f : WFr s s') (hp : s'.propagateInvalidity = []) : Act.Cl s' :=
  ⟨hp, fun n => by rw [wKey_valid (f.node n)]; exact h.2 n⟩

/-- `WFr`, and from a clean state no invalidation gets pending -/
structure Act.WFr2 (s s' : State) : Prop where
  fr : WFr s s'
  pinv : Act.Cl s → s'.propagateInvalidity = []

theorem Act.WFr2.refl (s : State) : Act.WFr2 s s := ⟨WFr.refl s, fun h => h.1⟩
theorem Act.WFr2.trans {a b c : State} (h1 : Act.WFr2 a b) (h2 : Act.WFr2 b c) : Act.WFr2 a c :=
  ⟨h1.fr.trans h2.fr, fun h => h2.pinv (h.next h1.fr (h1.pinv h))⟩
instance : Step.PreOrd Act.WFr2 := ⟨Act.WFr2.refl, Act.WFr2.trans⟩

theorem Act.WFr2.of_same {s s' : State} (h1 : s'.nodes = s.nodes) (h2 : s'.vars = s.vars)
    (h3 : s'.panicCountdown = s.panicCountdown) (h4 : s'.propagateInvalidity = s.propagateInvalidity) :
    Act.WFr2 s s' := by
  refine ⟨⟨by rw [h1], fun m => ?_, h2, fun h => by rw [h3]; exact h⟩, fun h => by rw [h4]; exact h.1⟩
  have : s'.nodeD m = s.nodeD m := by simp [State.nodeD, h1]
  rw [this]

theorem Act.WFr2.modNode (s : State) (n : Nat) (f : Node → Node) (hf : ∀ x, wKey (f x) = wKey x) :
    Act.WFr2 s { s with nodes := s.nodes.modify n f } := by
  refine ⟨⟨by simp, fun m => ?_, rfl, id⟩, fun h => h.1⟩
  rw [nodeD_modify]; split
  · exact hf _
  · rfl

theorem PresW2.modNode (n : Nat) (f : Node → Node) (hf : ∀ x, wKey (f x) = wKey x) :
    Step.Pres Act.WFr2 (Engine.modNode n f) := by
  unfold Engine.modNode; exact Step.Pres.modify fun s => Act.WFr2.modNode s n f hf

macro_rules
  | `(tactic| qleaf) =>
    `(tactic| ((with_reducible apply Step.Pres.modify); intro _; exact Act.WFr2.of_same rfl rfl rfl rfl))
macro_rules
  | `(tactic| qleaf) => `(tactic| ((with_reducible apply PresW2.modNode); intro _; rfl))

macro "w2_leaf " n:ident : command =>
  `(macro_rules | `(tactic| qleaf) => `(tactic| with_reducible apply $n))

theorem PresW2.tick : Step.Pres Act.WFr2 tick := by
  constructor
  intro s r s' h
  unfold Engine.tick at h
  rw [run_bind, run_get] at h
  simp only at h
  cases hp : s.panicCountdown with
  | none => rw [hp] at h; simp only [run_pure] at h; cases h; exact Act.WFr2.refl s
  | some k =>
    rw [hp] at h
    simp only at h
    split at h
    · simp only [run_bind, run_modify, run_panic] at h
      cases h
      exact ⟨⟨rfl, fun _ => rfl, rfl, fun h => by simp [hp] at h⟩, fun h => h.1⟩
    · rw [run_modify] at h; cases h
      exact ⟨⟨rfl, fun _ => rfl, rfl, fun h => by simp [hp] at h⟩, fun h => h.1⟩
w2_leaf PresW2.tick

theorem PresW2.logEv (e) : Step.Pres Act.WFr2 (logEv e) := by unfold Engine.logEv; qpres
w2_leaf PresW2.logEv
theorem PresW2.modExpert (e f) : Step.Pres Act.WFr2 (modExpert e f) := by unfold Engine.modExpert; qpres
w2_leaf PresW2.modExpert
theorem PresW2.modBind (e f) : Step.Pres Act.WFr2 (modBind e f) := by unfold Engine.modBind; qpres
w2_leaf PresW2.modBind
theorem PresW2.bumpCounter (f) : Step.Pres Act.WFr2 (bumpCounter f) := by unfold Engine.bumpCounter; qpres
w2_leaf PresW2.bumpCounter
theorem PresW2.edgeOnChange (env e edge) : Step.Pres Act.WFr2 (edgeOnChange env e edge) := by
  unfold Engine.edgeOnChange; qpres
w2_leaf PresW2.edgeOnChange
theorem PresW2.runEdgeCallback (env e i) : Step.Pres Act.WFr2 (runEdgeCallback env e i) := by
  unfold Engine.runEdgeCallback; qpres
w2_leaf PresW2.runEdgeCallback
theorem PresW2.observabilityChange (e b) : Step.Pres Act.WFr2 (observabilityChange e b) := by
  unfold Engine.observabilityChange; qpres
w2_leaf PresW2.observabilityChange
theorem PresW2.setHeight (n h) : Step.Pres Act.WFr2 (setHeight n h) := by unfold Engine.setHeight; qpres
w2_leaf PresW2.setHeight
theorem PresW2.rchLink (n) : Step.Pres Act.WFr2 (rchLink n) := by unfold Engine.rchLink; qpres
w2_leaf PresW2.rchLink
theorem PresW2.rchInsert (n) : Step.Pres Act.WFr2 (rchInsert n) := by unfold Engine.rchInsert; qpres
w2_leaf PresW2.rchInsert
theorem PresW2.rchUnlink (n) : Step.Pres Act.WFr2 (rchUnlink n) := by unfold Engine.rchUnlink; qpres
w2_leaf PresW2.rchUnlink
theorem PresW2.rchRemove (n) : Step.Pres Act.WFr2 (rchRemove n) := by unfold Engine.rchRemove; qpres
w2_leaf PresW2.rchRemove
theorem PresW2.rchRemoveMin : Step.Pres Act.WFr2 rchRemoveMin := by unfold Engine.rchRemoveMin; qpres
theorem PresW2.addParent (c i p) : Step.Pres Act.WFr2 (addParent c i p) := by unfold Engine.addParent; qpres
w2_leaf PresW2.addParent
theorem PresW2.removeParent (c i p) : Step.Pres Act.WFr2 (removeParent c i p) := by
  unfold Engine.removeParent; qpres
w2_leaf PresW2.removeParent
theorem PresW2.handleAfterStabilisation (n) : Step.Pres Act.WFr2 (handleAfterStabilisation n) := by
  unfold Engine.handleAfterStabilisation; qpres
w2_leaf PresW2.handleAfterStabilisation
theorem PresW2.maybeHandleAfterStabilisation (n) : Step.Pres Act.WFr2 (maybeHandleAfterStabilisation n) := by
  unfold Engine.maybeHandleAfterStabilisation; qpres
w2_leaf PresW2.maybeHandleAfterStabilisation
theorem PresW2.scopeIsNecessary (sc) : Step.Pres Act.WFr2 (scopeIsNecessary sc) := by
  unfold Engine.scopeIsNecessary; qpres
w2_leaf PresW2.scopeIsNecessary

theorem PresW2.markMapRefUnknown (fuel n) : Step.Pres Act.WFr2 (markMapRefUnknown fuel n) := by
  induction fuel generalizing n with
  | zero => unfold Engine.markMapRefUnknown; qpres
  | succ fuel ih =>
    unfold Engine.markMapRefUnknown
    qpres
    all_goals (apply Step.Pres.forIn; intro a b; qpres; exact ih _)
w2_leaf PresW2.markMapRefUnknown

/-- the one place of the linking cascade where an invalidation gets pending: only for an invalid child -/
theorem PresW2.pushInv {β : Type} (child parent : Nat) (k : Unit → M β) (hk : Step.Pres Act.WFr2 (k ())) :
    Step.Pres Act.WFr2 (getNode child >>= fun nd =>
      if (!nd.valid) = true then
        (modify fun s => { s with propagateInvalidity := parent :: s.propagateInvalidity }) >>= k
      else k ()) := by
  constructor
  intro s r s' h
  rw [run_bind, run_getNode] at h
  cases hn : s.nodes[child]? with
  | none => rw [hn] at h; cases h; exact Act.WFr2.refl s
  | some nd =>
    rw [hn] at h
    simp only at h
    by_cases hv : nd.valid = true
    · simp only [hv, Bool.not_true, Bool.false_eq_true, if_false] at h
      exact hk.h _ _ _ h
    · simp only [hv, Bool.not_false, if_true, run_bind_modify] at h
      have h2 := hk.h _ _ _ h
      refine ⟨⟨h2.fr.size, h2.fr.node, h2.fr.vars, h2.fr.pc⟩, fun hc => ?_⟩
      have := hc.2 child
      rw [nodeD_of_some hn] at this
      exact absurd this hv

theorem PresW2.link (env : Env) (fuel : Nat) :
    (∀ n, Step.Pres Act.WFr2 (becameNecessary env fuel n)) ∧
    (∀ c i p, Step.Pres Act.WFr2 (addParentWithoutAdjustingHeights env fuel c i p)) := by
  induction fuel with
  | zero =>
    constructor
    · intro n; unfold becameNecessary; qpres
    · intro c i p; unfold addParentWithoutAdjustingHeights; qpres
  | succ fuel ih =>
    constructor
    · intro n
      unfold becameNecessary
      qpres
      all_goals (apply Step.Pres.forIn; intro a b; qpres; exact ih.2 _ _ _)
    · intro c i p
      unfold addParentWithoutAdjustingHeights
      refine Step.Pres.bind Step.Pres.get fun _ => ?_
      refine Step.Pres.bind (Step.Pres.dassert _ _) fun _ => ?_
      refine Step.Pres.bind Step.Pres.get fun _ => ?_
      dsimp only
      refine Step.Pres.bind (PresW2.addParent _ _ _) fun _ => ?_
      refine PresW2.pushInv c p _ ?_
      qpres
      all_goals exact ih.1 _

theorem PresW2.becameNecessary (env fuel n) : Step.Pres Act.WFr2 (becameNecessary env fuel n) :=
  (PresW2.link env fuel).1 n
w2_leaf PresW2.becameNecessary

theorem PresW2.unlink (fuel : Nat) :
    (∀ n, Step.Pres Act.WFr2 (becameUnnecessary fuel n)) ∧
    (∀ n, Step.Pres Act.WFr2 (checkIfUnnecessary fuel n)) ∧
    (∀ n, Step.Pres Act.WFr2 (removeChildren fuel n)) := by
  induction fuel with
  | zero =>
    refine ⟨?_, ?_, ?_⟩
    · intro n; unfold becameUnnecessary; qpres
    · intro n; unfold checkIfUnnecessary; qpres
    · intro n; unfold removeChildren; qpres
  | succ fuel ih =>
    refine ⟨?_, ?_, ?_⟩
    · intro n
      unfold becameUnnecessary
      qpres
      all_goals exact ih.2.2 _
    · intro n
      unfold checkIfUnnecessary
      qpres
      all_goals exact ih.1 _
    · intro n
      unfold removeChildren
      qpres
      all_goals (apply Step.Pres.forIn; intro a b; qpres; exact ih.2.1 _)

theorem PresW2.checkIfUnnecessary (fuel n) : Step.Pres Act.WFr2 (checkIfUnnecessary fuel n) :=
  (PresW2.unlink fuel).2.1 n
w2_leaf PresW2.checkIfUnnecessary

theorem PresW2.getObs (o) : Step.Pres Act.WFr2 (getObs o) := by unfold Engine.getObs; qpres
w2_leaf PresW2.getObs
theorem PresW2.modObs (o f) : Step.Pres Act.WFr2 (modObs o f) := by unfold Engine.modObs; qpres
w2_leaf PresW2.modObs

theorem PresW2.unlinkDisallowedObservers (fuel) : Step.Pres Act.WFr2 (unlinkDisallowedObservers fuel) := by
  unfold Engine.unlinkDisallowedObservers
  qpres
  all_goals (apply Step.Pres.forIn; intro a b; qpres)

/-! ## `addNewObservers`: from a clean state -/

/-- from a clean state: `WFr`, and the final state has no pending invalidation -/
def Act.WFrC (s s' : State) : Prop := Act.Cl s → WFr s s' ∧ s'.propagateInvalidity = []

theorem Act.WFrC.refl (s : State) : Act.WFrC s s := fun h => ⟨WFr.refl s, h.1⟩
theorem Act.WFrC.trans {a b c : State} (h1 : Act.WFrC a b) (h2 : Act.WFrC b c) : Act.WFrC a c := by
  intro h
  obtain ⟨f1, p1⟩ := h1 h
  obtain ⟨f2, p2⟩ := h2 (h.next f1 p1)
  exact ⟨f1.trans f2, p2⟩
instance : Step.PreOrd Act.WFrC := ⟨Act.WFrC.refl, Act.WFrC.trans⟩

theorem Act.WFr2.toC {s s' : State} (h : Act.WFr2 s s') : Act.WFrC s s' := fun hc => ⟨h.fr, h.pinv hc⟩

macro_rules
  | `(tactic| qleaf) =>
    `(tactic| ((refine Step.Pres.mono (R := Act.WFr2) (R' := Act.WFrC) ?_ (fun _ _ => Act.WFr2.toC)); qleaf))

theorem PresWC.propagateInvalidity (fuel : Nat) : Step.Pres Act.WFrC (propagateInvalidity fuel) := by
  constructor
  intro s r s' h hc
  cases fuel with
  | zero =>
    unfold Engine.propagateInvalidity at h
    rw [run_throw] at h; cases h; exact ⟨WFr.refl s, hc.1⟩
  | succ fuel =>
    unfold Engine.propagateInvalidity at h
    rw [run_bind, run_get] at h
    simp only [hc.1, run_pure] at h
    cases h; exact ⟨WFr.refl s, hc.1⟩

theorem PresWC.becameNecessaryPropagate (env fuel n) :
    Step.Pres Act.WFrC (becameNecessaryPropagate env fuel n) := by
  unfold Engine.becameNecessaryPropagate
  exact Step.Pres.bind ((PresW2.becameNecessary env fuel n).mono fun _ _ => Act.WFr2.toC)
    fun _ => PresWC.propagateInvalidity fuel

theorem PresWC.addNewObservers (env : Env) (fuel : Nat) : Step.Pres Act.WFrC (addNewObservers env fuel) := by
  unfold Engine.addNewObservers
  qpres
  all_goals (apply Step.Pres.forIn; intro a b; qpres)
  all_goals exact PresWC.becameNecessaryPropagate _ _ _

/-! ## the statements -/

theorem PresW.unlinkDisallowedObservers (fuel : Nat) : Step.Pres WFr (unlinkDisallowedObservers fuel) :=
  (PresW2.unlinkDisallowedObservers fuel).mono fun _ _ h => h.fr

theorem PresW.rchRemoveMin : Step.Pres WFr rchRemoveMin := PresW2.rchRemoveMin.mono fun _ _ h => h.fr

/-- every run (returning or panicking) of `addNewObservers` from a clean state -/
theorem addNewObservers_wfr' {env : Env} {fuel : Nat} {s s' : State} {r : Except Panic Unit} (hc : Act.Cl s)
    (h : (addNewObservers env fuel).run.run s = (r, s')) : WFr s s' ∧ s'.propagateInvalidity = [] :=
  (PresWC.addNewObservers env fuel).h _ _ _ h hc

theorem addNewObservers_wfr {env : Env} {fuel : Nat} {s s' : State} (hfr : Fr s)
    (h : (addNewObservers env fuel).run.run s = (.ok (), s')) : WFr s s' :=
  (addNewObservers_wfr' hfr.cl h).1

theorem unlinkDisallowedObservers_wfr {fuel : Nat} {s s' : State} {r : Except Panic Unit}
    (h : (unlinkDisallowedObservers fuel).run.run s = (r, s')) : WFr s s' :=
  (PresW.unlinkDisallowedObservers fuel).h _ _ _ h

theorem rchRemoveMin_wfr {s s' : State} {r : Except Panic (Option Nat)}
    (h : rchRemoveMin.run.run s = (r, s')) : WFr s s' :=
  PresW.rchRemoveMin.h _ _ _ h

theorem WFr.frag {env : Env} {G : Nat → Prop} {s s' : State} (h : WFr s s') (F : WFrag env G s) :
    WFrag env G s' := by
  refine ⟨h.pc F.pc, fun n hn => ?_, fun n hn => ?_, fun n hn c hc => ?_⟩
  · rw [wKey_kind (h.node n)]; exact F.kind n (by rw [← h.size]; exact hn)
  · rw [wKey_valid (h.node n)]; exact F.valid n (by rw [← h.size]; exact hn)
  · rw [wKey_kind (h.node n)] at hc; exact F.back n (by rw [← h.size]; exact hn) c hc

theorem WFr.minv {env : Env} {C : Val → Prop} {s s' : State} (h : WFr s s') (M : MInv env C s) :
    MInv env C s' := by
  refine ⟨fun n v hv => ?_, fun n hn => ?_, fun c vc hc => ?_, fun n g i hk => ?_⟩
  · rw [wKey_value (h.node n)] at hv; exact M.vals n v hv
  · rw [wKey_kind (h.node n)]; exact M.lits n (by rw [← h.size]; exact hn)
  · rw [h.vars] at hc; exact M.vars c vc hc
  · rw [wKey_kind (h.node n)] at hk
    rw [wKey_oldState (h.node n), wKey_value (h.node n)]; exact M.mach n g i hk

end IncrVerif.Proofs.MapOldH
