import IncrVerif.Proofs.PerKeyH9
/-!
# Node creation between two effects keeps `DriverH.Mid`, part 2: an expert node with a fresh record (MC2)

The state after the block is `ExpertH.xElab f t` (`Proofs/ExpertH50.lean`):
`{ t with experts := t.experts.push { f := f, node := t.nodes.size },
          nodes := t.nodes.push { kind := .expert t.experts.size, createdIn := .top, cutoff := .eq },
          counters := { t.counters with created := t.counters.created + 1 } }`.
-/
namespace IncrVerif.Proofs.PerKeyH
open IncrVerif.Engine IncrVerif.Driver IncrVerif.Proofs IncrVerif.Proofs.Step IncrVerif.Proofs.Sched
open IncrVerif.Proofs.ExpertH IncrVerif.Proofs.EffH IncrVerif.Proofs.DriverH IncrVerif.Proofs.ExpertH.QR

/-! ## the state -/

theorem xElab_nodes (f : Nat) (t : State) :
    (xElab f t).nodes = t.nodes.push { kind := .expert t.experts.size, createdIn := .top } := rfl
theorem xElab_experts (f : Nat) (t : State) :
    (xElab f t).experts = t.experts.push { f := f, node := t.nodes.size } := rfl
theorem xElab_size (f : Nat) (t : State) : (xElab f t).nodes.size = t.nodes.size + 1 := by
  rw [xElab_nodes, Array.size_push]
theorem xElab_xsize (f : Nat) (t : State) : (xElab f t).experts.size = t.experts.size + 1 := by
  rw [xElab_experts, Array.size_push]
theorem xElab_nextDep (f : Nat) (t : State) : (xElab f t).nextDep = t.nextDep := rfl
theorem xElab_eKey (f : Nat) (t : State) : eKey (xElab f t) = eKey t := rfl
theorem xElab_rch (f : Nat) (t : State) : (xElab f t).rch = t.rch := rfl
theorem xElab_ahh (f : Nat) (t : State) : (xElab f t).ahh = t.ahh := rfl
theorem xElab_log (f : Nat) (t : State) : (xElab f t).log = t.log := rfl
theorem xElab_slots (f : Nat) (t : State) : (xElab f t).slots = t.slots := rfl
theorem xElab_perkeys (f : Nat) (t : State) : (xElab f t).perkeys = t.perkeys := rfl
theorem xElab_top (f : Nat) (t : State) : (xElab f t).top = t.top := rfl
theorem xElab_scope (f : Nat) (t : State) : (xElab f t).currentScope = t.currentScope := rfl

theorem xElab_nodeD_new (f : Nat) (t : State) :
    (xElab f t).nodeD t.nodes.size = { kind := .expert t.experts.size, createdIn := .top } := by
  simp only [State.nodeD, xElab_nodes, Array.getElem?_push, if_true, Option.getD_some]

theorem xElab_nodeD_ne (f : Nat) (t : State) {m : Nat} (h : m ≠ t.nodes.size) :
    (xElab f t).nodeD m = t.nodeD m := by
  simp only [State.nodeD, xElab_nodes, Array.getElem?_push, if_neg h]

theorem xElab_nodeD_lt (f : Nat) (t : State) {m : Nat} (h : m < t.nodes.size) :
    (xElab f t).nodeD m = t.nodeD m := xElab_nodeD_ne f t (by omega)

theorem xElab_isNecessary_new (f : Nat) (t : State) : (xElab f t).isNecessary t.nodes.size = false := by
  rw [State.isNecessary, xElab_nodeD_new]; rfl

theorem xElab_isNecessary_ne (f : Nat) (t : State) {m : Nat} (h : m ≠ t.nodes.size) :
    (xElab f t).isNecessary m = t.isNecessary m := by
  rw [State.isNecessary, State.isNecessary, xElab_nodeD_ne f t h]

theorem xElab_experts_new (f : Nat) (t : State) :
    (xElab f t).experts[t.experts.size]? = some { f := f, node := t.nodes.size } := by
  rw [xElab_experts]; simp

theorem xElab_experts_lt (f : Nat) (t : State) {e : Nat} (h : e < t.experts.size) :
    (xElab f t).experts[e]? = t.experts[e]? := by
  rw [xElab_experts, Array.getElem?_push_lt h, Array.getElem?_eq_getElem h]

theorem xElab_experts_old (f : Nat) (t : State) {e : Nat} {er : ExpertRec} (h : t.experts[e]? = some er) :
    (xElab f t).experts[e]? = some er := by
  rw [xElab_experts_lt f t (Array.getElem?_eq_some_iff.1 h).1]; exact h

/-! ## the run -/

/-- the block of `perKeyDriver` (case `.right`) that creates the per-key input node, on the twin -/
def expertBlock : M Nat := do
  let e := (← get).experts.size
  modify fun s => { s with experts := s.experts.push { f := 0 } }
  let node ← createNode (.expert e) .top
  modExpert e fun r => { r with node := node }
  pure node

theorem run_expertBlock (t : State) : expertBlock.run.run t = (.ok t.nodes.size, xElab 0 t) := by
  simp only [expertBlock, createNode, bumpCounter, modExpert, xElab, bind_assoc, run_bind_get,
    run_bind_modify, pure_bind, run_pure]
  rw [push_modify_last]

/-- the same block followed by an arbitrary continuation -/
theorem run_expertBlock_bind {α : Type} (k : Nat → M α) (t : State) :
    (do
      let e := (← get).experts.size
      modify fun s => { s with experts := s.experts.push { f := 0 } }
      let node ← createNode (.expert e) .top
      modExpert e fun r => { r with node := node }
      k node : M α).run.run t = (k t.nodes.size).run.run (xElab 0 t) := by
  simp only [createNode, bumpCounter, modExpert, xElab, bind_assoc, run_bind_get,
    run_bind_modify, pure_bind]
  rw [push_modify_last]

/-! ## `Mid` -/

theorem virt_xElab_nodes {env : Env} (f : Nat) {s : State} (F : XFrag env s) :
    (virt (xElab f s)).nodes = (virt s).nodes.push (newNode (.fold (xBase + f) (.int 0) [])) := by
  simp only [virt, xElab, Array.map_push]
  congr 1
  · apply Array.map_congr_left
    intro nd hnd
    apply virtNode_congrD
    intro e' hk'
    obtain ⟨i, hi, rfl⟩ := Array.mem_iff_getElem.1 hnd
    have hD : s.nodeD i = s.nodes[i] := by simp [State.nodeD, hi]
    exact xRec_push_lt (F.xlt (m := i) (by rw [hD]; exact hk'))
  · simp only [virtNode, virtKind, forced, xRec_push_size, newNode, List.map_nil]
    rfl

theorem created_virt_xElab {env : Env} (f : Nat) {s : State} (F : XFrag env s) :
    Created (.fold (xBase + f) (.int 0) []) (virt s) (virt (xElab f s)) (virt s).top where
  nodes := virt_xElab_nodes f F
  vars := Or.inl ⟨fun _ h => Kind.noConfusion h, rfl⟩
  rch := rfl
  pc := rfl
  scope := rfl
  stabNum := rfl
  status := rfl
  alive := rfl
  setDuringStab := rfl
  deadVars := rfl
  handleAfterStab := rfl
  pinv := rfl
  observers := rfl
  newObservers := rfl
  disallowedObservers := rfl
  top := rfl

theorem xfrag_xElab {env : Env} {f : Nat} {s : State} (F : XFrag env s) (hf : XEnvOK env f) (hfb : f < xBase) :
    XFrag env (xElab f s) where
  pc := F.pc
  kind m hm := by
    rw [xElab_size] at hm
    by_cases h : m < s.nodes.size
    · rw [xElab_nodeD_lt f s h]; exact F.kind m h
    · have : m = s.nodes.size := by omega
      rw [this, xElab_nodeD_new]; trivial
  valid m hm := by
    rw [xElab_size] at hm
    by_cases h : m < s.nodes.size
    · rw [xElab_nodeD_lt f s h]; exact F.valid m h
    · have : m = s.nodes.size := by omega
      rw [this, xElab_nodeD_new]
  xrec m e hm hk := by
    rw [xElab_size] at hm
    by_cases h : m < s.nodes.size
    · rw [xElab_nodeD_lt f s h] at hk
      obtain ⟨er, h1, h2⟩ := F.xrec m e h hk
      exact ⟨er, xElab_experts_old f s h1, h2⟩
    · have hms : m = s.nodes.size := by omega
      rw [hms, xElab_nodeD_new] at hk
      cases hk
      exact ⟨{ f := f, node := s.nodes.size }, xElab_experts_new f s, hms.symm⟩
  xok e er he := by
    by_cases h : e < s.experts.size
    · rw [xElab_experts_lt f s h] at he
      exact F.xok e er he
    · by_cases h2 : e = s.experts.size
      · subst h2
        rw [xElab_experts_new] at he
        cases he
        exact ⟨rfl, rfl, hf, hfb⟩
      · rw [Array.getElem?_eq_none (by rw [xElab_xsize]; omega)] at he; cases he

theorem ahhEmpty_xElab {f : Nat} {s : State} (A : AhhEmpty s) : AhhEmpty (xElab f s) := by
  refine ⟨A.length, A.buckets, fun m => ?_⟩
  by_cases h2 : m = s.nodes.size
  · rw [h2, xElab_nodeD_new]
  · rw [xElab_nodeD_ne f s h2]; exact A.marks m

/-- **MC2, pure form**: a fresh expert node with a fresh record keeps `Mid` -/
theorem mid_xElab {E : Env} {t : State} {f : Nat} (M : Mid E t) (hf : XEnvOK E f) (hfb : f < xBase) :
    Mid E (xElab f t) := by
  obtain ⟨rk, I⟩ := M.st
  refine ⟨xfrag_xElab M.frag hf hfb, ahhEmpty_xElab M.ahh, ⟨rk, ?_⟩, M.pinv, fun m => ?_⟩
  · exact created_struct (created_virt_xElab f M.frag) I rfl trivial (fun c hc => by cases hc)
  · by_cases e : m = t.nodes.size
    · rw [e, xElab_nodeD_new]; exact Int.le_refl _
    · rw [xElab_nodeD_ne f t e]; exact M.handlers m

/-- **MC2**: the run of the block -/
theorem expertBlock_mid {E : Env} {t t' : State} {node : Nat} (Md : Mid E t) (hf : XEnvOK E 0)
    (h : (do
      let e := (← get).experts.size
      modify fun s => { s with experts := s.experts.push { f := 0 } }
      let node ← createNode (.expert e) .top
      modExpert e fun r => { r with node := node }
      pure node : M Nat).run.run t = (.ok node, t')) :
    node = t.nodes.size ∧ t' = xElab 0 t ∧ Mid E t' ∧
      t'.experts = t.experts.push { f := 0, node := t.nodes.size } ∧
      t'.nodes = t.nodes.push { kind := .expert t.experts.size, createdIn := .top } ∧
      t'.nextDep = t.nextDep ∧ eKey t' = eKey t ∧ (∀ m, m < t.nodes.size → t'.nodeD m = t.nodeD m) := by
  have h' : expertBlock.run.run t = (.ok node, t') := h
  rw [run_expertBlock] at h'
  cases h'
  exact ⟨rfl, rfl, mid_xElab Md hf (by decide), rfl, rfl, rfl, rfl, fun m hm => xElab_nodeD_lt 0 t hm⟩

end IncrVerif.Proofs.PerKeyH
