import IncrVerif.Proofs.MapOld19
/-!
# map_with_old fragment: node creation keeps `QInvW`
-/
namespace IncrVerif.Proofs.MapOldH
open IncrVerif.Engine IncrVerif.Driver IncrVerif.Proofs IncrVerif.Proofs.Step IncrVerif.Proofs.Sched IncrVerif.Proofs.Quiet

/-- creation instructions of the fragment static + map_with_old -/
def WInstr (env : Env) (C : Val → Prop) (sp : Nat → Val → Val) : Instr → Prop
  | .const v => C v
  | .var v => C v
  | .map f args => f < woBase ∧ (f < fnZip → ∀ vals, env.fnEff f vals = []) ∧ ∀ a, a ∈ args → OpndOK a
  | .fold _ init cs => C init ∧ ∀ a, a ∈ cs → OpndOK a
  | .zip a b => OpndOK a ∧ OpndOK b
  | .mapWithOld g i => WId g ∧ Good env C sp g ∧ OpndOK i
  | .mapOp op => WId (opId op) ∧ Good env C sp (opId op) ∧ ∀ a, a ∈ opOpnds op → OpndOK a
  | _ => False

section
variable {env : Env} {C : Val → Prop} {sp : Nat → Val → Val}

theorem QInvW.top_lt {s : State} (Q : QInvW env C sp s) (k n : Nat) (h : s.top[k]? = some n) : n < s.nodes.size := by
  have := Q.q.top k n h
  rwa [virt_size] at this

theorem QInvW.scope {s : State} (Q : QInvW env C sp s) : s.currentScope = .top := Q.q.struct.static.scope

theorem CrVars_old {k : Kind} {s s1 : State} {tp : Array Nat} (Cr : Created k s s1 tp) (hnv : ∀ c, k ≠ .var c)
    (M : MInv env C s) : ∀ (c : Nat) (vc : VarCell), s1.vars[c]? = some vc → C vc.value := by
  intro c vc h
  rcases Cr.vars with ⟨-, e⟩ | ⟨v, ek, -⟩
  · rw [e] at h; exact M.vars c vc h
  · exact absurd ek (hnv _)

/-- **an intermediate node** (not entered in the naming table) keeps the invariant -/
theorem CrMid {k : Kind} {s s1 : State} (Q : QInvW env C sp s) (Cr : Created k s s1 s.top)
    (hnv : ∀ c, k ≠ .var c) (hk : WKind env (Good env C sp) k) (hl : LitOK C k)
    (hkids : ∀ c, c ∈ kidsW k → c < s.nodes.size) : QInvW env C sp s1 :=
  CrCreated_keepsW Cr Q (fun kk n h => by have := Q.top_lt kk n h; omega) hk hl hkids (CrVars_old Cr hnv Q.m)

/-- **the last node**, entered in the naming table, keeps the invariant -/
theorem CrLast {k : Kind} {s s1 : State} (Q : QInvW env C sp s) (Cr : Created k s s1 (s.top.push s.nodes.size))
    (hk : WKind env (Good env C sp) k) (hl : LitOK C k)
    (hkids : ∀ c, c ∈ kidsW k → c < s.nodes.size)
    (hvars : ∀ (c : Nat) (vc : VarCell), s1.vars[c]? = some vc → C vc.value) : QInvW env C sp s1 := by
  refine CrCreated_keepsW Cr Q (fun kk n h => ?_) hk hl hkids hvars
  rw [Array.getElem?_push] at h
  split at h
  · injection h with h; omega
  · have := Q.top_lt kk n h; omega

theorem CrIsConstant_some {a : Nat} {s s1 : State} {v : Val}
    (h : (isConstant a).run.run s = (.ok (some v), s1)) : a < s.nodes.size ∧ (s.nodeD a).kind = .const v := by
  unfold isConstant at h
  obtain ⟨nd, hnd, h⟩ := bind_getNode_inv h
  have hlt : a < s.nodes.size := (Array.getElem?_eq_some_iff.1 hnd).1
  have hD : s.nodeD a = nd := by simp [State.nodeD, hnd]
  split at h
  · rename_i w hw
    have e := (pure_ok_inv h).1
    injection e with e
    unfold Node.kind? at hw
    split at hw
    · injection hw with hw
      rw [hD, hw, e]; exact ⟨hlt, rfl⟩
    · cases hw
  · have e := (pure_ok_inv h).1
    cases e

theorem mapM_resolve_top {s : State} :
    ∀ (l : List Opnd) (r : List Nat) (s1 : State), (∀ a, a ∈ l → OpndOK a) →
      (l.mapM (fun o => resolveOpnd [] o)).run.run s = (.ok r, s1) →
      s1 = s ∧ ∀ c, c ∈ r → ∃ k : Nat, s.top[k]? = some c := by
  intro l
  induction l with
  | nil =>
    intro r s1 _ h
    rw [List.mapM_nil] at h
    obtain ⟨e1, e2⟩ := pure_ok_inv h
    rw [e1]; exact ⟨e2, fun c hc => by cases hc⟩
  | cons a l ih =>
    intro r s1 hl h
    rw [List.mapM_cons] at h
    obtain ⟨b, t, h1, h2⟩ := bind_ok_inv h
    obtain ⟨et, k, hk⟩ := resolveOpnd_outer_inv (hl a (List.mem_cons_self ..)) h1
    rw [et] at h2
    obtain ⟨bs, t2, h3, h4⟩ := bind_ok_inv h2
    obtain ⟨et2, hbs⟩ := ih bs t2 (fun x hx => hl x (List.mem_cons_of_mem _ hx)) h3
    obtain ⟨e1, e2⟩ := pure_ok_inv h4
    rw [e1, e2]
    refine ⟨et2, fun c hc => ?_⟩
    rcases List.mem_cons.1 hc with e | hc
    · rw [e]; exact ⟨k, hk⟩
    · exact hbs c hc

/-- what a creation instruction of the fragment does: some intermediate nodes (the state `s0` satisfies the
invariant and has the naming table of `s`), then one last node of kind `k` (the returned one) -/
def CrRes (env : Env) (C : Val → Prop) (sp : Nat → Val → Val) (s s1 : State) (ro : Option Nat) : Prop :=
  ∃ k s0, QInvW env C sp s0 ∧ s0.top = s.top ∧ ro = some s0.nodes.size ∧ Created k s0 s1 s0.top ∧
    WKind env (Good env C sp) k ∧ LitOK C k ∧ (∀ c, c ∈ kidsW k → c < s0.nodes.size) ∧
    (∀ (c : Nat) (vc : VarCell), s1.vars[c]? = some vc → C vc.value)

theorem CrRes_one {k : Kind} {s s1 : State} {ro : Option Nat} {n : Nat} (Q : QInvW env C sp s)
    (hnv : ∀ c, k ≠ .var c) (h : (createNode k .top).run.run s = (.ok n, s1)) (e : ro = some n)
    (hk : WKind env (Good env C sp) k) (hl : LitOK C k) (hkids : ∀ c, c ∈ kidsW k → c < s.nodes.size) :
    CrRes env C sp s s1 ro := by
  obtain ⟨en, Cr⟩ := createNode_created hnv h
  exact ⟨k, s, Q, rfl, by rw [e, en], Cr, hk, hl, hkids, CrVars_old Cr hnv Q.m⟩

end
end IncrVerif.Proofs.MapOldH
