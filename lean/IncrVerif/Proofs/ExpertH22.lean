import IncrVerif.Proofs.ExpertH18
/-!
# map_ref fragment, part 10: the end of `stabilise`, as a lemma about abstract states

`stab_core` is the second half of the proof of `stabilise_q` (`QR16.lean`), with the drain replaced by
its conclusions: it is applied to the VIRTUAL states of a `stabilise` of the fragment static + map_ref.
-/
namespace IncrVerif.Proofs.ExpertH.QR
open IncrVerif.Engine IncrVerif.Driver IncrVerif.Proofs IncrVerif.Proofs.Step IncrVerif.Proofs.Sched

/-- the conclusions of `stabilise_q` about the final state, without the description of the drain -/
structure StabilisedC (env : Env) (rk : Nat → Nat) (s s' : State) : Prop where
  inv : QInv env rk s'
  newObservers : s'.newObservers = []
  disallowedObservers : s'.disallowedObservers = []
  vars : s'.vars = s.vars
  stabNum : s'.stabNum = s.stabNum + 1
  size : s'.nodes.size = s.nodes.size
  kind : ∀ m, (s'.nodeD m).kind = (s.nodeD m).kind
  obs : ObsMap stabilisedState s s'
  values : ∀ n, s'.isNecessary n = true → ∀ k, (s'.nodeD n).height.toNat < k →
    (s'.nodeD n).valid = true ∧ s'.isStale n = false ∧ (s'.nodeD n).value = eval env s' k n ∧
      s'.value env n = eval env s' k n ∧ (eval env s' k n).isSome = true

/-- the state in which the drain starts satisfies the drain invariant -/
theorem drain_start {env : Env} {rk : Nat → Nat} {s s0 t2 : State} (Q : QInv env rk s)
    (hs0 : s0 = { s with status := .stabilising }) (S2 : SInv env rk t2 [] []) (F : PFrame s0 t2) :
    DrainInv env t2 ∧ UnnecOK env t2 := by
  have hnd0 : ∀ m, s0.nodeD m = s.nodeD m := fun m => by rw [hs0]; rfl
  have hvars0 : s0.vars = s.vars := by rw [hs0]
  have hstab0 : s0.stabNum = s.stabNum := by rw [hs0]
  have hsz0 : s0.nodes.size = s.nodes.size := by rw [hs0]
  have V2 : VarsOK t2 := F.varsOK (by
    refine ⟨?_, ?_⟩
    · intro n c hn hk; rw [hnd0] at hk; rw [hvars0]; exact Q.vars.node n c (by rw [← hsz0]; exact hn) hk
    · intro c vc hc; rw [hvars0] at hc; rw [hsz0, hnd0]; exact Q.vars.cell c vc hc)
  have st2 : ∀ m, (t2.nodeD m).recomputedAt < t2.stabNum ∧ (t2.nodeD m).changedAt < t2.stabNum := by
    intro m
    rw [F.recomputedAt, F.changedAt, F.stabNum, hstab0, hnd0]; exact Q.stamps m
  have cons2 : ∀ m, m < t2.nodes.size → staleOf t2 m = false → Consistent env t2 m := by
    intro m hm hs
    rw [F.staleOf] at hs
    have hs' : staleOf s m = false := by
      rw [← hs]; exact (staleOf_congr (by rw [hnd0]) (by rw [hnd0]) hvars0 (fun c _ => by rw [hnd0])).symm
    have hc := Q.cons m (by rw [← hsz0, ← F.size]; exact hm) hs'
    have hc0 : Consistent env s0 m := by
      obtain ⟨w, hw, hv⟩ := hc
      exact ⟨w, Target.congr (by rw [hnd0]) hvars0 (fun c _ => by rw [hnd0]) hw, by rw [hnd0]; exact hv⟩
    exact F.consistent hc0
  have D2 : DrainInv env t2 :=
    drainInv_of S2.struct V2 (by rw [F.stabNum, hstab0]; exact Q.now) st2
      (fun c vc hc => by rw [F.vars, hvars0] at hc; rw [F.stabNum, hstab0]; exact Q.varStamp c vc hc) cons2
  exact ⟨D2, fun m hm _ => ⟨(st2 m).1, cons2 m hm⟩⟩

set_option maxHeartbeats 800000 in
/-- the end of `stabilise`: from the facts about the prefix (`s0`: status set; `t1`: observers added; `t2`: observers
unlinked), the conclusions of the drain `t2 → t3`, and the description of `stabiliseEnd` `t3 → s'` -/
theorem stab_core {env : Env} {rk : Nat → Nat} {s s0 t1 t2 t3 s' : State} (Q : QInv env rk s)
    (hs0 : s0 = { s with status := .stabilising })
    (S2 : SInv env rk t2 [] []) (hn2 : t2.newObservers = []) (hd2 : t2.disallowedObservers = [])
    (F : PFrame s0 t2) (O1 : ObsMap addedState s0 t1) (O2 : ObsMap unlinkedState t1 t2)
    (D3 : DrainInv env t3) (he3 : t3.rch.length = 0) (f3 : Frame t2 t3) (c3 : Calm t2 t3)
    (k3 : stateKeyD t3 = stateKeyD t2) (U3 : UnnecOK env t3) (E : Finished' t3 s') :
    StabilisedC env rk s s' := by
  have hnd0 : ∀ m, s0.nodeD m = s.nodeD m := fun m => by rw [hs0]; rfl
  have hvars0 : s0.vars = s.vars := by rw [hs0]
  have hstab0 : s0.stabNum = s.stabNum := by rw [hs0]
  have hsz0 : s0.nodes.size = s.nodes.size := by rw [hs0]
  have V2 : VarsOK t2 := F.varsOK (by
    refine ⟨?_, ?_⟩
    · intro n c hn hk; rw [hnd0] at hk; rw [hvars0]; exact Q.vars.node n c (by rw [← hsz0]; exact hn) hk
    · intro c vc hc; rw [hvars0] at hc; rw [hsz0, hnd0]; exact Q.vars.cell c vc hc)
  simp only [stateKeyD, Prod.mk.injEq] at k3
  obtain ⟨k_obs, k_all, k_scope, k_top, k_handles, k_alive, k_pinv, -⟩ := k3
  have S3 : Struct env rk t3 := Struct.ofDrained S2.struct f3 D3 he3 k_scope
  -- nodes of the final state
  have hE : ∀ m, NodeG (t3.nodeD m) (s'.nodeD m) ∧ (s'.nodeD m).value = (t3.nodeD m).value ∧
      (s'.nodeD m).numOnUpdateHandlers = (t3.nodeD m).numOnUpdateHandlers := by
    intro m
    obtain ⟨b, hb⟩ := E.node m
    rw [hb]
    exact ⟨⟨rfl, rfl, rfl, rfl, rfl, rfl, rfl, rfl, rfl, rfl, rfl⟩, rfl, rfl⟩
  have G3 : SameG t3 s' := ⟨E.pc, E.scope, E.size, E.rch, E.vars, fun m => (hE m).1⟩
  have S' : Struct env rk s' := S3.congr G3
  have hnec' : ∀ m, s'.isNecessary m = t2.isNecessary m := fun m => by rw [G3.nec, f3.nec]
  have hkind' : ∀ m, (s'.nodeD m).kind = (t2.nodeD m).kind := fun m => by
    rw [(hE m).1.kind, (f3.shape m).kind]
  have hvars' : s'.vars = t2.vars := by rw [E.vars, f3.vars]
  have hsize' : s'.nodes.size = t2.nodes.size := by rw [E.size, f3.size]
  have V' : VarsOK s' := by
    refine ⟨?_, ?_⟩
    · intro n c hn hk; rw [hkind'] at hk; rw [hvars']; exact V2.node n c (by rw [← hsize']; exact hn) hk
    · intro c vc hc; rw [hvars'] at hc; rw [hsize', hkind']; exact V2.cell c vc hc
  have hobs' : s'.observers = t2.observers := by rw [E.observers, k_obs]
  have hnobs' : ∀ m, (s'.nodeD m).observers = (t2.nodeD m).observers := fun m => by
    rw [(hE m).1.observers, (f3.shape m).observers]
  have hno' : s'.newObservers = [] := by rw [E.newObservers, c3.newObservers]; exact hn2
  have hdo' : s'.disallowedObservers = [] := by rw [E.disallowedObservers, c3.disallowedObservers]; exact hd2
  have O' : ObsOK s' := by
    unfold ObsOK
    rw [hno', hdo']
    have o2 := S2.obs
    refine ⟨?_, ?_, ?_, ?_, ?_, ?_, List.nodup_nil⟩
    · intro o ob ho; rw [hobs'] at ho; rw [hsize']; exact o2.inRange o ob ho
    · intro n o; rw [hnobs', hobs']; exact o2.mem n o
    · intro o ob ho hc; rw [hobs'] at ho; exact o2.created o ob ho hc
    · intro o ho; cases ho
    · intro o ob ho; rw [hobs'] at ho; exact o2.dis o ob ho
    · intro o ho; cases ho
  have hstale' : ∀ m, staleOf s' m = staleOf t3 m := G3.staleOf
  have hcons3 : ∀ m, m < t3.nodes.size → staleOf t3 m = false → Consistent env t3 m := by
    intro m hm hs
    cases hn : t3.isNecessary m with
    | true => exact (D3.all_consistent he3 m hn).2
    | false => exact (U3 m hm hn).2 hs
  have Q' : QInv env rk s' := by
    refine ⟨S', V', O', ?_, ?_, ?_, ?_, E.status, ?_, E.setDuringStab, E.deadVars, E.handleAfterStab, ?_, ?_, ?_⟩
    · rw [E.stabNum]; have := D3.stamps.now; omega
    · intro m
      rw [(hE m).1.recomputedAt, (hE m).1.changedAt, E.stabNum]
      have := D3.stamps.node m; omega
    · intro c vc hc
      rw [E.vars] at hc; rw [E.stabNum]; have := D3.stamps.var c vc hc; omega
    · intro m hm hs
      rw [hstale'] at hs
      obtain ⟨w, hw, hv⟩ := hcons3 m (by rw [← E.size]; exact hm) hs
      exact ⟨w, Target.congr (hE m).1.kind E.vars (fun c _ => (hE c).2.1) hw, by rw [(hE m).2.1]; exact hv⟩
    · rw [E.alive, k_alive, F.alive, hs0]; exact Q.alive
    · intro m
      rw [(hE m).2.2, c3.num, F.num, hnd0]; exact Q.handlers m
    · rw [E.pinv, k_pinv]; exact S2.pinv
    · intro k n hk
      rw [E.top, k_top, F.top, hs0] at hk
      rw [hsize', F.size, hsz0]; exact Q.top k n hk
  refine ⟨Q', hno', hdo', by rw [hvars', F.vars, hvars0], by rw [E.stabNum, f3.stabNum, F.stabNum, hstab0],
    by rw [hsize', F.size, hsz0], fun m => by rw [hkind', F.kind, hnd0], ?_, ?_⟩
  · -- observers
    refine ⟨by rw [hobs', O2.1, O1.1, hs0], fun o ob ho => ?_⟩
    have ho0 : s0.observers[o]? = some ob := by rw [hs0]; exact ho
    obtain ⟨ob1, h1o, h1n, h1s⟩ := O1.2 o ob ho0
    obtain ⟨ob2, h2o, h2n, h2s⟩ := O2.2 o ob1 h1o
    exact ⟨ob2, by rw [hobs']; exact h2o, by rw [h2n, h1n], by rw [h2s, h1s, stabilisedState_eq]⟩
  · -- values
    intro n hn k hk
    have hn3 : t3.isNecessary n = true := by rw [← G3.nec]; exact hn
    have hk3 : (t3.nodeD n).height.toNat < k := by rw [← (hE n).1.height]; exact hk
    obtain ⟨v1, v2, v3, -, v5⟩ := drained_values D3 he3 n hn3 k hk3
    have hev : eval env s' k n = eval env t3 k n := eval_congr (fun m => (hE m).1.kind) E.vars k n
    have hv' : (s'.nodeD n).value = eval env s' k n := by rw [(hE n).2.1, hev]; exact v3
    refine ⟨by rw [(hE n).1.valid]; exact v1, ?_, hv', ?_, by rw [hev]; exact v5⟩
    · rw [GInv.isStale S' (nec_lt_size hn), hstale', ← D3.graph.isStale hn3]; exact v2
    · rw [(Q'.quiet.graph).value_plain hn]; exact hv'

end IncrVerif.Proofs.ExpertH.QR
