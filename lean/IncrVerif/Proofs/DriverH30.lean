import IncrVerif.Proofs.DriverH29
import IncrVerif.Proofs.BindH11
/-!
# Drivers, the steps of the drain that are not driver runs, part 3: `stepOtherSpec` and `popSpec`

* a node that is neither an expert node nor a `map` with a user function: the run under `env` is the run under
  `noEff env`; `recomputeOne_sim` + `BindH.recomputeOne_stepB`;
* an expert node: the run factors through `ranState` (`Xp.recomputeOne_expert_run`); `BindH.BS.mcv_stepB`;
* a pop: `Sim.rchRemoveMin` + `BindH.pop_invB`.
-/
namespace IncrVerif.Proofs.DriverH
open IncrVerif.Engine IncrVerif.Driver IncrVerif.Proofs IncrVerif.Proofs.Step IncrVerif.Proofs.Sched
open IncrVerif.Proofs.ExpertH IncrVerif.Proofs.ExpertH.QR IncrVerif.Proofs.EffH

/-! ## the run under `env` is the run under `noEff env` -/

/-- a node that is neither an expert node nor a `map` with a user function never reads `fnEff`/`handler` -/
theorem recomputeOne_noEff_other {env : Env} {fuel n : Nat} {s s' : State} {r : Option Nat}
    (hfr : Fr s) (hn : n < s.nodes.size) (hxk : XKind (noEff env) (s.nodeD n).kind)
    (hne : ∀ e, (s.nodeD n).kind ≠ .expert e)
    (hm : ∀ f args, (s.nodeD n).kind = .map f args → fnZip ≤ f)
    (h : (recomputeOne env fuel n).run.run s = (.ok r, s')) :
    (recomputeOne (noEff env) fuel n).run.run s = (.ok r, s') := by
  have hnd := some_of_lt hn
  have hval := hfr.valid n
  cases hkd : (s.nodeD n).kind with
  | const v =>
    rw [recomputeOne_const_run env fuel n s _ v hnd hval hkd] at h
    rw [recomputeOne_const_run (noEff env) fuel n s _ v hnd hval hkd, mcv_noEff]; exact h
  | var c =>
    obtain ⟨vc, hvc⟩ := recomputeOne_ok_var hnd hval hkd h
    rw [recomputeOne_var_run env fuel n s _ c vc hnd hval hkd hvc] at h
    rw [recomputeOne_var_run (noEff env) fuel n s _ c vc hnd hval hkd hvc, mcv_noEff]; exact h
  | map f args =>
    rw [hkd] at hxk
    obtain ⟨vals, hvals⟩ := recomputeOne_ok_vals hnd hval (Or.inl ⟨f, hkd⟩) h
    have hf : ¬ f < fnZip := Nat.not_lt.2 (hm f args hkd)
    rw [recomputeOne_mapBuiltin_run env fuel n s _ f args vals hnd hval hkd hf hxk.1 hvals] at h
    rw [recomputeOne_mapBuiltin_run (noEff env) fuel n s _ f args vals hnd hval hkd hf hxk.1
      (by rw [valuesOf_noEff]; exact hvals), mcv_noEff]
    exact h
  | fold f init cs =>
    obtain ⟨vals, hvals⟩ := recomputeOne_ok_vals hnd hval (Or.inr ⟨f, init, hkd⟩) h
    rw [recomputeOne_fold_run env fuel n s _ f init cs vals hnd hval hkd hvals hfr.pc] at h
    rw [recomputeOne_fold_run (noEff env) fuel n s _ f init cs vals hnd hval hkd
      (by rw [valuesOf_noEff]; exact hvals) hfr.pc, mcv_noEff]
    exact h
  | expert e => exact absurd hkd (hne e)
  | _ => rw [hkd] at hxk; exact hxk.elim

/-- an expert node never reads `fnEff`/`handler` -/
theorem recomputeOne_noEff_expert {env : Env} {fuel n e : Nat} {s : State} {er : ExpertRec}
    (hx : Xp.IsExpert s n (s.nodeD n) e er) (hpk : er.pk = none) (hp : s.panicCountdown = none)
    (hinv : ¬ er.numInvalidChildren > 0) :
    (recomputeOne env fuel n).run.run s = (recomputeOne (noEff env) fuel n).run.run s := by
  rw [Xp.recomputeOne_expert_run env fuel n hx hpk hp hinv,
    Xp.recomputeOne_expert_run (noEff env) fuel n hx hpk hp hinv, mcv_noEff]
  rfl

/-! ## a node that is not an expert node -/

theorem step_static {env : Env} {fuel n : Nat} {s s' : State} {r : Option Nat} (D : DD env s (some n))
    (hne : ∀ e, (s.nodeD n).kind ≠ .expert e)
    (hm : ∀ f args, (s.nodeD n).kind = .map f args → fnZip ≤ f)
    (h : (recomputeOne env fuel n).run.run s = (.ok r, s')) :
    DD env s' r ∧ DStep s s' ∧ ((virt s').nodeD n).recomputedAt = s.stabNum := by
  have hnec : (virt s).isNecessary n = true := (D.inv.cur n rfl).1
  have hlt : n < s.nodes.size := by rw [← virt_size]; exact D.inv.graph.nec_lt hnec
  have F := D.aux.frag
  have fr := F.fr D.aux.pinv
  have hE := recomputeOne_noEff_other fr hlt (F.kind n hlt) hne hm h
  obtain ⟨hsim, fr'⟩ := recomputeOne_sim fr hlt (F.kind n hlt) hne hE
  have hsk : StaticKind (virtEnv (noEff env)) ((virt s).nodeD n).kind := by
    rw [virt_nodeD, virtNode_kind]; exact staticKind_virt (F.kind n hlt)
  obtain ⟨v, ch, ht, R⟩ :=
    BindH.recomputeOne_stepB D.inv.graph D.inv.heap hnec (Or.inl hsk) D.inv.kids_values hsim
  obtain ⟨w, es, hrun⟩ := recomputeOne_as_mcv_x fr hlt (F.kind n hlt) hne hE
  rw [hrun] at hE
  have df : DFX s s' := (DFX.started_logged es n s).trans (DFX.maybeChangeValue hE)
  have hxf : XF s s' :=
    (xf_started_logged es n s).trans ((PresX.maybeChangeValue (noEff env) fuel n w).h _ _ _ hE)
  exact dd_of_stepB D ht R (F.of_xf hxf fr') fr' df (fun m x => drives_of_frames hxf df.xs)

/-! ## an expert node -/

/-- port of `ExpertH.step_expert_ran` to the drain invariant with a changing graph -/
theorem step_expert_ranB {E : Env} {s s' : State} {fuel n e : Nat} {r : Option Nat} (F : XFrag E s)
    (I : BindH.DInv (virtEnv E) (virt s) (some n)) (hp : s.propagateInvalidity = [])
    (hk : (s.nodeD n).kind = .expert e)
    (h : (recomputeOne E fuel n).run.run s = (.ok r, s')) :
    ∃ (v : Val) (ch : Bool) (er : ExpertRec),
      BindH.TargetB (virtEnv E) (virt s) n v ∧ BindH.StepRelB n v ch r (virt s) (virt s') ∧ Fr s' ∧
      s.experts[e]? = some er ∧
      (maybeChangeValue E fuel n v).run.run (ranState E n e s er) = (.ok r, s') ∧
      Fr (ranState E n e s er) := by
  have hnec : (virt s).isNecessary n = true := (I.cur n rfl).1
  have hlt : n < s.nodes.size := by rw [← virt_size]; exact I.graph.nec_lt hnec
  obtain ⟨er, he, hnode⟩ := F.xrec n e hlt hk
  obtain ⟨hpk, hni, hok, _⟩ := F.xok e er he
  have hx : Xp.IsExpert s n (s.nodeD n) e er := ⟨some_of_lt hlt, F.valid n hlt, hk, he⟩
  rw [Xp.recomputeOne_expert_run E fuel n hx hpk F.pc (by omega)] at h
  have hsk : StaticKind (virtEnv E) ((virt s).nodeD n).kind := by
    rw [virt_nodeD, virtNode_kind]; exact staticKind_virt (F.kind n hlt)
  obtain ⟨vals, hvals, -⟩ := BindH.BS.vals_of_children I.graph (by rw [virt_size]; exact hlt)
    (I.graph.nec n hnec).1 hsk I.kids_values
  obtain ⟨hv0, htarget⟩ := expert_target F hk he hvals
  rw [hv0] at h
  have hT : logged [.inv s!"x{er.f}" n [] (List.foldl (xStep er.f) (.int 0) vals).render] (Xp.readyState E n e s er) =
      ranState E n e s er := by
    unfold ranState; rw [hv0]
  rw [hT] at h
  have hFr : Fr (ranState E n e s er) := ranState_fr (F.fr hp) he
  obtain ⟨hvirt, hFr'⟩ := Sim.maybeChangeValue E fuel n _ (ranState E n e s er) hFr r s' h
  have hU := ranState_upd (env := E) F hlt hk he
  have hself := ranState_virt_self (env := E) hlt hk he
  obtain ⟨ch, hS⟩ := BindH.BS.mcv_stepB I.graph I.heap hnec hU rfl (by rw [hself, virt_nodeD])
    (by rw [hself]; rfl) (by rw [hself, virt_nodeD]) hvirt
  refine ⟨_, ch, er, ?_, hS, hFr', he, h, hFr⟩
  unfold BindH.TargetB
  have hkv : ((virt s).nodeD n).kind =
      .fold (xBase + er.f) (.int 0) (er.children.map (·.child)) := by
    rw [virt_nodeD, virtNode_kind, hk]; simp only [virtKind, xRec_some he]
  rw [hkv]
  exact htarget

section
variable (env : Env) (n e : Nat) (s : State) (er : ExpertRec)

theorem ranState_size : (ranState env n e s er).nodes.size = s.nodes.size := by
  rw [ranState_nodes]; simp [started]

theorem ranState_kind (m : Nat) : ((ranState env n e s er).nodeD m).kind = (s.nodeD m).kind := by
  rw [ranState_nodeD, started_nodeD]; split <;> rfl

theorem ranState_xs {e : Nat} {s : State} {er : ExpertRec} (he : s.experts[e]? = some er) :
    XS s (ranState env n e s er) := by
  obtain ⟨_, _, _, f4, f5, _, _, _, _⟩ := Xp.readyRec_fields env s er
  refine ⟨by rw [ranState_experts]; simp, fun e' => ?_⟩
  by_cases hee : e' = e
  · subst hee
    rw [ranState_get env n e' he, he]
    simp only [Option.map_some, xSS, f4, f5]
  · rw [ranState_get_ne env n e s er hee]

theorem ranState_df {e : Nat} {s : State} {er : ExpertRec} (he : s.experts[e]? = some er) :
    DFX s (ranState env n e s er) :=
  ⟨ranState_size env n e s er, ranState_kind env n e s er, ranState_ahf env n e s er, ranState_xs env n he, rfl,
    ⟨rfl, rfl, rfl, rfl, rfl, fun m => by rw [ranState_nodeD, started_nodeD]; split <;> rfl, fun _ => rfl⟩, rfl⟩

theorem ranState_drives {e : Nat} {s : State} {er : ExpertRec}
    (he : s.experts[e]? = some er) {m x : Nat} (h : Drives s m x) : Drives (ranState env n e s er) m x := by
  obtain ⟨hlt, e', er', hk, he', ed, hmem, hc, hdep, hscr, hsel⟩ := h
  obtain ⟨_, _, f3, f4, f5, _, _, _, _⟩ := Xp.readyRec_fields env s er
  refine ⟨by rw [ranState_size]; exact hlt, e', ?_⟩
  by_cases hee : e' = e
  · subst hee
    rw [he] at he'; cases he'
    exact ⟨_, by rw [ranState_kind]; exact hk, ranState_get env n e' he, ed, by rw [f3]; exact hmem, hc, hdep,
      by rw [f4]; exact hscr, fun d c h => hsel d c (by rw [← f5]; exact h)⟩
  · exact ⟨er', by rw [ranState_kind]; exact hk, by rw [ranState_get_ne env n e s er hee]; exact he', ed, hmem, hc,
      hdep, hscr, hsel⟩
end

theorem step_expert {env : Env} {fuel n e : Nat} {s s' : State} {r : Option Nat} (D : DD env s (some n))
    (hk : (s.nodeD n).kind = .expert e)
    (h : (recomputeOne env fuel n).run.run s = (.ok r, s')) :
    DD env s' r ∧ DStep s s' ∧ ((virt s').nodeD n).recomputedAt = s.stabNum := by
  have hnec : (virt s).isNecessary n = true := (D.inv.cur n rfl).1
  have hlt : n < s.nodes.size := by rw [← virt_size]; exact D.inv.graph.nec_lt hnec
  have F := D.aux.frag
  obtain ⟨er0, he0, -⟩ := F.xrec n e hlt hk
  obtain ⟨hpk, hni, -, -⟩ := F.xok e er0 he0
  have hx : Xp.IsExpert s n (s.nodeD n) e er0 := ⟨some_of_lt hlt, F.valid n hlt, hk, he0⟩
  rw [recomputeOne_noEff_expert hx hpk F.pc (by omega)] at h
  obtain ⟨v, ch, er, ht, R, fr', he, hrun, frT⟩ := step_expert_ranB F D.inv D.aux.pinv hk h
  have FT := ranState_frag F hk he frT
  have hxf := (PresX.maybeChangeValue (noEff env) fuel n v).h _ _ _ hrun
  have dfT := DFX.maybeChangeValue hrun
  exact dd_of_stepB D ht R (FT.of_xf hxf fr') fr' ((ranState_df (noEff env) n he).trans dfT)
    (fun m x hd => drives_of_frames hxf dfT.xs (ranState_drives (noEff env) n he hd))

/-! ## the two contracts -/

/-- **one `recomputeOne` of a node that is not a `map` with a user function** -/
theorem stepOtherSpec (env : Env) : StepOtherSpec env := by
  intro fuel n s s' r D hm h
  by_cases hk : ∀ e, (s.nodeD n).kind ≠ .expert e
  · exact step_static D hk hm h
  · have : ∃ e, (s.nodeD n).kind = .expert e := by
      cases hkd : (s.nodeD n).kind <;>
        first | exact ⟨_, rfl⟩ | (exfalso; apply hk; intro e; rw [hkd]; intro h; cases h)
    obtain ⟨e, hkk⟩ := this
    exact step_expert D hkk h

/-- **one pop** -/
theorem popSpec (env : Env) : PopSpec env := by
  intro s s1 n D h
  have F := D.aux.frag
  have fr := F.fr D.aux.pinv
  obtain ⟨hv, fr1⟩ := Sim.rchRemoveMin s fr (some n) s1 h
  obtain ⟨I1, hfb⟩ := BindH.pop_invB D.inv hv
  have hxf := PresX.rchRemoveMin.h _ _ _ h
  have hi : HeapInv s := heapInv_of_virt D.inv.heap
  have df : DFX s s1 := ⟨hxf.size, hxf.kind, PresAh.rchRemoveMin.h _ _ _ h, PresS.rchRemoveMin.h _ _ _ h,
    PresCfg.rchRemoveMin.h _ _ _ h, pop_calm hi h, pop_keyD hi h⟩
  have hpop := rchRemoveMin_inv hi h
  simp only at hpop
  obtain ⟨-, -, -, hs1, hqs⟩ := hpop
  have hex : s1.experts = s.experts := by rw [hs1]
  have hnode : ∀ m, s1.nodeD m =
      if n = m ∧ m < s.nodes.size then { s.nodeD m with heightInRch := -1 } else s.nodeD m := by
    intro m
    rw [hs1]
    exact nodeD_modify { s with rch := s1.rch } n m _
  have hsh : ∀ m, SameShape ((virt s).nodeD m) ((virt s1).nodeD m) := by
    intro m
    rw [virt_nodeD, virt_nodeD, hex, hnode]
    split <;> exact ⟨rfl, rfl, rfl, rfl, rfl, rfl, rfl, rfl⟩
  have htop : s1.top = s.top := by rw [hs1]
  have hD : ∀ m x, Drives s m x → Drives s1 m x := fun m x => drives_of_frames hxf df.xs
  exact ⟨⟨I1, auxD_of_frames D.aux (F.of_xf hxf fr1) fr1 df hsh hfb.vars, drvOK_frameX df.size df.kind htop hD D.drv⟩,
    dstep_of_frames hfb df hsh hfb.vars hfb.stabNum hqs (fr1.pc.trans F.pc.symm) D.aux.handlers⟩

end IncrVerif.Proofs.DriverH
