import IncrVerif.Proofs.OnceF10
import IncrVerif.Proofs.OnceF12
/-!
# C02, combined fragment, part 13: FINAL INPUTS, value form, at every `stabilise`

`InputsStab env fuel s s'`: for every step `p` of the drain of the run `s → s'` of `stabilise` (node `p.1`, handed to `recomputeOne` in state `p.2`) and every stable child `c`
of `p.1` in `p.2`: `c` exists there and its stored value in the FINAL state `s'` is its stored value in `p.2` (or it has been erased: `c` was invalidated later in the drain).
-/
namespace IncrVerif.Proofs.OnceF
open IncrVerif.Engine IncrVerif.Driver IncrVerif.Proofs IncrVerif.Proofs.Step IncrVerif.Proofs.Sched IncrVerif.Proofs.Quiet
open IncrVerif.Proofs.FullH IncrVerif.Proofs.TidyH IncrVerif.Proofs.BindH

/-- FINAL INPUTS, value form, for the run `s → s'` of `stabilise env fuel` -/
def InputsStab (env : Env) (fuel : Nat) (s s' : State) : Prop :=
  ∃ t1 t2 t3,
    (addNewObservers env fuel).run.run { s with status := .stabilising } = (.ok (), t1) ∧
    (unlinkDisallowedObservers fuel).run.run t1 = (.ok (), t2) ∧
    (drainHeap env fuel).run.run t2 = (.ok (), t3) ∧ (stabiliseEnd env fuel).run.run t3 = (.ok (), s') ∧
    ∀ p, p ∈ drainSteps env fuel t2 → ∀ c, SKid p.2 p.1 c →
      c < p.2.nodes.size ∧ ((s'.nodeD c).value = (p.2.nodeD c).value ∨ (s'.nodeD c).value = none)

section
variable {env : Env} {sp : Nat → Val → Val}

theorem stabilise_inputsF (E : EnvS env sp) (hF : FirstFn env) {fuel : Nat} {s s' : State} (Q : QInvFE env sp s)
    (h : (stabilise env fuel).run.run s = (.ok (), s')) : InputsStab env fuel s s' := by
  obtain ⟨g, Q⟩ := Q
  obtain ⟨t1, t2, t3, g2, g3, h1, h2, h3, h4, -, D2, -, -, -, hE⟩ := stabilise_onceF (kit E hF) Q h
  refine ⟨t1, t2, t3, h1, h2, h3, h4, fun p hp c hk => ?_⟩
  obtain ⟨l1, l2, hl⟩ := List.append_of_mem hp
  obtain ⟨a, b⟩ := drain_inputsF (kit E hF) D2 h3 l1 p l2 hl c hk
  obtain ⟨x, hx⟩ := hE c
  refine ⟨a, ?_⟩
  rw [hx]
  exact b

/-- at every `stabilise` of a history of the combined fragment -/
theorem history_inputsF (E : EnvS env sp) (hF : FirstFn env) {N : Nat} {d : Bool} {as bs : List Action}
    {s : State} {tk : Array Nat} (hH : HistFull env sp 0 (as ++ Action.stabilise :: bs))
    (h : Quiet.runActions env (as ++ Action.stabilise :: bs) (State.init N d) #[] = .ok (s, tk)) :
    ∃ s1 tk1 s2, Quiet.runActions env as (State.init N d) #[] = .ok (s1, tk1) ∧
      (stabilise env fuelDefault).run.run s1 = (.ok (), s2) ∧ InputsStab env fuelDefault s1 s2 ∧
      Quiet.runActions env bs s2 tk1 = .ok (s, tk) := by
  obtain ⟨s1, tk1, s2, k1, k2, k3, -, -, -, k7⟩ := history_c02 E hF hH h
  exact ⟨s1, tk1, s2, k1, k3, stabilise_inputsF E hF k2 k3, k7⟩

end

theorem exHistF_inputs {as bs : List Action} (e : exHistF = as ++ Action.stabilise :: bs) :
    ∃ s tk s1 tk1 s2, Quiet.runActions fEnv exHistF (State.init 128 true) #[] = .ok (s, tk) ∧
      Quiet.runActions fEnv as (State.init 128 true) #[] = .ok (s1, tk1) ∧
      (stabilise fEnv fuelDefault).run.run s1 = (.ok (), s2) ∧ InputsStab fEnv fuelDefault s1 s2 ∧
      Quiet.runActions fEnv bs s2 tk1 = .ok (s, tk) := by
  obtain ⟨s, tk, h⟩ := exHistF_runs
  have hH := exHistF_frag
  have h0 := h
  rw [e] at h hH
  obtain ⟨s1, tk1, s2, k1, k3, k4, k7⟩ := history_inputsF fEnv_envS fEnv_first hH h
  exact ⟨s, tk, s1, tk1, s2, h0, k1, k3, k4, k7⟩

theorem exHistG_inputs {as bs : List Action} (e : exHistG = as ++ Action.stabilise :: bs) :
    ∃ s tk s1 tk1 s2, Quiet.runActions fEnv exHistG (State.init 128 true) #[] = .ok (s, tk) ∧
      Quiet.runActions fEnv as (State.init 128 true) #[] = .ok (s1, tk1) ∧
      (stabilise fEnv fuelDefault).run.run s1 = (.ok (), s2) ∧ InputsStab fEnv fuelDefault s1 s2 ∧
      Quiet.runActions fEnv bs s2 tk1 = .ok (s, tk) := by
  obtain ⟨s, tk, h⟩ := exHistG_runs
  have hH := exHistG_frag
  have h0 := h
  rw [e] at h hH
  obtain ⟨s1, tk1, s2, k1, k3, k4, k7⟩ := history_inputsF fEnv_envS fEnv_first hH h
  exact ⟨s, tk, s1, tk1, s2, h0, k1, k3, k4, k7⟩

end IncrVerif.Proofs.OnceF
