import IncrVerif.Proofs.BindH91
import IncrVerif.Proofs.BindH78
/-!
# Binds, part 4k-1: the frame `DK` of one drain step (state fields of `DKey`, node fields of `NKey`) as a `Step.Pres` relation

`C2k.DK b s s'`: the eight state fields of `DKey` other than `handleAfterStab` are unchanged; if no node of `s` has update handlers then no node
of `s'` has and `handleAfterStab` is unchanged; no node is removed, old nodes keep `kind`, `createdIn`, `observers`; new nodes are created in
scope `.bind b`.  `C2k.DKS b` adds `currentScope` unchanged and is the preorder used with `Step.Pres`; own leaf table (`c2kleaf`, `c2kpres`).
-/
namespace IncrVerif.Proofs.BindH
open IncrVerif.Engine IncrVerif.Proofs IncrVerif.Proofs.Step IncrVerif.Proofs.Sched IncrVerif.Proofs.Quiet
namespace C2k

structure DK (b : Nat) (s s' : State) : Prop where
  observers : s'.observers = s.observers
  allObservers : s'.allObservers = s.allObservers
  newObservers : s'.newObservers = s.newObservers
  disallowedObservers : s'.disallowedObservers = s.disallowedObservers
  setDuringStab : s'.setDuringStab = s.setDuringStab
  deadVars : s'.deadVars = s.deadVars
  alive : s'.alive = s.alive
  status : s'.status = s.status
  has : (∀ m, (s.nodeD m).numOnUpdateHandlers = 0) →
    (∀ m, (s'.nodeD m).numOnUpdateHandlers = 0) ∧ s'.handleAfterStab = s.handleAfterStab
  grow : s.nodes.size ≤ s'.nodes.size
  old : ∀ m, m < s.nodes.size → (s'.nodeD m).kind = (s.nodeD m).kind ∧
    (s'.nodeD m).createdIn = (s.nodeD m).createdIn ∧ (s'.nodeD m).observers = (s.nodeD m).observers
  new : ∀ m, s.nodes.size ≤ m → m < s'.nodes.size → (s'.nodeD m).createdIn = .bind b

theorem DK.refl (b : Nat) (s : State) : DK b s s :=
  ⟨rfl, rfl, rfl, rfl, rfl, rfl, rfl, rfl, fun h => ⟨h, rfl⟩, Nat.le_refl _, fun _ _ => ⟨rfl, rfl, rfl⟩,
    fun m h1 h2 => absurd h2 (by omega)⟩

theorem DK.trans {b : Nat} {x y z : State} (h1 : DK b x y) (h2 : DK b y z) : DK b x z where
  observers := h2.observers.trans h1.observers
  allObservers := h2.allObservers.trans h1.allObservers
  newObservers := h2.newObservers.trans h1.newObservers
  disallowedObservers := h2.disallowedObservers.trans h1.disallowedObservers
  setDuringStab := h2.setDuringStab.trans h1.setDuringStab
  deadVars := h2.deadVars.trans h1.deadVars
  alive := h2.alive.trans h1.alive
  status := h2.status.trans h1.status
  has h := by
    obtain ⟨k1, k2⟩ := h1.has h
    obtain ⟨k3, k4⟩ := h2.has k1
    exact ⟨k3, k4.trans k2⟩
  grow := Nat.le_trans h1.grow h2.grow
  old m hm := by
    obtain ⟨k1, k2, k3⟩ := h1.old m hm
    obtain ⟨k4, k5, k6⟩ := h2.old m (Nat.lt_of_lt_of_le hm h1.grow)
    exact ⟨k4.trans k1, k5.trans k2, k6.trans k3⟩
  new m hm hm' := by
    by_cases hy : m < y.nodes.size
    · rw [(h2.old m hy).2.1]; exact h1.new m hm hy
    · exact h2.new m (by omega) hm'

/-- the preorder used with `Step.Pres`: `DK` and the current scope is unchanged -/
def DKS (b : Nat) (s s' : State) : Prop := DK b s s' ∧ s'.currentScope = s.currentScope

instance (b : Nat) : PreOrd (DKS b) :=
  ⟨fun s => ⟨DK.refl b s, rfl⟩, fun h1 h2 => ⟨h1.1.trans h2.1, h2.2.trans h1.2⟩⟩

/-- a step that touches neither the nodes nor the fields of the frame -/
theorem DK.of_nodes {b : Nat} {s s' : State} (h : s'.nodes = s.nodes) (h1 : s'.observers = s.observers)
    (h2 : s'.allObservers = s.allObservers) (h3 : s'.newObservers = s.newObservers)
    (h4 : s'.disallowedObservers = s.disallowedObservers) (h5 : s'.setDuringStab = s.setDuringStab)
    (h6 : s'.deadVars = s.deadVars) (h7 : s'.alive = s.alive) (h8 : s'.status = s.status)
    (h9 : s'.handleAfterStab = s.handleAfterStab) : DK b s s' := by
  have hnd : ∀ m, s'.nodeD m = s.nodeD m := fun m => by simp [State.nodeD, h]
  refine ⟨h1, h2, h3, h4, h5, h6, h7, h8, fun hh => ⟨fun m => by rw [hnd]; exact hh m, h9⟩, by rw [h]; exact Nat.le_refl _,
    fun m _ => by rw [hnd]; exact ⟨rfl, rfl, rfl⟩, fun m k1 k2 => absurd k2 (by rw [h]; omega)⟩

theorem DKS.of_nodes {b : Nat} {s s' : State} (h : s'.nodes = s.nodes) (h1 : s'.observers = s.observers)
    (h2 : s'.allObservers = s.allObservers) (h3 : s'.newObservers = s.newObservers)
    (h4 : s'.disallowedObservers = s.disallowedObservers) (h5 : s'.setDuringStab = s.setDuringStab)
    (h6 : s'.deadVars = s.deadVars) (h7 : s'.alive = s.alive) (h8 : s'.status = s.status)
    (h9 : s'.handleAfterStab = s.handleAfterStab) (h10 : s'.currentScope = s.currentScope) : DKS b s s' :=
  ⟨DK.of_nodes h h1 h2 h3 h4 h5 h6 h7 h8 h9, h10⟩

/-- the four node fields of the frame -/
def nkey (x : Node) := (x.kind, x.createdIn, x.observers, x.numOnUpdateHandlers)

/-- rewriting one node, keeping the four node fields (other state fields of the frame are equal; `handleAfterStab` may change when some node
has handlers) -/
theorem DK.of_modify {b : Nat} {s s' : State} {n : Nat} {f : Node → Node} (h : s'.nodes = s.nodes.modify n f)
    (hf : ∀ x, nkey (f x) = nkey x) (h1 : s'.observers = s.observers)
    (h2 : s'.allObservers = s.allObservers) (h3 : s'.newObservers = s.newObservers)
    (h4 : s'.disallowedObservers = s.disallowedObservers) (h5 : s'.setDuringStab = s.setDuringStab)
    (h6 : s'.deadVars = s.deadVars) (h7 : s'.alive = s.alive) (h8 : s'.status = s.status)
    (h9 : (∀ m, (s.nodeD m).numOnUpdateHandlers = 0) → s'.handleAfterStab = s.handleAfterStab) : DK b s s' := by
  have hnd : ∀ m, nkey (s'.nodeD m) = nkey (s.nodeD m) := fun m => by
    rw [Inval.nodeD_of_modify h]; split
    · exact hf _
    · rfl
  have hsz : s'.nodes.size = s.nodes.size := by rw [h]; simp
  refine ⟨h1, h2, h3, h4, h5, h6, h7, h8, fun hh => ⟨fun m => ?_, h9 hh⟩, by rw [hsz]; exact Nat.le_refl _,
    fun m _ => ?_, fun m k1 k2 => absurd k2 (by rw [hsz]; omega)⟩
  · have := hnd m; simp only [nkey, Prod.mk.injEq] at this; rw [this.2.2.2]; exact hh m
  · have := hnd m; simp only [nkey, Prod.mk.injEq] at this; exact ⟨this.1, this.2.1, this.2.2.1⟩

theorem DKS.modNode {b : Nat} (s : State) (n : Nat) (f : Node → Node) (hf : ∀ x, nkey (f x) = nkey x) :
    DKS b s { s with nodes := s.nodes.modify n f } :=
  ⟨DK.of_modify (n := n) (f := f) rfl hf rfl rfl rfl rfl rfl rfl rfl rfl (fun _ => rfl), rfl⟩

/-- a new node, created in scope `.bind b` without handlers -/
theorem DKS.push {b : Nat} (s : State) (nd : Node) (h1 : nd.createdIn = .bind b) (h2 : nd.numOnUpdateHandlers = 0) :
    DKS b s { s with nodes := s.nodes.push nd } := by
  have hold : ∀ m, m < s.nodes.size → ({ s with nodes := s.nodes.push nd } : State).nodeD m = s.nodeD m := by
    intro m hm
    simp [State.nodeD, Array.getElem?_push, Nat.ne_of_lt hm]
  have hnew : ({ s with nodes := s.nodes.push nd } : State).nodeD s.nodes.size = nd := by
    simp [State.nodeD]
  refine ⟨⟨rfl, rfl, rfl, rfl, rfl, rfl, rfl, rfl, fun hh => ⟨fun m => ?_, rfl⟩, by simp, fun m hm => ?_, fun m k1 k2 => ?_⟩, rfl⟩
  · by_cases hm : m < s.nodes.size
    · rw [hold m hm]; exact hh m
    · by_cases e : m = s.nodes.size
      · rw [e, hnew]; exact h2
      · have : ({ s with nodes := s.nodes.push nd } : State).nodeD m = default := by
          have hge : (s.nodes.push nd).size ≤ m := by simp; omega
          show (s.nodes.push nd)[m]?.getD default = default
          rw [Array.getElem?_eq_none hge]; rfl
        rw [this]; rfl
  · rw [hold m hm]; exact ⟨rfl, rfl, rfl⟩
  · have : m = s.nodes.size := by simp at k2; omega
    rw [this, hnew]; exact h1

theorem PresD.modNode {b : Nat} (n : Nat) (f : Node → Node) (hf : ∀ x, nkey (f x) = nkey x) :
    Step.Pres (DKS b) (modNode n f) := by
  unfold Engine.modNode; exact Step.Pres.modify fun s => DKS.modNode s n f hf

/-! ## the decomposition tactic (own leaf table) -/

syntax "c2kleaf" : tactic
macro_rules | `(tactic| c2kleaf) => `(tactic| fail "no leaf")

macro "c2kstep" : tactic => `(tactic| first
  | with_reducible apply Step.Pres.pure | with_reducible apply Step.Pres.get | with_reducible apply Step.Pres.panic
  | with_reducible apply Step.Pres.throw
  | with_reducible apply Step.Pres.bind | with_reducible apply Step.Pres.map | with_reducible apply Step.Pres.mapM
  | with_reducible apply Step.Pres.getNode | with_reducible apply Step.Pres.dassert
  | with_reducible apply Step.Pres.getBind | with_reducible apply Step.Pres.getExpert
  | with_reducible apply Step.Pres.getVar | with_reducible apply Step.Pres.assertM
  | c2kleaf
  | intro _ | split | dsimp only)

macro "c2kpres" : tactic => `(tactic| repeat (any_goals c2kstep))

macro "c2k_leaf " n:ident : command =>
  `(macro_rules | `(tactic| c2kleaf) => `(tactic| with_reducible apply $n))

macro_rules | `(tactic| c2kleaf) => `(tactic| apply Step.Pres.forIn)
macro_rules
  | `(tactic| c2kleaf) =>
    `(tactic| ((with_reducible apply Step.Pres.modify); intro _; exact DKS.push _ _ rfl rfl))
macro_rules
  | `(tactic| c2kleaf) => `(tactic| ((with_reducible apply PresD.modNode); intro _; rfl))
macro_rules
  | `(tactic| c2kleaf) =>
    `(tactic| ((with_reducible apply Step.Pres.modify); intro _;
               exact DKS.of_nodes rfl rfl rfl rfl rfl rfl rfl rfl rfl rfl rfl))

c2k_leaf Step.PresS.scopeIsNecessary
c2k_leaf Step.PresS.isConstant
c2k_leaf Step.PresS.resolveOpnd
c2k_leaf Step.Pres.valueUnwrap
c2k_leaf Step.Pres.scopeHeight

section ladder
variable {b : Nat}

theorem PresD.tick : Step.Pres (DKS b) tick := by unfold Engine.tick; c2kpres
c2k_leaf PresD.tick
theorem PresD.logEv (e) : Step.Pres (DKS b) (logEv e) := by unfold Engine.logEv; c2kpres
c2k_leaf PresD.logEv
theorem PresD.bumpCounter (f) : Step.Pres (DKS b) (bumpCounter f) := by unfold Engine.bumpCounter; c2kpres
c2k_leaf PresD.bumpCounter
theorem PresD.modBind (c f) : Step.Pres (DKS b) (modBind c f) := by unfold Engine.modBind; c2kpres
c2k_leaf PresD.modBind
theorem PresD.modExpert (c f) : Step.Pres (DKS b) (modExpert c f) := by unfold Engine.modExpert; c2kpres
c2k_leaf PresD.modExpert
theorem PresD.rchLink (n) : Step.Pres (DKS b) (rchLink n) := by unfold Engine.rchLink; c2kpres
c2k_leaf PresD.rchLink
theorem PresD.rchUnlink (n) : Step.Pres (DKS b) (rchUnlink n) := by unfold Engine.rchUnlink; c2kpres
c2k_leaf PresD.rchUnlink
theorem PresD.rchInsert (n) : Step.Pres (DKS b) (rchInsert n) := by unfold Engine.rchInsert; c2kpres
c2k_leaf PresD.rchInsert
theorem PresD.rchRemove (n) : Step.Pres (DKS b) (rchRemove n) := by unfold Engine.rchRemove; c2kpres
c2k_leaf PresD.rchRemove
theorem PresD.rchMinHeight : Step.Pres (DKS b) rchMinHeight := by unfold Engine.rchMinHeight; c2kpres
c2k_leaf PresD.rchMinHeight
theorem PresD.rchIncreaseHeight (n) : Step.Pres (DKS b) (rchIncreaseHeight n) := by
  unfold Engine.rchIncreaseHeight; c2kpres
c2k_leaf PresD.rchIncreaseHeight
theorem PresD.rchRemoveMin : Step.Pres (DKS b) rchRemoveMin := by unfold Engine.rchRemoveMin; c2kpres
c2k_leaf PresD.rchRemoveMin
theorem PresD.setHeight (n h) : Step.Pres (DKS b) (setHeight n h) := by unfold Engine.setHeight; c2kpres
c2k_leaf PresD.setHeight
theorem PresD.ahhAddUnlessMem (n) : Step.Pres (DKS b) (ahhAddUnlessMem n) := by
  unfold Engine.ahhAddUnlessMem; c2kpres
c2k_leaf PresD.ahhAddUnlessMem
theorem PresD.ahhRemoveMin : Step.Pres (DKS b) ahhRemoveMin := by unfold Engine.ahhRemoveMin; c2kpres
c2k_leaf PresD.ahhRemoveMin
theorem PresD.ensureHeightRequirement (a c d e) : Step.Pres (DKS b) (ensureHeightRequirement a c d e) := by
  unfold Engine.ensureHeightRequirement; c2kpres
c2k_leaf PresD.ensureHeightRequirement
theorem PresD.adjustHeightsLoop (oc op fuel) : Step.Pres (DKS b) (adjustHeightsLoop oc op fuel) := by
  induction fuel with
  | zero => unfold Engine.adjustHeightsLoop; c2kpres
  | succ fuel ih => unfold Engine.adjustHeightsLoop; c2kpres; all_goals exact ih
c2k_leaf PresD.adjustHeightsLoop
theorem PresD.adjustHeights (oc op fuel) : Step.Pres (DKS b) (adjustHeights oc op fuel) := by
  unfold Engine.adjustHeights; c2kpres
c2k_leaf PresD.adjustHeights
theorem PresD.addParent (a c d) : Step.Pres (DKS b) (addParent a c d) := by unfold Engine.addParent; c2kpres
c2k_leaf PresD.addParent
theorem PresD.removeParent (a c d) : Step.Pres (DKS b) (removeParent a c d) := by
  unfold Engine.removeParent; c2kpres
c2k_leaf PresD.removeParent

/-- `maybe_handle_after_stabilisation` pushes the node only when it has update handlers -/
theorem PresD.maybeHandleAfterStabilisation (n : Nat) :
    Step.Pres (DKS b) (maybeHandleAfterStabilisation n) := by
  constructor
  intro s r s' h
  unfold Engine.maybeHandleAfterStabilisation at h
  rw [run_bind, run_getNode] at h
  cases hn : s.nodes[n]? with
  | none => rw [hn] at h; cases h; exact PreOrd.refl s
  | some nd =>
    rw [hn] at h
    simp only at h
    split at h
    · rename_i hpos
      have hnum : ¬ ∀ m, (s.nodeD m).numOnUpdateHandlers = 0 := by
        intro hall
        have := hall n
        rw [nodeD_of_some hn] at this
        omega
      unfold Engine.handleAfterStabilisation at h
      rw [run_bind, run_getNode, hn] at h
      simp only at h
      split at h
      · simp only [run_bind, run_modNode, run_modify] at h
        cases h
        exact ⟨DK.of_modify (n := n) (f := fun x => { x with inHandleAfterStab := true }) rfl (fun _ => rfl)
          rfl rfl rfl rfl rfl rfl rfl rfl (fun hall => absurd hall hnum), rfl⟩
      · rw [run_pure] at h; cases h; exact PreOrd.refl s
    · rw [run_pure] at h; cases h; exact PreOrd.refl s
c2k_leaf PresD.maybeHandleAfterStabilisation

theorem PresD.shouldCutoff (env n o v) : Step.Pres (DKS b) (shouldCutoff env n o v) := by
  unfold Engine.shouldCutoff; c2kpres
c2k_leaf PresD.shouldCutoff
theorem PresD.edgeOnChange (env e edge) : Step.Pres (DKS b) (edgeOnChange env e edge) := by
  unfold Engine.edgeOnChange; c2kpres
c2k_leaf PresD.edgeOnChange
theorem PresD.runEdgeCallback (env e i) : Step.Pres (DKS b) (runEdgeCallback env e i) := by
  unfold Engine.runEdgeCallback; c2kpres
c2k_leaf PresD.runEdgeCallback
theorem PresD.observabilityChange (e c) : Step.Pres (DKS b) (observabilityChange e c) := by
  unfold Engine.observabilityChange; c2kpres
c2k_leaf PresD.observabilityChange
theorem PresD.markMapRefUnknown (fuel n) : Step.Pres (DKS b) (markMapRefUnknown fuel n) := by
  induction fuel generalizing n with
  | zero => unfold Engine.markMapRefUnknown; c2kpres
  | succ fuel ih => unfold Engine.markMapRefUnknown; c2kpres; all_goals exact ih _
c2k_leaf PresD.markMapRefUnknown

theorem PresD.necessary (env : Env) (fuel : Nat) :
    (∀ n, Step.Pres (DKS b) (becameNecessary env fuel n)) ∧
    (∀ c i p, Step.Pres (DKS b) (addParentWithoutAdjustingHeights env fuel c i p)) := by
  induction fuel with
  | zero =>
    constructor
    · intro n; unfold Engine.becameNecessary; c2kpres
    · intro c i p; unfold Engine.addParentWithoutAdjustingHeights; c2kpres
  | succ fuel ih =>
    constructor
    · intro n; unfold Engine.becameNecessary; c2kpres; all_goals exact ih.2 _ _ _
    · intro c i p; unfold Engine.addParentWithoutAdjustingHeights; c2kpres; all_goals exact ih.1 _
theorem PresD.becameNecessary (env fuel n) : Step.Pres (DKS b) (becameNecessary env fuel n) :=
  (PresD.necessary env fuel).1 n
c2k_leaf PresD.becameNecessary
theorem PresD.addParentWithoutAdjustingHeights (env fuel c i p) :
    Step.Pres (DKS b) (addParentWithoutAdjustingHeights env fuel c i p) := (PresD.necessary env fuel).2 c i p
c2k_leaf PresD.addParentWithoutAdjustingHeights

theorem PresD.unnecessary (fuel : Nat) :
    (∀ n, Step.Pres (DKS b) (becameUnnecessary fuel n)) ∧ (∀ n, Step.Pres (DKS b) (checkIfUnnecessary fuel n)) ∧
    (∀ n, Step.Pres (DKS b) (removeChildren fuel n)) := by
  induction fuel with
  | zero =>
    refine ⟨?_, ?_, ?_⟩
    · intro n; unfold Engine.becameUnnecessary; c2kpres
    · intro n; unfold Engine.checkIfUnnecessary; c2kpres
    · intro n; unfold Engine.removeChildren; c2kpres
  | succ fuel ih =>
    refine ⟨?_, ?_, ?_⟩
    · intro n; unfold Engine.becameUnnecessary; c2kpres; all_goals exact ih.2.2 _
    · intro n; unfold Engine.checkIfUnnecessary; c2kpres; all_goals exact ih.1 _
    · intro n; unfold Engine.removeChildren; c2kpres; all_goals exact ih.2.1 _
theorem PresD.becameUnnecessary (fuel n) : Step.Pres (DKS b) (becameUnnecessary fuel n) :=
  (PresD.unnecessary fuel).1 n
c2k_leaf PresD.becameUnnecessary
theorem PresD.checkIfUnnecessary (fuel n) : Step.Pres (DKS b) (checkIfUnnecessary fuel n) :=
  (PresD.unnecessary fuel).2.1 n
c2k_leaf PresD.checkIfUnnecessary
theorem PresD.removeChildren (fuel n) : Step.Pres (DKS b) (removeChildren fuel n) :=
  (PresD.unnecessary fuel).2.2 n
c2k_leaf PresD.removeChildren

theorem PresD.invalidateNode (fuel n) : Step.Pres (DKS b) (invalidateNode fuel n) := by
  induction fuel generalizing n with
  | zero => unfold Engine.invalidateNode; c2kpres
  | succ fuel ih => unfold Engine.invalidateNode; c2kpres; all_goals exact ih _
c2k_leaf PresD.invalidateNode

theorem PresD.propagateInvalidity (fuel) : Step.Pres (DKS b) (propagateInvalidity fuel) := by
  induction fuel with
  | zero => unfold Engine.propagateInvalidity; c2kpres
  | succ fuel ih => unfold Engine.propagateInvalidity; c2kpres; all_goals exact ih
c2k_leaf PresD.propagateInvalidity
theorem PresD.stateAddParent (env fuel c i p) : Step.Pres (DKS b) (stateAddParent env fuel c i p) := by
  unfold Engine.stateAddParent; c2kpres
c2k_leaf PresD.stateAddParent
theorem PresD.changeChildBindRhs (env fuel m o nw i) :
    Step.Pres (DKS b) (changeChildBindRhs env fuel m o nw i) := by
  unfold Engine.changeChildBindRhs; c2kpres
c2k_leaf PresD.changeChildBindRhs

theorem PresD.childChanged (env : Env) (fuel p c ci : Nat) (o : Option Val) :
    Step.Pres (DKS b) (childChanged env fuel p c ci o) := by
  induction fuel generalizing p c ci o with
  | zero => unfold Engine.childChanged; c2kpres
  | succ fuel ih => unfold Engine.childChanged; c2kpres; all_goals exact ih _ _ _ _
c2k_leaf PresD.childChanged
theorem PresD.parentIterCanRecomputeNow (p c : Nat) :
    Step.Pres (DKS b) (parentIterCanRecomputeNow p c) := by
  unfold Engine.parentIterCanRecomputeNow; c2kpres
c2k_leaf PresD.parentIterCanRecomputeNow
theorem PresD.maybeChangeValueManual (env fuel n o d c) :
    Step.Pres (DKS b) (maybeChangeValueManual env fuel n o d c) := by
  unfold Engine.maybeChangeValueManual; c2kpres
c2k_leaf PresD.maybeChangeValueManual
theorem PresD.maybeChangeValue (env fuel n v) : Step.Pres (DKS b) (maybeChangeValue env fuel n v) := by
  unfold Engine.maybeChangeValue; c2kpres
c2k_leaf PresD.maybeChangeValue

/-- a node created in scope `.bind b` -/
theorem PresD.createNode (k c) : Step.Pres (DKS b) (createNode k (.bind b) c) := by
  unfold Engine.createNode; c2kpres
c2k_leaf PresD.createNode

theorem PresD.lhsRelink (env fuel n c br now rhs) : Step.Pres (DKS b) (Inval.lhsRelink env fuel n c br now rhs) := by
  unfold Inval.lhsRelink; c2kpres
theorem PresD.lhsInvalidateOld (fuel br) : Step.Pres (DKS b) (Inval.lhsInvalidateOld fuel br) := by
  unfold Inval.lhsInvalidateOld; c2kpres
theorem PresD.lhsFinish (env fuel n) : Step.Pres (DKS b) (Inval.lhsFinish env fuel n) := by
  unfold Inval.lhsFinish; c2kpres

end ladder

theorem DKS.started (b n : Nat) (s : State) : DKS b s (Step.started n s) :=
  ⟨DK.of_modify (n := n) (f := fun x => { x with recomputedAt := s.stabNum }) rfl (fun _ => rfl)
    rfl rfl rfl rfl rfl rfl rfl rfl (fun _ => rfl), rfl⟩

theorem DKS.logged (b : Nat) (es : List Event) (s : State) : DKS b s (Step.logged es s) :=
  DKS.of_nodes rfl rfl rfl rfl rfl rfl rfl rfl rfl rfl rfl

end C2k
end IncrVerif.Proofs.BindH
