import IncrVerif.Proofs.PerKeyH50
import IncrVerif.Proofs.PerKeyH51
/-!
# A run of a per-key change detector, part 7b: the static step of the change detector in the new graph
(port of `DriverH.static_step`)
-/
namespace IncrVerif.Proofs.PerKeyH
open IncrVerif.Engine IncrVerif.Driver IncrVerif.Proofs IncrVerif.Proofs.Step IncrVerif.Proofs.Sched
open IncrVerif.Proofs.ExpertH IncrVerif.Proofs.EffH IncrVerif.Proofs.DriverH IncrVerif.Proofs.ExpertH.QR
open IncrVerif.Proofs.Xp

/-! ## `unstamp` and kind-twins -/

theorem unstamp_kind (n : Nat) (r : Int) (S : State) (x : Nat) : ((unstamp n r S).nodeD x).kind = (S.nodeD x).kind :=
  (unstamp_shape n r S x).kind.symm

theorem Kin.unstamp {t t' : State} (K : Kin t t') (n : Nat) (r : Int) : Kin (unstamp n r t) (unstamp n r t') where
  size := by rw [unstamp_size, unstamp_size]; exact K.size
  node x := by
    rw [unstamp_nodeDM n r t' x, unstamp_nodeDM n r t x, K.size]
    split
    · conv => lhs; rw [K.node x]
    · exact K.node x
  kids x := by rw [unstamp_kind, unstamp_kind]; exact K.kids x
  var x c := by rw [unstamp_kind, unstamp_kind]; exact K.var x c
  const x := by rw [unstamp_kind, unstamp_kind]; exact K.const x
  rest := K.rest

theorem SK.unstamp {env : Env} {t : State} (h : SK env t) (n : Nat) (r : Int) : SK env (unstamp n r t) := by
  intro x; rw [unstamp_kind]; exact h x

/-- the state in which `maybeChangeValue` starts is the unstamped state up to the stamp of `n` -/
theorem upd_unstamp0 (n : Nat) (r : Int) (S : State) (hpc : S.panicCountdown = none) : Upd n (unstamp n r S) S where
  size := (unstamp_size n r S).symm
  vars := rfl
  stabNum := rfl
  pc := hpc
  rch := rfl
  other _ hm := (unstamp_otherM n r S hm).symm
  shape := unstamp_shape n r S n
  hrch := (unstamp_fields n r S n).2.2.1.symm

/-! ## the frames of the final `maybeChangeValue` -/

theorem sf_mcv {env : Env} {fuel n : Nat} {v : Val} {s2 s' : State} {r : Option Nat}
    (h : (maybeChangeValue env fuel n v).run.run s2 = (.ok r, s')) : SF s2 s' := by
  refine ⟨(PresX.maybeChangeValue env fuel n v).h _ _ _ h, DFX.maybeChangeValue h, ?_⟩
  have hk : Keeps State.perkeys s2 s' := (KQ.maybeChangeValue env fuel n v).h _ _ _ h
  exact hk

section
variable {env : Env} {s s2 s' : State} {n op eres fuel : Nat} {pr : PerKeyRec} {m : List (Int × Int)} {r : Option Nat}

theorem LE.pinv (E : LE env s n op pr eres m s2) : s2.propagateInvalidity = [] := E.mid.pinv

theorem LE.fr (E : LE env s n op pr eres m s2) : Fr s2 := fr_of_pfrag E.frag E.pinv

/-- the change detector is stamped in `s2` -/
theorem lc_stamp2 (B : LcBase env s n op pr eres) (E : LE env s n op pr eres m s2) :
    (s2.nodeD n).recomputedAt = s.stabNum ∧ (s2.nodeD n).kind = .map (fnPerKey + op) [pr.result - 1] ∧
      n < s.nodes.size := by
  obtain ⟨-, -, -, -, -, -, -, -, -, hnlt, hnk⟩ := B.facts
  obtain ⟨k1, -, -, -, -, -, -, -, -, k10⟩ := lf_old E.lf hnlt
  exact ⟨by rw [k10, if_pos rfl], by rw [k1]; exact hnk, hnlt⟩

/-- **part B**: the run of `maybeChangeValue` is a static step `StepRelB` of `n` from the unstamped `V s2` to `V s'`,
towards the target `()` of the virtual change detector -/
theorem lc_static (B : LcBase env s n op pr eres) (E : LE env s n op pr eres m s2)
    (h : (maybeChangeValue env fuel n .unit).run.run s2 = (.ok r, s')) :
    ∃ ch, BindH.StepRelB n .unit ch r (unstamp n (s.nodeD n).recomputedAt (V s2)) (V s') ∧
      BindH.TargetB (penv env) (unstamp n (s.nodeD n).recomputedAt (V s2)) n .unit ∧ Fr s' ∧ SF s2 s' ∧
      ∃ l', (maybeChangeValue (twEnv env) fuel n .unit).run.run (twL [] s2) = (.ok r, twL l' s') := by
  have F2 := E.frag
  have fr2 := E.fr
  obtain ⟨hst2, hk2, hnlt⟩ := lc_stamp2 B E
  obtain ⟨-, -, hstab, -, -, -⟩ := lf_key E.lf
  have sf := sf_mcv h
  -- the twin, the virtual twin
  obtain ⟨⟨l', htw⟩, fr'⟩ := TSim.maybeChangeValue env fuel n .unit s2 fr2 [] r s' h
  have frT : Fr (twL [] s2) := fr_twin [] F2 E.pinv
  obtain ⟨hvirt, -⟩ := Sim.maybeChangeValue (twEnv env) fuel n .unit (twL [] s2) frT r (twL l' s') htw
  -- the static step on the virtual twin
  obtain ⟨rk2, st2W⟩ := E.mid.st
  have V2 : VarsOK (V s2) := lc_varsOK E.lf B.pd.aux.vars
  have hRW := sameR_unstamp n (s.nodeD n).recomputedAt (virt (twL [] s2))
  have K2 := kin_twin_V [] s2
  have gW := bgraph_congrR (bgraph_of_struct st2W (varsOK_W V2)) hRW
  have hW := heapInv_congrR (Struct.heapInv st2W) hRW
  have hnec2 : s2.isNecessary n = true :=
    E.lf.nec n (by rw [started_isNecessary, ← V_isNecessary]; exact (B.pd.inv.cur n rfl).1)
  have necW : (unstamp n (s.nodeD n).recomputedAt (virt (twL [] s2))).isNecessary n = true := by
    rw [hRW.nec, W_isNecessary]; exact hnec2
  have hrec : ((virt (twL [] s2)).nodeD n).recomputedAt =
      (unstamp n (s.nodeD n).recomputedAt (virt (twL [] s2))).stabNum := by
    rw [← K2.recomputedAt, V_recomputedAt_of_not_expert s2 n (fun e he => by rw [hk2] at he; cases he), hst2]
    exact hstab.symm
  obtain ⟨ch, RW⟩ := BindH.BS.mcv_stepB gW hW necW
    (upd_unstamp0 n _ (virt (twL [] s2)) F2.pc) rfl (unstamp_fields n _ (virt (twL [] s2)) n).1.symm hrec
    (unstamp_fields n _ (virt (twL [] s2)) n).2.1.symm hvirt
  -- to `V`
  have KU := K2.unstamp n (s.nodeD n).recomputedAt
  have K' := kin_twin_V l' s'
  have hsW : SK (virtEnv (twEnv env)) (unstamp n (s.nodeD n).recomputedAt (virt (twL [] s2))) :=
    (sk_virt_twin [] F2).unstamp n _
  have hsV : SK (penv env) (unstamp n (s.nodeD n).recomputedAt (V s2)) := (sk_V F2).unstamp n _
  have R := KU.stepRelB K' (KK.of_all fun x => by rw [unstamp_kind]; exact V_kind_frame sf x) hsW hsV RW
  refine ⟨ch, R, ?_, fr', sf, l', htw⟩
  -- the target
  have hkU : ((unstamp n (s.nodeD n).recomputedAt (V s2)).nodeD n).kind = .map fLc [pr.result - 1] := by
    rw [unstamp_kind, V_kind, hk2, vKind_map, if_pos (Nat.le_add_right _ _)]
  simp only [BindH.TargetB, Target, hkU]
  refine ⟨[.map m], ?_, (penv_fn_fLc env _).symm⟩
  obtain ⟨x0, -, hN, -⟩ := B.facts
  have hclt : pr.result - 1 < s.nodes.size := by have := hN.lt; omega
  have hval : ((unstamp n (s.nodeD n).recomputedAt (V s2)).nodeD (pr.result - 1)).value = some (.map m) := by
    rw [(unstamp_fields n _ (V s2) _).1, V_nodeD, vNode_value, (lf_old E.lf hclt).2.2.2.1]
    exact E.conv
  simp only [plainVals, evalArgs, hval]

end

end IncrVerif.Proofs.PerKeyH
