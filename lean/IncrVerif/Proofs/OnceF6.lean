import IncrVerif.Proofs.OnceF5
/-!
# C02, combined fragment, part 6: NON-VACUITY — the drain traces of the seven `stabilise`s of `exHistF` (kernel-checked)
-/
namespace IncrVerif.Proofs.OnceF
open IncrVerif.Engine IncrVerif.Driver IncrVerif.Proofs IncrVerif.Proofs.Step IncrVerif.Proofs.Sched IncrVerif.Proofs.Quiet
open IncrVerif.Proofs.FullH IncrVerif.Proofs.TidyH IncrVerif.Proofs.BindH

set_option maxRecDepth 100000 in
/-- the drain traces of the seven `stabilise`s of `exHistF` (kernel-checked): first round — the variables, the outer change detector 3, the closure's map_ref chain 5, 6, the inner
change detector 9, its map_ref 12, the machines 7, 13, the maps, the two main nodes 10, 4; only `c` written — the chain node 5 runs, its projection is unchanged and 6, 7 do NOT
run; `a` written — 5, 6, 7 run; the lhs changes — the new generation (node 14) runs, no node of the dead one; nothing observed — nothing runs; re-observed — a fresh generation -/
theorem exHistF_traces :
    EX.traceAfter (exHistF.take 5) = some [1, 3, 0, 2, 9, 5, 6, 12, 7, 13, 8, 10, 11, 4] ∧
    EX.traceAfter (exHistF.take 7) = some [0, 5, 12, 13, 10, 11, 4] ∧
    EX.traceAfter (exHistF.take 9) = some [0, 5, 6, 7, 12, 8, 11, 4] ∧
    EX.traceAfter (exHistF.take 11) = some [1, 3, 14, 4] ∧
    EX.traceAfter (exHistF.take 13) = some [] ∧
    EX.traceAfter (exHistF.take 18) = some [1, 3, 0, 2, 15, 19, 16, 22, 17, 20, 18, 21, 4] ∧
    EX.traceAfter (exHistF.take 20) = some [2, 19, 23, 24, 18, 20, 21, 4] :=
  ⟨by decide +kernel, by decide +kernel, by decide +kernel, by decide +kernel, by decide +kernel, by decide +kernel, by decide +kernel⟩

end IncrVerif.Proofs.OnceF
