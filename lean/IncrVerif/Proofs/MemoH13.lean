import IncrVerif.Proofs.MemoH12
/-!
# K3, invalidation part (3): the contract `ASpec env`
-/
namespace IncrVerif.Proofs.MemoH
open IncrVerif.Engine IncrVerif.Proofs.Obs IncrVerif.Proofs.Memo

namespace KA

theorem TV.of_fr_gj {s s' : State} (h1 : FR s s') (h2 : GJ PT s s') : TV s s' :=
  ⟨h1.fut, h1.reg, fun _ hr ht => (h2 ⟨hr, ht⟩ trivial).2.tv⟩

theorem Pres.tv {α} {m : M α} (h1 : Pres FR m) (h2 : Pres (GJ PT) m) : Pres TV m :=
  ⟨fun s r s' e => TV.of_fr_gj (h1.h s r s' e) (h2.h s r s' e)⟩

theorem inval (fuel n : Nat) (s : State) (r : Except Panic Unit) (s' : State)
    (h : (invalidateNode fuel n).run.run s = (r, s')) (hn : ¬ STop s n) : TV s s' :=
  have h1 : FR s s' := (PresI.invalidateNode fuel n).h s r s' h
  ⟨h1.fut, h1.reg, fun _ hr ht => (inval_run fuel n s r s' h ⟨hr, ht⟩ hn).2.tv⟩

theorem prop (fuel : Nat) : Pres TV (propagateInvalidity fuel) :=
  Pres.tv (PresI.propagateInvalidity fuel) (prop_pres fuel)

end KA

memo_leaf KA.prop

/-- a `modify` that changes neither nodes, binds nor `top` -/
macro_rules
  | `(tactic| mleaf) =>
    `(tactic| ((with_reducible apply Pres.modify); intro _; exact TV.of_eq rfl rfl rfl))

namespace KA

theorem bnp (env : Env) (fuel n : Nat) : Pres TV (becameNecessaryPropagate env fuel n) := by
  unfold Engine.becameNecessaryPropagate; mpres
theorem sap (env : Env) (fuel c i p : Nat) : Pres TV (stateAddParent env fuel c i p) := by
  unfold Engine.stateAddParent; mpres
end KA
memo_leaf KA.bnp
memo_leaf KA.sap
namespace KA
theorem ccbr (env : Env) (fuel m : Nat) (o : Option Nat) (nw i : Nat) :
    Pres TV (changeChildBindRhs env fuel m o nw i) := by
  unfold Engine.changeChildBindRhs; mpres
theorem xadd (env : Env) (fuel n c : Nat) (cb : Bool) : Pres TV (expertAddDependency env fuel n c cb) := by
  unfold Engine.expertAddDependency; mpres
end KA
memo_leaf KA.ccbr
memo_leaf KA.xadd
namespace KA
theorem effs (env : Env) (fuel : Nat) (effs : List Effect) (arg : Int) (hK : ∀ e ∈ effs, EffK3 e) :
    Pres TV (runEffects env fuel effs arg) := by
  unfold Engine.runEffects
  refine Pres.bind (Pres.forIn_mem' (R := TV) fun e he b => ?_) fun _ => Pres.pure _
  have hk := hK e he
  cases e <;> simp only [EffK3] at hk <;> (dsimp only; mpres)
theorem ano (env : Env) (fuel : Nat) : Pres TV (addNewObservers env fuel) := by
  unfold Engine.addNewObservers; mpres
theorem runAll (env : Env) (henv : EnvK3 env) (fuel o n : Nat) (nu : NodeUpdate) (now : Int) :
    Pres TV (runAll env fuel o n nu now) := by
  unfold Engine.runAll; mpres
  all_goals exact effs _ _ _ _ (henv.handler _ _)
theorem send (env : Env) (henv : EnvK3 env) (fuel : Nat) : Pres TV (stabiliseEnd env fuel) := by
  unfold Engine.stabiliseEnd; mpres
  all_goals exact runAll _ henv _ _ _ _ _
end KA

/-- THE CONTRACT of the invalidation part holds for user code that never calls `expert::invalidate` -/
theorem aspec (env : Env) (henv : EnvK3 env) : ASpec env where
  inval := KA.inval
  prop := KA.prop
  bnp := KA.bnp env
  sap := KA.sap env
  ccbr := KA.ccbr env
  xadd := KA.xadd env
  effs := KA.effs env
  ano := KA.ano env
  send := KA.send env henv

end IncrVerif.Proofs.MemoH
