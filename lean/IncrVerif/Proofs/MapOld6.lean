import IncrVerif.Proofs.MapOld5
/-!
# map_with_old fragment: simulation of the unlinking cascade and the rest of the recompute heap
-/
namespace IncrVerif.Proofs.MapOldH
open IncrVerif.Engine IncrVerif.Proofs IncrVerif.Proofs.Step IncrVerif.Proofs.Sched IncrVerif.Proofs.Quiet

variable {sp : Nat → Val → Val}

section
theorem Sim.removeParent (c i p : Nat) : Sim (Engine.removeParent c i p) (Engine.removeParent c i p) := by
  intro s; unfold Engine.removeParent; wsim
  split <;> wsim
macro_rules | `(tactic| wsim_leaf) => `(tactic| with_reducible exact Sim.removeParent _ _ _)

theorem Sim.rchUnlink (n : Nat) : Sim (Engine.rchUnlink n) (Engine.rchUnlink n) := by
  intro s; unfold Engine.rchUnlink; wsim
  split <;> wsim
  split <;> wsim
  split <;> wsim
macro_rules | `(tactic| wsim_leaf) => `(tactic| with_reducible exact Sim.rchUnlink _)

theorem Sim.rchRemove (n : Nat) : Sim (Engine.rchRemove n) (Engine.rchRemove n) := by
  intro s; unfold Engine.rchRemove; wsim
macro_rules | `(tactic| wsim_leaf) => `(tactic| with_reducible exact Sim.rchRemove _)

theorem Sim.rchRemoveMin : Sim Engine.rchRemoveMin Engine.rchRemoveMin := by
  intro s; unfold Engine.rchRemoveMin; wsim
  split <;> wsim
macro_rules | `(tactic| wsim_leaf) => `(tactic| with_reducible exact Sim.rchRemoveMin)

theorem Sim.rchMinHeight : Sim Engine.rchMinHeight Engine.rchMinHeight := by
  intro s; unfold Engine.rchMinHeight; wsim
  exact SimAt.ret _
macro_rules | `(tactic| wsim_leaf) => `(tactic| with_reducible exact Sim.rchMinHeight)

theorem Sim.unlink (fuel : Nat) :
    (∀ n, Sim (becameUnnecessary fuel n) (becameUnnecessary fuel n)) ∧
    (∀ n, Sim (checkIfUnnecessary fuel n) (checkIfUnnecessary fuel n)) ∧
    (∀ n, Sim (removeChildren fuel n) (removeChildren fuel n)) := by
  induction fuel with
  | zero =>
    refine ⟨?_, ?_, ?_⟩
    · intro n s; unfold becameUnnecessary; wsim
    · intro n s; unfold checkIfUnnecessary; wsim
    · intro n s; unfold removeChildren; wsim
  | succ fuel ih =>
    refine ⟨?_, ?_, ?_⟩
    · intro n s
      unfold becameUnnecessary
      wsim
      all_goals first
        | exact ih.2.2 _ _
        | wsim_kind
    · intro n s
      unfold checkIfUnnecessary
      wsim
      all_goals exact ih.1 _ _
    · intro n s
      unfold removeChildren
      wsim
      all_goals exact ih.2.1 _ _

theorem Sim.becameUnnecessary (fuel n : Nat) :
    Sim (Engine.becameUnnecessary fuel n) (Engine.becameUnnecessary fuel n) := (Sim.unlink fuel).1 n
theorem Sim.checkIfUnnecessary (fuel n : Nat) :
    Sim (Engine.checkIfUnnecessary fuel n) (Engine.checkIfUnnecessary fuel n) := (Sim.unlink fuel).2.1 n
theorem Sim.removeChildren (fuel n : Nat) :
    Sim (Engine.removeChildren fuel n) (Engine.removeChildren fuel n) := (Sim.unlink fuel).2.2 n
macro_rules | `(tactic| wsim_leaf) => `(tactic| with_reducible exact Sim.becameUnnecessary _ _)
macro_rules | `(tactic| wsim_leaf) => `(tactic| with_reducible exact Sim.checkIfUnnecessary _ _)
macro_rules | `(tactic| wsim_leaf) => `(tactic| with_reducible exact Sim.removeChildren _ _)

theorem Sim.propagateInvalidity (fuel : Nat) :
    Sim (Engine.propagateInvalidity fuel) (Engine.propagateInvalidity fuel) := by
  intro s hn r s' hr
  cases fuel with
  | zero => unfold Engine.propagateInvalidity at hr; cases hr
  | succ fuel =>
    unfold Engine.propagateInvalidity at hr ⊢
    rw [run_bind_get] at hr ⊢
    rw [virt_propagateInvalidity]
    rw [hn.pinv] at hr ⊢
    cases hr
    exact ⟨rfl, hn⟩
macro_rules | `(tactic| wsim_leaf) => `(tactic| with_reducible exact Sim.propagateInvalidity _)

theorem Sim.becameNecessary (env : Env) (fuel n : Nat) :
    Sim (Engine.becameNecessary env fuel n) (Engine.becameNecessary (virtEnv env sp) fuel n) := (Sim.link env fuel).1 n
theorem Sim.addParentWithoutAdjustingHeights (env : Env) (fuel c i p : Nat) :
    Sim (Engine.addParentWithoutAdjustingHeights env fuel c i p)
      (Engine.addParentWithoutAdjustingHeights (virtEnv env sp) fuel c i p) := (Sim.link env fuel).2 c i p
macro_rules | `(tactic| wsim_leaf) => `(tactic| with_reducible exact Sim.becameNecessary _ _ _)
macro_rules | `(tactic| wsim_leaf) => `(tactic| with_reducible exact Sim.addParentWithoutAdjustingHeights _ _ _ _ _)

theorem Sim.becameNecessaryPropagate (env : Env) (fuel n : Nat) :
    Sim (Engine.becameNecessaryPropagate env fuel n) (Engine.becameNecessaryPropagate (virtEnv env sp) fuel n) := by
  intro s; unfold Engine.becameNecessaryPropagate; wsim
macro_rules | `(tactic| wsim_leaf) => `(tactic| with_reducible exact Sim.becameNecessaryPropagate _ _ _)

end
end IncrVerif.Proofs.MapOldH
