import IncrVerif.Proofs.FullH41
import IncrVerif.Proofs.FullH13
import IncrVerif.Proofs.FullH11
/-!
# C01 full fragment: one `recomputeOne` of a node that is neither a map_ref nor a map_with_old node, part 2
(the change detector `bindLhsChange`, `bindMain` with an invalid right-hand side: the ghost may be erased)
-/
namespace IncrVerif.Proofs.FullH
open IncrVerif.Engine IncrVerif.Proofs IncrVerif.Proofs.Step IncrVerif.Proofs.Sched IncrVerif.Proofs.Quiet

namespace ST

section
variable {K : Kind → Prop} {g : Nat → Option Val} {env : Env} {sp : Nat → Val → Val}

/-! ## sequencing that remembers the frame of the first program -/

theorem SimXAt.seqA {α β : Type} {s : State} {x x' : M α} {f f' : α → M β} (hx : SimAt K g s x x')
    (hf : ∀ a s1, x.run.run s = (.ok a, s1) → VM s s1 → SimXAt K g s1 (f a) (f' a)) :
    SimXAt K g s (x >>= f) (x' >>= f') := by
  intro hn r s' h
  obtain ⟨a, s1, h1, h2⟩ := bind_ok_inv h
  obtain ⟨e1, n1, v1⟩ := hx hn a s1 h1
  rw [run_bind_ok e1]
  obtain ⟨g2, e2, n2, v2⟩ := hf a s1 h1 v1 n1 r s' h2
  exact ⟨g2, e2, n2, (GR.of_vm v1).trans v2⟩

theorem SimXAt.seqV {α β : Type} {s : State} {x x' : M α} {f f' : α → M β} (hx : SimXAt K g s x x')
    (hf : ∀ a s1 g1, x.run.run s = (.ok a, s1) → VM s s1 → SimXAt K g1 s1 (f a) (f' a)) :
    SimXAt K g s (x >>= f) (x' >>= f') := by
  intro hn r s' h
  obtain ⟨a, s1, h1, h2⟩ := bind_ok_inv h
  obtain ⟨g1, e1, n1, v1⟩ := hx hn a s1 h1
  rw [run_bind_ok e1]
  obtain ⟨g2, e2, n2, v2⟩ := hf a s1 g1 h1 v1.vm n1 r s' h2
  exact ⟨g2, e2, n2, v1.trans v2⟩

theorem SimAt.seqA {α β : Type} {s : State} {x x' : M α} {f f' : α → M β} (hx : SimAt K g s x x')
    (hf : ∀ a s1, x.run.run s = (.ok a, s1) → VM s s1 → SimAt K g s1 (f a) (f' a)) :
    SimAt K g s (x >>= f) (x' >>= f') := by
  intro hn r s' h
  obtain ⟨a, s1, h1, h2⟩ := bind_ok_inv h
  obtain ⟨e1, n1, v1⟩ := hx hn a s1 h1
  rw [run_bind_ok e1]
  obtain ⟨e2, n2, v2⟩ := hf a s1 h1 v1 n1 r s' h2
  exact ⟨e2, n2, v1.trans v2⟩

/-- node `n` exists, is not a map_ref node and is exact (kept by everything that is simulated) -/
def NK (n : Nat) (t : State) : Prop := n < t.nodes.size ∧ (∀ p i, (t.nodeD n).kind ≠ .mapRef p i) ∧ Exact t n

theorem NK.vm {n : Nat} {t t' : State} (h : NK n t) (v : VM t t') : NK n t' :=
  ⟨Nat.lt_of_lt_of_le h.1 v.size, fun p i => by rw [(v.kind n h.1).1]; exact h.2.1 p i,
    by unfold Exact; rw [(v.kind n h.1).1, (v.kind n h.1).2.1]; exact h.2.2⟩

/-! ## the `bindMain` branch, the right-hand side may be invalid -/

theorem SimXAt.bindMainTail {fuel n b : Nat} {t : State} (hk : ∀ p i, (t.nodeD n).kind ≠ .mapRef p i)
    (hc : Exact t n)
    (hread : ∀ br r, t.binds[b]? = some br → br.rhs = some r → tv g t r = t.value env r) :
    SimXAt K g t (bindMainTail env fuel n b) (bindMainTail (VE env sp) fuel n b) := by
  unfold ST.bindMainTail
  refine SimXAt.seqA (Sim.getBind b t) fun br t1 h1 _ => ?_
  obtain ⟨rfl, hb⟩ := getBind_inv h1
  cases hr : br.rhs with
  | none => exact SimXAt.pan _ _
  | some r =>
    have hrd := hread br r hb hr
    dsimp only
    refine SimXAt.getNode_seq fun nd hnd _ => ?_
    rw [virtNode_valid]
    refine SimXAt.cond Iff.rfl (fun _ => ?_) (fun _ => ?_)
    · refine SimXAt.get_seq ?_
      rw [virt_value, hrd]
      cases t1.value env r with
      | none => exact SimXAt.ret _
      | some v => exact (SimAt.maybeChangeValue hk hc).toX
    · refine SimXAt.seq (SimX.invalidateNode fuel n g t1) fun _ t2 g2 _ => ?_
      refine SimXAt.seq (SimX.propagateInvalidity fuel g2 t2) fun _ t3 g3 _ => ?_
      exact SimXAt.ret _

/-! ## the change detector, phase by phase (`Inval.recomputeOne_bindLhsChange_run`) -/

/-- the template is elaborated alike by the actual and the virtual engine (what `SimAt.elabTemplate` needs) -/
def TemplS (env : Env) (sp : Nat → Val → Val) (t : Template) : Prop :=
  (∀ i ∈ t.instrs, InstrS env sp i ∧ ∀ o ∈ InstrOpnds i, OpndS o) ∧ OpndS t.ret

theorem tick_inv {s s' : State} {u : Unit} (h : tick.run.run s = (.ok u, s')) :
    s'.top = s.top ∧ s'.nodes = s.nodes := by
  unfold tick at h
  rw [run_bind_get] at h
  cases hp : s.panicCountdown with
  | none => rw [hp] at h; obtain ⟨-, rfl⟩ := pure_ok_inv h; exact ⟨rfl, rfl⟩
  | some k =>
    rw [hp] at h
    dsimp only at h
    split at h
    · rw [run_bind_modify] at h; cases h
    · rw [run_modify] at h; cases h; exact ⟨rfl, rfl⟩

theorem logEv_inv {e : Event} {s s' : State} {u : Unit} (h : (logEv e).run.run s = (.ok u, s')) :
    s'.top = s.top ∧ s'.nodes = s.nodes := by
  rw [run_logEv] at h; cases h; exact ⟨rfl, rfl⟩

theorem TopLt.of_eq {s s' : State} (h : TopLt s) (e : s'.top = s.top ∧ s'.nodes = s.nodes) : TopLt s' := by
  intro k r hk; rw [e.1] at hk; rw [e.2]; exact h k r hk

/-- phase 1 after the reset of the list of the nodes created on the right-hand side -/
theorem SimAt.lhsRunRest {n b lhs body : Nat} {t : State}
    (hrd : tv g t lhs = t.value env lhs) (htop : TopLt t) (htempl : ∀ v, TemplS env sp (env.body body v)) :
    SimAt (FK env sp) g t
      (do let lhsVal ← valueUnwrap env lhs "node:recompute_one:child-value"
          let oldScope := (← get).currentScope
          modify fun s => { s with currentScope := .bind b }
          tick
          let t := env.body body lhsVal
          logEv (.inv s!"b{body}" n [lhsVal] "")
          let rhs ← elabTemplate env t lhsVal
          modify fun s => { s with currentScope := oldScope }
          pure rhs)
      (do let lhsVal ← valueUnwrap (VE env sp) lhs "node:recompute_one:child-value"
          let oldScope := (← get).currentScope
          modify fun s => { s with currentScope := .bind b }
          tick
          let t := (VE env sp).body body lhsVal
          logEv (.inv s!"b{body}" n [lhsVal] "")
          let rhs ← elabTemplate (VE env sp) t lhsVal
          modify fun s => { s with currentScope := oldScope }
          pure rhs) := by
  unfold Engine.valueUnwrap
  simp only [bind_assoc]
  refine SimAt.get_seq ?_
  rw [virt_value, hrd]
  cases t.value env lhs with
  | none => exact SimAt.pan _ _
  | some v =>
    simp only [pure_bind]
    refine SimAt.get_seq ?_
    rw [virt_currentScope]
    refine SimAt.mod_seq rfl rfl ?_
    refine SimAt.seq (Sim.tick _) fun _ t2 h2 => ?_
    refine SimAt.seq (Sim.logEv _ _) fun _ t3 h3 => ?_
    have e2 := tick_inv h2
    have ht3 : TopLt t3 := TopLt.of_eq (TopLt.of_eq htop e2) (logEv_inv h3)
    refine SimAt.seq (SimAt.elabTemplate _ v (htempl v).1 (htempl v).2 ht3) fun rhs t4 _ => ?_
    exact SimAt.mod_seq rfl rfl (SimAt.ret _)

/-- phase 1: the closure runs -/
theorem SimAt.lhsRunClosure {n b : Nat} {br : BindRec} {s : State}
    (hrd : tv g s br.lhs = s.value env br.lhs) (htop : TopLt s) (htempl : ∀ v, TemplS env sp (env.body br.body v)) :
    SimAt (FK env sp) g s (Inval.lhsRunClosure env n b br) (Inval.lhsRunClosure (VE env sp) n b br) := by
  unfold Inval.lhsRunClosure Engine.modBind
  refine SimAt.mod_seq rfl rfl (SimAt.lhsRunRest ?_ (TopLt.of_eq htop ⟨rfl, rfl⟩) htempl)
  generalize hs' : ({ s with binds := s.binds.modify b fun x => { x with allNodesCreatedOnRhs := [] } } : State) = s'
  have e1 : tv g s' br.lhs = tv g s br.lhs := by subst hs'; rfl
  have e2 : s'.value env br.lhs = s.value env br.lhs :=
    value_congr env s s' (by subst hs'; rfl) (fun m => by subst hs'; rfl) br.lhs
  rw [e1, e2]; exact hrd

/-- phase 2: the right-hand side of the bind main is swapped -/
theorem SimX.lhsRelink (fuel n b : Nat) (br : BindRec) (now : Int) (rhs : Nat) :
    SimX K (Inval.lhsRelink env fuel n b br now rhs) (Inval.lhsRelink (VE env sp) fuel n b br now rhs) := by
  intro g s; unfold Inval.lhsRelink; fsimx

/-- phase 3: the nodes of the previous run are invalidated -/
theorem SimX.lhsInvalidateOld (fuel : Nat) (br : BindRec) :
    SimX K (Inval.lhsInvalidateOld fuel br) (Inval.lhsInvalidateOld fuel br) := by
  intro g s; unfold Inval.lhsInvalidateOld; fsimx

/-- phase 4: the change detector "changes" -/
theorem SimAt.lhsFinish {fuel n : Nat} {t : State} (hk : ∀ p i, (t.nodeD n).kind ≠ .mapRef p i) (hc : Exact t n) :
    SimAt K g t (Inval.lhsFinish env fuel n) (Inval.lhsFinish (VE env sp) fuel n) := by
  unfold Inval.lhsFinish
  refine SimAt.getNode_seq fun nd hnd _ => ?_
  rw [virtNode_valid]
  refine SimAt.seq (Sim.dassert _ _ t) fun _ t1 h1 => ?_
  have e : t1 = t := by
    rw [run_dassert] at h1; split at h1 <;> cases h1; rfl
  subst e
  exact SimAt.maybeChangeValue hk hc

/-- phase 4 for a change detector: no condition on the cutoff -/
theorem SimAt.lhsFinish_lc {fuel n : Nat} {t : State} (hk : ∃ b, (t.nodeD n).kind = .bindLhsChange b) :
    SimAt K g t (Inval.lhsFinish env fuel n) (Inval.lhsFinish (VE env sp) fuel n) := by
  obtain ⟨b, hb⟩ := hk
  exact SimAt.lhsFinish (fun p i => by rw [hb]; exact fun e => by cases e) (exact_of_lc hb)

end
end ST
end IncrVerif.Proofs.FullH
