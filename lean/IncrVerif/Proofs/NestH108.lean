import IncrVerif.Proofs.NestH107
/-!
# Total correctness for nested binds (F2), part i3: whole histories never panic and never run out of fuel

`history_total2`: a history of fragment F2 (`HistF2 env 0 acts`) whose indices exist (`ValidIdx 0 0 0 acts`), run from the initial state `State.init N d`, returns —
no panic, no fuel exhaustion — PROVIDED the state it ends in, whatever the outcome (`runS`), has at most `N` nodes (`N` is also the height limit the state was
initialised with) and `needFuel` of that node count is within `fuelDefault`.  The final state satisfies the invariants (`QT env N`, `QG2 env`).
The node count only grows (`runS_size`), so every intermediate state has room too; each action returns by `step_totIf2` / `stabilise_total2 D`.
-/
namespace IncrVerif.Proofs.NestH
open IncrVerif.Engine IncrVerif.Driver IncrVerif.Proofs IncrVerif.Proofs.Step IncrVerif.Proofs.Sched IncrVerif.Proofs.Quiet
open IncrVerif.Proofs.BindH

namespace T2i

/-- room is inherited by states with fewer nodes -/
theorem hasRoom_of_le {N fuel : Nat} {s s' : State} (h : s.nodes.size ≤ s'.nodes.size) (R : HasRoom N fuel s') :
    HasRoom N fuel s := by
  unfold HasRoom needFuel at *
  omega

/-- the action `stabilise` is the engine's `stabilise` with the default fuel: same final state, same outcome -/
theorem step_stabilise_cases {env : Env} {s s' : State} {tk : Array Nat} {r : Except Panic (String × Array Nat)}
    (h : (stepAction env .stabilise tk).run.run s = (r, s')) :
    ∃ r0, (stabilise env fuelDefault).run.run s = (r0, s') ∧ (∀ u, r0 = .ok u → r = .ok ("ok", tk)) := by
  unfold stepAction at h
  dsimp only at h
  rw [run_bind] at h
  rcases hx : (stabilise env fuelDefault).run.run s with ⟨e | u, s1⟩
  · rw [hx] at h
    cases h
    exact ⟨_, rfl, fun u e => by cases e⟩
  · rw [hx] at h
    replace h : (pure ("ok", tk) : M (String × Array Nat)).run.run s1 = (r, s') := h
    rw [run_pure] at h
    cases h
    exact ⟨_, rfl, fun _ _ => rfl⟩

/-- the initial state -/
theorem tinv2_init (rk : Nat → Nat) (N : Nat) (d : Bool) : TInv2 rk N (State.init N d) := by
  have hnec : ∀ m, (State.init N d).isNecessary m = false := fun m => by
    rw [State.isNecessary, init_nodeD]; rfl
  refine ⟨?_, ⟨(init_limits N d).2.1, (init_limits N d).1, Nat.zero_le _⟩, ?_, List.nodup_nil, ?_⟩
  · intro m hm; rw [hnec] at hm; cases hm
  · intro c vc hc; simp [State.init] at hc
  · intro o ob ho; cases ho

theorem rhsRan_init (N : Nat) (d : Bool) : RhsRan (State.init N d) := by
  intro b br hb
  have : (State.init N d).binds = #[] := rfl
  rw [this] at hb
  simp at hb

end T2i

/-- the initial state satisfies the invariant for the "no panic" argument -/
theorem qt_init (env : Env) (N : Nat) (d : Bool) : QT env N (State.init N d) :=
  ⟨fun n => n, qinv2_init env _ N d, T2i.tinv2_init _ N d, T2i.rhsRan_init N d⟩

/-- **one action of a history**: IF the state it ends in has room THEN it returned, with the invariant and the predicted sizes -/
theorem step_totIf2' {env : Env} {N : Nat} (D : DrainTot env N) {s : State} {a : Action} {tk : Array Nat}
    (QTs : QT env N s) (ha : ActionF2 env s.top.size a) (hidx : ActionIdx s.top.size s.vars.size s.observers.size a) :
    TotIf (stepAction env a tk) s (HasRoom N fuelDefault) (fun r s1 => r.2 = tk ∧ QT env N s1 ∧
      s1.top.size = s.top.size + growTop a ∧ s1.vars.size = s.vars.size + (grow2 a).2.1 ∧
      s1.observers.size = s.observers.size + (grow2 a).2.2) := by
  intro r s1 hx hroom1
  obtain ⟨rk, Q, T, H⟩ := QTs
  by_cases hns : a = .stabilise
  · subst hns
    obtain ⟨r0, hst, hok⟩ := T2i.step_stabilise_cases hx
    obtain ⟨u, e, QT1⟩ := stabilise_total2 D fuelDefault s ⟨rk, Q, T, H⟩ r0 s1 hst hroom1
    rw [e] at hst
    have er := hok u e
    rw [er] at hx
    have S := stabilise_F2' (env := env) ⟨rk, Q⟩ hst
    have ht := N4h.top_step2 ⟨rk, Q⟩ ha hx
    exact ⟨_, er, rfl, QT1, ht, by rw [S.vars]; rfl, S.obs.1⟩
  · obtain ⟨r0, e, htk, rk', Q', T', G2, -⟩ := step_totIf2 Q T ha (actionIn2_of hidx) hns r s1 hx hroom1.1
    rw [e] at hx
    exact ⟨r0, e, htk, ⟨rk', Q', T', step_rhsRan2 Q H ha hns hx⟩, G2.2.2.2, G2.2.1, G2.2.2.1⟩

/-- **Whole histories, from any state satisfying the invariants.** -/
theorem runS_total2 {env : Env} {N : Nat} (D : DrainTot env N) (acts : List Action) :
    ∀ (s : State) (tk : Array Nat), QT env N s → QG2 env s → HistF2 env s.top.size acts →
      ValidIdx s.top.size s.vars.size s.observers.size acts → HasRoom N fuelDefault (runS env acts s tk).2 →
      ∃ s' tk', Quiet.runActions env acts s tk = .ok (s', tk') ∧ QT env N s' ∧ QG2 env s' := by
  induction acts with
  | nil => intro s tk QTs G _ _ _; exact ⟨s, tk, rfl, QTs, G⟩
  | cons a as ih =>
    intro s tk QTs G hH hV hroom
    obtain ⟨haF, hH'⟩ := hH
    obtain ⟨hidx, hV'⟩ := hV
    have key := step_totIf2' (tk := tk) D QTs haF hidx
    rcases hx : (stepAction env a tk).run.run s with ⟨e | r, s1⟩
    · -- a panic: the final state is the state of the panic, which has room
      simp only [runS, hx] at hroom
      obtain ⟨_, e', -⟩ := key _ _ hx hroom
      cases e'
    · simp only [runS, hx] at hroom
      have hroom1 : HasRoom N fuelDefault s1 := T2i.hasRoom_of_le (runS_size env as s1 r.2) hroom
      obtain ⟨r0, e', -, QT1, g1, g2, g3⟩ := key _ _ hx hroom1
      have G1 : QG2 env s1 := step_F2 G haF hx
      have hH1 : HistF2 env s1.top.size as := by rw [g1]; exact histF2_top hH'
      have hV1 : ValidIdx s1.top.size s1.vars.size s1.observers.size as := by rw [g1, g2, g3]; exact hV'
      obtain ⟨s', tk', h2, QT', G'⟩ := ih s1 r.2 QT1 G1 hH1 hV1 hroom
      refine ⟨s', tk', ?_, QT', G'⟩
      simp only [Quiet.runActions, hx]
      exact h2

/-- **C04 for nested binds (fragment F2): a history whose indices exist never panics and never runs out of fuel, provided the state it ends in — whatever the
outcome — has at most `N` nodes and `needFuel` of that count is within `fuelDefault`.**  `N` is also the height limit (`maxHeight`) the state was initialised with.
`runS` returns the state reached also when an action panics (`runS_none_iff`, `runS_some_iff`). -/
theorem history_total2 {env : Env} {N : Nat} {d : Bool} {acts : List Action} (D : DrainTot env N) (hH : HistF2 env 0 acts)
    (hV : ValidIdx 0 0 0 acts) (hroom : HasRoom N fuelDefault (runS env acts (State.init N d) #[]).2) :
    ∃ s tk, Quiet.runActions env acts (State.init N d) #[] = .ok (s, tk) ∧ QT env N s ∧ QG2 env s :=
  runS_total2 D acts (State.init N d) #[] (qt_init env N d) (qg2_init env N d) hH hV hroom

end IncrVerif.Proofs.NestH
