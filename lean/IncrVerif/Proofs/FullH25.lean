import IncrVerif.Proofs.FullH24
/-!
# Frame ladder for "only node `n` gets a new stored value" (part 2: `Engine/Recompute.lean`, headline)

`Step.Pres (NVn n) f` for every function reachable from `recomputeOne env fuel n` — for EVERY kind of node
(also expert nodes, per-key drivers, memoised calls, arbitrary effect lists): none of them writes a stored
value other than `none`, except `maybeChangeValue env fuel n _` / the `map_with_old` branch, which write node `n`.
-/
namespace IncrVerif.Proofs.FullH
open IncrVerif.Engine IncrVerif.Proofs IncrVerif.Proofs.Step

namespace PresNV
variable {n : Nat}

theorem bumpCounter (f) : Pres (NVn n) (bumpCounter f) := by unfold Engine.bumpCounter; nvpres
nv_leaf PresNV.bumpCounter
theorem modVar (v f) : Pres (NVn n) (modVar v f) := by unfold Engine.modVar; nvpres
nv_leaf PresNV.modVar
theorem modObs (o f) : Pres (NVn n) (modObs o f) := by unfold Engine.modObs; nvpres
nv_leaf PresNV.modObs

/-! ### node creation -/
theorem createNode (k sc c) : Pres (NVn n) (createNode k sc c) := by unfold Engine.createNode; nvpres
nv_leaf PresNV.createNode
theorem createVar (v sc) : Pres (NVn n) (createVar v sc) := by unfold Engine.createVar; nvpres
nv_leaf PresNV.createVar
theorem createBind (b l) : Pres (NVn n) (createBind b l) := by unfold Engine.createBind; nvpres
nv_leaf PresNV.createBind
set_option maxHeartbeats 1000000 in
/-- every instruction (no restriction needed) -/
theorem elabInstr (loc v i) : Pres (NVn n) (elabInstr loc v i) := by
  cases i with
  | mapOp op => cases op <;> (simp only [Engine.elabInstr]; nvpres)
  | _ => simp only [Engine.elabInstr]; nvpres
nv_leaf PresNV.elabInstr
theorem elabTemplateBase (t v init) : Pres (NVn n) (elabTemplateBase t v init) := by
  unfold Engine.elabTemplateBase; nvpres
nv_leaf PresNV.elabTemplateBase
theorem memoCall (env m key) : Pres (NVn n) (memoCall env m key) := by
  unfold Engine.memoCall; nvpres
nv_leaf PresNV.memoCall
theorem elabInstrM (env loc v i) : Pres (NVn n) (elabInstrM env loc v i) := by
  unfold Engine.elabInstrM; nvpres
nv_leaf PresNV.elabInstrM
theorem elabTemplate (env t v) : Pres (NVn n) (elabTemplate env t v) := by
  unfold Engine.elabTemplate; nvpres
nv_leaf PresNV.elabTemplate

/-! ### var writes, observers, basic effects -/
theorem didSetVarWhileNotStabilising (v) : Pres (NVn n) (didSetVarWhileNotStabilising v) := by
  unfold Engine.didSetVarWhileNotStabilising; nvpres
nv_leaf PresNV.didSetVarWhileNotStabilising
theorem writeVar (v f b) : Pres (NVn n) (writeVar v f b) := by unfold Engine.writeVar; nvpres
nv_leaf PresNV.writeVar
theorem dropVarHandle (v) : Pres (NVn n) (dropVarHandle v) := by
  unfold Engine.dropVarHandle; nvpres
nv_leaf PresNV.dropVarHandle
theorem disallowFutureUse (o) : Pres (NVn n) (disallowFutureUse o) := by
  unfold Engine.disallowFutureUse; nvpres
nv_leaf PresNV.disallowFutureUse
theorem runEffectBasic (env e) : Pres (NVn n) (runEffectBasic env e) := by
  unfold Engine.runEffectBasic; nvpres
nv_leaf PresNV.runEffectBasic

/-! ### the notification part of a step -/
theorem childChanged (env fuel p c ci o) : Pres (NVn n) (childChanged env fuel p c ci o) := by
  induction fuel generalizing p c ci o with
  | zero => unfold Engine.childChanged; nvpres
  | succ fuel ih => unfold Engine.childChanged; nvpres; all_goals exact ih _ _ _ _
nv_leaf PresNV.childChanged
theorem parentIterCanRecomputeNow (p c) : Pres (NVn n) (parentIterCanRecomputeNow p c) := by
  unfold Engine.parentIterCanRecomputeNow; nvpres
nv_leaf PresNV.parentIterCanRecomputeNow
/-- for ANY node `k` (it does not write stored values) -/
theorem maybeChangeValueManual (env fuel k o d b) :
    Pres (NVn n) (maybeChangeValueManual env fuel k o d b) := by
  unfold Engine.maybeChangeValueManual; nvpres
nv_leaf PresNV.maybeChangeValueManual
/-- on the SAME node `n` as the index of the relation: it writes `n`'s stored value -/
theorem maybeChangeValue (env fuel v) : Pres (NVn n) (maybeChangeValue env fuel n v) := by
  unfold Engine.maybeChangeValue; nvpres
nv_leaf PresNV.maybeChangeValue
theorem withOldEvents (env g k σ old x new did) :
    Pres (NVn n) (withOldEvents env g k σ old x new did) := by
  unfold Engine.withOldEvents; nvpres
nv_leaf PresNV.withOldEvents

/-! ### effects, expert nodes, per-key drivers -/
theorem expertIdxRaw (k) : Pres (NVn n) (expertIdxRaw k) := by unfold Engine.expertIdxRaw; nvpres
nv_leaf PresNV.expertIdxRaw
theorem runEffects (env fuel effs arg) : Pres (NVn n) (runEffects env fuel effs arg) := by
  unfold Engine.runEffects; nvpres
nv_leaf PresNV.runEffects
theorem expertValue (env e d sl) : Pres (NVn n) (expertValue env e d sl) := by
  unfold Engine.expertValue; nvpres
nv_leaf PresNV.expertValue
set_option maxHeartbeats 1000000 in
theorem perKeyDriver (env fuel op m) : Pres (NVn n) (perKeyDriver env fuel op m) := by
  unfold Engine.perKeyDriver; nvpres
nv_leaf PresNV.perKeyDriver

set_option maxHeartbeats 1000000 in
/-- `recompute_one n` for a node of ANY kind -/
theorem recomputeOne (env fuel) : Pres (NVn n) (recomputeOne env fuel n) := by
  unfold Engine.recomputeOne; nvpres

end PresNV

/-- HEADLINE (any outcome: a returned value or a panic) -/
theorem recomputeOne_nv' (env : Env) (fuel n : Nat) (s s' : State) (r : Except Panic (Option Nat))
    (h : (recomputeOne env fuel n).run.run s = (r, s')) : NVn n s s' :=
  (PresNV.recomputeOne env fuel).h s r s' h

/-- HEADLINE -/
theorem recomputeOne_nv (env : Env) (fuel n : Nat) (s s' : State) (r : Option Nat)
    (h : (recomputeOne env fuel n).run.run s = (.ok r, s')) : NVn n s s' :=
  recomputeOne_nv' env fuel n s s' (.ok r) h

end IncrVerif.Proofs.FullH
