import IncrVerif.Proofs.PerKeyH56
import IncrVerif.Proofs.PerKeyH66
/-!
# A run of a per-key change detector, part 10: **`lcStepSpec (env) : LcStepSpec env`**
-/
namespace IncrVerif.Proofs.PerKeyH
open IncrVerif.Engine IncrVerif.Driver IncrVerif.Proofs IncrVerif.Proofs.Step IncrVerif.Proofs.Sched

/-- **One run of a per-key change detector keeps the drain invariant with per-key operators** (contract `LcStepSpec`
of PK3): `PD env s (some n)`, `NoRem s`, `n` a change detector `map (fnPerKey + op) args`, a successful
`recomputeOne env fuel n` from `s` to `s'` ⟹ `PD env s' r ∧ NoRem s' ∧ PStep s s' ∧ n is stamped in V s'`. -/
theorem lcStepSpec (env : Env) : LcStepSpec env := lcStepSpec_of_right (iterRight env)

end IncrVerif.Proofs.PerKeyH
