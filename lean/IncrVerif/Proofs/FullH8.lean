import IncrVerif.Proofs.FullH7
/-!
# C01 full fragment: simulation of the unlinking cascade, the rest of the recompute heap, and `adjust_heights`
(port of MapRef6 / MapOld6; the adjust-heights heap is new)
-/
namespace IncrVerif.Proofs.FullH
open IncrVerif.Engine IncrVerif.Proofs IncrVerif.Proofs.Step IncrVerif.Proofs.Sched IncrVerif.Proofs.Quiet

section
variable {K : Kind → Prop} {g : Nat → Option Val} {sp : Nat → Val → Val}

theorem Sim.removeParent (c i p : Nat) : Sim K g (Engine.removeParent c i p) (Engine.removeParent c i p) := by
  intro s; unfold Engine.removeParent; fsim
  split <;> fsim
macro_rules | `(tactic| fsim_leaf) => `(tactic| with_reducible exact Sim.removeParent _ _ _)

theorem Sim.rchUnlink (n : Nat) : Sim K g (Engine.rchUnlink n) (Engine.rchUnlink n) := by
  intro s; unfold Engine.rchUnlink; fsim
  split <;> fsim
  split <;> fsim
  split <;> fsim
macro_rules | `(tactic| fsim_leaf) => `(tactic| with_reducible exact Sim.rchUnlink _)

theorem Sim.rchRemove (n : Nat) : Sim K g (Engine.rchRemove n) (Engine.rchRemove n) := by
  intro s; unfold Engine.rchRemove; fsim
macro_rules | `(tactic| fsim_leaf) => `(tactic| with_reducible exact Sim.rchRemove _)

theorem Sim.rchRemoveMin : Sim K g Engine.rchRemoveMin Engine.rchRemoveMin := by
  intro s; unfold Engine.rchRemoveMin; fsim
  split <;> fsim
macro_rules | `(tactic| fsim_leaf) => `(tactic| with_reducible exact Sim.rchRemoveMin)

theorem Sim.rchMinHeight : Sim K g Engine.rchMinHeight Engine.rchMinHeight := by
  intro s; unfold Engine.rchMinHeight; fsim
  exact SimAt.ret _
macro_rules | `(tactic| fsim_leaf) => `(tactic| with_reducible exact Sim.rchMinHeight)

theorem Sim.rchIncreaseHeight (n : Nat) : Sim K g (Engine.rchIncreaseHeight n) (Engine.rchIncreaseHeight n) := by
  intro s; unfold Engine.rchIncreaseHeight; fsim
macro_rules | `(tactic| fsim_leaf) => `(tactic| with_reducible exact Sim.rchIncreaseHeight _)

theorem Sim.unlink (fuel : Nat) :
    (∀ n, Sim K g (becameUnnecessary fuel n) (becameUnnecessary fuel n)) ∧
    (∀ n, Sim K g (checkIfUnnecessary fuel n) (checkIfUnnecessary fuel n)) ∧
    (∀ n, Sim K g (removeChildren fuel n) (removeChildren fuel n)) := by
  induction fuel with
  | zero =>
    refine ⟨?_, ?_, ?_⟩
    · intro n s; unfold becameUnnecessary; fsim
    · intro n s; unfold checkIfUnnecessary; fsim
    · intro n s; unfold removeChildren; fsim
  | succ fuel ih =>
    refine ⟨?_, ?_, ?_⟩
    · intro n s
      unfold becameUnnecessary
      fsim
      all_goals first
        | exact ih.2.2 _ _
        | fsim_kind
    · intro n s
      unfold checkIfUnnecessary
      fsim
      all_goals exact ih.1 _ _
    · intro n s
      unfold removeChildren
      fsim
      all_goals exact ih.2.1 _ _

theorem Sim.becameUnnecessary (fuel n : Nat) :
    Sim K g (Engine.becameUnnecessary fuel n) (Engine.becameUnnecessary fuel n) := (Sim.unlink fuel).1 n
theorem Sim.checkIfUnnecessary (fuel n : Nat) :
    Sim K g (Engine.checkIfUnnecessary fuel n) (Engine.checkIfUnnecessary fuel n) := (Sim.unlink fuel).2.1 n
theorem Sim.removeChildren (fuel n : Nat) :
    Sim K g (Engine.removeChildren fuel n) (Engine.removeChildren fuel n) := (Sim.unlink fuel).2.2 n
macro_rules | `(tactic| fsim_leaf) => `(tactic| with_reducible exact Sim.becameUnnecessary _ _)
macro_rules | `(tactic| fsim_leaf) => `(tactic| with_reducible exact Sim.checkIfUnnecessary _ _)
macro_rules | `(tactic| fsim_leaf) => `(tactic| with_reducible exact Sim.removeChildren _ _)

/-! ## the adjust-heights heap -/

theorem Sim.ahhAddUnlessMem (n : Nat) : Sim K g (Engine.ahhAddUnlessMem n) (Engine.ahhAddUnlessMem n) := by
  intro s; unfold Engine.ahhAddUnlessMem; fsim
macro_rules | `(tactic| fsim_leaf) => `(tactic| with_reducible exact Sim.ahhAddUnlessMem _)

theorem Sim.ahhRemoveMin : Sim K g Engine.ahhRemoveMin Engine.ahhRemoveMin := by
  intro s; unfold Engine.ahhRemoveMin; fsim
  split <;> fsim
macro_rules | `(tactic| fsim_leaf) => `(tactic| with_reducible exact Sim.ahhRemoveMin)

theorem Sim.ensureHeightRequirement (oc op child parent : Nat) :
    Sim K g (Engine.ensureHeightRequirement oc op child parent) (Engine.ensureHeightRequirement oc op child parent) := by
  intro s; unfold Engine.ensureHeightRequirement; fsim
macro_rules | `(tactic| fsim_leaf) => `(tactic| with_reducible exact Sim.ensureHeightRequirement _ _ _ _)

theorem Sim.adjustHeightsLoop (oc op fuel : Nat) :
    Sim K g (Engine.adjustHeightsLoop oc op fuel) (Engine.adjustHeightsLoop oc op fuel) := by
  induction fuel with
  | zero => intro s; unfold Engine.adjustHeightsLoop; fsim
  | succ fuel ih =>
    intro s
    unfold Engine.adjustHeightsLoop
    refine SimAt.seq (Sim.ahhRemoveMin s) fun r s1 _ => ?_
    cases r with
    | none => exact SimAt.ret _
    | some c =>
      dsimp only
      fsim
      all_goals first
        | exact ih _
        | fsim_kind
      all_goals exact ih _
macro_rules | `(tactic| fsim_leaf) => `(tactic| with_reducible exact Sim.adjustHeightsLoop _ _ _)

theorem Sim.adjustHeights (oc op fuel : Nat) :
    Sim K g (Engine.adjustHeights oc op fuel) (Engine.adjustHeights oc op fuel) := by
  intro s; unfold Engine.adjustHeights; fsim
  rw [virt_nodeD, virtNode_height]; rfl
macro_rules | `(tactic| fsim_leaf) => `(tactic| with_reducible exact Sim.adjustHeights _ _ _)

end
end IncrVerif.Proofs.FullH
