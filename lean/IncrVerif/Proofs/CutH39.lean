import IncrVerif.Proofs.CutH32
-- Port of Proofs/Quiet27.lean to ARBITRARY cutoffs (scratch name T27); overview in Props/C06History.lean
/-!
# Part 27: the observer actions, the writes and the read-only actions return
-/
namespace IncrVerif.Proofs.CutH
open IncrVerif.Engine IncrVerif.Driver IncrVerif.Proofs IncrVerif.Proofs.Step IncrVerif.Proofs.Sched
variable {e : Bool}

/-- the actions of the fragment other than `create` and `stabilise` -/
def SimpleAction : Action → Prop
  | .observe n => OpndOK n
  | .cloneObs _ | .dropObs _ | .disallow _ => True
  | .set _ _ | .modify _ _ | .update _ _ | .replace _ _ | .replaceWith _ _ | .get _ => True
  | .isStable | .stats => True
  | _ => False

namespace P27

/-! ## `TInv` under changes of the observer bookkeeping -/

/-- `TInv` reads the nodes, the var cells, `top`, the two heaps (their number of buckets) and the
observers waiting to be added -/
theorem TInv_of_frame {N : Nat} {s s' : State} (T : TInv N s) (hn : s'.nodes = s.nodes)
    (hv : s'.vars = s.vars) (ht : s'.top = s.top) (ha : s'.ahh = s.ahh) (hr : s'.rch = s.rch)
    (h1 : s'.newObservers.Nodup)
    (h2 : ∀ (o : Nat) (ob : ObsRec), o ∈ s'.newObservers → s'.observers[o]? = some ob →
      ob.state = .created ∨ ob.state = .unlinked) : TInv N s' where
  hb m hm ho := by
    have hD : s'.nodeD m = s.nodeD m := by simp only [State.nodeD, hn]
    have hnec : s'.isNecessary m = s.isNecessary m := by simp only [State.isNecessary, hD]
    rw [hnec] at hm; rw [hD]; exact T.hb m hm ho
  room := ⟨by rw [ha]; exact T.room.ahh, by rw [hr]; exact T.room.rch, by rw [hn]; exact T.room.size⟩
  linked c vc h := by rw [hv] at h; exact T.linked c vc h
  topSize := by rw [ht, hn]; exact T.topSize
  newNodup := h1
  newState := h2
  dep m i h := by
    have hD : s'.nodeD m = s.nodeD m := by simp only [State.nodeD, hn]
    rw [hD] at h; rw [hn]; exact T.dep m i h

/-- modifying one observer record so that `created`/`unlinked` records stay so -/
theorem TInv_modObs {N : Nat} {s s' : State} {o : Nat} {f : ObsRec → ObsRec} (T : TInv N s)
    (hn : s'.nodes = s.nodes) (hv : s'.vars = s.vars) (ht : s'.top = s.top) (ha : s'.ahh = s.ahh)
    (hr : s'.rch = s.rch) (hnew : s'.newObservers = s.newObservers)
    (ho : s'.observers = s.observers.modify o f)
    (hf : ∀ ob, s.observers[o]? = some ob → (ob.state = .created ∨ ob.state = .unlinked) →
      ((f ob).state = .created ∨ (f ob).state = .unlinked)) : TInv N s' := by
  refine TInv_of_frame T hn hv ht ha hr (by rw [hnew]; exact T.newNodup) ?_
  intro o' ob hm h
  rw [hnew] at hm
  rw [ho, Array.getElem?_modify] at h
  split at h
  · rename_i e
    cases hob : s.observers[o']? with
    | none => rw [hob] at h; cases h
    | some x =>
      rw [hob] at h; cases h
      rw [← e] at hob
      exact hf x hob (T.newState o x (by rw [e]; exact hm) hob)
  · exact T.newState o' ob hm h

theorem Grown_same {a : Action} {s s' : State} (hg : grow a = (0, 0, 0)) (h1 : s'.nodes.size = s.nodes.size)
    (h2 : s'.vars.size = s.vars.size) (h3 : s'.observers.size = s.observers.size) : Grown a s s' := by
  unfold Grown; rw [hg]; exact ⟨h1, h2, h3⟩

/-! ## the observer actions -/

theorem observe_total {env : Env} {N : Nat} {s : State} {k : Nat} {tk : Array Nat}
    (Q : QInv env e s) (T : TInv N s) (hk : k < s.top.size) :
    Tot (stepAction env (.observe (.outer k)) tk) s
      (fun r s' => r.2 = tk ∧ TInv N s' ∧ Grown (.observe (.outer k)) s s') := by
  simp only [stepAction, resolveOpnd]
  have h0 : s.top[k]? = some s.top[k] := Array.getElem?_eq_getElem hk
  refine Tot.bind_ok (a := s.top[k]) (s1 := s) (by rw [run_bind_get, h0]; rfl) ?_
  refine Tot.bind_get (Tot.bind_modify ?_)
  refine Tot.of_ok (by rw [run_bind_bumpCounter]; exact run_pure _ _) ⟨rfl, ?_, ?_⟩
  · refine TInv_of_frame T rfl rfl rfl rfl rfl ?_ ?_
    · show (s.newObservers ++ [s.observers.size]).Nodup
      rw [List.nodup_append]
      refine ⟨T.newNodup, List.nodup_cons.2 ⟨List.not_mem_nil, List.nodup_nil⟩, ?_⟩
      intro a ha b hb
      rw [List.mem_singleton] at hb
      rw [hb]; intro e; rw [e] at ha
      obtain ⟨ob, hob⟩ := Q.obs.newIn _ ha
      simp at hob
    · intro o ob hm h
      have hm' : o ∈ s.newObservers ++ [s.observers.size] := hm
      have h' : (s.observers.push { node := s.top[k] })[o]? = some ob := h
      rw [Array.getElem?_push] at h'
      split at h'
      · cases h'; exact Or.inl rfl
      · rename_i ne
        rcases List.mem_append.1 hm' with hm1 | hm1
        · exact T.newState o ob hm1 h'
        · rw [List.mem_singleton] at hm1; exact absurd hm1 ne
  · refine ⟨rfl, rfl, ?_⟩
    show (s.observers.push _).size = _
    rw [Array.size_push]; rfl

theorem cloneObs_total {N : Nat} {env : Env} {s : State} {o : Nat} {tk : Array Nat} (T : TInv N s) :
    Tot (stepAction env (.cloneObs o) tk) s
      (fun r s' => r.2 = tk ∧ TInv N s' ∧ Grown (.cloneObs o) s s') := by
  simp only [stepAction]
  refine Tot.bind_ok (run_modObs _ _ s) (Tot.pure ⟨rfl, ?_, ?_⟩)
  · exact TInv_modObs T (o := o) (f := fun x => { x with clones := x.clones + 1 }) rfl rfl rfl rfl rfl rfl rfl
      (fun ob _ h => h)
  · exact Grown_same rfl rfl rfl (Array.size_modify ..)

theorem disallowFutureUse_total {N : Nat} {s : State} {o : Nat} (T : TInv N s) (ho : o < s.observers.size) :
    Tot (disallowFutureUse o) s (fun _ s' => TInv N s' ∧ s'.nodes.size = s.nodes.size ∧
      s'.vars.size = s.vars.size ∧ s'.observers.size = s.observers.size) := by
  unfold disallowFutureUse
  have h0 : s.observers[o]? = some s.observers[o] := Array.getElem?_eq_getElem ho
  refine Tot.bind_ok (a := s.observers[o]) (s1 := s) (by rw [run_getObs, h0]) ?_
  cases hst : s.observers[o].state with
  | disallowed => exact Tot.pure ⟨T, rfl, rfl, rfl⟩
  | unlinked => exact Tot.pure ⟨T, rfl, rfl, rfl⟩
  | created =>
    dsimp only
    refine Tot.bind_ok (run_bumpCounter _ _) (Tot.of_ok (run_modObs _ _ _) ⟨?_, rfl, rfl, ?_⟩)
    · exact TInv_modObs T (o := o) (f := fun x => { x with state := .unlinked, handlers := [] })
        rfl rfl rfl rfl rfl rfl rfl (fun ob _ _ => Or.inr rfl)
    · exact Array.size_modify ..
  | inUse =>
    dsimp only
    refine Tot.bind_ok (run_bumpCounter _ _) (Tot.bind_ok (run_modObs _ _ _)
      (Tot.of_ok (run_modify _ _) ⟨?_, rfl, rfl, ?_⟩))
    · refine TInv_modObs T (o := o) (f := fun x => { x with state := .disallowed }) rfl rfl rfl rfl rfl rfl rfl ?_
      intro ob hob h
      rw [h0] at hob; cases hob
      rw [hst] at h; rcases h with h | h <;> cases h
    · exact Array.size_modify ..

theorem dropObs_total {N : Nat} {env : Env} {s : State} {o : Nat} {tk : Array Nat} (T : TInv N s)
    (ho : o < s.observers.size) :
    Tot (stepAction env (.dropObs o) tk) s
      (fun r s' => r.2 = tk ∧ TInv N s' ∧ Grown (.dropObs o) s s') := by
  simp only [stepAction]
  have h0 : s.observers[o]? = some s.observers[o] := Array.getElem?_eq_getElem ho
  refine Tot.bind_ok (a := s.observers[o]) (s1 := s) (by rw [run_getObs, h0]) ?_
  split
  · exact Tot.pure ⟨rfl, T, Grown_same rfl rfl rfl rfl⟩
  · refine Tot.bind_ok (run_modObs _ _ s) ?_
    have T1 : TInv N { s with observers := s.observers.modify o fun x => { x with clones := x.clones - 1 } } :=
      TInv_modObs T (o := o) (f := fun x => { x with clones := x.clones - 1 }) rfl rfl rfl rfl rfl rfl rfl
        (fun ob _ h => h)
    have hsz : (s.observers.modify o fun x => { x with clones := x.clones - 1 }).size = s.observers.size :=
      Array.size_modify ..
    split
    · refine Tot.bind (disallowFutureUse_total T1 (by rw [hsz]; exact ho)) ?_
      rintro u s1 - ⟨T2, e1, e2, e3⟩
      exact Tot.pure ⟨rfl, T2, Grown_same rfl e1 e2 (e3.trans hsz)⟩
    · exact Tot.pure ⟨rfl, T1, Grown_same rfl rfl rfl hsz⟩

theorem disallow_total {N : Nat} {env : Env} {s : State} {o : Nat} {tk : Array Nat} (T : TInv N s)
    (ho : o < s.observers.size) :
    Tot (stepAction env (.disallow o) tk) s
      (fun r s' => r.2 = tk ∧ TInv N s' ∧ Grown (.disallow o) s s') := by
  simp only [stepAction]
  refine Tot.bind (disallowFutureUse_total T ho) ?_
  rintro u s1 - ⟨T2, e1, e2, e3⟩
  exact Tot.pure ⟨rfl, T2, Grown_same rfl e1 e2 e3⟩

/-! ## the writes -/

theorem wroteOutside_sizes (v : Nat) (vc : VarCell) (x : Val) (s : State) :
    (wroteOutside v vc x s).vars.size = s.vars.size ∧
      (wroteOutside v vc x s).rch.queues.size = s.rch.queues.size := by
  unfold wroteOutside
  split
  · simp [bumped, withCell]
  · split
    · simp [inserted, stampedWrite, bumped, withCell]
    · simp [stampedWrite, bumped, withCell]

/-- a write outside `stabilise` returns -/
theorem writeVar_total {env : Env} {N : Nat} {s : State} {v : Nat} {f : Val → Val} {isSet : Bool}
    (Q : QInv env e s) (T : TInv N s) (hv : v < s.vars.size) :
    Tot (writeVar v f isSet) s (fun _ s' => TInv N s' ∧ s'.nodes.size = s.nodes.size ∧
      s'.vars.size = s.vars.size ∧ s'.observers.size = s.observers.size) := by
  have hv0 : s.vars[v]? = some s.vars[v] := Array.getElem?_eq_getElem hv
  generalize s.vars[v] = vc at hv0
  have hst : s.status ≠ .stabilising := by rw [Q.status]; intro e; cases e
  have I : GInv env s allClosed := Q.struct
  have hsz : vc.node < s.nodes.size := (Q.vars.cell v vc hv0).1
  have hkn : (s.nodeD vc.node).kind = .var v := (Q.vars.cell v vc hv0).2
  have hl : vc.linked = true := T.linked v vc hv0
  have hval : (s.nodeD vc.node).valid = true := (I.node hsz).valid
  have hok : ((writeVar v f isSet).run.run s).1 = .ok vc.value := by
    rw [writeVar_outside_result v f isSet s vc hv0 hst, if_neg (by rw [hl]; intro e; cases e)]
    split
    · rfl
    rename_i h2
    have hstale : (stampedWrite v vc (f vc.value) s).isStale vc.node = true := by
      have hn : (stampedWrite v vc (f vc.value) s).nodes[vc.node]? = some (s.nodeD vc.node) := by
        show s.nodes[vc.node]? = _
        rw [State.nodeD, Array.getElem?_eq_getElem hsz]; rfl
      have hc : (stampedWrite v vc (f vc.value) s).vars[v]? =
          some { vc with value := f vc.value, setAt := s.stabNum } := withCell_get v _ vc s hv0
      rw [isStale_var _ _ v _ _ hn hkn hc, hval]
      have := (Q.stamps vc.node).1
      simpa using this
    rw [if_neg (by rw [hval, hstale]; rintro ⟨-, h⟩; cases h)]
    split
    · rfl
    rename_i h4
    have h4' : (s.nodeD vc.node).valid = true ∧ s.isNecessary vc.node = true ∧
        (s.nodeD vc.node).inRch = false := by simpa using h4
    have hnec : s.isNecessary vc.node = true := h4'.2.1
    have h0 := I.hpos _ hnec rfl
    have hle := T.hb _ hnec rfl
    have hmax := T.room.rch
    have hN := T.room.size
    rw [if_neg (by rintro ⟨-, h⟩; omega), if_neg (by omega), if_neg (by omega)]
  have hrun : (writeVar v f isSet).run.run s = (.ok vc.value, ((writeVar v f isSet).run.run s).2) := by
    rw [← hok]; exact Prod.ext rfl rfl
  obtain ⟨-, hs', -, -, hh⟩ := writeVar_outside_ok v f isSet s _ vc _ hv0 hst hrun
  obtain ⟨R, -⟩ := wroteOutside_q (f vc.value) Q hv0 hh
  have hF := wroteOutside_frame v vc (f vc.value) s
  have hS := wroteOutside_sizes v vc (f vc.value) s
  rw [← hs'] at R hF hS
  refine Tot.of_ok hrun ⟨?_, R.size, hS.1, by rw [R.observers]⟩
  refine ⟨fun m hm ho => ?_, ⟨?_, ?_, ?_⟩, fun c vc' h => ?_, ?_, ?_, ?_, fun m i h => ?_⟩
  rotate_right
  · obtain ⟨hh, e1⟩ := R.node m
    rw [e1] at h; rw [R.size]; exact T.dep m i h
  · rw [R.nec] at hm; rw [R.height]; exact T.hb m hm ho
  · rw [hF.2.2.2.2.1]; exact T.room.ahh
  · rw [← T.room.rch]; simp only [Heap.maxAllowed, hS.2]
  · rw [R.size]; exact T.room.size
  · by_cases hc : c = v
    · rw [hc, R.var] at h; cases h; exact hl
    · rw [R.other c hc] at h; exact T.linked c vc' h
  · rw [R.top, R.size]; exact T.topSize
  · rw [R.newObservers]; exact T.newNodup
  · intro o ob hm h
    rw [R.newObservers] at hm; rw [R.observers] at h
    exact T.newState o ob hm h

theorem discard_total {α} {x : M α} {s : State} {P : State → Prop} (h : Tot x s (fun _ s' => P s')) :
    Tot (discard x) s (fun _ s' => P s') := by
  have e : discard x = x >>= fun _ => pure () := by
    rw [Functor.discard, map_const, Function.comp_apply, map_eq_pure_bind]
  rw [e]
  exact Tot.bind h (fun a s1 _ hp => Tot.pure hp)

theorem getVar_total {s : State} {v : Nat} (hv : v < s.vars.size) :
    (getVar v).run.run s = (.ok s.vars[v], s) := by
  rw [run_getVar, Array.getElem?_eq_getElem hv]

end P27
open P27

theorem simple_total {env : Env} {N : Nat} {s : State} {a : Action} {tk : Array Nat}
    (Q : QInv env e s) (T : TInv N s) (ha : SimpleAction a) (hok : ActionOK N s a) :
    Tot (stepAction env a tk) s (fun r s' => r.2 = tk ∧ TInv N s' ∧ Grown a s s') := by
  cases a <;> try exact ha.elim
  case observe n =>
    cases n <;> try exact ha.elim
    exact observe_total Q T hok
  case cloneObs o => exact cloneObs_total T
  case dropObs o => exact dropObs_total T hok
  case disallow o => exact disallow_total T hok
  case set v x =>
    unfold stepAction
    dsimp only
    refine Tot.bind (discard_total (writeVar_total Q T hok)) ?_
    rintro u s1 - ⟨T1, e1, e2, e3⟩
    exact Tot.pure ⟨rfl, T1, Grown_same rfl e1 e2 e3⟩
  case modify v d =>
    unfold stepAction
    dsimp only
    refine Tot.bind (discard_total (writeVar_total Q T hok)) ?_
    rintro u s1 - ⟨T1, e1, e2, e3⟩
    exact Tot.pure ⟨rfl, T1, Grown_same rfl e1 e2 e3⟩
  case update v d =>
    unfold stepAction
    dsimp only
    refine Tot.bind (discard_total (writeVar_total Q T hok)) ?_
    rintro u s1 - ⟨T1, e1, e2, e3⟩
    exact Tot.pure ⟨rfl, T1, Grown_same rfl e1 e2 e3⟩
  case replace v x =>
    unfold stepAction
    dsimp only
    refine Tot.bind (writeVar_total Q T hok) ?_
    rintro u s1 - ⟨T1, e1, e2, e3⟩
    exact Tot.pure ⟨rfl, T1, Grown_same rfl e1 e2 e3⟩
  case replaceWith v d =>
    unfold stepAction
    dsimp only
    refine Tot.bind (writeVar_total Q T hok) ?_
    rintro u s1 - ⟨T1, e1, e2, e3⟩
    exact Tot.pure ⟨rfl, T1, Grown_same rfl e1 e2 e3⟩
  case get v =>
    unfold stepAction
    dsimp only
    exact Tot.bind_ok (getVar_total hok) (Tot.pure ⟨rfl, T, Grown_same rfl rfl rfl rfl⟩)
  case isStable =>
    unfold stepAction
    dsimp only
    exact Tot.bind_get (Tot.pure ⟨rfl, T, Grown_same rfl rfl rfl rfl⟩)
  case stats =>
    unfold stepAction
    dsimp only
    exact Tot.pure ⟨rfl, T, Grown_same rfl rfl rfl rfl⟩

end IncrVerif.Proofs.CutH
