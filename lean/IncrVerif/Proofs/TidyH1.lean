import IncrVerif.Proofs.Sched6
/-!
# At most once per round, generically

`Sched.drain_once` (no node runs twice in one `drainHeap`; every node that runs is necessary) re-proved for an ABSTRACT
drain invariant `J s x` (`x` = the current node) that is kept by a successful `recomputeOne` on the current node and by a
pop, with a frame `FrA` that is read in the ACTUAL state (round number, necessity, "stamped in this round" are kept).
Instances: the drain invariants of the fragments static + `map_ref` (`MapRefH.DInvR`) and static + `map_with_old`
(`MapOldH.DInvW`), whose scheduling invariant lives on a virtual state.

Also `drainSteps`: the nodes of the trace TOGETHER WITH the state each of them ran in; every such state satisfies the
invariant with that node as current node.
-/
namespace IncrVerif.Proofs.TidyH
open IncrVerif.Engine IncrVerif.Proofs IncrVerif.Proofs.Step IncrVerif.Proofs.Sched

/-- what a drain keeps of the ACTUAL state, as far as "at most once" is concerned -/
structure FrA (s s' : State) : Prop where
  stabNum : s'.stabNum = s.stabNum
  nec : ∀ m, s'.isNecessary m = s.isNecessary m
  ran : ∀ m, (s.nodeD m).recomputedAt = s.stabNum → (s'.nodeD m).recomputedAt = s.stabNum

theorem FrA.refl (s : State) : FrA s s := ⟨rfl, fun _ => rfl, fun _ h => h⟩

theorem FrA.trans {a b c : State} (h1 : FrA a b) (h2 : FrA b c) : FrA a c where
  stabNum := h2.stabNum.trans h1.stabNum
  nec m := (h2.nec m).trans (h1.nec m)
  ran m h := by
    have := h2.ran m (by rw [h1.stabNum]; exact h1.ran m h)
    rw [h1.stabNum] at this; exact this

theorem FrA.of_frame {s s' : State} (f : Frame s s') : FrA s s' := ⟨f.stabNum, f.nec, f.ran⟩

/-- an abstract drain invariant with what "at most once" needs of it -/
structure OnceKit (env : Env) (J : State → Option Nat → Prop) : Prop where
  /-- stamps are not from the future -/
  stamps : ∀ s x m, J s x → (s.nodeD m).recomputedAt ≤ s.stabNum
  /-- the current node is necessary and has not run in this round -/
  cur : ∀ s n, J s (some n) → s.isNecessary n = true ∧ (s.nodeD n).recomputedAt < s.stabNum
  step : ∀ s n fuel r s', J s (some n) → (recomputeOne env fuel n).run.run s = (.ok r, s') →
    J s' r ∧ FrA s s' ∧ (s'.nodeD n).recomputedAt = s.stabNum
  pop : ∀ s n s1, J s none → rchRemoveMin.run.run s = (.ok (some n), s1) → J s1 (some n) ∧ FrA s s1
  popNone : ∀ s s1, J s none → rchRemoveMin.run.run s = (.ok none, s1) → s1 = s

theorem FrA.not_yet {s s' : State} (f : FrA s s') (st : ∀ m, (s.nodeD m).recomputedAt ≤ s.stabNum) {m : Nat}
    (h : (s'.nodeD m).recomputedAt < s.stabNum) : (s.nodeD m).recomputedAt < s.stabNum := by
  have h1 := st m
  by_cases e : (s.nodeD m).recomputedAt = s.stabNum
  · have := f.ran m e; omega
  · omega

theorem RanOnce.extend_leftA {a b c : State} {m : Nat} (f : FrA a b)
    (st : ∀ m, (a.nodeD m).recomputedAt ≤ a.stabNum) (h : RanOnce b c m) : RanOnce a c m := by
  obtain ⟨h1, h2, h3⟩ := h
  rw [f.stabNum] at h2 h3
  exact ⟨by rw [← f.nec]; exact h1, f.not_yet st h2, h3⟩

/-! ## the steps of a drain, with their states -/

/-- the nodes `recompute env fuel n` runs from `s`, each with the state it runs in -/
def chainSteps (env : Env) : Nat → Nat → State → List (Nat × State)
  | 0, _, _ => []
  | fuel+1, n, s =>
    (n, s) :: (match (recomputeOne env fuel n).run.run s with
      | (.ok (some p), s1) => chainSteps env fuel p s1
      | _ => [])

/-- the nodes `drainHeap env fuel` runs from `s`, each with the state it runs in -/
def drainSteps (env : Env) : Nat → State → List (Nat × State)
  | 0, _ => []
  | fuel+1, s =>
    match rchRemoveMin.run.run s with
    | (.ok (some n), s1) =>
      chainSteps env fuel n s1 ++
        (match (recompute env fuel n).run.run s1 with
         | (.ok _, s2) => drainSteps env fuel s2
         | _ => [])
    | _ => []

theorem chainSteps_fst (env : Env) : ∀ (fuel n : Nat) (s : State),
    (chainSteps env fuel n s).map (·.1) = chainTrace env fuel n s := by
  intro fuel
  induction fuel with
  | zero => intro n s; rfl
  | succ fuel ih =>
    intro n s
    unfold chainSteps chainTrace
    rcases hx : (recomputeOne env fuel n).run.run s with ⟨_ | _ | p, s1⟩
    · simp
    · simp
    · simp [ih]

theorem drainSteps_fst (env : Env) : ∀ (fuel : Nat) (s : State),
    (drainSteps env fuel s).map (·.1) = drainTrace env fuel s := by
  intro fuel
  induction fuel with
  | zero => intro s; rfl
  | succ fuel ih =>
    intro s
    unfold drainSteps drainTrace
    rcases hx : rchRemoveMin.run.run s with ⟨_ | _ | n, s1⟩
    · simp
    · simp
    · simp only [List.map_append, chainSteps_fst]
      rcases hy : (recompute env fuel n).run.run s1 with ⟨_ | _, s2⟩
      · simp
      · simp [ih]

section
variable {env : Env} {J : State → Option Nat → Prop}

/-- the conclusions about a run `s → s'` of the drain (or of a direct-recompute chain) with steps `l` -/
structure RunOnce (J : State → Option Nat → Prop) (l : List (Nat × State)) (s s' : State) : Prop where
  inv : J s' none
  fr : FrA s s'
  nodup : (l.map (·.1)).Nodup
  once : ∀ m, m ∈ l.map (·.1) → RanOnce s s' m
  /-- every step happens in a state with the invariant, reached from `s` -/
  steps : ∀ p, p ∈ l → J p.2 (some p.1) ∧ FrA s p.2

theorem chain_onceG (K : OnceKit env J) : ∀ (fuel n : Nat) (s s' : State), J s (some n) →
    (recompute env fuel n).run.run s = (.ok (), s') → RunOnce J (chainSteps env fuel n s) s s' := by
  intro fuel
  induction fuel with
  | zero => intro n s s' _ h; unfold recompute at h; cases h
  | succ fuel ih =>
    intro n s s' I h
    unfold recompute at h
    obtain ⟨r, s1, h1, h2⟩ := bind_ok_inv h
    obtain ⟨I1, f1, hn1⟩ := K.step s n fuel r s1 I h1
    obtain ⟨hnec, hn0⟩ := K.cur s n I
    unfold chainSteps
    rw [h1]
    cases r with
    | none =>
      obtain ⟨-, rfl⟩ := pure_ok_inv h2
      refine ⟨I1, f1, by simp, ?_, ?_⟩
      · intro m hm
        simp only [List.map_cons, List.map_nil, List.mem_singleton] at hm
        subst hm
        exact ⟨hnec, hn0, hn1⟩
      · intro p hp
        simp only [List.mem_singleton] at hp
        subst hp
        exact ⟨I, FrA.refl s⟩
    | some p =>
      have R := ih p s1 s' I1 h2
      have hnot : n ∉ (chainSteps env fuel p s1).map (·.1) := by
        intro hmem
        have := (R.once n hmem).2.1
        rw [f1.stabNum] at this
        omega
      refine ⟨R.inv, f1.trans R.fr, ?_, ?_, ?_⟩
      · simp only [List.map_cons]
        exact List.nodup_cons.2 ⟨hnot, R.nodup⟩
      · intro m hm
        simp only [List.map_cons] at hm
        rcases List.mem_cons.1 hm with rfl | hm
        · refine ⟨hnec, hn0, ?_⟩
          have := R.fr.ran m (by rw [f1.stabNum]; exact hn1)
          rw [f1.stabNum] at this; exact this
        · exact RanOnce.extend_leftA f1 (fun m => K.stamps s _ m I) (R.once m hm)
      · intro q hq
        rcases List.mem_cons.1 hq with rfl | hq
        · exact ⟨I, FrA.refl s⟩
        · obtain ⟨a, b⟩ := R.steps q hq
          exact ⟨a, f1.trans b⟩

/-- **at most once, generically.** -/
theorem drain_onceG (K : OnceKit env J) : ∀ (fuel : Nat) (s s' : State), J s none →
    (drainHeap env fuel).run.run s = (.ok (), s') → RunOnce J (drainSteps env fuel s) s s' := by
  intro fuel
  induction fuel with
  | zero => intro s s' _ h; unfold drainHeap at h; cases h
  | succ fuel ih =>
    intro s s' I h
    unfold drainHeap at h
    obtain ⟨r, s1, h1, h2⟩ := bind_ok_inv h
    unfold drainSteps
    rw [h1]
    cases r with
    | none =>
      obtain ⟨-, hs1⟩ := pure_ok_inv h2
      have := K.popNone s s1 I h1
      rw [this] at hs1
      subst hs1
      dsimp only
      refine ⟨I, FrA.refl _, List.nodup_nil, ?_, ?_⟩
      · intro m hm; cases hm
      · intro p hp; cases hp
    | some n =>
      obtain ⟨u, s2, h3, h4⟩ := bind_ok_inv h2
      dsimp only
      rw [h3]
      dsimp only
      obtain ⟨I1, f1⟩ := K.pop s n s1 I h1
      have R1 := chain_onceG K fuel n s1 s2 I1 h3
      have R2 := ih s2 s' R1.inv h4
      have st : ∀ m, (s.nodeD m).recomputedAt ≤ s.stabNum := fun m => K.stamps s _ m I
      refine ⟨R2.inv, f1.trans (R1.fr.trans R2.fr), ?_, ?_, ?_⟩
      · rw [List.map_append]
        refine List.nodup_append.2 ⟨R1.nodup, R2.nodup, ?_⟩
        intro a ha b hb e
        subst e
        have h5 := (R1.once a ha).2.2
        have h6 := (R2.once a hb).2.1
        rw [R1.fr.stabNum] at h6
        omega
      · intro m hm
        rw [List.map_append] at hm
        rcases List.mem_append.1 hm with hm | hm
        · obtain ⟨a1, a2, a3⟩ := R1.once m hm
          have : RanOnce s1 s' m := by
            refine ⟨a1, a2, ?_⟩
            have := R2.fr.ran m (by rw [R1.fr.stabNum]; exact a3)
            rw [R1.fr.stabNum] at this; exact this
          exact RanOnce.extend_leftA f1 st this
        · exact RanOnce.extend_leftA (f1.trans R1.fr) st (R2.once m hm)
      · intro q hq
        rcases List.mem_append.1 hq with hq | hq
        · obtain ⟨a, b⟩ := R1.steps q hq
          exact ⟨a, f1.trans b⟩
        · obtain ⟨a, b⟩ := R2.steps q hq
          exact ⟨a, (f1.trans R1.fr).trans b⟩

/-- in the vocabulary of `Sched.drain_once` -/
theorem drain_once_trace (K : OnceKit env J) {fuel : Nat} {s s' : State} (I : J s none)
    (h : (drainHeap env fuel).run.run s = (.ok (), s')) :
    (drainTrace env fuel s).Nodup ∧ ∀ m, m ∈ drainTrace env fuel s → RanOnce s s' m := by
  have R := drain_onceG K fuel s s' I h
  rw [← drainSteps_fst]
  exact ⟨R.nodup, R.once⟩

end

/-- `stabilise` is its five phases -/
theorem stabilise_split {env : Env} {fuel : Nat} {s s' : State}
    (h : (stabilise env fuel).run.run s = (.ok (), s')) :
    ∃ t1 t2 t3, s.status = .notStabilising ∧
      (addNewObservers env fuel).run.run { s with status := .stabilising } = (.ok (), t1) ∧
      (unlinkDisallowedObservers fuel).run.run t1 = (.ok (), t2) ∧
      (drainHeap env fuel).run.run t2 = (.ok (), t3) ∧
      (stabiliseEnd env fuel).run.run t3 = (.ok (), s') := by
  unfold stabilise at h
  rw [run_bind_get] at h
  obtain ⟨_, sa, ha, h⟩ := bind_ok_inv h
  rw [run_assertM] at ha
  split at ha
  · rename_i hst
    cases ha
    rw [run_bind_modify] at h
    obtain ⟨_, t1, h1, h⟩ := bind_ok_inv h
    obtain ⟨_, t2, h2, h⟩ := bind_ok_inv h
    obtain ⟨_, t3, h3, h4⟩ := bind_ok_inv h
    exact ⟨t1, t2, t3, by simpa using hst, h1, h2, h3, h4⟩
  · cases ha

end IncrVerif.Proofs.TidyH
