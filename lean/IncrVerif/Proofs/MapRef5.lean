import IncrVerif.Proofs.MapRef4
/-!
# map_ref fragment: simulation of the necessity cascades
-/
namespace IncrVerif.Proofs.MapRefH
open IncrVerif.Engine IncrVerif.Proofs IncrVerif.Proofs.Step IncrVerif.Proofs.Sched IncrVerif.Proofs.Quiet

section
variable {g : Nat → Option Val}

/-- loops: same list, bodies simulate each other -/
macro "sim_loop" : tactic =>
  `(tactic| ((with_reducible refine Sim.at (Sim.forIn _ (fun _ _ => ?_) _) _); intro _))

theorem Sim.getBind (b : Nat) : Sim g (Engine.getBind b) (Engine.getBind b) := by
  intro s; unfold Engine.getBind; sim
  split <;> sim
macro_rules | `(tactic| sim_leaf) => `(tactic| with_reducible exact Sim.getBind _)

theorem Sim.getExpert (b : Nat) : Sim g (Engine.getExpert b) (Engine.getExpert b) := by
  intro s; unfold Engine.getExpert; sim
  split <;> sim
macro_rules | `(tactic| sim_leaf) => `(tactic| with_reducible exact Sim.getExpert _)

theorem Sim.logEv (e : Event) : Sim g (Engine.logEv e) (Engine.logEv e) := by
  intro s; unfold Engine.logEv; sim
macro_rules | `(tactic| sim_leaf) => `(tactic| with_reducible exact Sim.logEv _)

theorem Sim.modExpert (e : Nat) (f : ExpertRec → ExpertRec) : Sim g (Engine.modExpert e f) (Engine.modExpert e f) := by
  intro s; unfold Engine.modExpert; sim
macro_rules | `(tactic| sim_leaf) => `(tactic| with_reducible exact Sim.modExpert _ _)

theorem Sim.observabilityChange (e : Nat) (b : Bool) :
    Sim g (Engine.observabilityChange e b) (Engine.observabilityChange e b) := by
  intro s; unfold Engine.observabilityChange; sim
macro_rules | `(tactic| sim_leaf) => `(tactic| with_reducible exact Sim.observabilityChange _ _)

theorem Sim.scopeHeight (sc : Scope) : Sim g (Engine.scopeHeight sc) (Engine.scopeHeight sc) := by
  intro s; unfold Engine.scopeHeight
  cases sc with
  | top => sim
  | bind b => sim
macro_rules | `(tactic| sim_leaf) => `(tactic| with_reducible exact Sim.scopeHeight _)

theorem Sim.scopeIsNecessary (sc : Scope) : Sim g (Engine.scopeIsNecessary sc) (Engine.scopeIsNecessary sc) := by
  intro s; unfold Engine.scopeIsNecessary
  cases sc with
  | top => sim
  | bind b => sim
macro_rules | `(tactic| sim_leaf) => `(tactic| with_reducible exact Sim.scopeIsNecessary _)

theorem Sim.handleAfterStabilisation (n : Nat) :
    Sim g (Engine.handleAfterStabilisation n) (Engine.handleAfterStabilisation n) := by
  intro s; unfold Engine.handleAfterStabilisation; sim
macro_rules | `(tactic| sim_leaf) => `(tactic| with_reducible exact Sim.handleAfterStabilisation _)

theorem Sim.maybeHandleAfterStabilisation (n : Nat) :
    Sim g (Engine.maybeHandleAfterStabilisation n) (Engine.maybeHandleAfterStabilisation n) := by
  intro s; unfold Engine.maybeHandleAfterStabilisation; sim
macro_rules | `(tactic| sim_leaf) => `(tactic| with_reducible exact Sim.maybeHandleAfterStabilisation _)


theorem Sim.link (env : Env) (fuel : Nat) :
    (∀ n, Sim g (becameNecessary env fuel n) (becameNecessary (virtEnv env) fuel n)) ∧
    (∀ c i p, Sim g (addParentWithoutAdjustingHeights env fuel c i p)
      (addParentWithoutAdjustingHeights (virtEnv env) fuel c i p)) := by
  induction fuel with
  | zero =>
    constructor
    · intro n s; unfold becameNecessary; sim
    · intro c i p s; unfold addParentWithoutAdjustingHeights; sim
  | succ fuel ih =>
    constructor
    · intro n s
      unfold becameNecessary
      sim
      all_goals first
        | exact ih.2 _ _ _ _
        | sim_kind
    · intro c i p s
      unfold addParentWithoutAdjustingHeights
      sim
      all_goals first
        | exact ih.1 _ _
        | sim_kind
        | (exfalso; simp_all; done)
      all_goals first
        | sim_kind
        | (refine SimAt.ite_left (fun _ => SimAt.veq_seq (PresV.markMapRefUnknown _ _) fun _ _ => ?_) (fun _ => ?_)
           <;> sim <;> sim_kind)

end
end IncrVerif.Proofs.MapRefH
