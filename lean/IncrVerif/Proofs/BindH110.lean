import IncrVerif.Proofs.BindH109
import IncrVerif.Proofs.BindH3
/-!
# Binds, part 4h-x (B4): non-vacuity — a history of the fragment with a bind whose closure CREATES nodes, and switches variant

With `bEnv` (`B1x.lean`: `f0` = sum of the integer views; closure 0 creates `map f0 [n1, n1]` on an even left-hand side value and `map f0 [n1]` on an odd one):
`v0 := 0; v1 := 1; b := bind v0 closure0; observe b; stabilise; v0 := 1; stabilise; v1 := 5; stabilise`.

* `exHistB_frag`: it is a history of the fragment (`HistF1 bEnv 0 exHistB`);
* `exHistB_runs`: it runs without panic (computed by the kernel);
* `exHistB_inv`: so (given `stabilise_q1` for `bEnv`, hypothesis `STAB`) the state it reaches satisfies `QInv1`, and so does every state on the way
  (`history_prefix1`, `history_stabilise1`);
* `exHistB_reads`: the observer reads `f0 [1, 1] = 2`, `f0 [1] = 1`, `f0 [5] = 5` after the three `stabilise`s;
* `exHistB_switch`: the second `stabilise` switches the variant of the closure: node 4 (`map f0 [1, 1]`, created by the first run in scope `.bind 0`) is
  invalidated, node 5 (`map f0 [1]`) is created and becomes the right-hand side.
-/
namespace IncrVerif.Proofs.BindH
open IncrVerif.Engine IncrVerif.Driver IncrVerif.Proofs IncrVerif.Proofs.Step IncrVerif.Proofs.Sched IncrVerif.Proofs.Quiet

/-- the example history -/
def exHistB : List Action :=
  [.create (.var (.int 0)), .create (.var (.int 1)), .create (.bind 0 (.outer 0)), .observe (.outer 2), .stabilise,
    .set 0 (.int 1), .stabilise, .set 1 (.int 5), .stabilise]

namespace C2h

theorem body0_even {v : Val} (h : v.toInt % 2 = 0) :
    bEnv.body 0 v = { instrs := [.map 0 [.outer 1, .outer 1]], ret := .loc 0 } := by
  simp [bEnv, h]

theorem body0_odd {v : Val} (h : ¬ v.toInt % 2 = 0) :
    bEnv.body 0 v = { instrs := [.map 0 [.outer 1]], ret := .loc 0 } := by
  simp [bEnv, h]

/-- closure 0 of `bEnv` is in the fragment for a naming table with (at least) two entries -/
theorem bEnv_body0 : BodyF1 bEnv 2 0 := by
  intro v
  have hf : (0 : Nat) < fnPerKey ∧ ((0 : Nat) < fnZip → ∀ vals, bEnv.fnEff 0 vals = []) :=
    ⟨by decide, fun _ _ => rfl⟩
  by_cases h : v.toInt % 2 = 0
  · rw [body0_even h]
    refine ⟨?_, show (0 : Nat) < 1 by decide⟩
    intro j i hj
    cases j with
    | zero =>
      cases hj
      refine ⟨hf.1, hf.2, ?_⟩
      intro a ha
      simp only [List.mem_cons, List.mem_nil_iff, or_false, or_self] at ha
      rw [ha]; exact (show (1 : Nat) < 2 by decide)
    | succ j => cases hj
  · rw [body0_odd h]
    refine ⟨?_, show (0 : Nat) < 1 by decide⟩
    intro j i hj
    cases j with
    | zero =>
      cases hj
      refine ⟨hf.1, hf.2, ?_⟩
      intro a ha
      simp only [List.mem_cons, List.mem_nil_iff, or_false] at ha
      rw [ha]; exact (show (1 : Nat) < 2 by decide)
    | succ j => cases hj

/-- did the history run? -/
def ranB (env : Env) (acts : List Action) : Bool :=
  match Quiet.runActions env acts (State.init 128 true) #[] with
  | .ok _ => true
  | .error _ => false

/-- the state after the history -/
def stateB (env : Env) (acts : List Action) : Option State :=
  match Quiet.runActions env acts (State.init 128 true) #[] with
  | .ok (s, _) => some s
  | .error _ => none

/-- what observer `o` reads after the history -/
def readB (env : Env) (acts : List Action) (o : Nat) : Option Val :=
  match stateB env acts with
  | some s => match s.tryGetValue env o with | .ok v => some v | .error _ => none
  | none => none

/-- a fact about the state the history of `bEnv` ends in -/
def factB {α} (acts : List Action) (f : State → α) : Option α := (stateB bEnv acts).map f

theorem ranB_iff {env : Env} {acts : List Action} (h : ranB env acts = true) :
    ∃ s tk, Quiet.runActions env acts (State.init 128 true) #[] = .ok (s, tk) := by
  unfold ranB at h
  rcases hx : Quiet.runActions env acts (State.init 128 true) #[] with e | ⟨s, tk⟩
  · rw [hx] at h; cases h
  · exact ⟨s, tk, rfl⟩

end C2h

/-- the example is a history of the fragment -/
theorem exHistB_frag : HistF1 bEnv 0 exHistB := by
  simp only [exHistB, HistF1, ActionF1, InstrTop, StaticInstr, Quiet.OpndOK, and_true, true_and]
  exact ⟨⟨0, rfl⟩, C2h.bEnv_body0⟩

set_option maxRecDepth 100000 in
/-- the example history runs without panic -/
theorem exHistB_runs : ∃ s tk, Quiet.runActions bEnv exHistB (State.init 128 true) #[] = .ok (s, tk) :=
  C2h.ranB_iff (by decide +kernel)

/-- … so the state it reaches satisfies the invariant between actions (and `history_prefix1`, `history_stabilise1` apply to every state on the way) -/
theorem exHistB_inv
    (STAB : ∀ {fuel : Nat} {s s' : State}, QInv1 bEnv s → (stabilise bEnv fuel).run.run s = (.ok (), s') → QInv1 bEnv s') :
    ∃ s tk, Quiet.runActions bEnv exHistB (State.init 128 true) #[] = .ok (s, tk) ∧ QInv1 bEnv s := by
  obtain ⟨s, tk, h⟩ := exHistB_runs
  exact ⟨s, tk, h, history_q1 STAB exHistB_frag h⟩

set_option maxRecDepth 100000 in
/-- the reads of the observer after the first, second and third `stabilise`: `f0 [1, 1] = 2`, `f0 [1] = 1`, `f0 [5] = 5` -/
theorem exHistB_reads : C2h.readB bEnv (exHistB.take 5) 0 = some (.int 2) ∧
    C2h.readB bEnv (exHistB.take 7) 0 = some (.int 1) ∧
    C2h.readB bEnv exHistB 0 = some (.int 5) :=
  ⟨by decide +kernel, by decide +kernel, by decide +kernel⟩

set_option maxRecDepth 100000 in
/-- the second `stabilise` switches the variant of the closure: before it (after `v0 := 1`) node 4 = `map f0 [1, 1]` (created by the first run of the
closure, in scope `.bind 0`) is valid and is the right-hand side of the bind; after it node 4 is invalid, node 5 = `map f0 [1]` has been created in scope
`.bind 0` and is the right-hand side, and the bind has registered exactly node 5 -/
theorem exHistB_switch :
    (C2h.factB (exHistB.take 6) (fun s => s.nodes.size) = some 5 ∧
      C2h.factB (exHistB.take 6) (fun s => (s.nodeD 4).valid) = some true ∧
      C2h.factB (exHistB.take 6) (fun s => (s.nodeD 4).kind) = some (.map 0 [1, 1]) ∧
      C2h.factB (exHistB.take 6) (fun s => (s.nodeD 4).createdIn) = some (.bind 0) ∧
      C2h.factB (exHistB.take 6) (fun s => s.binds[0]?.map (·.rhs)) = some (some (some 4)) ∧
      C2h.factB (exHistB.take 6) (fun s => s.binds[0]?.map (·.allNodesCreatedOnRhs)) = some (some [4])) ∧
    (C2h.factB (exHistB.take 7) (fun s => s.nodes.size) = some 6 ∧
      C2h.factB (exHistB.take 7) (fun s => (s.nodeD 4).valid) = some false ∧
      C2h.factB (exHistB.take 7) (fun s => (s.nodeD 5).valid) = some true ∧
      C2h.factB (exHistB.take 7) (fun s => (s.nodeD 5).kind) = some (.map 0 [1]) ∧
      C2h.factB (exHistB.take 7) (fun s => (s.nodeD 5).createdIn) = some (.bind 0) ∧
      C2h.factB (exHistB.take 7) (fun s => s.binds[0]?.map (·.rhs)) = some (some (some 5)) ∧
      C2h.factB (exHistB.take 7) (fun s => s.binds[0]?.map (·.allNodesCreatedOnRhs)) = some (some [5])) :=
  ⟨⟨by decide +kernel, by decide +kernel, by decide +kernel, by decide +kernel, by decide +kernel, by decide +kernel⟩,
    by decide +kernel, by decide +kernel, by decide +kernel, by decide +kernel, by decide +kernel, by decide +kernel,
    by decide +kernel⟩

end IncrVerif.Proofs.BindH
