import IncrVerif.Proofs.FullH37
import IncrVerif.Proofs.FullH22
/-!
# C01 full fragment: the ghost invariants through `add_new_observers` (port of MapRef23)
-/
namespace IncrVerif.Proofs.FullH
open IncrVerif.Engine IncrVerif.Proofs IncrVerif.Proofs.Step IncrVerif.Proofs.Sched IncrVerif.Proofs.Quiet
open IncrVerif.Proofs.MapRefH

/-- `CK` only reads kinds, validity and `binds` -/
theorem CK.of_vframe {rk : Nat → Nat} {s s' : State} (h : VFrame s s') (hb : s'.binds = s.binds) (F : CK rk s) :
    CK rk s' := by
  have hc : ∀ n, s'.children n = s.children n := fun n => KC.children_congr (h.kind? n) hb (F.noExp n)
  refine ⟨fun n e => by rw [h.kind]; exact F.noExp n e, fun n c hm => ?_, fun n c hm => ?_⟩
  · rw [hc] at hm; exact F.kidLt n c hm
  · rw [hc] at hm; rw [h.valid]; exact F.kidsValid n c hm

namespace PR

theorem cframe_binds {s s' : State} (h : CFrame s s') : s'.binds = s.binds := KC.cframe_binds h

/-- `became_necessary_propagate` on a node that has just become necessary, in a state without pending invalidations: the
second phase does nothing -/
theorem becameNecessaryPropagate_keepsK' {env : Env} {g : Nat → Option Val} {rk : Nat → Nat} {fuel n : Nat} {s s' : State}
    (F : CK rk s) (T : Inherit env g s) (hp : s.propagateInvalidity = [])
    (hK : ∀ m, m ≠ n → s.isNecessary m = true → KN env g s m)
    (h : (becameNecessaryPropagate env fuel n).run.run s = (.ok (), s')) :
    KInv env g s' ∧ GRk s s' ∧ (becameNecessary env fuel n).run.run s = (.ok (), s') := by
  unfold becameNecessaryPropagate at h
  obtain ⟨_, s1, h1, h2⟩ := bind_ok_inv h
  obtain ⟨A, G, -⟩ := becameNecessary_keepsK_all' F T hK h1
  have hp1 : s1.propagateInvalidity = [] := G.pinv.trans hp
  have e : s' = s1 := by
    cases fuel with
    | zero => unfold Engine.propagateInvalidity at h2; cases h2
    | succ fuel =>
      unfold Engine.propagateInvalidity at h2
      rw [run_bind_get, hp1] at h2
      exact (pure_ok_inv h2).2
  rw [e]
  exact ⟨A, G, h1⟩

end PR

/-- `became_necessary_propagate` on a node that has just become necessary (no pending invalidations) -/
theorem becameNecessaryPropagate_keepsK {env : Env} {sp : Nat → Val → Val} {g : Nat → Option Val} {rk : Nat → Nat}
    {fuel n : Nat} {s s' : State}
    (C : CFrag env sp g rk s) (T : Inherit env g s) (hp : s.propagateInvalidity = [])
    (hK : ∀ m, m ≠ n → s.isNecessary m = true → KN env g s m)
    (h : (becameNecessaryPropagate env fuel n).run.run s = (.ok (), s')) :
    KInv env g s' ∧ s'.propagateInvalidity = [] ∧ FM s s' ∧ VFrame s s' ∧ GRk s s' := by
  obtain ⟨K, G, -⟩ := PR.becameNecessaryPropagate_keepsK' C.toCK T hp hK h
  exact ⟨K, G.pinv.trans hp, G.fm, G.vframe, G⟩

/-- the frame of `add_new_observers` (on top of `VFrame`): `binds`, machine states and the flags of the invalid nodes -/
structure AF (s s' : State) : Prop where
  vf : VFrame s s'
  fm : FM s s'
  binds : s'.binds = s.binds

theorem AF.refl (s : State) : AF s s := ⟨VFrame.refl s, PreOrd.refl s, rfl⟩
theorem AF.trans {a b c : State} (h1 : AF a b) (h2 : AF b c) : AF a c :=
  ⟨h1.vf.trans h2.vf, PreOrd.trans h1.fm h2.fm, h2.binds.trans h1.binds⟩
theorem AF.of_nodes {s s' : State} (h1 : s'.nodes = s.nodes) (h2 : s'.panicCountdown = s.panicCountdown)
    (h3 : s'.binds = s.binds) : AF s s' := ⟨VFrame.of_nodes h1 h2, FM.of_nodes h1, h3⟩
theorem AF.of_cframe {s s' : State} (h : CFrame s s') (fm : FM s s') : AF s s' := ⟨h.toV, fm, KC.cframe_binds h⟩
theorem AF.of_grk {s s' : State} (h : GRk s s') : AF s s' := AF.of_cframe h.fr h.fm
theorem AF.ck {rk : Nat → Nat} {s s' : State} (h : AF s s') (F : CK rk s) : CK rk s' := F.of_vframe h.vf h.binds

/-- the body of the loop of `add_new_observers` -/
def PR.addBody (env : Env) (fuel : Nat) (o : Nat) : M (ForInStep PUnit) := do
  let ob ← getObs o
  match ob.state with
  | .inUse => do
    Engine.panic "state:add_new_observers:state"
    pure (ForInStep.yield PUnit.unit)
  | .disallowed => do
    Engine.panic "state:add_new_observers:state"
    pure (ForInStep.yield PUnit.unit)
  | .unlinked => pure (ForInStep.yield PUnit.unit)
  | .created => do
    modObs o fun x => { x with state := .inUse }
    let was := (← get).isNecessary ob.node
    modify fun s => { s with allObservers := s.allObservers ++ [o] }
    modNode ob.node fun x => { x with
      observers := x.observers ++ [o],
      numOnUpdateHandlers := x.numOnUpdateHandlers + ob.handlers.length }
    handleAfterStabilisation ob.node
    dassert ((← get).isNecessary ob.node) "state:add_new_observers:necessary"
    if !was then do
      becameNecessaryPropagate env fuel ob.node
      pure (ForInStep.yield PUnit.unit)
    else pure (ForInStep.yield PUnit.unit)

theorem addNewObservers_eq (env : Env) (fuel : Nat) : Engine.addNewObservers env fuel = (do
    let no := (← get).newObservers
    modify fun s => { s with newObservers := [] }
    forIn no PUnit.unit fun o _ => PR.addBody env fuel o
    pure ()) := rfl

/-- what one iteration needs and keeps -/
structure PR.AI (env : Env) (g : Nat → Option Val) (rk : Nat → Nat) (t : State) : Prop where
  ck : CK rk t
  inh : Inherit env g t
  pinv : t.propagateInvalidity = []
  k : KInv env g t

/-- the state in which one iteration calls `became_necessary_propagate` -/
structure PR.Mid (env : Env) (g : Nat → Option Val) (rk : Nat → Nat) (n : Nat) (t t4 : State) : Prop where
  af : AF t t4
  pinv : t4.propagateInvalidity = []
  ck : CK rk t4
  inh : Inherit env g t4
  nec : ∀ m, m ≠ n → t4.isNecessary m = t.isNecessary m
  kn : ∀ m, t.isNecessary m = true → KN env g t4 m

/-- the prefix of one iteration -/
theorem PR.addBody_mid {env : Env} {g : Nat → Option Val} {rk : Nat → Nat} {o : Nat} {ob : ObsRec} {t t2 t3 t4 : State}
    (I : PR.AI env g rk t)
    (hnodes2 : t2.nodes = t.nodes) (hpc2 : t2.panicCountdown = t.panicCountdown)
    (hpi2 : t2.propagateInvalidity = t.propagateInvalidity) (hb2 : t2.binds = t.binds)
    (ht3 : t3 = { t2 with nodes := t2.nodes.modify ob.node fun x => { x with
        observers := x.observers ++ [o],
        numOnUpdateHandlers := x.numOnUpdateHandlers + ob.handlers.length } })
    (h4 : (handleAfterStabilisation ob.node).run.run t3 = (.ok (), t4)) : PR.Mid env g rk ob.node t t4 := by
  have a3 : AF t t3 := by
    refine (AF.of_nodes hnodes2 hpc2 hb2).trans ?_
    rw [ht3]
    exact ⟨VFrame.modNode _ _ _ (fun _ => ⟨rfl, rfl, rfl, rfl, rfl, rfl⟩), FM.modNode _ _ _ (fun _ h => h), rfl⟩
  have p3 : PP t t3 := by
    refine PreOrd.trans (PP.of_nodes hnodes2 hpi2) ?_
    rw [ht3]; exact PP.modNode _ _ _ (fun _ => rfl)
  have hoth3 : ∀ m, m ≠ ob.node → t3.nodeD m = t.nodeD m := by
    intro m hm
    rw [ht3, nodeD_modify, if_neg (fun e => hm e.1.symm)]
    simp [State.nodeD, hnodes2]
  have L4 : Lt t3 t4 := lt_run h4
  have a4 : AF t t4 := a3.trans (AF.of_cframe L4.fr L4.fm)
  refine ⟨a4, (L4.pp.2.trans p3.2).trans I.pinv, a4.ck I.ck, I.inh.of_vframe a4.vf, fun m hm => ?_, fun m hm =>
    (kInv_iff.1 I.k m hm).mono a4.vf a4.fm⟩
  rw [L4.nec, State.isNecessary, hoth3 m hm]; rfl

/-- one iteration of the loop of `add_new_observers` -/
theorem PR.addBody_keeps {env : Env} {g : Nat → Option Val} {rk : Nat → Nat} {fuel o : Nat} {t t' : State}
    {r : ForInStep PUnit} (I : PR.AI env g rk t) (hbody : (PR.addBody env fuel o).run.run t = (.ok r, t')) :
    r = .yield PUnit.unit ∧ KInv env g t' ∧ t'.propagateInvalidity = [] ∧ AF t t' := by
  unfold PR.addBody at hbody
  obtain ⟨ob, hob, hbody⟩ := bind_getObs_inv hbody
  cases hst : ob.state <;> rw [hst] at hbody <;> try dsimp only at hbody
  case inUse =>
    obtain ⟨_, _, h1, _⟩ := bind_ok_inv hbody
    rw [run_panic] at h1; cases h1
  case disallowed =>
    obtain ⟨_, _, h1, _⟩ := bind_ok_inv hbody
    rw [run_panic] at h1; cases h1
  case unlinked =>
    obtain ⟨hr, e⟩ := pure_ok_inv hbody
    rw [e]
    exact ⟨hr, I.k, I.pinv, AF.refl _⟩
  case created =>
    obtain ⟨t1, ht1, hbody⟩ := bind_modObs_inv hbody
    rw [run_bind_get] at hbody
    try dsimp only at hbody
    obtain ⟨t2, ht2, hbody⟩ := bind_modify_inv hbody
    obtain ⟨t3, ht3, hbody⟩ := bind_modNode_inv hbody
    obtain ⟨_, t4, h4, hbody⟩ := bind_ok_inv hbody
    rw [run_bind_get] at hbody
    replace hbody := bind_dassert_inv hbody
    have hwas : t1.isNecessary ob.node = t.isNecessary ob.node := by rw [ht1]; rfl
    rw [hwas] at hbody
    have M := PR.addBody_mid (o := o) (ob := ob) (t2 := t2) (t3 := t3) I (by rw [ht2, ht1]) (by rw [ht2, ht1]) (by rw [ht2, ht1])
      (by rw [ht2, ht1]) ht3 h4
    cases hw : t.isNecessary ob.node with
    | true =>
      rw [hw] at hbody
      simp only [Bool.not_true, Bool.false_eq_true, if_false] at hbody
      obtain ⟨hr, e⟩ := pure_ok_inv hbody
      rw [e]
      refine ⟨hr, kInv_iff.2 fun m hm => ?_, M.pinv, M.af⟩
      by_cases em : m = ob.node
      · rw [em]; exact M.kn _ hw
      · exact M.kn m (by rw [← M.nec m em]; exact hm)
    | false =>
      rw [hw] at hbody
      simp only [Bool.not_false, if_true] at hbody
      obtain ⟨_, t5, h5, hbody⟩ := bind_ok_inv hbody
      obtain ⟨hr, e⟩ := pure_ok_inv hbody
      rw [e]
      obtain ⟨K5, G5, -⟩ := PR.becameNecessaryPropagate_keepsK' M.ck M.inh M.pinv
        (fun m hm hn => M.kn m (by rw [← M.nec m hm]; exact hn)) h5
      exact ⟨hr, K5, G5.pinv.trans M.pinv, M.af.trans (AF.of_grk G5)⟩

theorem PR.AI.step {env : Env} {g : Nat → Option Val} {rk : Nat → Nat} {fuel o : Nat} {t t' : State}
    {r : ForInStep PUnit} (I : PR.AI env g rk t) (hbody : (PR.addBody env fuel o).run.run t = (.ok r, t')) :
    PR.AI env g rk t' := by
  obtain ⟨-, k, p, a⟩ := PR.addBody_keeps I hbody
  exact ⟨a.ck I.ck, I.inh.of_vframe a.vf, p, k⟩

/-- (4), from `CK`, with the frame -/
theorem addNewObservers_keepsK' {env : Env} {g : Nat → Option Val} {rk : Nat → Nat} {fuel : Nat} {s s' : State}
    (F : CK rk s) (T : Inherit env g s) (hp : s.propagateInvalidity = []) (K : KInv env g s)
    (h : (addNewObservers env fuel).run.run s = (.ok (), s')) :
    KInv env g s' ∧ s'.propagateInvalidity = [] ∧ AF s s' := by
  rw [addNewObservers_eq] at h
  rw [run_bind_get] at h
  obtain ⟨s0, hs0, h⟩ := bind_modify_inv h
  obtain ⟨u, s1, hloop, h⟩ := bind_ok_inv h
  obtain ⟨-, e⟩ := pure_ok_inv h
  rw [e]
  have hn0 : s0.nodes = s.nodes := by rw [hs0]
  have hp0 : s0.propagateInvalidity = [] := by rw [hs0]; exact hp
  have a0 : AF s s0 := AF.of_nodes hn0 (by rw [hs0]) (by rw [hs0])
  have hnd0 : ∀ m, s0.nodeD m = s.nodeD m := fun m => by simp [State.nodeD, hn0]
  have K0 : KInv env g s0 := kInv_iff.2 fun m hm =>
    (kInv_iff.1 K m (by rw [State.isNecessary, ← hnd0]; exact hm)).mono a0.vf a0.fm
  exact forIn_ok_inv _ s.newObservers
    (fun (_ : Nat) (_ : PUnit) t => KInv env g t ∧ t.propagateInvalidity = [] ∧ AF s t)
    (by
      intro j o b t r t' hj ⟨Kt, hpt, at_⟩ hbody
      obtain ⟨hr, k, p, a⟩ := PR.addBody_keeps ⟨at_.ck F, T.of_vframe at_.vf, hpt, Kt⟩ hbody
      exact ⟨_, hr, k, p, at_.trans a⟩)
    s.newObservers 0 PUnit.unit s0 u s1 (by simp) (Nat.zero_le _)
    ⟨K0, hp0, a0⟩ hloop

/-- **(4)** `add_new_observers` -/
theorem addNewObservers_keepsK {env : Env} {sp : Nat → Val → Val} {g : Nat → Option Val} {rk : Nat → Nat} {fuel : Nat}
    {s s' : State} (C : CFrag env sp g rk s) (T : Inherit env g s) (hp : s.propagateInvalidity = [])
    (K : KInv env g s) (h : (addNewObservers env fuel).run.run s = (.ok (), s')) :
    KInv env g s' ∧ s'.propagateInvalidity = [] ∧ MapRefH.FM s s' ∧ MapRefH.VFrame s s' := by
  obtain ⟨h1, h2, h3⟩ := addNewObservers_keepsK' C.toCK T hp K h
  exact ⟨h1, h2, h3.fm, h3.vf⟩

end IncrVerif.Proofs.FullH
