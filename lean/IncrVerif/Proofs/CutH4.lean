import IncrVerif.Proofs.CutH2
import IncrVerif.Proofs.CutH3
-- Port of Proofs/Sched5.lean to ARBITRARY cutoffs (scratch name S5); overview in Props/C06History.lean
/-!
# C06 for whole histories, part 4: the drain with ANY cutoff: one pop (L2), the direct-recompute chain, the loop (L3)

Port of `Proofs/Sched5.lean`; `Sched.Frame` is re-used.
-/
namespace IncrVerif.Proofs.CutH
open IncrVerif.Engine IncrVerif.Proofs IncrVerif.Proofs.Step IncrVerif.Proofs.Sched

/-! ## taking the minimum out of the heap -/

/-- **pop.** Between two pops the invariant holds without a current node; `remove_min` returning `n`
makes `n` the current node. -/
theorem pop_inv {env : Env} {e : Bool} {s s1 : State} {n : Nat} (I : Inv env e s none)
    (hr : rchRemoveMin.run.run s = (.ok (some n), s1)) : Inv env e s1 (some n) ∧ Frame s s1 := by
  obtain ⟨hq, hmin, hheap, hs1, hqs⟩ := rchRemoveMin_inv I.heap hr
  have g := I.graph
  have hnd : ∀ m, s1.nodeD m =
      if n = m ∧ m < s.nodes.size then { s.nodeD m with heightInRch := -1 } else s.nodeD m := by
    intro m; rw [hs1]; exact nodeD_modify s n m _
  have hsh : ∀ m, SameShape (s.nodeD m) (s1.nodeD m) := by
    intro m; rw [hnd]; split
    · exact ⟨rfl, rfl, rfl, rfl, rfl, rfl, rfl, rfl⟩
    · exact SameShape.refl _
  have hrec : ∀ m, (s1.nodeD m).recomputedAt = (s.nodeD m).recomputedAt := by
    intro m; rw [hnd]; split <;> rfl
  have hchg : ∀ m, (s1.nodeD m).changedAt = (s.nodeD m).changedAt := by
    intro m; rw [hnd]; split <;> rfl
  have hval : ∀ m, (s1.nodeD m).value = (s.nodeD m).value := by
    intro m; rw [hnd]; split <;> rfl
  have hq1 : ∀ m, m ≠ n → (s1.nodeD m).inRch = (s.nodeD m).inRch := by
    intro m hm; rw [hnd, if_neg (fun h => hm h.1.symm)]
  have hqn : (s1.nodeD n).inRch = false := by
    have hlt : n < s.nodes.size := by
      by_cases h : n < s.nodes.size
      · exact h
      · rw [nodeD_default_of_ge s n (by omega)] at hq; cases hq
    rw [hnd, if_pos ⟨rfl, hlt⟩]; rfl
  have hvars : s1.vars = s.vars := by rw [hs1]
  have hstab : s1.stabNum = s.stabNum := by rw [hs1]
  have hpc : s1.panicCountdown = none := by rw [hs1]; exact g.pc
  have hsz : s1.nodes.size = s.nodes.size := by rw [hs1]; simp
  have hnec : ∀ m, s1.isNecessary m = s.isNecessary m := isNecessary_of_shape hsh
  have g1 : Graph env s1 := g.transfer hsz hsh hvars hpc
  have hstale : ∀ m, staleOf s1 m = staleOf s m := fun m =>
    staleOf_congr (hsh m).kind (hrec m) hvars (fun c _ => hchg c)
  refine ⟨⟨g1, hheap, ⟨by rw [hstab]; exact I.stamps.now, ?_, ?_⟩, ?_, ?_, ?_, ?_, ?_, ?_⟩,
    ⟨hsz, hvars, hstab, hsh, fun m h => by rw [hrec]; exact h, hqs⟩⟩
  · intro m; rw [hstab, hrec, hchg]; exact I.stamps.node m
  · intro c vc h; rw [hstab]; rw [hvars] at h; exact I.stamps.var c vc h
  · intro m hm hst
    have hm' := hm; rw [hnec] at hm'
    rw [g1.isStale hm, hstale, ← g.isStale hm'] at hst
    by_cases hmn : m = n
    · exact Or.inr (by rw [hmn])
    · rcases I.pending m hm' hst with h | h
      · exact Or.inl (by rw [hq1 m hmn]; exact h)
      · cases h
  · intro m hm hst
    have hm' := hm; rw [hnec] at hm'
    rw [g1.isStale hm, hstale, ← g.isStale hm'] at hst
    obtain ⟨w, hv, hw⟩ := I.cons m hm' hst
    exact ⟨w, by rw [hval]; exact hv, fun he => Target.congr (hsh m).kind hvars (fun c _ => hval c) (hw he)⟩
  · intro he m
    rw [(hsh m).cutoff]; exact I.exact he m
  · intro d hd a ha
    rw [Anc.transfer_iff hsh] at ha
    rw [hstab, hrec]
    refine I.fresh d (Or.inl ?_) a ha
    rcases hd with h | h
    · by_cases hdn : d = n
      · subst hdn; exact hq
      · rw [← hq1 d hdn]; exact h
    · cases h; exact hq
  · intro m hm
    cases hm
    refine ⟨by rw [hnec]; exact I.heap.nec n hq, ?_⟩
    intro d hd
    rw [Anc.transfer_iff hsh] at hd
    by_cases hdn : n = d
    · subst hdn; exact hqn
    · rw [hq1 d (fun e => hdn e.symm)]
      cases hqd : (s.nodeD d).inRch with
      | false => rfl
      | true =>
        exfalso
        have h1 := hmin d hqd
        have h2 := hd.height_lt g hdn
        omega
  · intro m hm
    have hqm : (s.nodeD m).inRch = true := by
      rcases hm with h | h
      · by_cases hmn : m = n
        · subst hmn; exact hq
        · rw [← hq1 m hmn]; exact h
      · cases h; exact hq
    have hmn := I.heap.nec m hqm
    rw [g1.isStale (by rw [hnec]; exact hmn), hstale, ← g.isStale hmn]
    exact I.qstale m (Or.inl hqm)

/-! ## one recompute (L2) -/

/-- the children of the current node all carry a value -/
theorem Inv.kids_values {env : Env} {e : Bool} {s : State} {n : Nat} (I : Inv env e s (some n)) :
    ∃ vals, plainVals s (kids (s.nodeD n).kind) = some vals := by
  have g := I.graph
  obtain ⟨hn, hbelow⟩ := I.cur n rfl
  apply evalArgs_isSome
  intro c hc
  obtain ⟨hcn, hlt⟩ := g.kids_nec hn hc
  have hanc : Anc s n c := Anc.step hn hc (Anc.refl c)
  have hnst : s.isStale c = false := by
    cases hst : s.isStale c with
    | false => rfl
    | true =>
      rcases I.pending c hcn hst with h | h
      · rw [hbelow c hanc] at h; cases h
      · cases h; omega
  obtain ⟨w, hw, _⟩ := I.cons c hcn hnst
  exact ⟨w, hw⟩

/-- the current node has not been recomputed in this round (so: no node runs twice in one round) -/
theorem Inv.cur_not_yet {env : Env} {e : Bool} {s : State} {n : Nat} (I : Inv env e s (some n)) :
    (s.nodeD n).recomputedAt < s.stabNum := I.fresh n (Or.inr rfl) n (Anc.refl n)

/-- **L2, one `recomputeOne`, with the step relation.** -/
theorem recomputeOne_step {env : Env} {e : Bool} {fuel n : Nat} {s s' : State} {r : Option Nat}
    (I : Inv env e s (some n)) (h : (recomputeOne env fuel n).run.run s = (.ok r, s')) :
    ∃ v ch, Target env s n v ∧ StepRel env n v ch r s s' ∧ Inv env e s' r := by
  obtain ⟨v, ch, ht, R⟩ := recomputeOne_static I.graph I.heap (I.cur n rfl).1 I.kids_values h
  exact ⟨v, ch, ht, R, step_inv I ht R⟩

theorem StepRel.frame {env : Env} {n : Nat} {v : Val} {ch : Bool} {r : Option Nat} {s s' : State}
    (R : StepRel env n v ch r s s') : Frame s s' := by
  refine ⟨R.size, R.vars, R.stabNum, R.shapes, ?_, R.qsize⟩
  intro m hm
  by_cases hmn : m = n
  · subst hmn; exact R.recomputedAt
  · rw [(R.other m hmn).recomputedAt]; exact hm

/-- **L2, one `recomputeOne`.** From the invariant with current node `n`, a successful
`recomputeOne env fuel n` re-establishes the invariant — without a current node if it returns `none`,
with current node `p` if it hands the parent `p` over for direct recomputation. -/
theorem recomputeOne_inv {env : Env} {e : Bool} {fuel n : Nat} {s s' : State} {r : Option Nat}
    (I : Inv env e s (some n)) (h : (recomputeOne env fuel n).run.run s = (.ok r, s')) :
    Inv env e s' r ∧ Frame s s' ∧ (s'.nodeD n).recomputedAt = s.stabNum := by
  obtain ⟨v, ch, ht, R⟩ := recomputeOne_static I.graph I.heap (I.cur n rfl).1 I.kids_values h
  refine ⟨step_inv I ht R, ⟨R.size, R.vars, R.stabNum, R.shapes, ?_, R.qsize⟩, R.recomputedAt⟩
  intro m hm
  by_cases hmn : m = n
  · subst hmn; exact R.recomputedAt
  · rw [(R.other m hmn).recomputedAt]; exact hm

/-- **L2, the direct-recompute chain.** -/
theorem recompute_inv {env : Env} {e : Bool} : ∀ (fuel n : Nat) (s s' : State), Inv env e s (some n) →
    (recompute env fuel n).run.run s = (.ok (), s') →
    Inv env e s' none ∧ Frame s s' := by
  intro fuel
  induction fuel with
  | zero => intro n s s' _ h; unfold recompute at h; cases h
  | succ fuel ih =>
    intro n s s' I h
    unfold recompute at h
    obtain ⟨r, s1, h1, h2⟩ := bind_ok_inv h
    obtain ⟨I1, f1, -⟩ := recomputeOne_inv I h1
    cases r with
    | none =>
      obtain ⟨-, rfl⟩ := pure_ok_inv h2
      exact ⟨I1, f1⟩
    | some p =>
      obtain ⟨I2, f2⟩ := ih p s1 s' I1 h2
      exact ⟨I2, f1.trans f2⟩

/-- **L2, one pop of `drainHeap`.** -/
theorem pop_recompute_inv {env : Env} {e : Bool} {fuel n : Nat} {s s1 s' : State} (I : DrainInv env e s)
    (hpop : rchRemoveMin.run.run s = (.ok (some n), s1))
    (hrec : (recompute env fuel n).run.run s1 = (.ok (), s')) :
    DrainInv env e s' ∧ Frame s s' := by
  obtain ⟨I1, f1⟩ := pop_inv I hpop
  obtain ⟨I2, f2⟩ := recompute_inv fuel n s1 s' I1 hrec
  exact ⟨I2, f1.trans f2⟩

/-! ## the loop (L3) -/

/-- **L3.** `drainHeap` keeps the drain invariant and ends with an empty heap; variables and the round
number are untouched. -/
theorem drainHeap_inv {env : Env} {e : Bool} : ∀ (fuel : Nat) (s s' : State), DrainInv env e s →
    (drainHeap env fuel).run.run s = (.ok (), s') →
    DrainInv env e s' ∧ s'.rch.length = 0 ∧ Frame s s' := by
  intro fuel
  induction fuel with
  | zero => intro s s' _ h; unfold drainHeap at h; cases h
  | succ fuel ih =>
    intro s s' I h
    unfold drainHeap at h
    obtain ⟨r, s1, h1, h2⟩ := bind_ok_inv h
    cases r with
    | none =>
      obtain ⟨-, rfl⟩ := pure_ok_inv h2
      obtain ⟨rfl, he⟩ := rchRemoveMin_inv I.heap h1
      exact ⟨I, he, Frame.refl _⟩
    | some n =>
      obtain ⟨u, s2, h3, h4⟩ := bind_ok_inv h2
      obtain ⟨I2, f2⟩ := pop_recompute_inv I h1 h3
      obtain ⟨I3, he, f3⟩ := ih s2 s' I2 h4
      exact ⟨I3, he, f2.trans f3⟩

/-- **L3 + L1.** After a successful `drainHeap` from a state satisfying the drain invariant, every
necessary node (the necessary nodes of `s'` are those of `s`) is valid, not stale, and carries the
from-scratch value of its defining expression — evaluated in the graph and on the variable values of
the INITIAL state `s`, which are those of `s'`. -/
theorem drainHeap_values {env : Env} {fuel : Nat} {s s' : State} (I : DrainInv env true s)
    (h : (drainHeap env fuel).run.run s = (.ok (), s')) (n : Nat) (hn : s.isNecessary n = true)
    (k : Nat) (hk : (s.nodeD n).height.toNat < k) :
    s'.vars = s.vars ∧ s'.isNecessary n = true ∧ (s'.nodeD n).valid = true ∧ s'.isStale n = false ∧
      (s'.nodeD n).value = eval env s k n ∧ s'.value env n = eval env s k n ∧
      (eval env s k n).isSome = true := by
  obtain ⟨I', he, f⟩ := drainHeap_inv fuel s s' I h
  have hn' : s'.isNecessary n = true := by rw [f.nec]; exact hn
  have := drained_values I' he n hn' k (by rw [(f.shape n).height]; exact hk)
  rw [f.eval] at this
  exact ⟨f.vars, hn', this⟩

end IncrVerif.Proofs.CutH
