import IncrVerif.Proofs.PerKeyH46
/-!
# Per-key operators, API actions part 2: the kind frame `KF` and the transfer of the bookkeeping invariant

`KF s s'`: nodes are only appended, old nodes keep their kind, old expert records keep `xCore`
(`f`, `node`, `children`, `pk`, `forceStale`), old names keep their node, old nodes keep their children.
* `KF.below`, `KF.inst`, `EntryOK.of_frame`, **`OpOK.of_frame`** (the `input` clause of the new state is a hypothesis),
  `RecsOK.of_frame`, `Pot.of_frame` (same size, same names), **`PKOK.of_frame`**.
* `isStale_map_congr`: staleness of a `map` node reads its own validity/stamp and the change stamps of its children.
-/
namespace IncrVerif.Proofs.PerKeyH
open IncrVerif.Engine IncrVerif.Driver IncrVerif.Proofs IncrVerif.Proofs.Step IncrVerif.Proofs.Sched
open IncrVerif.Proofs.ExpertH IncrVerif.Proofs.EffH IncrVerif.Proofs.DriverH

structure KF (s s' : State) : Prop where
  grow : s.nodes.size ≤ s'.nodes.size
  kind : ∀ m, m < s.nodes.size → (s'.nodeD m).kind = (s.nodeD m).kind
  xrec : ∀ (e : Nat) (er : ExpertRec), s.experts[e]? = some er →
    ∃ er', s'.experts[e]? = some er' ∧ xCore er' = xCore er
  top : ∀ (k n : Nat), s.top[k]? = some n → s'.top[k]? = some n
  /-- old nodes keep their children (an old expert node has a record) -/
  kids : ∀ m, m < s.nodes.size → kidsX s'.experts (s'.nodeD m).kind = kidsX s.experts (s.nodeD m).kind
  /-- old expert nodes whose virtual stamp is `-1` keep it (no expert node runs) -/
  stamp : ∀ m e, m < s.nodes.size → (s.nodeD m).kind = .expert e → ((V s).nodeD m).recomputedAt = -1 →
    ((V s').nodeD m).recomputedAt = -1

theorem xCore_inj {a b : ExpertRec} (h : xCore a = xCore b) :
    a.f = b.f ∧ a.node = b.node ∧ a.children = b.children ∧ a.pk = b.pk ∧ a.forceStale = b.forceStale := by
  simp only [xCore, Prod.mk.injEq] at h; exact h

theorem KF.refl (s : State) : KF s s :=
  ⟨Nat.le_refl _, fun _ _ => rfl, fun _ er h => ⟨er, h, rfl⟩, fun _ _ h => h, fun _ _ => rfl, fun _ _ _ _ h => h⟩

theorem KF.trans {a b c : State} (h1 : KF a b) (h2 : KF b c) : KF a c := by
  refine ⟨Nat.le_trans h1.grow h2.grow, fun m hm => ?_, fun e er he => ?_, fun k n h => h2.top k n (h1.top k n h),
    fun m hm => by rw [h2.kids m (Nat.lt_of_lt_of_le hm h1.grow), h1.kids m hm],
    fun m e hm hk hs => h2.stamp m e (Nat.lt_of_lt_of_le hm h1.grow) ((h1.kind m hm).trans hk) (h1.stamp m e hm hk hs)⟩
  · rw [h2.kind m (Nat.lt_of_lt_of_le hm h1.grow), h1.kind m hm]
  · obtain ⟨er1, he1, c1⟩ := h1.xrec e er he
    obtain ⟨er2, he2, c2⟩ := h2.xrec e er1 he1
    exact ⟨er2, he2, c2.trans c1⟩

theorem AF.kf {s s' : State} (F : AF s s') : KF s s' :=
  ⟨Nat.le_of_eq F.size.symm, fun m _ => F.kind m, fun e er he => ⟨er, by rw [F.experts]; exact he, rfl⟩,
    fun k n h => by rw [F.top]; exact h, fun m _ => by rw [F.kind, F.experts],
    fun m e _ hk hs => V_stamp_keep hk (F.kind m) (by
      have := F.node m
      simp only [aKey, Prod.mk.injEq] at this
      exact this.2.2.2.2.2.1) (by rw [F.experts]; exact id) hs⟩

theorem nodeD_default_ge (s : State) (m : Nat) (h : s.nodes.size ≤ m) : s.nodeD m = default := by
  simp only [State.nodeD]
  rw [Array.getElem?_eq_none h]; rfl

theorem kidsX_default (xs : Array ExpertRec) : kidsX xs (default : Node).kind = [] := rfl

/-- children of an old node are still its children -/
theorem KF.kidsX_sub {s s' : State} (F : KF s s') {a b : Nat}
    (h : b ∈ kidsX s.experts (s.nodeD a).kind) : b ∈ kidsX s'.experts (s'.nodeD a).kind := by
  by_cases ha : a < s.nodes.size
  · rw [F.kids a ha]; exact h
  · rw [nodeD_default_ge s a (by omega)] at h
    simp [kidsX_default] at h

theorem KF.below {s s' : State} (F : KF s s') {a b : Nat} (h : Below s a b) : Below s' a b := by
  induction h with
  | refl a => exact .refl a
  | step h1 _ ih => exact .step (F.kidsX_sub h1) ih

/-! ## templates -/

theorem resP_mono {top top' : Array Nat} (h : ∀ (k n : Nat), top[k]? = some n → top'[k]? = some n) (loc : List Nat)
    {o : Opnd} {n : Nat} (hr : resP top loc o = some n) : resP top' loc o = some n := by
  cases o <;> first | exact h _ _ hr | exact hr

theorem mapM_resP_mono {top top' : Array Nat} (h : ∀ (k n : Nat), top[k]? = some n → top'[k]? = some n)
    (loc : List Nat) : ∀ (args : List Opnd) (l : List Nat), args.mapM (resP top loc) = some l →
      args.mapM (resP top' loc) = some l := by
  intro args
  induction args with
  | nil => intro l hl; simpa using hl
  | cons a as ih =>
    intro l hl
    simp only [List.mapM_cons, Option.pure_def, Option.bind_eq_bind] at hl ⊢
    cases ha : resP top loc a with
    | none => rw [ha] at hl; simp at hl
    | some n =>
      rw [ha] at hl
      rw [resP_mono h loc ha]
      cases has : as.mapM (resP top loc) with
      | none => rw [has] at hl; simp at hl
      | some l' =>
        rw [has] at hl
        rw [ih l' has]
        exact hl

theorem instrKind_mono {top top' : Array Nat} (h : ∀ (k n : Nat), top[k]? = some n → top'[k]? = some n)
    (loc : List Nat) (v : Val) {i : Instr} {kd : Kind} (hk : instrKind top loc v i = some kd) :
    instrKind top' loc v i = some kd := by
  cases i <;> try exact hk
  case map f args =>
    simp only [instrKind, Option.map_eq_some_iff] at hk ⊢
    obtain ⟨l, hl, e⟩ := hk
    exact ⟨l, mapM_resP_mono h loc args l hl, e⟩
  case fold f init cs =>
    simp only [instrKind] at hk ⊢
    split at hk
    · cases hk
    · rename_i hne
      rw [if_neg hne]
      simp only [Option.map_eq_some_iff] at hk ⊢
      obtain ⟨l, hl, e⟩ := hk
      exact ⟨l, mapM_resP_mono h loc cs l hl, e⟩

theorem KF.inst {s s' : State} (F : KF s s') {t : Template} {key : Int} {p : Nat} {locs : List Nat} {m : Nat}
    (I : Inst s t key p locs m) : Inst s' t key p locs m := by
  refine ⟨I.len, fun c hc => Nat.lt_of_lt_of_le (I.lt c hc) F.grow, fun j i c hi hc => ?_, resP_mono F.top _ I.ret⟩
  have hlt : c < s.nodes.size := I.lt c (List.mem_of_getElem? hc)
  rw [F.kind c hlt]
  exact instrKind_mono F.top _ _ (I.kind j i c hi hc)

/-! ## the bookkeeping of one operator -/

theorem OpNodes.of_frame {s s' : State} (F : KF s s') {op : Nat} {pr : PerKeyRec} {x e : Nat}
    (N : OpNodes s op pr x e) : OpNodes s' op pr x e := by
  have h0 := N.lt
  have hx := N.xlt
  refine ⟨N.pos, N.lc, Nat.lt_of_lt_of_le N.lt F.grow, ?_, N.xlt, ?_, ?_, ?_, ?_⟩
  · rw [F.kind _ (by omega)]; exact N.conv
  · rw [F.kind _ (by omega)]; exact N.xvar
  · rw [F.kind _ (by omega)]; exact N.result
  · rw [F.kind _ (by omega)]; exact N.lcKind
  · rw [F.kind _ (by omega)]; exact N.out

theorem EntryOK.of_frame {env : Env} {s s' : State} (F : KF s s') {op : Nat} {pr : PerKeyRec} {er er' : ExpertRec}
    (hc : er'.children = er.children) {key : Int} {p d : Nat} (E : EntryOK env s op pr er key p d) :
    EntryOK env s' op pr er' key p d := by
  refine ⟨Nat.lt_of_lt_of_le E.plt F.grow, ?_, ?_, ?_, ?_⟩
  · obtain ⟨ep, erp, d0, hk, he, hpk, hch⟩ := E.pnode
    obtain ⟨erp', he', hcore⟩ := F.xrec ep erp he
    have := xCore_inj hcore
    exact ⟨ep, erp', d0, by rw [F.kind p E.plt]; exact hk, he', by rw [this.2.2.2.1]; exact hpk,
      by rw [this.2.2.1]; exact hch⟩
  · obtain ⟨ed, locs, hed, hd, hcb, hI, h1, h2⟩ := E.edge
    exact ⟨ed, locs, by rw [hc]; exact hed, hd, hcb, F.inst hI, h1, h2⟩
  · rcases E.input with ⟨ed, hed, hd, hb⟩ | h0
    · exact Or.inl ⟨ed, by rw [hc]; exact hed, hd, F.below hb⟩
    · obtain ⟨ep, erp, d0, hk, -⟩ := E.pnode
      exact Or.inr (F.stamp p ep E.plt hk h0)
  · obtain ⟨ed, hed, hd, hI, hlt⟩ := E.consec
    exact ⟨ed, by rw [hc]; exact hed, hd, F.inst hI, Nat.lt_of_lt_of_le hlt F.grow⟩

/-- a private node exists -/
theorem priv_lt {env : Env} {s : State} {op : Nat} {pr : PerKeyRec} (h : OpOK env s op pr) {x : Nat}
    (hx : Priv env pr x) : x < s.nodes.size := by
  obtain ⟨x0, e, er, hN, he, hpk, hch, hent, hout⟩ := h.nodes
  rcases hx with rfl | ⟨key, p, d, hm, h1, h2⟩
  · have := hN.lt; have := hN.lc; omega
  · obtain ⟨ed, -, -, -, hlt⟩ := (hent key p d hm).consec
    omega

/-- **the bookkeeping of an operator along a kind frame**; the semantic link of the new state is a hypothesis -/
theorem OpOK.of_frame {env : Env} {s s' : State} (F : KF s s') {op : Nat} {pr : PerKeyRec} (h : OpOK env s op pr)
    (hnew : ∀ c x, s.nodes.size ≤ c → c < s'.nodes.size → x ∈ kidsX s'.experts (s'.nodeD c).kind → ¬ Priv env pr x)
    (hobs : ∀ x, x < s.nodes.size → (s.nodeD x).observers = [] → (s'.nodeD x).observers = [])
    (htop : ∀ (k x : Nat), s'.top[k]? = some x → s.top[k]? = some x ∨ ¬ Priv env pr x)
    (input : s'.isStale pr.lhsChange = false → (s'.nodeD (pr.result - 1)).value = some (.map pr.prevMap)) :
    OpOK env s' op pr := by
  refine ⟨h.cut, fun c x hc hx hp => ?_, fun x hp => hobs x (priv_lt h hp) (h.noObs x hp), fun k x hk hp => ?_,
    h.templ, ?_, h.keys, h.deps, h.sorted, h.dom, input⟩
  · by_cases hlt : c < s.nodes.size
    · rw [F.kids c hlt] at hx; exact h.own c x hlt hx hp
    · exact absurd hp (hnew c x (by omega) hc hx)
  · rcases htop k x hk with h1 | h1
    · exact h.privTop k x h1 hp
    · exact h1 hp
  obtain ⟨x, e, er, hN, he, hpk, hch, hent, hout⟩ := h.nodes
  obtain ⟨er', he', hcore⟩ := F.xrec e er he
  have hc := xCore_inj hcore
  refine ⟨x, e, er', hN.of_frame F, he', by rw [hc.2.2.2.1]; exact hpk, by rw [hc.2.2.1]; exact hch,
    fun key p d hm => (hent key p d hm).of_frame F hc.2.2.1, fun k hk => ?_⟩
  obtain ⟨o, ho, hlt⟩ := hout k hk
  exact ⟨o, F.top k o ho, hlt⟩

theorem RecsOK.of_frame {s s' : State} (R : RecsOK s) (hp : s'.perkeys = s.perkeys)
    (hx : ∀ (e : Nat) (er' : ExpertRec), s'.experts[e]? = some er' →
      ∃ er, s.experts[e]? = some er ∧ er'.pk = er.pk ∧ er'.node = er.node) : RecsOK s' := by
  intro e er' he'
  obtain ⟨er, he, hpk, hnode⟩ := hx e er' he'
  obtain ⟨op, pr, hpr, h⟩ := R e er he
  refine ⟨op, pr, by rw [hp]; exact hpr, ?_⟩
  rw [hpk, hnode]; exact h

/-- the potential along a frame that creates nothing -/
theorem Pot.of_frame {s s' : State} {ψ : Nat → Nat} (P : Pot s ψ) (hsz : s'.nodes.size = s.nodes.size)
    (hk : ∀ m, (s'.nodeD m).kind = (s.nodeD m).kind)
    (hx : ∀ e : Nat, (xRec s'.experts e).children = (xRec s.experts e).children)
    (htop : s'.top = s.top) (hp : s'.perkeys = s.perkeys) : Pot s' ψ := by
  have hkids : ∀ n, kidsX s'.experts (s'.nodeD n).kind = kidsX s.experts (s.nodeD n).kind := by
    intro n
    rw [hk n]
    cases (s.nodeD n).kind <;> simp only [kidsX]
    rw [hx]
  refine ⟨fun n c hn hc => ?_, fun k n h => ?_, fun op pr h => ?_, fun n hn => ?_⟩
  · rw [hkids] at hc; exact P.mono n c (by omega) hc
  · rw [htop] at h; exact P.top k n h
  · rw [hp] at h; exact P.op op pr h
  · exact P.le n (by omega)

/-! ## staleness of a `map` node -/

theorem any_congr_mem {l : List Nat} {p q : Nat → Bool} (h : ∀ c, c ∈ l → p c = q c) : l.any p = l.any q := by
  induction l with
  | nil => rfl
  | cons a l ih =>
    simp only [List.any_cons]
    rw [h a (List.mem_cons_self ..), ih fun c hc => h c (List.mem_cons_of_mem _ hc)]

theorem isStale_map_congr {s s' : State} {n f : Nat} {args : List Nat} (hk : (s.nodeD n).kind = .map f args)
    (hk' : (s'.nodeD n).kind = .map f args) (hv : (s'.nodeD n).valid = (s.nodeD n).valid)
    (hr : (s'.nodeD n).recomputedAt = (s.nodeD n).recomputedAt)
    (hc : ∀ c, c ∈ args → (s'.nodeD c).changedAt = (s.nodeD c).changedAt) : s'.isStale n = s.isStale n := by
  unfold State.isStale State.children Node.kind?
  simp only [hk, hk', hv, hr]
  cases (s.nodeD n).valid with
  | false => rfl
  | true =>
    simp only [if_true]
    congr 1
    exact any_congr_mem fun c hc' => by rw [hc c hc']

end IncrVerif.Proofs.PerKeyH
