import IncrVerif.Proofs.BindH94
import IncrVerif.Proofs.BindH96
import IncrVerif.Proofs.BindH79
/-!
# Binds, part 4e: `stabilise` on programs with binds (fragment F1), all hypotheses discharged
-/
namespace IncrVerif.Proofs.BindH
open IncrVerif.Engine IncrVerif.Proofs IncrVerif.Proofs.Step IncrVerif.Proofs.Sched IncrVerif.Proofs.Quiet

/-- the scheduling hypothesis for the auxiliary invariant of a drain inside `stabilise` -/
theorem lcStepsOK_auxS_F1 (env : Env) (t : State) : LcStepsOK env (AuxS env t) :=
  lcStepsOK_auxS (lcStepsOK_F1 env) (fun _ _ _ _ _ I A h => recomputeOne_dkey I A h) (fun _ _ _ h => pop_dkey h) t

/-- **`stabilise` on a program with binds.**  From the invariant between API actions, a successful `stabilise` (with arbitrary pending new/disallowed observers) ends in the
invariant again; variables unchanged, round number + 1; every necessary node is valid, non-stale and reads (stored value and observer read) its from-scratch value `evalB` in the
final graph; the drain started from a state with the drain invariant, ran no node twice and no node of a generation that died in it. -/
theorem stabilise_F1 {env : Env} {fuel : Nat} {s s' : State} (Q : QInv1 env s)
    (h : (stabilise env fuel).run.run s = (.ok (), s')) : Stabilised1 env fuel s s' :=
  stabilise_q1 (lcStepsOK_auxS_F1 env) Q h

/-- after a `stabilise` every in-use observer reads the from-scratch value of its node, and every observer is in use or unlinked -/
theorem stabilise_reads_F1 {env : Env} {fuel : Nat} {s s' : State} (Q : QInv1 env s)
    (h : (stabilise env fuel).run.run s = (.ok (), s')) : ReadsOK1 env s' ∧ ObsSettled s' :=
  stabilised_reads1 (stabilise_F1 Q h)

end IncrVerif.Proofs.BindH
