import IncrVerif.Proofs.TidyH18
/-!
# T3a part 2: `run_all` and `stabilise_end` return (effect-free update handlers)
-/
namespace IncrVerif.Proofs.TidyH.SubsT
open IncrVerif.Engine IncrVerif.Driver IncrVerif.Proofs IncrVerif.Proofs.Step IncrVerif.Proofs.Sched
open IncrVerif.Proofs.Quiet

/-- what the "no panic" argument needs to know about the state while the update handlers run: the nodes and
the fault-injection counter are untouched, the observer records keep their state -/
structure RA (t t' : State) : Prop where
  nodes : t'.nodes = t.nodes
  pc : t'.panicCountdown = t.panicCountdown
  obs : ∀ (o : Nat) (ob : ObsRec), t.observers[o]? = some ob →
    ∃ ob', t'.observers[o]? = some ob' ∧ ob'.state = ob.state

theorem RA.refl (t : State) : RA t t := ⟨rfl, rfl, fun _ ob h => ⟨ob, h, rfl⟩⟩

theorem RA.trans {a b c : State} (h1 : RA a b) (h2 : RA b c) : RA a c := by
  refine ⟨h2.nodes.trans h1.nodes, h2.pc.trans h1.pc, fun o ob h => ?_⟩
  obtain ⟨ob1, e1, s1⟩ := h1.obs o ob h
  obtain ⟨ob2, e2, s2⟩ := h2.obs o ob1 e1
  exact ⟨ob2, e2, s2.trans s1⟩

theorem RA.value {env : Env} {t t' : State} (h : RA t t') (n : Nat) : t'.value env n = t.value env n :=
  Obs.value_congr_nodes env h.nodes n

/-- changing the handler list of one observer -/
theorem RA.modHandlers (t : State) (o : Nat) (g : List HandlerRec → List HandlerRec) :
    RA t { t with observers := t.observers.modify o fun x => { x with handlers := g x.handlers } } := by
  refine ⟨rfl, rfl, fun o' ob h => ?_⟩
  show ∃ ob', (t.observers.modify o _)[o']? = some ob' ∧ _
  rw [Array.getElem?_modify]
  by_cases e : o = o'
  · rw [if_pos e, h]; exact ⟨_, rfl, rfl⟩
  · rw [if_neg e]; exact ⟨ob, h, rfl⟩

theorem run_tick_ok {s : State} (hpc : s.panicCountdown = none) : (tick).run.run s = (.ok (), s) := by
  unfold tick
  rw [run_bind_get, hpc]; rfl

/-- **`run_all` returns**: effect-free handlers, the observer is in use or disallowed, the node reports
`changed` or `necessary` and has a value, no fault injection armed -/
theorem runAll_total {env : Env} {fuel o n : Nat} {nu : NodeUpdate} {now : Int} {s : State} {ob : ObsRec}
    (heff : SubsH.PureHandlers env) (hpc : s.panicCountdown = none)
    (hob : s.observers[o]? = some ob) (hst : ob.state = .inUse ∨ ob.state = .disallowed)
    (hnu : nu = .changed ∨ nu = .necessary) (hv : (s.value env n).isSome = true) :
    Tot (runAll env fuel o n nu now) s (fun _ s' => RA s s') := by
  unfold runAll
  refine P23.Tot.bind_getObs hob ?_
  dsimp only
  refine Tot.bind (P23.forIn_tot' _ ob.handlers (fun _ (_ : PUnit) t => RA s t) ?_ _ _ (RA.refl s))
    (fun _ _ _ h => Tot.pure h)
  intro j a b t hj Rt
  obtain ⟨obt, hobt, hstt⟩ := Rt.obs o ob hob
  obtain ⟨v, hvs⟩ := Option.isSome_iff_exists.1 hv
  have hvt : t.value env n = some v := (Rt.value n).trans hvs
  have hpct : t.panicCountdown = none := Rt.pc.trans hpc
  refine P23.Tot.bind_getObs hobt ?_
  rcases hst with hst | hst
  · rw [hstt, hst]
    dsimp only
    split
    · rcases SubsH.P8.handlerStep_cases (p := a.prev) hnu with hd | hd | hd
      · rw [hd]
        exact Tot.pure ⟨_, rfl, Rt⟩
      · rw [hd]
        dsimp only
        refine P23.Tot.bind_modObs ?_
        have R1 := RA.modHandlers t o (fun l => l.map fun h' =>
          if h'.token == a.token then { h' with prev := NodeUpdate.changed.toPrev } else h')
        have hv1 := (R1.value (env := env) n).trans hvt
        have hpc1 := R1.pc.trans hpct
        refine Tot.bind_ok (SubsH.P8.run_valueUnwrap hv1) ?_
        simp only [pure_bind]
        refine Tot.bind_ok (run_tick_ok hpc1) ?_
        rw [heff]
        refine Tot.bind_ok (run_logEv _ _) ?_
        refine Tot.bind_ok (SubsH.P8.run_runEffects_nil ..) ?_
        exact Tot.pure ⟨_, rfl, Rt.trans ⟨R1.nodes, R1.pc, R1.obs⟩⟩
      · rw [hd]
        dsimp only
        refine P23.Tot.bind_modObs ?_
        have R1 := RA.modHandlers t o (fun l => l.map fun h' =>
          if h'.token == a.token then { h' with prev := NodeUpdate.necessary.toPrev } else h')
        have hv1 := (R1.value (env := env) n).trans hvt
        have hpc1 := R1.pc.trans hpct
        refine Tot.bind_ok (SubsH.P8.run_valueUnwrap hv1) ?_
        simp only [pure_bind]
        refine Tot.bind_ok (run_tick_ok hpc1) ?_
        rw [heff]
        refine Tot.bind_ok (run_logEv _ _) ?_
        refine Tot.bind_ok (SubsH.P8.run_runEffects_nil ..) ?_
        exact Tot.pure ⟨_, rfl, Rt.trans ⟨R1.nodes, R1.pc, R1.obs⟩⟩
    · exact Tot.pure ⟨_, rfl, Rt⟩
  · rw [hstt, hst]
    dsimp only
    exact Tot.pure ⟨_, rfl, Rt⟩

/-- the third loop of `stabiliseEnd` (stated for any body that behaves like it), with the queue it builds -/
theorem loop3 {env : Env} {s : State}
    (f : Nat → List (Nat × NodeUpdate) → M (ForInStep (List (Nat × NodeUpdate))))
    (hf : ∀ n q t, (f n q).run.run t = (.ok (.yield (q ++ [(n, State.nodeUpdate env
        { t with nodes := t.nodes.modify n fun x => { x with inHandleAfterStab := false } } n)])),
      { t with nodes := t.nodes.modify n fun x => { x with inHandleAfterStab := false } }))
    (hs : List Nat) (hhs : ∀ n, n ∈ hs → n < s.nodes.size) :
    ∀ q t, Mid s t → (∀ p, p ∈ q → p.1 < s.nodes.size ∧ p.2 = SubsH.nuAt env s p.1) →
      ∃ q' t', (forIn hs q f).run.run t = (.ok q', t') ∧ Mid s t' ∧
        (∀ p, p ∈ q' → p.1 < s.nodes.size ∧ p.2 = SubsH.nuAt env s p.1) := by
  induction hs with
  | nil => intro q t M hq; exact ⟨q, t, by rw [List.forIn_nil, run_pure], M, hq⟩
  | cons a l ih =>
    intro q t M hq
    have h1 := hf a q t
    have M1 := M.modNode a false
    have hnu := SubsH.P8.nodeUpdate_congr (env := env) M1.size M1.node M1.stabNum a
    have hq' : ∀ p, p ∈ q ++ [(a, State.nodeUpdate env
        { t with nodes := t.nodes.modify a fun x => { x with inHandleAfterStab := false } } a)] →
        p.1 < s.nodes.size ∧ p.2 = SubsH.nuAt env s p.1 := by
      intro p hp
      simp only [List.mem_append, List.mem_singleton] at hp
      rcases hp with hp | hp
      · exact hq p hp
      · rw [hp]; exact ⟨hhs a (List.mem_cons_self ..), hnu⟩
    obtain ⟨q2, t2, h2, M2, hq2⟩ := ih (fun n hn => hhs n (List.mem_cons_of_mem _ hn)) _ _ M1 hq'
    exact ⟨q2, t2, by rw [List.forIn_cons, run_bind_ok h1]; exact h2, M2, hq2⟩

/-- **`stabilise_end` returns** with effect-free update handlers.  `s` is the state after the drain: nothing
deferred, no observer waiting to be added or unlinked, every queued node exists, every necessary node is valid
and has a value, no fault injection armed. -/
theorem stabiliseEnd_total {env : Env} {fuel : Nat} {s : State} (heff : SubsH.PureHandlers env)
    (hpc : s.panicCountdown = none) (h1 : s.setDuringStab = []) (h2 : s.deadVars = [])
    (O : SubsH.ObsInv s [] []) (hhs : HasRange s)
    (hval : ∀ n, s.isNecessary n = true → (s.nodeD n).valid = true ∧ (s.value env n).isSome = true) :
    Tot (stabiliseEnd env fuel) s (fun _ _ => True) := by
  unfold stabiliseEnd
  refine Tot.bind_modify ?_
  refine Tot.bind_get ?_
  dsimp only
  refine Tot.bind_modify ?_
  rw [h1, List.forIn_nil]
  refine Tot.bind_ok (run_pure _ _) ?_
  refine Tot.bind_get ?_
  dsimp only
  refine Tot.bind_modify ?_
  rw [h2, List.forIn_nil]
  refine Tot.bind_ok (run_pure _ _) ?_
  refine Tot.bind_get ?_
  dsimp only
  refine Tot.bind_modify ?_
  refine Tot.bind (Q := fun q t => Mid s t ∧ ∀ p, p ∈ q → p.1 < s.nodes.size ∧ p.2 = SubsH.nuAt env s p.1) ?_ ?_
  · refine loop3 (env := env) (s := s) _ ?_ s.handleAfterStab hhs [] _ ?_ ?_
    · intro n q t
      rw [run_bind_modNode, run_bind_get, run_pure]
    · exact ⟨rfl, fun m => ⟨_, rfl⟩, rfl, rfl, rfl, rfl, rfl, rfl, rfl, rfl, rfl, rfl, rfl, rfl, rfl, rfl, rfl,
        rfl, rfl, rfl⟩
    · intro p hp; cases hp
  intro q t _ ⟨M, hq⟩
  refine Tot.bind_modify ?_
  refine Tot.bind_get ?_
  -- the state in which the handlers start to run
  obtain ⟨t8, ht8⟩ : ∃ t8 : State, t8 = { t with status := .runningOnUpdateHandlers } := ⟨_, rfl⟩
  rw [← ht8]
  have hnodes8 : t8.nodes = t.nodes := by rw [ht8]
  have hobs8 : t8.observers = s.observers := by rw [ht8]; exact M.observers
  have hpc8 : t8.panicCountdown = none := by rw [ht8]; exact M.pc.trans hpc
  have hnd8 : ∀ m, t8.nodeD m = t.nodeD m := fun m => by simp only [State.nodeD, hnodes8]
  have hv8 : ∀ n, t8.value env n = s.value env n := by
    intro n
    refine Step.value_congr env s t8 (by rw [hnodes8, M.size]) (fun m => ?_) n
    obtain ⟨b, hb⟩ := M.node m
    rw [hnd8, hb]; rfl
  refine Tot.bind (Q := fun _ tc => RA t8 tc) ?_ ?_
  · refine P23.forIn_tot' _ q (fun _ (_ : PUnit) tc => RA t8 tc) ?_ _ _ (RA.refl t8)
    intro j x b tc hj Rc
    obtain ⟨hxlt, hxnu⟩ := hq x (List.mem_of_getElem? hj)
    have hndc : ∀ m, tc.nodeD m = t.nodeD m := fun m => by simp only [State.nodeD, Rc.nodes, hnodes8]
    have hlt : x.1 < tc.nodes.size := by rw [Rc.nodes, hnodes8, M.size]; exact hxlt
    refine Tot.bind_getNode hlt ?_
    have hobsl : (tc.nodeD x.1).observers = (s.nodeD x.1).observers := by
      obtain ⟨bb, hbb⟩ := M.node x.1
      rw [hndc, hbb]
    rw [hobsl]
    refine Tot.bind (Q := fun _ td => RA t8 td) ?_ (fun _ td _ Rd => Tot.pure ⟨_, rfl, Rd⟩)
    refine P23.forIn_tot' _ (s.nodeD x.1).observers (fun _ (_ : PUnit) td => RA t8 td) ?_ _ _ Rc
    intro k o b2 td hk Rd
    have ho : o ∈ (s.nodeD x.1).observers := List.mem_of_getElem? hk
    obtain ⟨ob, hob, -, hst⟩ := (O.mem x.1 o).1 ho
    have hnec : s.isNecessary x.1 = true :=
      (isNecessary_iff s x.1).2 (Or.inr (Or.inl (List.ne_nil_of_mem ho)))
    obtain ⟨hvalid, hsome⟩ := hval x.1 hnec
    obtain ⟨obd, hobd, hstd⟩ := Rd.obs o ob (by rw [hobs8]; exact hob)
    have T := runAll_total (env := env) (fuel := fuel) (o := o) (n := x.1) (nu := x.2) (now := t8.stabNum)
      (s := td) heff (Rd.pc.trans hpc8) hobd (by rw [hstd]; exact hst)
      (by rw [hxnu]; exact SubsH.P8.nuAt_cases hvalid hnec)
      (by rw [Rd.value, hv8]; exact hsome)
    refine Tot.bind T (fun _ te _ Re => Tot.pure ⟨_, rfl, Rd.trans Re⟩)
  intro _ t9 _ _
  refine Tot.bind_modify ?_
  exact ⟨(), _, run_modify _ _, trivial⟩

end IncrVerif.Proofs.TidyH.SubsT
