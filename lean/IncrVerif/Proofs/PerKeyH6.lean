import IncrVerif.Proofs.PerKeyH2
/-!
# Per-key operators, kind-twins part 1: field lemmas of `V` and of the twin, the fragments, `Kin (virt (twL l s)) (V s)`
-/
namespace IncrVerif.Proofs.PerKeyH
open IncrVerif.Engine IncrVerif.Driver IncrVerif.Proofs IncrVerif.Proofs.Step IncrVerif.Proofs.Sched
open IncrVerif.Proofs.ExpertH IncrVerif.Proofs.EffH

/-! ## A. field lemmas of `V` -/

theorem vNode_default (s : State) : vNode s default = default := rfl

theorem V_nodeD (s : State) (m : Nat) : (V s).nodeD m = vNode s (s.nodeD m) := by
  unfold State.nodeD V
  simp only [Array.getElem?_map]
  cases h : s.nodes[m]? with
  | none => simp [vNode_default]
  | some nd => simp

theorem V_size (s : State) : (V s).nodes.size = s.nodes.size := by simp [V]

theorem V_getElem? (s : State) (m : Nat) : (V s).nodes[m]? = (s.nodes[m]?).map (vNode s) := by
  simp [V, Array.getElem?_map]

section fields
variable (s : State) (nd : Node)

theorem vNode_kind : (vNode s nd).kind = vKind s nd.kind := rfl
theorem vNode_valid : (vNode s nd).valid = nd.valid := rfl
theorem vNode_cutoff : (vNode s nd).cutoff = nd.cutoff := rfl
theorem vNode_createdIn : (vNode s nd).createdIn = nd.createdIn := rfl
theorem vNode_parents : (vNode s nd).parents = nd.parents := rfl
theorem vNode_observers : (vNode s nd).observers = nd.observers := rfl
theorem vNode_forceNecessary : (vNode s nd).forceNecessary = nd.forceNecessary := rfl
theorem vNode_height : (vNode s nd).height = nd.height := rfl
theorem vNode_heightInRch : (vNode s nd).heightInRch = nd.heightInRch := rfl
theorem vNode_heightInAhh : (vNode s nd).heightInAhh = nd.heightInAhh := rfl
theorem vNode_changedAt : (vNode s nd).changedAt = nd.changedAt := rfl
theorem vNode_value : (vNode s nd).value = nd.value := rfl
theorem vNode_num : (vNode s nd).numOnUpdateHandlers = nd.numOnUpdateHandlers := rfl
theorem vNode_inHas : (vNode s nd).inHandleAfterStab = nd.inHandleAfterStab := rfl
theorem vNode_oldState : (vNode s nd).oldState = nd.oldState := rfl
theorem vNode_didChange : (vNode s nd).didChange = nd.didChange := rfl
theorem vNode_isNecessary : (vNode s nd).isNecessary = nd.isNecessary := rfl
theorem vNode_inRch : (vNode s nd).inRch = nd.inRch := rfl
theorem vNode_recomputedAt :
    (vNode s nd).recomputedAt = if forced s.experts nd.kind then -1 else nd.recomputedAt := rfl

theorem vNode_recomputedAt_of_not_expert (h : ∀ e, nd.kind ≠ .expert e) :
    (vNode s nd).recomputedAt = nd.recomputedAt := by
  rw [vNode_recomputedAt]
  cases hk : nd.kind <;> simp [forced]
  exact absurd hk (h _)

/-- the three shapes of the virtual kind of an expert node -/
theorem vKind_expert (e : Nat) :
    ∃ F init, vKind s (.expert e) = .fold F init ((xRec s.experts e).children.map (·.child)) := by
  simp only [vKind]
  split
  · exact ⟨_, _, rfl⟩
  · exact ⟨_, _, rfl⟩
  · exact ⟨_, _, rfl⟩

theorem vKind_expert_none {e : Nat} (h : (xRec s.experts e).pk = none) :
    vKind s (.expert e) =
      .fold (xBase + (xRec s.experts e).f) (.int 0) ((xRec s.experts e).children.map (·.child)) := by
  simp only [vKind, h]

theorem vKind_expert_key {e op : Nat} {key : Int} (h : (xRec s.experts e).pk = some (op, some key)) :
    vKind s (.expert e) =
      .fold xConst (.int (((pkRec s op).prevMap.lookup key).getD 0))
        ((xRec s.experts e).children.map (·.child)) := by
  simp only [vKind, h]

theorem vKind_expert_res {e op : Nat} (h : (xRec s.experts e).pk = some (op, none)) :
    vKind s (.expert e) =
      .fold xAsm (asmInit (tagsOf (pkRec s op).prevNodes (xRec s.experts e).children))
        ((xRec s.experts e).children.map (·.child)) := by
  simp only [vKind, h]

theorem vKind_map (f : Nat) (args : List Nat) :
    vKind s (.map f args) = .map (if fnPerKey ≤ f then fLc else f) args := rfl
theorem vKind_const (v : Val) : vKind s (.const v) = .const v := rfl
theorem vKind_var (c : Nat) : vKind s (.var c) = .var c := rfl
theorem vKind_fold (f : Nat) (i : Val) (cs : List Nat) : vKind s (.fold f i cs) = .fold f i cs := rfl

theorem vKind_not_expert (k : Kind) (e : Nat) : vKind s k ≠ .expert e := by
  cases k <;> try (simp [vKind]; done)
  rename_i e'
  obtain ⟨F, i, h⟩ := vKind_expert s e'
  rw [h]; simp

theorem vKind_not_mapRef (k : Kind) (h : ∀ p i, k ≠ .mapRef p i) (p i : Nat) : vKind s k ≠ .mapRef p i := by
  cases k <;> try (simp [vKind]; done)
  · exact fun hh => h _ _ (by simp only [vKind] at hh; exact hh)
  · rename_i e'
    obtain ⟨F, i, h⟩ := vKind_expert s e'
    rw [h]; simp

theorem vNode_kind? : (vNode s nd).kind? = (nd.kind?).map (vKind s) := by
  simp only [Node.kind?, vNode_valid, vNode_kind]
  by_cases h : nd.valid = true <;> simp [h]

theorem kids_vKind (k : Kind) : kids (vKind s k) = kidsX s.experts k := by
  cases k <;> try rfl
  rename_i e
  obtain ⟨F, i, h⟩ := vKind_expert s e
  rw [h]; rfl

theorem vKind_eq_var (k : Kind) (c : Nat) : vKind s k = .var c ↔ k = .var c := by
  cases k <;> try (simp [vKind]; done)
  rename_i e
  obtain ⟨F, i, h⟩ := vKind_expert s e
  rw [h]; simp

theorem vKind_eq_const (k : Kind) (v : Val) : vKind s k = .const v ↔ k = .const v := by
  cases k <;> try (simp [vKind]; done)
  rename_i e
  obtain ⟨F, i, h⟩ := vKind_expert s e
  rw [h]; simp

end fields

/-! ### state-level readers of `V` -/

section
variable (s : State)

theorem V_isNecessary (m : Nat) : (V s).isNecessary m = s.isNecessary m := by
  simp [State.isNecessary, V_nodeD, vNode_isNecessary]

theorem V_vars : (V s).vars = s.vars := rfl
theorem V_binds : (V s).binds = s.binds := rfl
theorem V_rch : (V s).rch = s.rch := rfl
theorem V_ahh : (V s).ahh = s.ahh := rfl
theorem V_stabNum : (V s).stabNum = s.stabNum := rfl
theorem V_experts : (V s).experts = #[] := rfl
theorem V_log : (V s).log = s.log.filter keepEv := rfl
theorem V_pc : (V s).panicCountdown = s.panicCountdown := rfl
theorem V_scope : (V s).currentScope = s.currentScope := rfl
theorem V_pinv : (V s).propagateInvalidity = s.propagateInvalidity := rfl
theorem V_status : (V s).status = s.status := rfl
theorem V_observers : (V s).observers = s.observers := rfl
theorem V_perkeys : (V s).perkeys = s.perkeys := rfl

theorem V_inRch (m : Nat) : ((V s).nodeD m).inRch = (s.nodeD m).inRch := by
  rw [V_nodeD, vNode_inRch]

theorem V_kind (m : Nat) : ((V s).nodeD m).kind = vKind s (s.nodeD m).kind := by
  rw [V_nodeD, vNode_kind]

theorem V_kind? (m : Nat) : ((V s).nodeD m).kind? = ((s.nodeD m).kind?).map (vKind s) := by
  rw [V_nodeD, vNode_kind?]

theorem V_children (m : Nat) : (V s).children m = s.children m := by
  unfold State.children
  rw [V_kind?]
  cases h : (s.nodeD m).kind? with
  | none => rfl
  | some k =>
    cases k <;> try rfl
    rename_i e
    obtain ⟨F, i, hF⟩ := vKind_expert s e
    simp only [Option.map_some, hF]
    cases hx : s.experts[e]? with
    | none => simp [xRec_none hx]
    | some er => simp [xRec_some hx]

theorem V_isStale (m : Nat) : (V s).isStale m = s.isStale m := by
  unfold State.isStale
  simp only [V_children, V_nodeD, vNode_kind?, vNode_changedAt, V_vars, vNode_recomputedAt]
  cases h : (s.nodeD m).kind? with
  | none => rfl
  | some k =>
    have hk : (s.nodeD m).kind = k := by
      unfold Node.kind? at h; split at h
      · cases h; rfl
      · cases h
    rw [hk]
    cases k <;> try rfl
    rename_i e
    obtain ⟨F, i, hF⟩ := vKind_expert s e
    simp only [Option.map_some, hF, forced]
    cases hx : s.experts[e]? with
    | none => simp [xRec_none hx]
    | some er =>
      simp only [xRec_some hx]
      cases hf : er.forceStale <;> simp

theorem V_needsToBeComputed (m : Nat) : (V s).needsToBeComputed m = s.needsToBeComputed m := by
  simp [State.needsToBeComputed, V_isNecessary, V_isStale]

theorem V_kids (m : Nat) : kids ((V s).nodeD m).kind = kidsX s.experts (s.nodeD m).kind := by
  rw [V_nodeD, vNode_kind, kids_vKind]

/-- no map_ref nodes: every node reads its stored value, in both states -/
theorem V_value (env env' : Env) (n : Nat) (h : ∀ p i, (s.nodeD n).kind ≠ .mapRef p i) :
    (V s).value env' n = s.value env n := by
  rw [value_plain env' (V s) n, value_plain env s n h, V_nodeD, vNode_value]
  intro p i
  rw [V_nodeD, vNode_kind]
  exact vKind_not_mapRef _ _ h p i

end

/-! ## A'. field lemmas of the twin (local copies, `K`-prefixed: `pk-twsim` owns the official ones) -/

theorem KtwNode_default : twNode default = default := rfl

theorem KtwL_nodeD (l : List Event) (s : State) (m : Nat) : (twL l s).nodeD m = twNode (s.nodeD m) := by
  unfold State.nodeD twL
  simp only [Array.getElem?_map]
  cases h : s.nodes[m]? with
  | none => simp [KtwNode_default]
  | some nd => simp

theorem KtwL_size (l : List Event) (s : State) : (twL l s).nodes.size = s.nodes.size := by simp [twL]

theorem KtwL_experts (l : List Event) (s : State) : (twL l s).experts = s.experts.map twRec := rfl

theorem KtwL_expert? (l : List Event) (s : State) (e : Nat) :
    (twL l s).experts[e]? = (s.experts[e]?).map twRec := by
  simp [twL, Array.getElem?_map]

theorem KxRec_tw (xs : Array ExpertRec) (e : Nat) : xRec (xs.map twRec) e = twRec (xRec xs e) := by
  unfold xRec
  simp only [Array.getElem?_map]
  cases xs[e]? <;> rfl

theorem KtwKind_eq_expert (k : Kind) (e : Nat) : twKind k = .expert e ↔ k = .expert e := by
  cases k <;> simp [twKind]

theorem Kforced_tw (xs : Array ExpertRec) (k : Kind) : forced (xs.map twRec) (twKind k) = forced xs k := by
  cases k <;> try rfl
  simp only [twKind, forced, KxRec_tw]; rfl

theorem KkidsX_tw (xs : Array ExpertRec) (k : Kind) : kidsX (xs.map twRec) (twKind k) = kidsX xs k := by
  cases k <;> try rfl
  simp only [twKind, kidsX, KxRec_tw]; rfl

section
variable (l : List Event) (s : State)

theorem KtwL_kind (m : Nat) : ((twL l s).nodeD m).kind = twKind (s.nodeD m).kind := by
  rw [KtwL_nodeD]; rfl
theorem KtwL_valid (m : Nat) : ((twL l s).nodeD m).valid = (s.nodeD m).valid := by
  rw [KtwL_nodeD]; rfl
theorem KtwL_recomputedAt (m : Nat) : ((twL l s).nodeD m).recomputedAt = (s.nodeD m).recomputedAt := by
  rw [KtwL_nodeD]; rfl
theorem KtwL_changedAt (m : Nat) : ((twL l s).nodeD m).changedAt = (s.nodeD m).changedAt := by
  rw [KtwL_nodeD]; rfl
theorem KtwL_value (m : Nat) : ((twL l s).nodeD m).value = (s.nodeD m).value := by
  rw [KtwL_nodeD]; rfl
theorem KtwL_parents (m : Nat) : ((twL l s).nodeD m).parents = (s.nodeD m).parents := by
  rw [KtwL_nodeD]; rfl
theorem KtwL_height (m : Nat) : ((twL l s).nodeD m).height = (s.nodeD m).height := by
  rw [KtwL_nodeD]; rfl
theorem KtwL_inRch (m : Nat) : ((twL l s).nodeD m).inRch = (s.nodeD m).inRch := by
  rw [KtwL_nodeD]; rfl

theorem KtwL_isNecessary (m : Nat) : (twL l s).isNecessary m = s.isNecessary m := by
  simp only [State.isNecessary, KtwL_nodeD]; rfl

theorem KtwL_vars : (twL l s).vars = s.vars := rfl
theorem KtwL_rch : (twL l s).rch = s.rch := rfl
theorem KtwL_stabNum : (twL l s).stabNum = s.stabNum := rfl
theorem KtwL_log : (twL l s).log = l := rfl
theorem KtwL_pc : (twL l s).panicCountdown = s.panicCountdown := rfl
theorem KtwL_pinv : (twL l s).propagateInvalidity = s.propagateInvalidity := rfl

theorem KtwL_kind? (m : Nat) : ((twL l s).nodeD m).kind? = ((s.nodeD m).kind?).map twKind := by
  rw [KtwL_nodeD]
  simp only [Node.kind?]
  show (if (s.nodeD m).valid = true then some (twKind (s.nodeD m).kind) else none) = _
  by_cases h : (s.nodeD m).valid = true <;> simp [h]

theorem KtwL_children (m : Nat) : (twL l s).children m = s.children m := by
  unfold State.children
  rw [KtwL_kind?]
  cases h : (s.nodeD m).kind? with
  | none => rfl
  | some k =>
    cases k <;> try rfl
    rename_i e
    simp only [Option.map_some, twKind, KtwL_expert?]
    cases hx : s.experts[e]? with
    | none => rfl
    | some er => rfl

theorem KtwL_isStale (m : Nat) : (twL l s).isStale m = s.isStale m := by
  unfold State.isStale
  simp only [KtwL_children, KtwL_kind?, KtwL_changedAt, KtwL_vars, KtwL_recomputedAt]
  cases h : (s.nodeD m).kind? with
  | none => rfl
  | some k =>
    cases k <;> try rfl
    rename_i e
    simp only [Option.map_some, twKind, KtwL_expert?]
    cases hx : s.experts[e]? with
    | none => rfl
    | some er => rfl

/-- the node of the virtual twin -/
theorem Kvirt_twL_nodeD (m : Nat) :
    (virt (twL l s)).nodeD m = virtNode (s.experts.map twRec) (twNode (s.nodeD m)) := by
  rw [virt_nodeD, KtwL_nodeD]; rfl

theorem Kvirt_twL_kind (m : Nat) :
    ((virt (twL l s)).nodeD m).kind = virtKind (s.experts.map twRec) (twKind (s.nodeD m).kind) := by
  rw [Kvirt_twL_nodeD]; rfl

theorem Kvirt_twL_kids (m : Nat) :
    kids ((virt (twL l s)).nodeD m).kind = kidsX s.experts (s.nodeD m).kind := by
  rw [Kvirt_twL_kind, kids_virtKind, KkidsX_tw]

theorem Kvirt_twL_size : (virt (twL l s)).nodes.size = s.nodes.size := by
  rw [virt_size, KtwL_size]

end

/-! ## B. the fragments -/

theorem penv_fnEff (env : Env) (f : Nat) (vals : List Val) : (penv env).fnEff f vals = [] := rfl

theorem staticKind_vKind {env : Env} (s : State) {k : Kind} (h : PKind env k) :
    StaticKind (penv env) (vKind s k) := by
  cases k <;> simp only [PKind] at h <;> try (first | exact h.elim | trivial)
  · rename_i f args
    rw [vKind_map]
    refine ⟨?_, fun _ _ => rfl⟩
    split
    · decide
    · omega
  · rename_i e
    obtain ⟨F, i, hF⟩ := vKind_expert s e
    rw [hF]; trivial

theorem PFrag.kindD {env : Env} {s : State} (F : PFrag env s) (n : Nat) : PKind env (s.nodeD n).kind := by
  by_cases hn : n < s.nodes.size
  · exact F.kind n hn
  · rw [nodeD_default_of_ge s n (by omega)]; trivial

theorem PFrag.validD {env : Env} {s : State} (F : PFrag env s) (n : Nat) : (s.nodeD n).valid = true := by
  by_cases hn : n < s.nodes.size
  · exact F.valid n hn
  · rw [nodeD_default_of_ge s n (by omega)]; rfl

/-- every kind of `V s` is static for `penv env` (all `n`: the default node is a constant) -/
theorem staticKind_VD {env : Env} {s : State} (F : PFrag env s) (n : Nat) :
    StaticKind (penv env) ((V s).nodeD n).kind := by
  rw [V_kind]; exact staticKind_vKind s (F.kindD n)

theorem staticKind_V {env : Env} {s : State} (F : PFrag env s) {n : Nat} (_hn : n < s.nodes.size) :
    StaticKind (penv env) ((V s).nodeD n).kind := staticKind_VD F n

theorem xKind_twKind {env : Env} {k : Kind} (h : PKind env k) : XKind (twEnv env) (twKind k) := by
  cases k <;> simp only [PKind] at h <;> try (first | exact h.elim | trivial)
  · rename_i f args
    show (if fnPerKey ≤ f then fnIdent else f) < fnPerKey ∧
      ((if fnPerKey ≤ f then fnIdent else f) < fnZip → ∀ vals, (twEnv env).fnEff _ vals = [])
    refine ⟨?_, fun _ _ => rfl⟩
    split
    · decide
    · omega

theorem xfrag_twin {env : Env} (l : List Event) {s : State} (F : PFrag env s) : XFrag (twEnv env) (twL l s) where
  pc := F.pc
  kind n hn := by
    rw [KtwL_size] at hn
    rw [KtwL_kind]; exact xKind_twKind (F.kind n hn)
  valid n hn := by
    rw [KtwL_size] at hn
    rw [KtwL_valid]; exact F.valid n hn
  xrec n e hn hk := by
    rw [KtwL_size] at hn
    rw [KtwL_kind, KtwKind_eq_expert] at hk
    obtain ⟨er, h1, h2⟩ := F.xrec n e hn hk
    exact ⟨twRec er, by rw [KtwL_expert?, h1]; rfl, h2⟩
  xok e er' h := by
    rw [KtwL_expert?] at h
    cases hx : s.experts[e]? with
    | none => rw [hx] at h; cases h
    | some er =>
      rw [hx] at h
      cases h
      obtain ⟨-, h2, h3⟩ := F.xok e er hx
      refine ⟨rfl, h2, twEnv_xEnvOK env _, ?_⟩
      show er.f < xBase
      rw [h3]; decide

theorem xk_of_pkind {env : Env} {k : Kind} (h : PKind env k) : XK k := by
  cases k <;> first | trivial | exact h

theorem fr_of_pfrag {env : Env} {s : State} (F : PFrag env s) (hp : s.propagateInvalidity = []) : Fr s where
  pc := F.pc
  valid := F.validD
  pinv := hp
  kind n := xk_of_pkind (F.kindD n)
  ni e er h := (F.xok e er h).2.1

/-- the twin is in the frame fragment too -/
theorem fr_twin {env : Env} (l : List Event) {s : State} (F : PFrag env s) (hp : s.propagateInvalidity = []) :
    Fr (twL l s) where
  pc := F.pc
  valid n := by rw [KtwL_valid]; exact F.validD n
  pinv := hp
  kind n := by
    rw [KtwL_kind]
    have := F.kindD n
    cases hk : (s.nodeD n).kind <;> rw [hk] at this <;> first | trivial | exact this
  ni e er' h := by
    rw [KtwL_expert?] at h
    cases hx : s.experts[e]? with
    | none => rw [hx] at h; cases h
    | some er =>
      rw [hx] at h; cases h
      exact (F.xok e er hx).2.1

/-! ## C. the two static views are kind-twins -/

theorem kin_twin_V (l : List Event) (s : State) : Kin (virt (twL l s)) (V s) where
  size := by rw [V_size, Kvirt_twL_size]
  node m := by
    rw [Kvirt_twL_nodeD, V_nodeD]
    simp only [vNode, virtNode, twNode, Kforced_tw]
  kids m := by rw [V_kids, Kvirt_twL_kids]
  var m c := by
    rw [V_kind, Kvirt_twL_kind, vKind_eq_var]
    cases (s.nodeD m).kind <;> simp [twKind, virtKind]
  const m := by
    rw [V_kind, Kvirt_twL_kind]
    simp only [vKind_eq_const]
    cases (s.nodeD m).kind <;> simp [twKind, virtKind]
  rest := rfl

end IncrVerif.Proofs.PerKeyH
