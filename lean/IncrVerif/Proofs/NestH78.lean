import IncrVerif.Proofs.NestH76
import IncrVerif.Proofs.NestH11
import IncrVerif.Proofs.NestH77
/-!
# Nested binds (F2), total correctness of the linking cascade, part 2: `becameNecessary`, the mutual induction, the headline theorems

Port of `Quiet21.bn_tot`/`link_tot`/`becameNecessary_total`.  What can panic in `becameNecessary n` and why it does not:
* `getNode`/`getBind`: `n` is a node of the state (`opLt`), the bind record of its scope exists (`All2.scope_bind`, `All2.recs`);
* `"node:became_necessary:bind-not-necessary"`: hypothesis `hmain` (see `TL1`);
* `setHeight` (`"height-limit"`): the first height is `scopeHeight + 1` where the scope's change detector is necessary, closed and of smaller rank;
  the later ones are `child height + 1`, every child being necessary, closed and of smaller rank after its edge is recorded — by `HBo2` and `cnt_lt_cnt`
  the height is `≤ position of n + 1 ≤ N`;
* the two `dassert`s (`n` is not queued — hypothesis `hnq`, kept by the cascade below `n`; `n` is necessary — `lnec`);
* `rchInsert`: `0 ≤ height ≤ maxAllowed`;
* fuel: the recursion descends along child edges, the position strictly decreases.
-/
namespace IncrVerif.Proofs.NestH
open IncrVerif.Engine IncrVerif.Proofs IncrVerif.Proofs.Step IncrVerif.Proofs.Sched IncrVerif.Proofs.Quiet
open IncrVerif.Proofs.BindH

namespace TL
open BL CL NL

theorem bn_tot2 (env : Env) (N fuel : Nat) (ih : APTot2 env N fuel) : BNTot2 env N (fuel + 1) := by
  intro rk n s op ex dy I hb R hop hnq hlow hpar hnu hF hlc hmain hf
  have hopn : op n ≠ .closed := by rw [hop]; exact fun e => by cases e
  have hn : n < s.nodes.size := I.opLt n hopn
  have sn := GInv2.node I hn
  have hnv : (s.nodeD n).valid = true := GInv2.valid_of_open I hopn
  have hnn : s.isNecessary n = true := I.lnec n 0 hop
  have hsq : ScopeQuiet s n := GInv2.scopeQuiet_of I hnu hF hopn hlc
  unfold becameNecessary
  refine Tot.bind_getNode hn ?_
  -- the scope is necessary
  have hsin : (scopeIsNecessary (s.nodeD n).createdIn).run.run s = (.ok true, s) := by
    cases hcr : (s.nodeD n).createdIn with
    | top => exact scopeIsNecessary_top_run s
    | bind b =>
      obtain ⟨-, br, hbb, -, -⟩ := sn.inScope b hcr
      obtain ⟨-, r2, -, -, -⟩ := I.frag.recs b br hbb
      rw [scopeIsNecessary_bind_run hbb r2, hmain b br hcr hbb]
  refine Tot.bind_ok hsin ?_
  dsimp only
  simp only [Bool.not_true, Bool.and_false, Bool.false_eq_true, if_false]
  refine P21.tot_bind_modify' (fun s0 hs0 => ?_)
  have R0 : Irrel n s s0 := by rw [hs0]; exact Irrel.of_nodes rfl rfl rfl rfl rfl
  have hn0 : n < s0.nodes.size := by rw [R0.same.size]; exact hn
  obtain ⟨s1, h1⟩ := P21.mhas_ok hn0
  refine Tot.bind_ok h1 ?_
  have R1 : Irrel n s s1 := R0.trans (Irrel.mhas h1)
  have O1 : Only n s s1 := by
    refine Only.trans ?_ (Only.mhas h1)
    rw [hs0]; exact Only.of_nodes n rfl
  have hB1 : SameB s s1 := ⟨R1.same, CFrame.binds (R1.rel (fun _ => False)).fr⟩
  have E1 : KeyEq s s1 := KeyEq.of_same hB1
  have I1 : GInv2 env rk s1 op ex dy := GInv2.congr I hB1
  have hn1 : n < s1.nodes.size := by rw [R1.same.size]; exact hn
  have hsz1 : s1.nodes.size = s.nodes.size := R1.same.size
  have hnq1 : (s1.nodeD n).inRch = false := by rw [R1.same.inRch]; exact hnq
  have hpar1 : ∀ p i, (p, i) ∈ (s1.nodeD n).parents → op p ≠ .closed := by
    intro p i hp; rw [(R1.same.node n).parents] at hp; exact hpar p i hp
  have hsq1 : ScopeQuiet s1 n := scopeQuiet_transport2 I.frag hsq E1 (only_aboveR2 O1)
  have Rm1 : Room N s1 := R.of_cframe (R1.rel (fun _ => False)).fr
  have hb1 : HBo2 rk s1 op := by
    refine HBo2_transport hb hsz1 (fun m hm ho => ⟨?_, ho, (R1.same.node m).height⟩)
    rw [← R1.same.nec m]; exact hm
  -- the scope height
  obtain ⟨h0, hsh, h00, h0c⟩ : ∃ h0 : Int, (scopeHeight (s.nodeD n).createdIn).run.run s1 = (.ok h0, s1) ∧ 0 ≤ h0 ∧
      h0 ≤ (cnt rk s.nodes.size n : Int) := by
    cases hcr : (s.nodeD n).createdIn with
    | top => exact ⟨0, scopeHeight_top_run s1, Int.le_refl _, Int.natCast_nonneg _⟩
    | bind b =>
      obtain ⟨-, br, hbb, -, -⟩ := sn.inScope b hcr
      have hlcl := I.frag.lc_lt hbb
      have hbb1 : s1.binds[b]? = some br := by rw [hB1.binds]; exact hbb
      have hrk := (I.frag.scope_rk hn hcr hbb).1
      have hlnec : s.isNecessary br.lhsChange = true := GInv2.scope_lc_nec I hnu hF hcr hbb hnn
      have hlcc : op br.lhsChange = .closed := by
        cases e : op br.lhsChange with
        | closed => rfl
        | linking k => have := hlow br.lhsChange (by rw [e]; exact fun e => by cases e); omega
        | unlinking k => have := hlow br.lhsChange (by rw [e]; exact fun e => by cases e); omega
      refine ⟨_, scopeHeight_bind_run hbb1 (by rw [hsz1]; exact hlcl), ?_, ?_⟩
      · rw [(R1.same.node br.lhsChange).height]; exact I.hpos _ hlnec hlcc
      · rw [(R1.same.node br.lhsChange).height]
        have h1 := hb _ hlnec hlcc
        have h2 := cnt_lt_cnt (rk := rk) hlcl hrk
        omega
  refine Tot.bind_ok hsh ?_
  have hcntN : (cnt rk s.nodes.size n : Int) + 1 ≤ (N : Int) := by
    have := cnt_lt_size (rk := rk) hn
    have := R.size
    omega
  obtain ⟨s2, h2⟩ := P21.setHeight_ok (n := n) (h := h0 + 1) (s := s1) (by rw [Rm1.ahh]; omega)
  refine Tot.bind_ok h2 ?_
  obtain ⟨U2, -, hl2, hh2, hoth2⟩ := setHeight_ok_upd hn1 h2
  have O2 : Only n s1 s2 := hoth2
  have I2 : GInv2 env rk s2 op ex dy := GInv2.setHeight_open I1 U2 (CFrame.binds hl2.fr) hopn hpar1 hsq1
  have hn2 : n < s2.nodes.size := by rw [U2.size]; exact hn1
  have hsz2 : s2.nodes.size = s.nodes.size := by rw [U2.size]; exact hsz1
  have hnq2 : (s2.nodeD n).inRch = false := by rw [U2.inRch (keeps_fHeight _)]; exact hnq1
  have Rm2 : Room N s2 := Rm1.of_cframe hl2.fr
  have hL2 : LRel (· = n) s s2 := (R1.rel _).trans hl2
  have hA2 : AboveR2 rk s n s2 := only_aboveR2 (Only.trans O1 O2)
  have hb2 : HBo2 rk s2 op := by
    refine HBo2_transport hb1 U2.size (fun m hm ho => ?_)
    have hmn : m ≠ n := fun e => by rw [e] at ho; exact hopn ho
    rw [State.isNecessary, hoth2 m hmn] at hm
    exact ⟨hm, ho, by rw [hoth2 m hmn]⟩
  refine Tot.bind_getNode hn2 ?_
  refine Tot.bind_get ?_
  -- the loop
  refine Tot.bind (Q := fun (b : Int × Nat) t => b.2 = (s2.children n).length ∧
      GInv2 env rk t (upd op n (.linking (s2.children n).length)) ex dy ∧
      (∀ m, rk n ≤ rk m → t.nodeD m = s2.nodeD m) ∧ LRel (fun _ => False) s2 t ∧ h0 + 1 ≤ b.1 ∧
      (∀ i c, i < (s2.children n).length → (s2.children n)[i]? = some c → (t.nodeD c).height < b.1) ∧
      HBo2 rk t (upd op n (.linking (s2.children n).length)) ∧ b.1 ≤ (cnt rk s.nodes.size n : Int) + 1)
    (forIn_tot _ (s2.children n)
      (fun j (b : Int × Nat) t => b.2 = j ∧ GInv2 env rk t (upd op n (.linking j)) ex dy ∧
        (∀ m, rk n ≤ rk m → t.nodeD m = s2.nodeD m) ∧ LRel (fun _ => False) s2 t ∧ h0 + 1 ≤ b.1 ∧
        (∀ i c, i < j → (s2.children n)[i]? = some c → (t.nodeD c).height < b.1) ∧
        HBo2 rk t (upd op n (.linking j)) ∧ b.1 ≤ (cnt rk s.nodes.size n : Int) + 1)
      ?hstep (s2.children n) 0 _ s2 (by simp) (Nat.zero_le _) ?hinit) ?rest
  case hinit =>
    refine ⟨rfl, by rw [upd_eq_self _ _ _ hop]; exact I2, fun _ _ => rfl, LRel.refl _ _, by rw [hh2]; omega,
      fun i c hi _ => by omega, by rw [upd_eq_self _ _ _ hop]; exact hb2, by rw [hh2]; omega⟩
  case hstep =>
    intro j c b t hj ⟨hbj, It, hsame, hrel, hb1', hlt, hHB, hle⟩
    have hcht : t.children n = s2.children n := KeyEq2.children2 (KeyEq.of_cframe hrel.fr) I2.frag n
    have hkj : (t.children n)[b.2]? = some c := by
      rw [hcht, hbj]; exact hj
    have hcn : rk c < rk n := It.kid_rk hkj
    have hszt : t.nodes.size = s.nodes.size := by rw [hrel.fr.size]; exact hsz2
    have hct : c < s.nodes.size := by rw [← hszt]; exact GInv2.kid_in It hkj
    have hLt : LRel (· = n) s t := hL2.trans (hrel.mono (fun _ h => h.elim))
    have a1 : ∀ m, upd op n (.linking j) m ≠ .closed → rk c < rk m := by
      intro m hm
      by_cases e : m = n
      · rw [e]; exact hcn
      · rw [upd_other _ _ _ e] at hm
        have := hlow m hm
        omega
    have a2 : ∀ m k, upd op n (.linking j) m ≠ .unlinking k := by
      intro m k
      by_cases e : m = n
      · rw [e, upd_self]; exact fun e => by cases e
      · rw [upd_other _ _ _ e]; exact hnu m k
    have a3 : HF t (upd op n (.linking j)) :=
      hF.lrel hLt (by
        intro m ho _
        have e : m ≠ n := fun e => by rw [e] at ho; exact hopn ho
        rw [upd_other _ _ _ e]; exact ho)
    have a4 : ∀ (b' : Nat) (br : BindRec), (t.nodeD n).createdIn = .bind b' → t.binds[b']? = some br →
        t.isNecessary br.main = true := by
      intro b' br hsc hb'
      rw [(KeyEq.of_cframe hLt.fr).createdIn] at hsc
      rw [CFrame.binds hLt.fr] at hb'
      exact hLt.nec (hmain b' br hsc hb')
    have hclc : op c = .closed := by
      cases e : op c with
      | closed => rfl
      | linking k => have := hlow c (by rw [e]; exact fun e => by cases e); omega
      | unlinking k => have := hlow c (by rw [e]; exact fun e => by cases e); omega
    have hcc := cnt_lt_cnt (rk := rk) hct hcn
    have Rt : Room N t := Rm2.of_cframe hrel.fr
    obtain ⟨_, t1, ha, hHB1⟩ := ih rk c b.2 n t _ ex dy It hHB Rt (by rw [upd_self, hbj]) hkj a1 a2 a3 a4
      (by rw [hszt]; omega)
    obtain ⟨It1, hab, hl, hnecc⟩ := (link_spec2 env fuel).2 rk c b.2 n t t1 _ ex dy ha It (by rw [upd_self, hbj]) hkj
      a1 a2 a3
    rw [upd_upd, hbj] at It1 hHB1
    have hszt1 : t1.nodes.size = s.nodes.size := by rw [hl.fr.size]; exact hszt
    have hct1 : c < t1.nodes.size := by rw [hszt1]; exact hct
    have hcne : c ≠ n := fun e => by rw [e] at hcn; exact Nat.lt_irrefl _ hcn
    have hchb : (t1.nodeD c).height ≤ (cnt rk s.nodes.size c : Int) + 1 := by
      have := hHB1 c hnecc (by rw [upd_other _ _ _ hcne]; exact hclc)
      rw [hszt1] at this; exact this
    have hstep : ∀ h' : Int, b.1 ≤ h' → (t1.nodeD c).height < h' → h' ≤ (cnt rk s.nodes.size n : Int) + 1 →
        (j + 1 = j + 1) ∧ GInv2 env rk t1 (upd op n (.linking (j + 1))) ex dy ∧
        (∀ m, rk n ≤ rk m → t1.nodeD m = s2.nodeD m) ∧ LRel (fun _ => False) s2 t1 ∧ h0 + 1 ≤ h' ∧
        (∀ i c', i < j + 1 → (s2.children n)[i]? = some c' → (t1.nodeD c').height < h') ∧
        HBo2 rk t1 (upd op n (.linking (j + 1))) ∧ h' ≤ (cnt rk s.nodes.size n : Int) + 1 := by
      intro h' hle' hxl hn'
      refine ⟨rfl, It1, fun m hm => (hab m (by omega)).trans (hsame m hm), hrel.trans hl, by omega, ?_,
        hHB1, hn'⟩
      intro i c' hi hc'
      by_cases e : i = j
      · rw [e, hj] at hc'
        cases hc'
        exact hxl
      · have hij : i < j := by omega
        have hk' : (t.children n)[i]? = some c' := by
          rw [hcht]; exact hc'
        have hmem := It.conv n i c' hk' ((wants_linking (upd_self _ _ _)).2 hij)
        rw [hl.hgt c' (fun h => h) (nec_of_mem_parents hmem)]
        have := hlt i c' hij hc'
        omega
    rw [run_bind_ok ha, run_bind_ok (run_getNode_some (some_of_lt hct1))]
    by_cases hge : (t1.nodeD c).height ≥ b.1
    · rw [if_pos hge]
      refine ⟨_, _, rfl, ?_⟩
      have := hstep ((t1.nodeD c).height + 1) (by omega) (by omega) (by omega)
      rw [hbj]; exact this
    · rw [if_neg hge]
      refine ⟨_, _, rfl, ?_⟩
      have := hstep b.1 (by omega) (by omega) hle
      rw [hbj]; exact this
  case rest =>
    intro b s3 h3 ⟨hbl, I3, hsame3, hrel3, hb1', hlt3, hHB3, hle3⟩
    have hn3 : n < s3.nodes.size := by rw [hrel3.fr.size]; exact hn2
    have hsz3 : s3.nodes.size = s.nodes.size := by rw [hrel3.fr.size]; exact hsz2
    have Rm3 : Room N s3 := Rm2.of_cframe hrel3.fr
    have hnq3 : (s3.nodeD n).inRch = false := by rw [hsame3 n (Nat.le_refl _)]; exact hnq2
    have hL3 : LRel (· = n) s s3 := hL2.trans (hrel3.mono (fun _ h => h.elim))
    have hA3 : AboveR2 rk s n s3 :=
      AboveR2.trans hA2 (fun m hm => hsame3 m (Nat.le_of_lt hm))
    have hsq3 : ScopeQuiet s3 n := scopeQuiet_transport2 I.frag hsq (KeyEq.of_cframe hL3.fr) hA3
    obtain ⟨s4, h4⟩ := P21.setHeight_ok (n := n) (h := b.1) (s := s3) (by rw [Rm3.ahh]; omega)
    refine Tot.bind_ok h4 ?_
    obtain ⟨U4, -, hl4, hh4, hoth4⟩ := setHeight_ok_upd hn3 h4
    have hpar3 : ∀ p i, (p, i) ∈ (s3.nodeD n).parents →
        upd op n (.linking (s2.children n).length) p ≠ .closed := by
      intro p i hp
      have hpn : p ≠ n := fun e => by
        have := GInv2.par_rk I3 hp
        rw [e] at this; exact Nat.lt_irrefl _ this
      rw [upd_other _ _ _ hpn]
      rw [hsame3 n (Nat.le_refl _), U2.self.parents] at hp
      exact hpar1 p i hp
    have I4 : GInv2 env rk s4 (upd op n (.linking (s2.children n).length)) ex dy :=
      GInv2.setHeight_open I3 U4 (CFrame.binds hl4.fr) (by rw [upd_self]; exact fun e => by cases e) hpar3 hsq3
    have hn4 : n < s4.nodes.size := by rw [U4.size]; exact hn3
    have hsz4 : s4.nodes.size = s.nodes.size := by rw [U4.size]; exact hsz3
    have hnq4 : (s4.nodeD n).inRch = false := by rw [U4.inRch (keeps_fHeight _)]; exact hnq3
    have Rm4 : Room N s4 := Rm3.of_cframe hl4.fr
    have hnec4 : s4.isNecessary n = true := I4.lnec n _ (upd_self _ _ _)
    have h04 : 0 ≤ (s4.nodeD n).height := by rw [hh4]; omega
    have hnv4 : (s4.nodeD n).valid = true := GInv2.valid_of_open I4 (by rw [upd_self]; exact fun e => by cases e)
    have hnk4 : BKind env (s4.nodeD n).kind := (GInv2.node I4 hn4).kind
    have hHB4 : HBo2 rk s4 (upd op n (.linking (s2.children n).length)) := by
      refine HBo2_transport hHB3 U4.size (fun m hm ho => ?_)
      have hmn : m ≠ n := fun e => by rw [e, upd_self] at ho; cases ho
      rw [State.isNecessary, hoth4 m hmn] at hm
      exact ⟨hm, ho, by rw [hoth4 m hmn]⟩
    -- the height bound for the final labelling, for any state with the same heights, necessity and node count
    have hfin : ∀ s' : State, s'.nodes.size = s4.nodes.size → (∀ m, (s'.nodeD m).height = (s4.nodeD m).height) →
        (∀ m, s'.isNecessary m = s4.isNecessary m) → HBo2 rk s' (upd op n .closed) := by
      intro s' hsz hh hnc m hm ho
      rw [hh, hsz, hsz4]
      by_cases e : m = n
      · rw [e, hh4]; exact hle3
      · rw [upd_other _ _ _ e] at ho
        rw [hnc] at hm
        have := hHB4 m hm (by rw [upd_other _ _ _ e]; exact ho)
        rw [hsz4] at this; exact this
    refine Tot.bind_get ?_
    refine Tot.bind_dassert (fun _ => by rw [hnq4]; rfl) ?_
    refine Tot.bind_dassert (fun _ => hnec4) ?_
    cases hst : s4.isStale n with
    | false =>
      simp only [Bool.false_eq_true, if_false]
      exact tail_tot2 _ hn4 hnv4 hnk4 (hfin s4 rfl (fun _ => rfl) (fun _ => rfl))
    | true =>
      simp only [if_true]
      refine Tot.bind_ok (markMapRefUnknown_B_run (by omega) hn4 hnv4 hnk4) ?_
      have hpre : (!(s4.nodeD n).inRch && s4.needsToBeComputed n) = true := by
        rw [hnq4, State.needsToBeComputed, hnec4, hst]; rfl
      refine Tot.bind_ok (P21.rchInsert_ok hn4 hpre h04 (by rw [Rm4.rch, hh4]; omega)) ?_
      have hnd : ∀ m, ∃ x, (inserted n (s4.nodeD n).height s4).nodeD m =
          { s4.nodeD m with heightInRch := x } := by
        intro m
        rw [inserted_nodeD]
        split
        · exact ⟨_, rfl⟩
        · exact ⟨_, rfl⟩
      have hsz : (inserted n (s4.nodeD n).height s4).nodes.size = s4.nodes.size := Array.size_modify ..
      refine tail_tot2 (env := env) _ (by rw [hsz]; exact hn4) ?_ ?_ (hfin _ hsz ?_ ?_)
      · obtain ⟨x, hx⟩ := hnd n; rw [hx]; exact hnv4
      · obtain ⟨x, hx⟩ := hnd n; rw [hx]; exact hnk4
      · intro m; obtain ⟨x, hx⟩ := hnd m; rw [hx]
      · intro m; obtain ⟨x, hx⟩ := hnd m; rw [State.isNecessary, hx]; rfl

theorem link_tot2 (env : Env) (N fuel : Nat) : BNTot2 env N fuel ∧ APTot2 env N fuel := by
  induction fuel with
  | zero =>
    constructor
    · intro rk n s op ex dy _ _ _ _ _ _ _ _ _ _ _ hf; omega
    · intro rk c idx p s op ex dy _ _ _ _ _ _ _ _ _ hf; omega
  | succ fuel ih => exact ⟨bn_tot2 env N fuel ih.2, ap_tot2 env N fuel ih.1⟩

end TL

open BL CL in
/-- **The linking cascade returns, fragment F2 (nested binds)** — no assertion fails, no record is missing, the scope of `n` is necessary, the height limit
is not hit, the fuel suffices — and the height bound is kept.  Hypotheses: those of `becameNecessary_spec2`, the height bound `HBo2`, room for `N`
nodes, `hmain` (if `n` is a node of a scope, the scope's main node is necessary — see `TL.scope_main_nec`, `TL.child_main_nec`) and fuel linear in the
position of `n` in the rank order. -/
theorem becameNecessary_total2 {env : Env} {rk : Nat → Nat} {N fuel n : Nat} {s : State} {op : Nat → Op} {ex : Nat → Prop}
    {dy : List Nat}
    (I : GInv2 env rk s op ex dy) (hb : HBo2 rk s op) (R : Room N s)
    (hop : op n = .linking 0) (hnq : (s.nodeD n).inRch = false)
    (hlow : ∀ m, op m ≠ .closed → rk n ≤ rk m)
    (hpar : ∀ p i, (p, i) ∈ (s.nodeD n).parents → op p ≠ .closed)
    (hnu : ∀ m k, op m ≠ .unlinking k)
    (hF : ∀ m b br, (s.nodeD m).forceNecessary = true → (s.nodeD m).createdIn = .bind b → s.binds[b]? = some br →
      s.isNecessary br.lhsChange = true ∧ op br.lhsChange = .closed)
    (hlc : ∀ (b : Nat) (br : BindRec), s.binds[b]? = some br → br.lhsChange = n → ¬ Wants s op br.main 1)
    (hmain : ∀ (b : Nat) (br : BindRec), (s.nodeD n).createdIn = .bind b → s.binds[b]? = some br →
      s.isNecessary br.main = true)
    (hf : 2 * cnt rk s.nodes.size n + 2 ≤ fuel) :
    Tot (becameNecessary env fuel n) s (fun _ s' => HBo2 rk s' (upd op n .closed)) :=
  (TL.link_tot2 env N fuel).1 rk n s op ex dy I hb R hop hnq hlow hpar hnu hF hlc hmain hf

open BL CL in
/-- `add_parent_without_adjusting_heights child index parent` returns, fragment F2.  Hypotheses: those of
`addParentWithoutAdjustingHeights_spec2`, `HBo2`, room, `hmain` for the PARENT, fuel linear in the position of the child. -/
theorem addParentWithoutAdjustingHeights_total2 {env : Env} {rk : Nat → Nat} {N fuel c idx p : Nat} {s : State}
    {op : Nat → Op} {ex : Nat → Prop} {dy : List Nat}
    (I : GInv2 env rk s op ex dy) (hb : HBo2 rk s op) (R : Room N s)
    (hop : op p = .linking idx) (hk : (s.children p)[idx]? = some c)
    (hlow : ∀ m, op m ≠ .closed → rk c < rk m)
    (hnu : ∀ m k, op m ≠ .unlinking k)
    (hF : ∀ m b br, (s.nodeD m).forceNecessary = true → (s.nodeD m).createdIn = .bind b → s.binds[b]? = some br →
      s.isNecessary br.lhsChange = true ∧ op br.lhsChange = .closed)
    (hmain : ∀ (b : Nat) (br : BindRec), (s.nodeD p).createdIn = .bind b → s.binds[b]? = some br →
      s.isNecessary br.main = true)
    (hf : 2 * cnt rk s.nodes.size c + 3 ≤ fuel) :
    Tot (addParentWithoutAdjustingHeights env fuel c idx p) s
      (fun _ s' => HBo2 rk s' (upd op p (.linking (idx + 1)))) :=
  (TL.link_tot2 env N fuel).2 rk c idx p s op ex dy I hb R hop hk hlow hnu hF hmain hf

open BL CL in
/-- total correctness and the partial-correctness post-condition together -/
theorem becameNecessary_total2' {env : Env} {rk : Nat → Nat} {N fuel n : Nat} {s : State} {op : Nat → Op} {ex : Nat → Prop}
    {dy : List Nat}
    (I : GInv2 env rk s op ex dy) (hb : HBo2 rk s op) (R : Room N s)
    (hop : op n = .linking 0) (hnq : (s.nodeD n).inRch = false)
    (hlow : ∀ m, op m ≠ .closed → rk n ≤ rk m)
    (hpar : ∀ p i, (p, i) ∈ (s.nodeD n).parents → op p ≠ .closed)
    (hnu : ∀ m k, op m ≠ .unlinking k)
    (hF : ∀ m b br, (s.nodeD m).forceNecessary = true → (s.nodeD m).createdIn = .bind b → s.binds[b]? = some br →
      s.isNecessary br.lhsChange = true ∧ op br.lhsChange = .closed)
    (hlc : ∀ (b : Nat) (br : BindRec), s.binds[b]? = some br → br.lhsChange = n → ¬ Wants s op br.main 1)
    (hmain : ∀ (b : Nat) (br : BindRec), (s.nodeD n).createdIn = .bind b → s.binds[b]? = some br →
      s.isNecessary br.main = true)
    (hf : 2 * cnt rk s.nodes.size n + 2 ≤ fuel) :
    Tot (becameNecessary env fuel n) s (fun _ s' => HBo2 rk s' (upd op n .closed) ∧
      GInv2 env rk s' (upd op n .closed) ex dy ∧ AboveR2 rk s n s' ∧ LRel (· = n) s s' ∧ Room N s') := by
  obtain ⟨u, s', h, hq⟩ := becameNecessary_total2 I hb R hop hnq hlow hpar hnu hF hlc hmain hf
  obtain ⟨I', hA, hL⟩ := becameNecessary_spec2 h I hop hnq hlow hpar hnu hF hlc
  exact ⟨u, s', h, hq, I', hA, hL, R.of_cframe hL.fr⟩

open BL CL in
/-- total correctness and the partial-correctness post-condition together -/
theorem addParentWithoutAdjustingHeights_total2' {env : Env} {rk : Nat → Nat} {N fuel c idx p : Nat} {s : State}
    {op : Nat → Op} {ex : Nat → Prop} {dy : List Nat}
    (I : GInv2 env rk s op ex dy) (hb : HBo2 rk s op) (R : Room N s)
    (hop : op p = .linking idx) (hk : (s.children p)[idx]? = some c)
    (hlow : ∀ m, op m ≠ .closed → rk c < rk m)
    (hnu : ∀ m k, op m ≠ .unlinking k)
    (hF : ∀ m b br, (s.nodeD m).forceNecessary = true → (s.nodeD m).createdIn = .bind b → s.binds[b]? = some br →
      s.isNecessary br.lhsChange = true ∧ op br.lhsChange = .closed)
    (hmain : ∀ (b : Nat) (br : BindRec), (s.nodeD p).createdIn = .bind b → s.binds[b]? = some br →
      s.isNecessary br.main = true)
    (hf : 2 * cnt rk s.nodes.size c + 3 ≤ fuel) :
    Tot (addParentWithoutAdjustingHeights env fuel c idx p) s
      (fun _ s' => HBo2 rk s' (upd op p (.linking (idx + 1))) ∧
        GInv2 env rk s' (upd op p (.linking (idx + 1))) ex dy ∧ AboveR2 rk s c s' ∧ LRel (fun _ => False) s s' ∧
        s'.isNecessary c = true ∧ Room N s') := by
  obtain ⟨u, s', h, hq⟩ := addParentWithoutAdjustingHeights_total2 I hb R hop hk hlow hnu hF hmain hf
  obtain ⟨I', hA, hL, hn⟩ := addParentWithoutAdjustingHeights_spec2 h I hop hk hlow hnu hF
  exact ⟨u, s', h, hq, I', hA, hL, hn, R.of_cframe hL.fr⟩

end IncrVerif.Proofs.NestH
