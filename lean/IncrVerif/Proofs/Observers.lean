import IncrVerif.Engine.Run
/-!
# Helper lemmas for C10 (observer lifecycle) and C07 (frame part: reads move only at stabilise)

* `run_*`: how the primitives of `M = ExceptT Panic (StateM State)` run.
* `Frame s s'`: `s'` agrees with `s` on everything `State.tryGetValue` of an *old* observer can see
  (`alive`, `status`, the `node`/`state` of old observer records, the `kind`/`valid`/`value` of old
  nodes); nodes and observers may have been appended.  `FrameS` adds "no node was appended".
* `Pres R m`: every run of `m`, returning or panicking, relates the initial and final state by `R`.
* congruence lemmas: `State.valueWith` / `State.value` / `State.tryGetValue` only depend on the
  framed fields.
-/
namespace IncrVerif.Proofs.Obs
open IncrVerif.Engine

/-! ## running the monad -/

theorem run_bind {α β} (x : M α) (f : α → M β) (s : State) :
    (x >>= f).run.run s = match x.run.run s with
      | (.ok a, s1) => (f a).run.run s1
      | (.error e, s1) => (.error e, s1) := by
  simp only [ExceptT.run_bind, StateT.run_bind]
  rcases h : x.run.run s with ⟨r, s1⟩
  cases r <;> simp <;> rfl

theorem run_get (s : State) : (get : M State).run.run s = (.ok s, s) := rfl
theorem run_modify (s : State) (f : State → State) :
    (modify f : M Unit).run.run s = (.ok (), f s) := rfl
theorem run_throw {α} (s : State) (e : Panic) : (throw e : M α).run.run s = (.error e, s) := rfl
theorem run_pure {α} (s : State) (a : α) : (pure a : M α).run.run s = (.ok a, s) := rfl

/-- naming the two components of a run (used to instantiate `run = (r, s')` hypotheses) -/
theorem run_eta {α} (m : M α) (s : State) :
    m.run.run s = ((m.run.run s).1, (m.run.run s).2) := rfl

theorem run_bind_ok {α β} {x : M α} {f : α → M β} {s s1 : State} {a : α}
    (h : x.run.run s = (.ok a, s1)) : (x >>= f).run.run s = (f a).run.run s1 := by
  rw [run_bind, h]

theorem run_bind_error {α β} {x : M α} {f : α → M β} {s s1 : State} {e : Panic}
    (h : x.run.run s = (.error e, s1)) : (x >>= f).run.run s = (.error e, s1) := by
  rw [run_bind, h]

/-! ## the frame relation -/

/-- the fields of a node that `State.value` can see -/
def nodeCore (nd : Node) : Kind × Bool × Option Val := (nd.kind, nd.valid, nd.value)
/-- the fields of an observer record that `State.tryGetValue` can see -/
def obsCore (ob : ObsRec) : Nat × ObsState := (ob.node, ob.state)

/-- `s'` extends `s` without touching anything a read of an observer of `s` depends on -/
structure Frame (s s' : State) : Prop where
  alive : s'.alive = s.alive
  status : s'.status = s.status
  obsLe : s.observers.size ≤ s'.observers.size
  obs : ∀ o, o < s.observers.size →
    (s'.observers[o]?).map obsCore = (s.observers[o]?).map obsCore
  nodesLe : s.nodes.size ≤ s'.nodes.size
  nodes : ∀ n, n < s.nodes.size → (s'.nodes[n]?).map nodeCore = (s.nodes[n]?).map nodeCore

/-- `Frame`, and no node and no observer was appended -/
structure FrameS (s s' : State) : Prop extends Frame s s' where
  nodesEq : s'.nodes.size = s.nodes.size
  obsEq : s'.observers.size = s.observers.size

theorem Frame.refl (s : State) : Frame s s :=
  ⟨rfl, rfl, Nat.le_refl _, fun _ _ => rfl, Nat.le_refl _, fun _ _ => rfl⟩

theorem Frame.trans {a b c : State} (h1 : Frame a b) (h2 : Frame b c) : Frame a c where
  alive := h2.alive.trans h1.alive
  status := h2.status.trans h1.status
  obsLe := Nat.le_trans h1.obsLe h2.obsLe
  obs o ho := (h2.obs o (Nat.lt_of_lt_of_le ho h1.obsLe)).trans (h1.obs o ho)
  nodesLe := Nat.le_trans h1.nodesLe h2.nodesLe
  nodes n hn := (h2.nodes n (Nat.lt_of_lt_of_le hn h1.nodesLe)).trans (h1.nodes n hn)

theorem FrameS.refl (s : State) : FrameS s s := ⟨Frame.refl s, rfl, rfl⟩
theorem FrameS.trans {a b c : State} (h1 : FrameS a b) (h2 : FrameS b c) : FrameS a c :=
  ⟨h1.toFrame.trans h2.toFrame, h2.nodesEq.trans h1.nodesEq, h2.obsEq.trans h1.obsEq⟩

/-- a step that leaves `alive`, `status`, `observers` and `nodes` alone -/
theorem FrameS.of_eq {s s' : State} (h1 : s'.alive = s.alive) (h2 : s'.status = s.status)
    (h3 : s'.observers = s.observers) (h4 : s'.nodes = s.nodes) : FrameS s s' := by
  refine ⟨⟨h1, h2, ?_, ?_, ?_, ?_⟩, ?_, ?_⟩ <;> simp [h3, h4]

theorem FrameS.modNode (s : State) (n : Nat) (f : Node → Node)
    (hf : ∀ x, nodeCore (f x) = nodeCore x) :
    FrameS s { s with nodes := s.nodes.modify n f } := by
  refine ⟨⟨rfl, rfl, Nat.le_refl _, fun _ _ => rfl, by simp, ?_⟩, by simp, rfl⟩
  intro m hm
  simp only [Array.getElem?_modify]
  split
  · cases h : s.nodes[m]? <;> simp [hf]
  · rfl

theorem FrameS.modObs (s : State) (o : Nat) (f : ObsRec → ObsRec)
    (hf : ∀ x, obsCore (f x) = obsCore x) :
    FrameS s { s with observers := s.observers.modify o f } := by
  refine ⟨⟨rfl, rfl, by simp, ?_, Nat.le_refl _, fun _ _ => rfl⟩, rfl, by simp⟩
  intro m hm
  simp only [Array.getElem?_modify]
  split
  · cases h : s.observers[m]? <;> simp [hf]
  · rfl

theorem Frame.pushNode (s : State) (nd : Node) : Frame s { s with nodes := s.nodes.push nd } := by
  refine ⟨rfl, rfl, Nat.le_refl _, fun _ _ => rfl, by simp, ?_⟩
  intro m hm
  simp [Array.getElem?_push, Nat.ne_of_lt hm]

/-! ## what `State.value` depends on -/

theorem nodeD_core_of_map_eq {s s' : State} {n : Nat}
    (h : (s'.nodes[n]?).map nodeCore = (s.nodes[n]?).map nodeCore) :
    nodeCore (s'.nodeD n) = nodeCore (s.nodeD n) := by
  simp only [State.nodeD]
  cases h1 : s.nodes[n]? <;> cases h2 : s'.nodes[n]? <;> simp_all

theorem Frame.nodeD_core {s s' : State} (h : Frame s s') {n : Nat} (hn : n < s.nodes.size) :
    nodeCore (s'.nodeD n) = nodeCore (s.nodeD n) :=
  nodeD_core_of_map_eq (h.nodes n hn)

theorem FrameS.nodeD_core {s s' : State} (h : FrameS s s') (n : Nat) :
    nodeCore (s'.nodeD n) = nodeCore (s.nodeD n) := by
  by_cases hn : n < s.nodes.size
  · exact h.toFrame.nodeD_core hn
  · have h1 : s.nodes[n]? = none := Array.getElem?_eq_none (by omega)
    have h2 : s'.nodes[n]? = none := Array.getElem?_eq_none (by rw [h.nodesEq]; omega)
    simp [State.nodeD, h1, h2]

/-- one unfolding of `valueWith`, in terms of the visible fields only -/
def valueStep (proj : Nat → Val → Val) (c : Kind × Bool × Option Val) (rec : Nat → Option Val) :
    Option Val :=
  match c with
  | (.mapRef p i, true, _) => (rec i).map (proj p)
  | (_, _, v) => v

theorem valueWith_succ (proj : Nat → Val → Val) (s : State) (fuel n : Nat) :
    s.valueWith proj (fuel + 1) n
      = valueStep proj (nodeCore (s.nodeD n)) (s.valueWith proj fuel) := by
  simp only [State.valueWith, valueStep, nodeCore, Node.kind?]
  cases hv : (s.nodeD n).valid <;> cases hk : (s.nodeD n).kind <;> simp

/-- congruence, same size: if the two states agree on `kind`/`valid`/`value` at every index, every
node has the same value (at every fuel) -/
theorem valueWith_congr (proj : Nat → Val → Val) (s s' : State)
    (h : ∀ n, nodeCore (s'.nodeD n) = nodeCore (s.nodeD n)) (fuel n : Nat) :
    s'.valueWith proj fuel n = s.valueWith proj fuel n := by
  induction fuel generalizing n with
  | zero => rfl
  | succ f ih =>
    rw [valueWith_succ, valueWith_succ, h n]
    congr 1
    funext i; exact ih i

/-- well-formedness needed when nodes are appended: MapRef inputs are earlier nodes (true of every
state built through the API with operands naming existing nodes; `kind` never changes).  It makes
the value of an existing node independent of nodes appended later and of the `valueWith` fuel. -/
def MapRefsBackward (s : State) : Prop :=
  ∀ (n : Nat) (nd : Node) (p i : Nat), s.nodes[n]? = some nd → nd.kind = Kind.mapRef p i → i < n

/-- observers watch existing nodes -/
def ObsNodesInRange (s : State) : Prop :=
  ∀ (o : Nat) (ob : ObsRec), s.observers[o]? = some ob → ob.node < s.nodes.size

/-- congruence, prefix: the first state's nodes are a prefix (up to invisible fields) of the second's -/
theorem valueWith_congr_prefix (proj : Nat → Val → Val) (s s' : State) (hwf : MapRefsBackward s)
    (h : ∀ n, n < s.nodes.size → nodeCore (s'.nodeD n) = nodeCore (s.nodeD n)) :
    ∀ n, n < s.nodes.size → ∀ f f', n < f → n < f' →
      s'.valueWith proj f' n = s.valueWith proj f n := by
  intro n
  induction n using Nat.strongRecOn with
  | _ n ih =>
    intro hn f f' hf hf'
    obtain ⟨f, rfl⟩ : ∃ g, f = g + 1 := ⟨f - 1, by omega⟩
    obtain ⟨f', rfl⟩ : ∃ g, f' = g + 1 := ⟨f' - 1, by omega⟩
    rw [valueWith_succ, valueWith_succ, h n hn]
    have hnd : s.nodes[n]? = some (s.nodeD n) := by
      simp [State.nodeD, Array.getElem?_eq_getElem hn]
    generalize hc : nodeCore (s.nodeD n) = c
    obtain ⟨k, v, val⟩ := c
    cases k <;> try rfl
    rename_i p i
    cases v <;> try rfl
    have hk : (s.nodeD n).kind = .mapRef p i := by
      have := congrArg Prod.fst hc; simpa [nodeCore] using this
    have hi : i < n := hwf n _ p i hnd hk
    simp only [valueStep]
    rw [ih i hi (by omega) f f' (by omega) (by omega)]

theorem FrameS.value_eq (env : Env) {s s' : State} (h : FrameS s s') (n : Nat) :
    s'.value env n = s.value env n := by
  simp only [State.value, h.nodesEq]
  exact valueWith_congr env.proj s s' h.nodeD_core _ n

theorem Frame.value_eq (env : Env) {s s' : State} (h : Frame s s') (hwf : MapRefsBackward s)
    {n : Nat} (hn : n < s.nodes.size) : s'.value env n = s.value env n := by
  simp only [State.value]
  have := h.nodesLe
  exact valueWith_congr_prefix env.proj s s' hwf (fun m hm => h.nodeD_core hm) n hn _ _
    (by omega) (by omega)

/-- in a `FrameS` pair every observer index has the same `node`/`state` -/
theorem FrameS.obs_all {s s' : State} (h : FrameS s s') (o : Nat) :
    (s'.observers[o]?).map obsCore = (s.observers[o]?).map obsCore := by
  by_cases ho : o < s.observers.size
  · exact h.obs o ho
  · have := h.obsEq
    rw [Array.getElem?_eq_none (by omega), Array.getElem?_eq_none (by omega)]

/-! ## what `State.tryGetValue` depends on -/

/-- the read table, as a function of exactly what the read looks at -/
def readTable (alive : Bool) (status : Status) (ob : Option (Nat × ObsState))
    (value : Nat → Option Val) : Except ObsError Val :=
  if !alive then .error .observingInvalid
  else if status == .stabilising then .error .currentlyStabilising
  else match ob with
    | none => .error .observingInvalid
    | some (_, .created) => .error .neverStabilised
    | some (n, .inUse) => match value n with
      | some v => .ok v
      | none => .error .observingInvalid
    | some (_, _) => .error .disallowed

/-- key lemma: `tryGetValue` depends only on `alive`, `status`, the observer's `node`/`state`, and
node values -/
theorem tryGetValue_eq_readTable (env : Env) (s : State) (o : Nat) :
    s.tryGetValue env o
      = readTable s.alive s.status ((s.observers[o]?).map obsCore) (s.value env) := by
  simp only [State.tryGetValue, readTable]
  split
  · rfl
  split
  · rfl
  cases h : s.observers[o]? with
  | none => rfl
  | some ob =>
    simp only [Option.map_some, obsCore]
    cases h2 : ob.state <;> rfl

theorem readTable_congr_value (alive : Bool) (status : Status) (ob : Option (Nat × ObsState))
    (v v' : Nat → Option Val) (h : ∀ n st, ob = some (n, st) → v' n = v n) :
    readTable alive status ob v' = readTable alive status ob v := by
  unfold readTable
  cases ob with
  | none => rfl
  | some p =>
    obtain ⟨n, st⟩ := p
    cases st <;> simp [h n _ rfl]

theorem FrameS.read_eq (env : Env) {s s' : State} (h : FrameS s s') (o : Nat) :
    s'.tryGetValue env o = s.tryGetValue env o := by
  rw [tryGetValue_eq_readTable, tryGetValue_eq_readTable, h.alive, h.status, h.obs_all o]
  exact readTable_congr_value _ _ _ _ _ (fun n _ _ => h.value_eq env n)

theorem Frame.read_eq (env : Env) {s s' : State} (h : Frame s s') (hwf : MapRefsBackward s)
    (hobs : ObsNodesInRange s) {o : Nat} (ho : o < s.observers.size) :
    s'.tryGetValue env o = s.tryGetValue env o := by
  rw [tryGetValue_eq_readTable, tryGetValue_eq_readTable, h.alive, h.status, h.obs o ho]
  apply readTable_congr_value
  intro n st hn
  have hob : s.observers[o]? = some s.observers[o] := Array.getElem?_eq_getElem ho
  rw [hob] at hn
  simp only [Option.map_some, obsCore, Option.some.injEq, Prod.mk.injEq] at hn
  have := hobs o _ hob
  rw [hn.1] at this
  exact h.value_eq env hwf this

/-! ## `Pres R m`: every run of `m` (returning or panicking) relates initial and final state by `R` -/

class PreOrd (R : State → State → Prop) : Prop where
  refl : ∀ s, R s s
  trans : ∀ {a b c}, R a b → R b c → R a c

instance : PreOrd Frame := ⟨Frame.refl, Frame.trans⟩
instance : PreOrd FrameS := ⟨FrameS.refl, FrameS.trans⟩

structure Pres (R : State → State → Prop) {α} (m : M α) : Prop where
  h : ∀ s r s', m.run.run s = (r, s') → R s s'

theorem Pres.mono {R R' : State → State → Prop} {α} {m : M α} (hm : Pres R m)
    (h : ∀ s s', R s s' → R' s s') : Pres R' m :=
  ⟨fun s r s' e => h _ _ (hm.h s r s' e)⟩

theorem Pres.toFrame {α} {m : M α} (hm : Pres FrameS m) : Pres Frame m :=
  hm.mono fun _ _ h => h.toFrame

section
variable {R : State → State → Prop} [PreOrd R]

theorem Pres.pure {α} (a : α) : Pres R (pure a : M α) := by
  constructor; intro s r s' h; rw [run_pure] at h; cases h; exact PreOrd.refl s
theorem Pres.get : Pres R (get : M State) := by
  constructor; intro s r s' h; rw [run_get] at h; cases h; exact PreOrd.refl s
theorem Pres.throw {α} (e : Panic) : Pres R (throw e : M α) := by
  constructor; intro s r s' h; rw [run_throw] at h; cases h; exact PreOrd.refl s
theorem Pres.panic {α} (e : String) : Pres R (IncrVerif.Engine.panic e : M α) := Pres.throw _
omit [PreOrd R] in
theorem Pres.modify {f : State → State} (hf : ∀ s, R s (f s)) : Pres R (modify f : M Unit) := by
  constructor; intro s r s' h; rw [run_modify] at h; cases h; exact hf s
theorem Pres.bind {α β} {x : M α} {f : α → M β} (hx : Pres R x) (hf : ∀ a, Pres R (f a)) :
    Pres R (x >>= f) := by
  constructor
  intro s r s' h
  rw [run_bind] at h
  rcases hx' : x.run.run s with ⟨r1, s1⟩
  rw [hx'] at h
  have h1 := hx.h s r1 s1 hx'
  cases r1 with
  | ok a => exact PreOrd.trans h1 ((hf a).h s1 r s' h)
  | error e => cases h; exact h1
theorem Pres.map {α β} {x : M α} (f : α → β) (hx : Pres R x) : Pres R (f <$> x) := by
  rw [map_eq_pure_bind]; exact Pres.bind hx (fun _ => Pres.pure _)
theorem Pres.mapM {α β} {f : α → M β} (hf : ∀ a, Pres R (f a)) (l : List α) :
    Pres R (l.mapM f) := by
  induction l with
  | nil => simp; exact Pres.pure _
  | cons a l ih => simp; exact Pres.bind (hf a) (fun _ => Pres.bind ih (fun _ => Pres.pure _))
end

/-- leaves of the decomposition: extended by `macro_rules` below -/
syntax "pres_leaf" : tactic
macro_rules | `(tactic| pres_leaf) => `(tactic| fail "no leaf")

/-- one structural step -/
macro "pres_step" : tactic => `(tactic| first
  | with_reducible apply Pres.pure | with_reducible apply Pres.get | with_reducible apply Pres.panic | with_reducible apply Pres.throw
  | pres_leaf
  | with_reducible apply Pres.bind | with_reducible apply Pres.map | with_reducible apply Pres.mapM | intro _ | split | dsimp only)

macro "pres" : tactic => `(tactic| repeat (any_goals pres_step))

/-- a `modify` that leaves `alive`, `status`, `observers`, `nodes` alone -/
macro_rules
  | `(tactic| pres_leaf) =>
    `(tactic| ((with_reducible apply Pres.modify); intro _; exact FrameS.of_eq rfl rfl rfl rfl))
macro_rules
  | `(tactic| pres_leaf) =>
    `(tactic| ((with_reducible apply Pres.modify); intro _; exact (FrameS.of_eq rfl rfl rfl rfl).toFrame))

section
variable {R : State → State → Prop} [PreOrd R]
theorem Pres.getNode (n) : Pres R (getNode n) := by unfold Engine.getNode; pres
theorem Pres.getVar (n) : Pres R (getVar n) := by unfold Engine.getVar; pres
theorem Pres.getObs (n) : Pres R (getObs n) := by unfold Engine.getObs; pres
theorem Pres.getBind (n) : Pres R (getBind n) := by unfold Engine.getBind; pres
theorem Pres.getExpert (n) : Pres R (getExpert n) := by unfold Engine.getExpert; pres
theorem Pres.dassert (c s) : Pres R (dassert c s) := by unfold Engine.dassert; pres
theorem Pres.assertM (c s) : Pres R (assertM c s) := by unfold Engine.assertM; pres
theorem Pres.isConstant (n) : Pres R (isConstant n) := by
  unfold Engine.isConstant; pres; exact Pres.getNode _; pres
theorem Pres.resolveOpnd (l o) : Pres R (resolveOpnd l o) := by unfold Engine.resolveOpnd; pres
end

macro_rules | `(tactic| pres_leaf) => `(tactic| with_reducible apply Pres.getNode)
macro_rules | `(tactic| pres_leaf) => `(tactic| with_reducible apply Pres.getVar)
macro_rules | `(tactic| pres_leaf) => `(tactic| with_reducible apply Pres.getObs)
macro_rules | `(tactic| pres_leaf) => `(tactic| with_reducible apply Pres.getBind)
macro_rules | `(tactic| pres_leaf) => `(tactic| with_reducible apply Pres.getExpert)
macro_rules | `(tactic| pres_leaf) => `(tactic| with_reducible apply Pres.dassert)
macro_rules | `(tactic| pres_leaf) => `(tactic| with_reducible apply Pres.assertM)
macro_rules | `(tactic| pres_leaf) => `(tactic| with_reducible apply Pres.isConstant)
macro_rules | `(tactic| pres_leaf) => `(tactic| with_reducible apply Pres.resolveOpnd)

theorem Pres.bumpCounter (f) : Pres FrameS (bumpCounter f) := by unfold Engine.bumpCounter; pres
theorem Pres.modVar (v f) : Pres FrameS (modVar v f) := by unfold Engine.modVar; pres
theorem Pres.modBind (v f) : Pres FrameS (modBind v f) := by unfold Engine.modBind; pres
theorem Pres.modExpert (v f) : Pres FrameS (modExpert v f) := by unfold Engine.modExpert; pres
theorem Pres.logEv (e) : Pres FrameS (logEv e) := by unfold Engine.logEv; pres
theorem Pres.modNode (n f) (hf : ∀ x, nodeCore (f x) = nodeCore x) : Pres FrameS (modNode n f) := by
  unfold Engine.modNode; exact Pres.modify fun s => FrameS.modNode s n f hf
theorem Pres.modObs (o f) (hf : ∀ x, obsCore (f x) = obsCore x) : Pres FrameS (modObs o f) := by
  unfold Engine.modObs; exact Pres.modify fun s => FrameS.modObs s o f hf

macro_rules | `(tactic| pres_leaf) => `(tactic| with_reducible apply Pres.bumpCounter)
macro_rules | `(tactic| pres_leaf) => `(tactic| with_reducible apply Pres.modVar)
macro_rules | `(tactic| pres_leaf) => `(tactic| with_reducible apply Pres.modBind)
macro_rules | `(tactic| pres_leaf) => `(tactic| with_reducible apply Pres.modExpert)
macro_rules | `(tactic| pres_leaf) => `(tactic| with_reducible apply Pres.logEv)
macro_rules | `(tactic| pres_leaf) => `(tactic| ((with_reducible apply Pres.modNode); intro _; rfl))
macro_rules | `(tactic| pres_leaf) => `(tactic| ((with_reducible apply Pres.modObs); intro _; rfl))
/-- a `FrameS` leaf also closes a `Frame` goal -/
macro_rules | `(tactic| pres_leaf) => `(tactic| ((with_reducible apply Pres.toFrame); pres_leaf))

/-! ### the recompute heap and var writes never touch a framed field -/

theorem Pres.rchLink (n) : Pres FrameS (rchLink n) := by unfold Engine.rchLink; pres
macro_rules | `(tactic| pres_leaf) => `(tactic| with_reducible apply Pres.rchLink)
theorem Pres.rchInsert (n) : Pres FrameS (rchInsert n) := by unfold Engine.rchInsert; pres
macro_rules | `(tactic| pres_leaf) => `(tactic| with_reducible apply Pres.rchInsert)
theorem Pres.didSetVarWhileNotStabilising (v) : Pres FrameS (didSetVarWhileNotStabilising v) := by
  unfold Engine.didSetVarWhileNotStabilising; pres
macro_rules | `(tactic| pres_leaf) => `(tactic| with_reducible apply Pres.didSetVarWhileNotStabilising)
theorem Pres.writeVar (v f isSet) : Pres FrameS (writeVar v f isSet) := by
  unfold Engine.writeVar; pres

/-- dropping a `Var` handle touches `vars` and `deadVars` only -/
theorem Pres.dropVarHandle (v) : Pres FrameS (dropVarHandle v) := by
  unfold Engine.dropVarHandle; pres
macro_rules | `(tactic| pres_leaf) => `(tactic| with_reducible apply Pres.dropVarHandle)
/-- `withVarHandle v act` is `act` or a no-op -/
theorem Pres.withVarHandle {R : State → State → Prop} [PreOrd R] (v) {act : M Unit}
    (h : Pres R act) : Pres R (withVarHandle v act) := by
  unfold Engine.withVarHandle; pres; exact h; exact h

theorem Pres.handleAfterStabilisation (n) : Pres FrameS (handleAfterStabilisation n) := by
  unfold Engine.handleAfterStabilisation; pres
macro_rules | `(tactic| pres_leaf) => `(tactic| with_reducible apply Pres.handleAfterStabilisation)

/-! ### node construction only appends nodes (and touches `cutoff`, binds, experts, vars, counters) -/

macro_rules
  | `(tactic| pres_leaf) => `(tactic| ((with_reducible apply Pres.modify); intro _; exact Frame.pushNode _ _))

theorem Pres.createNode (k sc c) : Pres Frame (createNode k sc c) := by
  unfold Engine.createNode; pres
macro_rules | `(tactic| pres_leaf) => `(tactic| with_reducible apply Pres.createNode)

theorem Pres.createVar (v sc) : Pres Frame (createVar v sc) := by
  unfold Engine.createVar; pres
macro_rules | `(tactic| pres_leaf) => `(tactic| with_reducible apply Pres.createVar)

theorem Pres.createBind (b l) : Pres Frame (createBind b l) := by
  unfold Engine.createBind; pres
macro_rules | `(tactic| pres_leaf) => `(tactic| with_reducible apply Pres.createBind)

theorem Pres.elabInstr (loc lhsVal i) : Pres Frame (elabInstr loc lhsVal i) := by
  unfold Engine.elabInstr; pres

/-- the `set_cutoff` instruction appends nothing -/
theorem Pres.elabCutoff (loc lhsVal n c) : Pres FrameS (Engine.elabInstr loc lhsVal (.cutoff n c)) := by
  unfold Engine.elabInstr; pres

/-! ### the two well-formedness predicates are invariants of these steps -/

theorem FrameS.mapRefsBackward {s s' : State} (h : FrameS s s') (hwf : MapRefsBackward s) :
    MapRefsBackward s' := by
  intro n nd p i hn hk
  have hlt : n < s.nodes.size := by
    rw [← h.nodesEq]; exact (Array.getElem?_eq_some_iff.1 hn).1
  have hm := h.nodes n hlt
  rw [hn, Array.getElem?_eq_getElem hlt] at hm
  simp only [Option.map_some, Option.some.injEq, nodeCore, Prod.mk.injEq] at hm
  exact hwf n _ p i (Array.getElem?_eq_getElem hlt) (hm.1.symm.trans hk)

theorem FrameS.obsNodesInRange {s s' : State} (h : FrameS s s') (hwf : ObsNodesInRange s) :
    ObsNodesInRange s' := by
  intro o ob ho
  have hlt : o < s.observers.size := by
    rw [← h.obsEq]; exact (Array.getElem?_eq_some_iff.1 ho).1
  have hm := h.obs o hlt
  rw [ho, Array.getElem?_eq_getElem hlt] at hm
  simp only [Option.map_some, Option.some.injEq, obsCore, Prod.mk.injEq] at hm
  rw [h.nodesEq, hm.1]
  exact hwf o _ (Array.getElem?_eq_getElem hlt)

/-- `createNode` always returns (it cannot panic) the index of the node it appended -/
theorem createNode_run (k : Kind) (sc : Scope) (c : CutoffK) (s : State) :
    ∃ s', (createNode k sc c).run.run s = (.ok s.nodes.size, s') ∧
      s'.nodes = s.nodes.push { kind := k, createdIn := sc, cutoff := c } ∧
      s'.observers = s.observers := by
  unfold createNode
  cases sc <;>
    simp only [bumpCounter, modBind, run_bind, run_get, run_modify, run_pure] <;>
    exact ⟨_, rfl, rfl, rfl⟩

theorem createNode_mapRefsBackward (k : Kind) (sc : Scope) (c : CutoffK) (s s' : State)
    (r : Except Panic Nat) (hrun : (createNode k sc c).run.run s = (r, s'))
    (hk : ∀ p i, k = .mapRef p i → i < s.nodes.size) (hwf : MapRefsBackward s) :
    MapRefsBackward s' := by
  obtain ⟨s'', hr, hn, _⟩ := createNode_run k sc c s
  rw [hr] at hrun
  cases hrun
  intro n nd p i hnd hkind
  rw [hn, Array.getElem?_push] at hnd
  split at hnd
  · rename_i heq
    cases hnd
    rw [heq]; exact hk p i hkind
  · exact hwf n nd p i hnd hkind

theorem createNode_obsNodesInRange (k : Kind) (sc : Scope) (c : CutoffK) (s s' : State)
    (r : Except Panic Nat) (hrun : (createNode k sc c).run.run s = (r, s'))
    (hwf : ObsNodesInRange s) : ObsNodesInRange s' := by
  obtain ⟨s'', hr, hn, ho⟩ := createNode_run k sc c s
  rw [hr] at hrun
  cases hrun
  intro o ob hob
  rw [ho] at hob
  have := hwf o ob hob
  rw [hn, Array.size_push]; omega

/-! ## C10: exact runs of the three lifecycle calls -/

/-- the lifecycle transition made by `disallow_future_use` -/
def afterDisallow : ObsState → ObsState
  | .created => .unlinked
  | .inUse => .disallowed
  | .disallowed => .disallowed
  | .unlinked => .unlinked

theorem run_getObs_some {s : State} {o : Nat} {ob : ObsRec} (h : s.observers[o]? = some ob) :
    (getObs o).run.run s = (.ok ob, s) := by
  simp only [getObs, run_bind, run_get, h, run_pure]

theorem run_getNode_some {s : State} {n : Nat} {nd : Node} (h : s.nodes[n]? = some nd) :
    (getNode n).run.run s = (.ok nd, s) := by
  simp only [getNode, run_bind, run_get, h, run_pure]

theorem disallow_run (s : State) (o : Nat) (ob : ObsRec) (h : s.observers[o]? = some ob) :
    ∃ s', (disallowFutureUse o).run.run s = (.ok (), s') ∧
      (∃ ob', s'.observers[o]? = some ob' ∧ ob'.state = afterDisallow ob.state ∧
        ob'.node = ob.node) ∧
      (∀ o', o' ≠ o → s'.observers[o']? = s.observers[o']?) ∧
      s'.observers.size = s.observers.size ∧
      s'.nodes = s.nodes ∧ s'.vars = s.vars ∧ s'.status = s.status ∧ s'.alive = s.alive ∧
      s'.stabNum = s.stabNum := by
  unfold disallowFutureUse
  rw [run_bind_ok (run_getObs_some h)]
  cases hst : ob.state
  all_goals simp only [bumpCounter, modObs, run_bind, run_modify, run_pure]
  all_goals refine ⟨_, rfl, ?_, ?_, ?_⟩
  all_goals simp [Array.getElem?_modify, h, afterDisallow, hst]
  all_goals intro o' ho' h2; exact absurd h2.symm ho'

theorem disallow_noop (s : State) (o : Nat) (ob : ObsRec) (h : s.observers[o]? = some ob)
    (hst : ob.state = .disallowed ∨ ob.state = .unlinked) :
    (disallowFutureUse o).run.run s = (.ok (), s) := by
  unfold disallowFutureUse
  rw [run_bind_ok (run_getObs_some h)]
  rcases hst with hst | hst <;> simp only [hst, run_pure]

theorem subscribe_dead (s : State) (o hid : Nat) (h : s.alive = false) :
    (subscribe o hid).run.run s = (.ok (.error .observingInvalid), s) := by
  unfold subscribe
  simp only [run_bind, run_get, h, Bool.not_false, if_true, run_pure]

theorem subscribe_disallowed (s : State) (o hid : Nat) (ob : ObsRec) (ha : s.alive = true)
    (h : s.observers[o]? = some ob) (hst : ob.state = .disallowed ∨ ob.state = .unlinked) :
    (subscribe o hid).run.run s = (.ok (.error .disallowed), s) := by
  unfold subscribe
  simp only [run_bind, run_get, ha, Bool.not_true, Bool.false_eq_true, if_false,
    run_getObs_some h]
  rcases hst with hst | hst <;> simp only [hst, run_pure]

theorem subscribe_ok (s : State) (o hid : Nat) (ob : ObsRec) (ha : s.alive = true)
    (h : s.observers[o]? = some ob) (hst : ob.state = .created ∨ ob.state = .inUse)
    (hn : ob.node < s.nodes.size) :
    ∃ s', (subscribe o hid).run.run s = (.ok (.ok s.nextToken), s') ∧
      (∃ ob', s'.observers[o]? = some ob' ∧ ob'.state = ob.state ∧ ob'.node = ob.node ∧
        ob'.handlers = ob.handlers ++ [{ token := s.nextToken, hid := hid, createdAt := s.stabNum }]) ∧
      (∀ o', o' ≠ o → s'.observers[o']? = s.observers[o']?) ∧
      s'.observers.size = s.observers.size ∧ s'.nextToken = s.nextToken + 1 ∧
      s'.vars = s.vars ∧ s'.stabNum = s.stabNum ∧ s'.rch = s.rch ∧
      (∀ n, n ≠ ob.node → s'.nodes[n]? = s.nodes[n]?) := by
  unfold subscribe
  simp only [run_bind, run_get, ha, Bool.not_true, Bool.false_eq_true, if_false,
    run_getObs_some h]
  have hnd : s.nodes[ob.node]? = some s.nodes[ob.node] := Array.getElem?_eq_getElem hn
  rcases hst with hst | hst
  all_goals simp only [hst, run_modify, modObs, modNode, handleAfterStabilisation, run_bind]
  all_goals simp only [getNode, run_bind, run_get, run_pure, run_modify, Array.getElem?_modify, hnd,
    if_true, Option.map_some, reduceCtorEq, beq_self_eq_true, beq_iff_eq, if_false]
  all_goals cases hb : s.nodes[ob.node].inHandleAfterStab
  all_goals simp only [Bool.not_false, Bool.not_true, if_true, Bool.false_eq_true, if_false,
    run_bind, run_modify, run_pure]
  all_goals refine ⟨_, rfl, ?_, ?_, ?_, rfl, rfl, rfl, rfl, ?_⟩
  all_goals simp [Array.getElem?_modify, h, hst]
  all_goals intro o' ho'
  all_goals first
    | (intro h2; exact absurd h2.symm ho')
    | (have hne : ¬ ob.node = o' := fun e => ho' e.symm
       simp [hne])

theorem unsubscribe_mismatch (s : State) (o token owner : Nat) (h : owner ≠ o) :
    (unsubscribe o token owner).run.run s = (.ok (.error .mismatch), s) := by
  unfold unsubscribe
  simp only [bne_iff_ne, ne_eq, h, not_false_eq_true, if_true, run_pure]

theorem unsubscribe_noop (s : State) (o token : Nat) (ob : ObsRec)
    (h : s.observers[o]? = some ob) (hst : ob.state = .disallowed ∨ ob.state = .unlinked) :
    (unsubscribe o token o).run.run s = (.ok (.ok ()), s) := by
  unfold unsubscribe
  simp only [bne_self_eq_false, Bool.false_eq_true, if_false, run_bind, run_getObs_some h]
  rcases hst with hst | hst <;> simp only [hst, run_pure]

theorem unsubscribe_ok (s : State) (o token : Nat) (ob : ObsRec)
    (h : s.observers[o]? = some ob) (hst : ob.state = .created ∨ ob.state = .inUse) :
    ∃ s', (unsubscribe o token o).run.run s = (.ok (.ok ()), s') ∧
      (∃ ob', s'.observers[o]? = some ob' ∧ ob'.state = ob.state ∧ ob'.node = ob.node ∧
        ob'.handlers = ob.handlers.filter (·.token != token)) ∧
      (∀ o', o' ≠ o → s'.observers[o']? = s.observers[o']?) ∧
      s'.observers.size = s.observers.size ∧ s'.nextToken = s.nextToken ∧
      s'.vars = s.vars ∧ s'.stabNum = s.stabNum ∧ s'.rch = s.rch ∧
      (∀ n, n ≠ ob.node → s'.nodes[n]? = s.nodes[n]?) := by
  unfold unsubscribe
  simp only [bne_self_eq_false, Bool.false_eq_true, if_false, run_bind, run_getObs_some h]
  rcases hst with hst | hst
  all_goals simp only [hst, modObs, modNode, run_bind, run_modify, run_pure, reduceCtorEq,
    beq_self_eq_true, beq_iff_eq, Bool.and_eq_true, false_and, true_and, if_false]
  all_goals cases hb : ob.handlers.any (fun x => x.token == token)
  all_goals try simp only [Bool.false_eq_true, if_false, if_true, run_bind, run_modify, run_pure]
  all_goals refine ⟨_, rfl, ?_, ?_, ?_, rfl, rfl, rfl, rfl, ?_⟩
  all_goals simp [Array.getElem?_modify, h, hst]
  all_goals intro o' ho'
  all_goals first
    | (intro h2; exact absurd h2.symm ho')
    | (have hne : ¬ ob.node = o' := fun e => ho' e.symm
       simp [hne])

theorem Pres.subscribe (o hid) : Pres FrameS (subscribe o hid) := by
  unfold Engine.subscribe; pres

theorem Pres.unsubscribe (o t w) : Pres FrameS (unsubscribe o t w) := by
  unfold Engine.unsubscribe; pres

/-! ## API level: `stepAction` -/

theorem Pres.setMaxHeightAllowed (k) : Pres FrameS (setMaxHeightAllowed k) := by
  unfold Engine.setMaxHeightAllowed; pres

theorem Pres.discard {R : State → State → Prop} [PreOrd R] {α} {x : M α} (hx : Pres R x) :
    Pres R (discard x) := by
  unfold Functor.discard
  rw [LawfulFunctor.map_const]
  exact Pres.map _ hx

macro_rules | `(tactic| pres_leaf) => `(tactic| with_reducible apply Pres.setMaxHeightAllowed)
macro_rules | `(tactic| pres_leaf) => `(tactic| with_reducible apply Pres.writeVar)
macro_rules | `(tactic| pres_leaf) => `(tactic| with_reducible apply Pres.subscribe)
macro_rules | `(tactic| pres_leaf) => `(tactic| with_reducible apply Pres.unsubscribe)
macro_rules | `(tactic| pres_leaf) => `(tactic| with_reducible apply Pres.elabInstr)
macro_rules | `(tactic| pres_leaf) => `(tactic| with_reducible apply Pres.discard)

/-! ### templates without memoised calls, memoised calls: only append nodes -/

theorem Pres.forIn {R : State → State → Prop} [PreOrd R] {α β} {l : List α} {init : β}
    {f : α → β → M (ForInStep β)} (hf : ∀ a b, Pres R (f a b)) : Pres R (forIn l init f) := by
  induction l generalizing init with
  | nil => rw [List.forIn_nil]; exact Pres.pure _
  | cons a l ih =>
    rw [List.forIn_cons]
    refine Pres.bind (hf a init) fun r => ?_
    cases r with
    | done b => exact Pres.pure _
    | yield b => exact ih

macro_rules | `(tactic| pres_leaf) => `(tactic| with_reducible apply Pres.forIn)

theorem Pres.tick : Pres FrameS tick := by unfold Engine.tick; pres
macro_rules | `(tactic| pres_leaf) => `(tactic| with_reducible apply Pres.tick)

theorem Pres.elabTemplateBase (t lhs init) : Pres Frame (elabTemplateBase t lhs init) := by
  unfold Engine.elabTemplateBase; pres
macro_rules | `(tactic| pres_leaf) => `(tactic| with_reducible apply Pres.elabTemplateBase)

theorem Pres.memoCall (env m key) : Pres Frame (memoCall env m key) := by
  unfold Engine.memoCall; pres
macro_rules | `(tactic| pres_leaf) => `(tactic| with_reducible apply Pres.memoCall)

theorem Pres.elabInstrM (env loc lhsVal i) : Pres Frame (elabInstrM env loc lhsVal i) := by
  unfold Engine.elabInstrM; pres
macro_rules | `(tactic| pres_leaf) => `(tactic| with_reducible apply Pres.elabInstrM)

/-- the API actions that neither stabilise, nor construct nodes, nor create or end an observer,
nor add an expert edge: var writes and reads, `clone` of an observer handle, `drop` of a var
handle, `drop` of a node handle (`.dropHandle`: touches `handles` only), (un)subscribe, fault arming,
`set_max_height_allowed`, `is_stable`, stats.  `.dropAll` is not quiet: it clears `alive`. -/
def Action.isQuiet : Action → Bool
  | .stabilise | .create _ | .observe _ | .disallow _ | .dropObs _ | .addDep .. | .dropAll => false
  | _ => true

theorem Pres.stepAction_quiet (env : Env) (a : Action) (tokens : Array Nat)
    (ha : Action.isQuiet a = true) : Pres FrameS (stepAction env a tokens) := by
  cases a <;> simp only [Action.isQuiet, Bool.false_eq_true] at ha
  all_goals simp only [Engine.stepAction]
  all_goals pres

theorem Pres.stepAction_create (env : Env) (i : Instr) (tokens : Array Nat) :
    Pres Frame (stepAction env (.create i) tokens) := by
  simp only [Engine.stepAction]
  pres

/-! ## glue used by the property files -/

theorem run_getObs_none {s : State} {o : Nat} (h : s.observers[o]? = none) :
    (getObs o).run.run s = (.error (.site "model:no-such-observer"), s) := by
  simp only [getObs, run_bind, run_get, h, Engine.panic, run_throw]

theorem disallow_out_of_range (s : State) (o : Nat) (h : s.observers[o]? = none) :
    (disallowFutureUse o).run.run s = (.error (.site "model:no-such-observer"), s) := by
  unfold disallowFutureUse
  rw [run_bind_error (run_getObs_none h)]

theorem value_congr_nodes (env : Env) {s s' : State} (h : s'.nodes = s.nodes) (n : Nat) :
    s'.value env n = s.value env n := by
  simp only [State.value, h]
  exact valueWith_congr env.proj s s' (fun m => by simp [State.nodeD, h]) _ n

/-- a read only looks at `alive`, `status`, its own record and the nodes -/
theorem read_congr (env : Env) {s s' : State} {o : Nat} (h1 : s'.alive = s.alive)
    (h2 : s'.status = s.status) (h3 : s'.observers[o]? = s.observers[o]?)
    (h4 : s'.nodes = s.nodes) : s'.tryGetValue env o = s.tryGetValue env o := by
  rw [tryGetValue_eq_readTable, tryGetValue_eq_readTable, h1, h2, h3]
  exact readTable_congr_value _ _ _ _ _ (fun n _ _ => value_congr_nodes env h4 n)

/-- what `stepAction (.observe n)` does to the state, once the operand is resolved to node `n` -/
def pushObserver (s : State) (n : Nat) : State :=
  { s with
    observers := s.observers.push { node := n },
    newObservers := s.newObservers ++ [s.observers.size],
    counters := { s.counters with activeObservers := s.counters.activeObservers + 1 } }

theorem pushObserver_read_old (env : Env) (s : State) (n : Nat) {o : Nat}
    (ho : o < s.observers.size) :
    (pushObserver s n).tryGetValue env o = s.tryGetValue env o := by
  refine read_congr env rfl rfl ?_ rfl
  simp [pushObserver, Array.getElem?_push, Nat.ne_of_lt ho]

theorem pushObserver_read_new (env : Env) (s : State) (n : Nat) (ha : s.alive = true)
    (hs : s.status ≠ .stabilising) :
    (pushObserver s n).tryGetValue env s.observers.size = .error .neverStabilised := by
  simp [State.tryGetValue, pushObserver, ha, hs]

theorem pushObserver_obsNodesInRange (s : State) (n : Nat) (hn : n < s.nodes.size)
    (hwf : ObsNodesInRange s) : ObsNodesInRange (pushObserver s n) := by
  intro o ob hob
  simp only [pushObserver, Array.getElem?_push] at hob
  split at hob
  · cases hob; exact hn
  · exact hwf o ob hob

/-! ## concrete states for the non-vacuity examples -/

/-- an environment whose projections are the identity -/
def exEnv : Env where
  fn _ _ := .unit
  fnEff _ _ := []
  foldStep _ a _ := a
  proj _ v := v
  withOld _ σ _ v := (σ, v, true)
  cutoff _ _ _ := false
  body _ _ := { instrs := [], ret := .abs 0 }
  handler _ _ := []
  expertFn _ _ _ := .unit
  withOldCalls _ _ _ _ := []
  memo _ := { instrs := [], ret := .abs 0 }
  perKey _ := { instrs := [], ret := .abs 0 }

/-- a state as left by one stabilisation: var 0 is node 0 (value 5), node 1 is a MapRef over node 0,
node 2 a constant that was invalidated; observer 0 is in use on node 1, observer 1 freshly created
on node 0, observer 2 disallowed, observer 3 unlinked, observer 4 in use on the invalid node 2. -/
def exState : State :=
  { State.init 4 with
    nodes := #[
      { kind := .var 0, createdIn := .top, value := some (.int 5), recomputedAt := 0, changedAt := 0,
        height := 0, parents := [(1, 0)], observers := [2] },
      { kind := .mapRef 0 0, createdIn := .top, recomputedAt := 0, changedAt := 0, height := 1,
        observers := [0], didChange := false },
      { kind := .const .unit, createdIn := .top, valid := false, recomputedAt := 0, changedAt := 0,
        observers := [4] }],
    vars := #[{ value := .int 5, setAt := 0, node := 0 }],
    observers := #[
      { node := 1, state := .inUse }, { node := 0 }, { node := 0, state := .disallowed },
      { node := 0, state := .unlinked }, { node := 2, state := .inUse }],
    stabNum := 1, newObservers := [1], disallowedObservers := [2], allObservers := [0, 2, 4],
    top := #[0, 1, 2] }

theorem exState_mapRefsBackward : MapRefsBackward exState := by
  intro n nd p i hn hk
  have hlt : n < 3 := (Array.getElem?_eq_some_iff.1 hn).1
  have h3 : n = 0 ∨ n = 1 ∨ n = 2 := by omega
  rcases h3 with rfl | rfl | rfl <;> (cases hn; cases hk) <;> decide

theorem exState_obsNodesInRange : ObsNodesInRange exState := by
  intro o ob ho
  have hlt : o < 5 := (Array.getElem?_eq_some_iff.1 ho).1
  have h5 : o = 0 ∨ o = 1 ∨ o = 2 ∨ o = 3 ∨ o = 4 := by omega
  rcases h5 with rfl | rfl | rfl | rfl | rfl <;> (cases ho; decide)

/-- `exState` with observer 4 re-pointed at node 3, which does not exist: violates
`ObsNodesInRange` -/
def exDanglingObs : State :=
  { exState with observers := exState.observers.modify 4 fun x => { x with node := 3 } }

/-- `exState` with node 1 re-pointed at input 3, which does not exist: violates
`MapRefsBackward` -/
def exForwardRef : State :=
  { exState with nodes := exState.nodes.modify 1 fun x => { x with kind := .mapRef 0 3 } }

end IncrVerif.Proofs.Obs
