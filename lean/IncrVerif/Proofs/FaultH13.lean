import IncrVerif.Proofs.FaultH12
/-!
# Faults in whole histories, part H0: the shadow calculus

`er s` erases from a state what a panic in an update handler leaves different from the fault-free final state: the status
(set to `notStabilising`), the `prev` field of every handler record, the log and the memo tables.  `Sim x x'`: from a state
that is not `stabilising`, WHATEVER the outcome of the run of `x` from `s`, the run of `x'` from `er s` has the same outcome
and ends in `er` of the final state.  No action other than `stabilise` reads what `er` erases.
-/
namespace IncrVerif.Proofs.FaultH
open IncrVerif.Engine IncrVerif.Proofs IncrVerif.Proofs.Step

@[reducible] def erH (h : HandlerRec) : HandlerRec := { h with prev := .neverBeenUpdated }
@[reducible] def erOb (ob : ObsRec) : ObsRec := { ob with handlers := ob.handlers.map erH }
@[reducible] def er (s : State) : State :=
  { s with status := .notStabilising, observers := s.observers.map erOb, log := [], memos := [] }

/-- `er s` with the observer table given -/
@[reducible] def erWith (s : State) (obs : Array ObsRec) : State :=
  { s with status := .notStabilising, observers := obs, log := [], memos := [] }

/-- the state is not in the propagation phase (healthy, or poisoned by a handler panic) -/
def NS (s : State) : Prop := s.status ≠ .stabilising

def SimAt (s : State) {α} (x x' : M α) : Prop :=
  NS s → ∀ (r : Except Panic α) s', x.run.run s = (r, s') → x'.run.run (er s) = (r, er s') ∧ NS s'

def Sim {α} (x x' : M α) : Prop := ∀ s, SimAt s x x'

namespace SimAt
variable {s : State} {α β : Type}

theorem ret (a : α) : SimAt s (pure a : M α) (pure a) := by
  intro hn r s' h; rw [run_pure] at h; cases h; exact ⟨rfl, hn⟩

theorem thr (e : Panic) : SimAt s (throw e : M α) (throw e) := by
  intro hn r s' h; rw [run_throw] at h; cases h; exact ⟨rfl, hn⟩

theorem pan (e : String) : SimAt s (Engine.panic e : M α) (Engine.panic e) := thr _

theorem seq {x x' : M α} {f f' : α → M β} (hx : SimAt s x x')
    (hf : ∀ a s1, x.run.run s = (.ok a, s1) → SimAt s1 (f a) (f' a)) :
    SimAt s (x >>= f) (x' >>= f') := by
  intro hn r s' h
  rcases h1 : x.run.run s with ⟨a, s1⟩
  cases a with
  | error e =>
    obtain ⟨e1, n1⟩ := hx hn _ s1 h1
    rw [run_bind_err h1] at h; cases h
    exact ⟨run_bind_err e1, n1⟩
  | ok a =>
    obtain ⟨e1, n1⟩ := hx hn _ s1 h1
    rw [run_bind_ok h1] at h; rw [run_bind_ok e1]
    exact hf a s1 h1 n1 r s' h

theorem get_seq {k k' : State → M β} (h : SimAt s (k s) (k' (er s))) :
    SimAt s (get >>= k) (get >>= k') := by
  intro hn r s' hr
  rw [run_bind_get] at hr ⊢
  exact h hn r s' hr

theorem getNode_seq {n : Nat} {k k' : Node → M β}
    (h : ∀ nd, s.nodes[n]? = some nd → SimAt s (k nd) (k' nd)) :
    SimAt s (getNode n >>= k) (getNode n >>= k') := by
  intro hn r s' hr
  cases hnd : s.nodes[n]? with
  | none =>
    have hv : (er s).nodes[n]? = none := hnd
    rw [run_bind_err (run_getNode_none hnd)] at hr
    cases hr
    exact ⟨run_bind_err (run_getNode_none hv), hn⟩
  | some nd =>
    have hv : (er s).nodes[n]? = some nd := hnd
    rw [run_bind_ok (run_getNode_some hnd)] at hr
    rw [run_bind_ok (run_getNode_some hv)]
    exact h nd hnd hn r s' hr

theorem run_getObs (o : Nat) (s : State) :
    (getObs o).run.run s = match s.observers[o]? with
      | some ob => (.ok ob, s)
      | none => (.error (.site "model:no-such-observer"), s) := by
  unfold getObs
  rw [run_bind_get]
  cases s.observers[o]? <;> rfl

theorem er_obs (s : State) (o : Nat) : (er s).observers[o]? = (s.observers[o]?).map erOb := by
  show (s.observers.map erOb)[o]? = _
  rw [Array.getElem?_map]

theorem getObs_seq {o : Nat} {k k' : ObsRec → M β}
    (h : ∀ ob, s.observers[o]? = some ob → SimAt s (k ob) (k' (erOb ob))) :
    SimAt s (getObs o >>= k) (getObs o >>= k') := by
  intro hn r s' hr
  cases hob : s.observers[o]? with
  | none =>
    have hv : (er s).observers[o]? = none := by rw [er_obs, hob]; rfl
    have e1 : (getObs o).run.run s = (.error (.site "model:no-such-observer"), s) := by rw [run_getObs, hob]
    have e2 : (getObs o).run.run (er s) = (.error (.site "model:no-such-observer"), er s) := by rw [run_getObs, hv]
    rw [run_bind_err e1] at hr
    cases hr
    exact ⟨run_bind_err e2, hn⟩
  | some ob =>
    have hv : (er s).observers[o]? = some (erOb ob) := by rw [er_obs, hob]; rfl
    have e1 : (getObs o).run.run s = (.ok ob, s) := by rw [run_getObs, hob]
    have e2 : (getObs o).run.run (er s) = (.ok (erOb ob), er s) := by rw [run_getObs, hv]
    rw [run_bind_ok e1] at hr
    rw [run_bind_ok e2]
    exact h ob hob hn r s' hr

theorem mod {f f' : State → State} (h : er (f s) = f' (er s)) (hs : (f s).status = s.status) :
    SimAt s (modify f : M Unit) (modify f') := by
  intro hne r s' hr; rw [run_modify] at hr ⊢; cases hr; rw [h]
  exact ⟨rfl, by unfold NS at *; rw [hs]; exact hne⟩

theorem mod_seq {f f' : State → State} {k k' : Unit → M β} (h : er (f s) = f' (er s))
    (hs : (f s).status = s.status) (hk : SimAt (f s) (k ()) (k' ())) :
    SimAt s ((modify f : M Unit) >>= k) ((modify f' : M Unit) >>= k') := by
  intro hne r s' hr
  rw [run_bind_modify] at hr ⊢
  rw [← h]
  exact hk (by unfold NS at *; rw [hs]; exact hne) r s' hr

theorem cond {c c' : Prop} {_ : Decidable c} {_ : Decidable c'} {a b a' b' : M α} (hc : c ↔ c')
    (ha : c → SimAt s a a') (hb : ¬ c → SimAt s b b') :
    SimAt s (if c then a else b) (if c' then a' else b') := by
  by_cases h : c
  · rw [if_pos h, if_pos (hc.1 h)]; exact ha h
  · rw [if_neg h, if_neg (fun h' => h (hc.2 h'))]; exact hb h

theorem map {x x' : M α} (f : α → β) (hx : SimAt s x x') : SimAt s (f <$> x) (f <$> x') := by
  rw [map_eq_pure_bind, map_eq_pure_bind]
  exact seq hx fun _ _ _ => ret _

theorem discard {x x' : M α} (hx : SimAt s x x') : SimAt s (discard x) (discard x') := by
  unfold Functor.discard
  exact map (Function.const α PUnit.unit) hx

end SimAt

theorem Sim.at {α} {x x' : M α} (h : Sim x x') (s : State) : SimAt s x x' := h s

theorem Sim.modNode (n : Nat) (f : Node → Node) : Sim (Engine.modNode n f) (Engine.modNode n f) := by
  intro s hne r s' hr
  rw [run_modNode] at hr ⊢
  cases hr
  exact ⟨rfl, hne⟩

theorem Sim.modObs (o : Nat) {f f' : ObsRec → ObsRec} (hf : ∀ x, erOb (f x) = f' (erOb x)) :
    Sim (Engine.modObs o f) (Engine.modObs o f') := by
  intro s hne r s' hr
  unfold Engine.modObs at hr ⊢
  rw [run_modify] at hr ⊢
  cases hr
  refine ⟨?_, hne⟩
  have key : (s.observers.map erOb).modify o f' = (s.observers.modify o f).map erOb := by
    apply Array.ext_getElem?
    intro i
    simp only [Array.getElem?_map, Array.getElem?_modify]
    split
    · cases s.observers[i]? <;> simp [hf]
    · rfl
  exact congrArg (fun obs => ((Except.ok () : Except Panic Unit), erWith s obs)) key

end IncrVerif.Proofs.FaultH
