import IncrVerif.Proofs.NestH64
import IncrVerif.Proofs.NestH59
import IncrVerif.Proofs.BindH110
/-!
# Nested binds (F2): non-vacuity — a history with a NESTED bind whose outer AND inner left-hand sides change

`nEnv`: `f0` = sum of the integer views.
* closure 1 (OUTER): on an even lhs value `bind b0 n1 ; map f0 [%0, n2] ; ret %1` (an inner bind over `n1`, plus `n2`), on an odd one `lhsconst ; ret %0`;
* closure 0 (INNER): on an even lhs value `map f0 [n2, n2] ; ret %0`, on an odd one `lhsconst ; map f0 [%0, n2] ; ret %1`.
History `exHistN`: `v0 := 0; v1 := 0; v2 := 3; b := bind v0 closure1; observe b; stabilise` (reads `(3+3)+3 = 9`); `v1 := 1; stabilise` (the INNER lhs changes:
the inner change detector re-runs, the inner generation is replaced; reads `(1+3)+3 = 7`); `v0 := 1; stabilise` (the OUTER lhs changes: the outer generation —
the inner bind's two nodes, its generation, the map node — is invalidated; reads `1`); `v0 := 2; stabilise` (a FRESH inner bind record is created; reads `7`).
-/
namespace IncrVerif.Proofs.NestH
open IncrVerif.Engine IncrVerif.Driver IncrVerif.Proofs IncrVerif.Proofs.Step IncrVerif.Proofs.Sched IncrVerif.Proofs.Quiet
open IncrVerif.Proofs.BindH

def nEnv : Env :=
  { exEnv with
    body := fun b lhs =>
      if b = 1 then
        if lhs.toInt % 2 = 0 then { instrs := [.bind 0 (.outer 1), .map 0 [.loc 0, .outer 2]], ret := .loc 1 }
        else { instrs := [.lhsConst], ret := .loc 0 }
      else
        if lhs.toInt % 2 = 0 then { instrs := [.map 0 [.outer 2, .outer 2]], ret := .loc 0 }
        else { instrs := [.lhsConst, .map 0 [.loc 0, .outer 2]], ret := .loc 1 } }

/-- the example history -/
def exHistN : List Action :=
  [.create (.var (.int 0)), .create (.var (.int 0)), .create (.var (.int 3)), .create (.bind 1 (.outer 0)), .observe (.outer 3),
    .stabilise, .set 1 (.int 1), .stabilise, .set 0 (.int 1), .stabilise, .set 0 (.int 2), .stabilise]

namespace NX

theorem hf0 : (0 : Nat) < fnPerKey ∧ ((0 : Nat) < fnZip → ∀ vals, nEnv.fnEff 0 vals = []) :=
  ⟨by decide, fun _ _ => rfl⟩

theorem body0_even {v : Val} (h : v.toInt % 2 = 0) :
    nEnv.body 0 v = { instrs := [.map 0 [.outer 2, .outer 2]], ret := .loc 0 } := by
  simp [nEnv, h]

theorem body0_odd {v : Val} (h : ¬ v.toInt % 2 = 0) :
    nEnv.body 0 v = { instrs := [.lhsConst, .map 0 [.loc 0, .outer 2]], ret := .loc 1 } := by
  simp [nEnv, h]

theorem body1_even {v : Val} (h : v.toInt % 2 = 0) :
    nEnv.body 1 v = { instrs := [.bind 0 (.outer 1), .map 0 [.loc 0, .outer 2]], ret := .loc 1 } := by
  simp [nEnv, h]

theorem body1_odd {v : Val} (h : ¬ v.toInt % 2 = 0) :
    nEnv.body 1 v = { instrs := [.lhsConst], ret := .loc 0 } := by
  simp [nEnv, h]

/-- the inner closure is in the fragment (no nesting: fuel 1) for a naming table with three entries -/
theorem nEnv_body0 : BodyF2 nEnv 3 1 0 := by
  intro v
  by_cases h : v.toInt % 2 = 0
  · rw [body0_even h]
    refine ⟨?_, show (0 : Nat) < 1 by decide⟩
    intro j i hj
    match j, hj with
    | 0, hj =>
      cases hj
      refine ⟨hf0.1, hf0.2, ?_⟩
      intro a ha
      simp only [List.mem_cons, List.mem_nil_iff, or_false, or_self] at ha
      rw [ha]; exact (show (2 : Nat) < 3 by decide)
    | j + 1, hj => cases hj
  · rw [body0_odd h]
    refine ⟨?_, show (1 : Nat) < 2 by decide⟩
    intro j i hj
    match j, hj with
    | 0, hj => cases hj; trivial
    | 1, hj =>
      cases hj
      refine ⟨hf0.1, hf0.2, ?_⟩
      intro a ha
      simp only [List.mem_cons, List.mem_nil_iff, or_false] at ha
      rcases ha with ha | ha
      · rw [ha]; exact (show (0 : Nat) < 1 by decide)
      · rw [ha]; exact (show (2 : Nat) < 3 by decide)
    | j + 2, hj => cases hj

/-- the outer closure is in the fragment (nesting depth 2) for a naming table with three entries -/
theorem nEnv_body1 : BodyF2 nEnv 3 2 1 := by
  intro v
  by_cases h : v.toInt % 2 = 0
  · rw [body1_even h]
    refine ⟨?_, show (1 : Nat) < 2 by decide⟩
    intro j i hj
    match j, hj with
    | 0, hj =>
      cases hj
      exact ⟨nEnv_body0, show (1 : Nat) < 3 by decide⟩
    | 1, hj =>
      cases hj
      refine ⟨hf0.1, hf0.2, ?_⟩
      intro a ha
      simp only [List.mem_cons, List.mem_nil_iff, or_false] at ha
      rcases ha with ha | ha
      · rw [ha]; exact (show (0 : Nat) < 1 by decide)
      · rw [ha]; exact (show (2 : Nat) < 3 by decide)
    | j + 2, hj => cases hj
  · rw [body1_odd h]
    refine ⟨?_, show (0 : Nat) < 1 by decide⟩
    intro j i hj
    match j, hj with
    | 0, hj => cases hj; trivial
    | j + 1, hj => cases hj

/-- a fact about the state a history of `nEnv` ends in -/
def factN {α} (acts : List Action) (f : State → α) : Option α := (C2h.stateB nEnv acts).map f

end NX

/-- the example is a history of the fragment -/
theorem exHistN_frag : HistF2 nEnv 0 exHistN := by
  simp only [exHistN, HistF2, ActionF2, InstrTop2, StaticInstr, Quiet.OpndOK, and_true, true_and]
  exact ⟨⟨0, rfl⟩, 2, NX.nEnv_body1⟩

set_option maxRecDepth 100000 in
/-- the example history runs without panic -/
theorem exHistN_runs : ∃ s tk, Quiet.runActions nEnv exHistN (State.init 128 true) #[] = .ok (s, tk) :=
  C2h.ranB_iff (by decide +kernel)

set_option maxRecDepth 100000 in
/-- the reads of the observer after the four `stabilise`s: `(3+3)+3 = 9`, `(1+3)+3 = 7`, `1`, `(1+3)+3 = 7` -/
theorem exHistN_reads : C2h.readB nEnv (exHistN.take 6) 0 = some (.int 9) ∧
    C2h.readB nEnv (exHistN.take 8) 0 = some (.int 7) ∧
    C2h.readB nEnv (exHistN.take 10) 0 = some (.int 1) ∧
    C2h.readB nEnv exHistN 0 = some (.int 7) :=
  ⟨by decide +kernel, by decide +kernel, by decide +kernel, by decide +kernel⟩

set_option maxRecDepth 100000 in
/-- the reads agree with the specification-level semantics `den2` of node 4 (the outer bind's main node) -/
theorem exHistN_den : NX.factN (exHistN.take 6) (fun s => den2 nEnv s 10 4) = some (some (.int 9)) ∧
    NX.factN (exHistN.take 8) (fun s => den2 nEnv s 10 4) = some (some (.int 7)) ∧
    NX.factN (exHistN.take 10) (fun s => den2 nEnv s 10 4) = some (some (.int 1)) ∧
    NX.factN exHistN (fun s => den2 nEnv s 10 4) = some (some (.int 7)) :=
  ⟨by decide +kernel, by decide +kernel, by decide +kernel, by decide +kernel⟩

set_option maxRecDepth 100000 in
/-- after the first `stabilise`: nodes 3, 4 = the outer bind (top level); the outer closure created, in scope `.bind 0`, the inner bind's change detector 5 and main
node 6 (record 1) and node 7 = `map f0 [6, 2]`; the inner closure created node 8 = `map f0 [2, 2]` in scope `.bind 1` -/
theorem exHistN_first :
    NX.factN (exHistN.take 6) (fun s => s.nodes.size) = some 9 ∧
    NX.factN (exHistN.take 6) (fun s => (s.nodeD 5).kind) = some (.bindLhsChange 1) ∧
    NX.factN (exHistN.take 6) (fun s => (s.nodeD 6).kind) = some (.bindMain 1 5) ∧
    NX.factN (exHistN.take 6) (fun s => (s.nodeD 5).createdIn) = some (.bind 0) ∧
    NX.factN (exHistN.take 6) (fun s => (s.nodeD 6).createdIn) = some (.bind 0) ∧
    NX.factN (exHistN.take 6) (fun s => (s.nodeD 7).kind) = some (.map 0 [6, 2]) ∧
    NX.factN (exHistN.take 6) (fun s => (s.nodeD 8).kind) = some (.map 0 [2, 2]) ∧
    NX.factN (exHistN.take 6) (fun s => (s.nodeD 8).createdIn) = some (.bind 1) ∧
    NX.factN (exHistN.take 6) (fun s => s.binds[0]?.map (·.allNodesCreatedOnRhs)) = some (some [5, 6, 7]) ∧
    NX.factN (exHistN.take 6) (fun s => s.binds[1]?.map (·.allNodesCreatedOnRhs)) = some (some [8]) ∧
    NX.factN (exHistN.take 6) (fun s => s.binds[1]?.map (·.rhs)) = some (some (some 8)) ∧
    NX.factN (exHistN.take 6) (fun s => s.binds[0]?.map (·.rhs)) = some (some (some 7)) :=
  ⟨by decide +kernel, by decide +kernel, by decide +kernel, by decide +kernel, by decide +kernel, by decide +kernel,
    by decide +kernel, by decide +kernel, by decide +kernel, by decide +kernel, by decide +kernel, by decide +kernel⟩

set_option maxRecDepth 100000 in
/-- the second `stabilise` (INNER lhs changed): node 8 is invalidated, the inner closure's other variant created nodes 9, 10 in scope `.bind 1`;
the outer generation is untouched -/
theorem exHistN_inner_switch :
    NX.factN (exHistN.take 8) (fun s => s.nodes.size) = some 11 ∧
    NX.factN (exHistN.take 8) (fun s => (s.nodeD 8).valid) = some false ∧
    NX.factN (exHistN.take 8) (fun s => (s.nodeD 10).kind) = some (.map 0 [9, 2]) ∧
    NX.factN (exHistN.take 8) (fun s => (s.nodeD 10).createdIn) = some (.bind 1) ∧
    NX.factN (exHistN.take 8) (fun s => s.binds[1]?.map (·.allNodesCreatedOnRhs)) = some (some [9, 10]) ∧
    NX.factN (exHistN.take 8) (fun s => s.binds[1]?.map (·.rhs)) = some (some (some 10)) ∧
    NX.factN (exHistN.take 8) (fun s => s.binds[0]?.map (·.allNodesCreatedOnRhs)) = some (some [5, 6, 7]) ∧
    NX.factN (exHistN.take 8) (fun s => ((s.nodeD 5).valid, (s.nodeD 6).valid, (s.nodeD 7).valid)) = some (true, true, true) :=
  ⟨by decide +kernel, by decide +kernel, by decide +kernel, by decide +kernel, by decide +kernel, by decide +kernel,
    by decide +kernel, by decide +kernel⟩

set_option maxRecDepth 100000 in
/-- the third `stabilise` (OUTER lhs changed): the whole outer generation dies — the inner bind's change detector 5 and main node 6, the map node 7 AND the inner
generation 9, 10 (through `invalidateNode` on the inner main node); the dead inner record has lost its list; the new generation is node 11 -/
theorem exHistN_outer_switch :
    NX.factN (exHistN.take 10) (fun s => s.nodes.size) = some 12 ∧
    NX.factN (exHistN.take 10) (fun s => ((s.nodeD 5).valid, (s.nodeD 6).valid, (s.nodeD 7).valid, (s.nodeD 9).valid, (s.nodeD 10).valid)) =
      some (false, false, false, false, false) ∧
    NX.factN (exHistN.take 10) (fun s => s.binds[1]?.map (·.allNodesCreatedOnRhs)) = some (some []) ∧
    NX.factN (exHistN.take 10) (fun s => s.binds[0]?.map (·.allNodesCreatedOnRhs)) = some (some [11]) ∧
    NX.factN (exHistN.take 10) (fun s => s.binds[0]?.map (·.rhs)) = some (some (some 11)) ∧
    NX.factN (exHistN.take 10) (fun s => (s.nodeD 11).createdIn) = some (.bind 0) :=
  ⟨by decide +kernel, by decide +kernel, by decide +kernel, by decide +kernel, by decide +kernel, by decide +kernel⟩

set_option maxRecDepth 100000 in
/-- the fourth `stabilise` (outer lhs even again): a FRESH inner bind record 2 with nodes 12, 13 in scope `.bind 0`, its generation in scope `.bind 2` -/
theorem exHistN_fresh_inner :
    NX.factN exHistN (fun s => s.binds.size) = some 3 ∧
    NX.factN exHistN (fun s => (s.nodeD 12).kind) = some (.bindLhsChange 2) ∧
    NX.factN exHistN (fun s => (s.nodeD 13).kind) = some (.bindMain 2 12) ∧
    NX.factN exHistN (fun s => (s.nodeD 11).valid) = some false ∧
    NX.factN exHistN (fun s => s.binds[0]?.map (·.allNodesCreatedOnRhs)) = some (some [12, 13, 14]) ∧
    NX.factN exHistN (fun s => s.binds[2]?.map (·.allNodesCreatedOnRhs)) = some (some [15, 16]) :=
  ⟨by decide +kernel, by decide +kernel, by decide +kernel, by decide +kernel, by decide +kernel, by decide +kernel⟩

end IncrVerif.Proofs.NestH
