import IncrVerif.Proofs.TidyH20
/-!
# T3a part 4: `create`, `observe`, the variable writes return under `SubsH.QInv`

Ports of `Proofs/Quiet26.lean` (`create_total`) and of the two lemmas of `Proofs/Quiet27.lean` that read the
invariant (`observe_total`, `writeVar_total`) from `Quiet.QInv` to `SubsH.QInv`; the other simple actions only
need `TInv` and are reused.  `tinv_of_hf`: `TInv` does not read handler lists, handler counts, queue flags.
-/
namespace IncrVerif.Proofs.TidyH.SubsT
open IncrVerif.Engine IncrVerif.Driver IncrVerif.Proofs IncrVerif.Proofs.Step IncrVerif.Proofs.Sched
open IncrVerif.Proofs.Quiet

/-- `TInv` is kept by the frame of the subscription actions -/
theorem tinv_of_hf {N : Nat} {s s' : State} (T : TInv N s) (F : SubsH.P9.HF s s') (ha : s'.ahh = s.ahh) :
    TInv N s' := by
  have hnec : ∀ m, s'.isNecessary m = s.isNecessary m := by
    intro m
    obtain ⟨k, b, e⟩ := F.node m
    rw [State.isNecessary, State.isNecessary, e]; rfl
  have hh : ∀ m, (s'.nodeD m).height = (s.nodeD m).height := by
    intro m
    obtain ⟨k, b, e⟩ := F.node m
    rw [e]
  refine ⟨fun m hm ho => ?_, ⟨by rw [ha]; exact T.room.ahh, by rw [F.rch]; exact T.room.rch,
    by rw [F.size]; exact T.room.size⟩, fun c vc h => ?_, by rw [F.top, F.size]; exact T.topSize,
    by rw [F.newObs]; exact T.newNodup, fun o ob' hm h => ?_⟩
  · rw [hnec] at hm; rw [hh]; exact T.hb m hm ho
  · rw [F.vars] at h; exact T.linked c vc h
  · rw [F.newObs] at hm
    obtain ⟨ob, hs, hob, e⟩ := SubsH.P9.rec_inv F.obsSize F.recs h
    rw [e]; exact T.newState o ob hm hob

/-! ## `create` -/

/-- the elaboration of a static instruction whose operands exist returns -/
theorem elab_ret {env : Env} {s : State} {i : Instr} (Q : SubsH.QInv env s) (hi : StaticInstr env i)
    (hin : InstrIn s i) :
    ∃ ro s1, (elabInstrM env [] .unit i).run.run s = (.ok ro, s1) ∧ s1.ahh = s.ahh ∧
      s1.vars.size = s.vars.size + (grow (.create i)).2.1 := by
  have hsc := Q.struct.static.scope
  cases i with
  | const v =>
    unfold elabInstrM
    simp only
    unfold elabInstr
    rw [run_bind_get]
    simp only [hsc]
    exact ⟨_, _, map_run_ok (createNode_top_run _ s), rfl, rfl⟩
  | var v =>
    unfold elabInstrM
    simp only
    unfold elabInstr
    rw [run_bind_get]
    simp only
    exact ⟨_, _, map_run_ok (createVar_top_run _ s), rfl, by simp only [Array.size_push]; rfl⟩
  | map f args =>
    unfold elabInstrM
    simp only
    unfold elabInstr
    rw [run_bind_get]
    simp only [hsc]
    obtain ⟨r, hr⟩ := mapM_resolve_run args hin
    rw [run_bind_ok hr]
    exact ⟨_, _, map_run_ok (createNode_top_run _ s), rfl, rfl⟩
  | fold f init cs =>
    unfold elabInstrM
    simp only
    unfold elabInstr
    rw [run_bind_get]
    simp only [hsc]
    obtain ⟨r, hr⟩ := mapM_resolve_run cs hin
    rw [run_bind_ok hr]
    split
    · exact ⟨_, _, map_run_ok (createNode_top_run _ s), rfl, rfl⟩
    · exact ⟨_, _, map_run_ok (createNode_top_run _ s), rfl, rfl⟩
  | zip a b =>
    unfold elabInstrM
    simp only
    unfold elabInstr
    rw [run_bind_get]
    simp only [hsc]
    obtain ⟨na, hna⟩ := resolveOpnd_run hin.1
    obtain ⟨nb, hnb⟩ := resolveOpnd_run hin.2
    obtain ⟨-, ka, hka⟩ := resolveOpnd_outer_inv hi.1 hna
    obtain ⟨-, kb, hkb⟩ := resolveOpnd_outer_inv hi.2 hnb
    obtain ⟨ca, hca⟩ := isConstant_run (Q.top ka na hka)
    obtain ⟨cb, hcb⟩ := isConstant_run (Q.top kb nb hkb)
    rw [run_bind_ok hna, run_bind_ok hnb, run_bind_ok hca, run_bind_ok hcb]
    split
    · exact ⟨_, _, map_run_ok (createNode_top_run _ s), rfl, rfl⟩
    · exact ⟨_, _, map_run_ok (createNode_top_run _ s), rfl, rfl⟩
  | _ => exact hi.elim

theorem create_total {env : Env} {N : Nat} {s : State} {i : Instr} {tk : Array Nat}
    (Q : SubsH.QInv env s) (T : TInv N s) (hi : StaticInstr env i) (hok : ActionOK N s (.create i)) :
    Tot (stepAction env (.create i) tk) s (fun r s' => r.2 = tk ∧ TInv N s' ∧ Grown (.create i) s s') := by
  obtain ⟨hin, hroom⟩ := hok
  obtain ⟨ro, s1, hrun, hahh, hvs⟩ := elab_ret Q hi hin
  obtain ⟨k, ero, hk, hkids, C⟩ := SubsH.elab_static Q hi hrun
  unfold stepAction
  simp only
  refine Tot.bind_ok hrun ?_
  rw [ero]
  simp only
  refine Tot.bind_modify (Tot.pure ⟨rfl, ?_, ?_⟩)
  · refine ⟨?_, ⟨?_, ?_, ?_⟩, ?_, ?_, ?_, ?_⟩
    · intro m hn ho
      have hn' : s1.isNecessary m = true := hn
      have e := C.ne_of_nec hn'
      rw [C.nec_old e] at hn'
      show (s1.nodeD m).height ≤ _
      rw [C.nodeD_old e]; exact T.hb m hn' ho
    · show s1.ahh.maxAllowed = _
      rw [hahh]; exact T.room.ahh
    · show s1.rch.maxAllowed = _
      rw [C.rch]; exact T.room.rch
    · show s1.nodes.size ≤ N
      rw [C.size]; exact hroom
    · intro c vc h
      have h' : s1.vars[c]? = some vc := h
      rcases C.vars with ⟨-, e⟩ | ⟨v, -, ev⟩
      · rw [e] at h'; exact T.linked c vc h'
      · rw [ev, Array.getElem?_push] at h'
        split at h'
        · injection h' with h'
          rw [← h']
        · exact T.linked c vc h'
    · show (s1.top.push _).size = s1.nodes.size
      rw [Array.size_push, C.top, C.size, T.topSize]
    · show s1.newObservers.Nodup
      rw [C.newObservers]; exact T.newNodup
    · intro o ob h1 h2
      have h1' : o ∈ s1.newObservers := h1
      have h2' : s1.observers[o]? = some ob := h2
      rw [C.newObservers] at h1'
      rw [C.observers] at h2'
      exact T.newState o ob h1' h2'
  · refine ⟨?_, ?_, ?_⟩
    · show s1.nodes.size = _
      rw [C.size]
      cases i <;> first | rfl | exact hi.elim
    · exact hvs
    · show s1.observers.size = _
      rw [C.observers]
      cases i <;> first | rfl | exact hi.elim

/-! ## `observe` and the writes -/

open Quiet.P27

theorem observe_total {env : Env} {N : Nat} {s : State} {k : Nat} {tk : Array Nat}
    (Q : SubsH.QInv env s) (T : TInv N s) (hk : k < s.top.size) :
    Tot (stepAction env (.observe (.outer k)) tk) s
      (fun r s' => r.2 = tk ∧ TInv N s' ∧ Grown (.observe (.outer k)) s s') := by
  simp only [stepAction, resolveOpnd]
  have h0 : s.top[k]? = some s.top[k] := Array.getElem?_eq_getElem hk
  refine Tot.bind_ok (a := s.top[k]) (s1 := s) (by rw [run_bind_get, h0]; rfl) ?_
  refine Tot.bind_get (Tot.bind_modify ?_)
  refine Tot.of_ok (by rw [run_bind_bumpCounter]; exact run_pure _ _) ⟨rfl, ?_, ?_⟩
  · refine TInv_of_frame T rfl rfl rfl rfl rfl ?_ ?_
    · show (s.newObservers ++ [s.observers.size]).Nodup
      rw [List.nodup_append]
      refine ⟨T.newNodup, List.nodup_cons.2 ⟨List.not_mem_nil, List.nodup_nil⟩, ?_⟩
      intro a ha b hb
      rw [List.mem_singleton] at hb
      rw [hb]; intro e; rw [e] at ha
      obtain ⟨ob, hob⟩ := Q.obs.newIn _ ha
      simp at hob
    · intro o ob hm h
      have hm' : o ∈ s.newObservers ++ [s.observers.size] := hm
      have h' : (s.observers.push { node := s.top[k] })[o]? = some ob := h
      rw [Array.getElem?_push] at h'
      split at h'
      · cases h'; exact Or.inl rfl
      · rename_i ne
        rcases List.mem_append.1 hm' with hm1 | hm1
        · exact T.newState o ob hm1 h'
        · rw [List.mem_singleton] at hm1; exact absurd hm1 ne
  · refine ⟨rfl, rfl, ?_⟩
    show (s.observers.push _).size = _
    rw [Array.size_push]; rfl

/-- a write outside `stabilise` returns -/
theorem writeVar_total {env : Env} {N : Nat} {s : State} {v : Nat} {f : Val → Val} {isSet : Bool}
    (Q : SubsH.QInv env s) (T : TInv N s) (hv : v < s.vars.size) :
    Tot (writeVar v f isSet) s (fun _ s' => TInv N s' ∧ s'.nodes.size = s.nodes.size ∧
      s'.vars.size = s.vars.size ∧ s'.observers.size = s.observers.size) := by
  have hv0 : s.vars[v]? = some s.vars[v] := Array.getElem?_eq_getElem hv
  generalize s.vars[v] = vc at hv0
  have hst : s.status ≠ .stabilising := by rw [Q.status]; intro e; cases e
  have I : GInv env s allClosed := Q.struct
  have hsz : vc.node < s.nodes.size := (Q.vars.cell v vc hv0).1
  have hkn : (s.nodeD vc.node).kind = .var v := (Q.vars.cell v vc hv0).2
  have hl : vc.linked = true := T.linked v vc hv0
  have hval : (s.nodeD vc.node).valid = true := (I.node hsz).valid
  have hok : ((writeVar v f isSet).run.run s).1 = .ok vc.value := by
    rw [writeVar_outside_result v f isSet s vc hv0 hst, if_neg (by rw [hl]; intro e; cases e)]
    split
    · rfl
    rename_i h2
    have hstale : (stampedWrite v vc (f vc.value) s).isStale vc.node = true := by
      have hn : (stampedWrite v vc (f vc.value) s).nodes[vc.node]? = some (s.nodeD vc.node) := by
        show s.nodes[vc.node]? = _
        rw [State.nodeD, Array.getElem?_eq_getElem hsz]; rfl
      have hc : (stampedWrite v vc (f vc.value) s).vars[v]? =
          some { vc with value := f vc.value, setAt := s.stabNum } := withCell_get v _ vc s hv0
      rw [isStale_var _ _ v _ _ hn hkn hc, hval]
      have := (Q.stamps vc.node).1
      simpa using this
    rw [if_neg (by rw [hval, hstale]; rintro ⟨-, h⟩; cases h)]
    split
    · rfl
    rename_i h4
    have h4' : (s.nodeD vc.node).valid = true ∧ s.isNecessary vc.node = true ∧
        (s.nodeD vc.node).inRch = false := by simpa using h4
    have hnec : s.isNecessary vc.node = true := h4'.2.1
    have h0 := I.hpos _ hnec rfl
    have hle := T.hb _ hnec rfl
    have hmax := T.room.rch
    have hN := T.room.size
    rw [if_neg (by rintro ⟨-, h⟩; omega), if_neg (by omega), if_neg (by omega)]
  have hrun : (writeVar v f isSet).run.run s = (.ok vc.value, ((writeVar v f isSet).run.run s).2) := by
    rw [← hok]; exact Prod.ext rfl rfl
  obtain ⟨-, hs', -, -, hh⟩ := writeVar_outside_ok v f isSet s _ vc _ hv0 hst hrun
  obtain ⟨R, -⟩ := SubsH.wroteOutside_q (f vc.value) Q hv0 hh
  have hF := wroteOutside_frame v vc (f vc.value) s
  have hS := wroteOutside_sizes v vc (f vc.value) s
  rw [← hs'] at R hF hS
  refine Tot.of_ok hrun ⟨?_, R.size, hS.1, by rw [R.observers]⟩
  refine ⟨fun m hm ho => ?_, ⟨?_, ?_, ?_⟩, fun c vc' h => ?_, ?_, ?_, ?_⟩
  · rw [R.nec] at hm; rw [R.height]; exact T.hb m hm ho
  · rw [hF.2.2.2.2.1]; exact T.room.ahh
  · rw [← T.room.rch]; simp only [Heap.maxAllowed, hS.2]
  · rw [R.size]; exact T.room.size
  · by_cases hc : c = v
    · rw [hc, R.var] at h; cases h; exact hl
    · rw [R.other c hc] at h; exact T.linked c vc' h
  · rw [R.top, R.size]; exact T.topSize
  · rw [R.newObservers]; exact T.newNodup
  · intro o ob hm h
    rw [R.newObservers] at hm; rw [R.observers] at h
    exact T.newState o ob hm h

/-- the simple actions (everything static except `create` and `stabilise`) return -/
theorem simple_total {env : Env} {N : Nat} {s : State} {a : Action} {tk : Array Nat}
    (Q : SubsH.QInv env s) (T : TInv N s) (ha : SimpleAction a) (hok : ActionOK N s a) :
    Tot (stepAction env a tk) s (fun r s' => r.2 = tk ∧ TInv N s' ∧ Grown a s s') := by
  cases a <;> try exact ha.elim
  case observe n =>
    cases n <;> try exact ha.elim
    exact observe_total Q T hok
  case cloneObs o => exact cloneObs_total T
  case dropObs o => exact dropObs_total T hok
  case disallow o => exact disallow_total T hok
  case set v x =>
    unfold stepAction
    dsimp only
    refine Tot.bind (discard_total (writeVar_total Q T hok)) ?_
    rintro u s1 - ⟨T1, e1, e2, e3⟩
    exact Tot.pure ⟨rfl, T1, Grown_same rfl e1 e2 e3⟩
  case modify v d =>
    unfold stepAction
    dsimp only
    refine Tot.bind (discard_total (writeVar_total Q T hok)) ?_
    rintro u s1 - ⟨T1, e1, e2, e3⟩
    exact Tot.pure ⟨rfl, T1, Grown_same rfl e1 e2 e3⟩
  case update v d =>
    unfold stepAction
    dsimp only
    refine Tot.bind (discard_total (writeVar_total Q T hok)) ?_
    rintro u s1 - ⟨T1, e1, e2, e3⟩
    exact Tot.pure ⟨rfl, T1, Grown_same rfl e1 e2 e3⟩
  case replace v x =>
    unfold stepAction
    dsimp only
    refine Tot.bind (writeVar_total Q T hok) ?_
    rintro u s1 - ⟨T1, e1, e2, e3⟩
    exact Tot.pure ⟨rfl, T1, Grown_same rfl e1 e2 e3⟩
  case replaceWith v d =>
    unfold stepAction
    dsimp only
    refine Tot.bind (writeVar_total Q T hok) ?_
    rintro u s1 - ⟨T1, e1, e2, e3⟩
    exact Tot.pure ⟨rfl, T1, Grown_same rfl e1 e2 e3⟩
  case get v =>
    unfold stepAction
    dsimp only
    exact Tot.bind_ok (getVar_total hok) (Tot.pure ⟨rfl, T, Grown_same rfl rfl rfl rfl⟩)
  case isStable =>
    unfold stepAction
    dsimp only
    exact Tot.bind_get (Tot.pure ⟨rfl, T, Grown_same rfl rfl rfl rfl⟩)
  case stats =>
    unfold stepAction
    dsimp only
    exact Tot.pure ⟨rfl, T, Grown_same rfl rfl rfl rfl⟩

end IncrVerif.Proofs.TidyH.SubsT
