import IncrVerif.Proofs.FullH38
/-!
# C01 full fragment: the ghost invariants through `unlink_disallowed_observers` (port of MapRef24)

The frames `MapRefH.UF`, `MapRefH.SH` and `MapRefH.unlinkDisallowedObservers_sh` hold for EVERY state of the engine and are reused
as they are.  New: `OS` (the machine states are untouched), and the consequences for the invariants of the full fragment.
-/
namespace IncrVerif.Proofs.FullH
open IncrVerif.Engine IncrVerif.Proofs IncrVerif.Proofs.Step IncrVerif.Proofs.Sched IncrVerif.Proofs.Quiet
open IncrVerif.Proofs.MapRefH

/-! ## `OS`: the machine states (`oldState`) and the bind records are untouched -/

structure OS (s s' : State) : Prop where
  old : ∀ m, (s'.nodeD m).oldState = (s.nodeD m).oldState
  binds : s'.binds = s.binds

instance : Step.PreOrd OS :=
  ⟨fun _ => ⟨fun _ => rfl, rfl⟩, fun h1 h2 => ⟨fun m => (h2.old m).trans (h1.old m), h2.binds.trans h1.binds⟩⟩

theorem OS.of_nodes {s s' : State} (h1 : s'.nodes = s.nodes) (h2 : s'.binds = s.binds) : OS s s' := by
  refine ⟨fun m => ?_, h2⟩
  have : s'.nodeD m = s.nodeD m := by simp [State.nodeD, h1]
  rw [this]

theorem OS.modNode (s : State) (n : Nat) (f : Node → Node) (hf : ∀ x, (f x).oldState = x.oldState) :
    OS s { s with nodes := s.nodes.modify n f } := by
  refine ⟨fun m => ?_, rfl⟩
  rw [nodeD_modify]; split
  · exact hf _
  · rfl

theorem PresOS.modNode (n : Nat) (f : Node → Node) (hf : ∀ x, (f x).oldState = x.oldState) :
    Step.Pres OS (Engine.modNode n f) := by
  unfold Engine.modNode; exact Step.Pres.modify fun s => OS.modNode s n f hf

macro_rules
  | `(tactic| qleaf) =>
    `(tactic| ((with_reducible apply Step.Pres.modify); intro _; exact OS.of_nodes rfl rfl))
macro_rules
  | `(tactic| qleaf) => `(tactic| ((with_reducible apply PresOS.modNode); intro _; rfl))

macro "os_leaf " n:ident : command =>
  `(macro_rules | `(tactic| qleaf) => `(tactic| with_reducible apply $n))

theorem PresOS.logEv (e) : Step.Pres OS (Engine.logEv e) := by unfold Engine.logEv; qpres
os_leaf PresOS.logEv
theorem PresOS.modExpert (e f) : Step.Pres OS (Engine.modExpert e f) := by unfold Engine.modExpert; qpres
os_leaf PresOS.modExpert
theorem PresOS.observabilityChange (e b) : Step.Pres OS (Engine.observabilityChange e b) := by
  unfold Engine.observabilityChange; qpres
os_leaf PresOS.observabilityChange
theorem PresOS.setHeight (n h) : Step.Pres OS (Engine.setHeight n h) := by unfold Engine.setHeight; qpres
os_leaf PresOS.setHeight
theorem PresOS.rchUnlink (n) : Step.Pres OS (Engine.rchUnlink n) := by unfold Engine.rchUnlink; qpres
os_leaf PresOS.rchUnlink
theorem PresOS.rchRemove (n) : Step.Pres OS (Engine.rchRemove n) := by unfold Engine.rchRemove; qpres
os_leaf PresOS.rchRemove
theorem PresOS.handleAfterStabilisation (n) : Step.Pres OS (Engine.handleAfterStabilisation n) := by
  unfold Engine.handleAfterStabilisation; qpres
os_leaf PresOS.handleAfterStabilisation
theorem PresOS.maybeHandleAfterStabilisation (n) : Step.Pres OS (Engine.maybeHandleAfterStabilisation n) := by
  unfold Engine.maybeHandleAfterStabilisation; qpres
os_leaf PresOS.maybeHandleAfterStabilisation
theorem PresOS.removeParent (c i p) : Step.Pres OS (Engine.removeParent c i p) := by
  unfold Engine.removeParent; qpres
os_leaf PresOS.removeParent

theorem PresOS.unlink (fuel : Nat) :
    (∀ n, Step.Pres OS (becameUnnecessary fuel n)) ∧
    (∀ n, Step.Pres OS (checkIfUnnecessary fuel n)) ∧
    (∀ n, Step.Pres OS (removeChildren fuel n)) := by
  induction fuel with
  | zero =>
    refine ⟨?_, ?_, ?_⟩
    · intro n; unfold becameUnnecessary; qpres
    · intro n; unfold checkIfUnnecessary; qpres
    · intro n; unfold removeChildren; qpres
  | succ fuel ih =>
    refine ⟨?_, ?_, ?_⟩
    · intro n
      unfold becameUnnecessary
      qpres
      all_goals exact ih.2.2 _
    · intro n
      unfold checkIfUnnecessary
      qpres
      all_goals exact ih.1 _
    · intro n
      unfold removeChildren
      qpres
      all_goals first
        | exact ih.2.1 _
        | (apply Step.Pres.forIn; intro a b; qpres; exact ih.2.1 _)

theorem PresOS.checkIfUnnecessary (fuel n) : Step.Pres OS (Engine.checkIfUnnecessary fuel n) :=
  (PresOS.unlink fuel).2.1 n
os_leaf PresOS.checkIfUnnecessary
theorem PresOS.becameUnnecessary (fuel n) : Step.Pres OS (Engine.becameUnnecessary fuel n) :=
  (PresOS.unlink fuel).1 n
theorem PresOS.removeChildren (fuel n) : Step.Pres OS (Engine.removeChildren fuel n) :=
  (PresOS.unlink fuel).2.2 n

theorem PresOS.getObs (o) : Step.Pres OS (Engine.getObs o) :=
  Step.Pres.of_readonly _ fun s => by
    simp only [Engine.getObs, run_bind, run_get]; cases s.observers[o]? <;> rfl
os_leaf PresOS.getObs
theorem PresOS.modObs (o f) : Step.Pres OS (Engine.modObs o f) := by unfold Engine.modObs; qpres
os_leaf PresOS.modObs

/-- every run of `unlink_disallowed_observers` (also a panicking one) leaves the machine states alone -/
theorem PresOS.unlinkDisallowedObservers (fuel) : Step.Pres OS (Engine.unlinkDisallowedObservers fuel) := by
  unfold Engine.unlinkDisallowedObservers
  qpres

/-! ## the frame of `unlink_disallowed_observers` -/

/-- the frame of the unlinking phase: kinds, validity, cutoffs, stored values, stamps (`VFrame`), `didChange` flags, `forceNecessary`
and `propagateInvalidity` unchanged, parent and observer lists only shrink (`MapRefH.SH`); machine states unchanged (`OS`) -/
structure UFr (s s' : State) : Prop where
  sh : SH s s'
  os : OS s s'

theorem UFr.nec {s s' : State} (h : UFr s s') {m : Nat} (hm : s'.isNecessary m = true) : s.isNecessary m = true :=
  h.sh.nec hm

/-- necessity shrinks, everything else the invariant reads is constant: the invariant is inherited -/
theorem KInv.of_sh {env : Env} {g : Nat → Option Val} {s s' : State} (K : KInv env g s) (h : SH s s') :
    KInv env g s' := by
  intro m p i hv hm hk hd
  rw [h.vf.valid] at hv; rw [h.vf.kind] at hk; rw [h.flag] at hd; rw [h.vf.value_eq]
  exact K m p i hv (h.nec hm) hk hd

theorem unlinkDisallowedObservers_ufr {fuel : Nat} {s s' : State}
    (h : (unlinkDisallowedObservers fuel).run.run s = (.ok (), s')) : UFr s s' :=
  ⟨unlinkDisallowedObservers_sh h, (PresOS.unlinkDisallowedObservers fuel).h _ _ _ h⟩

/-- every run of `check_if_unnecessary` -/
theorem checkIfUnnecessary_ufr {fuel n : Nat} {s s' : State} {r : Except Panic Unit}
    (h : (Engine.checkIfUnnecessary fuel n).run.run s = (r, s')) : UFr s s' :=
  ⟨checkIfUnnecessary_sh h, (PresOS.checkIfUnnecessary fuel n).h _ _ _ h⟩

/-- **(5a)** the unlinking cascade (every run, also a panicking one) -/
theorem checkIfUnnecessary_keepsK {env : Env} {g : Nat → Option Val} {fuel n : Nat} {s s' : State}
    {r : Except Panic Unit} (K : KInv env g s) (h : (Engine.checkIfUnnecessary fuel n).run.run s = (r, s')) :
    KInv env g s' ∧ UFr s s' :=
  ⟨K.of_sh (checkIfUnnecessary_sh h), checkIfUnnecessary_ufr h⟩

/-- **(5b)** `unlink_disallowed_observers` -/
theorem unlinkDisallowedObservers_keepsK {env : Env} {g : Nat → Option Val} {fuel : Nat} {s s' : State}
    (K : KInv env g s) (h : (unlinkDisallowedObservers fuel).run.run s = (.ok (), s')) :
    KInv env g s' ∧ UFr s s' :=
  ⟨K.of_sh (unlinkDisallowedObservers_sh h), unlinkDisallowedObservers_ufr h⟩

/-! ## `MInv`, `GSome`, `Inherit` through the two phases -/

/-- kinds, validity, stored values and machine states unchanged: the machine invariant is inherited -/
theorem MInv.of_frame {env : Env} {s s' : State} (M : MInv env s) (v : VFrame s s') (o : OS s s') : MInv env s' := by
  intro n m i hv hk
  rw [v.valid] at hv; rw [v.kind] at hk
  rw [o.old n, v.value]
  exact M n m i hv hk

/-- kinds and validity unchanged, flags only raised: `GSome` is inherited -/
theorem GSome.of_frame {g : Nat → Option Val} {s s' : State} (G : GSome g s) (v : VFrame s s') (fm : FM s s') :
    GSome g s' := by
  intro m p i hv hk hd
  rw [v.valid] at hv; rw [v.kind] at hk
  refine G m p i hv hk ?_
  cases hd0 : (s.nodeD m).didChange with
  | false => rfl
  | true => rw [fm m hd0] at hd; cases hd

theorem UFr.mInv {env : Env} {s s' : State} (h : UFr s s') (M : MInv env s) : MInv env s' := M.of_frame h.sh.vf h.os
theorem UFr.gSome {g : Nat → Option Val} {s s' : State} (h : UFr s s') (G : GSome g s) : GSome g s' :=
  G.of_frame h.sh.vf h.sh.fm
theorem UFr.inherit {env : Env} {g : Nat → Option Val} {s s' : State} (h : UFr s s') (T : Inherit env g s) :
    Inherit env g s' := T.of_vframe h.sh.vf
theorem UFr.pinv {s s' : State} (h : UFr s s') : s'.propagateInvalidity = s.propagateInvalidity := h.sh.pinv
theorem UFr.ck {rk : Nat → Nat} {s s' : State} (h : UFr s s') (F : CK rk s) : CK rk s' := F.of_vframe h.sh.vf h.os.binds

theorem unlinkDisallowedObservers_mInv {env : Env} {fuel : Nat} {s s' : State} (M : MInv env s)
    (h : (unlinkDisallowedObservers fuel).run.run s = (.ok (), s')) : MInv env s' :=
  (unlinkDisallowedObservers_ufr h).mInv M

theorem unlinkDisallowedObservers_gSome {g : Nat → Option Val} {fuel : Nat} {s s' : State} (G : GSome g s)
    (h : (unlinkDisallowedObservers fuel).run.run s = (.ok (), s')) : GSome g s' :=
  (unlinkDisallowedObservers_ufr h).gSome G

/-! ### `add_new_observers`: the machine states from `VM` of the simulation -/

/-- `add_new_observers` leaves the machine states alone (from the simulation) -/
theorem addNewObservers_os {K : Kind → Prop} {env : Env} {sp : Nat → Val → Val} {g : Nat → Option Val} {fuel : Nat}
    {s s' : State} (hf : Fr K g s) (a : AF s s') (h : (addNewObservers env fuel).run.run s = (.ok (), s')) :
    OS s s' := by
  obtain ⟨g', -, -, R⟩ := SimX.addNewObservers (K := K) (sp := sp) env fuel g s hf () s' h
  refine ⟨fun m => ?_, a.binds⟩
  by_cases hm : m < s.nodes.size
  · exact (R.vm.kind m hm).2.2
  · rw [nodeD_default_of_ge s m (by omega), nodeD_default_of_ge s' m (by rw [a.vf.size]; omega)]

theorem addNewObservers_mInv {env : Env} {sp : Nat → Val → Val} {g : Nat → Option Val} {rk : Nat → Nat} {fuel : Nat}
    {s s' : State} (C : CFrag env sp g rk s) (T : Inherit env g s) (hp : s.propagateInvalidity = [])
    (K : KInv env g s) (M : MInv env s) (h : (addNewObservers env fuel).run.run s = (.ok (), s')) : MInv env s' := by
  obtain ⟨-, -, a⟩ := addNewObservers_keepsK' C.toCK T hp K h
  exact M.of_frame a.vf (addNewObservers_os (sp := sp) C.frag.fr a h)

theorem addNewObservers_gSome {env : Env} {sp : Nat → Val → Val} {g : Nat → Option Val} {rk : Nat → Nat} {fuel : Nat}
    {s s' : State} (C : CFrag env sp g rk s) (T : Inherit env g s) (hp : s.propagateInvalidity = [])
    (K : KInv env g s) (G : GSome g s) (h : (addNewObservers env fuel).run.run s = (.ok (), s')) : GSome g s' := by
  obtain ⟨-, -, fm, v⟩ := addNewObservers_keepsK C T hp K h
  exact G.of_frame v fm

end IncrVerif.Proofs.FullH
