import IncrVerif.Proofs.GateF7
/-!
# C06, combined fragment, part 8: the stamp frame `RR` for successful runs (end) — notifications, `maybeChangeValue`, `rchRemoveMin` (port of `OnceF16`).  UNFINISHED: the last rung, `POk (RR (· = n)) (recomputeOne env fuel n)`, is NOT here (the decomposition tactic `okpres` exceeds the heartbeat budget on `recomputeOne`; its branches are covered by the leaves above), so the stamp frame is not used by `Props/C06Full`
-/
open IncrVerif.Engine IncrVerif.Proofs IncrVerif.Proofs.Step
namespace IncrVerif.Proofs.GateF

/-! ### notifications, `maybeChangeValue`, `recomputeOne` -/
set_option maxHeartbeats 2000000 in
theorem POk.childChanged (ex : Nat → Prop) (env fuel p c ci o) : POk (RR ex) (childChanged env fuel p c ci o) := by
  induction fuel generalizing p c ci o with
  | zero => unfold Engine.childChanged; okpres
  | succ fuel ih => unfold Engine.childChanged; okpres; all_goals exact ih _ _ _ _
o_leaf POk.childChanged
set_option maxHeartbeats 2000000 in
theorem POk.parentIterCanRecomputeNow (ex : Nat → Prop) (p c) : POk (RR ex) (parentIterCanRecomputeNow p c) := by
  unfold Engine.parentIterCanRecomputeNow; okpres
o_leaf POk.parentIterCanRecomputeNow
set_option maxHeartbeats 2000000 in
theorem POk.maybeChangeValueManual (ex : Nat → Prop) (env fuel n o d b) :
    POk (RR ex) (maybeChangeValueManual env fuel n o d b) := by
  unfold Engine.maybeChangeValueManual; okpres
o_leaf POk.maybeChangeValueManual
set_option maxHeartbeats 2000000 in
theorem POk.maybeChangeValue (env fuel n v) : POk (RR (fun m => m = n)) (maybeChangeValue env fuel n v) := by
  unfold Engine.maybeChangeValue; okpres
o_leaf POk.maybeChangeValue


set_option maxHeartbeats 2000000 in
theorem POk.rchRemoveMin (ex : Nat → Prop) : POk (RR ex) rchRemoveMin := by unfold Engine.rchRemoveMin; okpres
o_leaf POk.rchRemoveMin

end IncrVerif.Proofs.GateF
