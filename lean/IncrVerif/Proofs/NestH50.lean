import IncrVerif.Proofs.NestH43
import IncrVerif.Proofs.NestH41
import IncrVerif.Proofs.BindH88
/-!
# Nested binds (F2), part 4w: variable writes outside `stabilise` (and the read-only actions) keep `QInv2 env rk` (SAME ghost rank)

Port of `BindH88` (`C2w1.lean`) from `QInv1 env s` to `QInv2 env rk s`.  A write outside `stabilise` changes one cell and possibly inserts the cell's watch
node (a `var` node: top-level by `N2.inScope`, hence valid by `N2.top`) into the recompute heap.  `BindH.C2w.WRel1` and its lemmas (`kind`, …, `children`,
`isStale_eq`, `isStale_watch`, `targetB`) are REUSED; `var_top`, `struct2` (= `WRel1.struct`), `qinv2` (= `WRel1.qinv`), `wroteOutside_q` are restated for
`All2`/`GInv2`/`QInv2` (sub-namespace `N4w`): `NF.all2_transfer` / `NF.F2Inv.transfer` replace `CF.all1_transfer` / `CF.F1Inv.transfer`.
-/
namespace IncrVerif.Proofs.NestH
open IncrVerif.Engine IncrVerif.Driver IncrVerif.Proofs IncrVerif.Proofs.Step IncrVerif.Proofs.Sched IncrVerif.Proofs.Quiet
open IncrVerif.Proofs.BindH

namespace N4w

section rel
variable {env : Env} {rk : Nat → Nat} {s s' : State} {v : Nat} {vc : VarCell} {x : Val}

/-- a `var` node is a top-level node, hence valid -/
theorem var_top {dy : List Nat} {m c : Nat} (A : All2 env rk s dy) (hm : m < s.nodes.size)
    (hk : (s.nodeD m).kind = .var c) : (s.nodeD m).createdIn = .top ∧ (s.nodeD m).valid = true := by
  have N := A.node m hm
  cases hsc : (s.nodeD m).createdIn with
  | top => exact ⟨rfl, (N.top hsc).1⟩
  | bind b => exact absurd hk ((N.inScope b hsc).1 c)

/-- the structural invariant after a write: the heap is well formed, only the marker of the watch node may
have changed, and either nothing changed (and the watch node was queued if necessary) or the watch node
(necessary, not queued) has been queued at its height -/
theorem struct2 (Q : QInv2 env rk s) (hv : s.vars[v]? = some vc) (R : C2w.WRel1 v vc x s s')
    (hheap : HeapG s')
    (hmark : ∀ m, m ≠ vc.node → (s'.nodeD m).heightInRch = (s.nodeD m).heightInRch)
    (hq : ((s'.nodeD vc.node).heightInRch = (s.nodeD vc.node).heightInRch ∧
            (s.isNecessary vc.node = true → (s.nodeD vc.node).inRch = true)) ∨
          (s.isNecessary vc.node = true ∧ (s.nodeD vc.node).inRch = false ∧
            (s'.nodeD vc.node).heightInRch = (s.nodeD vc.node).height)) :
    Struct2 env rk s' := by
  have I : GInv2 env rk s allClosed noEx [] := Q.struct
  have hkn : (s.nodeD vc.node).kind = .var v := (Q.vars.cell v vc hv).2
  have hsz : vc.node < s.nodes.size := (Q.vars.cell v vc hv).1
  have hwv : (s.nodeD vc.node).valid = true := (var_top I.frag hsz hkn).2
  have hinr : ∀ m, m ≠ vc.node → (s'.nodeD m).inRch = (s.nodeD m).inRch := fun m h => by
    simp only [Node.inRch, hmark m h]
  have hw : ∀ q i, Wants s' allClosed q i ↔ Wants s allClosed q i := by
    intro q i; unfold Wants; rw [R.nec]
  have hother : ∀ m, m < s.nodes.size → m ≠ vc.node → (s.nodeD m).kind ≠ .var v := by
    intro m hm hne hk
    obtain ⟨vc0, h0, h1⟩ := Q.vars.node m v hm hk
    rw [hv] at h0; cases h0; exact hne h1.symm
  have hmono : ∀ m, s.isStale m = true → s'.isStale m = true := by
    intro m hs
    by_cases hk : (s.nodeD m).kind = .var v
    · refine R.isStale_watch hk ?_ (Q.stamps m).1
      cases hval : (s.nodeD m).valid with
      | true => rfl
      | false =>
        exfalso
        unfold State.isStale at hs
        simp only [Node.kind?, hval] at hs
        cases hs
    · rw [R.isStale_eq hk]; exact hs
  show GInv2 env rk s' allClosed noEx []
  refine { frag := NF.all2_transfer I.frag R.size R.shape R.binds (R.scope.trans I.frag.scope) (R.pc.trans I.frag.pc),
           par := ?_, conv := ?_, nodup := ?_, hlt := ?_, hpos := ?_,
           lnec := ?_, unec := ?_, heap := hheap, hgt := ?_, qnec := ?_, queued := ?_,
           qstale := ?_, opLt := ?_, scopeH := ?_, inv := ?_, scopeObs := ?_, lcObs := ?_ }
  · intro c q i hm
    rw [R.parents] at hm
    rw [R.children, hw]; exact I.par c q i hm
  · intro q i c hkq hw'
    rw [R.children] at hkq
    rw [hw] at hw'
    rw [R.parents]; exact I.conv q i c hkq hw'
  · intro m; rw [R.parents]; exact I.nodup m
  · intro c q i hm ho
    rw [R.parents] at hm
    rw [R.height, R.height]; exact I.hlt c q i hm ho
  · intro m hn ho
    rw [R.nec] at hn
    rw [R.height]; exact I.hpos m hn ho
  · intro q k ho; cases ho
  · intro q k ho; cases ho
  · intro m hq' _
    by_cases e : m = vc.node
    · rw [e] at hq' ⊢
      rcases hq with ⟨h1, -⟩ | ⟨-, -, h2⟩
      · have hq0 : (s.nodeD vc.node).inRch = true := by simpa only [Node.inRch, h1] using hq'
        rw [h1, R.height]; exact I.hgt _ hq0 rfl
      · rw [h2, R.height]
    · rw [hinr m e] at hq'
      rw [hmark m e, R.height]; exact I.hgt m hq' rfl
  · intro m hq'
    rw [R.nec]
    by_cases e : m = vc.node
    · rw [e] at hq' ⊢
      rcases hq with ⟨h1, -⟩ | ⟨h2, -, -⟩
      · have hq0 : (s.nodeD vc.node).inRch = true := by simpa only [Node.inRch, h1] using hq'
        exact I.qnec _ hq0
      · exact Or.inl h2
    · rw [hinr m e] at hq'; exact I.qnec m hq'
  · intro m _ hn hs hex
    rw [R.nec] at hn
    by_cases e : m = vc.node
    · rw [e] at hn ⊢
      rcases hq with ⟨h1, h2⟩ | ⟨-, -, h2⟩
      · have := h2 hn
        simpa only [Node.inRch, h1] using this
      · have h0 := I.hpos _ hn rfl
        simp only [Node.inRch, h2]; simpa using h0
    · rw [R.isStale_eq (hother m (nec_lt_size hn) e)] at hs
      rw [hinr m e]; exact I.queued m rfl hn hs hex
  · intro m hq'
    by_cases e : m = vc.node
    · rw [e]; exact R.isStale_watch hkn hwv (Q.stamps _).1
    · rw [hinr m e] at hq'; exact hmono m (I.qstale m hq')
  · intro m ho; exact absurd rfl ho
  · intro n b br hval hsc hb hn ho
    rw [R.valid] at hval; rw [R.createdIn] at hsc; rw [R.binds] at hb; rw [R.nec] at hn
    rw [R.height, R.height]; exact I.scopeH n b br hval hsc hb hn ho
  · intro m hval
    rw [R.valid] at hval
    obtain ⟨h1, h2, h3, h4, h5⟩ := I.inv m hval
    have e : m ≠ vc.node := by intro e; rw [e, hwv] at hval; cases hval
    exact ⟨by rw [R.parents]; exact h1, by rw [R.nodeObs]; exact h2, by rw [R.force]; exact h3,
      by rw [hinr m e]; exact h4, h5⟩
  · intro m b h
    rw [R.createdIn] at h
    rw [R.nodeObs]; exact I.scopeObs m b h
  · intro m b h
    rw [R.kind] at h
    rw [R.nodeObs]; exact I.lcObs m b h

/-- the invariant between API actions after a write -/
theorem qinv2 (Q : QInv2 env rk s) (hv : s.vars[v]? = some vc) (R : C2w.WRel1 v vc x s s')
    (S : Struct2 env rk s')
    (hmark : ∀ m, m ≠ vc.node → (s'.nodeD m).heightInRch = (s.nodeD m).heightInRch) : QInv2 env rk s' := by
  have I : GInv2 env rk s allClosed noEx [] := Q.struct
  have hkn : (s.nodeD vc.node).kind = .var v := (Q.vars.cell v vc hv).2
  have hsz : vc.node < s.nodes.size := (Q.vars.cell v vc hv).1
  have hwv : (s.nodeD vc.node).valid = true := (var_top I.frag hsz hkn).2
  refine { struct := S, f2 := ?_, vars := ?_, obs := ?_, obsTop := ?_, now := by rw [R.stabNum]; exact Q.now,
           stamps := ?_, varStamp := ?_, cons := ?_, status := R.status.trans Q.status,
           alive := R.alive.trans Q.alive,
           setDuringStab := R.setDuringStab.trans Q.setDuringStab, deadVars := R.deadVars.trans Q.deadVars,
           handleAfterStab := R.handleAfterStab.trans Q.handleAfterStab }
  · refine NF.F2Inv.transfer Q.f2 R.size R.shape R.handlers ?_ R.heightInAhh R.binds R.top R.ahh R.pinv R.scope
      (R.pc.trans Q.f2.frag.pc)
    intro m hq
    by_cases e : m = vc.node
    · rw [e]; exact Or.inr hwv
    · left
      simpa only [Node.inRch, hmark m e] using hq
  · constructor
    · intro n c hn hk
      rw [R.size] at hn
      rw [R.kind] at hk
      obtain ⟨vc0, h0, h1⟩ := Q.vars.node n c hn hk
      by_cases hc : c = v
      · rw [hc] at h0 ⊢
        rw [hv] at h0; cases h0
        exact ⟨_, R.var, h1⟩
      · exact ⟨vc0, by rw [R.other c hc]; exact h0, h1⟩
    · intro c vc0 h0
      rw [R.size, R.kind]
      by_cases hc : c = v
      · rw [hc] at h0 ⊢
        rw [R.var] at h0; cases h0
        exact Q.vars.cell v vc hv
      · rw [R.other c hc] at h0; exact Q.vars.cell c vc0 h0
  · have O := Q.obs
    unfold ObsOK at O ⊢
    rw [R.newObservers, R.disallowedObservers]
    refine ⟨?_, ?_, ?_, ?_, ?_, ?_, O.disNodup⟩
    · intro o ob h; rw [R.observers] at h; rw [R.size]; exact O.inRange o ob h
    · intro n o; rw [R.nodeObs, R.observers]; exact O.mem n o
    · intro o ob h; rw [R.observers] at h; exact O.created o ob h
    · intro o h; rw [R.observers]; exact O.newIn o h
    · intro o ob h; rw [R.observers] at h; exact O.dis o ob h
    · intro o h; rw [R.observers]; exact O.disIn o h
  · intro o ob h
    rw [R.observers] at h
    rw [R.createdIn, R.kind]; exact Q.obsTop o ob h
  · intro m
    rw [R.recomputedAt, R.changedAt, R.stabNum]; exact Q.stamps m
  · intro c vc0 h0
    rw [R.stabNum]
    by_cases hc : c = v
    · rw [hc] at h0; rw [R.var] at h0; cases h0; exact Int.le_refl _
    · rw [R.other c hc] at h0; exact Q.varStamp c vc0 h0
  · intro m hm hval hst
    rw [R.size] at hm
    rw [R.valid] at hval
    by_cases hk : (s.nodeD m).kind = .var v
    · rw [R.isStale_watch hk hval (Q.stamps m).1] at hst; cases hst
    · rw [R.isStale_eq hk] at hst
      obtain ⟨w, hw, hvalue⟩ := Q.cons m hm hval hst
      exact ⟨w, R.targetB hk hw, by rw [R.value]; exact hvalue⟩

end rel

/-! ## the concrete write -/

/-- the final state of a successful write outside `stabilise` keeps the invariant -/
theorem wroteOutside_q {env : Env} {rk : Nat → Nat} {s : State} {v : Nat} {vc : VarCell} (x : Val)
    (Q : QInv2 env rk s) (hv : s.vars[v]? = some vc)
    (hh : vc.setAt < s.stabNum →
      ((s.nodeD vc.node).valid && s.isNecessary vc.node && !(s.nodeD vc.node).inRch) = true →
      0 ≤ (s.nodeD vc.node).height ∧ (s.nodeD vc.node).height ≤ s.rch.maxAllowed) :
    C2w.WRel1 v vc x s (wroteOutside v vc x s) ∧ QInv2 env rk (wroteOutside v vc x s) := by
  have I : GInv2 env rk s allClosed noEx [] := Q.struct
  have hle := Q.varStamp v vc hv
  have hvars := wroteOutside_vars v vc x s hv
  have hset : (if vc.setAt < s.stabNum then s.stabNum else vc.setAt) = s.stabNum := by
    split <;> omega
  rw [hset] at hvars
  have hsz : vc.node < s.nodes.size := (Q.vars.cell v vc hv).1
  have hkn : (s.nodeD vc.node).kind = .var v := (Q.vars.cell v vc hv).2
  have hwv : (s.nodeD vc.node).valid = true := (var_top I.frag hsz hkn).2
  -- the cases in which the nodes and the heap are untouched
  have same : ∀ s' : State, s'.nodes = s.nodes → s'.rch = s.rch →
      s'.vars[v]? = some { vc with value := x, setAt := s.stabNum } →
      (∀ w, w ≠ v → s'.vars[w]? = s.vars[w]?) →
      s'.stabNum = s.stabNum → s'.status = s.status → s'.panicCountdown = s.panicCountdown →
      s'.currentScope = s.currentScope → s'.observers = s.observers →
      s'.newObservers = s.newObservers → s'.disallowedObservers = s.disallowedObservers →
      s'.alive = s.alive →
      s'.setDuringStab = s.setDuringStab → s'.deadVars = s.deadVars →
      s'.handleAfterStab = s.handleAfterStab → s'.propagateInvalidity = s.propagateInvalidity →
      s'.top = s.top → s'.binds = s.binds → s'.experts = s.experts → s'.ahh = s.ahh →
      (s.isNecessary vc.node = true → (s.nodeD vc.node).inRch = true) →
      C2w.WRel1 v vc x s s' ∧ QInv2 env rk s' := by
    intro s' hn hr h1 h2 h3 h4 h5 h6 h7 h8 h9 h10 h11 h12 h13 h14 h15 h16 h17 h18 hq
    have hD : ∀ m, s'.nodeD m = s.nodeD m := fun m => by simp only [State.nodeD, hn]
    have R : C2w.WRel1 v vc x s s' :=
      ⟨⟨by rw [hn], fun m => ⟨(s.nodeD m).heightInRch, hD m⟩, h1, h2, h3, h4, h5, h6, h7, h8, h9, h10,
        h11, h12, h13, h14, h15⟩, h16, h17, h18⟩
    refine ⟨R, qinv2 Q hv R (struct2 Q hv R ?_ (fun m _ => by rw [hD]) (Or.inl ⟨by rw [hD], hq⟩))
      (fun m _ => by rw [hD])⟩
    exact I.heap.congr hr (by rw [hn]) (fun m => by rw [hD])
  by_cases h2 : s.stabNum ≤ vc.setAt
  · have e := wroteOutside_same_round v vc x s h2
    rw [e] at hvars ⊢
    refine same _ rfl rfl hvars.1 hvars.2 rfl rfl rfl rfl rfl rfl rfl rfl rfl rfl rfl rfl rfl rfl rfl rfl ?_
    intro hn
    apply I.queued _ rfl hn ?_ (fun h => h)
    unfold State.isStale
    simp only [Node.kind?, hwv, if_true, hkn, hv]
    have := (Q.stamps vc.node).1
    simp only [gt_iff_lt, decide_eq_true_eq]; omega
  · have hlt : vc.setAt < s.stabNum := by omega
    by_cases h4 : ((s.nodeD vc.node).valid && s.isNecessary vc.node && !(s.nodeD vc.node).inRch) = true
    · have e : wroteOutside v vc x s =
          inserted vc.node (s.nodeD vc.node).height (stampedWrite v vc x s) := by
        unfold wroteOutside; rw [if_neg h2, if_pos h4]
      rw [e] at hvars ⊢
      obtain ⟨h0, hmax⟩ := hh hlt h4
      rw [Bool.and_eq_true, Bool.and_eq_true] at h4
      obtain ⟨⟨hval, hnec⟩, hnq⟩ := h4
      have hnq' : (s.nodeD vc.node).inRch = false := by simpa using hnq
      have hW : HeapG (stampedWrite v vc x s) := I.heap.congr rfl rfl (fun m => rfl)
      have hI : HeapG (inserted vc.node (s.nodeD vc.node).height (stampedWrite v vc x s)) :=
        HeapG.inserted hW (p := vc.node) hsz hnq' h0 hmax
      have hD : ∀ m, (inserted vc.node (s.nodeD vc.node).height (stampedWrite v vc x s)).nodeD m =
          if vc.node = m ∧ m < s.nodes.size then
            { s.nodeD m with heightInRch := (s.nodeD vc.node).height } else s.nodeD m :=
        fun m => inserted_nodeD _ _ _ m
      have R : C2w.WRel1 v vc x s (inserted vc.node (s.nodeD vc.node).height (stampedWrite v vc x s)) := by
        refine ⟨⟨by simp [inserted, stampedWrite, bumped, withCell], ?_, hvars.1, hvars.2, rfl, rfl, rfl,
          rfl, rfl, rfl, rfl, rfl, rfl, rfl, rfl, rfl, rfl⟩, rfl, rfl, rfl⟩
        intro m
        rw [hD]
        split
        · exact ⟨_, rfl⟩
        · exact ⟨(s.nodeD m).heightInRch, rfl⟩
      have hmark : ∀ m, m ≠ vc.node →
          ((inserted vc.node (s.nodeD vc.node).height (stampedWrite v vc x s)).nodeD m).heightInRch =
            (s.nodeD m).heightInRch := by
        intro m hm
        rw [hD, if_neg (fun e => hm e.1.symm)]
      refine ⟨R, qinv2 Q hv R (struct2 Q hv R hI hmark (Or.inr ⟨hnec, hnq', ?_⟩)) hmark⟩
      rw [hD, if_pos ⟨rfl, hsz⟩]
    · have e : wroteOutside v vc x s = stampedWrite v vc x s := by
        unfold wroteOutside; rw [if_neg h2, if_neg h4]
      rw [e] at hvars ⊢
      refine same _ rfl rfl hvars.1 hvars.2 rfl rfl rfl rfl rfl rfl rfl rfl rfl rfl rfl rfl rfl rfl rfl rfl ?_
      intro hn
      cases hq : (s.nodeD vc.node).inRch with
      | true => rfl
      | false =>
        exfalso; apply h4
        rw [hwv, hn, hq]; rfl

end N4w

/-- **write.** A successful write outside `stabilise` keeps the invariant; the cell gets the new value. -/
theorem writeVar_q2 {env : Env} {rk : Nat → Nat} {s s' : State} {v : Nat} {f : Val → Val} {isSet : Bool} {r : Val}
    (Q : QInv2 env rk s) (h : (writeVar v f isSet).run.run s = (.ok r, s')) :
    QInv2 env rk s' ∧ ∃ vc, s.vars[v]? = some vc ∧ r = vc.value ∧
      s'.vars[v]? = some { vc with value := f vc.value, setAt := s.stabNum } ∧
      (∀ w, w ≠ v → s'.vars[w]? = s.vars[w]?) := by
  obtain ⟨vc, hv⟩ := writeVar_ok_cell h
  have hst : s.status ≠ .stabilising := by rw [Q.status]; intro e; cases e
  obtain ⟨hr, hs', -, -, hh⟩ := writeVar_outside_ok v f isSet s s' vc r hv hst h
  obtain ⟨R, Q'⟩ := N4w.wroteOutside_q (f vc.value) Q hv hh
  rw [← hs'] at R Q'
  exact ⟨Q', vc, hv, hr, R.var, R.other⟩

theorem step_write2 {env : Env} {rk : Nat → Nat} {s s' : State} {a : Action} {tokens : Array Nat} {r : String × Array Nat}
    (Q : QInv2 env rk s) (ha : Quiet.WriteOrRead a) (h : (stepAction env a tokens).run.run s = (.ok r, s')) :
    QInv2 env rk s' := by
  cases a <;> try exact ha.elim
  case set v x =>
    unfold stepAction at h
    dsimp only at h
    obtain ⟨_, s1, h1, h2⟩ := bind_ok_inv h
    obtain ⟨-, e2⟩ := pure_ok_inv h2
    obtain ⟨r1, h1⟩ := discard_ok_inv h1
    rw [e2]; exact (writeVar_q2 Q h1).1
  case modify v d =>
    unfold stepAction at h
    dsimp only at h
    obtain ⟨_, s1, h1, h2⟩ := bind_ok_inv h
    obtain ⟨-, e2⟩ := pure_ok_inv h2
    obtain ⟨r1, h1⟩ := discard_ok_inv h1
    rw [e2]; exact (writeVar_q2 Q h1).1
  case update v d =>
    unfold stepAction at h
    dsimp only at h
    obtain ⟨_, s1, h1, h2⟩ := bind_ok_inv h
    obtain ⟨-, e2⟩ := pure_ok_inv h2
    obtain ⟨r1, h1⟩ := discard_ok_inv h1
    rw [e2]; exact (writeVar_q2 Q h1).1
  case replace v x =>
    unfold stepAction at h
    dsimp only at h
    obtain ⟨_, s1, h1, h2⟩ := bind_ok_inv h
    obtain ⟨-, e2⟩ := pure_ok_inv h2
    rw [e2]; exact (writeVar_q2 Q h1).1
  case replaceWith v d =>
    unfold stepAction at h
    dsimp only at h
    obtain ⟨_, s1, h1, h2⟩ := bind_ok_inv h
    obtain ⟨-, e2⟩ := pure_ok_inv h2
    rw [e2]; exact (writeVar_q2 Q h1).1
  case get v =>
    unfold stepAction at h
    dsimp only at h
    obtain ⟨_, s1, h1, h2⟩ := bind_ok_inv h
    obtain ⟨-, e2⟩ := pure_ok_inv h2
    rw [e2, getVar_ok_inv h1]; exact Q
  case isStable =>
    unfold stepAction at h
    dsimp only at h
    rw [run_bind_get] at h
    obtain ⟨-, e2⟩ := pure_ok_inv h
    rw [e2]; exact Q
  case stats =>
    unfold stepAction at h
    dsimp only at h
    obtain ⟨-, e2⟩ := pure_ok_inv h
    rw [e2]; exact Q

end IncrVerif.Proofs.NestH
