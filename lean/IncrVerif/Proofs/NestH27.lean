import IncrVerif.Proofs.NestH26
/-!
# Nested binds (F2), `lhsRelink`, part 2: the new right-hand side in the record (`setRhs`)

Port of `BindH67` (`CR2`).  `RhsOK2`: the rank conditions use the ghost rank; the bind's main node may be the main node of an INNER bind
(a node of an outer scope `.bind b'`): its validity is a hypothesis (here: it is open), its child list in `N2.inScope` gets the new
right-hand side through the third alternative (`kind = bindMain b n`, child of scope `b`).
`CR.KRel.createdIn`, `CR.KRel.cutoff`, `CR.KRel.keyEq` (BindH67) are reused.
-/
namespace IncrVerif.Proofs.NestH
open IncrVerif.Engine IncrVerif.Proofs IncrVerif.Proofs.Step IncrVerif.Proofs.Sched IncrVerif.Proofs.Quiet
open IncrVerif.Proofs.BindH

namespace NR

/-- what may be the (new or old) right-hand side of bind `b` with change detector `n`: not a change detector; a top-level node of smaller
rank than `n`, or a valid node of scope `b` (possibly the main node of an inner bind) -/
def RhsOK2 (rk : Nat → Nat) (s : State) (b n rhs : Nat) : Prop :=
  (∀ b', (s.nodeD rhs).kind ≠ .bindLhsChange b') ∧
  (((s.nodeD rhs).createdIn = .top ∧ rk rhs < rk n) ∨
    ((s.nodeD rhs).createdIn = .bind b ∧ (s.nodeD rhs).valid = true))

theorem RhsOK2.congr {rk : Nat → Nat} {s s' : State} {b n rhs : Nat} (h : RhsOK2 rk s b n rhs)
    (hcr : (s'.nodeD rhs).createdIn = (s.nodeD rhs).createdIn) (hk : (s'.nodeD rhs).kind = (s.nodeD rhs).kind)
    (hv : (s'.nodeD rhs).valid = (s.nodeD rhs).valid) : RhsOK2 rk s' b n rhs := by
  unfold RhsOK2; rw [hcr, hk, hv]; exact h

section
variable {env : Env} {rk : Nat → Nat} {s : State} {dy : List Nat}

/-- the facts about a right-hand side; the bind's main node is VALID -/
theorem RhsOK2.facts (A : All2 env rk s dy) {b n rhs : Nat} {br : BindRec} (h : RhsOK2 rk s b n rhs)
    (hb : s.binds[b]? = some br) (hl : br.lhsChange = n) (hvm : (s.nodeD br.main).valid = true)
    (hrs : rhs < s.nodes.size) :
    (s.nodeD rhs).valid = true ∧ rhs ≠ n ∧ rhs ≠ br.main ∧ rk rhs < rk br.main := by
  have hlm := A.lc_rk_main hb hvm
  rw [hl] at hlm
  obtain ⟨-, h⟩ := h
  rcases h with ⟨h1, h2⟩ | ⟨h1, h2⟩
  · refine ⟨((A.node rhs hrs).top h1).1, ?_, ?_, by omega⟩
    · intro e; rw [e] at h2; exact Nat.lt_irrefl _ h2
    · intro e; rw [e] at h2; omega
  · have hrk := A.scope_rk hrs h1 hb
    rw [hl] at hrk
    refine ⟨h2, ?_, ?_, hrk.2⟩
    · intro e; rw [e] at hrk; exact Nat.lt_irrefl _ hrk.1
    · intro e; rw [e] at hrk; exact Nat.lt_irrefl _ hrk.2

end

/-- **new right-hand side**: the record of bind `b` gets the right-hand side `rhs` while the bind's main node is
`.linking 1` (its child edge 1 is neither wanted nor recorded) -/
theorem setRhs {env : Env} {rk : Nat → Nat} {s s' : State} {op : Nat → Op} {ex : Nat → Prop} {dy : List Nat} {b n rhs : Nat}
    {br : BindRec}
    (I : GInv2 env rk s op ex dy) (hb : s.binds[b]? = some br) (hl : br.lhsChange = n)
    (hop : op br.main = .linking 1)
    (hrs : rhs < s.nodes.size) (hrhs : RhsOK2 rk s b n rhs)
    (hnd : ∀ m, s'.nodeD m = s.nodeD m) (hsz : s'.nodes.size = s.nodes.size)
    (hpc : s'.panicCountdown = s.panicCountdown) (hsc : s'.currentScope = s.currentScope)
    (hrch : s'.rch = s.rch) (hvars : s'.vars = s.vars) (hexp : s'.experts = s.experts)
    (hb' : s'.binds[b]? = some { br with rhs := some rhs })
    (hbo : ∀ b', b' ≠ b → s'.binds[b']? = s.binds[b']?)
    (hst : (s.nodeD br.main).recomputedAt < (s.nodeD n).changedAt) :
    GInv2 env rk s' op ex dy := by
  have A := I.frag
  obtain ⟨r1, hms, r3, hkm, r5⟩ := A.recs b br hb
  rw [hl] at r1 r3 hkm r5
  have sm := A.node br.main hms
  have hvm : (s.nodeD br.main).valid = true :=
    I.valid_of_open (by rw [hop]; exact Op.linking_ne_closed _)
  have hnm : n < br.main := by omega
  have hns : n < s.nodes.size := by omega
  have hvn : (s.nodeD n).valid = true := by
    have := A.recValid b br hb
    rw [hl, hvm] at this; exact this.symm
  obtain ⟨hvr, hrn, hrm, hrkm⟩ := hrhs.facts A hb hl hvm hrs
  have hrk := hrhs.1
  have hrc := hrhs.2
  have hrkn : rk n < rk br.main := by
    have := A.lc_rk_main hb hvm
    rw [hl] at this; exact this
  have hch0 : s.children br.main = n :: br.rhs.toList := BR.children_main hvm hkm hb
  have hch1 : s'.children br.main = [n, rhs] :=
    BR.children_main (br := { br with rhs := some rhs }) (by rw [hnd]; exact hvm) (by rw [hnd]; exact hkm) hb'
  have hch : ∀ m, m ≠ br.main → s'.children m = s.children m := by
    intro m e
    by_cases hlt : m < s.nodes.size
    · cases hv : (s.nodeD m).valid with
      | false =>
        unfold State.children Node.kind?
        rw [hnd, hv]; rfl
      | true =>
        have hkq : (s.nodeD m).kind? = some (s.nodeD m).kind := by
          unfold Node.kind?; rw [hv]; rfl
        unfold State.children
        rw [hnd, hexp, hkq]
        cases hkd : (s.nodeD m).kind with
        | bindLhsChange b' =>
          by_cases eb : b' = b
          · simp only [eb, hb', hb]
          · simp only [hbo b' eb]
        | bindMain b' lc =>
          have eb : b' ≠ b := by
            intro eb
            obtain ⟨br', h1, h2, -⟩ := (A.node m hlt).mainRec b' lc hkd
            rw [eb, hb] at h1
            cases h1
            exact e h2.symm
          simp only [hbo b' eb]
        | _ => rfl
    · rw [children_default s m (by omega), children_default s' m (by rw [hsz]; omega)]
  -- the bind table
  have hbs : ∀ (b0 : Nat) (br0 : BindRec), s'.binds[b0]? = some br0 →
      ∃ br1 : BindRec, s.binds[b0]? = some br1 ∧ br1.main = br0.main ∧ br1.lhsChange = br0.lhsChange ∧
        br1.allNodesCreatedOnRhs = br0.allNodesCreatedOnRhs := by
    intro b0 br0 h
    by_cases eb : b0 = b
    · rw [eb, hb'] at h
      cases h
      exact ⟨br, by rw [eb]; exact hb, rfl, rfl, rfl⟩
    · rw [hbo b0 eb] at h
      exact ⟨br0, h, rfl, rfl, rfl⟩
  have hbs' : ∀ (b0 : Nat) (br1 : BindRec), s.binds[b0]? = some br1 →
      ∃ br0 : BindRec, s'.binds[b0]? = some br0 ∧ br1.main = br0.main ∧ br1.lhsChange = br0.lhsChange ∧
        br1.allNodesCreatedOnRhs = br0.allNodesCreatedOnRhs := by
    intro b0 br1 h
    by_cases eb : b0 = b
    · rw [eb, hb] at h
      cases h
      exact ⟨{ br with rhs := some rhs }, by rw [eb]; exact hb', rfl, rfl, rfl⟩
    · exact ⟨br1, by rw [hbo b0 eb]; exact h, rfl, rfl, rfl⟩
  have hnec : ∀ m, s'.isNecessary m = s.isNecessary m := fun m => by simp only [State.isNecessary, hnd]
  have hstl : ∀ m, m ≠ br.main → s'.isStale m = s.isStale m := by
    intro m e
    unfold State.isStale
    simp only [hnd, hch m e, hvars, hexp]
  have hstm : s'.isStale br.main = true := by
    refine BR.isStale_main (b := b) (lc := n) (br := { br with rhs := some rhs }) (by rw [hnd]; exact hvm)
      (by rw [hnd]; exact hkm) hb' ?_
    rw [hnd, hnd]; exact hst
  have hA : All2 env rk s' dy := by
    refine ⟨by rw [hpc]; exact A.pc, by rw [hsc]; exact A.scope, fun m hmlt => ?_, ?_, ?_, ?_, ?_, ?_, ?_, ?_, ?_⟩
    · have sn := A.node m (by rw [← hsz]; exact hmlt)
      by_cases e : m = br.main
      · -- the main node
        rw [e]
        refine ⟨by rw [hnd]; exact sm.kind, by rw [hnd]; exact sm.cutoff, ?_, ?_, ?_, ?_, ?_, ?_, ?_, ?_⟩
        · rw [hch1, hsz]
          intro c hc
          simp only [List.mem_cons, List.not_mem_nil, or_false] at hc
          rcases hc with hc | hc
          · rw [hc]; exact hns
          · rw [hc]; exact hrs
        · rw [hch1]
          intro c hc
          simp only [List.mem_cons, List.not_mem_nil, or_false] at hc
          rcases hc with hc | hc
          · rw [hc, hnd]; exact hvn
          · rw [hc, hnd]; exact hvr
        · rw [hch1]
          intro c hc
          simp only [List.mem_cons, List.not_mem_nil, or_false] at hc
          rcases hc with hc | hc
          · rw [hc]; exact hrkn
          · rw [hc]; exact hrkm
        · intro b' hk
          rw [hnd, hkm] at hk; cases hk
        · intro b' lc hk
          rw [hnd, hkm] at hk
          cases hk
          exact ⟨_, hb', rfl, hl⟩
        · intro c b' hc hk
          rw [hnd] at hk ⊢
          rw [hch1] at hc
          simp only [List.mem_cons, List.not_mem_nil, or_false] at hc
          rcases hc with hc | hc
          · rw [hc] at hk ⊢
            exact sm.lcChild n b' (by rw [hch0]; exact List.mem_cons_self ..) hk
          · rw [hc] at hk; exact absurd hk (hrk b')
        · intro htop
          rw [hnd] at htop
          refine ⟨by rw [hnd]; exact hvm, ?_⟩
          rw [hch1]
          intro c hc
          simp only [List.mem_cons, List.not_mem_nil, or_false] at hc
          rcases hc with hc | hc
          · rw [hc, hnd]; exact Or.inl (by rw [← r5]; exact htop)
          · rw [hc, hnd, hnd]
            rcases hrc with h | h
            · exact Or.inl h.1
            · exact Or.inr ⟨b, n, hkm, h.1⟩
        · intro b' h
          rw [hnd] at h
          obtain ⟨h2, br1, h3, h4, h5⟩ := sm.inScope b' h
          obtain ⟨br0, k1, k2, -, -⟩ := hbs' b' br1 h3
          refine ⟨by rw [hnd]; exact h2, br0, k1, by rw [← k2]; exact h4, ?_⟩
          rw [hch1]
          intro c hc
          simp only [List.mem_cons, List.not_mem_nil, or_false] at hc
          rcases hc with hc | hc
          · rw [hc]
            simp only [hnd]
            exact h5 n (by rw [hch0]; exact List.mem_cons_self ..)
          · rw [hc]
            simp only [hnd]
            rcases hrc with h | h
            · exact Or.inl h.1
            · exact Or.inr (Or.inr ⟨b, n, hkm, h.1⟩)
      · refine ⟨by rw [hnd]; exact sn.kind, by rw [hnd]; exact sn.cutoff, ?_, ?_, ?_, ?_, ?_, ?_, ?_, ?_⟩
        · rw [hch m e, hsz]; exact sn.kidsIn
        · rw [hch m e]; intro c hc; rw [hnd]; exact sn.kidsValid c hc
        · rw [hch m e]; exact sn.kidLt
        · intro b' hk
          rw [hnd] at hk
          obtain ⟨br1, h1, h2⟩ := sn.lcRec b' hk
          obtain ⟨br0, k1, -, k3, -⟩ := hbs' b' br1 h1
          exact ⟨br0, k1, by rw [← k3]; exact h2⟩
        · intro b' lc hk
          rw [hnd] at hk
          obtain ⟨br1, h1, h2, h3⟩ := sn.mainRec b' lc hk
          obtain ⟨br0, k1, k2, k3, -⟩ := hbs' b' br1 h1
          exact ⟨br0, k1, by rw [← k2]; exact h2, by rw [← k3]; exact h3⟩
        · intro c b' hc hk
          rw [hnd] at hk ⊢
          rw [hch m e] at hc; exact sn.lcChild c b' hc hk
        · intro h
          rw [hnd] at h
          obtain ⟨h1, h2⟩ := sn.top h
          refine ⟨by rw [hnd]; exact h1, ?_⟩
          rw [hch m e]
          intro c hc
          simp only [hnd]
          exact h2 c hc
        · intro b' h
          rw [hnd] at h
          obtain ⟨h2, br1, h3, h4, h5⟩ := sn.inScope b' h
          obtain ⟨br0, k1, k2, k3, -⟩ := hbs' b' br1 h3
          refine ⟨by rw [hnd]; exact h2, br0, k1, by rw [← k2]; exact h4, ?_⟩
          rw [hch m e]
          intro c hc
          simp only [hnd]
          exact h5 c hc
    · intro b0 br0 h
      obtain ⟨br1, k0, k1, k2, -⟩ := hbs b0 br0 h
      rw [hsz, hnd, hnd, ← k1, ← k2]
      exact A.recs b0 br1 k0
    · intro b0 br0 h m
      obtain ⟨br1, k0, -, -, k3⟩ := hbs b0 br0 h
      rw [hsz, hnd, ← k3]
      exact A.gen b0 br1 k0 m
    · intro b0 br0 h
      obtain ⟨br1, k0, -, -, k3⟩ := hbs b0 br0 h
      rw [← k3]
      exact A.genDy b0 br1 k0
    · intro m hm
      rw [hsz, hnd]
      exact A.dyIn m hm
    · intro n' b0 br0 hn' hv' hsc' h
      obtain ⟨br1, k0, k1, k2, -⟩ := hbs b0 br0 h
      rw [hsz] at hn'; rw [hnd] at hv' hsc'
      rw [hnd, hnd, ← k1, ← k2]
      exact A.scopeValid n' b0 br1 hn' hv' hsc' k0
    · intro b0 br0 h
      obtain ⟨br1, k0, k1, k2, -⟩ := hbs b0 br0 h
      rw [hnd, hnd, ← k1, ← k2]
      exact A.recValid b0 br1 k0
    · intro n' b0 br0 hn' hsc' h
      obtain ⟨br1, k0, k1, k2, -⟩ := hbs b0 br0 h
      rw [hsz] at hn'; rw [hnd] at hsc'
      rw [← k1, ← k2]
      exact A.scopeRk n' b0 br1 hn' hsc' k0
    · intro n' m' hn' hm'
      rw [hsz] at hn' hm'
      exact A.rkInj n' m' hn' hm'
  refine transfer I hA hsz hrch (fun m => by rw [hnd]) (fun m => by rw [hnd]) (fun m => by rw [hnd]) ?_ ?_ ?_ ?_ ?_ ?_
    ?_ ?_ I.opLt (fun _ _ _ _ h1 h2 => absurd h1 h2) (fun _ h1 h2 => absurd h1 h2)
    (fun _ _ h1 h2 => absurd h1 h2) (fun _ h1 h2 => absurd h1 h2)
    (fun m => by rw [hnd]) (fun m => by rw [hnd]) (fun m => by rw [hnd]) (fun m => by rw [hnd])
    (fun m hv => by rw [hnd]; exact (I.inv m hv).2.2.1) (fun m hv => (I.inv m hv).2.2.2.2)
    (fun b0 br0 h => by
      obtain ⟨br1, k0, -, k2, -⟩ := hbs b0 br0 h
      exact ⟨br1, k0, k2⟩)
    (fun _ _ _ h1 h2 => absurd h1 h2)
  · intro p i c hk hw
    refine ⟨?_, (BR.wants_congr hnec p i).2 hw⟩
    by_cases e : p = br.main
    · rw [e] at hk hw ⊢
      have hi : i < 1 := (wants_linking hop).1 hw
      have hi0 : i = 0 := by omega
      rw [hi0, hch0] at hk
      rw [hi0, hch1]
      exact hk
    · rw [hch p e]; exact hk
  · intro p i c hk hw
    have hw' := (BR.wants_congr hnec p i).1 hw
    refine ⟨?_, hw'⟩
    by_cases e : p = br.main
    · rw [e] at hk hw' ⊢
      have hi : i < 1 := (wants_linking hop).1 hw'
      have hi0 : i = 0 := by omega
      rw [hi0, hch1] at hk
      rw [hi0, hch0]
      exact hk
    · rw [← hch p e]; exact hk
  · intro m _ _ h; rw [← hnec]; exact h
  · intro p k ho; rw [hnec]; exact I.lnec p k ho
  · intro p k ho; rw [hnec]; exact I.unec p k ho
  · intro m hq; rw [hnec]; exact I.qnec m hq
  · intro m ho _ _ hs
    have e : m ≠ br.main := fun e => by rw [e, hop] at ho; cases ho
    rw [← hstl m e]; exact hs
  · intro m hq
    by_cases e : m = br.main
    · rw [e]; exact hstm
    · rw [hstl m e]; exact I.qstale m hq


end NR

end IncrVerif.Proofs.NestH
