import IncrVerif.Proofs.SymDiff
/-!
# Laws of sorted association lists (`AMap`)

`insert` / `erase` / `lookup` laws, extensionality of `Sorted` maps, point updates (`alter`), folds of
point updates over a key-distinct list (`alterFold`), and `lookup` of key-preserving `filterMap`s.
Only core Lean.  Lemmas about `lookup` on a `cons` (`lookup_cons_self`, `lookup_cons_ne`,
`lookup_none_of_lt`, `sorted_cons`, …) are in `IncrVerif/Proofs/SymDiff.lean` and reused here.
-/
namespace IncrVerif.AMap
open IncrVerif IncrVerif.Proofs

variable {α : Type}

@[simp] theorem keys_nil : keys ([] : AMap α) = [] := rfl

@[simp] theorem keys_cons' (k : Int) (v : α) (m : AMap α) : keys ((k, v) :: m) = k :: keys m := rfl

@[simp] theorem lookup_nil (k : Int) : lookup ([] : AMap α) k = none := rfl

theorem sorted_nil : Sorted ([] : AMap α) := by simp [Sorted]

theorem sorted_cons_iff (k : Int) (v : α) (m : AMap α) :
    Sorted ((k, v) :: m) ↔ (∀ k' ∈ keys m, k < k') ∧ Sorted m := by
  simp [Sorted]

theorem Sorted.tail {kv : Int × α} {m : AMap α} (h : Sorted (kv :: m)) : Sorted m := by
  rcases kv with ⟨k, v⟩
  exact ((sorted_cons_iff k v m).mp h).2

theorem sorted_singleton (k : Int) (v : α) : Sorted [(k, v)] := by simp [Sorted]

/-! ## `insert` -/

theorem mem_keys_insert (m : AMap α) (k : Int) (v : α) (k' : Int) :
    k' ∈ keys (insert m k v) ↔ k' = k ∨ k' ∈ keys m := by
  induction m with
  | nil => simp [insert]
  | cons kv m ih =>
    rcases kv with ⟨k0, v0⟩
    simp only [insert]
    split
    · simp
    · split
      · subst_vars; simp
      · simp only [keys_cons', List.mem_cons, ih]; grind

/-- `insert` keeps the keys strictly ascending -/
theorem sorted_insert (m : AMap α) (h : Sorted m) (k : Int) (v : α) : Sorted (insert m k v) := by
  induction m with
  | nil => exact sorted_singleton k v
  | cons kv m ih =>
    rcases kv with ⟨k0, v0⟩
    have h' := (sorted_cons_iff k0 v0 m).mp h
    simp only [insert]
    split
    · rename_i hlt
      rw [sorted_cons_iff]
      refine ⟨?_, h⟩
      intro k' hk'
      rcases List.mem_cons.mp hk' with rfl | hk''
      · exact hlt
      · have := h'.1 k' hk''; omega
    · split
      · subst_vars
        rw [sorted_cons_iff]; exact h'
      · rw [sorted_cons_iff]
        refine ⟨?_, ih h'.2⟩
        intro k' hk'
        rcases (mem_keys_insert m k v k').mp hk' with rfl | hk''
        · omega
        · exact h'.1 k' hk''

/-- `get` after `insert` (no sortedness needed) -/
theorem lookup_insert (m : AMap α) (k : Int) (v : α) (k' : Int) :
    lookup (insert m k v) k' = if k' = k then some v else lookup m k' := by
  induction m with
  | nil => simp [insert, lookup]
  | cons kv m ih =>
    rcases kv with ⟨k0, v0⟩
    simp only [insert]
    split
    · simp only [lookup]
    · split
      · subst_vars; simp only [lookup]; split <;> rfl
      · simp only [lookup, ih]
        split <;> split <;> first | rfl | omega

theorem lookup_insert_self (m : AMap α) (k : Int) (v : α) : lookup (insert m k v) k = some v := by
  simp [lookup_insert]

theorem lookup_insert_ne (m : AMap α) (k : Int) (v : α) (k' : Int) (h : k' ≠ k) :
    lookup (insert m k v) k' = lookup m k' := by
  simp [lookup_insert, h]

/-! ## `erase` -/

theorem mem_keys_of_mem_keys_erase (m : AMap α) (k k' : Int) (h : k' ∈ keys (erase m k)) :
    k' ∈ keys m := by
  induction m with
  | nil => simp [erase] at h
  | cons kv m ih =>
    rcases kv with ⟨k0, v0⟩
    simp only [erase] at h
    split at h
    · simp [h]
    · simp only [keys_cons', List.mem_cons] at h ⊢
      rcases h with h | h
      · exact .inl h
      · exact .inr (ih h)

/-- `remove` keeps the keys strictly ascending -/
theorem sorted_erase (m : AMap α) (h : Sorted m) (k : Int) : Sorted (erase m k) := by
  induction m with
  | nil => exact sorted_nil
  | cons kv m ih =>
    rcases kv with ⟨k0, v0⟩
    have h' := (sorted_cons_iff k0 v0 m).mp h
    simp only [erase]
    split
    · exact h'.2
    · rw [sorted_cons_iff]
      exact ⟨fun k' hk' => h'.1 k' (mem_keys_of_mem_keys_erase m k k' hk'), ih h'.2⟩

/-- `remove` leaves the other keys alone (no sortedness needed) -/
theorem lookup_erase_ne (m : AMap α) (k k' : Int) (h : k' ≠ k) :
    lookup (erase m k) k' = lookup m k' := by
  induction m with
  | nil => simp [erase]
  | cons kv m ih =>
    rcases kv with ⟨k0, v0⟩
    simp only [erase]
    split
    · subst_vars; simp only [lookup, if_neg h]
    · simp only [lookup, ih]

/-- the removed key is gone (needs sortedness: a duplicate binding would survive) -/
theorem lookup_erase_self (m : AMap α) (hs : Sorted m) (k : Int) : lookup (erase m k) k = none := by
  induction m with
  | nil => simp [erase]
  | cons kv m ih =>
    rcases kv with ⟨k0, v0⟩
    have h' := (sorted_cons_iff k0 v0 m).mp hs
    simp only [erase]
    split
    · subst_vars; exact lookup_none_of_lt m _ h'.1
    · rename_i hne
      simp only [lookup, if_neg hne, ih h'.2]

/-- `get` after `remove` -/
theorem lookup_erase (m : AMap α) (hs : Sorted m) (k k' : Int) :
    lookup (erase m k) k' = if k' = k then none else lookup m k' := by
  split
  · subst_vars; exact lookup_erase_self m hs _
  · rename_i h; exact lookup_erase_ne m k k' h

/-- removing an absent key is the identity -/
theorem erase_of_lookup_none (m : AMap α) (k : Int) (h : lookup m k = none) : erase m k = m := by
  induction m with
  | nil => rfl
  | cons kv m ih =>
    rcases kv with ⟨k0, v0⟩
    simp only [lookup] at h
    split at h
    · simp at h
    · rename_i hne
      simp only [erase, if_neg hne, ih h]

/-! ## membership vs `lookup`, extensionality -/

theorem lookup_eq_some_iff_mem (m : AMap α) (hs : Sorted m) (k : Int) (v : α) :
    lookup m k = some v ↔ (k, v) ∈ m := by
  induction m with
  | nil => simp
  | cons kv m ih =>
    rcases kv with ⟨k0, v0⟩
    have h' := (sorted_cons_iff k0 v0 m).mp hs
    by_cases hk : k = k0
    · subst hk
      rw [lookup_cons_self]
      constructor
      · intro h; simp at h; simp [h]
      · intro h
        rcases List.mem_cons.mp h with h | h
        · simp at h; simp [h]
        · have hm : k ∈ keys m := List.mem_map.mpr ⟨(k, v), h, rfl⟩
          have := h'.1 k hm; omega
    · rw [lookup_cons_ne _ _ _ _ hk, ih h'.2]
      simp [hk]

theorem lookup_of_mem (m : AMap α) (hs : Sorted m) (kv : Int × α) (h : kv ∈ m) :
    lookup m kv.1 = some kv.2 :=
  (lookup_eq_some_iff_mem m hs kv.1 kv.2).mpr h

theorem lookup_isSome_iff_mem_keys (m : AMap α) (k : Int) : (lookup m k).isSome ↔ k ∈ keys m := by
  constructor
  · intro h
    by_cases hk : k ∈ keys m
    · exact hk
    · rw [lookup_none_of_not_mem_keys m k hk] at h; simp at h
  · exact lookup_isSome_of_mem_keys m k

/-- Extensionality: two sorted maps with the same `get` function are the same list. -/
theorem ext_lookup (a b : AMap α) (ha : Sorted a) (hb : Sorted b)
    (h : ∀ k, lookup a k = lookup b k) : a = b := by
  induction a generalizing b with
  | nil =>
    cases b with
    | nil => rfl
    | cons kv b =>
      rcases kv with ⟨k, v⟩
      have := h k
      rw [lookup_cons_self] at this; simp at this
  | cons kv a ih =>
    rcases kv with ⟨k, v⟩
    cases b with
    | nil =>
      have := h k
      rw [lookup_cons_self] at this; simp at this
    | cons kv' b =>
      rcases kv' with ⟨k', v'⟩
      have ha' := (sorted_cons_iff k v a).mp ha
      have hb' := (sorted_cons_iff k' v' b).mp hb
      have hk : k = k' := by
        by_cases h1 : k < k'
        · have := h k
          rw [lookup_cons_self, lookup_none_of_lt] at this
          · simp at this
          · intro k'' hk''
            rcases List.mem_cons.mp hk'' with rfl | hk3
            · exact h1
            · have := hb'.1 k'' hk3; omega
        · by_cases h2 : k' < k
          · have := h k'
            rw [lookup_cons_self, lookup_none_of_lt] at this
            · simp at this
            · intro k'' hk''
              rcases List.mem_cons.mp hk'' with rfl | hk3
              · exact h2
              · have := ha'.1 k'' hk3; omega
          · omega
      subst hk
      have hv : v = v' := by
        have := h k
        rw [lookup_cons_self, lookup_cons_self] at this
        exact Option.some.inj this
      subst hv
      congr 1
      apply ih b ha'.2 hb'.2
      intro k''
      by_cases hk : k'' = k
      · subst hk
        rw [lookup_none_of_lt a k'' ha'.1, lookup_none_of_lt b k'' hb'.1]
      · have := h k''
        rwa [lookup_cons_ne _ _ _ _ hk, lookup_cons_ne _ _ _ _ hk] at this

/-! ## point update: `alter m k none` = leave alone, `some none` = remove, `some (some v)` = insert -/

def alter (m : AMap α) (k : Int) : Option (Option α) → AMap α
  | none => m
  | some none => erase m k
  | some (some v) => insert m k v

theorem sorted_alter (m : AMap α) (hs : Sorted m) (k : Int) (o : Option (Option α)) :
    Sorted (alter m k o) := by
  rcases o with _ | _ | v
  · exact hs
  · exact sorted_erase m hs k
  · exact sorted_insert m hs k v

theorem lookup_alter_ne (m : AMap α) (k : Int) (o : Option (Option α)) (k' : Int) (h : k' ≠ k) :
    lookup (alter m k o) k' = lookup m k' := by
  rcases o with _ | _ | v
  · rfl
  · exact lookup_erase_ne m k k' h
  · exact lookup_insert_ne m k v k' h

theorem lookup_alter_self (m : AMap α) (hs : Sorted m) (k : Int) (o : Option (Option α)) :
    lookup (alter m k o) k = o.getD (lookup m k) := by
  rcases o with _ | _ | v
  · rfl
  · exact lookup_erase_self m hs k
  · exact lookup_insert_self m k v

/-- fold of point updates: every element `e` of `d` alters key `key e` as `op e` says -/
def alterFold {δ : Type} (key : δ → Int) (op : δ → Option (Option α)) (acc : AMap α) (d : List δ) :
    AMap α :=
  d.foldl (fun m e => alter m (key e) (op e)) acc

theorem sorted_alterFold {δ : Type} (key : δ → Int) (op : δ → Option (Option α)) (acc : AMap α)
    (hs : Sorted acc) (d : List δ) : Sorted (alterFold key op acc d) := by
  induction d generalizing acc with
  | nil => exact hs
  | cons e d ih => exact ih _ (sorted_alter acc hs _ _)

/-- keys not mentioned in `d` keep their binding -/
theorem lookup_alterFold_of_not_mem {δ : Type} (key : δ → Int) (op : δ → Option (Option α))
    (acc : AMap α) (d : List δ) (k : Int) (h : ∀ e ∈ d, key e ≠ k) :
    lookup (alterFold key op acc d) k = lookup acc k := by
  induction d generalizing acc with
  | nil => rfl
  | cons e d ih =>
    show lookup (alterFold key op (alter acc (key e) (op e)) d) k = _
    rw [ih _ (fun e' he' => h e' (by simp [he']))]
    exact lookup_alter_ne acc _ _ k (fun hk => h e (by simp) hk.symm)

/-- a key mentioned (once) in `d` ends up with what its element says -/
theorem lookup_alterFold_of_mem {δ : Type} (key : δ → Int) (op : δ → Option (Option α))
    (acc : AMap α) (hs : Sorted acc) (d : List δ)
    (hd : List.Pairwise (fun x y => key x ≠ key y) d) (e : δ) (he : e ∈ d) :
    lookup (alterFold key op acc d) (key e) = (op e).getD (lookup acc (key e)) := by
  induction d generalizing acc with
  | nil => simp at he
  | cons e0 d ih =>
    rw [List.pairwise_cons] at hd
    show lookup (alterFold key op (alter acc (key e0) (op e0)) d) (key e) = _
    rcases List.mem_cons.mp he with rfl | he'
    · rw [lookup_alterFold_of_not_mem key op _ d (key e) (fun e' he' => (hd.1 e' he').symm)]
      exact lookup_alter_self acc hs _ _
    · rw [ih _ (sorted_alter acc hs _ _) hd.2 he']
      rw [lookup_alter_ne acc _ _ _ (hd.1 e he').symm]

/-! ## `lookup` of a key-preserving `filterMap` over a key-ascending list -/

section keyed
variable {δ : Type} (key : δ → Int) (g : δ → Option (Int × α))

theorem keys_filterMap_sublist (hg : ∀ e kv, g e = some kv → kv.1 = key e) (d : List δ) :
    (keys (d.filterMap g)).Sublist (d.map key) := by
  induction d with
  | nil => simp
  | cons e d ih =>
    rw [List.filterMap_cons]
    rcases hge : g e with _ | kv
    · exact List.Sublist.cons _ ih
    · have := hg e kv hge
      rcases kv with ⟨k, v⟩
      simp only at this
      subst this
      simpa using ih

theorem sorted_filterMap_keyed (hg : ∀ e kv, g e = some kv → kv.1 = key e) (d : List δ)
    (hd : List.Pairwise (· < ·) (d.map key)) : Sorted (d.filterMap g) :=
  List.Pairwise.sublist (keys_filterMap_sublist key g hg d) hd

theorem lookup_filterMap_keyed_of_not_mem (hg : ∀ e kv, g e = some kv → kv.1 = key e) (d : List δ)
    (k : Int) (h : ∀ e ∈ d, key e ≠ k) : lookup (d.filterMap g) k = none := by
  apply lookup_none_of_not_mem_keys
  intro hk
  have := (keys_filterMap_sublist key g hg d).subset hk
  obtain ⟨e, he, hke⟩ := List.mem_map.mp this
  exact h e he hke

theorem lookup_filterMap_keyed_of_mem (hg : ∀ e kv, g e = some kv → kv.1 = key e) (d : List δ)
    (hd : List.Pairwise (· < ·) (d.map key)) (e : δ) (he : e ∈ d) :
    lookup (d.filterMap g) (key e) = (g e).map (·.2) := by
  induction d with
  | nil => simp at he
  | cons e0 d ih =>
    rw [List.map_cons, List.pairwise_cons] at hd
    have hlt : ∀ e' ∈ d, key e0 < key e' := fun e' he' => hd.1 _ (List.mem_map.mpr ⟨e', he', rfl⟩)
    rw [List.filterMap_cons]
    rcases List.mem_cons.mp he with rfl | he'
    · rcases hge : g e with _ | kv
      · simp only [Option.map_none]
        exact lookup_filterMap_keyed_of_not_mem key g hg d _
          (fun e' he' => by have := hlt e' he'; omega)
      · have := hg e kv hge
        rcases kv with ⟨k, v⟩
        simp only at this
        subst this
        simp [lookup_cons_self]
    · have hne : key e ≠ key e0 := by have := hlt e he'; omega
      rcases hge : g e0 with _ | kv
      · exact ih hd.2 he'
      · have := hg e0 kv hge
        rcases kv with ⟨k, v⟩
        simp only at this
        subst this
        simp only
        rw [lookup_cons_ne _ _ _ _ hne]
        exact ih hd.2 he'

end keyed

/-- `get` on a key-wise `filter_map` of a sorted map: apply the function to the binding, if any -/
theorem lookup_filterMap_val {β : Type} (f : Int → α → Option β) (m : AMap α) (hs : Sorted m) (k : Int) :
    lookup (m.filterMap fun kv => (f kv.1 kv.2).map fun v2 => (kv.1, v2)) k =
      (lookup m k).bind (f k) := by
  have hg : ∀ (e : Int × α) (kv : Int × β),
      ((f e.1 e.2).map fun v2 => (e.1, v2)) = some kv → kv.1 = e.1 := by
    intro e kv h
    rcases hf : f e.1 e.2 with _ | v2
    · simp [hf] at h
    · simp [hf] at h; rw [← h]
  rcases hl : lookup m k with _ | v
  · rw [lookup_filterMap_keyed_of_not_mem (fun e : Int × α => e.1) _ hg m k]
    · rfl
    · intro e he hk
      have := lookup_of_mem m hs e he
      rw [hk, hl] at this; simp at this
  · have hmem := (lookup_eq_some_iff_mem m hs k v).mp hl
    have := lookup_filterMap_keyed_of_mem (fun e : Int × α => e.1) _ hg m hs (k, v) hmem
    simp only at this
    rw [this]
    rcases hf : f k v with _ | v2 <;> simp [hf]

theorem sorted_filterMap_val {β : Type} (f : Int → α → Option β) (m : AMap α) (hs : Sorted m) :
    Sorted (m.filterMap fun kv => (f kv.1 kv.2).map fun v2 => (kv.1, v2)) := by
  apply sorted_filterMap_keyed (fun e : Int × α => e.1) _ _ m hs
  intro e kv h
  rcases hf : f e.1 e.2 with _ | v2
  · simp [hf] at h
  · simp [hf] at h; rw [← h]

end IncrVerif.AMap
