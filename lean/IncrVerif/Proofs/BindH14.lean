import IncrVerif.Proofs.BindH4
import IncrVerif.Proofs.BindH2
/-!
# Binds, part 3k: Boolean checkers for `BGraph`, `DInv`, `StepRelB`, `StepL` (executable; used by the search for
reachable counterexamples and by the non-vacuity examples)
-/
namespace IncrVerif.Proofs.BindH
open IncrVerif.Engine IncrVerif.Proofs IncrVerif.Proofs.Step IncrVerif.Proofs.Sched

def bkindB : Kind → Bool
  | .bindLhsChange _ => true
  | .bindMain _ _ => true
  | .const _ => true
  | .var _ => true
  | .map f _ => decide (f < fnPerKey)
  | .fold _ _ _ => true
  | _ => false

/-- the targets of the edges leaving `a` -/
def edgesOf (s : State) (a : Nat) : List Nat :=
  s.children a ++
    (if (s.nodeD a).valid then
      match (s.nodeD a).createdIn with
      | .top => []
      | .bind b => match s.binds[b]? with
        | some br => [br.lhsChange]
        | none => []
    else [])

/-- nodes reachable from `front` (fuel = number of rounds) -/
def reach (s : State) : Nat → List Nat → List Nat → List Nat
  | 0, _, seen => seen
  | fuel+1, front, seen =>
    let next := (front.flatMap (edgesOf s)).eraseDups.filter fun c => !seen.contains c
    if next.isEmpty then seen else reach s fuel next (seen ++ next)

def belowOf (s : State) (a : Nat) : List Nat := reach s (s.nodes.size + 1) [a] [a]

/-- longest-path ranks by relaxation; `none` if not stable after `size + 1` rounds (a cycle) -/
def acycB (s : State) : Bool :=
  let n := s.nodes.size
  let step (rk : Array Nat) : Array Nat :=
    (Array.range n).map fun a => ((edgesOf s a).map fun c => rk[c]?.getD 0 + 1).foldl max 0
  let rec iter : Nat → Array Nat → Array Nat
    | 0, rk => rk
    | k+1, rk => iter k (step rk)
  let rk := iter (n + 1) (Array.replicate n 0)
  step rk == rk

def zipIdx' (l : List Nat) : List (Nat × Nat) := l.zipIdx

def bgraphB (s : State) : Bool :=
  s.panicCountdown.isNone
  && allN s (fun n => !(s.nodeD n).valid ||
      (bkindB (s.nodeD n).kind && (decide ((s.nodeD n).cutoff = .eq) || decide ((s.nodeD n).cutoff = .never))
        && (s.children n).all fun c => decide (c < s.nodes.size) && (s.nodeD c).valid))
  && allN s (fun n => !s.isNecessary n || ((s.nodeD n).valid && decide (0 ≤ (s.nodeD n).height)))
  && allN s (fun n => !(s.nodeD n).valid ||
      match (s.nodeD n).kind with
      | .var c => (s.vars[c]?).isSome
      | _ => true)
  && allN s (fun n => !s.isNecessary n ||
      (zipIdx' (s.children n)).all fun ci =>
        s.isNecessary ci.1 && (s.nodeD ci.1).parents.contains (n, ci.2) &&
          decide ((s.nodeD ci.1).height < (s.nodeD n).height))
  && allN s (fun c => (s.nodeD c).parents.all fun pi =>
      s.isNecessary pi.1 && decide ((s.children pi.1)[pi.2]? = some c))
  && allN s (fun n => !(s.nodeD n).valid ||
      match (s.nodeD n).createdIn with
      | .top => true
      | .bind b => match s.binds[b]? with
        | none => false
        | some br => decide (br.lhsChange < s.nodes.size) && (s.nodeD br.lhsChange).valid &&
            (!s.isNecessary n || (s.isNecessary br.lhsChange &&
              decide ((s.nodeD br.lhsChange).height < (s.nodeD n).height))))
  && allN s (fun n => !(s.nodeD n).valid ||
      match (s.nodeD n).kind with
      | .bindLhsChange b => (match s.binds[b]? with | some br => decide (br.lhsChange = n) | none => false)
      | .bindMain b lc => (match s.binds[b]? with
          | some br => decide (br.main = n) && decide (br.lhsChange = lc) &&
              decide ((s.nodeD lc).createdIn = (s.nodeD n).createdIn) | none => false)
      | _ => true)
  && allN s (fun m => !(s.nodeD m).valid ||
      (s.children m).all fun c =>
        match (s.nodeD c).kind with
        | .bindLhsChange b => decide ((s.nodeD m).kind = .bindMain b c)
        | _ => true)
  && acycB s

def targetB (env : Env) (s : State) (n : Nat) : Option Val :=
  match (s.nodeD n).kind with
  | .bindLhsChange _ => some .unit
  | .bindMain b _ => match s.binds[b]? with
    | some br => (match br.rhs with | some r => (s.nodeD r).value | none => none)
    | none => none
  | .const w => some w
  | .var c => (s.vars[c]?).map (·.value)
  | .map f args => (plainVals s args).map (env.fn f)
  | .fold f init cs => (plainVals s cs).map (List.foldl (env.foldStep f) init)
  | _ => none

def stampsB (s : State) : Bool :=
  decide (0 ≤ s.stabNum)
  && allN s (fun m => decide ((s.nodeD m).recomputedAt ≤ s.stabNum) && decide ((s.nodeD m).changedAt ≤ s.stabNum))
  && s.vars.toList.all fun vc => decide (vc.setAt ≤ s.stabNum)

structure DReport where
  graph : Bool
  heap : Bool
  stamps : Bool
  qstale : Bool
  pending : Bool
  cons : Bool
  fresh : Bool
  cur : Bool
deriving Repr

def DReport.ok (r : DReport) : Bool :=
  r.graph && r.heap && r.stamps && r.qstale && r.pending && r.cons && r.fresh && r.cur

def dinvReport (env : Env) (s : State) (x : Option Nat) : DReport where
  graph := bgraphB s
  heap := heapInvB s
  stamps := stampsB s
  qstale := allN s fun m => !(s.nodeD m).inRch || s.isStale m
  pending := pendingB s x
  cons := allN s fun m => !((s.nodeD m).valid && !s.isStale m) ||
    (match targetB env s m with
     | some v => decide ((s.nodeD m).value = some v)
     | none => false)
  fresh := allN s fun a => decide ((s.nodeD a).recomputedAt < s.stabNum) ||
    (belowOf s a).all fun d => !s.isStale d && decide (x ≠ some d)
  cur := match x with
    | none => true
    | some n => s.isNecessary n && (belowOf s n).all fun d => !(s.nodeD d).inRch

def dinvB (env : Env) (s : State) (x : Option Nat) : Bool := (dinvReport env s x).ok

/-! ## the step relations -/

def nodeSameB (a b : Node) : Bool :=
  decide (b.kind = a.kind) && decide (b.createdIn = a.createdIn) && decide (b.cutoff = a.cutoff) &&
  decide (b.value = a.value) && decide (b.valid = a.valid) && decide (b.recomputedAt = a.recomputedAt) &&
  decide (b.changedAt = a.changedAt) && decide (b.height = a.height) && decide (b.parents = a.parents) &&
  decide (b.observers = a.observers) && decide (b.forceNecessary = a.forceNecessary) &&
  decide (b.oldState = a.oldState) && (!a.inRch || b.inRch)

def sameShapeB (a b : Node) : Bool :=
  decide (b.kind = a.kind) && decide (b.createdIn = a.createdIn) && decide (b.valid = a.valid) &&
  decide (b.cutoff = a.cutoff) && decide (b.height = a.height) && decide (b.parents = a.parents) &&
  decide (b.observers = a.observers) && decide (b.forceNecessary = a.forceNecessary)

def scopeClearB (s s' : State) (p : Nat) : Bool :=
  match scopeBind s p with
  | none => true
  | some (_, br) => allN s' fun m => !(s'.nodeD m).inRch ||
      decide ((s.nodeD br.lhsChange).height < (s.nodeD m).height)

def handOKB (s s' : State) (n p : Nat) : Bool :=
  (decide (s.children p = [n]) && scopeClearB s s' p)
  || (allN s' fun m => !(s'.nodeD m).inRch || decide ((s.nodeD p).height ≤ (s.nodeD m).height))
  || (match (s.nodeD p).kind with
      | .bindMain _ lc => decide (s.children p = [lc, n]) && scopeClearB s s' p &&
          allN s' fun m => !(s'.nodeD m).inRch || decide ((s.nodeD lc).height < (s.nodeD m).height)
      | _ => false)

def bindsSameB (s s' : State) : Bool :=
  decide (s'.binds.size = s.binds.size) &&
  (List.range s.binds.size).all fun b =>
    match s.binds[b]?, s'.binds[b]? with
    | some x, some y => decide (x.lhs = y.lhs) && decide (x.body = y.body) && decide (x.lhsChange = y.lhsChange) &&
        decide (x.main = y.main) && decide (x.rhs = y.rhs) &&
        decide (x.allNodesCreatedOnRhs = y.allNodesCreatedOnRhs)
    | _, _ => false

def varsSameB (s s' : State) : Bool :=
  decide (s'.vars.size = s.vars.size) &&
  (List.range s.vars.size).all fun c =>
    match s.vars[c]?, s'.vars[c]? with
    | some x, some y => decide (x.value = y.value) && decide (x.setAt = y.setAt) && decide (x.node = y.node)
    | _, _ => false

/-- `StepRelB n v ch r s s'` for `v` = the stored value afterwards and some `ch`; returns the failing fields -/
def stepRelBReport (n : Nat) (r : Option Nat) (s s' : State) : List String :=
  let ch := decide ((s'.nodeD n).changedAt = s.stabNum) && decide ((s.nodeD n).changedAt ≠ s.stabNum)
  let par := (s.nodeD n).parents.map (·.1)
  let checks : List (String × Bool) := [
    ("size", decide (s'.nodes.size = s.nodes.size)),
    ("vars", varsSameB s s'),
    ("binds", bindsSameB s s'),
    ("stabNum", decide (s'.stabNum = s.stabNum)),
    ("pc", s'.panicCountdown.isNone),
    ("qsize", decide (s'.rch.queues.size = s.rch.queues.size)),
    ("other", allN s fun m => decide (m = n) || nodeSameB (s.nodeD m) (s'.nodeD m)),
    ("shape", sameShapeB (s.nodeD n) (s'.nodeD n)),
    ("value", (s'.nodeD n).value.isSome),
    ("recomputedAt", decide ((s'.nodeD n).recomputedAt = s.stabNum)),
    ("changedAt", decide ((s'.nodeD n).changedAt = if ch then s.stabNum else (s.nodeD n).changedAt)),
    ("unch", ch || (decide ((s.nodeD n).value = (s'.nodeD n).value) && r.isNone)),
    ("heap", heapInvB s'),
    ("newIn", allN s' fun m => !(s'.nodeD m).inRch || (s.nodeD m).inRch || (ch && par.contains m)),
    ("parentsIn", !ch || par.all fun p => (s'.nodeD p).inRch || decide (r = some p)),
    ("ret", match r with
      | none => true
      | some p => ch && par.contains p && !(s'.nodeD p).inRch && handOKB s s' n p)]
  (checks.filter fun c => !c.2).map (·.1)

def stepLReport (n : Nat) (r : Option Nat) (s s' : State) : List String :=
  match (s.nodeD n).kind with
  | .bindLhsChange b =>
    match s.binds[b]?, s'.binds[b]? with
    | some br, some br' =>
      let checks : List (String × Bool) := [
        ("lc", decide (br.lhsChange = n) && decide (br'.lhsChange = n) && decide (br'.main = br.main) &&
          decide (br'.lhs = br.lhs) && decide (br'.body = br.body)),
        ("bindsOther", decide (s'.binds.size = s.binds.size) &&
          (List.range s.binds.size).all fun b' => decide (b' = b) ||
            match s.binds[b']?, s'.binds[b']? with
            | some x, some y => decide (x.lhs = y.lhs) && decide (x.body = y.body) &&
                decide (x.lhsChange = y.lhsChange) && decide (x.main = y.main) && decide (x.rhs = y.rhs) &&
                decide (x.allNodesCreatedOnRhs = y.allNodesCreatedOnRhs)
            | _, _ => false),
        ("grow", decide (s.nodes.size ≤ s'.nodes.size)),
        ("vars", varsSameB s s'),
        ("stabNum", decide (s'.stabNum = s.stabNum)),
        ("graph'", bgraphB s'),
        ("heap'", heapInvB s'),
        ("stamps'", stampsB s'),
        ("qstale'", allN s' fun m => !(s'.nodeD m).inRch || s'.isStale m),
        ("pending'", pendingB s' r),
        ("self", decide ((s'.nodeD n).recomputedAt = s.stabNum) && decide ((s'.nodeD n).changedAt = s.stabNum) &&
          decide ((s'.nodeD n).value = some .unit) && (s'.nodeD n).valid &&
          decide ((s'.nodeD n).kind = (s.nodeD n).kind) && decide (s'.children n = s.children n) &&
          decide ((s'.nodeD n).createdIn = (s.nodeD n).createdIn)),
        ("old", allN s fun m => decide (m = n) ||
          ((s.nodeD m).valid && !(s'.nodeD m).valid && decide ((s.nodeD m).createdIn = .bind b)) ||
          (decide ((s'.nodeD m).valid = (s.nodeD m).valid) && decide ((s'.nodeD m).kind = (s.nodeD m).kind) &&
            decide ((s'.nodeD m).createdIn = (s.nodeD m).createdIn) &&
            decide ((s'.nodeD m).value = (s.nodeD m).value) &&
            decide ((s'.nodeD m).recomputedAt = (s.nodeD m).recomputedAt) &&
            decide ((s'.nodeD m).changedAt = (s.nodeD m).changedAt) &&
            (decide (m = br.main) || decide (s'.children m = s.children m)))),
        ("new", allN s' fun m => decide (m < s.nodes.size) ||
          (decide ((s'.nodeD m).recomputedAt = -1) && decide ((s'.nodeD m).createdIn = .bind b) &&
            (!(s'.nodeD m).valid || s'.isStale m))),
        ("main", decide (br.main < s.nodes.size) && (s.children br.main).contains n &&
          (s'.children br.main).contains n && decide (br.main ≠ n)),
        ("ret", match r with
          | none => true
          | some p => decide (p = br.main) && !(s'.nodeD p).inRch && s'.isNecessary p &&
              allN s' fun m => !(s'.nodeD m).inRch || decide ((s'.nodeD p).height ≤ (s'.nodeD m).height))]
      (checks.filter fun c => !c.2).map (·.1)
    | _, _ => ["bind"]
  | _ => ["kind"]

end IncrVerif.Proofs.BindH
