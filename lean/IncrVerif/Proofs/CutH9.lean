import IncrVerif.Proofs.CutH8
-- Port of Proofs/Quiet3.lean to ARBITRARY cutoffs (scratch name Q3); overview in Props/C06History.lean
/-!
# General helpers about `NodeUpd` (used by Q3, reusable by Q4)
-/
namespace IncrVerif.Proofs.CutH
open IncrVerif.Engine IncrVerif.Proofs IncrVerif.Proofs.Step IncrVerif.Proofs.Sched

/-- `f` changes at most `parents`, `observers`, `height` (among the fields the invariant reads) -/
structure KeepsG (f : Node → Node) : Prop where
  valid : ∀ x, (f x).valid = x.valid
  kind : ∀ x, (f x).kind = x.kind
  cutoff : ∀ x, (f x).cutoff = x.cutoff
  createdIn : ∀ x, (f x).createdIn = x.createdIn
  forceNecessary : ∀ x, (f x).forceNecessary = x.forceNecessary
  heightInRch : ∀ x, (f x).heightInRch = x.heightInRch
  recomputedAt : ∀ x, (f x).recomputedAt = x.recomputedAt
  changedAt : ∀ x, (f x).changedAt = x.changedAt

theorem keeps_fParents (l : List (Nat × Nat)) : KeepsG (fParents l) :=
  ⟨fun _ => rfl, fun _ => rfl, fun _ => rfl, fun _ => rfl, fun _ => rfl, fun _ => rfl, fun _ => rfl, fun _ => rfl⟩
theorem keeps_fHeight (h : Int) : KeepsG (fHeight h) :=
  ⟨fun _ => rfl, fun _ => rfl, fun _ => rfl, fun _ => rfl, fun _ => rfl, fun _ => rfl, fun _ => rfl, fun _ => rfl⟩
theorem keeps_fObservers (l : List Nat) : KeepsG (fObservers l) :=
  ⟨fun _ => rfl, fun _ => rfl, fun _ => rfl, fun _ => rfl, fun _ => rfl, fun _ => rfl, fun _ => rfl, fun _ => rfl⟩

namespace NodeUpd
variable {env : Env} {s s' : State} {n : Nat} {f : Node → Node}

/-! ### nodes other than `n` -/

theorem parents_other (U : NodeUpd n f s s') {m : Nat} (h : m ≠ n) :
    (s'.nodeD m).parents = (s.nodeD m).parents := (U.other m h).parents
theorem observers_other (U : NodeUpd n f s s') {m : Nat} (h : m ≠ n) :
    (s'.nodeD m).observers = (s.nodeD m).observers := (U.other m h).observers
theorem height_other (U : NodeUpd n f s s') {m : Nat} (h : m ≠ n) :
    (s'.nodeD m).height = (s.nodeD m).height := (U.other m h).height
theorem nec_other (U : NodeUpd n f s s') {m : Nat} (h : m ≠ n) :
    s'.isNecessary m = s.isNecessary m := by
  simp only [State.isNecessary, Node.isNecessary, (U.other m h).parents, (U.other m h).observers,
    (U.other m h).forceNecessary]

/-! ### node `n` -/

theorem parents_self (U : NodeUpd n f s s') : (s'.nodeD n).parents = (f (s.nodeD n)).parents := U.self.parents
theorem observers_self (U : NodeUpd n f s s') : (s'.nodeD n).observers = (f (s.nodeD n)).observers :=
  U.self.observers
theorem height_self (U : NodeUpd n f s s') : (s'.nodeD n).height = (f (s.nodeD n)).height := U.self.height

/-! ### all nodes, when `f` keeps the field -/

theorem valid (U : NodeUpd n f s s') (K : KeepsG f) (m : Nat) : (s'.nodeD m).valid = (s.nodeD m).valid := by
  by_cases h : m = n
  · rw [h]; exact U.self.valid.trans (K.valid _)
  · exact (U.other m h).valid
theorem kind (U : NodeUpd n f s s') (K : KeepsG f) (m : Nat) : (s'.nodeD m).kind = (s.nodeD m).kind := by
  by_cases h : m = n
  · rw [h]; exact U.self.kind.trans (K.kind _)
  · exact (U.other m h).kind
theorem cutoff (U : NodeUpd n f s s') (K : KeepsG f) (m : Nat) : (s'.nodeD m).cutoff = (s.nodeD m).cutoff := by
  by_cases h : m = n
  · rw [h]; exact U.self.cutoff.trans (K.cutoff _)
  · exact (U.other m h).cutoff
theorem createdIn (U : NodeUpd n f s s') (K : KeepsG f) (m : Nat) :
    (s'.nodeD m).createdIn = (s.nodeD m).createdIn := by
  by_cases h : m = n
  · rw [h]; exact U.self.createdIn.trans (K.createdIn _)
  · exact (U.other m h).createdIn
theorem forceNecessary (U : NodeUpd n f s s') (K : KeepsG f) (m : Nat) :
    (s'.nodeD m).forceNecessary = (s.nodeD m).forceNecessary := by
  by_cases h : m = n
  · rw [h]; exact U.self.forceNecessary.trans (K.forceNecessary _)
  · exact (U.other m h).forceNecessary
theorem heightInRch (U : NodeUpd n f s s') (K : KeepsG f) (m : Nat) :
    (s'.nodeD m).heightInRch = (s.nodeD m).heightInRch := by
  by_cases h : m = n
  · rw [h]; exact U.self.heightInRch.trans (K.heightInRch _)
  · exact (U.other m h).heightInRch
theorem recomputedAt (U : NodeUpd n f s s') (K : KeepsG f) (m : Nat) :
    (s'.nodeD m).recomputedAt = (s.nodeD m).recomputedAt := by
  by_cases h : m = n
  · rw [h]; exact U.self.recomputedAt.trans (K.recomputedAt _)
  · exact (U.other m h).recomputedAt
theorem changedAt (U : NodeUpd n f s s') (K : KeepsG f) (m : Nat) :
    (s'.nodeD m).changedAt = (s.nodeD m).changedAt := by
  by_cases h : m = n
  · rw [h]; exact U.self.changedAt.trans (K.changedAt _)
  · exact (U.other m h).changedAt

theorem inRch (U : NodeUpd n f s s') (K : KeepsG f) (m : Nat) : (s'.nodeD m).inRch = (s.nodeD m).inRch := by
  simp only [Node.inRch, U.heightInRch K m]

theorem staleOf (U : NodeUpd n f s s') (K : KeepsG f) (m : Nat) : staleOf s' m = staleOf s m :=
  staleOf_congr (U.kind K m) (U.recomputedAt K m) U.vars (fun c _ => U.changedAt K c)

theorem static (U : NodeUpd n f s s') (K : KeepsG f) (h : AllStatic env s) : AllStatic env s' := by
  refine ⟨by rw [U.pc]; exact h.pc, by rw [U.scope]; exact h.scope, fun m hm => ?_⟩
  have sn := h.node m (by rw [← U.size]; exact hm)
  exact ⟨by rw [U.valid K]; exact sn.valid, by rw [U.kind K]; exact sn.kind,
    by rw [U.createdIn K]; exact sn.top, by rw [U.forceNecessary K]; exact sn.force,
    by rw [U.kind K]; exact sn.kidsLt⟩

theorem heap (U : NodeUpd n f s s') (K : KeepsG f) (h : HeapG s) : HeapG s' :=
  h.congr U.rch U.size (U.heightInRch K)

/-- necessity of `n` itself, when only `parents`/`observers` matter -/
theorem nec_self_iff (U : NodeUpd n f s s') (K : KeepsG f) :
    s'.isNecessary n = true ↔
      ((f (s.nodeD n)).parents ≠ [] ∨ (f (s.nodeD n)).observers ≠ [] ∨ (s.nodeD n).forceNecessary = true) := by
  rw [isNecessary_iff, U.parents_self, U.observers_self, U.forceNecessary K]

end NodeUpd

/-! ## unnecessary nodes -/

theorem parents_nil_of_not_nec {s : State} {c : Nat} (hc : s.isNecessary c = false) :
    (s.nodeD c).parents = [] := by
  cases h : (s.nodeD c).parents with
  | nil => rfl
  | cons a l =>
    have : s.isNecessary c = true := nec_of_mem_parents (x := a) (by rw [h]; exact List.mem_cons_self ..)
    rw [hc] at this; cases this

theorem observers_nil_of_not_nec {s : State} {c : Nat} (hc : s.isNecessary c = false) :
    (s.nodeD c).observers = [] := by
  cases h : (s.nodeD c).observers with
  | nil => rfl
  | cons a l =>
    have : s.isNecessary c = true := (isNecessary_iff s c).2 (Or.inr (Or.inl (by rw [h]; simp)))
    rw [hc] at this; cases this

/-- an unnecessary closed node is not queued -/
theorem GInv.not_queued_of_not_nec {env : Env} {s : State} {op : Nat → Op} (I : GInv env s op) {c : Nat}
    (hc : s.isNecessary c = false) (hcl : op c = .closed) : (s.nodeD c).inRch = false := by
  cases h : (s.nodeD c).inRch
  · rfl
  · rcases I.qnec c h with h1 | ⟨k, h1⟩
    · rw [hc] at h1; cases h1
    · rw [hcl] at h1; cases h1

/-! ## labelling helpers -/

theorem upd_closed_inv {op : Nat → Op} {p m : Nat} {x : Op} (hx : x ≠ .closed)
    (h : upd op p x m = .closed) : m ≠ p ∧ op m = .closed := by
  by_cases e : m = p
  · rw [e, upd_self] at h; exact absurd h hx
  · rw [upd_other _ _ _ e] at h; exact ⟨e, h⟩

theorem Op.linking_ne_closed (k : Nat) : Op.linking k ≠ .closed := by intro h; cases h
theorem Op.unlinking_ne_closed (k : Nat) : Op.unlinking k ≠ .closed := by intro h; cases h

end IncrVerif.Proofs.CutH
