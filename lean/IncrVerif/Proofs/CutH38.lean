import IncrVerif.Proofs.CutH32
-- Port of Proofs/Quiet26.lean to ARBITRARY cutoffs (scratch name T26); overview in Props/C06History.lean
/-!
# Part 26: `create` returns (port of `Proofs/Quiet26.lean`; new: `dependOn`, `cutoff`, and the clause `TInv.dep`)
-/
namespace IncrVerif.Proofs.CutH
open IncrVerif.Engine IncrVerif.Driver IncrVerif.Proofs IncrVerif.Proofs.Step IncrVerif.Proofs.Sched
variable {e : Bool}

theorem map_run_ok {α β} {f : α → β} {x : M α} {s s1 : State} {a : α}
    (h : x.run.run s = (.ok a, s1)) : (f <$> x).run.run s = (.ok (f a), s1) := by
  rw [map_eq_pure_bind, run_bind_ok h, run_pure]

/-- a top-level handle that exists resolves -/
theorem resolveOpnd_run {s : State} {o : Opnd} (ho : OpndIn s o) :
    ∃ n, (resolveOpnd [] o).run.run s = (.ok n, s) := by
  cases o with
  | outer k =>
    have hk : k < s.top.size := ho
    refine ⟨s.top[k], ?_⟩
    unfold resolveOpnd
    simp only
    rw [run_bind_get, Array.getElem?_eq_getElem hk]
    rfl
  | _ => exact ho.elim

theorem mapM_resolve_run {s : State} :
    ∀ (l : List Opnd), (∀ a, a ∈ l → OpndIn s a) →
      ∃ r, (l.mapM (fun o => resolveOpnd [] o)).run.run s = (.ok r, s) := by
  intro l
  induction l with
  | nil => intro _; exact ⟨[], by rw [List.mapM_nil, run_pure]⟩
  | cons a l ih =>
    intro hl
    obtain ⟨n, hn⟩ := resolveOpnd_run (hl a (List.mem_cons_self ..))
    obtain ⟨r, hr⟩ := ih (fun x hx => hl x (List.mem_cons_of_mem _ hx))
    exact ⟨n :: r, by rw [List.mapM_cons, run_bind_ok hn, run_bind_ok hr, run_pure]⟩

theorem isConstant_run {s : State} {a : Nat} (ha : a < s.nodes.size) :
    ∃ r, (isConstant a).run.run s = (.ok r, s) := by
  unfold isConstant
  rw [run_bind_ok (run_getNode_some (some_of_lt ha))]
  split
  · exact ⟨_, run_pure _ _⟩
  · exact ⟨_, run_pure _ _⟩

/-- the input of every `dependOn` cutoff exists -/
def DepOK (s : State) : Prop := ∀ m i, (s.nodeD m).cutoff = .dependOn i → i < s.nodes.size

theorem DepOK.push {s s1 : State} {nd : Node} (D : DepOK s) (h : s1.nodes = s.nodes.push nd)
    (hnd : ∀ i, nd.cutoff = .dependOn i → i < s.nodes.size) : DepOK s1 := by
  intro m i hm
  have hsz : s1.nodes.size = s.nodes.size + 1 := by rw [h, Array.size_push]
  rw [hsz]
  have e : s1.nodeD m = if m < s.nodes.size then s.nodeD m else if m = s.nodes.size then nd else default := by
    unfold State.nodeD
    rw [h, Array.getElem?_push]
    by_cases h1 : m = s.nodes.size
    · rw [if_pos h1, if_neg (by omega), if_pos h1]; rfl
    · rw [if_neg h1]
      by_cases h2 : m < s.nodes.size
      · rw [if_pos h2]
      · rw [if_neg h2, if_neg h1, Array.getElem?_eq_none (by omega)]; rfl
  rw [e] at hm
  split at hm
  · have := D m i hm; omega
  · split at hm
    · have := hnd i hm; omega
    · cases hm

theorem DepOK.cut_set {s : State} (D : DepOK s) (m : Nat) {c : CutoffK} (hc : PlainCut c) :
    DepOK (CutH.cutSet m c s) := by
  intro m' i h
  have hsz : (cutSet m c s).nodes.size = s.nodes.size := (cutSet_sameC m c s).size
  rw [hsz]
  rw [cutSet_cutoff] at h
  split at h
  · rw [h] at hc; exact hc.elim
  · exact D m' i h

/-- the elaboration of a static instruction whose operands exist returns -/
theorem elab_ret {env : Env} {s : State} {i : Instr} (Q : QInv env e s) (hi : StaticInstr env i)
    (hin : InstrIn s i) (D : DepOK s) :
    ∃ ro s1, (elabInstrM env [] .unit i).run.run s = (.ok ro, s1) ∧ s1.ahh = s.ahh ∧
      s1.vars.size = s.vars.size + (grow (.create i)).2.1 ∧ DepOK s1 ∧ (∀ n c, i = .cutoff n c → ro = none) := by
  have hnew : ∀ (k : Kind) (i : Nat), (newNode k).cutoff = .dependOn i → i < s.nodes.size := by
    intro k i h; cases h
  have hsc := Q.struct.static.scope
  cases i with
  | const v =>
    unfold elabInstrM
    simp only
    unfold elabInstr
    rw [run_bind_get]
    simp only [hsc]
    exact ⟨_, _, map_run_ok (createNode_top_run _ _ s), rfl, rfl, D.push rfl (hnew _), fun _ _ h => by cases h⟩
  | var v =>
    unfold elabInstrM
    simp only
    unfold elabInstr
    rw [run_bind_get]
    simp only
    exact ⟨_, _, map_run_ok (createVar_top_run _ s), rfl, by simp only [Array.size_push]; rfl, D.push rfl (hnew _), fun _ _ h => by cases h⟩
  | map f args =>
    unfold elabInstrM
    simp only
    unfold elabInstr
    rw [run_bind_get]
    simp only [hsc]
    obtain ⟨r, hr⟩ := mapM_resolve_run args hin
    rw [run_bind_ok hr]
    exact ⟨_, _, map_run_ok (createNode_top_run _ _ s), rfl, rfl, D.push rfl (hnew _), fun _ _ h => by cases h⟩
  | fold f init cs =>
    unfold elabInstrM
    simp only
    unfold elabInstr
    rw [run_bind_get]
    simp only [hsc]
    obtain ⟨r, hr⟩ := mapM_resolve_run cs hin
    rw [run_bind_ok hr]
    split
    · exact ⟨_, _, map_run_ok (createNode_top_run _ _ s), rfl, rfl, D.push rfl (hnew _), fun _ _ h => by cases h⟩
    · exact ⟨_, _, map_run_ok (createNode_top_run _ _ s), rfl, rfl, D.push rfl (hnew _), fun _ _ h => by cases h⟩
  | zip a b =>
    unfold elabInstrM
    simp only
    unfold elabInstr
    rw [run_bind_get]
    simp only [hsc]
    obtain ⟨na, hna⟩ := resolveOpnd_run hin.1
    obtain ⟨nb, hnb⟩ := resolveOpnd_run hin.2
    obtain ⟨-, ka, hka⟩ := resolveOpnd_outer_inv hi.1 hna
    obtain ⟨-, kb, hkb⟩ := resolveOpnd_outer_inv hi.2 hnb
    obtain ⟨ca, hca⟩ := isConstant_run (Q.top ka na hka)
    obtain ⟨cb, hcb⟩ := isConstant_run (Q.top kb nb hkb)
    rw [run_bind_ok hna, run_bind_ok hnb, run_bind_ok hca, run_bind_ok hcb]
    split
    · exact ⟨_, _, map_run_ok (createNode_top_run _ _ s), rfl, rfl, D.push rfl (hnew _), fun _ _ h => by cases h⟩
    · exact ⟨_, _, map_run_ok (createNode_top_run _ _ s), rfl, rfl, D.push rfl (hnew _), fun _ _ h => by cases h⟩
  | dependOn a b =>
    unfold elabInstrM
    simp only
    unfold elabInstr
    rw [run_bind_get]
    simp only [hsc]
    obtain ⟨na, hna⟩ := resolveOpnd_run hin.1
    obtain ⟨nb, hnb⟩ := resolveOpnd_run hin.2
    obtain ⟨-, ka, hka⟩ := resolveOpnd_outer_inv hi.1 hna
    rw [run_bind_ok hna, run_bind_ok hnb]
    refine ⟨_, _, map_run_ok (createNode_top_run _ _ s), rfl, rfl, D.push rfl ?_, fun _ _ h => by cases h⟩
    intro i h
    have : i = na := by cases h; rfl
    rw [this]; exact Q.top ka na hka
  | cutoff n c =>
    unfold elabInstrM
    simp only
    unfold elabInstr
    rw [run_bind_get]
    simp only
    obtain ⟨m, hm⟩ := resolveOpnd_run hin.1
    rw [run_bind_ok hm, run_bind_ok (run_modNode _ _ _), run_pure]
    exact ⟨_, _, rfl, rfl, rfl, D.cut_set m hin.2, fun _ _ _ => rfl⟩
  | _ => exact hi.elim

theorem actionOK_create {N : Nat} {s : State} {i : Instr} (h : ActionOK N s (.create i)) :
    InstrIn s i ∧ ((∀ n c, i ≠ .cutoff n c) → s.nodes.size + 1 ≤ N) := by
  cases i <;> first | exact ⟨h.1, fun _ => h.2⟩ | exact ⟨h, fun hne => absurd rfl (hne _ _)⟩

theorem create_total {env : Env} {N : Nat} {s : State} {i : Instr} {tk : Array Nat}
    (Q : QInv env e s) (T : TInv N s) (hi : StaticInstr env i) (hok : ActionOK N s (.create i)) :
    Tot (stepAction env (.create i) tk) s (fun r s' => r.2 = tk ∧ TInv N s' ∧ Grown (.create i) s s') := by
  obtain ⟨hin, hroom⟩ := actionOK_create hok
  obtain ⟨ro, s1, hrun, hahh, hvs, D1, hnone⟩ := elab_ret Q hi hin T.dep
  unfold stepAction
  simp only
  refine Tot.bind_ok hrun ?_
  rcases elab_static Q hi hrun with ⟨k, cut, ero, hk, hkids, -, C⟩ | ⟨n, c, ei, m, ero, es1⟩
  rotate_left
  · -- `cutoff n c`: only a cutoff is replaced
    rw [ero]
    simp only
    have G := cutSet_sameC m c s
    have hsz : s1.nodes.size = s.nodes.size := by rw [es1]; exact G.size
    have hnec : ∀ x, s1.isNecessary x = s.isNecessary x := by intro x; rw [es1]; exact G.nec x
    refine Tot.pure ⟨rfl, ⟨?_, ⟨?_, ?_, ?_⟩, ?_, ?_, ?_, ?_, D1⟩, ?_⟩
    · intro x hn ho
      rw [hnec] at hn
      have := T.hb x hn ho
      rw [es1, (G.node x).height]; exact this
    · rw [hahh]; exact T.room.ahh
    · rw [es1]; exact T.room.rch
    · rw [hsz]; exact T.room.size
    · intro c' vc h; rw [es1] at h; exact T.linked c' vc h
    · rw [hsz, es1]; exact T.topSize
    · rw [es1]; exact T.newNodup
    · intro o ob h1 h2; rw [es1] at h1 h2; exact T.newState o ob h1 h2
    · rw [ei]
      exact ⟨by rw [hsz]; rfl, by rw [es1]; rfl, by rw [es1]; rfl⟩
  have hne : ∀ n c, i ≠ .cutoff n c := by
    intro n c h
    have := hnone n c h
    rw [ero] at this; cases this
  have hroom := hroom hne
  rw [ero]
  simp only
  refine Tot.bind_modify (Tot.pure ⟨rfl, ?_, ?_⟩)
  · refine ⟨?_, ⟨?_, ?_, ?_⟩, ?_, ?_, ?_, ?_, D1⟩
    · intro m hn ho
      have hn' : s1.isNecessary m = true := hn
      have e := C.ne_of_nec hn'
      rw [C.nec_old e] at hn'
      show (s1.nodeD m).height ≤ _
      rw [C.nodeD_old e]; exact T.hb m hn' ho
    · show s1.ahh.maxAllowed = _
      rw [hahh]; exact T.room.ahh
    · show s1.rch.maxAllowed = _
      rw [C.rch]; exact T.room.rch
    · show s1.nodes.size ≤ N
      rw [C.size]; exact hroom
    · intro c vc h
      have h' : s1.vars[c]? = some vc := h
      rcases C.vars with ⟨-, e⟩ | ⟨v, -, ev⟩
      · rw [e] at h'; exact T.linked c vc h'
      · rw [ev, Array.getElem?_push] at h'
        split at h'
        · injection h' with h'
          rw [← h']
        · exact T.linked c vc h'
    · show (s1.top.push _).size = s1.nodes.size
      rw [Array.size_push, C.top, C.size, T.topSize]
    · show s1.newObservers.Nodup
      rw [C.newObservers]; exact T.newNodup
    · intro o ob h1 h2
      have h1' : o ∈ s1.newObservers := h1
      have h2' : s1.observers[o]? = some ob := h2
      rw [C.newObservers] at h1'
      rw [C.observers] at h2'
      exact T.newState o ob h1' h2'
  · refine ⟨?_, ?_, ?_⟩
    · show s1.nodes.size = _
      rw [C.size]
      cases i <;> first | rfl | exact hi.elim | exact absurd rfl (hne _ _)
    · exact hvs
    · show s1.observers.size = _
      rw [C.observers]
      cases i <;> first | rfl | exact hi.elim | exact absurd rfl (hne _ _)

end IncrVerif.Proofs.CutH
