import IncrVerif.Proofs.FullT4
/-!
# C04 combined fragment, part 6: `markMapRefUnknown` returns; flag work is invisible; the calculus for invariants without `rmParent`
-/
namespace IncrVerif.Proofs.FullT
set_option linter.unusedSectionVars false
open IncrVerif.Engine IncrVerif.Proofs IncrVerif.Proofs.Step IncrVerif.Proofs.Sched IncrVerif.Proofs.Quiet IncrVerif.Proofs.FullH

/-! ## flag-only work: sizes, kinds, parent lists and necessity are unchanged -/

section
variable {g : Nat → Option Val}

theorem _root_.IncrVerif.Proofs.FullH.VEq.parents {s s' : State} (v : VEq g s s') (m : Nat) : (s'.nodeD m).parents = (s.nodeD m).parents := by
  have h : (virt g s').nodeD m = (virt g s).nodeD m := by rw [v.veq]
  rw [virt_nodeD, virt_nodeD] at h
  have hp := congrArg Node.parents h
  rwa [virtNode_parents, virtNode_parents] at hp

theorem _root_.IncrVerif.Proofs.FullH.VEq.isNecessary {s s' : State} (v : VEq g s s') (m : Nat) : s'.isNecessary m = s.isNecessary m := by
  have h : (virt g s').isNecessary m = (virt g s).isNecessary m := by rw [v.veq]
  rwa [virt_isNecessary, virt_isNecessary] at h

theorem _root_.IncrVerif.Proofs.FullH.VEq.un {s s' : State} (v : VEq g s s') : UN s' = UN s := by
  unfold UN
  rw [v.size]
  congr 1
  funext m
  rw [v.isNecessary]

theorem PInv.of_veq {s s' : State} (h : PInv s) (v : VEq g s s') : PInv s' :=
  h.of_nodeD v.size v.kind (fun m x hx => by rw [v.parents] at hx; exact hx)

end

theorem markMapRefUnknown_veq {fuel n : Nat} {s s' : State} {u : Unit}
    (hr : (markMapRefUnknown fuel n).run.run s = (.ok u, s')) : VEq (fun _ => none) s s' :=
  (PresV.markMapRefUnknown (g := fun _ => none) fuel n).h s _ s' hr

theorem markMapRefUnknown_pinv {fuel n : Nat} {s s' : State} {u : Unit} (h : PInv s)
    (hr : (markMapRefUnknown fuel n).run.run s = (.ok u, s')) : PInv s' :=
  h.of_veq (markMapRefUnknown_veq hr)

/-- **`markMapRefUnknown` returns** (the recursion climbs the recorded parents while they are valid `map_ref` nodes; along it the index increases) -/
theorem markMapRefUnknown_returns : ∀ (fuel n : Nat) (s : State), PInv s → n < s.nodes.size → s.nodes.size + 1 ≤ fuel + n →
    ∃ s', (markMapRefUnknown fuel n).run.run s = (.ok (), s') := by
  intro fuel
  induction fuel with
  | zero => intro n s _ h1 h2; omega
  | succ fuel ih =>
    intro n s hp hn hf
    suffices T : Tot (markMapRefUnknown (fuel + 1) n) s (fun _ _ => True) by
      obtain ⟨_, s', h, -⟩ := T; exact ⟨s', h⟩
    unfold markMapRefUnknown
    refine Tot.bind_getNode hn ?_
    rcases hk : (s.nodeD n).kind? with _ | k
    · exact Tot.pure trivial
    cases k
    case mapRef pr i =>
      dsimp only
      refine Tot.bind_modNode ?_
      have hp1 : PInv { s with nodes := s.nodes.modify n fun x => { x with didChange := true } } :=
        Keeps.modify n _ hp (fun nd => ⟨rfl, rfl, rfl, rfl, rfl, rfl⟩)
      have hsz1 : ({ s with nodes := s.nodes.modify n fun x => { x with didChange := true } } : State).nodes.size = s.nodes.size := by
        simp
      generalize ({ s with nodes := s.nodes.modify n fun x => { x with didChange := true } } : State) = s1 at hp1 hsz1
      have hlt1 : n < s1.nodes.size := by rw [hsz1]; exact hn
      refine Tot.bind_getNode hlt1 ?_
      refine Tot.bind (Q := fun _ _ => True) ?_ (fun _ _ _ _ => Tot.pure trivial)
      have key := forIn_tot (fun (x : Nat × Nat) (r : PUnit) => do
          let _ ← markMapRefUnknown fuel x.1
          pure (ForInStep.yield PUnit.unit)) (s1.nodeD n).parents
          (fun _ _ t => PInv t ∧ t.nodes.size = s1.nodes.size ∧ ∀ m, (t.nodeD m).parents = (s1.nodeD m).parents) ?_
        (s1.nodeD n).parents 0 PUnit.unit s1 (by simp) (Nat.zero_le _) ⟨hp1, rfl, fun _ => rfl⟩
      · obtain ⟨b', s', h, -⟩ := key
        exact ⟨b', s', h, trivial⟩
      · intro j a b t hj ⟨hpt, hst, hpar⟩
        have hmem : a ∈ (s1.nodeD n).parents := List.mem_of_getElem? hj
        obtain ⟨p, ci⟩ := a
        rw [← hpar] at hmem
        obtain ⟨h1, h2⟩ := hpt.pu n p ci hmem
        -- either `p` is a map_ref node (then `n < p`) or the call returns at once
        by_cases hmr : ∃ pr j, (t.nodeD p).kind = .mapRef pr j
        · obtain ⟨pr', j', e⟩ := hmr
          have e1 := h2 pr' j' e
          have hb := hpt.back p pr' j' e
          obtain ⟨t', ht'⟩ := ih p t hpt h1 (by omega)
          have v := markMapRefUnknown_veq ht'
          exact ⟨PUnit.unit, t', by rw [run_bind_ok ht', run_pure], hpt.of_veq v, by rw [v.size, hst],
            fun m => by rw [v.parents, hpar]⟩
        · cases fuel with
          | zero => omega
          | succ fuel =>
            have hrun : (markMapRefUnknown (fuel + 1) p).run.run t = (.ok (), t) := by
              unfold markMapRefUnknown
              rw [run_bind_ok (run_getNode_some (some_of_lt h1))]
              rcases hk' : (t.nodeD p).kind? with _ | k'
              · rfl
              · cases k' <;> first | rfl | exact absurd ⟨_, _, kind_of_kind? hk'⟩ hmr
            exact ⟨PUnit.unit, t, by rw [run_bind_ok hrun, run_pure], hpt, hst, hpar⟩
    all_goals exact Tot.pure trivial


/-- … in particular with `size ≤ fuel`, whatever the node (node `0` is not a `map_ref` node) -/
theorem markMapRefUnknown_returns_of_size (fuel n : Nat) (s : State) (hp : PInv s) (hn : n < s.nodes.size)
    (hf : s.nodes.size ≤ fuel) : ∃ s', (markMapRefUnknown fuel n).run.run s = (.ok (), s') := by
  cases n with
  | succ k => exact markMapRefUnknown_returns fuel (k + 1) s hp hn (by omega)
  | zero =>
    cases fuel with
    | zero => omega
    | succ fuel =>
      refine ⟨s, ?_⟩
      unfold markMapRefUnknown
      rw [run_bind_ok (run_getNode_some (some_of_lt hn))]
      rcases hk' : (s.nodeD 0).kind? with _ | k'
      · rfl
      · cases k' <;> first | rfl | exact absurd (hp.back 0 _ _ (kind_of_kind? hk')) (Nat.not_lt_zero _)

/-! ## flag work is invisible: the combinators -/

section
variable {K : Kind → Prop} {P : State → Prop} {g : Nat → Option Val} {s : State} {β : Type}

/-- a program that only does flag work, and returns, is simulated by doing nothing -/
theorem BSimAt.of_veq {x : M Unit} (h : Step.Pres (VEq g) x) (hP : ∀ s', VEq g s s' → P s → P s')
    (hret : P s → ∃ s', x.run.run s = (.ok (), s')) : BSimAt K P g s x (pure ()) :=
  BSimAt.mk' (SimAt.of_veq h) (fun _ hp r s' hr => hP s' (h.h s _ s' hr) hp)
    (fun _ hp r t _ => by obtain ⟨s', hs'⟩ := hret hp; exact ⟨s', hs'⟩)

/-- work that the virtual engine does not do, followed by `k` -/
theorem BSimAt.noop_seq {x : M Unit} {k : Unit → M β} {k' : M β}
    (hx : BSimAt K P g s x (pure ())) (hk : ∀ s1, x.run.run s = (.ok (), s1) → BSimAt K P g s1 (k ()) k') :
    BSimAt K P g s (x >>= k) k' := by
  have := BSimAt.seq (f' := fun _ => k') hx fun a s1 h1 => hk s1 h1
  simpa only [pure_bind] using this

/-- flag work (that returns) followed by `k` is simulated by `k'` if `k` is -/
theorem BSimAt.veq_seq {x : M Unit} {k : Unit → M β} {k' : M β} (h : Step.Pres (VEq g) x)
    (hP : ∀ s', VEq g s s' → P s → P s') (hret : P s → ∃ s', x.run.run s = (.ok (), s'))
    (hk : ∀ s1, VEq g s s1 → BSimAt K P g s1 (k ()) k') : BSimAt K P g s (x >>= k) k' :=
  BSimAt.noop_seq (BSimAt.of_veq h hP hret) fun s1 h1 => hk s1 (h.h s _ s1 h1)

/-- the leaf, for any carried invariant that flag work keeps -/
theorem BSimAt.markMapRefUnknown_gen {fuel n : Nat} (hP : ∀ s', VEq g s s' → P s → P s')
    (hret : P s → ∃ s', (Engine.markMapRefUnknown fuel n).run.run s = (.ok (), s')) :
    BSimAt K P g s (Engine.markMapRefUnknown fuel n) (Engine.markMapRefUnknown fuel n) :=
  BSimAt.mk' (Sim.markMapRefUnknown fuel n s) (fun _ hp r s' hr => hP s' ((PresV.markMapRefUnknown fuel n).h s _ s' hr) hp)
    (fun _ hp r t _ => by obtain ⟨s', hs'⟩ := hret hp; exact ⟨s', hs'⟩)

/-- **the leaf**: `markMapRefUnknown` is a no-op of the virtual engine, and returns -/
theorem BSimAt.markMapRefUnknown {fuel n : Nat} (hn : n < s.nodes.size) (hf : s.nodes.size + 1 ≤ fuel + n) :
    BSimAt K PInv g s (Engine.markMapRefUnknown fuel n) (Engine.markMapRefUnknown fuel n) :=
  BSimAt.markMapRefUnknown_gen (fun _ v hp => hp.of_veq v) fun hp => markMapRefUnknown_returns fuel n s hp hn hf

theorem BSimAt.markMapRefUnknown_of_size {fuel n : Nat} (hn : n < s.nodes.size) (hf : s.nodes.size ≤ fuel) :
    BSimAt K PInv g s (Engine.markMapRefUnknown fuel n) (Engine.markMapRefUnknown fuel n) :=
  BSimAt.markMapRefUnknown_gen (fun _ v hp => hp.of_veq v) fun hp => markMapRefUnknown_returns_of_size fuel n s hp hn hf

/-- `markMapRefUnknown` against the virtual no-op -/
theorem BSimAt.mmu_noop_gen {fuel n : Nat} (hP : ∀ s', VEq g s s' → P s → P s')
    (hret : P s → ∃ s', (Engine.markMapRefUnknown fuel n).run.run s = (.ok (), s')) :
    BSimAt K P g s (Engine.markMapRefUnknown fuel n) (pure ()) :=
  BSimAt.of_veq (PresV.markMapRefUnknown fuel n) hP hret

/-- change of the carried invariant (the forward half is untouched) -/
theorem BSimAt.changeP {α : Type} {P' : State → Prop} {x x' : M α} (h : BSimAt K P' g s x x') (h1 : P s → P' s)
    (h2 : P s → ∀ s', P' s' → P s') : BSimAt K P g s x x' :=
  ⟨h.1, fun hf hp => ⟨fun r s' hr => h2 hp s' ((h.2 hf (h1 hp)).1 r s' hr), (h.2 hf (h1 hp)).2⟩⟩

end

/-! ## the calculus for carried invariants that the removal of a parent entry may break (`KeepsN`), with the invariant of the current state at hand (`BP`) -/

/-- `Keeps` without `rmParent` -/
class KeepsN (P : State → Prop) : Prop where
  of_nodes : ∀ {s s' : State}, P s → s'.nodes = s.nodes → s'.binds = s.binds → P s'
  modify : ∀ {s : State} (n : Nat) (f : Node → Node), P s → (∀ nd, NKeep nd (f nd)) → P { s with nodes := s.nodes.modify n f }

instance {P : State → Prop} [Keeps P] : KeepsN P := ⟨Keeps.of_nodes, Keeps.modify⟩

/-- the bisimulation from a state that has the carried invariant -/
def BP (K : Kind → Prop) (P : State → Prop) (g : Nat → Option Val) (s : State) {α} (x x' : M α) : Prop :=
  P s → BSimAt K P g s x x'

def BPs (K : Kind → Prop) (P : State → Prop) (g : Nat → Option Val) {α} (x x' : M α) : Prop := ∀ s, BP K P g s x x'

section
variable {K : Kind → Prop} {P : State → Prop} {g : Nat → Option Val} {s : State} {α β : Type}

theorem BPs.at {x x' : M α} (h : BPs K P g x x') (s : State) : BP K P g s x x' := h s
theorem BP.of {x x' : M α} (h : BSimAt K P g s x x') : BP K P g s x x' := fun _ => h
theorem BPs.of {x x' : M α} (h : BSim K P g x x') : BPs K P g x x' := fun s _ => h s

/-- the invariant of the current state may be used -/
theorem BP.intro {x x' : M α} (h : P s → BP K P g s x x') : BP K P g s x x' := fun hp => h hp hp

/-- closing: the forward half comes from `FullH` -/
theorem BP.close {x x' : M α} (h1 : SimAt K g s x x') (h2 : BP K P g s x x') : BSimAt K P g s x x' :=
  ⟨h1, fun hf hp => (h2 hp).2 hf hp⟩

theorem BP.seq {x x' : M α} {f f' : α → M β} (hx : BP K P g s x x')
    (hf : ∀ a s1, x.run.run s = (.ok a, s1) → BP K P g s1 (f a) (f' a)) :
    BP K P g s (x >>= f) (x' >>= f') := by
  intro hp
  refine ⟨fun hn r s' h => ?_, fun hn _ => ⟨fun r s' h => ?_, fun r t h => ?_⟩⟩
  · obtain ⟨a, s1, h1, h2⟩ := bind_ok_inv h
    obtain ⟨e1, n1, v1, p1⟩ := (hx hp).fwd hn hp h1
    rw [run_bind_ok e1]
    obtain ⟨e2, n2, v2, -⟩ := (hf a s1 h1 p1).fwd n1 p1 h2
    exact ⟨e2, n2, v1.trans v2⟩
  · obtain ⟨a, s1, h1, h2⟩ := bind_ok_inv h
    obtain ⟨-, n1, -, p1⟩ := (hx hp).fwd hn hp h1
    exact ((hf a s1 h1 p1).fwd n1 p1 h2).2.2.2
  · obtain ⟨a, t1, h1, h2⟩ := bind_ok_inv h
    obtain ⟨s1, hs1, e, n1, -, p1⟩ := (hx hp).rev hn hp h1
    rw [e] at h2
    obtain ⟨s', hs', -⟩ := (hf a s1 hs1 p1).rev n1 p1 h2
    exact ⟨s', by rw [run_bind_ok hs1]; exact hs'⟩

theorem BP.get_seq {k k' : State → M β} (h : BP K P g s (k s) (k' (virt g s))) :
    BP K P g s (get >>= k) (get >>= k') := fun hp => BSimAt.get_seq (h hp)

theorem BP.getNode_seq {n : Nat} {k k' : Node → M β}
    (h : ∀ nd, s.nodes[n]? = some nd → (∀ e, nd.kind ≠ .expert e) → BP K P g s (k nd) (k' (virtNode (g n) nd))) :
    BP K P g s (getNode n >>= k) (getNode n >>= k') := fun hp => BSimAt.getNode_seq fun nd a b => h nd a b hp

theorem BSimAt.nmod [KeepsN P] {f f' : State → State} (h : virt g (f s) = f' (virt g s)) (hn : (f s).nodes = s.nodes)
    (hb : (f s).binds = s.binds) :
    BSimAt K P g s (modify f : M Unit) (modify f') := by
  refine ⟨SimAt.mod h hn, fun _ hp => ⟨fun r s' hr => ?_, fun r t hr => ?_⟩⟩
  · rw [run_modify] at hr; cases hr; exact KeepsN.of_nodes hp hn hb
  · rw [run_modify] at hr; cases hr; exact ⟨_, run_modify _ _⟩

theorem BP.mod [KeepsN P] {f f' : State → State} (h : virt g (f s) = f' (virt g s)) (hn : (f s).nodes = s.nodes)
    (hb : (f s).binds = s.binds) : BP K P g s (modify f : M Unit) (modify f') := BP.of (BSimAt.nmod h hn hb)

theorem BP.mod_seq [KeepsN P] {f f' : State → State} {k k' : Unit → M β} (h : virt g (f s) = f' (virt g s))
    (hn : (f s).nodes = s.nodes) (hb : (f s).binds = s.binds) (hk : BP K P g (f s) (k ()) (k' ())) :
    BP K P g s ((modify f : M Unit) >>= k) ((modify f' : M Unit) >>= k') :=
  BP.seq (BP.mod h hn hb) fun a s1 h1 => by
    rw [run_modify] at h1; cases h1; exact hk

theorem BP.cond {c c' : Prop} {_ : Decidable c} {_ : Decidable c'} {a b a' b' : M α} (hc : c ↔ c')
    (ha : c → BP K P g s a a') (hb : ¬ c → BP K P g s b b') :
    BP K P g s (if c then a else b) (if c' then a' else b') := fun hp =>
  BSimAt.cond hc (fun h => ha h hp) (fun h => hb h hp)

theorem BP.ite_left {c : Prop} {_ : Decidable c} {a b x' : M α}
    (ha : c → BP K P g s a x') (hb : ¬ c → BP K P g s b x') : BP K P g s (if c then a else b) x' := fun hp =>
  BSimAt.ite_left (fun h => ha h hp) (fun h => hb h hp)

theorem BP.noop_seq {x : M Unit} {k : Unit → M β} {k' : M β}
    (hx : BP K P g s x (pure ())) (hk : ∀ s1, x.run.run s = (.ok (), s1) → BP K P g s1 (k ()) k') :
    BP K P g s (x >>= k) k' := by
  have := BP.seq (f' := fun _ => k') hx fun a s1 h1 => hk s1 h1
  simpa only [pure_bind] using this

/-- change of the carried invariant -/
theorem BP.change {P' : State → Prop} {x x' : M α} (h : BP K P' g s x x') (h1 : P s → P' s)
    (h2 : P s → ∀ s', P' s' → P s') : BP K P g s x x' := fun hp => BSimAt.changeP (h (h1 hp)) h1 h2

theorem BPs.modNode [KeepsN P] (n : Nat) {f f' : Node → Node} (hf : ∀ gv nd, virtNode gv (f nd) = f' (virtNode gv nd))
    (hk : ∀ nd, (f nd).kind = nd.kind ∧ (f nd).cutoff = nd.cutoff ∧ (f nd).oldState = nd.oldState ∧
      (nd.valid = false → (f nd).valid = false) ∧ ((f nd).didChange = false → nd.didChange = false))
    (hp : ∀ nd, NKeep nd (f nd)) :
    BPs K P g (Engine.modNode n f) (Engine.modNode n f') :=
  fun _ => BP.of (BSimAt.modNode' n hf hk fun h => KeepsN.modify n f h hp)

theorem BPs.forIn {γ : Type} (l : List γ) {f f' : γ → β → M (ForInStep β)}
    (h : ∀ a, a ∈ l → ∀ b, BPs K P g (f a b) (f' a b)) (b : β) :
    BPs K P g (ForIn.forIn l b f) (ForIn.forIn l b f') := by
  induction l generalizing b with
  | nil => intro s; rw [List.forIn_nil, List.forIn_nil]; exact BP.of (BSimAt.ret _)
  | cons a l ih =>
    intro s
    rw [List.forIn_cons, List.forIn_cons]
    refine BP.seq (h a (List.mem_cons_self ..) b s) fun r s1 _ => ?_
    cases r with
    | done b' => exact BP.of (BSimAt.ret _)
    | yield b' => exact ih (fun a ha => h a (List.mem_cons_of_mem _ ha)) b' s1

theorem BPs.dassert (c : Bool) (site : String) : BPs K P g (Engine.dassert c site) (Engine.dassert c site) :=
  BPs.of (BSim.dassert c site)
theorem BPs.assertM (c : Bool) (site : String) : BPs K P g (Engine.assertM c site) (Engine.assertM c site) :=
  BPs.of (BSim.assertM c site)

end

/-- registered `BPs` lemmas -/
syntax "pbsim_leaf" : tactic
macro_rules | `(tactic| pbsim_leaf) => `(tactic| fail "no leaf")

set_option hygiene false in
macro "pbsim_step" : tactic => `(tactic| first
  | with_reducible exact BP.of (BSimAt.ret _)
  | with_reducible exact BP.of (BSimAt.thr _ _)
  | with_reducible exact BP.of (BSimAt.pan _ _)
  | ((with_reducible refine BP.get_seq (BP.intro fun hps => ?_)); try fnorm)
  | ((with_reducible refine BP.getNode_seq fun nd hnd hne => ?_); try fnorm)
  | ((with_reducible refine BP.mod_seq ?_ ?_ (by rfl) ?_) <;> (first | rfl | skip))
  | ((with_reducible refine BP.mod ?_ ?_ ?_) <;> rfl)
  | ((with_reducible refine BPs.at ?_ _); pbsim_leaf)
  | ((with_reducible refine BPs.at (BPs.forIn _ (fun _ _ _ => ?_) _) _); intro _)
  | (with_reducible refine BP.seq ?_ fun _ _ _ => ?_)
  | (refine BP.cond Iff.rfl (fun _ => ?_) (fun _ => ?_)))

macro "pbsim" : tactic => `(tactic| repeat (any_goals pbsim_step))

set_option hygiene false in
/-- a `match` on the kind of the node last read by `getNode` -/
macro "pbsim_kind" : tactic => `(tactic| (
  simp only [virtNode_kind?]
  rcases hk : nd.kind? with _ | k
  all_goals try cases k
  all_goals simp only [Option.map_none, Option.map_some, virtKind]
  all_goals try exact absurd (kind_of_kind? hk) (hne _)
  pbsim))

section
variable {K : Kind → Prop} {P : State → Prop} [KeepsN P] {g : Nat → Option Val}

macro_rules | `(tactic| pbsim_leaf) => `(tactic| with_reducible exact BPs.dassert _ _)
macro_rules | `(tactic| pbsim_leaf) => `(tactic| with_reducible exact BPs.assertM _ _)
macro_rules | `(tactic| pbsim_leaf) => `(tactic| ((with_reducible refine BPs.modNode _ ?_ ?_ ?_) <;> first | fcomm | fkind | fpar))

theorem BPs.setHeight (n : Nat) (h : Int) : BPs K P g (Engine.setHeight n h) (Engine.setHeight n h) := by
  intro s; unfold Engine.setHeight; pbsim
macro_rules | `(tactic| pbsim_leaf) => `(tactic| with_reducible exact BPs.setHeight _ _)

theorem BPs.rchLink (n : Nat) : BPs K P g (Engine.rchLink n) (Engine.rchLink n) := by
  intro s; unfold Engine.rchLink; pbsim
macro_rules | `(tactic| pbsim_leaf) => `(tactic| with_reducible exact BPs.rchLink _)

theorem BPs.rchInsert (n : Nat) : BPs K P g (Engine.rchInsert n) (Engine.rchInsert n) := by
  intro s; unfold Engine.rchInsert; pbsim
macro_rules | `(tactic| pbsim_leaf) => `(tactic| with_reducible exact BPs.rchInsert _)

theorem BPs.getBind (b : Nat) : BPs K P g (Engine.getBind b) (Engine.getBind b) := by
  intro s; unfold Engine.getBind; pbsim
  split <;> pbsim
macro_rules | `(tactic| pbsim_leaf) => `(tactic| with_reducible exact BPs.getBind _)

theorem BPs.scopeHeight (sc : Scope) : BPs K P g (Engine.scopeHeight sc) (Engine.scopeHeight sc) := by
  intro s; unfold Engine.scopeHeight
  cases sc with
  | top => pbsim
  | bind b => pbsim
macro_rules | `(tactic| pbsim_leaf) => `(tactic| with_reducible exact BPs.scopeHeight _)

theorem BPs.scopeIsNecessary (sc : Scope) : BPs K P g (Engine.scopeIsNecessary sc) (Engine.scopeIsNecessary sc) := by
  intro s; unfold Engine.scopeIsNecessary
  cases sc with
  | top => pbsim
  | bind b => pbsim
macro_rules | `(tactic| pbsim_leaf) => `(tactic| with_reducible exact BPs.scopeIsNecessary _)

theorem BPs.handleAfterStabilisation (n : Nat) :
    BPs K P g (Engine.handleAfterStabilisation n) (Engine.handleAfterStabilisation n) := by
  intro s; unfold Engine.handleAfterStabilisation; pbsim
macro_rules | `(tactic| pbsim_leaf) => `(tactic| with_reducible exact BPs.handleAfterStabilisation _)

theorem BPs.maybeHandleAfterStabilisation (n : Nat) :
    BPs K P g (Engine.maybeHandleAfterStabilisation n) (Engine.maybeHandleAfterStabilisation n) := by
  intro s; unfold Engine.maybeHandleAfterStabilisation; pbsim
macro_rules | `(tactic| pbsim_leaf) => `(tactic| with_reducible exact BPs.maybeHandleAfterStabilisation _)

end
end IncrVerif.Proofs.FullT
