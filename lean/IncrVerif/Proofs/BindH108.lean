import IncrVerif.Proofs.BindH86
import IncrVerif.Proofs.BindH87
import IncrVerif.Proofs.BindH88
/-!
# Binds, part 4h-1 (B4): every API action of the fragment keeps `QInv1`; the initial state

Port of `Quiet.step_q` / `Quiet.qinv_init` (`Proofs/Quiet18.lean`) to programs with binds (fragment F1).  The `stabilise` action is taken from a hypothesis
`STAB` of the shape of (the `.inv` field of) `stabilise_q1`, so that this file does not depend on the files of the `stabilise` proof.
-/
namespace IncrVerif.Proofs.BindH
open IncrVerif.Engine IncrVerif.Driver IncrVerif.Proofs IncrVerif.Proofs.Step IncrVerif.Proofs.Sched IncrVerif.Proofs.Quiet

/-- **B4, one action.** Every API action of the fragment that returns keeps the invariant between actions. -/
theorem step_q1 {env : Env}
    (STAB : ∀ {fuel : Nat} {s s' : State}, QInv1 env s → (stabilise env fuel).run.run s = (.ok (), s') → QInv1 env s')
    {s s' : State} {a : Action} {tokens : Array Nat} {r : String × Array Nat}
    (Q : QInv1 env s) (ha : ActionF1 env s.top.size a)
    (h : (stepAction env a tokens).run.run s = (.ok r, s')) : QInv1 env s' := by
  cases a <;> try exact ha.elim
  case create i => exact step_create1 Q ha h
  case observe n =>
    cases n <;> try exact ha.elim
    exact step_observe1 Q h
  case cloneObs o => exact step_cloneObs1 Q h
  case dropObs o => exact step_dropObs1 Q h
  case disallow o => exact step_disallow1 Q h
  case set v x => exact step_write1 (a := .set v x) Q trivial h
  case modify v d => exact step_write1 (a := .modify v d) Q trivial h
  case update v d => exact step_write1 (a := .update v d) Q trivial h
  case replace v x => exact step_write1 (a := .replace v x) Q trivial h
  case replaceWith v d => exact step_write1 (a := .replaceWith v d) Q trivial h
  case get v => exact step_write1 (a := .get v) Q trivial h
  case isStable => exact step_write1 (a := .isStable) Q trivial h
  case stats => exact step_write1 (a := .stats) Q trivial h
  case stabilise => exact STAB Q (Quiet.step_stabilise h)

/-! ## the initial state -/

namespace C2h

theorem init_binds (N : Nat) (d : Bool) (b : Nat) : (State.init N d).binds[b]? = none := by
  simp [State.init]

theorem init_top (N : Nat) (d : Bool) (k : Nat) : (State.init N d).top[k]? = none := by
  simp [State.init]

theorem all1_init (env : Env) (N : Nat) (d : Bool) : All1 env (State.init N d) [] where
  pc := rfl
  scope := rfl
  node n hn := by
    have hsz : (State.init N d).nodes.size = 0 := rfl
    rw [hsz] at hn; omega
  recs b br hb := by rw [init_binds] at hb; cases hb
  gen b br hb := by rw [init_binds] at hb; cases hb
  genDy b br hb := by rw [init_binds] at hb; cases hb
  dyIn m hm := by cases hm

theorem default_valid : (default : Node).valid = true := rfl

end C2h

theorem qinv1_init (env : Env) (N : Nat) (d : Bool) : QInv1 env (State.init N d) := by
  have hnd := Quiet.init_nodeD N d
  have hnec : ∀ m, (State.init N d).isNecessary m = false := fun m => by
    rw [State.isNecessary, hnd]; rfl
  have hin : ∀ m, ((State.init N d).nodeD m).inRch = false := fun m => by rw [hnd]; rfl
  have hsz : (State.init N d).nodes.size = 0 := rfl
  have hpar : ∀ m, ((State.init N d).nodeD m).parents = [] := fun m => by rw [hnd]; rfl
  have hobs : ∀ m, ((State.init N d).nodeD m).observers = [] := fun m => by rw [hnd]; rfl
  have hval : ∀ m, ((State.init N d).nodeD m).valid = true := fun m => by rw [hnd]; rfl
  have hkind : ∀ m, ((State.init N d).nodeD m).kind = .const .unit := fun m => by rw [hnd]; rfl
  have hsc : ∀ m, ((State.init N d).nodeD m).createdIn = .top := fun m => by rw [hnd]; rfl
  have A := C2h.all1_init env N d
  have hnodup : ∀ c, ((State.init N d).nodeD c).parents.Nodup := fun c => by rw [hpar]; exact List.nodup_nil
  have hinv : ∀ m, ((State.init N d).nodeD m).valid = false → False := fun m h => by
    rw [hval] at h; cases h
  refine
    { struct := ?_, f1 := ?_, vars := ?_, obs := ?_, obsTop := ?_, now := Int.le_refl _, stamps := ?_, varStamp := ?_,
      cons := ?_, status := rfl, alive := rfl, setDuringStab := rfl, deadVars := rfl, handleAfterStab := rfl }
  · -- the structural invariant
    refine
      { frag := A, par := ?_, conv := ?_, nodup := hnodup, hlt := ?_, hpos := ?_, lnec := ?_, unec := ?_, heap := ?_, hgt := ?_,
        qnec := ?_, queued := ?_, qstale := ?_, opLt := ?_, scopeH := ?_, inv := ?_, scopeObs := ?_, lcObs := ?_ }
    · intro c p i hm; rw [hpar] at hm; cases hm
    · intro p i c hk hw
      have e : (State.init N d).children p = [] := by
        rw [State.children, hnd]; rfl
      rw [e] at hk; cases hk
    · intro c p i hm; rw [hpar] at hm; cases hm
    · intro n hn; rw [hnec] at hn; cases hn
    · intro p k ho; cases ho
    · intro p k ho; cases ho
    · refine ⟨heapWF_init N d, ?_, ?_⟩
      · intro m hm; rw [hin] at hm; cases hm
      · show (0 : Int) ≤ (N : Int) + 1
        omega
    · intro m hm; rw [hin] at hm; cases hm
    · intro m hm; rw [hin] at hm; cases hm
    · intro m _ hn; rw [hnec] at hn; cases hn
    · intro m hm; rw [hin] at hm; cases hm
    · intro m ho; exact absurd rfl ho
    · intro n b br _ hb; rw [hsc] at hb; cases hb
    · intro m hv; exact (hinv m hv).elim
    · intro m b hb; rw [hsc] at hb; cases hb
    · intro m b hb; rw [hkind] at hb; cases hb
  · -- the auxiliary invariant
    refine
      { frag := A, nodup := hnodup, ahh := ?_, pinv := rfl, noForce := ?_, noHandlers := ?_, inv := ?_, scopeObs := ?_,
        lcObs := ?_, lcCut := ?_, topOK := ?_, closures := ?_, rhsNone := ?_, rhsOK := ?_ }
    · refine ⟨rfl, ?_, fun m => by rw [hnd]; rfl⟩
      intro i hi
      simp [State.init, mkHeap]
    · intro m; rw [hnd]; rfl
    · intro m; rw [hnd]; rfl
    · intro m hv; exact (hinv m hv).elim
    · intro m b hb; rw [hsc] at hb; cases hb
    · intro m b hb; rw [hkind] at hb; cases hb
    · intro m b hb; rw [hkind] at hb; cases hb
    · intro k r hk; rw [C2h.init_top] at hk; cases hk
    · intro b br v hb; rw [C2h.init_binds] at hb; cases hb
    · intro b br hb; rw [C2h.init_binds] at hb; cases hb
    · intro b br o hb; rw [C2h.init_binds] at hb; cases hb
  · refine ⟨fun n c hn => by rw [hsz] at hn; omega, fun c vc hc => ?_⟩
    simp [State.init] at hc
  · refine ⟨fun o ob ho => ?_, fun n o => ?_, fun o ob ho => ?_, fun o ho => ?_, fun o ob ho => ?_,
      fun o ho => ?_, List.nodup_nil⟩
    · simp [State.init] at ho
    · rw [hobs]
      constructor
      · intro h; cases h
      · rintro ⟨ob, ho, -⟩; simp [State.init] at ho
    · simp [State.init] at ho
    · simp [State.init] at ho
    · simp [State.init] at ho
    · simp [State.init] at ho
  · intro o ob ho; simp [State.init] at ho
  · intro m; rw [hnd]; exact ⟨show (-1 : Int) < 0 by decide, show (-1 : Int) < 0 by decide⟩
  · intro c vc hc; simp [State.init] at hc
  · intro m hm; rw [hsz] at hm; omega

end IncrVerif.Proofs.BindH
