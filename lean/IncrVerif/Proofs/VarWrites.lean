import IncrVerif.Proofs.Heights
/-!
# Helper lemmas for C08 (var writes)

Master equations for `didSetVarWhileNotStabilising`, `writeVar` (both modes), the var phase of
`stabiliseEnd`, in the `(m).run.run s = <closed form>` style of `Proofs/Heights.lean`.
-/
namespace IncrVerif.Proofs
open IncrVerif.Engine

/-! ## state transformers used in the closed forms -/

/-- var cell `v` replaced by `c` -/
def withCell (v : Nat) (c : VarCell) (s : State) : State :=
  { s with vars := s.vars.setIfInBounds v c }

/-- the `num_var_sets` counter incremented -/
def bumped (s : State) : State :=
  { s with counters := { s.counters with varSets := s.counters.varSets + 1 } }

theorem modify_eq_setIfInBounds {α} (a : Array α) (v : Nat) (x : α) (g : α → α) (h : a[v]? = some x) :
    a.modify v g = a.setIfInBounds v (g x) := by
  apply Array.ext_getElem?
  intro i
  rw [Array.getElem?_modify, Array.getElem?_setIfInBounds]
  by_cases hi : v = i
  · subst hi
    obtain ⟨hlt, hx⟩ := Array.getElem?_eq_some_iff.1 h
    simp [hlt, hx]
  · simp [hi]

theorem withCell_get (v : Nat) (c vc : VarCell) (s : State) (hv : s.vars[v]? = some vc) :
    (withCell v c s).vars[v]? = some c := by
  have hlt : v < s.vars.size := by
    rcases Nat.lt_or_ge v s.vars.size with h1 | h1
    · exact h1
    · rw [Array.getElem?_eq_none h1] at hv; cases hv
  simp [withCell, hlt]

theorem withCell_get_ne (v w : Nat) (c : VarCell) (s : State) (h : w ≠ v) :
    (withCell v c s).vars[w]? = s.vars[w]? := by
  simp [withCell, Ne.symm h]

theorem withCell_withCell (v : Nat) (c c' : VarCell) (s : State) :
    withCell v c' (withCell v c s) = withCell v c' s := by
  simp [withCell, Array.setIfInBounds_setIfInBounds]

theorem withCell_self (v : Nat) (vc : VarCell) (s : State) (hv : s.vars[v]? = some vc) :
    withCell v vc s = s := by
  have : s.vars.setIfInBounds v vc = s.vars := by
    apply Array.ext_getElem?
    intro i
    rw [Array.getElem?_setIfInBounds]
    by_cases hi : v = i
    · subst hi
      obtain ⟨hlt, hx⟩ := Array.getElem?_eq_some_iff.1 hv
      simp [hlt, hx]
    · simp [hi]
  simp [withCell, this]

/-! ## running the var primitives -/

theorem run_getVar (v : Nat) (s : State) :
    (getVar v).run.run s = match s.vars[v]? with
      | some x => (.ok x, s)
      | none => (.error (.site "model:no-such-var"), s) := by
  simp only [getVar, run_bind, run_get]
  cases s.vars[v]? <;> rfl

theorem run_modVar (v : Nat) (g : VarCell → VarCell) (s : State) (vc : VarCell)
    (hv : s.vars[v]? = some vc) :
    (modVar v g).run.run s = (.ok (), withCell v (g vc) s) := by
  show ((Except.ok () : Except Panic Unit), { s with vars := s.vars.modify v g }) = _
  rw [modify_eq_setIfInBounds _ _ _ _ hv]; rfl

theorem run_bumpCounter_varSets (s : State) :
    (bumpCounter fun c => { c with varSets := c.varSets + 1 }).run.run s = (.ok (), bumped s) := rfl

/-! ## `didSetVarWhileNotStabilising` -/

/-- relabel the result of a run, keeping panics -/
def mapOk {α β} (b : β) (r : Except Panic α × State) : Except Panic β × State :=
  match r with
  | (.ok _, s') => (.ok b, s')
  | (.error e, s') => (.error e, s')

theorem didSet_run (v : Nat) (s : State) (vc : VarCell) (hv : s.vars[v]? = some vc) :
    (didSetVarWhileNotStabilising v).run.run s =
      if vc.linked = false then (.error (.site "var:abandoned-watch-node"), s)
      else if s.stabNum ≤ vc.setAt then (.ok (), bumped s)
      else
        let W := bumped (withCell v { vc with setAt := s.stabNum } s)
        if s.cfg.debug = true ∧ (!(s.nodeD vc.node).valid || W.isStale vc.node) = false then
          (.error (.site "var:did_set:watch-stale"), W)
        else if ((s.nodeD vc.node).valid && s.isNecessary vc.node && !(s.nodeD vc.node).inRch) = true then
          (rchInsert vc.node).run.run W
        else (.ok (), W) := by
  simp only [didSetVarWhileNotStabilising, run_bind, run_getVar, hv, run_ite, run_panic, run_pure,
    run_bumpCounter_varSets, run_get]
  by_cases hl : vc.linked = false
  · have : (!vc.linked) = true := by simp [hl]
    rw [if_pos this, if_pos hl]
  · have : ¬ (!vc.linked) = true := by simpa using hl
    rw [if_neg this, if_neg hl]
    by_cases hlt : s.stabNum ≤ vc.setAt
    · have : ¬ vc.setAt < (bumped s).stabNum := by show ¬ vc.setAt < s.stabNum; omega
      rw [if_neg this, if_pos hlt]
    · have : vc.setAt < (bumped s).stabNum := by show vc.setAt < s.stabNum; omega
      rw [if_pos this, if_neg hlt]
      have hvb : (bumped s).vars[v]? = some vc := hv
      simp only [run_modVar _ _ _ _ hvb, run_dassert]
      have hW : withCell v { vc with setAt := (bumped s).stabNum } (bumped s)
          = bumped (withCell v { vc with setAt := s.stabNum } s) := rfl
      rw [hW]
      generalize hWdef : bumped (withCell v { vc with setAt := s.stabNum } s) = W
      have hc : W.cfg.debug = s.cfg.debug := by subst hWdef; rfl
      have hn : W.isNecessary vc.node = s.isNecessary vc.node := by subst hWdef; rfl
      have hd : W.nodeD vc.node = s.nodeD vc.node := by subst hWdef; rfl
      rw [hc, hn, hd]
      by_cases hs : s.cfg.debug = true ∧ (!(s.nodeD vc.node).valid || W.isStale vc.node) = false
      · simp only [if_pos hs]
      · simp only [if_neg hs]

/-! ## `writeVar` -/

/-- the state after a write deferred during stabilisation -/
def deferred (v : Nat) (vc : VarCell) (f : Val → Val) (s : State) : State :=
  { s with vars := s.vars.setIfInBounds v { vc with pending := some (f (vc.pending.getD vc.value)) },
           setDuringStab := if vc.pending = none then v :: s.setDuringStab else s.setDuringStab }

theorem writeVar_inside_run (v : Nat) (f : Val → Val) (isSet : Bool) (s : State) (vc : VarCell)
    (hv : s.vars[v]? = some vc) (hst : s.status = .stabilising) :
    (writeVar v f isSet).run.run s = (.ok (vc.pending.getD vc.value), deferred v vc f s) := by
  simp only [writeVar, run_bind, run_getVar, hv, run_get, hst]
  cases hp : vc.pending with
  | none =>
    have hv' : ({ s with setDuringStab := v :: s.setDuringStab } : State).vars[v]? = some vc := hv
    simp only [run_bind, run_modify, run_modVar _ _ _ _ hv', run_pure, deferred, hp, withCell,
      Option.getD_none, if_true, ite_self]
  | some d =>
    simp only [run_bind, run_modVar _ _ _ _ hv, run_pure, deferred, hp, withCell, Option.getD_some]
    simp

theorem writeVar_outside_run (v : Nat) (f : Val → Val) (isSet : Bool) (s : State) (vc : VarCell)
    (hv : s.vars[v]? = some vc) (hst : s.status ≠ .stabilising) :
    (writeVar v f isSet).run.run s =
      mapOk vc.value ((didSetVarWhileNotStabilising v).run.run
        (withCell v { vc with value := f vc.value } s)) := by
  simp only [writeVar, run_bind, run_getVar, hv, run_get]
  cases hs : s.status with
  | stabilising => exact absurd hs hst
  | notStabilising =>
    simp only [run_modVar _ _ _ _ hv, run_pure, mapOk]
    generalize (didSetVarWhileNotStabilising v).run.run _ = r
    rcases r with ⟨_ | _, _⟩ <;> rfl
  | runningOnUpdateHandlers =>
    simp only [run_modVar _ _ _ _ hv, run_pure, mapOk]
    generalize (didSetVarWhileNotStabilising v).run.run _ = r
    rcases r with ⟨_ | _, _⟩ <;> rfl

/-- the state after an immediate write that also stamps `set_at` (before any heap insertion) -/
def stampedWrite (v : Nat) (vc : VarCell) (x : Val) (s : State) : State :=
  bumped (withCell v { vc with value := x, setAt := s.stabNum } s)

theorem mapOk_ite {α β} (b : β) (c : Prop) [Decidable c] (x y : Except Panic α × State) :
    mapOk b (if c then x else y) = if c then mapOk b x else mapOk b y := by
  split <;> rfl

theorem writeVar_outside_closed (v : Nat) (f : Val → Val) (isSet : Bool) (s : State) (vc : VarCell)
    (hv : s.vars[v]? = some vc) (hst : s.status ≠ .stabilising) :
    (writeVar v f isSet).run.run s =
      if vc.linked = false then
        (.error (.site "var:abandoned-watch-node"), withCell v { vc with value := f vc.value } s)
      else if s.stabNum ≤ vc.setAt then
        (.ok vc.value, bumped (withCell v { vc with value := f vc.value } s))
      else if s.cfg.debug = true ∧ (!(s.nodeD vc.node).valid ||
          (stampedWrite v vc (f vc.value) s).isStale vc.node) = false then
        (.error (.site "var:did_set:watch-stale"), stampedWrite v vc (f vc.value) s)
      else if ((s.nodeD vc.node).valid && s.isNecessary vc.node && !(s.nodeD vc.node).inRch) = true then
        mapOk vc.value ((rchInsert vc.node).run.run (stampedWrite v vc (f vc.value) s))
      else (.ok vc.value, stampedWrite v vc (f vc.value) s) := by
  rw [writeVar_outside_run v f isSet s vc hv hst,
    didSet_run v _ _ (withCell_get v _ vc s hv)]
  simp only [withCell_withCell, mapOk_ite]
  rfl

theorem isNecessary_node (s : State) (n : Nat) (h : s.isNecessary n = true) :
    ∃ nd, s.nodes[n]? = some nd ∧ s.nodeD n = nd := by
  unfold State.isNecessary State.nodeD at h
  unfold State.nodeD
  cases hn : s.nodes[n]? with
  | none => rw [hn] at h; exact absurd h (by decide)
  | some nd => exact ⟨nd, rfl, rfl⟩

/-- `is_stale` of a var's watch node only looks at the cell's `set_at` -/
theorem isStale_var (s : State) (n v : Nat) (nd : Node) (c : VarCell)
    (hn : s.nodes[n]? = some nd) (hk : nd.kind = .var v) (hc : s.vars[v]? = some c) :
    s.isStale n = (nd.valid && decide (c.setAt > nd.recomputedAt)) := by
  unfold State.isStale
  have : s.nodeD n = nd := by simp [State.nodeD, hn]
  simp only [this, Node.kind?]
  cases hval : nd.valid
  · simp
  · simp [hk, hc]

/-- exact result of an immediate write: which panic, or the old value -/
theorem writeVar_outside_result (v : Nat) (f : Val → Val) (isSet : Bool) (s : State) (vc : VarCell)
    (hv : s.vars[v]? = some vc) (hst : s.status ≠ .stabilising) :
    ((writeVar v f isSet).run.run s).1 =
      if vc.linked = false then .error (.site "var:abandoned-watch-node")
      else if s.stabNum ≤ vc.setAt then .ok vc.value
      else if s.cfg.debug = true ∧ (!(s.nodeD vc.node).valid ||
          (stampedWrite v vc (f vc.value) s).isStale vc.node) = false then
        .error (.site "var:did_set:watch-stale")
      else if ((s.nodeD vc.node).valid && s.isNecessary vc.node && !(s.nodeD vc.node).inRch) = false then
        .ok vc.value
      else if s.cfg.debug = true ∧ (s.nodeD vc.node).height > s.rch.maxAllowed then
        .error (.site "recompute_heap:insert:height<=max")
      else if (s.nodeD vc.node).height < 0 then .error (.site "recompute_heap:link:height>=0")
      else if (s.nodeD vc.node).height > s.rch.maxAllowed then
        .error (.site "recompute_heap:link:height<=max")
      else .ok vc.value := by
  rw [writeVar_outside_closed v f isSet s vc hv hst]
  by_cases h1 : vc.linked = false
  · rw [if_pos h1, if_pos h1]
  rw [if_neg h1, if_neg h1]
  by_cases h2 : s.stabNum ≤ vc.setAt
  · rw [if_pos h2, if_pos h2]
  rw [if_neg h2, if_neg h2]
  by_cases h3 : s.cfg.debug = true ∧ (!(s.nodeD vc.node).valid ||
      (stampedWrite v vc (f vc.value) s).isStale vc.node) = false
  · rw [if_pos h3, if_pos h3]
  rw [if_neg h3, if_neg h3]
  cases h4 : ((s.nodeD vc.node).valid && s.isNecessary vc.node && !(s.nodeD vc.node).inRch)
  · simp
  · simp only [if_true, Bool.true_eq_false, if_false]
    have h4' : s.isNecessary vc.node = true ∧ (!(s.nodeD vc.node).inRch) = true := by
      rw [Bool.and_eq_true, Bool.and_eq_true] at h4; exact ⟨h4.1.2, h4.2⟩
    have hvalid : (s.nodeD vc.node).valid = true := by
      rw [Bool.and_eq_true, Bool.and_eq_true] at h4; exact h4.1.1
    obtain ⟨nd, hnd, hD⟩ := isNecessary_node s vc.node h4'.1
    have hndW : (stampedWrite v vc (f vc.value) s).nodes[vc.node]? = some nd := hnd
    rw [rchInsert_run, hndW, hD]
    simp only
    have hpre : ¬ ((stampedWrite v vc (f vc.value) s).cfg.debug = true ∧
        (!nd.inRch && (stampedWrite v vc (f vc.value) s).needsToBeComputed vc.node) = false) := by
      rintro ⟨hd, hp⟩
      have hd' : s.cfg.debug = true := hd
      have hstale : (stampedWrite v vc (f vc.value) s).isStale vc.node = true := by
        cases hx : (stampedWrite v vc (f vc.value) s).isStale vc.node
        · exact absurd ⟨hd', by rw [hx, hvalid]; rfl⟩ h3
        · rfl
      have hnec : (stampedWrite v vc (f vc.value) s).isNecessary vc.node = true := h4'.1
      rw [hD] at h4'
      simp [State.needsToBeComputed, hstale, hnec, h4'.2] at hp
    rw [if_neg hpre]
    have e1 : (stampedWrite v vc (f vc.value) s).cfg.debug = s.cfg.debug := rfl
    have e2 : (stampedWrite v vc (f vc.value) s).rch = s.rch := rfl
    rw [e1, e2]
    by_cases h5 : s.cfg.debug = true ∧ nd.height > s.rch.maxAllowed
    · rw [if_pos h5, if_pos h5]; rfl
    rw [if_neg h5, if_neg h5]
    by_cases h6 : nd.height < 0
    · rw [if_pos h6, if_pos h6]; rfl
    rw [if_neg h6, if_neg h6]
    by_cases h7 : nd.height > s.rch.maxAllowed
    · rw [if_pos h7, if_pos h7]; rfl
    rw [if_neg h7, if_neg h7]; rfl

theorem mapOk_eq_ok {α β} (b r : β) (x : Except Panic α × State) (s' : State)
    (h : mapOk b x = (.ok r, s')) : r = b ∧ ∃ u, x = (.ok u, s') := by
  rcases x with ⟨_ | u, s''⟩
  · cases h
  · cases h; exact ⟨rfl, u, rfl⟩

theorem rchInsert_ok (n : Nat) (s s' : State) (u : Unit)
    (hr : (rchInsert n).run.run s = (.ok u, s')) :
    ∃ nd, s.nodes[n]? = some nd ∧ 0 ≤ nd.height ∧ nd.height ≤ s.rch.maxAllowed ∧
      s' = inserted n nd.height s := by
  rw [rchInsert_run] at hr
  cases hn : s.nodes[n]? with
  | none => rw [hn] at hr; cases hr
  | some nd =>
    rw [hn] at hr
    simp only at hr
    by_cases h1 : s.cfg.debug = true ∧ (!nd.inRch && s.needsToBeComputed n) = false
    · rw [if_pos h1] at hr; cases hr
    rw [if_neg h1] at hr
    by_cases h2 : s.cfg.debug = true ∧ nd.height > s.rch.maxAllowed
    · rw [if_pos h2] at hr; cases hr
    rw [if_neg h2] at hr
    by_cases h3 : nd.height < 0
    · rw [if_pos h3] at hr; cases hr
    rw [if_neg h3] at hr
    by_cases h4 : nd.height > s.rch.maxAllowed
    · rw [if_pos h4] at hr; cases hr
    rw [if_neg h4] at hr
    cases hr
    exact ⟨nd, rfl, by omega, by omega, rfl⟩

/-- the final state of a successful immediate write -/
def wroteOutside (v : Nat) (vc : VarCell) (x : Val) (s : State) : State :=
  if s.stabNum ≤ vc.setAt then bumped (withCell v { vc with value := x } s)
  else if ((s.nodeD vc.node).valid && s.isNecessary vc.node && !(s.nodeD vc.node).inRch) = true then
    inserted vc.node (s.nodeD vc.node).height (stampedWrite v vc x s)
  else stampedWrite v vc x s

theorem writeVar_outside_ok (v : Nat) (f : Val → Val) (isSet : Bool) (s s' : State) (vc : VarCell)
    (r : Val) (hv : s.vars[v]? = some vc) (hst : s.status ≠ .stabilising)
    (hr : (writeVar v f isSet).run.run s = (.ok r, s')) :
    r = vc.value ∧ s' = wroteOutside v vc (f vc.value) s ∧ vc.linked = true ∧
    (vc.setAt < s.stabNum → s.cfg.debug = true → (s.nodeD vc.node).valid = true →
      (stampedWrite v vc (f vc.value) s).isStale vc.node = true) ∧
    (vc.setAt < s.stabNum →
      ((s.nodeD vc.node).valid && s.isNecessary vc.node && !(s.nodeD vc.node).inRch) = true →
      0 ≤ (s.nodeD vc.node).height ∧ (s.nodeD vc.node).height ≤ s.rch.maxAllowed) := by
  rw [writeVar_outside_closed v f isSet s vc hv hst] at hr
  unfold wroteOutside
  by_cases h1 : vc.linked = false
  · rw [if_pos h1] at hr; cases hr
  rw [if_neg h1] at hr
  have hl : vc.linked = true := by simpa using h1
  by_cases h2 : s.stabNum ≤ vc.setAt
  · rw [if_pos h2] at hr; cases hr
    rw [if_pos h2]
    exact ⟨rfl, rfl, hl, fun h => by omega, fun h => by omega⟩
  rw [if_neg h2] at hr
  rw [if_neg h2]
  by_cases h3 : s.cfg.debug = true ∧ (!(s.nodeD vc.node).valid ||
      (stampedWrite v vc (f vc.value) s).isStale vc.node) = false
  · rw [if_pos h3] at hr; cases hr
  rw [if_neg h3] at hr
  have hstale : s.cfg.debug = true → (s.nodeD vc.node).valid = true →
      (stampedWrite v vc (f vc.value) s).isStale vc.node = true := by
    intro hd hval
    cases hx : (stampedWrite v vc (f vc.value) s).isStale vc.node
    · exact absurd ⟨hd, by rw [hx, hval]; rfl⟩ h3
    · rfl
  by_cases h4 : ((s.nodeD vc.node).valid && s.isNecessary vc.node && !(s.nodeD vc.node).inRch) = true
  · rw [if_pos h4] at hr
    rw [if_pos h4]
    obtain ⟨hrv, u, hu⟩ := mapOk_eq_ok _ _ _ _ hr
    obtain ⟨nd, hnd, hge, hle, hs'⟩ := rchInsert_ok _ _ _ _ hu
    have hD : s.nodeD vc.node = nd := by
      have : s.nodes[vc.node]? = some nd := hnd
      simp [State.nodeD, this]
    rw [hD] at hstale
    rw [hD]
    exact ⟨hrv, hs', hl, fun _ => hstale, fun _ _ => ⟨hge, hle⟩⟩
  · rw [if_neg h4] at hr
    rw [if_neg h4]
    cases hr
    exact ⟨rfl, rfl, hl, fun _ => hstale, fun _ h => absurd h h4⟩

/-- sufficient condition for an immediate write not to panic -/
theorem writeVar_outside_no_panic (v : Nat) (f : Val → Val) (isSet : Bool) (s : State) (vc : VarCell)
    (hv : s.vars[v]? = some vc) (hst : s.status ≠ .stabilising)
    (hl : vc.linked = true) (hd : s.cfg.debug = false)
    (hq : (s.nodeD vc.node).valid = false ∨ s.isNecessary vc.node = false ∨
      (s.nodeD vc.node).inRch = true ∨
      (0 ≤ (s.nodeD vc.node).height ∧ (s.nodeD vc.node).height ≤ s.rch.maxAllowed)) :
    ((writeVar v f isSet).run.run s).1 = .ok vc.value := by
  rw [writeVar_outside_result v f isSet s vc hv hst]
  simp only [hl, hd, Bool.true_eq_false, Bool.false_eq_true, false_and, if_false]
  split
  · rfl
  · split
    · rfl
    · rename_i h4
      rcases hq with h | h | h | ⟨h5, h6⟩
      · simp [h] at h4
      · simp [h] at h4
      · simp [h] at h4
      · rw [if_neg (by omega), if_neg (by omega)]

/-! ## what the final state of an immediate write looks like -/

theorem wroteOutside_vars (v : Nat) (vc : VarCell) (x : Val) (s : State) (hv : s.vars[v]? = some vc) :
    (wroteOutside v vc x s).vars[v]? =
        some { vc with value := x, setAt := if vc.setAt < s.stabNum then s.stabNum else vc.setAt } ∧
      (∀ w, w ≠ v → (wroteOutside v vc x s).vars[w]? = s.vars[w]?) := by
  unfold wroteOutside
  by_cases h2 : s.stabNum ≤ vc.setAt
  · have h3 : ¬ vc.setAt < s.stabNum := by omega
    simp only [if_pos h2, if_neg h3]
    exact ⟨withCell_get v _ vc s hv, fun w hw => withCell_get_ne v w _ s hw⟩
  · have h3 : vc.setAt < s.stabNum := by omega
    simp only [if_neg h2, if_pos h3]
    have hA := withCell_get v { vc with value := x, setAt := s.stabNum } vc s hv
    have hB : ∀ w, w ≠ v →
        (withCell v { vc with value := x, setAt := s.stabNum } s).vars[w]? = s.vars[w]? :=
      fun w hw => withCell_get_ne v w _ s hw
    split
    · exact ⟨hA, hB⟩
    · exact ⟨hA, hB⟩

theorem wroteOutside_frame (v : Nat) (vc : VarCell) (x : Val) (s : State) :
    (wroteOutside v vc x s).stabNum = s.stabNum ∧ (wroteOutside v vc x s).status = s.status ∧
    (wroteOutside v vc x s).setDuringStab = s.setDuringStab ∧
    (wroteOutside v vc x s).cfg = s.cfg ∧ (wroteOutside v vc x s).ahh = s.ahh ∧
    (wroteOutside v vc x s).maxHeightSeen = s.maxHeightSeen ∧
    (wroteOutside v vc x s).counters.varSets = s.counters.varSets + 1 ∧
    (wroteOutside v vc x s).nodes.size = s.nodes.size ∧
    (wroteOutside v vc x s).observers = s.observers ∧
    (∀ n, n ≠ vc.node → (wroteOutside v vc x s).nodes[n]? = s.nodes[n]?) := by
  unfold wroteOutside
  split
  · exact ⟨rfl, rfl, rfl, rfl, rfl, rfl, rfl, rfl, rfl, fun _ _ => rfl⟩
  · split
    · refine ⟨rfl, rfl, rfl, rfl, rfl, rfl, rfl, ?_, rfl, ?_⟩
      · simp [inserted, stampedWrite, bumped, withCell]
      · intro n hn
        simp [inserted, stampedWrite, bumped, withCell, Array.getElem?_modify, Ne.symm hn]
    · exact ⟨rfl, rfl, rfl, rfl, rfl, rfl, rfl, rfl, rfl, fun _ _ => rfl⟩

/-- same stabilisation round: only the value and the counter move -/
theorem wroteOutside_same_round (v : Nat) (vc : VarCell) (x : Val) (s : State)
    (h : s.stabNum ≤ vc.setAt) :
    wroteOutside v vc x s = bumped (withCell v { vc with value := x } s) := by
  unfold wroteOutside; rw [if_pos h]

theorem wroteOutside_node (v : Nat) (vc : VarCell) (x : Val) (s : State) (nd : Node)
    (hn : s.nodes[vc.node]? = some nd) :
    ∃ nd', (wroteOutside v vc x s).nodes[vc.node]? = some nd' ∧ nd'.kind = nd.kind ∧
      nd'.valid = nd.valid ∧ nd'.recomputedAt = nd.recomputedAt ∧ nd'.height = nd.height ∧
      nd'.parents = nd.parents ∧ nd'.observers = nd.observers ∧
      nd'.forceNecessary = nd.forceNecessary := by
  unfold wroteOutside
  split
  · exact ⟨nd, hn, rfl, rfl, rfl, rfl, rfl, rfl, rfl⟩
  · split
    · refine ⟨{ nd with heightInRch := (s.nodeD vc.node).height }, ?_, rfl, rfl, rfl, rfl, rfl, rfl, rfl⟩
      have : s.nodes[vc.node]? = some nd := hn
      simp [inserted, stampedWrite, bumped, withCell, Array.getElem?_modify, this]
    · exact ⟨nd, hn, rfl, rfl, rfl, rfl, rfl, rfl, rfl⟩

/-- after a write in a later round the watch node is stale (when it is a valid `Var` node that was
last recomputed in an earlier round) -/
theorem wroteOutside_stale (v : Nat) (vc : VarCell) (x : Val) (s : State) (nd : Node)
    (hv : s.vars[v]? = some vc) (hlt : vc.setAt < s.stabNum)
    (hn : s.nodes[vc.node]? = some nd) (hk : nd.kind = .var v) :
    (wroteOutside v vc x s).isStale vc.node = (nd.valid && decide (nd.recomputedAt < s.stabNum)) := by
  obtain ⟨nd', hn', hk', hva, hre, -⟩ := wroteOutside_node v vc x s nd hn
  have hc := (wroteOutside_vars v vc x s hv).1
  rw [isStale_var _ _ v nd' _ hn' (by rw [hk', hk]) hc, hva, hre, if_pos hlt]

theorem wroteOutside_necessary (v : Nat) (vc : VarCell) (x : Val) (s : State) :
    (wroteOutside v vc x s).isNecessary vc.node = s.isNecessary vc.node := by
  cases hn : s.nodes[vc.node]? with
  | none =>
    have h1 : s.isNecessary vc.node = false := by
      cases h : s.isNecessary vc.node
      · rfl
      · obtain ⟨nd, hnd, _⟩ := isNecessary_node s _ h
        rw [hn] at hnd; cases hnd
    rw [h1]
    unfold wroteOutside
    split
    · exact h1
    · rw [if_neg (by simp [h1])]; exact h1
  | some nd =>
    obtain ⟨nd', hn', _, _, _, _, hp, ho, hf⟩ := wroteOutside_node v vc x s nd hn
    have hn2 : s.nodes[vc.node]? = some nd := hn
    simp [State.isNecessary, State.nodeD, hn', hn2, Node.isNecessary, hp, ho, hf]

/-- later round, watch node necessary and not yet queued: it is appended to the bucket of its height -/
theorem wroteOutside_queued (v : Nat) (vc : VarCell) (x : Val) (s : State)
    (hlt : vc.setAt < s.stabNum)
    (hq : ((s.nodeD vc.node).valid && s.isNecessary vc.node && !(s.nodeD vc.node).inRch) = true) :
    (wroteOutside v vc x s).rch.queues =
        s.rch.queues.modify (s.nodeD vc.node).height.toNat (· ++ [vc.node]) ∧
    (wroteOutside v vc x s).rch.length = s.rch.length + 1 ∧
    ((wroteOutside v vc x s).nodeD vc.node).heightInRch = (s.nodeD vc.node).height ∧
    (wroteOutside v vc x s).isStable = false := by
  have hlt' : ¬ s.stabNum ≤ vc.setAt := by omega
  unfold wroteOutside
  rw [if_neg hlt', if_pos hq]
  rw [Bool.and_eq_true, Bool.and_eq_true] at hq
  obtain ⟨nd, hnd, hD⟩ := isNecessary_node s _ hq.1.2
  refine ⟨rfl, rfl, ?_, ?_⟩
  · have : s.nodes[vc.node]? = some nd := hnd
    simp [inserted, stampedWrite, bumped, withCell, State.nodeD, Array.getElem?_modify, this]
  · simp [State.isStable, inserted]

/-- later round, watch node invalid, unnecessary or already queued: heap and nodes untouched -/
theorem wroteOutside_not_queued (v : Nat) (vc : VarCell) (x : Val) (s : State)
    (hq : ¬ ((s.nodeD vc.node).valid && s.isNecessary vc.node && !(s.nodeD vc.node).inRch) = true) :
    (wroteOutside v vc x s).rch = s.rch ∧ (wroteOutside v vc x s).nodes = s.nodes := by
  unfold wroteOutside
  split
  · exact ⟨rfl, rfl⟩
  · exact ⟨rfl, rfl⟩

/-- later round: afterwards the watch node is queued iff it was queued or is valid and necessary -/
theorem wroteOutside_inRch (v : Nat) (vc : VarCell) (x : Val) (s : State)
    (hlt : vc.setAt < s.stabNum)
    (hh : ((s.nodeD vc.node).valid && s.isNecessary vc.node && !(s.nodeD vc.node).inRch) = true →
      0 ≤ (s.nodeD vc.node).height) :
    ((wroteOutside v vc x s).nodeD vc.node).inRch =
      ((s.nodeD vc.node).inRch || ((s.nodeD vc.node).valid && s.isNecessary vc.node)) := by
  by_cases hq : ((s.nodeD vc.node).valid && s.isNecessary vc.node && !(s.nodeD vc.node).inRch) = true
  · have h1 := (wroteOutside_queued v vc x s hlt hq).2.2.1
    have h2 := hh hq
    rw [Bool.and_eq_true, Bool.and_eq_true] at hq
    simp only [Node.inRch, h1, hq.1.1, hq.1.2, Bool.and_self, Bool.or_true]
    simpa using h2
  · have h1 := (wroteOutside_not_queued v vc x s hq).2
    have : (wroteOutside v vc x s).nodeD vc.node = s.nodeD vc.node := by
      simp [State.nodeD, h1]
    rw [this]
    cases ha : s.isNecessary vc.node <;> cases hb : (s.nodeD vc.node).inRch <;>
      cases hc : (s.nodeD vc.node).valid <;> simp_all

/-! ## `didSetVarWhileNotStabilising`: the final state when it returns -/

/-- final state of a successful `did_set_var_while_not_stabilising` on cell `vc` -/
def didSetFinal (v : Nat) (vc : VarCell) (s : State) : State :=
  if s.stabNum ≤ vc.setAt then bumped s
  else if ((s.nodeD vc.node).valid && s.isNecessary vc.node && !(s.nodeD vc.node).inRch) = true then
    inserted vc.node (s.nodeD vc.node).height (bumped (withCell v { vc with setAt := s.stabNum } s))
  else bumped (withCell v { vc with setAt := s.stabNum } s)

theorem didSet_ok (v : Nat) (s s' : State) (vc : VarCell) (u : Unit)
    (hv : s.vars[v]? = some vc)
    (hr : (didSetVarWhileNotStabilising v).run.run s = (.ok u, s')) :
    s' = didSetFinal v vc s ∧ vc.linked = true := by
  rw [didSet_run v s vc hv] at hr
  unfold didSetFinal
  by_cases h1 : vc.linked = false
  · rw [if_pos h1] at hr; cases hr
  rw [if_neg h1] at hr
  have hl : vc.linked = true := by simpa using h1
  by_cases h2 : s.stabNum ≤ vc.setAt
  · rw [if_pos h2] at hr; cases hr
    rw [if_pos h2]; exact ⟨rfl, hl⟩
  rw [if_neg h2] at hr
  rw [if_neg h2]
  simp only at hr
  by_cases h3 : s.cfg.debug = true ∧
      (!(s.nodeD vc.node).valid ||
        (bumped (withCell v { vc with setAt := s.stabNum } s)).isStale vc.node) = false
  · rw [if_pos h3] at hr; cases hr
  rw [if_neg h3] at hr
  by_cases h4 : ((s.nodeD vc.node).valid && s.isNecessary vc.node && !(s.nodeD vc.node).inRch) = true
  · rw [if_pos h4] at hr
    rw [if_pos h4]
    obtain ⟨nd, hnd, _, _, hs'⟩ := rchInsert_ok _ _ _ _ hr
    have hD : s.nodeD vc.node = nd := by
      have : s.nodes[vc.node]? = some nd := hnd
      simp [State.nodeD, this]
    rw [hD]
    exact ⟨hs', hl⟩
  · rw [if_neg h4] at hr
    rw [if_neg h4]
    cases hr
    exact ⟨rfl, hl⟩

theorem didSetFinal_facts (v : Nat) (vc : VarCell) (s : State) (hv : s.vars[v]? = some vc) :
    (didSetFinal v vc s).vars[v]? =
        some { vc with setAt := if vc.setAt < s.stabNum then s.stabNum else vc.setAt } ∧
    (∀ w, w ≠ v → (didSetFinal v vc s).vars[w]? = s.vars[w]?) ∧
    (didSetFinal v vc s).stabNum = s.stabNum ∧ (didSetFinal v vc s).status = s.status ∧
    (didSetFinal v vc s).setDuringStab = s.setDuringStab := by
  unfold didSetFinal
  by_cases h2 : s.stabNum ≤ vc.setAt
  · have h3 : ¬ vc.setAt < s.stabNum := by omega
    simp only [if_pos h2, if_neg h3]
    exact ⟨hv, fun _ _ => rfl, rfl, rfl, rfl⟩
  · have h3 : vc.setAt < s.stabNum := by omega
    simp only [if_neg h2, if_pos h3]
    have hA := withCell_get v { vc with setAt := s.stabNum } vc s hv
    have hB : ∀ w, w ≠ v →
        (withCell v { vc with setAt := s.stabNum } s).vars[w]? = s.vars[w]? :=
      fun w hw => withCell_get_ne v w _ s hw
    split
    · exact ⟨hA, hB, rfl, rfl, rfl⟩
    · exact ⟨hA, hB, rfl, rfl, rfl⟩

/-! ## the var phase of `stabiliseEnd` -/

/-- loop body of the var phase of `stabiliseEnd` -/
def applyPending (v : Nat) : M Unit := do
  match (← getVar v).pending with
  | none => pure ()
  | some x =>
    modVar v fun c => { c with pending := none, value := x }
    didSetVarWhileNotStabilising v

/-- the `for v in stack` loop of the var phase -/
def applyAll : List Nat → M Unit
  | [] => pure ()
  | v :: vs => do applyPending v; applyAll vs

theorem forIn_eq_applyAll (body : Nat → PUnit → M (ForInStep PUnit))
    (hb : ∀ v u, body v u = (do applyPending v; pure (ForInStep.yield PUnit.unit))) (stack : List Nat) :
    forIn stack PUnit.unit body = applyAll stack := by
  induction stack with
  | nil => rfl
  | cons v vs ih =>
    simp only [List.forIn_cons, hb, applyAll, bind_assoc, pure_bind, ih]

/-- first phase of `stabiliseEnd`: bump the counter, then apply the deferred writes -/
def stabiliseEndVars : M Unit := do
  modify fun s => { s with stabNum := s.stabNum + 1, currentlyRunning := none }
  let stack := (← get).setDuringStab
  modify fun s => { s with setDuringStab := [] }
  applyAll stack

/-- the rest of `stabiliseEnd` (dead vars, update handlers), verbatim -/
def stabiliseEndRest (env : Env) (fuel : Nat) : M Unit := do
  let dead := (← get).deadVars
  modify fun s => { s with deadVars := [] }
  for v in dead do modVar v fun c => { c with linked := false }
  let hs := (← get).handleAfterStab
  modify fun s => { s with handleAfterStab := [] }
  let mut queue : List (Nat × NodeUpdate) := []
  for n in hs do
    modNode n fun x => { x with inHandleAfterStab := false }
    queue := queue ++ [(n, (← get).nodeUpdate env n)]
  modify fun s => { s with status := .runningOnUpdateHandlers }
  let now := (← get).stabNum
  for (n, nu) in queue do
    for o in (← getNode n).observers do
      runAll env fuel o n nu now
  modify fun s =>
    let alive := s.aliveSet
    { s with memos := s.memos.map fun (m, tbl) => (m, tbl.filter fun (_, n) => alive.contains n) }
  modify fun s => { s with status := .notStabilising }

theorem stabiliseEnd_eq (env : Env) (fuel : Nat) :
    stabiliseEnd env fuel = (do stabiliseEndVars; stabiliseEndRest env fuel) := by
  simp only [stabiliseEnd, stabiliseEndVars, stabiliseEndRest, bind_assoc]
  congr 1; funext _; congr 1; funext st; congr 1; funext _
  rw [forIn_eq_applyAll]
  intro v u
  simp only [applyPending, bind_assoc]
  congr 1; funext c
  cases c.pending <;> simp

/-- what applying a deferred write does to one cell (`now` = the new stabilisation number) -/
def applyCell (now : Int) (c : VarCell) : VarCell :=
  match c.pending with
  | none => c
  | some x => { c with pending := none, value := x, setAt := if c.setAt < now then now else c.setAt }

theorem applyCell_idem (now : Int) (c : VarCell) : applyCell now (applyCell now c) = applyCell now c := by
  unfold applyCell
  cases h : c.pending with
  | none => simp [h]
  | some x => simp

theorem applyPending_run (v : Nat) (s : State) :
    (applyPending v).run.run s = match s.vars[v]? with
      | none => (.error (.site "model:no-such-var"), s)
      | some vc => match vc.pending with
        | none => (.ok (), s)
        | some x => (didSetVarWhileNotStabilising v).run.run
            (withCell v { vc with pending := none, value := x } s) := by
  simp only [applyPending, run_bind, run_getVar]
  cases hv : s.vars[v]? with
  | none => rfl
  | some vc =>
    simp only
    cases hp : vc.pending with
    | none => rfl
    | some x => simp only [run_bind, run_modVar _ _ _ _ hv]

theorem applyPending_ok (v : Nat) (s s' : State) (u : Unit)
    (hr : (applyPending v).run.run s = (.ok u, s')) :
    ∃ vc, s.vars[v]? = some vc ∧ s'.vars[v]? = some (applyCell s.stabNum vc) ∧
      (∀ w, w ≠ v → s'.vars[w]? = s.vars[w]?) ∧
      s'.stabNum = s.stabNum ∧ s'.status = s.status ∧ s'.setDuringStab = s.setDuringStab ∧
      (vc.pending ≠ none → vc.linked = true) := by
  rw [applyPending_run] at hr
  cases hv : s.vars[v]? with
  | none => rw [hv] at hr; cases hr
  | some vc =>
    simp only [hv] at hr
    refine ⟨vc, rfl, ?_⟩
    cases hp : vc.pending with
    | none =>
      simp only [hp] at hr; cases hr
      refine ⟨?_, fun _ _ => rfl, rfl, rfl, rfl, fun h => absurd rfl h⟩
      simp [applyCell, hp, hv]
    | some x =>
      simp only [hp] at hr
      have hv1 := withCell_get v { vc with pending := none, value := x } vc s hv
      obtain ⟨rfl, hl⟩ := didSet_ok v _ _ _ _ hv1 hr
      obtain ⟨h1, h2, h3, h4, h5⟩ := didSetFinal_facts v _ _ hv1
      refine ⟨?_, ?_, h3, h4, h5, fun _ => hl⟩
      · rw [h1]; simp only [applyCell, hp]; rfl
      · intro w hw; rw [h2 w hw]; exact withCell_get_ne v w _ s hw

theorem applyAll_ok (stack : List Nat) (s s' : State) (u : Unit)
    (hr : (applyAll stack).run.run s = (.ok u, s')) :
    s'.stabNum = s.stabNum ∧ s'.status = s.status ∧ s'.setDuringStab = s.setDuringStab ∧
    (∀ w, s'.vars[w]? =
      if w ∈ stack then (s.vars[w]?).map (applyCell s.stabNum) else s.vars[w]?) := by
  induction stack generalizing s with
  | nil => cases hr; exact ⟨rfl, rfl, rfl, fun w => by simp⟩
  | cons v vs ih =>
    simp only [applyAll, run_bind] at hr
    rcases h1 : (applyPending v).run.run s with ⟨r | u1, s1⟩
    · rw [h1] at hr; cases hr
    · rw [h1] at hr
      simp only at hr
      obtain ⟨vc, hv, hv', hw', hn, hst, hsd, _⟩ := applyPending_ok v s s1 u1 h1
      obtain ⟨i1, i2, i3, i4⟩ := ih s1 hr
      refine ⟨by rw [i1, hn], by rw [i2, hst], by rw [i3, hsd], ?_⟩
      intro w
      rw [i4 w, hn]
      by_cases hwv : w = v
      · subst hwv
        rw [hv', hv]
        simp [applyCell_idem]
      · rw [hw' w hwv]
        simp [hwv]

theorem stabiliseEndVars_run (s : State) :
    stabiliseEndVars.run.run s = (applyAll s.setDuringStab).run.run
      { s with stabNum := s.stabNum + 1, currentlyRunning := none, setDuringStab := [] } := by
  simp only [stabiliseEndVars, run_bind, run_modify, run_get]

theorem stabiliseEndVars_ok (s s' : State) (u : Unit)
    (hr : stabiliseEndVars.run.run s = (.ok u, s')) :
    s'.stabNum = s.stabNum + 1 ∧ s'.status = s.status ∧ s'.setDuringStab = [] ∧
    (∀ w, s'.vars[w]? =
      if w ∈ s.setDuringStab then (s.vars[w]?).map (applyCell (s.stabNum + 1)) else s.vars[w]?) := by
  rw [stabiliseEndVars_run] at hr
  exact applyAll_ok _ _ _ _ hr

/-- the var phase for one deferred var: the deferred value is applied and stamped with the NEW number -/
theorem stabiliseEndVars_applies (s s' : State) (u : Unit) (v : Nat) (vc : VarCell) (x : Val)
    (hr : stabiliseEndVars.run.run s = (.ok u, s'))
    (hmem : v ∈ s.setDuringStab) (hv : s.vars[v]? = some vc) (hp : vc.pending = some x)
    (hset : vc.setAt ≤ s.stabNum) :
    s'.vars[v]? = some { vc with value := x, pending := none, setAt := s.stabNum + 1 } := by
  have h := (stabiliseEndVars_ok s s' u hr).2.2.2 v
  rw [if_pos hmem, hv] at h
  rw [h]
  have : vc.setAt < s.stabNum + 1 := by omega
  simp [applyCell, hp, this]

/-- a var that is not on the stack is not touched by the var phase -/
theorem stabiliseEndVars_untouched (s s' : State) (u : Unit) (v : Nat)
    (hr : stabiliseEndVars.run.run s = (.ok u, s')) (hmem : v ∉ s.setDuringStab) :
    s'.vars[v]? = s.vars[v]? := by
  have h := (stabiliseEndVars_ok s s' u hr).2.2.2 v
  rw [if_neg hmem] at h
  exact h

/-! ## composition of deferred writes -/

theorem deferred_get (v : Nat) (vc : VarCell) (f : Val → Val) (s : State) (hv : s.vars[v]? = some vc) :
    (deferred v vc f s).vars[v]? = some { vc with pending := some (f (vc.pending.getD vc.value)) } :=
  withCell_get v _ vc s hv

theorem deferred_deferred (v : Nat) (vc : VarCell) (f g : Val → Val) (s : State) :
    deferred v { vc with pending := some (f (vc.pending.getD vc.value)) } g (deferred v vc f s) =
      deferred v vc (fun x => g (f x)) s := by
  simp [deferred, Array.setIfInBounds_setIfInBounds]

/-- the writes of `fs`, in order -/
def writeAll (v : Nat) : List (Val → Val) → M Unit
  | [] => pure ()
  | f :: fs => do let _ ← writeVar v f; writeAll v fs

theorem writeAll_eq_forM (v : Nat) (fs : List (Val → Val)) :
    writeAll v fs = forM fs (fun f => do let _ ← writeVar v f; pure ()) := by
  induction fs with
  | nil => rfl
  | cons f fs ih => simp [writeAll, ih]

theorem writeAll_inside_run (v : Nat) (fs : List (Val → Val)) (s : State) (vc : VarCell)
    (hv : s.vars[v]? = some vc) (hst : s.status = .stabilising) :
    (writeAll v fs).run.run s = (.ok (), match fs with
      | [] => s
      | _ :: _ => deferred v vc (fun x => fs.foldl (fun acc f => f acc) x) s) := by
  induction fs generalizing s vc with
  | nil => rfl
  | cons f rest ih =>
    simp only [writeAll, run_bind, writeVar_inside_run v f false s vc hv hst]
    rw [ih (deferred v vc f s) _ (deferred_get v vc f s hv) hst]
    cases rest with
    | nil => rfl
    | cons g rest' =>
      simp only [deferred_deferred, List.foldl_cons]

theorem deferred_frame (v : Nat) (vc : VarCell) (f : Val → Val) (s : State) :
    (deferred v vc f s).nodes = s.nodes ∧ (deferred v vc f s).rch = s.rch ∧
    (deferred v vc f s).ahh = s.ahh ∧ (deferred v vc f s).stabNum = s.stabNum ∧
    (deferred v vc f s).status = s.status ∧ (deferred v vc f s).counters = s.counters ∧
    (deferred v vc f s).observers = s.observers ∧ (deferred v vc f s).cfg = s.cfg ∧
    (∀ w, w ≠ v → (deferred v vc f s).vars[w]? = s.vars[w]?) :=
  ⟨rfl, rfl, rfl, rfl, rfl, rfl, rfl, rfl, fun w hw => withCell_get_ne v w _ s hw⟩

theorem writeAll_inside_facts (v : Nat) (fs : List (Val → Val)) (s : State) (vc : VarCell)
    (hv : s.vars[v]? = some vc) (hst : s.status = .stabilising) :
    ∃ s', (writeAll v fs).run.run s = (.ok (), s') ∧
      s'.vars[v]? = some { vc with pending :=
        (if fs = [] then vc.pending
          else some (fs.foldl (fun acc f => f acc) (vc.pending.getD vc.value))) } ∧
      (∀ w, w ≠ v → s'.vars[w]? = s.vars[w]?) ∧
      s'.setDuringStab =
        (if vc.pending = none ∧ fs ≠ [] then v :: s.setDuringStab else s.setDuringStab) ∧
      s'.setDuringStab.count v =
        s.setDuringStab.count v + (if vc.pending = none ∧ fs ≠ [] then 1 else 0) ∧
      s'.status = .stabilising ∧ s'.nodes = s.nodes ∧ s'.rch = s.rch ∧ s'.stabNum = s.stabNum := by
  refine ⟨_, writeAll_inside_run v fs s vc hv hst, ?_⟩
  cases fs with
  | nil => simp [hv, hst]
  | cons f rest =>
    obtain ⟨f1, f2, _, f4, f5, _, _, _, f9⟩ :=
      deferred_frame v vc (fun x => (f :: rest).foldl (fun acc f => f acc) x) s
    refine ⟨?_, f9, ?_, ?_, by rw [f5, hst], f1, f2, f4⟩
    · simpa using deferred_get v vc _ s hv
    · simp [deferred]
    · by_cases hp : vc.pending = none <;> simp [deferred, hp]

/-! ## immediate writes: the facts in terms of a successful run -/

theorem writeVar_outside_ok_facts (v : Nat) (f : Val → Val) (isSet : Bool) (s s' : State)
    (vc : VarCell) (r : Val) (hv : s.vars[v]? = some vc) (hst : s.status ≠ .stabilising)
    (hr : (writeVar v f isSet).run.run s = (.ok r, s')) :
    r = vc.value ∧ vc.linked = true ∧
    s'.vars[v]? = some { vc with value := f vc.value,
                                 setAt := if vc.setAt < s.stabNum then s.stabNum else vc.setAt } ∧
    (∀ w, w ≠ v → s'.vars[w]? = s.vars[w]?) ∧
    s'.stabNum = s.stabNum ∧ s'.status = s.status ∧ s'.setDuringStab = s.setDuringStab ∧
    s'.counters.varSets = s.counters.varSets + 1 ∧
    s'.nodes.size = s.nodes.size ∧ (∀ n, n ≠ vc.node → s'.nodes[n]? = s.nodes[n]?) ∧
    s'.ahh = s.ahh ∧ s'.maxHeightSeen = s.maxHeightSeen := by
  obtain ⟨h1, rfl, h3, -, -⟩ := writeVar_outside_ok v f isSet s s' vc r hv hst hr
  obtain ⟨a1, a2⟩ := wroteOutside_vars v vc (f vc.value) s hv
  obtain ⟨b1, b2, b3, _, b5, b6, b7, b8, _, b10⟩ := wroteOutside_frame v vc (f vc.value) s
  exact ⟨h1, h3, a1, a2, b1, b2, b3, b7, b8, b10, b5, b6⟩

theorem writeVar_outside_same_round (v : Nat) (f : Val → Val) (isSet : Bool) (s s' : State)
    (vc : VarCell) (r : Val) (hv : s.vars[v]? = some vc) (hst : s.status ≠ .stabilising)
    (hge : s.stabNum ≤ vc.setAt)
    (hr : (writeVar v f isSet).run.run s = (.ok r, s')) :
    s' = bumped (withCell v { vc with value := f vc.value } s) := by
  obtain ⟨-, rfl, -⟩ := writeVar_outside_ok v f isSet s s' vc r hv hst hr
  exact wroteOutside_same_round v vc _ s hge

theorem writeVar_outside_stale (v : Nat) (f : Val → Val) (isSet : Bool) (s s' : State)
    (vc : VarCell) (r : Val) (nd : Node) (hv : s.vars[v]? = some vc) (hst : s.status ≠ .stabilising)
    (hlt : vc.setAt < s.stabNum)
    (hn : s.nodes[vc.node]? = some nd) (hk : nd.kind = .var v)
    (hr : (writeVar v f isSet).run.run s = (.ok r, s')) :
    s'.isStale vc.node = (nd.valid && decide (nd.recomputedAt < s.stabNum)) ∧
    (s.cfg.debug = true → nd.valid = true → s'.isStale vc.node = true) := by
  obtain ⟨-, rfl, -, h4, -⟩ := writeVar_outside_ok v f isSet s s' vc r hv hst hr
  have e := wroteOutside_stale v vc (f vc.value) s nd hv hlt hn hk
  refine ⟨e, fun hd hval => ?_⟩
  have hD : s.nodeD vc.node = nd := by
    have : s.nodes[vc.node]? = some nd := hn
    simp [State.nodeD, this]
  have hW := h4 hlt hd (by rw [hD]; exact hval)
  have hnW : (stampedWrite v vc (f vc.value) s).nodes[vc.node]? = some nd := hn
  have hvW : (stampedWrite v vc (f vc.value) s).vars[v]? =
      some { vc with value := f vc.value, setAt := s.stabNum } := withCell_get v _ vc s hv
  rw [isStale_var _ _ v nd _ hnW hk hvW] at hW
  rw [e]; exact hW

theorem writeVar_outside_heap (v : Nat) (f : Val → Val) (isSet : Bool) (s s' : State)
    (vc : VarCell) (r : Val) (hv : s.vars[v]? = some vc) (hst : s.status ≠ .stabilising)
    (hlt : vc.setAt < s.stabNum)
    (hr : (writeVar v f isSet).run.run s = (.ok r, s')) :
    (s'.nodeD vc.node).inRch =
      ((s.nodeD vc.node).inRch || ((s.nodeD vc.node).valid && s.isNecessary vc.node)) ∧
    s'.isNecessary vc.node = s.isNecessary vc.node ∧
    (((s.nodeD vc.node).valid && s.isNecessary vc.node && !(s.nodeD vc.node).inRch) = true →
      0 ≤ (s.nodeD vc.node).height ∧ (s.nodeD vc.node).height ≤ s.rch.maxAllowed ∧
      s'.rch.queues = s.rch.queues.modify (s.nodeD vc.node).height.toNat (· ++ [vc.node]) ∧
      s'.rch.length = s.rch.length + 1 ∧
      (s'.nodeD vc.node).heightInRch = (s.nodeD vc.node).height ∧
      s'.isStable = false) ∧
    (¬ ((s.nodeD vc.node).valid && s.isNecessary vc.node && !(s.nodeD vc.node).inRch) = true →
      s'.rch = s.rch ∧ s'.nodes = s.nodes) := by
  obtain ⟨-, rfl, -, -, h5⟩ := writeVar_outside_ok v f isSet s s' vc r hv hst hr
  refine ⟨wroteOutside_inRch v vc _ s hlt (fun hq => (h5 hlt hq).1),
    wroteOutside_necessary v vc _ s, fun hq => ?_, fun hq => wroteOutside_not_queued v vc _ s hq⟩
  obtain ⟨q1, q2, q3, q4⟩ := wroteOutside_queued v vc (f vc.value) s hlt hq
  exact ⟨(h5 hlt hq).1, (h5 hlt hq).2, q1, q2, q3, q4⟩

/-! ## immediate writes to a var whose watch node has been invalidated (D14) -/

/-- the final state of an immediate write that does not touch nodes or heap: the new value, `set_at`
raised to the current round if it was older, the `var_sets` counter incremented -/
def wroteQuiet (v : Nat) (vc : VarCell) (x : Val) (s : State) : State :=
  bumped (withCell v { vc with value := x,
                               setAt := if vc.setAt < s.stabNum then s.stabNum else vc.setAt } s)

theorem wroteQuiet_eq (v : Nat) (vc : VarCell) (x : Val) (s : State) :
    wroteQuiet v vc x s =
      if s.stabNum ≤ vc.setAt then bumped (withCell v { vc with value := x } s)
      else stampedWrite v vc x s := by
  unfold wroteQuiet stampedWrite
  by_cases h : s.stabNum ≤ vc.setAt
  · have h' : ¬ vc.setAt < s.stabNum := by omega
    rw [if_pos h, if_neg h']
  · have h' : vc.setAt < s.stabNum := by omega
    rw [if_neg h, if_pos h']

/-- D14: watch node invalid, var still linked — the write succeeds (debug and release) and leaves
`wroteQuiet` -/
theorem writeVar_outside_invalid (v : Nat) (f : Val → Val) (isSet : Bool) (s : State) (vc : VarCell)
    (hv : s.vars[v]? = some vc) (hst : s.status ≠ .stabilising)
    (hl : vc.linked = true) (hinv : (s.nodeD vc.node).valid = false) :
    (writeVar v f isSet).run.run s = (.ok vc.value, wroteQuiet v vc (f vc.value) s) := by
  rw [writeVar_outside_closed v f isSet s vc hv hst, wroteQuiet_eq]
  have h1 : ¬ vc.linked = false := by simp [hl]
  rw [if_neg h1]
  by_cases h2 : s.stabNum ≤ vc.setAt
  · rw [if_pos h2, if_pos h2]
  · rw [if_neg h2, if_neg h2]
    have h3 : ¬ (s.cfg.debug = true ∧ (!(s.nodeD vc.node).valid ||
        (stampedWrite v vc (f vc.value) s).isStale vc.node) = false) := by
      simp [hinv]
    have h4 : ¬ ((s.nodeD vc.node).valid && s.isNecessary vc.node && !(s.nodeD vc.node).inRch) = true := by
      simp [hinv]
    rw [if_neg h3, if_neg h4]

theorem wroteQuiet_facts (v : Nat) (vc : VarCell) (x : Val) (s : State) (hv : s.vars[v]? = some vc) :
    (wroteQuiet v vc x s).vars[v]? =
        some { vc with value := x, setAt := if vc.setAt < s.stabNum then s.stabNum else vc.setAt } ∧
    (∀ w, w ≠ v → (wroteQuiet v vc x s).vars[w]? = s.vars[w]?) ∧
    (wroteQuiet v vc x s).nodes = s.nodes ∧ (wroteQuiet v vc x s).rch = s.rch ∧
    (wroteQuiet v vc x s).ahh = s.ahh ∧ (wroteQuiet v vc x s).stabNum = s.stabNum ∧
    (wroteQuiet v vc x s).status = s.status ∧
    (wroteQuiet v vc x s).setDuringStab = s.setDuringStab ∧
    (wroteQuiet v vc x s).observers = s.observers ∧ (wroteQuiet v vc x s).cfg = s.cfg ∧
    (wroteQuiet v vc x s).maxHeightSeen = s.maxHeightSeen ∧
    (wroteQuiet v vc x s).counters.varSets = s.counters.varSets + 1 :=
  ⟨withCell_get v _ vc s hv, fun w hw => withCell_get_ne v w _ s hw,
    rfl, rfl, rfl, rfl, rfl, rfl, rfl, rfl, rfl, rfl⟩

/-! ## example states (non-vacuity witnesses used by `Props/C08.lean`) -/

/-- not stabilising, round 3; var 0 (last set in round 1) watched by node 0, which is observed
(necessary), not queued, last recomputed in round 1; debug assertions on; limit 4 -/
def exV : State :=
  { State.init 4 true with
    stabNum := 3
    nodes := #[{ kind := .var 0, createdIn := .top, height := 0, recomputedAt := 1, changedAt := 1,
                 value := some (.int 1), observers := [0] }]
    vars := #[{ value := .int 1, setAt := 1, node := 0 }] }

/-- as `exV`, but the var was already set in the current round 3 -/
def exVsame : State :=
  { exV with vars := #[{ value := .int 1, setAt := 3, node := 0 }] }

/-- as `exV`, without debug assertions -/
def exVnd : State := { exV with cfg := { debug := false } }

/-- as `exV`, during a stabilisation; nothing deferred yet -/
def exVs : State := { exV with status := .stabilising }

/-- during a stabilisation, value 8 already deferred for var 0 -/
def exVs2 : State :=
  { exV with status := .stabilising, setDuringStab := [0],
             vars := #[{ value := .int 1, setAt := 1, node := 0, pending := some (.int 8) }] }

/-- as `exV`, after `break_rc_cycle` (the public handle was dropped) -/
def exVdead : State :=
  { exV with vars := #[{ value := .int 1, setAt := 1, node := 0, linked := false }] }

/-- as `exV`, but the watch node has been invalidated -/
def exVinv : State :=
  { exV with nodes := #[{ kind := .var 0, createdIn := .top, height := 0, recomputedAt := 1,
                          changedAt := 1, valid := false, observers := [0] }] }

end IncrVerif.Proofs
