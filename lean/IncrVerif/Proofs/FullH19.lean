import IncrVerif.Proofs.FullH18
/-!
# C01 full fragment, stage S3: the `didChange` invariant through the step of a `const`/`var`/`map`/`fold`/`bindMain` node with ANY cutoff of the
fragment (`.eq`, `.never`, `.dependOn a` on a `depend_on` node): SAME ghost.  A suppressing `.dependOn a` verdict leaves the stored value
unchanged by `DepInv` + `FirstFn`.
-/
namespace IncrVerif.Proofs.FullH
open IncrVerif.Engine IncrVerif.Proofs IncrVerif.Proofs.Step IncrVerif.Proofs.Sched IncrVerif.Proofs.Quiet
open IncrVerif.Proofs.MapRefH (ValFrame)
open IncrVerif.Proofs.BindH (DInv BGraph Below Edge)

section
variable {env : Env} {sp : Nat → Val → Val} {g : Nat → Option Val} {s : State}

/-- the defining value of a `depend_on` node is what its first input stores in the virtual state -/
theorem targetB_dependOn {n a b : Nat} {v : Val} (hfst : FirstFn env) (hk : (s.nodeD n).kind = .map fnFirst [a, b])
    (ht : BindH.TargetB (VE env sp) (virt g s) n v) : tv g s a = some v := by
  have hkv : ((virt g s).nodeD n).kind = .map fnFirst [a, b] := by rw [virt_nodeD, virtNode_kind, hk]; rfl
  simp only [BindH.TargetB, Target, hkv] at ht
  obtain ⟨vals, hvals, rfl⟩ := ht
  rw [virt_plainVals] at hvals
  simp only [evalArgs] at hvals
  cases ha : tv g s a with
  | none => rw [ha] at hvals; simp at hvals
  | some va =>
    cases hb : tv g s b with
    | none => rw [ha, hb] at hvals; simp at hvals
    | some vb =>
      rw [ha, hb] at hvals
      simp only [Option.some.injEq] at hvals
      subst hvals
      rw [virtEnv_fn_real env sp (by unfold fnFirst pBase; omega), hfst]

/-- **the `didChange` invariant through the step of a node that is neither a map_ref, nor a map_with_old, nor a change-detector node**, any
cutoff of the fragment -/
theorem static_keepsK_any {t : State} {n fuel : Nat} {r : Option Nat} {s' : State}
    (D : DInvF env sp t s g (some n)) (hfst : FirstFn env)
    (hk1 : ∀ p i, (s.nodeD n).kind ≠ .mapRef p i) (hk2 : ∀ m i, (s.nodeD n).kind ≠ .mapWithOld m i)
    (hk3 : ∀ b, (s.nodeD n).kind ≠ .bindLhsChange b)
    (h : (recomputeOne env fuel n).run.run s = (.ok r, s')) : KInv env g s' ∧ FFrag env sp g s' := by
  rcases D.frag.fr.cut n with hc | hc | ⟨a, b, hc, hkd⟩
  · exact static_keepsK' D hk1 hk2 hk3 (Or.inl hc) h
  · exact static_keepsK' D hk1 hk2 hk3 (Or.inr hc) h
  have gr := D.inv.graph
  obtain ⟨hnv, -⟩ := D.inv.cur n rfl
  have hlt : n < s.nodes.size := by have := gr.nec_lt hnv; rw [virt_size] at this; exact this
  have hvv := (gr.nec n hnv).1
  have hv : (s.nodeD n).valid = true := by rw [virt_nodeD, virtNode_valid] at hvv; exact hvv
  obtain ⟨v, es, ht, hrun⟩ := recomputeOne_as_mcv (fuel := fuel) D.frag gr hlt hv hk1 hk2 hk3 (kids_settled D) h
  rw [hrun] at h
  have hnd : ∀ m, ((logged es (started n s)).nodeD m) = (started n s).nodeD m := fun _ => rfl
  have hv0 : ((logged es (started n s)).nodeD n).value = (s.nodeD n).value := by
    rw [hnd, started_nodeD]; split <;> rfl
  have hca : ∀ m, ((logged es (started n s)).nodeD m).changedAt = (s.nodeD m).changedAt := by
    intro m; rw [hnd, started_nodeD]; split <;> rfl
  have VF : ValFrame n s (logged es (started n s)) := (ValFrame.started n s).logged es
  refine mcv_keepsK_gen D.frag gr D.k hlt hk1 VF hv0 (fun hd => ?_) h
  obtain ⟨o, ho, -, hch⟩ := mcvChanges_dependOn (by rw [VF.cutoff]; exact hc) hd
  rw [hv0] at ho
  rw [hca, hca] at hch
  have := D.dep n a b o hv hkd hc hch.symm ho
  rw [targetB_dependOn hfst hkd ht] at this
  cases this
  exact ho

end
end IncrVerif.Proofs.FullH
