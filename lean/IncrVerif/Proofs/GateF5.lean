import IncrVerif.Proofs.StepStamp
/-!
# C06, combined fragment, part 5: THE STAMP FRAME — `recomputeOne env fuel n` writes `recomputedAt` on `n` only, except on nodes it invalidates

`RR ex s s'`: no node disappears, an invalid node stays invalid, and every node outside `ex` keeps its `recomputedAt` or is invalid in `s'` (`invalidate_node` writes
`recomputed_at := now` on the dying node before it clears `valid`; nodes that do not exist yet read as the default node, `recomputedAt = -1`, and are created with `-1`).
This file: the relation, the `Pres` leaves (all outcomes) for the functions that cannot reach `invalidateNode` (port of `OnceF11`, `VR n ↦ RR ex`).
-/
open IncrVerif.Engine IncrVerif.Proofs IncrVerif.Proofs.Step
namespace IncrVerif.Proofs.GateF

structure RR (ex : Nat → Prop) (s s' : State) : Prop where
  size : s.nodes.size ≤ s'.nodes.size
  inval : ∀ m, (s.nodeD m).valid = false → (s'.nodeD m).valid = false
  stamp : ∀ m, ¬ ex m → (s'.nodeD m).recomputedAt = (s.nodeD m).recomputedAt ∨ (s'.nodeD m).valid = false

instance (ex : Nat → Prop) : PreOrd (RR ex) where
  refl _ := ⟨Nat.le_refl _, fun _ h => h, fun _ _ => Or.inl rfl⟩
  trans h1 h2 := by
    refine ⟨Nat.le_trans h1.size h2.size, fun m hm => h2.inval m (h1.inval m hm), fun m hm => ?_⟩
    rcases h2.stamp m hm with e | e
    · rcases h1.stamp m hm with e1 | e1
      · exact Or.inl (e.trans e1)
      · exact Or.inr (h2.inval m e1)
    · exact Or.inr e

theorem RR.mono {ex ex' : Nat → Prop} {s s' : State} (h : RR ex s s') (hx : ∀ m, ex m → ex' m) : RR ex' s s' :=
  ⟨h.size, h.inval, fun m hm => h.stamp m (fun e => hm (hx m e))⟩

theorem RR.of_eq {ex : Nat → Prop} {s s' : State} (hn : s'.nodes = s.nodes) : RR ex s s' :=
  ⟨by rw [hn]; exact Nat.le_refl _, fun m h => by simpa only [State.nodeD, hn] using h, fun m _ => Or.inl (by simp only [State.nodeD, hn])⟩

theorem RR.of_push_node {ex : Nat → Prop} {s s' : State} {nd : Node} (hn : s'.nodes = s.nodes.push nd) (hr : nd.recomputedAt = -1) : RR ex s s' := by
  have key : ∀ m, m < s.nodes.size → s'.nodeD m = s.nodeD m := by
    intro m hm
    simp only [State.nodeD, hn]
    rw [Array.getElem?_push, if_neg (by omega)]
  have dflt : ∀ m, s.nodes.size ≤ m → s.nodeD m = default := by
    intro m hm; simp [State.nodeD, Array.getElem?_eq_none hm]
  refine ⟨by rw [hn, Array.size_push]; omega, fun m h => ?_, fun m _ => Or.inl ?_⟩
  · by_cases hm : m < s.nodes.size
    · rw [key m hm]; exact h
    · rw [dflt m (by omega)] at h; cases h
  · by_cases hm : m < s.nodes.size
    · rw [key m hm]
    · rw [dflt m (by omega)]
      by_cases he : m = s.nodes.size
      · have : s'.nodeD m = nd := by
          simp only [State.nodeD, hn]
          rw [Array.getElem?_push, if_pos he]; rfl
        rw [this, hr]; rfl
      · have : s'.nodeD m = default := by
          simp only [State.nodeD, hn]
          rw [Array.getElem?_push, if_neg he, Array.getElem?_eq_none (by omega)]; rfl
        rw [this]

macro_rules
  | `(tactic| qleaf) => `(tactic| ((with_reducible apply Step.Pres.modify); intro _; exact RR.of_push_node rfl rfl))
macro_rules
  | `(tactic| qleaf) => `(tactic| ((with_reducible apply Step.Pres.modify); intro _; exact RR.of_eq rfl))

theorem PresR.modNode (ex : Nat → Prop) (n : Nat) (f : Node → Node)
    (hf : ∀ x, (f x).recomputedAt = x.recomputedAt ∧ ((f x).valid = x.valid ∨ (f x).valid = false)) :
    Step.Pres (RR ex) (Engine.modNode n f) := by
  unfold Engine.modNode
  apply Step.Pres.modify
  intro s
  refine ⟨by show s.nodes.size ≤ (s.nodes.modify n f).size; rw [Array.size_modify]; exact Nat.le_refl _, fun m h => ?_, fun m _ => ?_⟩
  · rw [nodeD_modify]
    split
    · rcases (hf (s.nodeD m)).2 with e | e
      · rw [e]; exact h
      · exact e
    · exact h
  · rw [nodeD_modify]
    split
    · exact Or.inl (hf _).1
    · exact Or.inl rfl
macro_rules
  | `(tactic| qleaf) => `(tactic| ((with_reducible apply PresR.modNode); intro _; first | exact ⟨rfl, Or.inl rfl⟩ | exact ⟨rfl, Or.inr rfl⟩))

/-- an excepted node may be stamped -/
theorem PresR.modNode_ex (ex : Nat → Prop) (n : Nat) (f : Node → Node) (hx : ex n)
    (hf : ∀ x, (f x).valid = x.valid ∨ (f x).valid = false) : Step.Pres (RR ex) (Engine.modNode n f) := by
  unfold Engine.modNode
  apply Step.Pres.modify
  intro s
  refine ⟨by show s.nodes.size ≤ (s.nodes.modify n f).size; rw [Array.size_modify]; exact Nat.le_refl _, fun m h => ?_, fun m hm => ?_⟩
  · rw [nodeD_modify]
    split
    · rcases hf (s.nodeD m) with e | e
      · rw [e]; exact h
      · exact e
    · exact h
  · rw [nodeD_modify]
    split
    · rename_i h; obtain ⟨h, -⟩ := h; subst h; exact absurd hx hm
    · exact Or.inl rfl
macro_rules
  | `(tactic| qleaf) => `(tactic| ((with_reducible apply PresR.modNode_ex) <;> first | exact rfl | exact Or.inr rfl | exact Or.inl rfl | (intro _; first | exact Or.inl rfl | exact Or.inr rfl)))

theorem PresR.modBind (ex : Nat → Prop) (b : Nat) (f : BindRec → BindRec) : Step.Pres (RR ex) (Engine.modBind b f) := by
  unfold Engine.modBind
  apply Step.Pres.modify
  intro s
  exact RR.of_eq rfl
macro_rules
  | `(tactic| qleaf) => `(tactic| with_reducible apply PresR.modBind)


macro_rules | `(tactic| qleaf) => `(tactic| apply Step.Pres.forIn)

/-- register a `Step.Pres (RR _)` lemma as a leaf -/
macro "r_leaf " n:ident : command =>
  `(macro_rules | `(tactic| qleaf) => `(tactic| with_reducible apply $n))

theorem PresR.tick (ex : Nat → Prop) : Step.Pres (RR ex) tick := by unfold Engine.tick; qpres
r_leaf PresR.tick
theorem PresR.logEv (ex : Nat → Prop) (e) : Step.Pres (RR ex) (logEv e) := by unfold Engine.logEv; qpres
r_leaf PresR.logEv
theorem PresR.modExpert (ex : Nat → Prop) (b f) : Step.Pres (RR ex) (modExpert b f) := by unfold Engine.modExpert; qpres
r_leaf PresR.modExpert
theorem PresR.modVar (ex : Nat → Prop) (b f) : Step.Pres (RR ex) (modVar b f) := by unfold Engine.modVar; qpres
r_leaf PresR.modVar
theorem PresR.modObs (ex : Nat → Prop) (b f) : Step.Pres (RR ex) (modObs b f) := by unfold Engine.modObs; qpres
r_leaf PresR.modObs
theorem PresR.rchLink (ex : Nat → Prop) (n) : Step.Pres (RR ex) (rchLink n) := by unfold Engine.rchLink; qpres
r_leaf PresR.rchLink
theorem PresR.rchUnlink (ex : Nat → Prop) (n) : Step.Pres (RR ex) (rchUnlink n) := by unfold Engine.rchUnlink; qpres
r_leaf PresR.rchUnlink
theorem PresR.rchInsert (ex : Nat → Prop) (n) : Step.Pres (RR ex) (rchInsert n) := by unfold Engine.rchInsert; qpres
r_leaf PresR.rchInsert
theorem PresR.rchRemove (ex : Nat → Prop) (n) : Step.Pres (RR ex) (rchRemove n) := by unfold Engine.rchRemove; qpres
r_leaf PresR.rchRemove
theorem PresR.rchMinHeight (ex : Nat → Prop) : Step.Pres (RR ex) rchMinHeight := by unfold Engine.rchMinHeight; qpres
r_leaf PresR.rchMinHeight
theorem PresR.rchIncreaseHeight (ex : Nat → Prop) (n) : Step.Pres (RR ex) (rchIncreaseHeight n) := by
  unfold Engine.rchIncreaseHeight; qpres
r_leaf PresR.rchIncreaseHeight
theorem PresR.setHeight (ex : Nat → Prop) (n h) : Step.Pres (RR ex) (setHeight n h) := by unfold Engine.setHeight; qpres
r_leaf PresR.setHeight
theorem PresR.ahhAddUnlessMem (ex : Nat → Prop) (n) : Step.Pres (RR ex) (ahhAddUnlessMem n) := by
  unfold Engine.ahhAddUnlessMem; qpres
r_leaf PresR.ahhAddUnlessMem
theorem PresR.ahhRemoveMin (ex : Nat → Prop) : Step.Pres (RR ex) ahhRemoveMin := by unfold Engine.ahhRemoveMin; qpres
r_leaf PresR.ahhRemoveMin
theorem PresR.ensureHeightRequirement (ex : Nat → Prop) (a b c d) : Step.Pres (RR ex) (ensureHeightRequirement a b c d) := by
  unfold Engine.ensureHeightRequirement; qpres
r_leaf PresR.ensureHeightRequirement



theorem PresR.adjustHeightsLoop (ex : Nat → Prop) (oc op fuel) : Step.Pres (RR ex) (adjustHeightsLoop oc op fuel) := by
  induction fuel with
  | zero => unfold Engine.adjustHeightsLoop; qpres
  | succ fuel ih => unfold Engine.adjustHeightsLoop; qpres; all_goals exact ih
r_leaf PresR.adjustHeightsLoop
theorem PresR.adjustHeights (ex : Nat → Prop) (oc op fuel) : Step.Pres (RR ex) (adjustHeights oc op fuel) := by
  unfold Engine.adjustHeights; qpres
r_leaf PresR.adjustHeights
theorem PresR.addParent (ex : Nat → Prop) (a b c) : Step.Pres (RR ex) (addParent a b c) := by unfold Engine.addParent; qpres
r_leaf PresR.addParent
theorem PresR.removeParent (ex : Nat → Prop) (a b c) : Step.Pres (RR ex) (removeParent a b c) := by
  unfold Engine.removeParent; qpres
r_leaf PresR.removeParent
theorem PresR.handleAfterStabilisation (ex : Nat → Prop) (n) : Step.Pres (RR ex) (handleAfterStabilisation n) := by
  unfold Engine.handleAfterStabilisation; qpres
r_leaf PresR.handleAfterStabilisation
theorem PresR.maybeHandleAfterStabilisation (ex : Nat → Prop) (n) : Step.Pres (RR ex) (maybeHandleAfterStabilisation n) := by
  unfold Engine.maybeHandleAfterStabilisation; qpres
r_leaf PresR.maybeHandleAfterStabilisation
theorem PresR.shouldCutoff (ex : Nat → Prop) (env n o v) : Step.Pres (RR ex) (shouldCutoff env n o v) := by
  unfold Engine.shouldCutoff; qpres
r_leaf PresR.shouldCutoff
theorem PresR.edgeOnChange (ex : Nat → Prop) (env e edge) : Step.Pres (RR ex) (edgeOnChange env e edge) := by
  unfold Engine.edgeOnChange; qpres
r_leaf PresR.edgeOnChange
theorem PresR.runEdgeCallback (ex : Nat → Prop) (env e i) : Step.Pres (RR ex) (runEdgeCallback env e i) := by
  unfold Engine.runEdgeCallback; qpres
r_leaf PresR.runEdgeCallback
theorem PresR.observabilityChange (ex : Nat → Prop) (e b) : Step.Pres (RR ex) (observabilityChange e b) := by
  unfold Engine.observabilityChange; qpres
r_leaf PresR.observabilityChange
theorem PresR.markMapRefUnknown (ex : Nat → Prop) (fuel n) : Step.Pres (RR ex) (markMapRefUnknown fuel n) := by
  induction fuel generalizing n with
  | zero => unfold Engine.markMapRefUnknown; qpres
  | succ fuel ih => unfold Engine.markMapRefUnknown; qpres; all_goals exact ih _
r_leaf PresR.markMapRefUnknown


end IncrVerif.Proofs.GateF
