import IncrVerif.Proofs.AuditF2
import IncrVerif.Proofs.FullH63
import IncrVerif.Proofs.FullH69
/-!
# C11, part 3: NON-VACUITY — the audit theorem applied to the concrete example histories `exHistF` / `exHistG` of `C01Full`, at every prefix

`exHistF` (21 actions): a bind whose closure builds a map_ref chain, a map_with_old machine, a map and a NESTED bind; writes, an lhs change (a generation dies: invalid
nodes), disallow, writes while unobserved, re-observation, an inner lhs change.  Kernel-checked facts about two of its states show that the audited states are not
trivial: the final state has 25 nodes, 14 of them needed, with recorded edges, scopes and invalid nodes; the state before the last `stabilise` has a NON-EMPTY recompute
heap (the written variable, needed and stale, in the bucket of its height).
-/
namespace IncrVerif.Proofs.AuditF
open IncrVerif.Engine IncrVerif.Driver IncrVerif.Proofs IncrVerif.Proofs.Step IncrVerif.Proofs.Sched IncrVerif.Proofs.Quiet
open IncrVerif.Proofs.FullH

/-- every state the example history `exHistF` passes through (after `k` actions, any `k`) passes the audit -/
theorem exHistF_audit_every (k : Nat) :
    ∃ s tk, Quiet.runActions fEnv (exHistF.take k) (State.init 128 true) #[] = .ok (s, tk) ∧ Audit s := by
  obtain ⟨s, tk, h⟩ := exHistF_runs
  have e : exHistF = exHistF.take k ++ exHistF.drop k := (List.take_append_drop k exHistF).symm
  have hH := exHistF_frag
  rw [e] at h hH
  obtain ⟨s1, tk1, h1, A, -⟩ := history_audit_every fEnv_envS fEnv_first hH h
  exact ⟨s1, tk1, h1, A⟩

/-- the same for `exHistG` (`depend_on`, the `cutoff` action) -/
theorem exHistG_audit_every (k : Nat) :
    ∃ s tk, Quiet.runActions fEnv (exHistG.take k) (State.init 128 true) #[] = .ok (s, tk) ∧ Audit s := by
  obtain ⟨s, tk, h⟩ := exHistG_runs
  have e : exHistG = exHistG.take k ++ exHistG.drop k := (List.take_append_drop k exHistG).symm
  have hH := exHistG_frag
  rw [e] at h hH
  obtain ⟨s1, tk1, h1, A, -⟩ := history_audit_every fEnv_envS fEnv_first hH h
  exact ⟨s1, tk1, h1, A⟩

/-- in terms of the evaluator `BindH.C2h.stateB` the concrete facts below are stated with -/
theorem exHistF_audit_state (k : Nat) : ∃ s, BindH.C2h.stateB fEnv (exHistF.take k) = some s ∧ Audit s := by
  obtain ⟨s, tk, h, A⟩ := exHistF_audit_every k
  refine ⟨s, ?_, A⟩
  unfold BindH.C2h.stateB
  rw [h]

set_option maxRecDepth 100000 in
/-- THE FINAL STATE of `exHistF` is not trivial: 25 nodes; the bind's main node 4 is needed, at height 8, with the inputs `[3, 21]` (its change detector and the current right-hand side);
node 21 records the entry `(4, 1)` and is lower (7); node 18 (a `map` built by the closure over the machine 17 and the outer variable 2) has the inputs `[17, 2]` and the variable 2
records `(18, 1)`; node 22 (of the generation the last inner lhs change killed) is invalid; the heap is empty -/
theorem exHistF_final_facts :
    EX.factF exHistF (fun s => (s.nodes.size, s.isNecessary 4, s.children 4, (s.nodeD 21).parents)) =
      some (25, true, [3, 21], [(4, 1)]) ∧
    EX.factF exHistF (fun s => ((s.nodeD 4).height, (s.nodeD 21).height, (s.nodeD 3).height)) = some (8, 7, 2) ∧
    EX.factF exHistF (fun s => (s.children 18, (s.nodeD 2).parents, (s.nodeD 22).valid, s.isNecessary 22, s.rch.length)) =
      some ([17, 2], [(18, 1), (19, 0)], false, false, 0) :=
  ⟨by decide +kernel, by decide +kernel, by decide +kernel⟩

set_option maxRecDepth 100000 in
/-- THE STATE BEFORE THE LAST `stabilise` (after `set n2 6`): the recompute heap is NOT empty — it holds exactly the written variable's node 2, needed and stale, in the bucket of its
height 1; the pending-observer lists matter too: after the `observe` (18 actions) the new observer waits in `newObservers` -/
theorem exHistF_pending_facts :
    EX.factF (exHistF.take 20) (fun s => (s.rch.length, s.rch.queues[1]?, s.isNecessary 2, s.isStale 2, (s.nodeD 2).height, (s.nodeD 2).heightInRch)) =
      some (1, some [2], true, true, 1, 1) ∧
    EX.factF (exHistF.take 18) (fun s => (s.newObservers, s.disallowedObservers)) = some ([1], []) :=
  ⟨by decide +kernel, by decide +kernel⟩

end IncrVerif.Proofs.AuditF
