import IncrVerif.Proofs.MemoH7
/-!
# C20 over whole histories, part 7: histories (K2)

`RunI env I A s s'`: `s'` is reached from `s` by API actions satisfying `A` (any token table, any outcome; the
harness's reset of the event log between actions is a step), and EVERY state reached on the way satisfies `I`.
-/
namespace IncrVerif.Proofs.MemoH
open IncrVerif.Engine IncrVerif.Proofs.Obs IncrVerif.Proofs.Memo IncrVerif.Proofs.Own

inductive RunI (env : Env) (I : State → Prop) (A : Action → Prop) : State → State → Prop
  | nil (s : State) : RunI env I A s s
  | step {s s1 s2 : State} (a : Action) (tokens : Array Nat) (r : Except Panic (String × Array Nat)) :
      A a → (stepAction env a tokens).run.run s = (r, s1) → I s1 → RunI env I A s1 s2 → RunI env I A s s2
  | clearLog {s s2 : State} : RunI env I A { s with log := [] } s2 → RunI env I A s s2

/-- forgetting the invariant: a `RunI` history is a history -/
theorem RunI.run {env : Env} {I : State → Prop} {A : Action → Prop} {s s' : State}
    (h : RunI env I A s s') : Life.Run env (fun a _ => A a) s s' := by
  induction h with
  | nil => exact .nil _
  | step a tokens r ha hrun _ _ ih => exact .step a tokens r ha hrun ih
  | clearLog _ ih => exact .clearLog ih

/-- the invariant holds in the last state -/
theorem RunI.last {env : Env} {I : State → Prop} {A : Action → Prop} {s s' : State}
    (hlog : ∀ t : State, I t → I { t with log := [] }) (h0 : I s) (h : RunI env I A s s') : I s' := by
  induction h with
  | nil => exact h0
  | step _ _ _ _ _ hI _ ih => exact ih hI
  | clearLog _ ih => exact ih (hlog _ h0)

theorem stored_clearLog (s : State) (m : Nat) (key : Int) :
    stored { s with log := [] } m key = stored s m key := rfl

theorem TInv.clearLog {env : Env} {s : State} (h : TInv env s) : TInv env { s with log := [] } :=
  h.mono (Fut.of_eq rfl rfl) rfl

/-- K2, SHARING, anchor form: bind closures may call ANY memoised function with ANY key.  If table `m` has
`key ↦ n` and `n` is anchored (the program holds a node handle or an observer handle on `n` or on a static
node that has `n` among its inputs, hereditarily) in every state of the history, the entry is still
`key ↦ n` at the end -/
theorem share_anchored (env : Env) (m : Nat) (key : Int) (n : Nat) {s s' : State}
    (hs : stored s m key = some n) (ha : Anchored s n)
    (h : RunI env (fun t => Anchored t n) (fun _ => True) s s') :
    stored s' m key = some n ∧ Anchored s' n := by
  induction h with
  | nil => exact ⟨hs, ha⟩
  | step a tokens r _ hrun hI _ ih =>
    exact ih (anchored_entry_step env m key n a tokens _ _ r hrun ha hs) hI
  | clearLog _ ih => exact ih hs (by refine Anchored.congr _ _ ?_ ?_ ?_ ha <;> rfl)

/-- K2, SHARING, allocation form: bind closures do not call `(m, key)` themselves.  If table `m` has `key ↦ n`
and `n` is still allocated (`aliveSet`: whatever keeps it — handles, observers, parents, bind records, shared
cells, the recompute heap) in every state of the history, the entry is still `key ↦ n` at the end -/
theorem share_alive {env : Env} (hok : MemoBodyOK env) (m : Nat) (key : Int) (n : Nat)
    (hb : BodiesP (NotThis m key) env) {s s' : State} (ht : TInv env s)
    (hs : stored s m key = some n) (ha : n ∈ s.aliveSet)
    (h : RunI env (fun t => n ∈ t.aliveSet) (fun _ => True) s s') :
    stored s' m key = some n ∧ TInv env s' := by
  induction h with
  | nil => exact ⟨hs, ht⟩
  | @step s s1 s2 a tokens r _ hrun hI _ ih =>
    by_cases hc : a = .create (.memoCall m key)
    · subst hc
      rw [call_hit env m key tokens s n hs ha] at hrun
      cases hrun
      exact ih ((MS.push (env := env) s n).tinv ht) hs hI
    · obtain ⟨ht1, h1⟩ := entry_step hok m key hb a tokens hc s s1 r hrun ht
      refine ih ht1 ?_ hI
      rcases h1 with h1 | h1
      · rw [h1]; exact hs
      · rw [h1, hs]
        have hI' : n ∈ s1.aliveSet := hI
        simp [Option.filter, hI']
  | clearLog _ ih => exact ih ht.clearLog hs ha

/-- K2, converse: no call `(m, key)` in between (neither an API action nor from a bind closure): the entry of
`key` is what it was, or has been swept -/
theorem entry_weak {env : Env} (hok : MemoBodyOK env) (m : Nat) (key : Int)
    (hb : BodiesP (NotThis m key) env) {s s' : State} (ht : TInv env s)
    (h : RunI env (fun _ => True) (fun a => a ≠ .create (.memoCall m key)) s s') :
    (stored s' m key = stored s m key ∨ stored s' m key = none) ∧ TInv env s' := by
  induction h with
  | nil => exact ⟨.inl rfl, ht⟩
  | @step s s1 s2 a tokens r hA hrun _ _ ih =>
    obtain ⟨ht1, h1⟩ := entry_step hok m key hb a tokens hA s s1 r hrun ht
    obtain ⟨h2, ht2⟩ := ih ht1
    refine ⟨?_, ht2⟩
    have h1' : stored s1 m key = stored s m key ∨ stored s1 m key = none := by
      rcases h1 with h1 | h1
      · exact .inl h1
      · rw [h1]
        cases hst : stored s m key with
        | none => exact .inl rfl
        | some x =>
          by_cases hx : x ∈ s1.aliveSet
          · exact .inl (by simp [Option.filter, hx])
          · exact .inr (by simp [Option.filter, hx])
    rcases h2 with h2 | h2
    · rcases h1' with h1' | h1'
      · exact .inl (h2.trans h1')
      · exact .inr (h2.trans h1')
    · exact .inr h2
  | clearLog _ ih => exact ih ht.clearLog

/-- … hence a later call with that key whose old node is no longer allocated is a miss -/
theorem dead_entry_misses {s : State} {m : Nat} {key : Int} {n : Nat}
    (hs : stored s m key = some n ∨ stored s m key = none) (hd : n ∉ s.aliveSet) :
    memoHit s m key = none := by
  unfold memoHit
  rcases hs with hs | hs
  · rw [hs]
    have : s.isAlive n = false := by
      unfold State.isAlive
      simpa using hd
    simp [this]
  · rw [hs]

end IncrVerif.Proofs.MemoH
