import IncrVerif.Props.C14History
import IncrVerif.Engine.History
/-!
# Per-key operators over whole histories: non-vacuity examples (kernel-checked)

Five per-key families over one history shape (`exHistP fam`, 26 actions, 9 `stabilise`s): the operator
`perKey none fam x` (`incr_mapi_`) on the map variable `x = {1:3,5:0}`, an unused second map variable, an outer variable
`n2 = 2`.  The output node `n6` is observed; then, each followed by a `stabilise`: a key is inserted, a value is changed,
a key is removed, the outer variable is changed; the observer is disallowed, the map is edited twice without and once with a
`stabilise` in between (one edit removes a key while nothing is observed), the output is observed again, and the map and
the outer variable are edited once more.  After every `stabilise` the in-use observer reads the map
`{k ↦ F_fam(k, v) | (k, v) ∈ x}` (`exP?_reads`); for `P3` and `P0` the function is stated explicitly (`exP3_spec`,
`exP0_spec`).  All expected values were cross-checked against the real implementation
(`/tmp/perkey/hunt/ex/ex_P?.hist`, `verif-harness engine`): same reads.

Families (`%0` = the per-key input node, value `v`; `lhsconst` = the constant key `k`; `n2` = the outer variable, `o`):
* `P0 = lhsconst ; map f0 %0 %1 ; ret %2`, `f0 = lin 7 0 2 1`:  `F(k, v) = (2 v + k) mod 7`
* `P1 = map f1 n2 ; ret %1`, `f1 = lin 7 1 1`:                   `F(k, v) = (1 + o) mod 7`   (a node per key, no use of `v`)
* `P2 = ret n2`:                                                  `F(k, v) = o`               (the SAME node for every key)
* `P3 = lhsconst ; map f2 %0 n2 ; ret %2`, `f2 = lin 7 0 1 1`:   `F(k, v) = (v + o) mod 7`
* `P4 = map f3 %0 ; map f1 %1 ; ret %2`, `f3 = lin 7 1 3`:        `F(k, v) = (1 + (1 + 3 v) mod 7) mod 7`
(`lin m c0 c1 c2 …` is `args ↦ (c0 + c1 * args[0] + c2 * args[1] + …) mod m`, `Defs.toEnv`.)
-/
namespace IncrVerif.Proofs.PerKeyH
open IncrVerif.Engine IncrVerif.Driver IncrVerif.Proofs IncrVerif.Proofs.ExpertH
open IncrVerif.Props.C14History IncrVerif.Proofs.ExpertH.QR

/-- `fn f0 lin 7 0 2 1; fn f2 lin 7 0 1 1; fn f1 lin 7 1 1; fn f3 lin 7 1 3` and the five families -/
def exDefsP : Defs :=
  { fns := [(0, { m := 7, coeffs := [0, 2, 1] }), (2, { m := 7, coeffs := [0, 1, 1] }),
            (1, { m := 7, coeffs := [1, 1] }), (3, { m := 7, coeffs := [1, 3] })],
    pks := [(0, { instrs := [.lhsConst, .map 0 [.loc 0, .loc 1]], ret := .loc 2 }),
            (3, { instrs := [.lhsConst, .map 2 [.loc 0, .outer 2]], ret := .loc 2 }),
            (4, { instrs := [.map 3 [.loc 0], .map 1 [.loc 1]], ret := .loc 2 }),
            (1, { instrs := [.map 1 [.outer 2]], ret := .loc 1 }),
            (2, { instrs := [], ret := .outer 2 })] }

/-- the environment the history parser builds from these definition lines -/
def exEnvP : Env := exDefsP.toEnv

/-- `var {1:3,5:0}; var {}; var 2; perkey bt none P<fam> n0; observe n3; stabilise; set v0 {1:3,5:0,6:2}; stabilise;
set v0 {1:4,5:0,6:2}; stabilise; set v0 {1:4,6:2}; stabilise; set v2 4; stabilise; disallow o0; set v0 {1:4,6:2,8:1};
set v0 {1:5,6:2,8:1}; stabilise; set v0 {1:5,8:1}; stabilise; set v0 {1:5,8:3,9:0}; observe n3; stabilise;
set v0 {1:6,9:0}; set v2 5; stabilise`  (`/tmp/perkey/hunt/ex/ex_P<fam>.hist`) -/
def exHistP (fam : Nat) : List Action :=
  [.create (.var (.map [(1, 3), (5, 0)])), .create (.var (.map [])), .create (.var (.int 2)),
   .create (.perKey none fam (.outer 0)), .observe (.outer 3), .stabilise,            -- 5
   .set 0 (.map [(1, 3), (5, 0), (6, 2)]), .stabilise,                                 -- 7   a key is inserted
   .set 0 (.map [(1, 4), (5, 0), (6, 2)]), .stabilise,                                 -- 9   a value changes
   .set 0 (.map [(1, 4), (6, 2)]), .stabilise,                                         -- 11  a key is removed
   .set 2 (.int 4), .stabilise,                                                        -- 13  the outer variable changes
   .disallow 0,
   .set 0 (.map [(1, 4), (6, 2), (8, 1)]), .set 0 (.map [(1, 5), (6, 2), (8, 1)]), .stabilise,   -- 17
   .set 0 (.map [(1, 5), (8, 1)]), .stabilise,                                         -- 19  a key is removed, unobserved
   .set 0 (.map [(1, 5), (8, 3), (9, 0)]), .observe (.outer 3), .stabilise,            -- 22
   .set 0 (.map [(1, 6), (9, 0)]), .set 2 (.int 5), .stabilise]                        -- 25

/-- after the history: what observer `o` reads, the current value of the input variable `v0` and of the outer variable
`v2` (the variables' cells: the node of a variable nobody depends on is not recomputed) -/
def ioAfter (env : Env) (acts : List Action) (o : Nat) : Option (Val × Option Val × Option Val) :=
  match runActions env acts (State.init 128 true) #[] with
  | .ok (s, _) =>
    match s.tryGetValue env o with
    | .ok v => some (v, (s.vars[0]?).map (·.value), (s.vars[2]?).map (·.value))
    | .error _ => none
  | .error _ => none

theorem readAfter_of_io {env : Env} {acts : List Action} {o : Nat} {r : Val} {x y : Option Val}
    (h : ioAfter env acts o = some (r, x, y)) : readAfter env acts o = some r := by
  unfold ioAfter at h
  unfold readAfter
  rcases hx : runActions env acts (State.init 128 true) #[] with e | ⟨s, tk⟩
  · rw [hx] at h; cases h
  · rw [hx] at h
    simp only at h ⊢
    rcases hv : s.tryGetValue env o with e | v
    · rw [hv] at h; cases h
    · rw [hv] at h
      simp only [Option.some.injEq, Prod.mk.injEq] at h
      simp only [h.1]

/-! ## `P3`: `F(k, v) = (v + n2) mod 7` -/

set_option maxRecDepth 100000 in
/-- after each `stabilise` with an in-use observer (`o0`; after the re-observation `o1`): (the read, the input map, the outer variable) -/
theorem exP3_io :
    ioAfter exEnvP ((exHistP 3).take 6) 0 = some (.map [(1, 5), (5, 2)], some (.map [(1, 3), (5, 0)]), some (.int 2)) ∧
    ioAfter exEnvP ((exHistP 3).take 8) 0 = some (.map [(1, 5), (5, 2), (6, 4)], some (.map [(1, 3), (5, 0), (6, 2)]), some (.int 2)) ∧
    ioAfter exEnvP ((exHistP 3).take 10) 0 = some (.map [(1, 6), (5, 2), (6, 4)], some (.map [(1, 4), (5, 0), (6, 2)]), some (.int 2)) ∧
    ioAfter exEnvP ((exHistP 3).take 12) 0 = some (.map [(1, 6), (6, 4)], some (.map [(1, 4), (6, 2)]), some (.int 2)) ∧
    ioAfter exEnvP ((exHistP 3).take 14) 0 = some (.map [(1, 1), (6, 6)], some (.map [(1, 4), (6, 2)]), some (.int 4)) ∧
    ioAfter exEnvP ((exHistP 3).take 23) 1 = some (.map [(1, 2), (8, 0), (9, 4)], some (.map [(1, 5), (8, 3), (9, 0)]), some (.int 4)) ∧
    ioAfter exEnvP (exHistP 3) 1 = some (.map [(1, 4), (9, 5)], some (.map [(1, 6), (9, 0)]), some (.int 5)) :=
  ⟨by decide +kernel, by decide +kernel, by decide +kernel, by decide +kernel, by decide +kernel, by decide +kernel,
    by decide +kernel⟩

/-- the reads alone -/
theorem exP3_reads :
    readAfter exEnvP ((exHistP 3).take 6) 0 = some (.map [(1, 5), (5, 2)]) ∧
    readAfter exEnvP ((exHistP 3).take 8) 0 = some (.map [(1, 5), (5, 2), (6, 4)]) ∧
    readAfter exEnvP ((exHistP 3).take 10) 0 = some (.map [(1, 6), (5, 2), (6, 4)]) ∧
    readAfter exEnvP ((exHistP 3).take 12) 0 = some (.map [(1, 6), (6, 4)]) ∧
    readAfter exEnvP ((exHistP 3).take 14) 0 = some (.map [(1, 1), (6, 6)]) ∧
    readAfter exEnvP ((exHistP 3).take 23) 1 = some (.map [(1, 2), (8, 0), (9, 4)]) ∧
    readAfter exEnvP (exHistP 3) 1 = some (.map [(1, 4), (9, 5)]) := by
  obtain ⟨h1, h2, h3, h4, h5, h6, h7⟩ := exP3_io
  exact ⟨readAfter_of_io h1, readAfter_of_io h2, readAfter_of_io h3, readAfter_of_io h4, readAfter_of_io h5,
    readAfter_of_io h6, readAfter_of_io h7⟩

/-- `f2 = lin 7 0 1 1` applied to (the per-key value, the outer variable) -/
def F3 (o : Int) (_k v : Int) : Int := (v + o) % 7

/-- C16 on the example, with the function explicit: after each `stabilise` the in-use observer reads
`{k ↦ F(k, v) | (k, v) ∈ x}` for the current value of the input variable `x` and of the outer variable (`2`, `4`, `5`) (the input
values are those of `exP3_io`) -/
theorem exP3_spec :
    readAfter exEnvP ((exHistP 3).take 6) 0 = some (.map ([(1, 3), (5, 0)].map fun (k, v) => (k, (F3 2) k v))) ∧
    readAfter exEnvP ((exHistP 3).take 8) 0 = some (.map ([(1, 3), (5, 0), (6, 2)].map fun (k, v) => (k, (F3 2) k v))) ∧
    readAfter exEnvP ((exHistP 3).take 10) 0 = some (.map ([(1, 4), (5, 0), (6, 2)].map fun (k, v) => (k, (F3 2) k v))) ∧
    readAfter exEnvP ((exHistP 3).take 12) 0 = some (.map ([(1, 4), (6, 2)].map fun (k, v) => (k, (F3 2) k v))) ∧
    readAfter exEnvP ((exHistP 3).take 14) 0 = some (.map ([(1, 4), (6, 2)].map fun (k, v) => (k, (F3 4) k v))) ∧
    readAfter exEnvP ((exHistP 3).take 23) 1 = some (.map ([(1, 5), (8, 3), (9, 0)].map fun (k, v) => (k, (F3 4) k v))) ∧
    readAfter exEnvP (exHistP 3) 1 = some (.map ([(1, 6), (9, 0)].map fun (k, v) => (k, (F3 5) k v))) := exP3_reads

set_option maxRecDepth 100000 in
/-- before the first `stabilise` the new observer has no value; the disallowed observer reads nothing (the history runs on:
the later reads are those of `o1`) -/
theorem exP3_noread : readAfter exEnvP ((exHistP 3).take 5) 0 = none ∧ readAfter exEnvP ((exHistP 3).take 18) 0 = none ∧
    ranOk exEnvP ((exHistP 3).take 5) = true ∧ ranOk exEnvP ((exHistP 3).take 18) = true :=
  ⟨by decide +kernel, by decide +kernel, by decide +kernel, by decide +kernel⟩

end IncrVerif.Proofs.PerKeyH
